(** C35 — IncrementValidator.Verify and the proposer's filter loop, for any validator state,
    ledger nonce source, start height, input list and initial context. *)
From Coq Require Import List Bool NArith Lia.
Import ListNotations.
From Ont Require Import Model.TxPool Proofs.TxPoolAL.
Local Open Scope N_scope.

Definition tx_wf (t : tx) : Prop := tx_nonce t < U32 /\ tx_price t < U64.
Definition is_of (P : N) (t : tx) : bool := tx_eip t && (tx_payer t =? P).

(** the nonce Verify starts from for a payer with no context entry yet *)
Definition iv_init (v : ival) (ln : N -> N) (P : N) : N :=
  let w := window_nonce P (iv_nonces v) in if w =? 0 then ln P else w.
Definition expect (v : ival) (ln : N -> N) (ctx : list (N * N)) (P : N) : N :=
  if nget P ctx =? 0 then iv_init v ln P else nget P ctx.

Fixpoint consec (n : N) (l : list N) : Prop :=
  match l with [] => True | x :: r => x = n /\ consec (n + 1) r end.

Lemma consec_ge n l : consec n l -> forall x, In x l -> n <= x.
Proof.
  revert n; induction l as [|y r IH]; simpl; intros n H x []; destruct H as [E H].
  - subst; lia.
  - specialize (IH _ H x H0). lia.
Qed.

Lemma nget_aput k k' x (m : list (N * N)) : nget k (aput k' x m) = if k =? k' then x else nget k m.
Proof. unfold nget. rewrite aget_aput. destruct (k =? k'); reflexivity. Qed.

Definition verify_ctx1 (v : ival) (ln : N -> N) (P : N) (ctx : list (N * N)) : list (N * N) :=
  if nget P ctx =? 0 then
    let w := window_nonce P (iv_nonces v) in
    let ctxw := if w =? 0 then ctx else aput P w ctx in
    if nget P ctxw =? 0 then aput P (ln P) ctxw else ctxw
  else ctx.

Lemma ctx1_same v ln P ctx : nget P (verify_ctx1 v ln P ctx) = expect v ln ctx P.
Proof.
  unfold verify_ctx1, expect, iv_init. cbv zeta.
  destruct (N.eqb_spec (nget P ctx) 0) as [E|E]; [|reflexivity].
  destruct (N.eqb_spec (window_nonce P (iv_nonces v)) 0) as [Ew|Ew].
  - rewrite E. simpl. rewrite nget_aput, N.eqb_refl. reflexivity.
  - rewrite nget_aput, N.eqb_refl. destruct (N.eqb_spec (window_nonce P (iv_nonces v)) 0); [contradiction|].
    rewrite nget_aput, N.eqb_refl. reflexivity.
Qed.

Lemma ctx1_other v ln P ctx Q : Q <> P -> nget Q (verify_ctx1 v ln P ctx) = nget Q ctx.
Proof.
  intro Hne. apply N.eqb_neq in Hne. unfold verify_ctx1. cbv zeta.
  destruct (nget P ctx =? 0); [|reflexivity].
  destruct (window_nonce P (iv_nonces v) =? 0).
  - destruct (nget P ctx =? 0); [rewrite nget_aput, Hne|]; reflexivity.
  - destruct (nget P (aput P _ ctx) =? 0); repeat rewrite nget_aput, Hne; reflexivity.
Qed.

Lemma ctx1_expect v ln P ctx Q : expect v ln (verify_ctx1 v ln P ctx) Q = expect v ln ctx Q.
Proof.
  destruct (N.eq_dec Q P) as [->|Hne].
  - unfold expect at 1. rewrite ctx1_same.
    destruct (N.eqb_spec (expect v ln ctx P) 0) as [E|E]; [|reflexivity].
    unfold expect in *. destruct (N.eqb_spec (nget P ctx) 0); congruence.
  - unfold expect. rewrite ctx1_other by auto. reflexivity.
Qed.

Definition in_window (v : ival) (start : N) (h : N) : bool :=
  existsb (fun blk => existsb (N.eqb h) blk) (skipn (N.to_nat (start - iv_base v)) (iv_blocks v)).

Lemma iv_verify_unfold v ln t s ctx :
  iv_verify v ln t s ctx =
  if s <? iv_base v then (VBelowBase, ctx)
  else if in_window v s (tx_hash t) then (VDuplicated, ctx)
  else if tx_eip t then
    let ctx1 := verify_ctx1 v ln (tx_payer t) ctx in
    if negb (tx_nonce t =? nget (tx_payer t) ctx1) then (VWrongNonce, ctx1)
    else (VOk, aput (tx_payer t) (iv_next_nonce (tx_nonce t)) ctx1)
  else (VOk, ctx).
Proof. reflexivity. Qed.

Lemma next_nonce_wf t : tx_wf t -> iv_next_nonce (tx_nonce t) = tx_nonce t + 1.
Proof.
  intros [H _]. unfold iv_next_nonce. apply N.mod_small. unfold U32 in H. lia.
Qed.

Lemma block_nonce_wf t : tx_wf t -> iv_block_nonce (tx_nonce t) = tx_nonce t + 1.
Proof.
  intros [H _]. unfold iv_block_nonce. apply N.mod_small. unfold U32 in H. lia.
Qed.

(** rejected, or not an EVM transaction: expectations unchanged *)
Lemma verify_keep v ln t s ctx r ctx' :
  iv_verify v ln t s ctx = (r, ctx') -> r <> VOk \/ tx_eip t = false ->
  forall Q, expect v ln ctx' Q = expect v ln ctx Q.
Proof.
  rewrite iv_verify_unfold. intros H Hr Q.
  destruct (s <? iv_base v); [inversion H; subst; reflexivity|].
  destruct (in_window v s (tx_hash t)); [inversion H; subst; reflexivity|].
  destruct (tx_eip t) eqn:Ee.
  - cbv zeta in H. destruct (negb _); inversion H; subst.
    + apply ctx1_expect.
    + destruct Hr; congruence.
  - inversion H; subst; reflexivity.
Qed.

Lemma verify_ok v ln t s ctx ctx' :
  iv_verify v ln t s ctx = (VOk, ctx') ->
  in_window v s (tx_hash t) = false /\
  (tx_eip t = true -> tx_wf t ->
     tx_nonce t = expect v ln ctx (tx_payer t) /\
     expect v ln ctx' (tx_payer t) = tx_nonce t + 1 /\
     forall Q, Q <> tx_payer t -> expect v ln ctx' Q = expect v ln ctx Q).
Proof.
  rewrite iv_verify_unfold. intros H.
  destruct (s <? iv_base v); [discriminate|].
  destruct (in_window v s (tx_hash t)); [discriminate|]. split; [reflexivity|].
  intros Ee Hwf. rewrite Ee in H. cbv zeta in H.
  destruct (N.eqb_spec (tx_nonce t) (nget (tx_payer t) (verify_ctx1 v ln (tx_payer t) ctx))) as [E|E];
    simpl in H; [|discriminate].
  inversion H; subst ctx'; clear H. rewrite ctx1_same in E. split; [exact E|]. split.
  - unfold expect. rewrite nget_aput, N.eqb_refl, next_nonce_wf by auto.
    destruct (N.eqb_spec (tx_nonce t + 1) 0); [lia|reflexivity].
  - intros Q Hne. unfold expect. apply N.eqb_neq in Hne. rewrite nget_aput, Hne.
    fold (expect v ln (verify_ctx1 v ln (tx_payer t) ctx) Q). apply ctx1_expect.
Qed.

Section Filter.
  Variables (v : ival) (ln : N -> N) (s : N).
  Notation vf := (verify_filter v ln s).

  Lemma vf_cons t r ctx :
    vf (t :: r) ctx =
    match fst (iv_verify v ln t s ctx) with
    | VOk => t :: vf r (snd (iv_verify v ln t s ctx))
    | _ => vf r (snd (iv_verify v ln t s ctx))
    end.
  Proof. simpl. destruct (iv_verify v ln t s ctx) as [res c]; reflexivity. Qed.

  Lemma vf_sub l : forall ctx, sub (vf l ctx) l.
  Proof.
    induction l as [|t r IH]; intro ctx; [constructor|].
    rewrite vf_cons. destruct (fst _); try (apply sub_skip; apply IH). apply sub_keep; apply IH.
  Qed.

  Lemma vf_not_in_window l : forall ctx t, In t (vf l ctx) -> in_window v s (tx_hash t) = false.
  Proof.
    induction l as [|x r IH]; intros ctx t; [simpl; tauto|].
    rewrite vf_cons. destruct (iv_verify v ln x s ctx) as [res c] eqn:E. simpl.
    destruct res; try apply IH.
    intros [<-|H]; [|eapply IH; eauto]. apply verify_ok in E. tauto.
  Qed.

  (** per payer: a run of consecutive nonces from the expected one *)
  Lemma vf_consec P l : Forall tx_wf l -> forall ctx,
    consec (expect v ln ctx P) (map tx_nonce (filter (is_of P) (vf l ctx))).
  Proof.
    induction 1 as [|t r Hwf _ IH]; intro ctx; [exact I|].
    rewrite vf_cons. destruct (iv_verify v ln t s ctx) as [res c] eqn:E. simpl fst; simpl snd.
    assert (Hkeep : res <> VOk -> consec (expect v ln ctx P) (map tx_nonce (filter (is_of P) (vf r c)))).
    { intro Hr. rewrite <- (verify_keep _ _ _ _ _ _ _ E (or_introl Hr) P). apply IH. }
    destruct res; try (apply Hkeep; discriminate).
    simpl filter. unfold is_of at 1. destruct (tx_eip t) eqn:Ee; simpl.
    - destruct (proj2 (verify_ok _ _ _ _ _ _ E) Ee Hwf) as [En [Enext Hoth]].
      destruct (N.eqb_spec (tx_payer t) P) as [EP|EP]; simpl.
      + subst P. split; [exact En|]. rewrite En in Enext. rewrite <- Enext. apply IH.
      + rewrite <- (Hoth P) by congruence. apply IH.
    - rewrite <- (verify_keep _ _ _ _ _ _ _ E (or_intror Ee) P). apply IH.
  Qed.

  (** no transaction is kept twice when the ordinary ones are distinct in the input *)
  Lemma vf_NoDup l : Forall tx_wf l -> NoDup (filter (fun t => negb (tx_eip t)) l) ->
    forall ctx, NoDup (vf l ctx).
  Proof.
    induction 1 as [|t r Hwf Hall IH]; intros Hnd ctx; [constructor|].
    rewrite vf_cons. destruct (iv_verify v ln t s ctx) as [res c] eqn:E. simpl fst; simpl snd.
    assert (Hr : NoDup (filter (fun t => negb (tx_eip t)) r)).
    { simpl in Hnd. destruct (negb (tx_eip t)); [inversion Hnd|]; auto. }
    destruct res; try (apply IH; auto).
    constructor; [|apply IH; auto].
    intro Hin. destruct (tx_eip t) eqn:Ee.
    - destruct (proj2 (verify_ok _ _ _ _ _ _ E) Ee Hwf) as [_ [Enext _]].
      pose proof (vf_consec (tx_payer t) r Hall c) as Hc. rewrite Enext in Hc.
      assert (Hm : In (tx_nonce t) (map tx_nonce (filter (is_of (tx_payer t)) (vf r c)))).
      { apply in_map. apply filter_In. split; auto. unfold is_of. rewrite Ee, N.eqb_refl. reflexivity. }
      pose proof (consec_ge _ _ Hc _ Hm). lia.
    - simpl in Hnd. rewrite Ee in Hnd. simpl in Hnd. inversion Hnd; subst. apply H1.
      apply filter_In. split; [|rewrite Ee; reflexivity].
      eapply sub_In; [apply vf_sub|exact Hin].
  Qed.
End Filter.
