(** C11, first clause: every governance operation preserves
    "ONT balance of governance = sum of total stakes + sum of penalty stakes". *)
From Coq Require Import List NArith Bool Lia.
Import ListNotations.
From Ont Require Import Lib.AList Gen.GovConsts Model.Gov Model.GovSpec.
Local Open Scope N_scope.

Lemma Neqb_spec : forall a b : N, reflect (a = b) (a =? b).
Proof. intros; apply N.eqb_spec. Qed.

Lemma pair_eqb_spec : forall a b : N * N, reflect (a = b) (pair_eqb a b).
Proof.
  intros [a1 a2] [b1 b2]. unfold pair_eqb; cbn.
  destruct (N.eqb_spec a1 b1), (N.eqb_spec a2 b2); cbn; constructor; congruence.
Qed.

Lemma supply_lt_W64 : ONT_TOTAL_SUPPLY < W64.
Proof. vm_compute. reflexivity. Qed.

Lemma w64_small : forall x, x < W64 -> w64 x = x.
Proof. intros. unfold w64. now apply N.mod_small. Qed.

(** ** nget / aset *)
Lemma nget_oval : forall k l, nget k l = oval (fun _ v => v) k (aget N.eqb k l).
Proof. intros. unfold nget. destruct (aget N.eqb k l); reflexivity. Qed.

Lemma nget_aset_same : forall k v l, nget k (aset N.eqb k v l) = v.
Proof. intros. unfold nget. now rewrite (aget_aset_same N.eqb Neqb_spec). Qed.

Lemma nget_aset_other : forall k k' v l, k' <> k -> nget k' (aset N.eqb k v l) = nget k' l.
Proof. intros. unfold nget. now rewrite (aget_aset_other N.eqb Neqb_spec). Qed.

Lemma nsum_aset : forall k v l,
  asum (fun _ x => x) (aset N.eqb k v l) + nget k l = asum (fun _ x => x) l + v.
Proof. intros. rewrite nget_oval. apply (asum_aset N.eqb Neqb_spec). Qed.

Lemma nget_le_sum : forall k l, nget k l <= asum (fun _ x => x) l.
Proof. intros. rewrite nget_oval. apply (oval_le_asum N.eqb Neqb_spec). Qed.

(** ** the ONT ledger *)
Lemma ont_transfer_spec : forall ont from to v ont',
  ont_transfer ont from to v = Ok ont' ->
  asum (fun _ x => x) ont' = asum (fun _ x => x) ont /\
  (forall x, x <> from -> x <> to -> nget x ont' = nget x ont) /\
  (from <> to -> nget from ont' + v = nget from ont /\ nget to ont' = nget to ont + v) /\
  (from = to -> nget from ont' = nget from ont).
Proof.
  intros ont from to v ont' H. unfold ont_transfer in H.
  destruct (v =? 0) eqn:Ev.
  { inversion H; subst. apply N.eqb_eq in Ev. subst. repeat split; intros; auto; lia. }
  destruct (ONT_TOTAL_SUPPLY <? v); [discriminate|].
  destruct (nget from ont <? v) eqn:Eb; [discriminate|].
  apply N.ltb_ge in Eb. inversion H; subst; clear H.
  remember (aset N.eqb from (nget from ont - v) ont) as ont1 eqn:E1.
  assert (S1 : asum (fun _ x => x) ont1 + nget from ont = asum (fun _ x => x) ont + (nget from ont - v))
    by (subst ont1; apply nsum_aset).
  assert (S2 : asum (fun _ x => x) (aset N.eqb to (nget to ont1 + v) ont1) + nget to ont1
               = asum (fun _ x => x) ont1 + (nget to ont1 + v)) by apply nsum_aset.
  assert (G1 : nget from ont1 = nget from ont - v) by (subst ont1; apply nget_aset_same).
  assert (G2 : forall x, x <> from -> nget x ont1 = nget x ont)
    by (intros; subst ont1; now apply nget_aset_other).
  clear E1.
  repeat split.
  - lia.
  - intros x Hf Ht. rewrite nget_aset_other by auto. now apply G2.
  - rewrite nget_aset_other by auto. rewrite G1. lia.
  - rewrite nget_aset_same. rewrite G2 by auto. reflexivity.
  - intros <-. rewrite nget_aset_same. rewrite G1. lia.
Qed.

(** ** stakes *)
Lemma deposit_stake_sum : forall st a amt,
  nget a st + amt < W64 ->
  asum (fun _ x => x) (deposit_stake st a amt) = asum (fun _ x => x) st + amt.
Proof.
  intros st a amt Hs. unfold deposit_stake.
  rewrite w64_small by auto.
  pose proof (nsum_aset a (nget a st + amt) st) as E. lia.
Qed.

Lemma withdraw_stake_sum : forall st a amt st',
  withdraw_stake st a amt = Ok st' ->
  asum (fun _ x => x) st' + amt = asum (fun _ x => x) st /\ amt <= nget a st.
Proof.
  intros st a amt st' H. unfold withdraw_stake in H.
  destruct (nget a st <? amt) eqn:E; [discriminate|]. apply N.ltb_ge in E.
  inversion H; subst. pose proof (nsum_aset a (nget a st - amt) st). split; lia.
Qed.

Lemma withdraw_stake_get : forall st a amt st',
  withdraw_stake st a amt = Ok st' ->
  nget a st' + amt = nget a st /\ forall b, b <> a -> nget b st' = nget b st.
Proof.
  intros st a amt st' H. unfold withdraw_stake in H.
  destruct (nget a st <? amt) eqn:E; [discriminate|]. apply N.ltb_ge in E.
  inversion H; subst. rewrite nget_aset_same. split; [lia|].
  intros b Hb. now apply nget_aset_other.
Qed.

(** ** states that agree on ledger, stakes and penalties *)
Definition fin (s : state) := (s_ont s, s_stakes s, s_pens s).

Lemma inv1_fin : forall s s', fin s' = fin s -> inv1 s -> inv1 s'.
Proof.
  intros s s' E [Hb Hs]. unfold fin in E. inversion E as [[E1 E2 E3]].
  unfold inv1, inv_balance, supply_ok, gov_balance, sum_stakes, sum_pens, ont_total in *.
  rewrite E1, E2, E3. auto.
Qed.

(** destructing the monadic code *)
Ltac mstep H :=
  match type of H with
  | bind (guard ?b ?e) _ = Ok _ => destruct b eqn:?; cbn [bind guard] in H; [discriminate|]
  | bind ?o _ = Ok _ => let x := fresh "x" in destruct o as [x|] eqn:?; cbn [bind] in H; [|discriminate]
  | match ?x with Some _ => _ | None => _ end = Ok _ => destruct x eqn:?; [|discriminate]
  | (let '(_, _) := ?p in _) = Ok _ => destruct p eqn:?
  | Ok _ = Ok _ => inversion H; subst; clear H
  end.
Ltac msteps H := repeat mstep H.

Ltac bnorm := repeat match goal with
  | H : negb _ = false |- _ => apply negb_false_iff in H
  | H : negb _ = true |- _ => apply negb_true_iff in H
  | H : (_ =? _) = true |- _ => apply N.eqb_eq in H
  | H : (_ =? _) = false |- _ => apply N.eqb_neq in H
  | H : (_ <? _) = false |- _ => apply N.ltb_ge in H
  | H : (_ <? _) = true |- _ => apply N.ltb_lt in H
  | H : (_ <=? _) = true |- _ => apply N.leb_le in H
  | H : (_ <=? _) = false |- _ => apply N.leb_gt in H
  | H : _ && _ = true |- _ => apply andb_true_iff in H; destruct H
  | H : _ || _ = false |- _ => apply orb_false_iff in H; destruct H
  end.

(** ** bookkeeping-only pieces keep [fin] *)
Lemma auth_item_fin : forall s a kp t s' t', auth_item s a kp t = Ok (s', t') -> fin s' = fin s.
Proof.
  intros s a [k pos] t s' t' H. unfold auth_item in H. msteps H. reflexivity.
Qed.

Lemma auth_loop_fin : forall l s a t s' t', auth_loop s a l t = Ok (s', t') -> fin s' = fin s.
Proof.
  induction l as [|kp r IH]; cbn; intros s a t s' t' H.
  - inversion H; subst; reflexivity.
  - mstep H. destruct x as [s1 t1]. cbn in H. apply IH in H. rewrite H.
    eapply auth_item_fin; eauto.
Qed.

Lemma unauth_item_fin : forall s a kp s', unauth_item s a kp = Ok s' -> fin s' = fin s.
Proof.
  intros s a [k pos] s' H. unfold unauth_item in H. msteps H. unfold unauth_apply in H.
  destruct (i_new _ <? _); [destruct (p_status _ =? ConsensusStatus)|]; msteps H; reflexivity.
Qed.

Lemma unauth_loop_fin : forall l s a s', unauth_loop s a l = Ok s' -> fin s' = fin s.
Proof.
  induction l as [|kp r IH]; cbn; intros s a s' H.
  - inversion H; subst; reflexivity.
  - mstep H. apply IH in H. rewrite H. eapply unauth_item_fin; eauto.
Qed.

Lemma withdraw_item_fin : forall h s a kp t s' t', withdraw_item h s a kp t = Ok (s', t') -> fin s' = fin s.
Proof.
  intros h s a [k pos] t s' t' H. unfold withdraw_item in H. msteps H. reflexivity.
Qed.

Lemma withdraw_loop_fin : forall l h s a t s' t', withdraw_loop h s a l t = Ok (s', t') -> fin s' = fin s.
Proof.
  induction l as [|kp r IH]; cbn; intros h s a t s' t' H.
  - inversion H; subst; reflexivity.
  - mstep H. destruct x as [s1 t1]. cbn in H. apply IH in H. rewrite H.
    eapply withdraw_item_fin; eauto.
Qed.

Lemma transition_fin : forall s k b s', transition s k b = Ok s' -> fin s' = fin s.
Proof. intros s k b s' H. unfold transition in H. msteps H. reflexivity. Qed.

Lemma transitions_fin : forall ks s b s', transitions s ks b = Ok s' -> fin s' = fin s.
Proof.
  induction ks as [|k r IH]; cbn; intros s b s' H.
  - inversion H; subst; reflexivity.
  - mstep H. apply IH in H. rewrite H. eapply transition_fin; eauto.
Qed.

Lemma black_loop_fin : forall l s c s' c', black_loop s l c = Ok (s', c') -> fin s' = fin s.
Proof.
  induction l as [|k r IH]; cbn; intros s c s' c' H.
  - inversion H; subst; reflexivity.
  - mstep H. apply IH in H. rewrite H. reflexivity.
Qed.

(** ** moving ONT into governance and recording it *)
Lemma deposit_inv : forall s addr amt ont' s2,
  inv1 s -> fin s2 = fin s -> addr <> GOV ->
  ont_transfer (s_ont s2) addr GOV amt = Ok ont' ->
  inv1 (set_stakes (deposit_stake (s_stakes s2) addr amt) (set_ont ont' s2)).
Proof.
  intros s addr amt ont' s2 [Hb Hs] Ef Hne Ht.
  unfold fin in Ef. inversion Ef as [[E1 E2 E3]]. rewrite E1, E2 in *.
  destruct (ont_transfer_spec _ _ _ _ _ Ht) as (Sum & _ & Hd & _).
  destruct (Hd Hne) as [Hfrom Hto].
  unfold inv1, inv_balance, supply_ok, gov_balance, sum_stakes, sum_pens, ont_total in *.
  cbn [set_stakes set_ont s_ont s_stakes s_pens]. rewrite E3.
  pose proof (nget_le_sum addr (s_stakes s)).
  pose proof (nget_le_sum GOV ont').
  pose proof supply_lt_W64.
  rewrite deposit_stake_sum by lia. split; lia.
Qed.

Lemma exec_register_inv1 : forall h s sg k a ip pk tk s',
  inv1 s -> sg <> GOV -> exec_register h s sg k a ip pk tk = Ok s' -> inv1 s'.
Proof.
  intros h s sg k a ip pk tk s' Hi Hsg H. unfold exec_register in H. msteps H.
  match goal with H : negb (a =? sg) = false |- _ => apply negb_false_iff in H; apply N.eqb_eq in H; subst a end.
  match goal with |- inv1 (set_stakes _ (set_ont _ ?s2)) => eapply (deposit_inv s _ _ _ s2); [exact Hi | | exact Hsg | eassumption] end.
  destruct (g_selfgov (s_par s) <=? h); reflexivity.
Qed.

Ltac signer_eq :=
  match goal with
  | H : negb (?a =? ?sg) = false |- _ => apply negb_false_iff in H; apply N.eqb_eq in H; subst a
  end.

Lemma exec_authorize_inv1 : forall s sg a l wf s',
  inv1 s -> sg <> GOV -> exec_authorize s sg a l wf = Ok s' -> inv1 s'.
Proof.
  intros s sg a l wf s' Hi Hsg H. unfold exec_authorize in H. msteps H. signer_eq.
  match goal with |- inv1 (set_stakes _ (set_ont _ ?s2)) => eapply (deposit_inv s _ _ _ s2); [exact Hi | | exact Hsg | eassumption] end. eapply auth_loop_fin; eauto.
Qed.

Lemma exec_addinit_inv1 : forall h s sg k a pos s',
  inv1 s -> sg <> GOV -> exec_addinit h s sg k a pos = Ok s' -> inv1 s'.
Proof.
  intros h s sg k a pos s' Hi Hsg H. unfold exec_addinit in H. msteps H. signer_eq.
  match goal with |- inv1 (set_stakes _ (set_ont _ ?s2)) => eapply (deposit_inv s _ _ _ s2); [exact Hi | | exact Hsg | eassumption] end. reflexivity.
Qed.

Lemma exec_withdraw_inv1 : forall h s sg a l wf s',
  inv1 s -> sg <> GOV -> exec_withdraw h s sg a l wf = Ok s' -> inv1 s'.
Proof.
  intros h s sg a l wf s' [Hb Hs] Hsg H. unfold exec_withdraw in H. msteps H. signer_eq.
  match goal with H : withdraw_loop _ _ _ _ _ = Ok _ |- _ => apply withdraw_loop_fin in H; rename H into Ef end.
  unfold fin in Ef. inversion Ef as [[E1 E2 E3]]. rewrite E1, E2 in *.
  match goal with H : ont_transfer _ _ _ _ = Ok _ |- _ => destruct (ont_transfer_spec _ _ _ _ _ H) as (Sum & _ & Hd & _) end.
  destruct (Hd (not_eq_sym Hsg)) as [Hfrom Hto].
  match goal with H : withdraw_stake _ _ _ = Ok _ |- _ => destruct (withdraw_stake_sum _ _ _ _ H) as [Hw _] end.
  unfold inv1, inv_balance, supply_ok, gov_balance, sum_stakes, sum_pens, ont_total in *.
  cbn [set_stakes set_ont s_ont s_stakes s_pens]. rewrite E3. split; lia.
Qed.

Lemma penget_oval : forall k l,
  fst (penget k l) + snd (penget k l) = oval (fun _ (v : N * N) => fst v + snd v) k (aget N.eqb k l).
Proof. intros. unfold penget. destruct (aget N.eqb k l); reflexivity. Qed.

Lemma exec_penalty_inv1 : forall s sg k a s',
  inv1 s -> a <> GOV -> exec_penalty s sg k a = Ok s' -> inv1 s'.
Proof.
  intros s sg k a s' [Hb Hs] Ha H. unfold exec_penalty in H. msteps H.
  match goal with H : ont_transfer _ _ _ _ = Ok _ |- _ => destruct (ont_transfer_spec _ _ _ _ _ H) as (Sum & _ & Hd & _) end.
  destruct (Hd (not_eq_sym Ha)) as [Hfrom Hto].
  pose proof (penget_oval k (s_pens s)) as Ep.
  match goal with H : penget _ _ = (_, _) |- _ => rewrite H in Ep; cbn [fst snd] in Ep end.
  pose proof (asum_adel N.eqb Neqb_spec (fun _ (v : N * N) => fst v + snd v) k (s_pens s)) as Ed.
  pose proof (oval_le_asum N.eqb Neqb_spec (fun _ (v : N * N) => fst v + snd v) k (s_pens s)) as El.
  pose proof (nget_le_sum GOV (s_ont s)).
  pose proof supply_lt_W64.
  unfold inv1, inv_balance, supply_ok, gov_balance, sum_stakes, sum_pens, ont_total in *.
  cbn [set_pens set_ont s_ont s_stakes s_pens].
  rewrite w64_small in Hfrom by lia. split; lia.
Qed.

(** ** blackQuit *)
Fixpoint sum_amt (l : list (N * N)) : N :=
  match l with [] => 0 | (_, x) :: r => x + sum_amt r end.

Lemma withdraw_many_sum : forall l st acc st' acc',
  withdraw_many st l acc = Ok (st', acc') ->
  asum (fun _ x => x) st' + sum_amt l = asum (fun _ x => x) st /\
  (acc + sum_amt l < W64 -> acc' = acc + sum_amt l).
Proof.
  induction l as [|[a amt] r IH]; cbn [withdraw_many sum_amt]; intros st acc st' acc' H.
  - inversion H; subst. split; intros; lia.
  - mstep H. destruct (IH _ _ _ _ H) as [S1 A1].
    match goal with H : withdraw_stake _ _ _ = Ok _ |- _ => destruct (withdraw_stake_sum _ _ _ _ H) as [Hw _] end.
    split; [lia|]. intros Hlt. rewrite w64_small in A1 by lia. rewrite A1 by lia. lia.
Qed.

Lemma black_quit_inv1 : forall s k p s', inv1 s -> black_quit s k p = Ok s' -> inv1 s'.
Proof.
  intros s k p s' [Hb Hs] H. unfold black_quit in H. msteps H.
  match goal with H : ont_transfer _ _ _ _ = Ok _ |- _ => destruct (ont_transfer_spec _ _ _ _ _ H) as (Sum & _ & _ & Hsame) end.
  specialize (Hsame eq_refl).
  match goal with H : withdraw_stake _ _ _ = Ok _ |- _ => destruct (withdraw_stake_sum _ _ _ _ H) as [Hw _] end.
  match goal with H : withdraw_many _ _ _ = Ok _ |- _ => destruct (withdraw_many_sum _ _ _ _ _ H) as [Hm Hacc] end.
  pose proof (penget_oval k (s_pens s)) as Ep.
  match goal with H : penget _ _ = (_, _) |- _ => rewrite H in Ep; cbn [fst snd] in Ep end.
  match goal with |- inv1 (set_pens (aset _ _ ?vv _) _) =>
    pose proof (asum_aset N.eqb Neqb_spec (fun _ (v : N * N) => fst v + snd v) k vv (s_pens s)) as Ea end.
  pose proof (oval_le_asum N.eqb Neqb_spec (fun _ (v : N * N) => fst v + snd v) k (s_pens s)) as El.
  pose proof (nget_le_sum GOV (s_ont s)).
  pose proof supply_lt_W64.
  unfold inv1, inv_balance, supply_ok, gov_balance, sum_stakes, sum_pens, ont_total in *.
  cbn [set_pens set_stakes set_infos set_ont s_ont s_stakes s_pens fst snd] in *.
  assert (En : n = sum_amt (pen_list (g_penalty (s_par s)) k (s_infos s))) by (rewrite Hacc; lia).
  clear Hacc.
  rewrite (w64_small (n0 + p_init p)) in Ea |- * by lia.
  rewrite (w64_small (n1 + n)) in Ea |- * by lia.
  split; lia.
Qed.

(** ** commitDpos *)
Lemma commit_pass_inv1 : forall l s s', inv1 s -> commit_pass l s = Ok s' -> inv1 s'.
Proof.
  induction l as [|[k p] r IH]; cbn [commit_pass]; intros s s' Hi H.
  - inversion H; subst; auto.
  - destruct (p_status p =? QuitingStatus).
    { eapply IH; [|exact H]. eapply inv1_fin; [|exact Hi]. reflexivity. }
    destruct (p_status p =? BlackStatus).
    { mstep H. eapply IH; [|exact H]. eapply inv1_fin with (s := x); [reflexivity|].
      eapply black_quit_inv1; eauto. }
    destruct (p_status p =? QuitConsensusStatus).
    { eapply IH; [|exact H]. eapply inv1_fin; [|exact Hi]. reflexivity. }
    eapply IH; eauto.
Qed.

Lemma commit_core_inv1 : forall h s s', inv1 s -> commit_core h s = Ok s' -> inv1 s'.
Proof.
  intros h s s' Hi H. unfold commit_core in H. msteps H.
  match goal with H : commit_pass _ _ = Ok _ |- _ => apply commit_pass_inv1 in H; [|exact Hi]; rename H into H1 end.
  match goal with H : transitions _ (firstn _ _) _ = Ok _ |- _ => apply transitions_fin in H; rename H into F1 end.
  match goal with H : transitions _ (skipn _ _) _ = Ok _ |- _ => apply transitions_fin in H; rename H into F2 end.
  eapply inv1_fin; [|exact H1]. unfold fin in *. cbn [set_prev set_view s_ont s_stakes s_pens]. congruence.
Qed.

Lemma exec_black_inv1 : forall h s sg l s', inv1 s -> exec_black h s sg l = Ok s' -> inv1 s'.
Proof.
  intros h s sg l s' Hi H. unfold exec_black in H. msteps H. destruct x as [s1 c].
  match goal with H : black_loop _ _ _ = Ok _ |- _ => apply black_loop_fin in H; rename H into F end.
  cbn [fst snd] in H. destruct c.
  - eapply commit_core_inv1; [|exact H]. eapply inv1_fin; eauto.
  - inversion H; subst. eapply inv1_fin; eauto.
Qed.

(** ** all operations *)
Theorem exec_inv1 : forall h s o s', inv1 s -> op_ok o -> exec h s o = Ok s' -> inv1 s'.
Proof.
  intros h s o s' Hi Hok H. destruct o; cbn [exec op_ok] in *.
  - eapply exec_register_inv1; eauto.
  - unfold exec_unregister in H. msteps H. eapply inv1_fin; [|exact Hi]. reflexivity.
  - unfold exec_approve in H. msteps H. eapply inv1_fin; [|exact Hi].
    destruct (NEW_VERSION_BLOCK <=? h); reflexivity.
  - unfold exec_reject in H. msteps H. eapply inv1_fin; [|exact Hi]. reflexivity.
  - eapply exec_authorize_inv1; eauto.
  - unfold exec_unauthorize in H. msteps H. eapply inv1_fin; [|exact Hi]. eapply unauth_loop_fin; eauto.
  - eapply exec_withdraw_inv1; eauto.
  - unfold exec_quit in H. msteps H. eapply inv1_fin; [|exact Hi]. reflexivity.
  - eapply exec_black_inv1; eauto.
  - unfold exec_white in H. msteps H. eapply inv1_fin; [|exact Hi]. reflexivity.
  - unfold exec_commit in H. msteps H. eapply commit_core_inv1; eauto.
  - unfold exec_maxauth in H. msteps H. eapply inv1_fin; [|exact Hi]. reflexivity.
  - eapply exec_addinit_inv1; eauto.
  - unfold exec_reduceinit in H. msteps H.
    eapply inv1_fin; [|exact Hi]. reflexivity.
  - destruct Hok. eapply exec_penalty_inv1; eauto.
Qed.

Theorem step_inv1 : forall s ho, inv1 s -> op_ok (snd ho) -> inv1 (fst (step s ho)).
Proof.
  intros s [h o] Hi Hok. unfold step. cbn [fst snd] in *.
  destruct (exec h s o) eqn:E; cbn [fst]; auto. eapply exec_inv1; eauto.
Qed.

Theorem run_inv1 : forall l s, inv1 s -> Forall (fun ho => op_ok (snd ho)) l -> inv1 (run s l).
Proof.
  induction l as [|ho r IH]; cbn; intros s Hi Hall; auto.
  inversion Hall; subst. apply IH; auto. now apply step_inv1.
Qed.

(** ** genesis *)
Fixpoint sum_init (peers : list (N * N * N)) : N :=
  match peers with [] => 0 | (_, _, i) :: r => i + sum_init r end.

Lemma genesis_stakes_sum : forall peers st,
  asum (fun _ x => x) st + sum_init peers < W64 ->
  asum (fun _ x => x) (genesis_stakes peers st) = asum (fun _ x => x) st + sum_init peers.
Proof.
  induction peers as [|[[k o] i] r IH]; cbn [genesis_stakes sum_init]; intros st Hlt; [lia|].
  pose proof (nget_le_sum o st).
  rewrite IH; rewrite deposit_stake_sum by lia; lia.
Qed.

(** InitConfig records the peers' initPos as total stakes without moving ONT: the invariant
    starts to hold once the governance address has been funded with exactly that amount. *)
Theorem genesis_inv1 : forall par h peers ont,
  nget GOV ont = sum_init peers -> asum (fun _ x => x) ont <= ONT_TOTAL_SUPPLY ->
  inv1 (genesis par h peers ont).
Proof.
  intros par h peers ont Hf Hs. pose proof (nget_le_sum GOV ont). pose proof supply_lt_W64.
  unfold inv1, inv_balance, supply_ok, gov_balance, sum_stakes, sum_pens, ont_total, genesis.
  cbn [s_ont s_stakes s_pens asum]. rewrite genesis_stakes_sum by (cbn [asum]; lia).
  cbn [asum]. split; lia.
Qed.

(** ** the withdraw clause: a successful Withdraw pays exactly what it removes from the caller's
    unfrozen buckets and from the caller's total stake *)
Definition wunf_of (a : N) (infos : list ((N * N) * infov)) : N :=
  asum (fun (k : N * N) i => if snd k =? a then i_wunf i else 0) infos.

Lemma iget_oval : forall (f : infov -> N) p a infos, f zero_info = 0 ->
  oval (fun (k : N * N) i => if snd k =? a then f i else 0) (p, a) (aget pair_eqb (p, a) infos)
  = f (iget p a infos).
Proof.
  intros f p a infos Hz. unfold iget. destruct (aget pair_eqb (p, a) infos); cbn [oval snd].
  - now rewrite N.eqb_refl.
  - now rewrite Hz.
Qed.

Definition pos_small (l : list (N * N)) : Prop := Forall (fun kp => snd kp < W32) l.

Lemma withdraw_loop_unf : forall l h s a t s' t',
  withdraw_loop h s a l t = Ok (s', t') -> pos_small l ->
  t + N.of_nat (length l) * W32 < W64 ->
  wunf_of a (s_infos s') + t' = wunf_of a (s_infos s) + t /\ t' < t + N.of_nat (length l) * W32 + 1.
Proof.
  induction l as [|[k pos] r IH]; cbn [withdraw_loop length]; intros h s a t s' t' H Hp Hb.
  - inversion H; subst. split; lia.
  - inversion Hp as [|? ? Hpos Hr]; subst. cbn [snd] in Hpos.
    rewrite Nat2N.inj_succ, N.mul_succ_l in *.
    mstep H. destruct x as [s1 t1]. cbn [fst snd] in H.
    match goal with H : withdraw_item _ _ _ _ _ = Ok _ |- _ => unfold withdraw_item in H; msteps H end.
    bnorm. cbn [s_infos set_infos] in *.
    assert (Ht : w64 (t + pos) = t + pos) by (apply w64_small; lia).
    rewrite Ht in H.
    destruct (IH _ _ _ _ _ _ H Hr) as [E1 E2]; [lia|].
    cbn [s_infos set_infos] in E1.
    pose proof (asum_aset pair_eqb pair_eqb_spec (fun (k : N * N) i => if snd k =? a then i_wunf i else 0)
                  (k, a) (mkIV (i_cons (iget k a (s_infos s))) (i_cand (iget k a (s_infos s)))
                               (i_new (iget k a (s_infos s))) (i_wcons (iget k a (s_infos s)))
                               (i_wcand (iget k a (s_infos s))) (i_wunf (iget k a (s_infos s)) - pos))
                  (s_infos s)) as Ea.
    rewrite (iget_oval i_wunf) in Ea by reflexivity.
    cbn [snd i_wunf] in Ea. rewrite N.eqb_refl in Ea.
    unfold wunf_of, iset in *. split; lia.
Qed.

Theorem withdraw_bounded : forall h s sg a l wf s',
  inv1 s -> sg <> GOV -> pos_small l ->
  exec_withdraw h s sg a l wf = Ok s' ->
  a = sg /\
  (* what the caller receives left its unfrozen buckets ... *)
  wunf_of a (s_infos s') + paid_to a s s' = wunf_of a (s_infos s) /\
  (* ... and its recorded total stake ... *)
  nget a (s_stakes s') + paid_to a s s' = nget a (s_stakes s) /\
  (* ... and governance's balance. *)
  gov_balance s' + paid_to a s s' = gov_balance s.
Proof.
  intros h s sg a l wf s' Hi Hsg Hp H. unfold exec_withdraw in H. msteps H. signer_eq.
  split; [reflexivity|].
  match goal with H : negb _ || negb (len_ok _ _) = false |- _ => apply orb_false_iff in H; destruct H as [_ Hlen] end.
  apply negb_false_iff in Hlen. unfold len_ok in Hlen. apply N.leb_le in Hlen.
  assert (HW : N.of_nat (length l) * W32 < W64).
  { assert (MAX_LIST_WithdrawParam * W32 < W64) by (vm_compute; reflexivity). nia. }
  match goal with H : withdraw_loop _ _ _ _ _ = Ok _ |- _ =>
    pose proof (withdraw_loop_fin _ _ _ _ _ _ _ H) as Ef;
    destruct (withdraw_loop_unf _ _ _ _ _ _ _ H Hp) as [Eu _]; [lia|] end.
  unfold fin in Ef. inversion Ef as [[E1 E2 E3]]. rewrite E1, E2 in *.
  match goal with H : ont_transfer _ _ _ _ = Ok _ |- _ => destruct (ont_transfer_spec _ _ _ _ _ H) as (Sum & _ & Hd & _) end.
  destruct (Hd (not_eq_sym Hsg)) as [Hfrom Hto].
  match goal with H : withdraw_stake _ _ _ = Ok _ |- _ => destruct (withdraw_stake_get _ _ _ _ H) as [Hg _] end.
  unfold paid_to, gov_balance. cbn [set_stakes set_ont s_ont s_stakes s_infos].
  rewrite Hto. repeat split; lia.
Qed.
