(** Proofs about Model/NeoInt.v: NeoVM little-endian two's-complement integers (common/bigint.go),
    128-bit integers (common/int128.go), the native-contract variable-length integer
    (native/utils/serialization.go) and token-balance storage items (core/states).
    Technique: radix-256 digit induction ([le_encode]/[le_decode] of Lib/Bytes.v), every branch of the
    code followed explicitly; arithmetic side conditions by lia/nia with powers of 256 kept abstract. *)
From Coq Require Import List Bool Arith NArith ZArith Lia ZifyN ZifyNat ZifyBool.
Import ListNotations.
From Ont Require Import Lib.Bytes Model.NeoInt.
Ltac Zify.zify_post_hook ::= Z.to_euclidean_division_equations.
Local Open Scope N_scope.

(** * Powers of 256 *)
Definition P (w : nat) : N := 256 ^ N.of_nat w.
Lemma P_0 : P 0 = 1. Proof. reflexivity. Qed.
Lemma P_S w : P (S w) = 256 * P w. Proof. apply pow256_succ. Qed.
Lemma P_pos w : 0 < P w.
Proof. unfold P. apply N.neq_0_lt_0, N.pow_nonzero. discriminate. Qed.
Lemma P_add a b : P (a + b) = P a * P b.
Proof. unfold P. rewrite Nat2N.inj_add, N.pow_add_r. reflexivity. Qed.
Lemma P_mono a b : (a <= b)%nat -> P a <= P b.
Proof. intro H. unfold P. apply N.pow_le_mono_r; [discriminate|lia]. Qed.
Lemma P_Z w : Z.of_N (P w) = (256 ^ Z.of_nat w)%Z.
Proof. unfold P. rewrite N2Z.inj_pow, nat_N_Z. reflexivity. Qed.
Lemma ZP_S w : (256 ^ Z.of_nat (S w) = 256 * 256 ^ Z.of_nat w)%Z.
Proof. rewrite Nat2Z.inj_succ, Z.pow_succ_r by lia. reflexivity. Qed.
Lemma ZP_pos w : (0 < 256 ^ Z.of_nat w)%Z.
Proof. apply Z.pow_pos_nonneg; lia. Qed.

(** * Byte strings *)
Lemma wf_cons_inv x b : wf_bytes (x :: b) = true -> x < 256 /\ wf_bytes b = true.
Proof.
  rewrite wf_bytes_cons. intro H. apply andb_prop in H. destruct H as [Hx Hb].
  unfold byte_ok in Hx. apply N.ltb_lt in Hx. auto.
Qed.
Lemma wf_cons_intro x b : x < 256 -> wf_bytes b = true -> wf_bytes (x :: b) = true.
Proof. intros Hx Hb. rewrite wf_bytes_cons, Hb. unfold byte_ok. apply N.ltb_lt in Hx. rewrite Hx. reflexivity. Qed.
Lemma wf_single x : x < 256 -> wf_bytes [x] = true.
Proof. intro H. apply wf_cons_intro; auto. Qed.
Lemma wf_app_inv a b : wf_bytes (a ++ b) = true -> wf_bytes a = true /\ wf_bytes b = true.
Proof. rewrite wf_bytes_app. intro H. apply andb_prop in H. exact H. Qed.
Lemma wf_app_intro a b : wf_bytes a = true -> wf_bytes b = true -> wf_bytes (a ++ b) = true.
Proof. intros Ha Hb. rewrite wf_bytes_app, Ha, Hb. reflexivity. Qed.
Lemma wf_rev b : wf_bytes (rev b) = wf_bytes b.
Proof.
  induction b as [|x b IH]; [reflexivity|]. simpl rev. rewrite wf_bytes_app, IH, wf_bytes_cons.
  simpl. rewrite Bool.andb_true_r. apply Bool.andb_comm.
Qed.
Lemma wf_repeat x n : x < 256 -> wf_bytes (repeat x n) = true.
Proof. intro H. induction n; simpl; [reflexivity|]. apply wf_cons_intro; auto. Qed.

Lemma le_decode_app a b : le_decode (a ++ b) = le_decode a + P (length a) * le_decode b.
Proof.
  induction a as [|x a IH]; cbn [app le_decode length].
  - rewrite P_0. lia.
  - rewrite IH, P_S. lia.
Qed.

Lemma le_decode_lt b : wf_bytes b = true -> le_decode b < P (length b).
Proof. apply le_decode_bound. Qed.

Lemma le_decode_repeat0 n : le_decode (repeat 0 n) = 0.
Proof. induction n; cbn [repeat le_decode]; [reflexivity|]. rewrite IHn. reflexivity. Qed.

Lemma compl_lt x : compl x < 256. Proof. unfold compl. lia. Qed.
Lemma wf_map_compl b : wf_bytes (map compl b) = true.
Proof. induction b as [|x b IH]; [reflexivity|]. simpl map. apply wf_cons_intro; [apply compl_lt|exact IH]. Qed.

Lemma le_decode_compl b : wf_bytes b = true -> le_decode (map compl b) + le_decode b + 1 = P (length b).
Proof.
  induction b as [|x b IH]; intro H.
  - reflexivity.
  - apply wf_cons_inv in H. destruct H as [Hx Hb]. specialize (IH Hb).
    cbn [map le_decode length]. rewrite P_S. change (compl x) with (255 - x). lia.
Qed.

Lemma inc_le_length b : length (inc_le b) = length b.
Proof. induction b as [|x b IH]; [reflexivity|]. cbn [inc_le]. destruct (x =? 255); cbn [length]; congruence. Qed.

Lemma inc_le_wf b : wf_bytes b = true -> wf_bytes (inc_le b) = true.
Proof.
  induction b as [|x b IH]; intro H; [reflexivity|].
  apply wf_cons_inv in H. destruct H as [Hx Hb]. cbn [inc_le].
  destruct (N.eqb_spec x 255).
  - apply wf_cons_intro; [lia|auto].
  - apply wf_cons_intro; [lia|auto].
Qed.

Lemma inc_le_decode b : wf_bytes b = true -> le_decode b + 1 < P (length b) ->
  le_decode (inc_le b) = le_decode b + 1.
Proof.
  induction b as [|x b IH]; intros H Hlt.
  - cbn in Hlt. lia.
  - apply wf_cons_inv in H. destruct H as [Hx Hb]. cbn [inc_le].
    cbn [le_decode length] in Hlt. rewrite P_S in Hlt.
    destruct (N.eqb_spec x 255).
    + subst x. cbn [le_decode]. rewrite IH; [lia|exact Hb|lia].
    + cbn [le_decode]. lia.
Qed.

(** last byte *)
Lemma last_byte_snoc b x : last_byte (b ++ [x]) = x.
Proof. unfold last_byte. apply last_last. Qed.

Lemma snoc_cases (b : bytes) : b = [] \/ exists init t, b = init ++ [t].
Proof.
  destruct b as [|x b]; [left; reflexivity|right].
  exists (removelast (x :: b)), (last (x :: b) 0). apply app_removelast_last. discriminate.
Qed.

Lemma last_byte_lt b : wf_bytes b = true -> last_byte b < 256.
Proof.
  intro H. destruct (snoc_cases b) as [->|[init [t ->]]]; [cbn; lia|]. rewrite last_byte_snoc. apply wf_app_inv in H. destruct H as [_ H]. apply wf_cons_inv in H. tauto.
Qed.

(** The top bit of the last byte compares the unsigned value with half the modulus. *)
Lemma top_bit b : wf_bytes b = true -> b <> [] ->
  (128 <=? last_byte b) = (P (length b) <=? 2 * le_decode b).
Proof.
  intros H Hne. destruct (snoc_cases b) as [->|[init [t ->]]]; [congruence|].
  apply wf_app_inv in H. destruct H as [Hi Ht]. apply wf_cons_inv in Ht. destruct Ht as [Ht _].
  rewrite last_byte_snoc, le_decode_app, app_length. cbn [length le_decode].
  replace (length init + 1)%nat with (S (length init)) by lia. rewrite P_S.
  pose proof (le_decode_lt init Hi) as Hd. pose proof (P_pos (length init)) as Hp.
  destruct (N.leb_spec 128 t); destruct (N.leb_spec (256 * P (length init)) (2 * (le_decode init + P (length init) * (t + 256 * 0)))); try reflexivity; nia.
Qed.

(** * BigIntFromNeoBytes is the two's-complement value *)
Lemma Z_of_neo_tc b : wf_bytes b = true -> Z_of_neo b = tc_value b.
Proof.
  intro H. unfold Z_of_neo, tc_value. destruct b as [|x r] eqn:E; [reflexivity|].
  rewrite <- E in *. pose proof (last_byte_lt b H) as Hl.
  pose proof (le_decode_compl b H) as Hc. rewrite <- P_Z.
  destruct (N.eqb_spec (last_byte b / 128) 1); destruct (N.leb_spec 128 (last_byte b)); lia.
Qed.

Lemma tc_value_nil : tc_value [] = 0%Z. Proof. reflexivity. Qed.

Lemma tc_value_fits b : wf_bytes b = true -> neo_fits (length b) (tc_value b).
Proof.
  intro H. unfold neo_fits. destruct b as [|x r] eqn:E; [cbn; lia|]. rewrite <- E in *.
  assert (Hne : b <> []) by (rewrite E; discriminate).
  unfold tc_value. rewrite (top_bit b H Hne), <- P_Z.
  pose proof (le_decode_lt b H). destruct (N.leb_spec (P (length b)) (2 * le_decode b)); lia.
Qed.

Lemma tc_same_len_inj b1 b2 : wf_bytes b1 = true -> wf_bytes b2 = true -> length b1 = length b2 ->
  tc_value b1 = tc_value b2 -> b1 = b2.
Proof.
  intros H1 H2 Hl E. unfold tc_value in E. rewrite <- Hl, <- P_Z in E.
  pose proof (le_decode_lt b1 H1). pose proof (le_decode_lt b2 H2). rewrite <- Hl in *.
  assert (Hd : le_decode b1 = le_decode b2).
  { destruct (128 <=? last_byte b1); destruct (128 <=? last_byte b2); lia. }
  rewrite <- (le_encode_decode b1 H1), <- (le_encode_decode b2 H2), Hd, Hl. reflexivity.
Qed.

Lemma neo_fits_mono m n z : (m <= n)%nat -> neo_fits m z -> neo_fits n z.
Proof.
  unfold neo_fits. intros Hmn H. rewrite <- P_Z in *. pose proof (P_mono m n Hmn). lia.
Qed.

Lemma neo_fits_0 z : neo_fits 0 z <-> z = 0%Z.
Proof. unfold neo_fits. change (256 ^ Z.of_nat 0)%Z with 1%Z. lia. Qed.

(** for n >= 1 this is the usual range *)
Lemma neo_fits_S n z : neo_fits (S n) z <-> (- (128 * 256 ^ Z.of_nat n) <= z < 128 * 256 ^ Z.of_nat n)%Z.
Proof. unfold neo_fits. rewrite ZP_S. lia. Qed.

(** * big.Int.Bytes() reversed *)
Lemma byte_len_0 : byte_len 0 = O. Proof. reflexivity. Qed.

Lemma byte_len_spec n : n <> 0 -> exists k, byte_len n = S k /\ P k <= n < P (S k).
Proof.
  intro Hn. unfold byte_len. destruct (N.eqb_spec n 0); [contradiction|].
  exists (N.to_nat (N.log2 n / 8)). split; [reflexivity|].
  destruct (N.log2_spec n ltac:(lia)) as [Hlo Hhi].
  set (L := N.log2 n) in *. set (q := L / 8).
  assert (Hq : 8 * q <= L < 8 * q + 8) by (unfold q; lia).
  unfold P. rewrite Nat2N.inj_succ, N2Nat.id.
  replace 256 with (2 ^ 8) by reflexivity. rewrite <- !N.pow_mul_r.
  split.
  - apply N.le_trans with (2 ^ L); [apply N.pow_le_mono_r; lia|exact Hlo].
  - apply N.lt_le_trans with (2 ^ N.succ L); [exact Hhi|apply N.pow_le_mono_r; lia].
Qed.

Lemma byte_len_le n w : n < P w -> (byte_len n <= w)%nat.
Proof.
  intro H. destruct (N.eq_dec n 0) as [->|Hn]; [cbn; lia|].
  destruct (byte_len_spec n Hn) as [k [E [Hlo _]]]. rewrite E.
  destruct (le_lt_dec (S k) w) as [|Hlt]; [assumption|].
  pose proof (P_mono w k ltac:(lia)). lia.
Qed.

Lemma mag_bytes_length n : length (mag_bytes n) = byte_len n.
Proof. apply le_encode_length. Qed.
Lemma mag_bytes_wf n : wf_bytes (mag_bytes n) = true.
Proof. apply le_encode_wf. Qed.
Lemma mag_bytes_decode n : le_decode (mag_bytes n) = n.
Proof.
  unfold mag_bytes. destruct (N.eq_dec n 0) as [->|Hn]; [reflexivity|].
  destruct (byte_len_spec n Hn) as [k [E [_ Hhi]]]. rewrite E.
  apply le_decode_encode_small. exact Hhi.
Qed.
Lemma mag_bytes_0 : mag_bytes 0 = []. Proof. reflexivity. Qed.

(** * BigIntToNeoBytes *)

(** Everything the later theorems need about one encoding, proved by following the branches of the code. *)
Lemma neo_of_Z_spec z :
  wf_bytes (neo_of_Z z) = true /\
  tc_value (neo_of_Z z) = z /\
  neo_fits (length (neo_of_Z z)) z /\
  (forall j, length (neo_of_Z z) = S j -> ~ neo_fits j z).
Proof.
  destruct (Z.eq_dec z 0) as [->|Hz].
  { change (neo_of_Z 0) with (@nil N). split; [reflexivity|]. split; [reflexivity|]. split; [apply neo_fits_0; reflexivity|]. intros j Hj; discriminate. }
  set (n := Z.abs_N z). assert (Hn : n <> 0) by (unfold n; lia).
  destruct (byte_len_spec n Hn) as [k [Ek [Hlo Hhi]]].
  pose proof (mag_bytes_length n) as Hlen. rewrite Ek in Hlen.
  pose proof (mag_bytes_wf n) as Hwf. pose proof (mag_bytes_decode n) as Hdec.
  unfold neo_of_Z. fold n. set (bs := mag_bytes n) in *.
  assert (Hne : bs <> []) by (intro E; rewrite E in Hlen; discriminate).
  destruct bs as [|x0 r0] eqn:Ebs; [congruence|]. rewrite <- Ebs in *. clear Ebs x0 r0.
  pose proof (P_pos k) as Hpk. rewrite P_S in Hhi.
  unfold neo_fits. 
  destruct (Z.ltb_spec z 0) as [Hneg|Hpos].
  - (* negative *)
    set (cs := inc_le (map compl bs)).
    assert (Hcl : length cs = S k) by (unfold cs; rewrite inc_le_length, map_length; exact Hlen).
    assert (Hcw : wf_bytes cs = true) by (unfold cs; apply inc_le_wf, wf_map_compl).
    pose proof (le_decode_compl bs Hwf) as Hc. rewrite Hlen, P_S, Hdec in Hc.
    assert (Hcd : le_decode cs = 256 * P k - n).
    { unfold cs. rewrite inc_le_decode; [lia|apply wf_map_compl|rewrite map_length, Hlen, P_S; lia]. }
    assert (Hcne : cs <> []) by (intro E; rewrite E in Hcl; discriminate).
    pose proof (top_bit cs Hcw Hcne) as Htb. rewrite Hcl, P_S, Hcd in Htb.
    assert (Hzn : z = (- Z.of_N n)%Z) by (unfold n; lia).
    destruct (N.ltb_spec (last_byte cs) 128) as [Hlt|Hge].
    + (* append 0xff *)
      assert (Htb' : (256 * P k <=? 2 * (256 * P k - n)) = false).
      { rewrite <- Htb. apply N.leb_gt. exact Hlt. }
      apply N.leb_gt in Htb'.
      split; [apply wf_app_intro; [exact Hcw|apply wf_single; lia]|].
      split; [|split].
      * unfold tc_value. rewrite last_byte_snoc, le_decode_app, app_length, Hcl, Hcd. cbn [length le_decode].
        replace (S k + 1)%nat with (S (S k)) by lia. rewrite <- P_Z, !P_S. cbn [N.leb N.compare]. 
        replace (128 <=? 255) with true by reflexivity. lia.
      * rewrite app_length, Hcl. cbn [length]. replace (S k + 1)%nat with (S (S k)) by lia.
        rewrite <- P_Z, !P_S. lia.
      * intros j Hj. rewrite app_length, Hcl in Hj. cbn [length] in Hj. assert (j = S k) by lia. subst j.
        rewrite <- P_Z, P_S. lia.
    + assert (Htb' : (256 * P k <=? 2 * (256 * P k - n)) = true).
      { rewrite <- Htb. apply N.leb_le. exact Hge. }
      apply N.leb_le in Htb'.
      split; [exact Hcw|]. split; [|split].
      * unfold tc_value. rewrite Hcl, Hcd, <- P_Z, P_S.
        replace (128 <=? last_byte cs) with true by (symmetry; apply N.leb_le; exact Hge). lia.
      * rewrite Hcl, <- P_Z, P_S. lia.
      * intros j Hj. rewrite Hcl in Hj. assert (j = k) by lia. subst j. rewrite <- P_Z. lia.
  - (* positive *)
    assert (Hzn : z = Z.of_N n) by (unfold n; lia).
    pose proof (top_bit bs Hwf Hne) as Htb. rewrite Hlen, P_S, Hdec in Htb.
    destruct (N.leb_spec 128 (last_byte bs)) as [Hge|Hlt].
    + symmetry in Htb. apply N.leb_le in Htb.
      split; [apply wf_app_intro; [exact Hwf|apply wf_single; lia]|].
      split; [|split].
      * unfold tc_value. rewrite last_byte_snoc, le_decode_app, Hdec. cbn [le_decode].
        replace (128 <=? 0) with false by reflexivity. lia.
      * rewrite app_length, Hlen. cbn [length]. replace (S k + 1)%nat with (S (S k)) by lia.
        rewrite <- P_Z, !P_S. lia.
      * intros j Hj. rewrite app_length, Hlen in Hj. cbn [length] in Hj. assert (j = S k) by lia. subst j.
        rewrite <- P_Z, P_S. lia.
    + symmetry in Htb. apply N.leb_gt in Htb.
      split; [exact Hwf|]. split; [|split].
      * unfold tc_value. rewrite Hdec.
        replace (128 <=? last_byte bs) with false by (symmetry; apply N.leb_gt; exact Hlt). lia.
      * rewrite Hlen, <- P_Z, P_S. lia.
      * intros j Hj. rewrite Hlen in Hj. assert (j = k) by lia. subst j. rewrite <- P_Z. lia.
Qed.

Lemma neo_of_Z_wf z : wf_bytes (neo_of_Z z) = true.
Proof. apply neo_of_Z_spec. Qed.

(** decode (encode z) = z *)
Theorem neo_roundtrip z : Z_of_neo (neo_of_Z z) = z.
Proof. rewrite Z_of_neo_tc by apply neo_of_Z_wf. apply neo_of_Z_spec. Qed.

Theorem neo_of_Z_inj z1 z2 : neo_of_Z z1 = neo_of_Z z2 -> z1 = z2.
Proof. intro E. rewrite <- (neo_roundtrip z1), <- (neo_roundtrip z2), E. reflexivity. Qed.

(** the length is the least n such that z fits in n bytes *)
Theorem neo_of_Z_minimal z :
  neo_fits (length (neo_of_Z z)) z /\ forall m, neo_fits m z -> (length (neo_of_Z z) <= m)%nat.
Proof.
  destruct (neo_of_Z_spec z) as [_ [_ [Hf Hmin]]]. split; [exact Hf|].
  intros m Hm. destruct (le_lt_dec (length (neo_of_Z z)) m) as [|Hlt]; [assumption|exfalso].
  destruct (length (neo_of_Z z)) as [|j] eqn:E; [lia|].
  apply (Hmin j eq_refl). apply (neo_fits_mono m j); [lia|exact Hm].
Qed.

Lemma neo_len_unique z n : neo_fits n z -> (forall j, n = S j -> ~ neo_fits j z) -> length (neo_of_Z z) = n.
Proof.
  intros Hf Hmin. destruct (neo_of_Z_minimal z) as [Hf' Hmin'].
  apply Nat.le_antisymm; [apply Hmin'; exact Hf|].
  destruct n as [|j]; [lia|]. destruct (le_lt_dec (S j) (length (neo_of_Z z))) as [|Hlt]; [assumption|exfalso].
  apply (Hmin j eq_refl). apply (neo_fits_mono (length (neo_of_Z z)) j); [lia|exact Hf'].
Qed.

Theorem neo_length_zero z : length (neo_of_Z z) = O <-> z = 0%Z.
Proof.
  split.
  - intro E. destruct (neo_of_Z_minimal z) as [Hf _]. rewrite E in Hf. apply neo_fits_0. exact Hf.
  - intros ->. reflexivity.
Qed.

(** * Canonical byte strings *)

(** decomposition of a string with at least two bytes, seen from the most significant end *)
Lemma rev_two (t u : N) (c : bytes) : rev (t :: u :: c) = (rev c ++ [u]) ++ [t].
Proof. reflexivity. Qed.

Lemma tc_value_snoc1 t : t < 256 ->
  tc_value [t] = (Z.of_N t - (if (128 <=? t)%N then 256 else 0))%Z.
Proof. intro H. unfold tc_value. cbn [last_byte last le_decode length]. rewrite N.mul_0_r, N.add_0_r. reflexivity. Qed.

Lemma tc_value_snoc2 init u t : wf_bytes init = true -> u < 256 -> t < 256 ->
  tc_value ((init ++ [u]) ++ [t]) =
  (Z.of_N (le_decode init) + Z.of_N (P (length init)) * Z.of_N u + 256 * Z.of_N (P (length init)) * Z.of_N t
   - (if (128 <=? t)%N then 256 * 256 * Z.of_N (P (length init)) else 0))%Z.
Proof.
  intros Hi Hu Ht. unfold tc_value. rewrite last_byte_snoc, !le_decode_app, !app_length. cbn [length le_decode].
  replace (length init + 1 + 1)%nat with (S (S (length init))) by lia.
  replace (length init + 1)%nat with (S (length init)) by lia.
  rewrite <- P_Z, !P_S. destruct (128 <=? t); lia.
Qed.

Lemma tc_value_snoc1' init u : wf_bytes init = true -> u < 256 ->
  tc_value (init ++ [u]) =
  (Z.of_N (le_decode init) + Z.of_N (P (length init)) * Z.of_N u
   - (if (128 <=? u)%N then 256 * Z.of_N (P (length init)) else 0))%Z.
Proof.
  intros Hi Hu. unfold tc_value. rewrite last_byte_snoc, !le_decode_app, !app_length. cbn [length le_decode].
  replace (length init + 1)%nat with (S (length init)) by lia.
  rewrite <- P_Z, !P_S. destruct (128 <=? u); lia.
Qed.

(** a canonical string of n+1 bytes holds a value that does not fit in n bytes, and conversely *)
Lemma canonical_iff_not_fits b j : wf_bytes b = true -> length b = S j ->
  (neo_canonical b = true <-> ~ neo_fits j (tc_value b)).
Proof.
  intros H Hl. unfold neo_canonical.
  rewrite <- (rev_involutive b) in H, Hl |- * at 2. 
  destruct (rev b) as [|t c].
  { cbn in Hl. discriminate. }
  rewrite wf_rev in H. apply wf_cons_inv in H. destruct H as [Ht Hc].
  destruct c as [|u c].
  - cbn in Hl. assert (j = O) by lia. subst j. cbn [rev app]. rewrite tc_value_snoc1 by exact Ht.
    rewrite neo_fits_0. destruct (N.eqb_spec t 0); destruct (N.leb_spec 128 t); cbn [negb]; split; intro; try lia; try discriminate; try reflexivity.
  - apply wf_cons_inv in Hc. destruct Hc as [Hu Hc]. rewrite <- wf_rev in Hc.
    rewrite rev_two in *. rewrite !app_length in Hl. cbn [length] in Hl.
    assert (Hj : j = S (length (rev c))) by lia. subst j.
    rewrite tc_value_snoc2 by assumption. unfold neo_fits. rewrite <- P_Z, P_S.
    pose proof (le_decode_lt (rev c) Hc) as Hd. pose proof (P_pos (length (rev c))) as Hp.
    set (p := P (length (rev c))) in *. set (d := le_decode (rev c)) in *.
    destruct (N.eqb_spec t 0) as [E0|N0]; destruct (N.eqb_spec t 255) as [E255|N255];
    destruct (N.ltb_spec u 128) as [Hu1|Hu1]; destruct (N.leb_spec 128 u) as [Hu2|Hu2];
    destruct (N.leb_spec 128 t) as [Ht2|Ht2]; cbn [andb orb negb]; try lia;
    (split; [intro Hcan; try discriminate Hcan; nia | intro Hnf; try reflexivity; exfalso; apply Hnf; nia]).
Qed.

Lemma neo_canonical_nil : neo_canonical [] = true. Proof. reflexivity. Qed.

(** the encoder only produces canonical strings *)
Theorem neo_of_Z_canonical z : neo_canonical (neo_of_Z z) = true.
Proof.
  destruct (neo_of_Z_spec z) as [Hw [Hv [_ Hmin]]].
  destruct (length (neo_of_Z z)) as [|j] eqn:E.
  - apply length_zero_iff_nil in E. rewrite E. reflexivity.
  - apply (canonical_iff_not_fits _ j Hw E). rewrite Hv. apply Hmin. reflexivity.
Qed.

(** a canonical string is the encoding of its value: the canonical strings are exactly the encoder's image *)
Theorem neo_canonical_reencode b : wf_bytes b = true -> neo_canonical b = true ->
  neo_of_Z (Z_of_neo b) = b.
Proof.
  intros H Hc. rewrite Z_of_neo_tc by exact H. set (z := tc_value b).
  destruct (neo_of_Z_spec z) as [Hw [Hv _]].
  apply tc_same_len_inj; [exact Hw|exact H| |exact Hv].
  apply neo_len_unique; [apply tc_value_fits; exact H|].
  intros j Hj. apply (canonical_iff_not_fits b j H Hj). exact Hc.
Qed.

Theorem neo_canonical_iff b : wf_bytes b = true ->
  (neo_of_Z (Z_of_neo b) = b <-> neo_canonical b = true).
Proof.
  intro H. split; [intro E; rewrite <- E; apply neo_of_Z_canonical|apply neo_canonical_reencode; exact H].
Qed.

(** * Non-minimal inputs: redundant sign bytes are dropped *)
Lemma trim_be_wf c : wf_bytes c = true -> wf_bytes (trim_be c) = true.
Proof.
  induction c as [|t r IH]; intro H; [reflexivity|].
  pose proof H as H0. apply wf_cons_inv in H. destruct H as [Ht Hr]. cbn [trim_be].
  destruct r as [|u r'].
  - destruct (t =? 0); [reflexivity|exact H0].
  - destruct (((t =? 0) && (u <? 128)) || ((t =? 255) && (128 <=? u))); [apply IH; exact Hr|exact H0].
Qed.

Lemma trim_be_value c : wf_bytes c = true -> tc_value (rev (trim_be c)) = tc_value (rev c).
Proof.
  induction c as [|t r IH]; intro H; [reflexivity|].
  apply wf_cons_inv in H. destruct H as [Ht Hr]. cbn [trim_be].
  destruct r as [|u r'].
  - destruct (N.eqb_spec t 0) as [->|]; reflexivity.
  - destruct (((t =? 0) && (u <? 128)) || ((t =? 255) && (128 <=? u))) eqn:Ec; [|reflexivity].
    rewrite (IH Hr). pose proof Hr as Hr0. apply wf_cons_inv in Hr. destruct Hr as [Hu Hr']. rewrite <- wf_rev in Hr'.
    rewrite rev_two, tc_value_snoc2 by assumption. cbn [rev]. rewrite tc_value_snoc1' by assumption.
    destruct (N.eqb_spec t 0) as [E0|N0]; destruct (N.eqb_spec t 255) as [E255|N255];
    destruct (N.ltb_spec u 128) as [Hu1|Hu1]; destruct (N.leb_spec 128 u) as [Hu2|Hu2];
    destruct (N.leb_spec 128 t) as [Ht2|Ht2]; cbn [andb orb] in Ec; try discriminate; try lia.
Qed.

Lemma trim_be_canonical c : neo_canonical (rev (trim_be c)) = true.
Proof.
  induction c as [|t r IH]; [reflexivity|]. cbn [trim_be].
  destruct r as [|u r'].
  - destruct (N.eqb_spec t 0) as [->|Hn]; [reflexivity|].
    unfold neo_canonical. cbn [rev app]. apply N.eqb_neq in Hn. rewrite Hn. reflexivity.
  - destruct (((t =? 0) && (u <? 128)) || ((t =? 255) && (128 <=? u))) eqn:Ec; [exact IH|].
    unfold neo_canonical. rewrite rev_involutive, Ec. reflexivity.
Qed.

Lemma trim_be_length c : (length (trim_be c) <= length c)%nat.
Proof.
  induction c as [|t r IH]; [cbn; lia|]. cbn [trim_be]. destruct r as [|u r'].
  - destruct (t =? 0); cbn; lia.
  - destruct (((t =? 0) && (u <? 128)) || ((t =? 255) && (128 <=? u))); [cbn [length] in *; lia|lia].
Qed.

Lemma neo_trim_wf b : wf_bytes b = true -> wf_bytes (neo_trim b) = true.
Proof. intro H. unfold neo_trim. rewrite wf_rev. apply trim_be_wf. rewrite wf_rev. exact H. Qed.

Lemma neo_trim_value b : wf_bytes b = true -> Z_of_neo (neo_trim b) = Z_of_neo b.
Proof.
  intro H. rewrite !Z_of_neo_tc by (try apply neo_trim_wf; exact H).
  unfold neo_trim. rewrite trim_be_value by (rewrite wf_rev; exact H). rewrite rev_involutive. reflexivity.
Qed.

Lemma neo_trim_canonical b : neo_canonical (neo_trim b) = true.
Proof. apply trim_be_canonical. Qed.

Lemma neo_trim_length b : (length (neo_trim b) <= length b)%nat.
Proof. unfold neo_trim. rewrite rev_length. pose proof (trim_be_length (rev b)). rewrite rev_length in *. assumption. Qed.

(** what the code does with any input: decode, then re-encoding gives the trimmed string *)
Theorem neo_reencode_trim b : wf_bytes b = true -> neo_of_Z (Z_of_neo b) = neo_trim b.
Proof.
  intro H. rewrite <- (neo_trim_value b H).
  apply neo_canonical_reencode; [apply neo_trim_wf; exact H|apply neo_trim_canonical].
Qed.

(** two inputs decode to the same integer exactly when they differ only in redundant sign bytes *)
Theorem neo_decode_eq_iff b1 b2 : wf_bytes b1 = true -> wf_bytes b2 = true ->
  (Z_of_neo b1 = Z_of_neo b2 <-> neo_trim b1 = neo_trim b2).
Proof.
  intros H1 H2. split; intro E.
  - rewrite <- (neo_reencode_trim b1 H1), <- (neo_reencode_trim b2 H2), E. reflexivity.
  - rewrite <- (neo_trim_value b1 H1), <- (neo_trim_value b2 H2), E. reflexivity.
Qed.

(** each integer has exactly one canonical encoding *)
Theorem neo_unique_canonical b z : wf_bytes b = true -> neo_canonical b = true -> Z_of_neo b = z ->
  b = neo_of_Z z.
Proof. intros H Hc E. rewrite <- E. symmetry. apply neo_canonical_reencode; assumption. Qed.

(** explicit sign extension: a trailing 0x00 after a byte below 128 (or on the empty string), and a
    trailing 0xff after a byte of at least 128, do not change the decoded value *)
Theorem neo_sign_extend_00 b : wf_bytes b = true -> last_byte b < 128 -> Z_of_neo (b ++ [0]) = Z_of_neo b.
Proof.
  intros H Hl. rewrite !Z_of_neo_tc by (try apply wf_app_intro; try exact H; reflexivity).
  unfold tc_value. rewrite last_byte_snoc, le_decode_app. cbn [le_decode].
  replace (128 <=? 0) with false by reflexivity.
  replace (128 <=? last_byte b) with false by (symmetry; apply N.leb_gt; exact Hl). lia.
Qed.

Theorem neo_sign_extend_ff b : wf_bytes b = true -> 128 <= last_byte b -> Z_of_neo (b ++ [255]) = Z_of_neo b.
Proof.
  intros H Hl. rewrite !Z_of_neo_tc by (try apply wf_app_intro; try exact H; reflexivity).
  unfold tc_value. rewrite last_byte_snoc, le_decode_app, app_length. cbn [le_decode length].
  replace (length b + 1)%nat with (S (length b)) by lia. rewrite <- !P_Z, P_S.
  replace (128 <=? 255) with true by reflexivity.
  replace (128 <=? last_byte b) with true by (symmetry; apply N.leb_le; exact Hl). lia.
Qed.

(** * Fixed-width helpers *)
Lemma le_encode_zero w : le_encode w 0 = repeat 0 w.
Proof. induction w as [|w IH]; [reflexivity|]. cbn [le_encode repeat]. rewrite N.mod_0_l, N.div_0_l by discriminate. rewrite IH. reflexivity. Qed.

Lemma le_encode_pad k m v : v < P k -> le_encode (k + m) v = le_encode k v ++ repeat 0 m.
Proof.
  revert v. induction k as [|k IH]; intros v H.
  - rewrite P_0 in H. assert (v = 0) by lia. subst v. apply le_encode_zero.
  - cbn [Nat.add le_encode app]. f_equal. apply IH. rewrite P_S in H. lia.
Qed.

Lemma le_encode_add a b v : le_encode (a + b) v = le_encode a v ++ le_encode b (v / P a).
Proof.
  revert v. induction a as [|a IH]; intro v.
  - cbn [Nat.add le_encode app]. rewrite P_0, N.div_1_r. reflexivity.
  - cbn [Nat.add le_encode app]. f_equal. rewrite IH. f_equal. f_equal. rewrite P_S.
    rewrite N.div_div by (try discriminate; pose proof (P_pos a); lia). reflexivity.
Qed.

Lemma le_encode_mod w v : le_encode w (v mod P w) = le_encode w v.
Proof.
  revert v. induction w as [|w IH]; intro v; [reflexivity|]. cbn [le_encode]. rewrite P_S.
  pose proof (P_pos w) as Hp. f_equal.
  - rewrite N.mod_mul_r by lia. rewrite N.mul_comm, N.mod_add by discriminate. apply N.mod_mod. discriminate.
  - rewrite <- IH. rewrite <- (IH (v / 256)). f_equal. rewrite N.mod_mul_r by lia.
    rewrite N.mul_comm, N.div_add by discriminate. rewrite (N.div_small (v mod 256)) by (apply N.mod_lt; discriminate).
    rewrite N.add_0_l. apply N.mod_mod. lia.
Qed.

Lemma copy_fixed_mag w v : v < P w -> copy_fixed w (mag_bytes v) = le_encode w v.
Proof.
  intro H. unfold copy_fixed. pose proof (byte_len_le v w H) as Hk.
  rewrite firstn_all2 by (rewrite mag_bytes_length; exact Hk). rewrite mag_bytes_length.
  replace w with (byte_len v + (w - byte_len v))%nat at 2 by lia.
  unfold mag_bytes. symmetry. apply le_encode_pad.
  destruct (N.eq_dec v 0) as [->|Hn]; [apply P_pos|].
  destruct (byte_len_spec v Hn) as [k [E [_ Hhi]]]. rewrite E. exact Hhi.
Qed.

(** * common/int128.go *)
Lemma P16 : P 16 = 340282366920938463463374607431768211456. Proof. reflexivity. Qed.
Lemma P8 : P 8 = 18446744073709551616. Proof. reflexivity. Qed.

Definition i128_in_range (z : Z) : Prop := (- 2 ^ 127 <= z < 2 ^ 127)%Z.

(** the range check of I128FromBigInt *)
Theorem i128_of_Z_none_iff z : i128_of_Z z = None <-> ~ i128_in_range z.
Proof.
  unfold i128_of_Z, i128_in_range, maxI128, minI128.
  destruct (Z.ltb_spec (2 ^ 127 - 1) z); destruct (Z.ltb_spec z (- 2 ^ 127)); cbn [orb]; split; intro Hx; try reflexivity; try discriminate; try lia.
Qed.

(** in range: the result is the 16-byte little-endian form of z mod 2^128 *)
Lemma i128_of_Z_some z : i128_in_range z ->
  i128_of_Z z = Some (le_encode 16 (Z.to_N (z mod 2 ^ 128))).
Proof.
  unfold i128_in_range. intro H. unfold i128_of_Z, maxI128, minI128, pow128, i128_size.
  destruct (Z.ltb_spec (2 ^ 127 - 1) z); [lia|]. destruct (Z.ltb_spec z (- 2 ^ 127)); [lia|]. cbn [orb].
  f_equal. rewrite copy_fixed_mag.
  - f_equal. f_equal. destruct (Z.ltb_spec z 0).
    + rewrite <- (Z.mod_small (z + 2 ^ 128) (2 ^ 128)) by lia.
      rewrite <- Z.add_mod_idemp_r, Z.mod_same, Z.add_0_r by lia. reflexivity.
    + rewrite Z.mod_small by lia. reflexivity.
  - rewrite P16. destruct (Z.ltb_spec z 0); lia.
Qed.

Lemma i128_of_Z_some_range z b : i128_of_Z z = Some b -> i128_in_range z.
Proof.
  intro E. destruct (Z_lt_dec z (- 2 ^ 127)); [|destruct (Z_lt_dec z (2 ^ 127)); [unfold i128_in_range; lia|]].
  - assert (i128_of_Z z = None) by (apply i128_of_Z_none_iff; unfold i128_in_range; lia). congruence.
  - assert (i128_of_Z z = None) by (apply i128_of_Z_none_iff; unfold i128_in_range; lia). congruence.
Qed.

Theorem i128_of_Z_length z b : i128_of_Z z = Some b -> length b = 16%nat /\ wf_bytes b = true.
Proof.
  intro E. pose proof (i128_of_Z_some_range z b E) as Hr.
  rewrite (i128_of_Z_some z Hr) in E.
  assert (Eb : b = le_encode 16 (Z.to_N (z mod 2 ^ 128))) by congruence. rewrite Eb.
  split; [apply le_encode_length|apply le_encode_wf].
Qed.

Lemma Z_of_u128_decode b : Z_of_u128 b = Z.of_N (le_decode b).
Proof. unfold Z_of_u128. rewrite le_decode_app. cbn [le_decode]. f_equal. lia. Qed.

(** ToBigInt (FromBigInt z) = z *)
Theorem i128_roundtrip z : i128_in_range z ->
  exists b, i128_of_Z z = Some b /\ Z_of_i128 b = z.
Proof.
  intro H. exists (le_encode 16 (Z.to_N (z mod 2 ^ 128))). split; [apply i128_of_Z_some; exact H|].
  unfold Z_of_i128. rewrite Z_of_u128_decode, le_decode_encode_small.
  - unfold maxI128, pow128. unfold i128_in_range in H. rewrite Z2N.id by lia.
    destruct (Z_lt_dec z 0).
    + assert (E : (z mod 2 ^ 128 = z + 2 ^ 128)%Z).
      { rewrite <- (Z.mod_small (z + 2 ^ 128) (2 ^ 128)) by lia.
        rewrite <- Z.add_mod_idemp_r, Z.mod_same, Z.add_0_r by lia. reflexivity. }
      rewrite E. destruct (Z.ltb_spec (2 ^ 127 - 1) (z + 2 ^ 128)); lia.
    + rewrite Z.mod_small by lia. destruct (Z.ltb_spec (2 ^ 127 - 1) z); lia.
  - change (256 ^ N.of_nat 16) with (P 16). rewrite P16.
    assert (0 <= z mod 2 ^ 128 < 2 ^ 128)%Z by (apply Z.mod_pos_bound; lia). lia.
Qed.

(** FromBigInt (ToBigInt b) = b for every 16-byte string: the conversion is a bijection between the
    i128 range and the 16-byte strings *)
Theorem i128_roundtrip_bytes b : wf_bytes b = true -> length b = 16%nat ->
  i128_in_range (Z_of_i128 b) /\ i128_of_Z (Z_of_i128 b) = Some b.
Proof.
  intros H Hl. pose proof (le_decode_lt b H) as Hd. rewrite Hl, P16 in Hd.
  assert (Hr : i128_in_range (Z_of_i128 b)).
  { unfold i128_in_range, Z_of_i128, maxI128, pow128. rewrite Z_of_u128_decode.
    destruct (Z.ltb_spec (2 ^ 127 - 1) (Z.of_N (le_decode b))); lia. }
  split; [exact Hr|]. rewrite (i128_of_Z_some _ Hr). f_equal.
  transitivity (le_encode (length b) (le_decode b)); [|apply le_encode_decode; exact H]. rewrite Hl. f_equal.
  unfold Z_of_i128, maxI128, pow128. rewrite Z_of_u128_decode.
  destruct (Z.ltb_spec (2 ^ 127 - 1) (Z.of_N (le_decode b))).
  - rewrite <- Z.add_opp_r, <- Z.add_mod_idemp_r by lia.
    replace ((- 2 ^ 128) mod 2 ^ 128)%Z with 0%Z by reflexivity. rewrite Z.add_0_r, Z.mod_small by lia. lia.
  - rewrite Z.mod_small by lia. lia.
Qed.

Theorem i128_of_Z_inj z1 z2 b : i128_of_Z z1 = Some b -> i128_of_Z z2 = Some b -> z1 = z2.
Proof.
  intros E1 E2.
  assert (R : forall z, i128_of_Z z = Some b -> Z_of_i128 b = z).
  { intros z E. destruct (Z_lt_dec z (- 2 ^ 127)); [|destruct (Z_lt_dec z (2 ^ 127))].
    - assert (i128_of_Z z = None) by (apply i128_of_Z_none_iff; unfold i128_in_range; lia). congruence.
    - destruct (i128_roundtrip z) as [b' [Eb Ez]]; [unfold i128_in_range; lia|]. congruence.
    - assert (i128_of_Z z = None) by (apply i128_of_Z_none_iff; unfold i128_in_range; lia). congruence. }
  rewrite <- (R z1 E1), <- (R z2 E2). reflexivity.
Qed.

(** I128FromInt64 / I128FromUint64 agree with I128FromBigInt *)
Theorem i128_of_int64_agrees z : (- 2 ^ 63 <= z < 2 ^ 63)%Z -> i128_of_Z z = Some (i128_of_int64 z).
Proof.
  intro H. rewrite i128_of_Z_some by (unfold i128_in_range; lia). f_equal.
  unfold i128_of_int64. change 16%nat with (8 + 8)%nat. rewrite le_encode_add, P8. f_equal.
  - rewrite <- (le_encode_mod 8 (Z.to_N (z mod 2 ^ 128))), P8. f_equal.
    assert (0 <= z mod 2 ^ 128 < 2 ^ 128)%Z by (apply Z.mod_pos_bound; lia).
    assert (0 <= z mod 2 ^ 64 < 2 ^ 64)%Z by (apply Z.mod_pos_bound; lia).
    apply N2Z.inj. rewrite N2Z.inj_mod, !Z2N.id by lia.
    change (Z.of_N 18446744073709551616) with (2 ^ 64)%Z.
    change (2 ^ 128)%Z with (2 ^ 64 * 2 ^ 64)%Z. rewrite Z.rem_mul_r by lia.
    rewrite Z.mul_comm, Z.mod_add by lia. apply Z.mod_mod. lia.
  - destruct (Z.ltb_spec z 0).
    + replace (Z.to_N (z mod 2 ^ 128) / 18446744073709551616) with 18446744073709551615; [reflexivity|].
      assert (E : (z mod 2 ^ 128 = z + 2 ^ 128)%Z).
      { rewrite <- (Z.mod_small (z + 2 ^ 128) (2 ^ 128)) by lia.
        rewrite <- Z.add_mod_idemp_r, Z.mod_same, Z.add_0_r by lia. reflexivity. }
      rewrite E. lia.
    + rewrite Z.mod_small by lia. rewrite N.div_small by lia. reflexivity.
Qed.

Theorem i128_of_uint64_agrees v : v < 18446744073709551616 -> i128_of_Z (Z.of_N v) = Some (i128_of_uint64 v).
Proof.
  intro H. rewrite i128_of_Z_some by (unfold i128_in_range; lia). f_equal.
  unfold i128_of_uint64. rewrite Z.mod_small by lia. rewrite N2Z.id.
  change 16%nat with (8 + 8)%nat. apply le_encode_pad. rewrite P8. exact H.
Qed.

(** * Length prefixes (WriteVarUint / NextVarUint, WriteVarBytes / NextVarBytes) *)
Definition two64N : N := 18446744073709551616.

Lemma nv_take_app x r : nv_take (N.of_nat (length x)) (x ++ r) = Some (x, r).
Proof.
  unfold nv_take. rewrite app_length. destruct (N.leb_spec (N.of_nat (length x)) (N.of_nat (length x + length r))); [|lia].
  rewrite Nat2N.id, firstn_app, firstn_all, Nat.sub_diag, skipn_app, skipn_all, Nat.sub_diag. cbn [firstn skipn].
  rewrite app_nil_r. reflexivity.
Qed.

Lemma nv_take_some n b x r : nv_take n b = Some (x, r) -> b = x ++ r /\ length x = N.to_nat n.
Proof.
  unfold nv_take. destruct (N.leb_spec n (N.of_nat (length b))); [|discriminate].
  intro E. injection E as <- <-. split; [symmetry; apply firstn_skipn|]. rewrite firstn_length. lia.
Qed.

Lemma nv_next_write_varuint v r : v < two64N ->
  nv_next_varuint (nv_write_varuint v ++ r) = Some (v, false, r).
Proof.
  unfold two64N. intro H. unfold nv_write_varuint.
  destruct (N.ltb_spec v 253) as [H1|H1].
  - cbn [app nv_next_varuint]. 
    destruct (N.eqb_spec v 253); [lia|]. destruct (N.eqb_spec v 254); [lia|]. destruct (N.eqb_spec v 255); [lia|].
    unfold nv_getVarUintSize. destruct (N.ltb_spec v 253); [reflexivity|lia].
  - destruct (N.leb_spec v 65535) as [H2|H2].
    + cbn [app nv_next_varuint N.eqb Pos.eqb].
      change (N.of_nat 2) with (N.of_nat (length (le_encode 2 v))). rewrite nv_take_app.
      rewrite le_decode_encode_small by (change (256 ^ N.of_nat 2) with 65536; lia).
      unfold nv_getVarUintSize. destruct (N.ltb_spec v 253); [lia|]. destruct (N.leb_spec v 65535); [reflexivity|lia].
    + destruct (N.leb_spec v 4294967295) as [H3|H3].
      * cbn [app nv_next_varuint N.eqb Pos.eqb].
        change (N.of_nat 4) with (N.of_nat (length (le_encode 4 v))). rewrite nv_take_app.
        rewrite le_decode_encode_small by (change (256 ^ N.of_nat 4) with 4294967296; lia).
        unfold nv_getVarUintSize. destruct (N.ltb_spec v 253); [lia|]. destruct (N.leb_spec v 65535); [lia|].
        destruct (N.leb_spec v 4294967295); [reflexivity|lia].
      * cbn [app nv_next_varuint N.eqb Pos.eqb].
        change (N.of_nat 8) with (N.of_nat (length (le_encode 8 v))). rewrite nv_take_app.
        rewrite le_decode_encode_small by (change (256 ^ N.of_nat 8) with 18446744073709551616; lia).
        unfold nv_getVarUintSize. destruct (N.ltb_spec v 253); [lia|]. destruct (N.leb_spec v 65535); [lia|].
        destruct (N.leb_spec v 4294967295); [lia|reflexivity].
Qed.

(** a regular (not irregular) length prefix is the writer's encoding of the count *)
Lemma nv_next_varuint_canonical b c r : wf_bytes b = true ->
  nv_next_varuint b = Some (c, false, r) -> b = nv_write_varuint c ++ r /\ c < two64N.
Proof.
  intros H. destruct b as [|fb b']; [discriminate|]. apply wf_cons_inv in H. destruct H as [Hfb Hb'].
  cbn [nv_next_varuint].
  assert (Fixed : forall (w : nat) (size : N) x r', nv_take (N.of_nat w) b' = Some (x, r') ->
            b' = x ++ r' /\ length x = w /\ wf_bytes x = true /\ le_encode w (le_decode x) = x /\ le_decode x < P w).
  { intros w size x r' E. apply nv_take_some in E. destruct E as [E1 E2]. rewrite Nat2N.id in E2.
    assert (Hx : wf_bytes x = true) by (rewrite E1 in Hb'; apply wf_app_inv in Hb'; tauto).
    repeat split; try assumption.
    - rewrite <- E2. apply le_encode_decode. exact Hx.
    - rewrite <- E2. apply le_decode_lt. exact Hx. }
  unfold two64N.
  destruct (N.eqb_spec fb 253) as [->|N1]; [|destruct (N.eqb_spec fb 254) as [->|N2]; [|destruct (N.eqb_spec fb 255) as [->|N3]]].
  - destruct (nv_take (N.of_nat 2) b') as [[x r']|] eqn:E; [|discriminate].
    destruct (Fixed 2%nat 3 x r' E) as [E1 [E2 [Hx [Eenc Hlt]]]]. change (P 2) with 65536 in Hlt.
    intro Hs. injection Hs as <- Hirr <-. unfold nv_getVarUintSize in Hirr. unfold nv_write_varuint.
    destruct (N.ltb_spec (le_decode x) 253); [discriminate|]. destruct (N.leb_spec (le_decode x) 65535); [|lia].
    rewrite Eenc, E1. split; [reflexivity|lia].
  - destruct (nv_take (N.of_nat 4) b') as [[x r']|] eqn:E; [|discriminate].
    destruct (Fixed 4%nat 5 x r' E) as [E1 [E2 [Hx [Eenc Hlt]]]]. change (P 4) with 4294967296 in Hlt.
    intro Hs. injection Hs as <- Hirr <-. unfold nv_getVarUintSize in Hirr. unfold nv_write_varuint.
    destruct (N.ltb_spec (le_decode x) 253); [discriminate|]. destruct (N.leb_spec (le_decode x) 65535); [discriminate|].
    destruct (N.leb_spec (le_decode x) 4294967295); [|lia].
    rewrite Eenc, E1. split; [reflexivity|lia].
  - destruct (nv_take (N.of_nat 8) b') as [[x r']|] eqn:E; [|discriminate].
    destruct (Fixed 8%nat 9 x r' E) as [E1 [E2 [Hx [Eenc Hlt]]]]. change (P 8) with 18446744073709551616 in Hlt.
    intro Hs. injection Hs as <- Hirr <-. unfold nv_getVarUintSize in Hirr. unfold nv_write_varuint.
    destruct (N.ltb_spec (le_decode x) 253); [discriminate|]. destruct (N.leb_spec (le_decode x) 65535); [discriminate|].
    destruct (N.leb_spec (le_decode x) 4294967295); [discriminate|].
    rewrite Eenc, E1. split; [reflexivity|lia].
  - intro Hs. injection Hs as <- Hirr <-. unfold nv_write_varuint.
    destruct (N.ltb_spec fb 253); [|lia]. split; [reflexivity|lia].
Qed.

Lemma nv_next_write_varbytes d r : N.of_nat (length d) < two64N ->
  nv_next_varbytes (nv_write_varbytes d ++ r) = (d, false, false, r).
Proof.
  intro H. unfold nv_next_varbytes, nv_write_varbytes. rewrite <- app_assoc.
  rewrite nv_next_write_varuint by exact H.
  destruct (N.ltb_spec 0 (N.of_nat (length d))) as [Hp|Hz].
  - rewrite nv_take_app. reflexivity.
  - destruct d; [reflexivity|cbn [length] in Hz; lia].
Qed.

(** a successful, regular NextVarBytes consumed exactly the writer's encoding of the data it returns *)
Lemma nv_next_varbytes_canonical b d r : wf_bytes b = true ->
  nv_next_varbytes b = (d, false, false, r) ->
  b = nv_write_varbytes d ++ r /\ wf_bytes d = true /\ N.of_nat (length d) < two64N.
Proof.
  intros H. unfold nv_next_varbytes. destruct (nv_next_varuint b) as [[[count irr] r0]|] eqn:E; [|discriminate].
  destruct (N.ltb_spec 0 count) as [Hp|Hz].
  - destruct (nv_take count r0) as [[d' r']|] eqn:Et; [|discriminate].
    intro Hs. injection Hs as <- -> <-.
    destruct (nv_next_varuint_canonical b count r0 H E) as [Eb Hc].
    apply nv_take_some in Et. destruct Et as [Er Hl].
    assert (Hcount : N.of_nat (length d') = count) by lia.
    unfold nv_write_varbytes. rewrite Hcount, <- app_assoc, <- Er. split; [exact Eb|].
    rewrite Eb in H. apply wf_app_inv in H. destruct H as [_ H]. rewrite Er in H. apply wf_app_inv in H. split; [tauto|exact Hc].
  - intro Hs. injection Hs as <- -> <-.
    destruct (nv_next_varuint_canonical b count r0 H E) as [Eb Hc].
    assert (count = 0) by lia. subst count. unfold nv_write_varbytes. cbn [length N.of_nat].
    rewrite app_nil_r. split; [exact Eb|]. split; [reflexivity|reflexivity].
Qed.

Lemma nv_write_varbytes_wf d : wf_bytes d = true -> N.of_nat (length d) < two64N -> wf_bytes (nv_write_varbytes d) = true.
Proof.
  unfold two64N. intros H Hl. unfold nv_write_varbytes. apply wf_app_intro; [|exact H]. unfold nv_write_varuint.
  destruct (N.ltb_spec (N.of_nat (length d)) 253); [apply wf_single; lia|].
  destruct (_ <=? 65535); [apply wf_cons_intro; [lia|apply le_encode_wf]|].
  destruct (_ <=? 4294967295); apply wf_cons_intro; try lia; apply le_encode_wf.
Qed.

(** * Native contract variable-length integer *)
Lemma neo_of_uint64_length v : v < two64N -> (length (neo_of_Z (Z.of_N v)) <= 9)%nat.
Proof.
  unfold two64N. intro H. apply neo_of_Z_minimal. unfold neo_fits.
  change (256 ^ Z.of_nat 9)%Z with 4722366482869645213696%Z. lia.
Qed.

(** DecodeVarUint (EncodeVarUint v) = v, followed by anything *)
Theorem varuint_roundtrip v rest : v < two64N ->
  decode_varuint (encode_varuint v ++ rest) = inl (v, rest).
Proof.
  intro H. pose proof (neo_of_uint64_length v H) as Hl. unfold decode_varuint, encode_varuint.
  rewrite nv_next_write_varbytes by (unfold two64N; lia).
  rewrite neo_roundtrip. unfold two64N, two64Z in *.
  destruct (Z.ltb_spec (Z.of_N v) 0); [lia|]. destruct (Z.ltb_spec (Z.of_N v) 18446744073709551616); [|lia].
  cbn [orb negb]. rewrite N2Z.id. reflexivity.
Qed.

Theorem encode_varuint_wf v : v < two64N -> wf_bytes (encode_varuint v) = true.
Proof.
  intro H. apply nv_write_varbytes_wf; [apply neo_of_Z_wf|]. pose proof (neo_of_uint64_length v H). unfold two64N. lia.
Qed.

(** the encoding is 1 length byte plus at most 9 payload bytes *)
Theorem encode_varuint_shape v : v < two64N ->
  encode_varuint v = N.of_nat (length (neo_of_Z (Z.of_N v))) :: neo_of_Z (Z.of_N v) /\
  (length (encode_varuint v) <= 10)%nat.
Proof.
  intro H. pose proof (neo_of_uint64_length v H) as Hl. unfold encode_varuint, nv_write_varbytes, nv_write_varuint.
  destruct (N.ltb_spec (N.of_nat (length (neo_of_Z (Z.of_N v)))) 253); [|lia]. cbn [app length]. split; [reflexivity|lia].
Qed.

(** prefix-free and injective: concatenated encodings parse uniquely *)
Theorem encode_varuint_prefix_free v1 v2 r1 r2 : v1 < two64N -> v2 < two64N ->
  encode_varuint v1 ++ r1 = encode_varuint v2 ++ r2 -> v1 = v2 /\ r1 = r2.
Proof.
  intros H1 H2 E. pose proof (varuint_roundtrip v1 r1 H1) as D1. rewrite E, (varuint_roundtrip v2 r2 H2) in D1.
  injection D1 as -> ->. split; reflexivity.
Qed.

Theorem encode_varuint_inj v1 v2 : v1 < two64N -> v2 < two64N -> encode_varuint v1 = encode_varuint v2 -> v1 = v2.
Proof.
  intros H1 H2 E. apply (encode_varuint_prefix_free v1 v2 [] [] H1 H2). rewrite E. reflexivity.
Qed.

(** What DecodeVarUint accepts: a canonical length prefix followed by any two's-complement string whose
    value is in the uint64 range; re-encoding the value gives the same prefix form around the trimmed payload. *)
Theorem decode_varuint_accepts b v rest : wf_bytes b = true -> decode_varuint b = inl (v, rest) ->
  let payload := varuint_payload b in
  b = nv_write_varbytes payload ++ rest /\
  wf_bytes payload = true /\
  Z_of_neo payload = Z.of_N v /\ v < two64N /\
  encode_varuint v = nv_write_varbytes (neo_trim payload).
Proof.
  intros H. unfold decode_varuint, varuint_payload.
  destruct (nv_next_varbytes b) as [[[value irr] eof] r0] eqn:E.
  destruct eof; [discriminate|]. destruct irr; [discriminate|].
  unfold two64Z. destruct (Z.ltb_spec (Z_of_neo value) 0); [discriminate|].
  destruct (Z.ltb_spec (Z_of_neo value) 18446744073709551616); [|discriminate]. cbn [orb negb].
  intro Hs. injection Hs as <- <-. cbn zeta.
  destruct (nv_next_varbytes_canonical b value r0 H E) as [Eb [Hw Hl]].
  split; [exact Eb|]. split; [exact Hw|]. split; [lia|]. split; [unfold two64N; lia|].
  unfold encode_varuint. rewrite Z2N.id by lia. rewrite neo_reencode_trim by exact Hw. reflexivity.
Qed.

(** so: an accepted input is the encoder's output exactly when its payload carries no redundant sign byte *)
Theorem decode_varuint_canonical b v rest : wf_bytes b = true -> decode_varuint b = inl (v, rest) ->
  neo_canonical (varuint_payload b) = true -> b = encode_varuint v ++ rest.
Proof.
  intros H D Hc. destruct (decode_varuint_accepts b v rest H D) as [Eb [Hw [Hv [_ He]]]].
  rewrite He. rewrite <- (neo_reencode_trim _ Hw), (neo_canonical_reencode _ Hw Hc). exact Eb.
Qed.

(** the wrapping variant agrees whenever the strict one succeeds *)
Theorem decode_varuint_wrapping_agrees b r : decode_varuint b = inl r -> decode_varuint_wrapping b = inl r.
Proof.
  unfold decode_varuint, decode_varuint_wrapping.
  destruct (nv_next_varbytes b) as [[[value irr] eof] r0].
  destruct eof; [discriminate|]. destruct irr; [discriminate|].
  unfold two64Z. destruct (Z.ltb_spec (Z_of_neo value) 0); [discriminate|].
  destruct (Z.ltb_spec (Z_of_neo value) 18446744073709551616); [|discriminate]. cbn [orb negb].
  intro E. rewrite Z.mod_small by lia. exact E.
Qed.

(** * Storage items and token balances *)
Theorem item_roundtrip it rest : N.of_nat (length (item_value it)) < two64N ->
  item_of_bytes (item_to_bytes it ++ rest) = inl (it, rest).
Proof.
  intro H. unfold item_to_bytes, item_of_bytes. cbn [app]. rewrite nv_next_write_varbytes by exact H.
  destruct it; reflexivity.
Qed.

(** balances the writer stores: non-negative and, when integral, below 2^64 units
    (fractional balances are stored as NeoVM integers of any size) *)
Definition balance_storable (b : Z) : Prop :=
  (0 <= b /\ ((b mod ScaleFactor = 0) -> b / ScaleFactor < two64Z))%Z.

(** the domain named by the property: non-negative with integer part below 2^64 *)
Definition balance_in_domain (b : Z) : Prop := (0 <= b /\ b / ScaleFactor < two64Z)%Z.

Lemma balance_in_domain_storable b : balance_in_domain b -> balance_storable b.
Proof. unfold balance_in_domain, balance_storable. tauto. Qed.

Lemma nv_take_exact x : nv_take (N.of_nat (length x)) x = Some (x, []).
Proof. rewrite <- (app_nil_r x) at 2. apply nv_take_app. Qed.

(** from_item (to_item b) = b on the domain; version 0 iff integral *)
Theorem balance_roundtrip b : balance_storable b ->
  exists it, balance_to_item b = Some it /\ balance_of_item it = inl b /\ wf_item it = true /\
             balance_item_canonical it = true /\
             (state_version it = DefaultVersion <-> (b mod ScaleFactor = 0)%Z) /\
             (state_version it = DefaultVersion \/ state_version it = ScaleDecimal9Version).
Proof.
  unfold balance_storable, two64Z, ScaleFactor. intros [H0 H1]. unfold balance_to_item, balance_is_float, ScaleFactor.
  destruct (Z.eqb_spec (b mod 1000000000) 0) as [Em|Em]; cbn [negb].
  - specialize (H1 Em).
    unfold two64Z. destruct (Z.leb_spec 0 (b / 1000000000)); [|lia]. destruct (Z.ltb_spec (b / 1000000000) 18446744073709551616); [|lia].
    cbn [andb]. eexists. split; [reflexivity|].
    unfold balance_of_item, wf_item, balance_item_canonical. cbn [state_version item_value]. 
    change (DefaultVersion =? DefaultVersion) with true. cbn iota.
    change 8 with (N.of_nat (length (le_encode 8 (Z.to_N (b / 1000000000))))) at 1. rewrite nv_take_exact.
    rewrite le_decode_encode_small by (change (256 ^ N.of_nat 8) with 18446744073709551616; lia).
    rewrite le_encode_wf. rewrite le_encode_length. unfold ScaleFactor. 
    split; [f_equal; lia|]. split; [reflexivity|]. split; [reflexivity|]. split; [tauto|left; reflexivity].
  - clear H1. eexists. split; [reflexivity|].
    unfold balance_of_item, wf_item, balance_item_canonical. cbn [state_version item_value].
    change (ScaleDecimal9Version =? DefaultVersion) with false. cbn iota.
    rewrite neo_roundtrip, neo_of_Z_wf, neo_of_Z_canonical. destruct (Z.ltb_spec b 0); [lia|].
    split; [reflexivity|]. split; [reflexivity|].
    split; [unfold balance_is_float, ScaleFactor; destruct (Z.eqb_spec (b mod 1000000000) 0); [contradiction|reflexivity]|].
    split; [|right; reflexivity]. split; [discriminate|contradiction].
Qed.

(** the writer succeeds exactly on the storable balances and on negative fractional ones (which it
    writes unreadable, see [balance_negative]) *)
Theorem balance_to_item_some_iff b :
  (exists it, balance_to_item b = Some it) <-> (balance_storable b \/ ((b < 0)%Z /\ (b mod ScaleFactor <> 0)%Z)).
Proof.
  unfold balance_storable, balance_to_item, balance_is_float, two64Z, ScaleFactor.
  destruct (Z.eqb_spec (b mod 1000000000) 0) as [Em|Em]; cbn [negb].
  - destruct (Z.leb_spec 0 (b / 1000000000)); destruct (Z.ltb_spec (b / 1000000000) 18446744073709551616); cbn [andb];
      split; intro Hx; try (eexists; reflexivity); try (destruct Hx as [? Hx]; discriminate Hx); try lia.
  - split; [intros _|intros _; eexists; reflexivity].
    destruct (Z_lt_dec b 0); [right; tauto|left; split; [lia|intro; contradiction]].
Qed.

(** when MustToStorageItem panics *)
Theorem balance_to_item_none_iff b :
  balance_to_item b = None <-> ((b mod ScaleFactor = 0)%Z /\ (b < 0 \/ two64Z <= b / ScaleFactor)%Z).
Proof.
  unfold balance_to_item, balance_is_float, two64Z, ScaleFactor.
  destruct (Z.eqb_spec (b mod 1000000000) 0) as [Em|Em]; cbn [negb].
  - destruct (Z.leb_spec 0 (b / 1000000000)); destruct (Z.ltb_spec (b / 1000000000) 18446744073709551616); cbn [andb];
      split; intro Hx; try reflexivity; try discriminate; try lia. 
  - split; [discriminate|tauto].
Qed.

(** negative balances are never readable: MustToStorageItem panics or writes an item the reader refuses *)
Theorem balance_negative b it : (b < 0)%Z -> balance_to_item b = Some it -> balance_of_item it = inr BalNegative.
Proof.
  unfold balance_to_item, balance_is_float, two64Z, ScaleFactor. intros Hb.
  destruct (Z.eqb_spec (b mod 1000000000) 0) as [Em|Em]; cbn [negb].
  - destruct (Z.leb_spec 0 (b / 1000000000)); [lia|]. cbn [andb]. discriminate.
  - intro E. injection E as <-. unfold balance_of_item. cbn [state_version item_value].
    change (ScaleDecimal9Version =? DefaultVersion) with false. cbn iota. rewrite neo_roundtrip.
    destruct (Z.ltb_spec b 0); [reflexivity|lia].
Qed.

Theorem balance_to_item_inj b1 b2 it : balance_storable b1 -> balance_storable b2 ->
  balance_to_item b1 = Some it -> balance_to_item b2 = Some it -> b1 = b2.
Proof.
  intros D1 D2 E1 E2.
  destruct (balance_roundtrip b1 D1) as [i1 [T1 [F1 _]]]. destruct (balance_roundtrip b2 D2) as [i2 [T2 [F2 _]]].
  assert (i1 = it) by congruence. assert (i2 = it) by congruence. subst. congruence.
Qed.

(** What NativeTokenBalanceFromStorageItem accepts, and which of those items are the writer's. *)
Theorem balance_of_item_accepts it b : wf_item it = true -> balance_of_item it = inl b ->
  (0 <= b)%Z /\
  (state_version it = DefaultVersion -> (b mod ScaleFactor = 0)%Z /\ (b / ScaleFactor < two64Z)%Z) /\
  (balance_to_item b = Some it <-> balance_item_canonical it = true).
Proof.
  destruct it as [ver val]. unfold wf_item, balance_of_item, balance_item_canonical. cbn [state_version item_value].
  intro Hw. apply andb_prop in Hw. destruct Hw as [Hver Hval].
  destruct (N.eqb_spec ver DefaultVersion) as [->|Hv].
  - destruct (nv_take 8 val) as [[x r]|] eqn:Et; [|discriminate].
    intro E. injection E as <-. apply nv_take_some in Et. destruct Et as [Ev Hl]. change (N.to_nat 8) with 8%nat in Hl.
    assert (Hx : wf_bytes x = true) by (rewrite Ev in Hval; apply wf_app_inv in Hval; tauto).
    pose proof (le_decode_lt x Hx) as Hd. rewrite Hl in Hd. change (P 8) with 18446744073709551616 in Hd.
    unfold ScaleFactor, two64Z.
    assert (Hq : (Z.of_N (le_decode x) * 1000000000 / 1000000000 = Z.of_N (le_decode x))%Z) by (apply Z.div_mul; lia).
    assert (Hm : (Z.of_N (le_decode x) * 1000000000 mod 1000000000 = 0)%Z) by (apply Z.mod_mul; lia).
    split; [lia|]. split; [intros _; rewrite Hq, Hm; lia|].
    unfold balance_to_item, balance_is_float, ScaleFactor, two64Z. rewrite Hm, Hq. cbn [Z.eqb negb].
    destruct (Z.leb_spec 0 (Z.of_N (le_decode x))); [|lia].
    destruct (Z.ltb_spec (Z.of_N (le_decode x)) 18446744073709551616); [|lia]. cbn [andb]. rewrite N2Z.id.
    rewrite <- Hl at 1. rewrite (le_encode_decode x Hx). split.
    + intro E. injection E as E. rewrite <- E, Hl. reflexivity.
    + intro E. apply Nat.eqb_eq in E. rewrite Ev, app_length in E.
      assert (r = []) by (destruct r; [reflexivity|cbn [length] in E; lia]). subst r.
      rewrite app_nil_r in Ev. rewrite Ev. reflexivity.
  - destruct (Z.ltb_spec (Z_of_neo val) 0); [discriminate|]. intro E. injection E as <-.
    split; [assumption|]. split; [intro; contradiction|].
    unfold balance_to_item. destruct (balance_is_float (Z_of_neo val)) eqn:Ef.
    + rewrite Bool.andb_true_r. split.
      * intro E. injection E as E1 E2. rewrite <- E1. change (ScaleDecimal9Version =? ScaleDecimal9Version) with true.
        cbn [andb]. apply neo_canonical_iff; assumption.
      * intro E. apply andb_prop in E. destruct E as [E1 E2]. apply N.eqb_eq in E1. subst ver.
        rewrite (neo_canonical_reencode val Hval E2). reflexivity.
    + rewrite Bool.andb_false_r. split; [|discriminate].
      destruct ((0 <=? Z_of_neo val / ScaleFactor)%Z && (Z_of_neo val / ScaleFactor <? two64Z)%Z); [|discriminate].
      intro E. injection E as E1 E2. exfalso. apply Hv. rewrite <- E1. reflexivity.
Qed.

(** stored bytes: MustToStorageItemBytes then the read path gives the balance back *)
Theorem balance_bytes_roundtrip b : balance_in_domain b ->
  exists raw, balance_to_bytes b = Some raw /\ forall rest, balance_of_bytes (raw ++ rest) = inl b.
Proof.
  intro D. destruct (balance_roundtrip b (balance_in_domain_storable b D)) as [it [T [F [W [C _]]]]].
  exists (item_to_bytes it). unfold balance_to_bytes. rewrite T. split; [reflexivity|].
  intro rest. unfold balance_of_bytes. rewrite item_roundtrip; [rewrite F; reflexivity|].
  (* the value is short: 8 bytes or the minimal encoding of b *)
  unfold balance_to_item in T. destruct (balance_is_float b).
  - assert (Eit : it = mkItem ScaleDecimal9Version (neo_of_Z b)) by congruence.
    rewrite Eit. cbn [item_value]. unfold two64N.
    assert (Hlen : (length (neo_of_Z b) <= 17)%nat).
    { apply neo_of_Z_minimal. unfold balance_in_domain, two64Z, ScaleFactor in D. unfold neo_fits.
      change (256 ^ Z.of_nat 17)%Z with 87112285931760246646623899502532662132736%Z. lia. }
    lia.
  - destruct ((0 <=? b / ScaleFactor)%Z && (b / ScaleFactor <? two64Z)%Z); [|discriminate].
    assert (Eit : it = mkItem DefaultVersion (le_encode 8 (Z.to_N (b / ScaleFactor)))) by congruence.
    rewrite Eit. cbn [item_value]. rewrite le_encode_length. reflexivity.
Qed.
