(** Proofs about the P2P message model (Model/P2PMsg.v): every payload decoder stays in bounds,
    never reaches the out-of-range / fuel errors, bounds the number of elements it appends by the
    bytes it consumed, and - when no leniency flag is raised - its result re-serializes to exactly
    the bytes consumed. *)
From Coq Require Import List Bool Arith NArith ZArith Lia ZifyN ZifyNat ZifyBool.
Import ListNotations.
From Ont Require Import Lib.Bytes Gen.CodecConsts Gen.P2PConsts Model.Codec Proofs.Codec Model.P2PMsg Proofs.P2PMsgLib.
Local Open Scope N_scope.
Open Scope bool_scope.
Ltac Zify.zify_post_hook ::= Z.to_euclidean_division_equations.

(** Hypotheses on the externals. The embedded core/types codecs reproduce what they consume and
    make progress (their own properties: C19/C20); an empty signature never verifies
    (signature.Verify fails in Deserialize for fewer than 2 bytes). *)
Record ext_ok {E : Type} (X : ext E) : Prop := {
  xo_hdr : elem_ok (fun _ => True) (x_enc_hdr X) (x_dec_hdr X);
  xo_tx : elem_ok (fun _ => True) (x_enc_tx X) (x_dec_tx X);
  xo_blk : elem_ok (fun _ => True) (x_enc_blk X) (x_dec_blk X);
  xo_cc : elem_ok (fun _ => True) (x_enc_cc X) (x_dec_cc X);
  xo_sig_empty : forall pk d, x_sig_verify X pk d [] = false
}.

Definition dec_spec {E : Type} (X : ext E) (s : source) (r : dres (msg E * source * list lenient)) : Prop :=
  match r with
  | DOk (m, s', lf) =>
      step_safe s s' /\ (msg_elems m <= off s' - off s)%nat /\ (lf = [] -> reads s s' (enc_msg X m))
  | DErr e => no_panic e
  end.

Ltac err := solve [split; discriminate | cbv beta iota; split; discriminate | cbn; split; discriminate].

Ltac accum R R' :=
  let R2 := fresh "R" in
  pose proof (reads_trans _ _ _ _ _ R R') as R2; clear R R'; rename R2 into R.

(** One decoding step: destruct the outermost primitive call, close the eof branch, and extend the
    accumulated [R : reads s0 si e]. *)
Ltac step_uint Hok Hwf R :=
  match goal with
  | |- context [next_uint ?w ?si] =>
    let v := fresh "v" in let e := fresh "eof" in let s' := fresh "s" in let Eq := fresh "Eq" in
    destruct (next_uint w si) as [[v e] s'] eqn:Eq; destruct e; [try err|];
    let R' := fresh "R" in let Hv := fresh "Hv" in let Ho := fresh "Ho" in
    destruct (next_uint_reads w si v s' (reads_ok _ _ _ Hok R) (reads_wf _ _ _ Hwf R) Eq) as [R' [Hv Ho]];
    clear Eq; accum R R'
  end.
Ltac step_byte Hok Hwf R :=
  match goal with
  | |- context [next_byte ?si] =>
    let v := fresh "v" in let e := fresh "eof" in let s' := fresh "s" in let Eq := fresh "Eq" in
    destruct (next_byte si) as [[v e] s'] eqn:Eq; destruct e; [try err|];
    let R' := fresh "R" in let Hv := fresh "Hv" in let Ho := fresh "Ho" in
    destruct (next_byte_reads si v s' (reads_ok _ _ _ Hok R) (reads_wf _ _ _ Hwf R) Eq) as [R' [Hv Ho]];
    clear Eq; accum R R'
  end.
Ltac step_fixed Hok Hwf R :=
  match goal with
  | |- context [next_fixed ?w ?si] =>
    let v := fresh "d" in let e := fresh "eof" in let s' := fresh "s" in let Eq := fresh "Eq" in
    destruct (next_fixed w si) as [[v e] s'] eqn:Eq; destruct e; [try err|];
    let R' := fresh "R" in let Hv := fresh "Hl" in let Ho := fresh "Ho" in
    destruct (next_fixed_reads w si v s' (reads_ok _ _ _ Hok R) Eq) as [R' [Hv Ho]];
    clear Eq; accum R R'
  end.
Ltac unf := unfold next_uint16, next_uint32, next_uint64, next_hash, next_address in *.

Lemma Forall_True {A : Type} (l : list A) : Forall (fun _ => True) l.
Proof. induction l; constructor; auto. Qed.

Section Dec.
Context {E : Type} (X : ext E).
Variable XO : ext_ok X.

Ltac start s Hok R := pose proof (reads_refl s Hok) as R.

Ltac finish R :=
  split; [eapply reads_safe; exact R|]; split; [cbn [msg_elems]; lia|]; intros _;
  eapply reads_eq; [exact R|]; cbn [enc_msg app]; rewrite <- ?app_assoc; reflexivity.

Lemma dec_ping_ok s : src_ok s -> wf_bytes (buf s) = true -> dec_spec X s (dec_ping s).
Proof.
  intros Hok Hwf. unfold dec_ping; unf. start s Hok R.
  step_uint Hok Hwf R. finish R.
Qed.

Lemma dec_pong_ok s : src_ok s -> wf_bytes (buf s) = true -> dec_spec X s (dec_pong s).
Proof.
  intros Hok Hwf. unfold dec_pong; unf. start s Hok R.
  step_uint Hok Hwf R. finish R.
Qed.

Lemma dec_addrreq_ok s : src_ok s -> wf_bytes (buf s) = true -> dec_spec X s (dec_addrreq s).
Proof. intros Hok Hwf. unfold dec_addrreq. start s Hok R. finish R. Qed.

Lemma write_uint8_small v : v < 256 -> write_uint8 v = [v].
Proof. intro H. unfold write_uint8. rewrite N.mod_small by exact H. reflexivity. Qed.

Lemma dec_headersreq_ok s : src_ok s -> wf_bytes (buf s) = true -> dec_spec X s (dec_headersreq s).
Proof.
  intros Hok Hwf. unfold dec_headersreq; unf. start s Hok R.
  step_byte Hok Hwf R. step_fixed Hok Hwf R. step_fixed Hok Hwf R.
  rewrite <- (write_uint8_small v) in R by assumption. finish R.
Qed.

Lemma dec_blocksreq_ok s : src_ok s -> wf_bytes (buf s) = true -> dec_spec X s (dec_blocksreq s).
Proof.
  intros Hok Hwf. unfold dec_blocksreq; unf. start s Hok R.
  step_byte Hok Hwf R. step_fixed Hok Hwf R. step_fixed Hok Hwf R.
  rewrite <- (write_uint8_small v) in R by assumption. finish R.
Qed.

Lemma dec_datareq_ok s : src_ok s -> wf_bytes (buf s) = true -> dec_spec X s (dec_datareq s).
Proof.
  intros Hok Hwf. unfold dec_datareq; unf. start s Hok R.
  step_byte Hok Hwf R. step_fixed Hok Hwf R.
  rewrite <- (write_uint8_small v) in R by assumption. finish R.
Qed.

Lemma dec_notfound_ok s : src_ok s -> wf_bytes (buf s) = true -> dec_spec X s (dec_notfound s).
Proof.
  intros Hok Hwf. unfold dec_notfound; unf. start s Hok R.
  step_fixed Hok Hwf R. finish R.
Qed.


(** Flagged results only owe safety. *)
Ltac flagged R S :=
  split; [eapply step_safe_trans; [eapply reads_safe; exact R|exact S]|]; split; [cbn [msg_elems]; lia|]; discriminate.

Lemma next_bool_safe s : src_ok s -> step_safe s (snd (next_bool s)).
Proof.
  intro Hok. unfold next_bool. pose proof (next_byte_safe s Hok) as P.
  destruct (next_byte s) as [[v e] s1]. cbn [snd] in P.
  destruct (v =? 0); [exact P|]. destruct (v =? 1); exact P.
Qed.

Lemma next_bytes_reads_any s n d e s' : src_ok s -> next_bytes s n = (d, e, s') -> reads s s' d.
Proof.
  intros Hok Eq. pose proof (next_bytes_spec s n Hok) as P. rewrite Eq in P.
  destruct P as [Eb [Bd [Ed _]]]. split; [exact Eb|]. split; [lia|exact Ed].
Qed.

Lemma pk_flag_nil a b : pk_flag a b = [] -> a = b.
Proof. unfold pk_flag. destruct (bytes_eqb a b) eqn:T; [intros _; apply bytes_eqb_eq; exact T|discriminate]. Qed.

Lemma dec_verack_ok s : src_ok s -> wf_bytes (buf s) = true -> dec_spec X s (dec_verack s).
Proof.
  intros Hok Hwf. unfold dec_verack. start s Hok R.
  destruct (next_bool s) as [[[b irr] eof] s1] eqn:Eq. destruct eof; [err|]. destruct irr; [err|].
  destruct (next_bool_reads s b false s1 Hok Hwf Eq) as [Ho [S Rb]]. specialize (Rb eq_refl).
  accum R Rb. finish R.
Qed.

Lemma u64_bound v : v < 256 ^ N.of_nat UINT64_SIZE -> v < two64.
Proof. intro H. exact H. Qed.

Lemma dec_version_ok s : src_ok s -> wf_bytes (buf s) = true -> dec_spec X s (dec_version s).
Proof.
  intros Hok Hwf. unfold dec_version; unf. start s Hok R.
  do 6 step_uint Hok Hwf R.
  destruct (next_bytes s5 (uint64_of_len CAP_LEN)) as [[cap eof] s6] eqn:Eq. destruct eof; [err|].
  destruct (next_bytes_reads _ _ _ _ (reads_ok _ _ _ Hok R) Eq) as [R' [Lc Oc]]. accum R R'.
  do 2 step_uint Hok Hwf R. step_byte Hok Hwf R.
  destruct (next_bool s9) as [[[isc irr] eof] s10] eqn:Eqb. destruct eof; [err|]. destruct irr; [err|].
  destruct (next_bool_reads s9 isc false s10 (reads_ok _ _ _ Hok R) (reads_wf _ _ _ Hwf R) Eqb) as [Hob [Sb Rb]].
  specialize (Rb eq_refl). accum R Rb. cbn [orb].
  destruct (next_varbytes s10) as [[[[soft sz] irr] eof] s11] eqn:Eqv.
  pose proof (next_varbytes_safe s10 (reads_ok _ _ _ Hok R)) as Sv. rewrite Eqv in Sv. cbn [snd] in Sv.
  destruct eof; [cbn [orb]; flagged R Sv|].
  destruct irr; [cbn [orb]; flagged R Sv|]. cbn [orb].
  destruct (next_varbytes_reads _ _ _ _ _ (reads_ok _ _ _ Hok R) (reads_wf _ _ _ Hwf R) Eqv) as [_ [_ Rv]].
  specialize (Rv eq_refl). accum R Rv.
  split; [eapply reads_safe; exact R|]; split; [cbn [msg_elems]; lia|]; intros _.
  eapply reads_eq; [exact R|]. cbn [enc_msg]. unfold enc_version.
  cbn [v_version v_services v_timestamp v_syncport v_httpport v_consport v_cap v_nonce v_height v_relay v_iscons v_soft].
  rewrite of_to_signed by assumption. rewrite copy_into_exact.
  2:{ change (uint64_of_len CAP_LEN) with (N.of_nat CAP_LEN) in Lc. lia. }
  rewrite write_uint8_small by assumption.
  cbn [app]. rewrite <- ?app_assoc. reflexivity.
Qed.

Lemma dec_peer_id_ok s : src_ok s -> wf_bytes (buf s) = true ->
  match dec_peer_id s with
  | DOk (id, s') => reads s s' id /\ length id = ADDR_LEN /\ (off s < off s')%nat
  | DErr e => no_panic e
  end.
Proof.
  intros Hok Hwf. unfold dec_peer_id; unf.
  destruct (next_fixed ADDR_LEN s) as [[v eof] s1] eqn:Eq. destruct eof; [err|].
  destruct (next_fixed_reads _ _ _ _ Hok Eq) as [R [L O]]. split; [exact R|]. split; [exact L|].
  rewrite O. unfold ADDR_LEN. lia.
Qed.

Lemma dec_findnodereq_ok s : src_ok s -> wf_bytes (buf s) = true -> dec_spec X s (dec_findnodereq s).
Proof.
  intros Hok Hwf. unfold dec_findnodereq. pose proof (dec_peer_id_ok s Hok Hwf) as P.
  destruct (dec_peer_id s) as [[id s1]|e]; [|exact P]. destruct P as [R [L O]].
  split; [eapply reads_safe; exact R|]. split; [cbn [msg_elems]; lia|]. intros _. exact R.
Qed.

(** ** Addr *)
Lemma dec_peer_addr_ok : elem_ok (fun _ => True) enc_peer_addr dec_peer_addr.
Proof.
  intros s Hok Hwf. unfold dec_peer_addr; unf. start s Hok R.
  do 2 step_uint Hok Hwf R.
  destruct (next_bytes s1 (uint64_of_len IPADDR_LEN)) as [[ip e3] s2] eqn:Eq.
  assert (Hok1 : src_ok s1) by exact (reads_ok _ _ _ Hok R).
  destruct e3.
  - destruct (next_bytes_eof_end _ _ _ _ Hok1 Eq) as [He _].
    pose proof (next_uint_at_end UINT16_SIZE s2 ltac:(unfold UINT16_SIZE; lia) He) as Q.
    destruct (next_uint UINT16_SIZE s2) as [[p e] s3]. cbn [fst snd] in Q. subst e. err.
  - destruct (next_bytes_reads _ _ _ _ Hok1 Eq) as [R' [Li Oi]]. accum R R'.
    do 3 step_uint Hok Hwf R.
    split; [eapply reads_safe; exact R|]. split; [unfold UINT64_SIZE, UINT16_SIZE in *; lia|]. intros _.
    eapply reads_eq; [exact R|]. unfold enc_peer_addr.
    cbn [pa_time pa_services pa_ip pa_port pa_cport pa_id].
    rewrite of_to_signed by assumption. rewrite copy_into_exact.
    2:{ change (uint64_of_len IPADDR_LEN) with (N.of_nat IPADDR_LEN) in Li. lia. }
    rewrite pseudo_id_roundtrip by (apply u64_bound; assumption).
    cbn [app]. rewrite <- ?app_assoc. reflexivity.
Qed.

Lemma uint64_of_len_small n : N.of_nat n < two64 -> uint64_of_len n = N.of_nat n.
Proof. intro H. unfold uint64_of_len. apply N.mod_small. exact H. Qed.
Lemma uint32_of_len_small n : N.of_nat n < two32 -> uint32_of_len n = N.of_nat n.
Proof. intro H. unfold uint32_of_len. apply N.mod_small. exact H. Qed.

Lemma firstn_length_le' {A} (l : list A) n : (length (firstn n l) <= length l)%nat.
Proof. rewrite firstn_length. lia. Qed.

Lemma dec_addr_ok s : src_ok s -> wf_bytes (buf s) = true -> dec_spec X s (dec_addr s).
Proof.
  intros Hok Hwf. unfold dec_addr; unf. start s Hok R.
  step_uint Hok Hwf R.
  pose proof (read_loop_ok (fun _ => True) enc_peer_addr dec_peer_addr dec_peer_addr_ok (loop_fuel s0) (Z.of_N v) s0 []
               (reads_ok _ _ _ Hok R) (reads_wf _ _ _ Hwf R) (loop_fuel_enough s0)) as L.
  destruct (read_loop (loop_fuel s0) dec_peer_addr (Z.of_N v) s0 []) as [[l s2]|e]; [|exact L].
  destruct L as [l' [El [S2 [Ln [Lb G]]]]]. cbn [rev app] in El. subst l.
  assert (Hlen : N.of_nat (length l') = v) by lia.
  destruct (MAX_ADDR_NODE_CNT <? v) eqn:C.
  - apply N.ltb_lt in C. rewrite slice_to_le by lia.
    split; [eapply step_safe_trans; [eapply reads_safe; exact R|exact S2]|].
    split; [|discriminate]. cbn [msg_elems]. pose proof (firstn_length_le' l' (N.to_nat MAX_ADDR_NODE_CNT)).
    destruct S2 as [_ O2]. apply reads_safe in R. destruct R as [_ O1]. lia.
  - rewrite slice_to_full by (symmetry; exact Hlen).
    specialize (G (Forall_True _)). accum R G.
    split; [eapply reads_safe; exact R|]. split.
    { cbn [msg_elems]. apply reads_safe in R. destruct R as [_ O1]. destruct S2 as [_ O2]. lia. }
    intros _. eapply reads_eq; [exact R|]. cbn [enc_msg].
    rewrite uint64_of_len_small by (rewrite Hlen; apply u64_bound; assumption).
    rewrite Hlen. cbn [app]. rewrite <- ?app_assoc. reflexivity.
Qed.

(** ** Inv *)
Lemma int_of_uint32_small v : v < two32 -> int_of_uint32 v = Z.of_N v.
Proof.
  intro H. unfold int_of_uint32, to_signed. rewrite N.mod_small by exact H.
  change (256 ^ N.of_nat 8 / 2) with 9223372036854775808.
  assert (T : v <? 9223372036854775808 = true) by (apply N.ltb_lt; unfold two32 in H; lia).
  rewrite T. reflexivity.
Qed.

Lemma u32_bound v : v < 256 ^ N.of_nat UINT32_SIZE -> v < two32.
Proof. intro H. exact H. Qed.

Lemma dec_hash_ok : elem_ok (fun _ => True) (fun h => h) dec_hash.
Proof.
  intros s Hok Hwf. unfold dec_hash; unf.
  destruct (next_fixed UINT256_SIZE s) as [[v eof] s1] eqn:Eq. destruct eof; [err|].
  destruct (next_fixed_reads _ _ _ _ Hok Eq) as [R [L O]].
  split; [eapply reads_safe; exact R|]. split; [rewrite O; unfold UINT256_SIZE; lia|]. intros _. exact R.
Qed.

Lemma dec_inv_ok s : src_ok s -> wf_bytes (buf s) = true -> dec_spec X s (dec_inv s).
Proof.
  intros Hok Hwf. unfold dec_inv; unf. start s Hok R.
  step_byte Hok Hwf R. step_uint Hok Hwf R.
  rewrite int_of_uint32_small by (apply u32_bound; assumption).
  pose proof (read_loop_ok (fun _ => True) (fun h => h) dec_hash dec_hash_ok (loop_fuel s1) (Z.of_N v0) s1 []
               (reads_ok _ _ _ Hok R) (reads_wf _ _ _ Hwf R) (loop_fuel_enough s1)) as L.
  destruct (read_loop (loop_fuel s1) dec_hash (Z.of_N v0) s1 []) as [[l s2]|e]; [|exact L].
  destruct L as [l' [El [S2 [Ln [Lb G]]]]]. cbn [rev app] in El. subst l.
  assert (Hlen : N.of_nat (length l') = v0) by lia.
  destruct (MAX_INV_BLK_CNT <? v0) eqn:C.
  - apply N.ltb_lt in C. rewrite slice_to_le by lia.
    split; [eapply step_safe_trans; [eapply reads_safe; exact R|exact S2]|].
    split; [|discriminate]. cbn [msg_elems]. pose proof (firstn_length_le' l' (N.to_nat MAX_INV_BLK_CNT)).
    destruct S2 as [_ O2]. apply reads_safe in R. destruct R as [_ O1]. lia.
  - rewrite slice_to_full by (symmetry; exact Hlen).
    specialize (G (Forall_True _)). accum R G.
    split; [eapply reads_safe; exact R|]. split.
    { cbn [msg_elems]. apply reads_safe in R. destruct R as [_ O1]. destruct S2 as [_ O2]. lia. }
    intros _. eapply reads_eq; [exact R|]. cbn [enc_msg].
    rewrite uint32_of_len_small by (rewrite Hlen; apply u32_bound; assumption).
    rewrite Hlen. rewrite write_uint8_small by assumption.
    cbn [app]. rewrite <- ?app_assoc. reflexivity.
Qed.


(** ** FindNodeResp *)
Definition closer_good (x : bytes * bytes * bool) : Prop := snd x = false.
Definition closer_enc (x : bytes * bytes * bool) : bytes := fst (fst x) ++ write_string (snd (fst x)).

Lemma dec_closer_ok : elem_ok closer_good closer_enc dec_closer'.
Proof.
  intros s Hok Hwf. unfold dec_closer', dec_closer.
  pose proof (dec_peer_id_ok s Hok Hwf) as P.
  destruct (dec_peer_id s) as [[id s1]|e]; [|exact P]. destruct P as [R [L O]].
  destruct (next_varbytes s1) as [[[[addr sz] irr] eof] s2] eqn:Eq. destruct eof; [err|].
  destruct (next_varbytes_reads _ _ _ _ _ (reads_ok _ _ _ Hok R) (reads_wf _ _ _ Hwf R) Eq) as [Sv [Pv Rv]].
  split; [eapply step_safe_trans; [eapply reads_safe; exact R|exact Sv]|]. split; [lia|].
  unfold closer_good, closer_enc. cbn [fst snd]. intro Hi. specialize (Rv Hi).
  eapply reads_trans; eassumption.
Qed.

Lemma flat_map_map {A B C : Type} (f : B -> list C) (g : A -> B) l :
  flat_map f (map g l) = flat_map (fun x => f (g x)) l.
Proof. induction l as [|a l IH]; simpl; [reflexivity|rewrite IH; reflexivity]. Qed.

Lemma existsb_false_Forall {A : Type} (p : A -> bool) l : existsb p l = false -> Forall (fun x => p x = false) l.
Proof.
  induction l as [|a l IH]; simpl; intro H; constructor.
  - apply orb_false_iff in H. tauto.
  - apply IH. apply orb_false_iff in H. tauto.
Qed.

Lemma dec_findnoderesp_ok s : src_ok s -> wf_bytes (buf s) = true -> dec_spec X s (dec_findnoderesp s).
Proof.
  intros Hok Hwf. unfold dec_findnoderesp.
  pose proof (dec_peer_id_ok s Hok Hwf) as P.
  destruct (dec_peer_id s) as [[id s1]|e]; [|exact P]. destruct P as [R [L O]].
  destruct (next_bool s1) as [[[succ irrb] eof] s2] eqn:Eqb. destruct eof; [err|].
  destruct (next_bool_reads s1 succ irrb s2 (reads_ok _ _ _ Hok R) (reads_wf _ _ _ Hwf R) Eqb) as [Hob [Sb Rb]].
  assert (Hok2 : src_ok s2) by (eapply step_safe_ok; [exact (reads_ok _ _ _ Hok R)|exact Sb]).
  assert (Hwf2 : wf_bytes (buf s2) = true) by (destruct Sb as [B _]; rewrite B; exact (reads_wf _ _ _ Hwf R)).
  destruct (next_varbytes s2) as [[[[addr sz] irrs] eof] s3] eqn:Eqv. destruct eof; [err|].
  destruct (next_varbytes_reads _ _ _ _ _ Hok2 Hwf2 Eqv) as [Sv [Pv Rv]].
  assert (Hok3 : src_ok s3) by (eapply step_safe_ok; eassumption).
  assert (Hwf3 : wf_bytes (buf s3) = true) by (destruct Sv as [B _]; rewrite B; exact Hwf2).
  unf. destruct (next_uint UINT32_SIZE s3) as [[num eof] s4] eqn:Equ. destruct eof; [err|].
  destruct (next_uint_reads _ _ _ _ Hok3 Hwf3 Equ) as [Ru [Hnum Hou]].
  rewrite int_of_uint32_small by (apply u32_bound; assumption).
  pose proof (read_loop_ok closer_good closer_enc dec_closer' dec_closer_ok (loop_fuel s4) (Z.of_N num) s4 []
               (reads_ok _ _ _ Hok3 Ru) (reads_wf _ _ _ Hwf3 Ru) (loop_fuel_enough s4)) as Lp.
  destruct (read_loop (loop_fuel s4) dec_closer' (Z.of_N num) s4 []) as [[l s5]|e]; [|exact Lp].
  destruct Lp as [l' [El [S5 [Ln [Lb G]]]]]. cbn [rev app] in El. subst l.
  assert (Hlen : N.of_nat (length l') = num) by lia.
  assert (Safe : step_safe s s5).
  { eapply step_safe_trans; [eapply reads_safe; exact R|].
    eapply step_safe_trans; [exact Sb|]. eapply step_safe_trans; [exact Sv|].
    eapply step_safe_trans; [eapply reads_safe; exact Ru|exact S5]. }
  split; [exact Safe|]. split.
  { cbn [msg_elems]. rewrite map_length.
    destruct S5 as [_ O5]. apply reads_safe in Ru. destruct Ru as [_ Ou].
    destruct Sv as [_ Ov]. destruct Sb as [_ Ob]. apply reads_safe in R. destruct R as [_ O1]. lia. }
  intro Hf. apply app_eq_nil in Hf. destruct Hf as [Hf1 Hf2].
  destruct irrb; [discriminate|]. specialize (Rb eq_refl).
  destruct irrs; [discriminate|]. cbn [orb] in Hf2.
  destruct (existsb (fun x => snd x) l') eqn:Ex; [discriminate|].
  specialize (Rv eq_refl). specialize (G (existsb_false_Forall _ _ Ex)).
  pose proof (reads_trans _ _ _ _ _ (reads_trans _ _ _ _ _ (reads_trans _ _ _ _ _ (reads_trans _ _ _ _ _ R Rb) Rv) Ru) G) as RR.
  eapply reads_eq; [exact RR|]. cbn [enc_msg].
  rewrite map_length, uint32_of_len_small by (rewrite Hlen; apply u32_bound; assumption).
  rewrite Hlen, flat_map_map. unfold closer_enc, write_string. cbn [fst snd].
  rewrite <- ?app_assoc. reflexivity.
Qed.

(** ** UpdatePeerKeyId *)
Lemma dec_updatekadid_ok s : src_ok s -> wf_bytes (buf s) = true -> dec_spec X s (dec_updatekadid X s).
Proof.
  intros Hok Hwf. unfold dec_updatekadid.
  destruct (next_varbytes s) as [[[[data sz] irr] eof] s1] eqn:Eq.
  destruct irr; [err|]. destruct eof; [err|].
  destruct (next_varbytes_reads _ _ _ _ _ Hok Hwf Eq) as [Sv [Pv Rv]]. specialize (Rv eq_refl).
  destruct (x_pk_decode X data) as [pub|]; [|err].
  destruct (validate_kad_key (x_hash X) pub); cbn [negb]; [|err].
  split; [exact Sv|]. split; [cbn [msg_elems]; lia|]. intro Hf. apply pk_flag_nil in Hf. subst pub.
  exact Rv.
Qed.

(** ** SubnetMembersRequest *)
Lemma rerr_no_panic e : no_panic (rerr_to_derr e).
Proof. destruct e; split; discriminate. Qed.

Lemma dec_subnetreq_ok s : src_ok s -> wf_bytes (buf s) = true -> dec_spec X s (dec_subnetreq X s).
Proof.
  intros Hok Hwf. unfold dec_subnetreq.
  pose proof (dec_peer_id_ok s Hok Hwf) as P.
  destruct (dec_peer_id s) as [[from s1]|e]; [|exact P]. destruct P as [R [L O]].
  pose proof (dec_peer_id_ok s1 (reads_ok _ _ _ Hok R) (reads_wf _ _ _ Hwf R)) as P.
  destruct (dec_peer_id s1) as [[to s2]|e]; [|exact P]. destruct P as [R' [L' O']]. accum R R'.
  unf. step_uint Hok Hwf R.
  destruct (v =? 0) eqn:Ts.
  - split; [eapply reads_safe; exact R|]. split; [cbn [msg_elems]; lia|]. intros _.
    eapply reads_eq; [exact R|]. cbn [enc_msg]. rewrite Ts. rewrite app_nil_r, <- ?app_assoc. reflexivity.
  - destruct (read_varbytes s0) as [[pkb|e] s4] eqn:Eq1; [|apply rerr_no_panic].
    destruct (read_varbytes_reads _ _ _ (reads_ok _ _ _ Hok R) (reads_wf _ _ _ Hwf R) Eq1) as [R1 P1]. accum R R1.
    destruct (x_pk_decode X pkb) as [pub|]; [|err].
    destruct (read_varbytes s4) as [[sig|e] s5] eqn:Eq2; [|apply rerr_no_panic].
    destruct (read_varbytes_reads _ _ _ (reads_ok _ _ _ Hok R) (reads_wf _ _ _ Hwf R) Eq2) as [R2 P2]. accum R R2.
    destruct (v <? x_now1h X); [err|].
    destruct (x_sig_verify X pub (subnet_sigdata from to v) sig); cbn [negb]; [|err].
    split; [eapply reads_safe; exact R|]. split; [cbn [msg_elems]; lia|]. intro Hf. apply pk_flag_nil in Hf. subst pub.
    eapply reads_eq; [exact R|]. cbn [enc_msg]. rewrite Ts. rewrite <- ?app_assoc. reflexivity.
Qed.

(** ** SubnetMembers *)
Definition member_enc (p : bytes * bytes) : bytes := write_string (fst p) ++ write_string (snd p).

Lemma dec_member_ok : elem_ok (fun _ => True) member_enc dec_member.
Proof.
  intros s Hok Hwf. unfold dec_member, read_string.
  destruct (read_varbytes s) as [[pk|e] s1] eqn:Eq1; [|apply rerr_no_panic].
  destruct (read_varbytes_reads _ _ _ Hok Hwf Eq1) as [R1 P1].
  destruct (read_varbytes s1) as [[addr|e] s2] eqn:Eq2; [|apply rerr_no_panic].
  destruct (read_varbytes_reads _ _ _ (reads_ok _ _ _ Hok R1) (reads_wf _ _ _ Hwf R1) Eq2) as [R2 P2].
  pose proof (reads_trans _ _ _ _ _ R1 R2) as R.
  split; [eapply reads_safe; exact R|]. split; [lia|]. intros _. exact R.
Qed.

Lemma dec_subnetmembers_ok s : src_ok s -> wf_bytes (buf s) = true -> dec_spec X s (dec_subnetmembers s).
Proof.
  intros Hok Hwf. unfold dec_subnetmembers; unf. start s Hok R.
  step_uint Hok Hwf R.
  pose proof (read_loop_ok (fun _ => True) member_enc dec_member dec_member_ok (loop_fuel s0) (Z.of_N v) s0 []
               (reads_ok _ _ _ Hok R) (reads_wf _ _ _ Hwf R) (loop_fuel_enough s0)) as L.
  destruct (read_loop (loop_fuel s0) dec_member (Z.of_N v) s0 []) as [[l s2]|e]; [|exact L].
  destruct L as [l' [El [S2 [Ln [Lb G]]]]]. cbn [rev app] in El. subst l.
  assert (Hlen : N.of_nat (length l') = v) by lia.
  specialize (G (Forall_True _)). accum R G.
  split; [eapply reads_safe; exact R|]. split.
  { cbn [msg_elems]. apply reads_safe in R. destruct R as [_ O1]. destruct S2 as [_ O2]. lia. }
  intros _. eapply reads_eq; [exact R|]. cbn [enc_msg].
  rewrite uint32_of_len_small by (rewrite Hlen; apply u32_bound; assumption).
  rewrite Hlen. cbn [app]. rewrite <- ?app_assoc. reflexivity.
Qed.

(** ** OfflineWitnessMsg: never accepted (the proposer signature is not read, and an empty
    signature does not verify); the error paths stay in bounds. *)
Lemma dec_str_ok : elem_ok (fun _ => True) write_string dec_str.
Proof.
  intros s Hok Hwf. unfold dec_str, read_string.
  destruct (read_varbytes s) as [[d|e] s1] eqn:Eq1; [|apply rerr_no_panic].
  destruct (read_varbytes_reads _ _ _ Hok Hwf Eq1) as [R1 P1].
  split; [eapply reads_safe; exact R1|]. split; [lia|]. intros _. exact R1.
Qed.

Lemma dec_voter_ok n : elem_ok (fun _ => True) enc_voter (dec_voter n).
Proof.
  intros s Hok Hwf. unfold dec_voter, read_string.
  destruct (read_varbytes s) as [[idx|e] s1] eqn:Eq1; [|apply rerr_no_panic].
  destruct (read_varbytes_reads _ _ _ Hok Hwf Eq1) as [R1 P1].
  destruct (existsb _ idx); [err|].
  destruct (read_varbytes s1) as [[pk|e] s2] eqn:Eq2; [|apply rerr_no_panic].
  destruct (read_varbytes_reads _ _ _ (reads_ok _ _ _ Hok R1) (reads_wf _ _ _ Hwf R1) Eq2) as [R2 P2].
  pose proof (reads_trans _ _ _ _ _ R1 R2) as R.
  destruct (read_varbytes s2) as [[sig|e] s3] eqn:Eq3; [|apply rerr_no_panic].
  destruct (read_varbytes_reads _ _ _ (reads_ok _ _ _ Hok R) (reads_wf _ _ _ Hwf R) Eq3) as [R3 P3].
  pose proof (reads_trans _ _ _ _ _ R R3) as RR.
  split; [eapply reads_safe; exact RR|]. split; [lia|]. intros _.
  eapply reads_eq; [exact RR|]. unfold enc_voter, write_string. cbn [vt_index vt_pubkey vt_sig].
  rewrite <- ?app_assoc. reflexivity.
Qed.

Lemma verify_sigs_no_panic o e : verify_sigs X o = Some e -> no_panic e.
Proof.
  unfold verify_sigs. destruct (x_vpubkey X (ow_proposer o)); [|intro H; inversion H; split; discriminate].
  destruct (negb _); [intro H; inversion H; split; discriminate|].
  generalize (enc_offline_unsigned o). intro u. induction (ow_voters o) as [|v r IH]; cbn [verify_voters]; [discriminate|].
  destruct (x_vpubkey X (vt_pubkey v)); [|intro H; inversion H; split; discriminate].
  destruct (negb _); [intro H; inversion H; split; discriminate|exact IH].
Qed.

Lemma verify_sigs_empty_propsig o : ow_propsig o = [] -> verify_sigs X o <> None.
Proof.
  intro Hp. unfold verify_sigs. destruct (x_vpubkey X (ow_proposer o)); [|discriminate].
  rewrite Hp, (xo_sig_empty X XO). cbn [negb]. discriminate.
Qed.

Lemma dec_offline_ok s : src_ok s -> wf_bytes (buf s) = true -> dec_spec X s (dec_offline X s).
Proof.
  intros Hok Hwf. unfold dec_offline; unf. start s Hok R.
  do 3 step_uint Hok Hwf R.
  destruct (255 <? v1); [err|].
  pose proof (read_loop_ok (fun _ => True) write_string dec_str dec_str_ok (loop_fuel s2) (Z.of_N v1) s2 []
               (reads_ok _ _ _ Hok R) (reads_wf _ _ _ Hwf R) (loop_fuel_enough s2)) as L.
  destruct (read_loop (loop_fuel s2) dec_str (Z.of_N v1) s2 []) as [[keys s4]|e]; [|exact L].
  destruct L as [l' [El [S4 [Ln [Lb G]]]]]. specialize (G (Forall_True _)). accum R G.
  pose proof (dec_str_ok s4 (reads_ok _ _ _ Hok R) (reads_wf _ _ _ Hwf R)) as P.
  destruct (dec_str s4) as [[proposer s5]|e]; [|exact P]. destruct P as [_ [_ Rp]]. specialize (Rp I). accum R Rp.
  step_uint Hok Hwf R.
  pose proof (read_loop_ok (fun _ => True) enc_voter (dec_voter (length keys)) (dec_voter_ok _) (loop_fuel s3) (Z.of_N v2) s3 []
               (reads_ok _ _ _ Hok R) (reads_wf _ _ _ Hwf R) (loop_fuel_enough s3)) as L.
  destruct (read_loop (loop_fuel s3) (dec_voter (length keys)) (Z.of_N v2) s3 []) as [[voters s7]|e]; [|exact L].
  destruct (verify_sigs X (mkOff v v0 keys proposer [] voters)) as [e|] eqn:Vs.
  - eapply verify_sigs_no_panic; exact Vs.
  - exfalso. eapply verify_sigs_empty_propsig; [|exact Vs]. reflexivity.
Qed.

(** ** Consensus *)
Lemma dec_consensus_ok s : src_ok s -> wf_bytes (buf s) = true -> dec_spec X s (dec_consensus X s).
Proof.
  intros Hok Hwf. unfold dec_consensus; unf. start s Hok R.
  step_uint Hok Hwf R. step_fixed Hok Hwf R. do 3 step_uint Hok Hwf R.
  destruct (next_varbytes s4) as [[[[data sz] irr] eof] s5] eqn:Eq1. destruct eof; [err|]. destruct irr; [err|].
  destruct (next_varbytes_reads _ _ _ _ _ (reads_ok _ _ _ Hok R) (reads_wf _ _ _ Hwf R) Eq1) as [_ [_ R1]].
  specialize (R1 eq_refl). accum R R1.
  destruct (next_varbytes s5) as [[[[pkb sz2] irr] eof] s6] eqn:Eq2. destruct eof; [err|]. destruct irr; [err|].
  destruct (next_varbytes_reads _ _ _ _ _ (reads_ok _ _ _ Hok R) (reads_wf _ _ _ Hwf R) Eq2) as [_ [_ R2]].
  specialize (R2 eq_refl). accum R R2.
  destruct (x_pk_decode X pkb) as [owner|]; [|err].
  destruct (next_varbytes s6) as [[[[sig sz3] irr] eof] s7] eqn:Eq3. destruct irr; [err|]. destruct eof; [err|].
  destruct (next_varbytes_reads _ _ _ _ _ (reads_ok _ _ _ Hok R) (reads_wf _ _ _ Hwf R) Eq3) as [_ [_ R3]].
  specialize (R3 eq_refl). accum R R3.
  split; [eapply reads_safe; exact R|]. split; [cbn [msg_elems]; lia|]. intro Hf. apply pk_flag_nil in Hf. subst owner.
  eapply reads_eq; [exact R|]. cbn [enc_msg]. unfold enc_cons_unsigned.
  cbn [c_version c_prevhash c_height c_bkindex c_timestamp c_data c_owner c_sig app].
  rewrite <- ?app_assoc. reflexivity.
Qed.

(** ** Embedded objects *)
Lemma dec_blkheader_ok s : src_ok s -> wf_bytes (buf s) = true -> dec_spec X s (dec_blkheader X s).
Proof.
  intros Hok Hwf. unfold dec_blkheader; unf. start s Hok R.
  step_uint Hok Hwf R. rewrite int_of_uint32_small by (apply u32_bound; assumption).
  pose proof (read_loop_ok (fun _ => True) (x_enc_hdr X) (x_dec_hdr X) (xo_hdr X XO) (loop_fuel s0) (Z.of_N v) s0 []
               (reads_ok _ _ _ Hok R) (reads_wf _ _ _ Hwf R) (loop_fuel_enough s0)) as L.
  destruct (read_loop (loop_fuel s0) (x_dec_hdr X) (Z.of_N v) s0 []) as [[l s2]|e]; [|exact L].
  destruct L as [l' [El [S2 [Ln [Lb G]]]]]. cbn [rev app] in El. subst l.
  assert (Hlen : N.of_nat (length l') = v) by lia.
  specialize (G (Forall_True _)). accum R G.
  split; [eapply reads_safe; exact R|]. split.
  { cbn [msg_elems]. apply reads_safe in R. destruct R as [_ O1]. destruct S2 as [_ O2]. lia. }
  intros _. eapply reads_eq; [exact R|]. cbn [enc_msg].
  rewrite uint32_of_len_small by (rewrite Hlen; apply u32_bound; assumption).
  rewrite Hlen. cbn [app]. rewrite <- ?app_assoc. reflexivity.
Qed.

Lemma dec_trn_ok s : src_ok s -> wf_bytes (buf s) = true -> dec_spec X s (dec_trn X s).
Proof.
  intros Hok Hwf. unfold dec_trn. pose proof (xo_tx X XO s Hok Hwf) as P.
  destruct (x_dec_tx X s) as [[tx s1]|e]; [|exact P]. destruct P as [S [_ R]].
  split; [exact S|]. split; [cbn [msg_elems]; lia|]. intros _. apply R. exact I.
Qed.

Lemma next_fixed_safe' w s : src_ok s -> step_safe s (snd (next_fixed w s)).
Proof. apply next_fixed_safe. Qed.

Lemma dec_block_ok s : src_ok s -> wf_bytes (buf s) = true -> dec_spec X s (dec_block X s).
Proof.
  intros Hok Hwf. unfold dec_block. pose proof (xo_blk X XO s Hok Hwf) as P.
  destruct (x_dec_blk X s) as [[b s1]|e]; [|exact P]. destruct P as [S1 [_ R]]. specialize (R I).
  assert (Hok1 : src_ok s1) by exact (reads_ok _ _ _ Hok R).
  assert (Hwf1 : wf_bytes (buf s1) = true) by exact (reads_wf _ _ _ Hwf R).
  unf. pose proof (next_fixed_safe UINT256_SIZE s1 Hok1) as Sr.
  destruct (next_fixed UINT256_SIZE s1) as [[root eofr] s2] eqn:Eqr. cbn [snd] in Sr.
  assert (Hok2 : src_ok s2) by (eapply step_safe_ok; eassumption).
  assert (Hwf2 : wf_bytes (buf s2) = true) by (destruct Sr as [B _]; rewrite B; exact Hwf1).
  pose proof (next_bool_safe s2 Hok2) as Sb.
  destruct (next_bool s2) as [[[has irr] eof] s3] eqn:Eqb. cbn [snd] in Sb.
  assert (Hok3 : src_ok s3) by (eapply step_safe_ok; eassumption).
  assert (Hwf3 : wf_bytes (buf s3) = true) by (destruct Sb as [B _]; rewrite B; exact Hwf2).
  assert (S13 : step_safe s s3).
  { eapply step_safe_trans; [exact S1|]. eapply step_safe_trans; eassumption. }
  destruct (irr || eof) eqn:Lc.
  { split; [exact S13|]. split; [cbn [msg_elems]; lia|]. intro Hf. apply app_eq_nil in Hf. destruct Hf; discriminate. }
  apply orb_false_iff in Lc. destruct Lc; subst irr eof.
  destruct (next_bool_reads _ _ _ _ Hok2 Hwf2 Eqb) as [_ [_ Rb]]. specialize (Rb eq_refl).
  destruct has.
  - pose proof (xo_cc X XO s3 Hok3 Hwf3) as P.
    destruct (x_dec_cc X s3) as [[cc s4]|e]; [|exact P]. destruct P as [S4 [_ Rc]]. specialize (Rc I).
    split; [eapply step_safe_trans; eassumption|]. split; [cbn [msg_elems]; lia|].
    destruct eofr; [discriminate|]. intros _.
    destruct (next_fixed_reads _ _ _ _ Hok1 Eqr) as [Rr _].
    pose proof (reads_trans _ _ _ _ _ (reads_trans _ _ _ _ _ (reads_trans _ _ _ _ _ R Rr) Rb) Rc) as RR.
    eapply reads_eq; [exact RR|]. cbn [enc_msg]. rewrite <- ?app_assoc. reflexivity.
  - split; [exact S13|]. split; [cbn [msg_elems]; lia|].
    destruct eofr; [discriminate|]. intros _.
    destruct (next_fixed_reads _ _ _ _ Hok1 Eqr) as [Rr _].
    pose proof (reads_trans _ _ _ _ _ (reads_trans _ _ _ _ _ R Rr) Rb) as RR.
    eapply reads_eq; [exact RR|]. cbn [enc_msg]. rewrite <- ?app_assoc. reflexivity.
Qed.

Lemma dec_unknown_ok cmd s : src_ok s -> wf_bytes (buf s) = true -> dec_spec X s (dec_unknown cmd s).
Proof.
  intros Hok Hwf. unfold dec_unknown.
  destruct (next_bytes s (src_len s)) as [[p e] s1] eqn:Eq.
  pose proof (next_bytes_reads_any _ _ _ _ _ Hok Eq) as R.
  split; [eapply reads_safe; exact R|]. split; [cbn [msg_elems]; lia|]. intros _. exact R.
Qed.

(** ** Dispatch *)
Lemma dec_kind_ok k s : src_ok s -> wf_bytes (buf s) = true -> dec_spec X s (dec_kind X k s).
Proof.
  intros Hok Hwf. destruct k; cbn [dec_kind];
  [ apply dec_addr_ok | apply dec_addrreq_ok | apply dec_version_ok | apply dec_verack_ok
  | apply dec_ping_ok | apply dec_pong_ok | apply dec_headersreq_ok | apply dec_blocksreq_ok
  | apply dec_datareq_ok | apply dec_inv_ok | apply dec_notfound_ok | apply dec_findnodereq_ok
  | apply dec_findnoderesp_ok | apply dec_updatekadid_ok | apply dec_subnetreq_ok
  | apply dec_subnetmembers_ok | apply dec_offline_ok | apply dec_consensus_ok
  | apply dec_blkheader_ok | apply dec_block_ok | apply dec_trn_ok ]; assumption.
Qed.

Theorem decode_payload_ok cmd payload :
  N.of_nat (length payload) < two64 -> wf_bytes payload = true ->
  dec_spec X (src_new payload) (decode_payload X cmd payload).
Proof.
  intros Hlen Hwf. pose proof (src_new_ok payload Hlen) as Hok.
  unfold decode_payload. destruct (lookup_cmd cmd) as [e|].
  - destruct (kind_of_name (d_name e)) as [k|]; [|split; discriminate].
    apply dec_kind_ok; [exact Hok|exact Hwf].
  - apply dec_unknown_ok; [exact Hok|exact Hwf].
Qed.

End Dec.
