(** Proofs for Model/VmMapExec.v (property C15): the heap invariant is preserved by every
    instruction; a run whose every order-dependent answer is unique has the same outcome under all
    schedules. *)
From Coq Require Import List Bool Arith NArith ZArith Lia Permutation.
Import ListNotations.
From Ont Require Import Lib.Bytes Model.NeoInt Gen.VmValueConsts Model.VmValue Gen.VmMapRanges Model.VmMapOrder Model.VmMapExec.
From Ont Require Import Proofs.VmValueLib Proofs.VmMapOrder Proofs.VmMapOrderSer.
Local Open Scope N_scope.

(** * Heap invariant *)
Lemma Forall_firstn {A} (P : A -> Prop) : forall n l, Forall P l -> Forall P (firstn n l).
Proof.
  induction n as [|n IH]; intros l H; [constructor|].
  destruct l as [|x r]; [constructor|]. inversion H; subst. cbn. constructor; [assumption|apply IH; assumption].
Qed.

Lemma Forall_skipn {A} (P : A -> Prop) : forall n l, Forall P l -> Forall P (skipn n l).
Proof.
  induction n as [|n IH]; intros l H; [exact H|].
  destruct l as [|x r]; [constructor|]. inversion H; subst. cbn. apply IH. assumption.
Qed.

Lemma maps_wf_alloc h o : maps_wf h -> obj_wf o -> maps_wf (fst (alloc h o)).
Proof. intros Hh Ho. unfold alloc, maps_wf. cbn. apply Forall_app. split; [exact Hh|constructor; [exact Ho|constructor]]. Qed.

Lemma maps_wf_upd h a o : maps_wf h -> obj_wf o -> maps_wf (upd_heap h a o).
Proof.
  intros Hh Ho. unfold upd_heap, maps_wf. apply Forall_app. split; [apply Forall_firstn; exact Hh|].
  constructor; [exact Ho|apply Forall_skipn; exact Hh].
Qed.

Lemma entries_set_images k v : forall m x, In x (map key_image (entries_set k v m)) -> x = prim_bytes k \/ In x (map key_image m).
Proof.
  induction m as [|e r IH]; intros x Hx; cbn in Hx.
  - destruct Hx as [<-|[]]. left. reflexivity.
  - destruct (bytes_eqb (key_image e) (prim_bytes k)) eqn:E; cbn in Hx.
    + destruct Hx as [<-|Hx]; [left; reflexivity|right; right; exact Hx].
    + destruct Hx as [<-|Hx]; [right; left; reflexivity|].
      destruct (IH x Hx) as [->|H]; [left; reflexivity|right; right; exact H].
Qed.

Lemma entries_set_nodup k v : forall m, NoDup (map key_image m) -> NoDup (map key_image (entries_set k v m)).
Proof.
  induction m as [|e r IH]; intro Hn; cbn.
  - constructor; [intros []|constructor].
  - cbn in Hn. inversion Hn as [|? ? Hni Hnr]; subst.
    destruct (bytes_eqb (key_image e) (prim_bytes k)) eqn:E; cbn.
    + apply bytes_eqb_eq in E. constructor; [|exact Hnr]. unfold key_image at 1. cbn. rewrite <- E. exact Hni.
    + constructor; [|apply IH; exact Hnr].
      intro Hin. destruct (entries_set_images k v r _ Hin) as [Heq|H]; [|apply Hni; exact H].
      rewrite Heq, bytes_eqb_refl in E. discriminate.
Qed.

Lemma filter_images_nodup {V} (f : prim * V -> bool) : forall m, NoDup (map key_image m) -> NoDup (map key_image (filter f m)).
Proof.
  induction m as [|e r IH]; intro Hn; cbn; [constructor|].
  cbn in Hn. inversion Hn as [|? ? Hni Hnr]; subst.
  destruct (f e); cbn; [|apply IH; exact Hnr].
  constructor; [|apply IH; exact Hnr].
  intro Hin. apply Hni. apply in_map_iff in Hin. destruct Hin as [y [Ey Hy]]. apply filter_In in Hy.
  rewrite <- Ey. apply in_map. apply Hy.
Qed.

Ltac inv_res :=
  repeat match goal with
  | H : inl _ = inr _ |- _ => discriminate H
  | H : inr _ = inr _ |- _ => injection H as H; subst
  | H : bindr ?a _ = inr _ |- _ => let E := fresh "E" in destruct a eqn:E; cbn [bindr] in H; [discriminate H|]
  | H : (let (_, _) := ?p in _) = inr _ |- _ => destruct p
  | H : (if ?c then _ else _) = inr _ |- _ => let E := fresh "E" in destruct c eqn:E; try discriminate H
  | H : match ?x with _ => _ end = inr _ |- _ => destruct x; try discriminate H
  end.

Theorem step_wf i st ans st' : maps_wf (st_heap st) -> step i st ans = inr st' -> maps_wf (st_heap st').
Proof.
  intros Hw Hs.
  assert (Hm : forall a, NoDup (map key_image (get_map (st_heap st) a))) by (intro a; apply get_map_wf; exact Hw).
  destruct i; unfold step in Hs; cbn zeta in Hs; unfold alloc in Hs; inv_res; cbn [st_heap];
    try exact Hw;
    try (apply maps_wf_upd; [exact Hw|cbn; unfold entries_remove; auto using entries_set_nodup, filter_images_nodup]);
    try (apply (maps_wf_alloc _ _ Hw); cbn; auto; constructor).
Qed.

(** * Answers *)
Definition rq_wf (rq : request) : Prop := match rq with RqSerialize h _ => maps_wf h | _ => True end.

Lemma request_of_wf i st : maps_wf (st_heap st) -> rq_wf (request_of i st).
Proof.
  intro Hw. unfold request_of. destruct i; try exact I; destruct (st_eval st) as [|v r]; try exact I;
    try (destruct v; exact I). exact Hw.
Qed.

Theorem answer_agree fuel rq a : rq_wf rq -> answer_ref fuel rq = Some a -> forall sch, fst (answer_s fuel rq sch) = a.
Proof.
  intros Hw Ha sch. destruct rq as [|m|h v]; cbn [answer_ref answer_s rq_wf option_map] in *.
  - injection Ha as <-. reflexivity.
  - injection Ha as <-. destruct (next_ord sch) as [p sch']. cbn [fst]. f_equal. apply map_sorted_entries_perm_irrelevant.
  - destruct (rs_single (h_serialize h 0 fuel v [])) as [o|] eqn:E; [|discriminate]. injection Ha as <-.
    pose proof (serialize_perm_irrelevant h 0 fuel v [] o Hw E sch) as Hs.
    destruct (h_serialize_s h 0 fuel v [] sch) as [r sch']. cbn [fst] in *. congruence.
Qed.

(** * Runs *)
Theorem run_perm_irrelevant fuel : forall prog st o, maps_wf (st_heap st) ->
  run_ref fuel prog st = Some o -> forall sch, run_s fuel prog st sch = o.
Proof.
  induction prog as [|i rest IH]; intros st o Hw Hr sch; cbn [run_ref run_s] in *; [congruence|].
  destruct (answer_ref fuel (request_of i st)) as [ans|] eqn:Ea; [|discriminate].
  pose proof (answer_agree fuel _ ans (request_of_wf i st Hw) Ea sch) as Hs.
  destruct (answer_s fuel (request_of i st) sch) as [ans' sch']. cbn [fst] in Hs. subst ans'.
  destruct (step i st ans) as [f|st'] eqn:Es; [congruence|].
  apply IH; [eapply step_wf; eassumption|exact Hr].
Qed.

Lemma st0_wf : maps_wf (st_heap st0).
Proof. constructor. Qed.

Corollary run_from_start fuel prog o : run_ref fuel prog st0 = Some o -> forall sch, run_s fuel prog st0 sch = o.
Proof. intro H. apply run_perm_irrelevant; [apply st0_wf|exact H]. Qed.
