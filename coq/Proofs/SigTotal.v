(** The validator returns (C16, after the repair c4422b91): for ANY signature scheme - the crypto
    library's Verify may panic, core/signature's wrapper recovers - checkTransactionSignatures
    never panics, provided every key the key deserializer returns has a serialization of
    1..2^32-1 bytes (ProgramBuilder.PushBytes panics on an empty string; true of every key
    keypair.DeserializePublicKey returns: 33..133 bytes).  The remaining panic sites of the model
    are the index expressions sig.PubKeys[0], sig.SigData[0], sigs[i], all excluded by the guards. *)
From Coq Require Import List Bool Arith NArith ZArith Lia Permutation.
Import ListNotations.
From Ont Require Import Lib.Bytes Model.Codec Gen.ProgramConsts Model.Program Gen.SigConsts Gen.SigGuards Model.Sig.
From Ont Require Import Proofs.Codec Proofs.Program Proofs.Sig.
Local Open Scope N_scope.

Definition ser_sane (k : pubkey) : Prop := pk_ser k <> [] /\ N.of_nat (length (pk_ser k)) < two32.

(** Every key keypair.DeserializePublicKey returns serializes to 1..2^32-1 bytes. *)
Definition deser_sane (deser : bytes -> option pubkey) : Prop := forall b k, deser b = Some k -> ser_sane k.

(** * The keys GetProgramInfo returns are keys the deserializer returned *)
Section FromDeser.
Variable deser : bytes -> option pubkey.
Definition from_deser (k : pubkey) : Prop := exists b, deser b = Some k.

Lemma read_pubkey_from s k s' : read_pubkey deser s = inl (k, s') -> from_deser k.
Proof.
  unfold read_pubkey. destruct (read_bytes s) as [[b s1]|e]; [|discriminate].
  destruct (deser b) as [k'|] eqn:D; [|discriminate]. intro E. injection E as <- _. exists b. exact D.
Qed.

Lemma read_pubkeys_from : forall fuel s m ks s', read_pubkeys deser fuel s m = inl (ks, s') -> Forall from_deser ks.
Proof.
  induction fuel as [|f IH]; intros s m ks s' E; [discriminate|]. cbn [read_pubkeys] in E.
  destruct (m =? 0); [injection E as <- _; constructor|].
  destruct (read_pubkey deser s) as [[k s1]|e] eqn:R; [|discriminate].
  destruct (read_pubkeys deser f s1 (m - 1)) as [[ks' s2]|e] eqn:R2; [|discriminate].
  injection E as <- _. constructor; [eapply read_pubkey_from; exact R|eapply IH; exact R2].
Qed.

Lemma deser_all_from : forall bs ks, deser_all deser bs = Some ks -> Forall from_deser ks.
Proof.
  induction bs as [|b r IH]; intros ks E; cbn [deser_all] in E; [injection E as <-; constructor|].
  destruct (deser b) as [k|] eqn:D; [|discriminate]. cbn [obind] in E.
  destruct (deser_all deser r) as [ks'|] eqn:R; [|discriminate]. cbn [obind] in E. injection E as <-.
  constructor; [exists b; exact D|apply IH; reflexivity].
Qed.

Theorem program_info_keys_from_deser prog ks m :
  get_program_info deser prog = inl (ks, m) -> Forall from_deser ks.
Proof.
  unfold get_program_info. cbv zeta.
  destruct (length prog <=? 2)%nat; [discriminate|].
  destruct (last prog 0 =? OP_CHECKSIG).
  - destruct (read_pubkey deser _) as [[k s1]|e] eqn:R; [|discriminate].
    destruct (src_len s1 =? 0); [|discriminate].
    intro E. injection E as <- _. constructor; [eapply read_pubkey_from; exact R|constructor].
  - destruct (last prog 0 =? OP_CHECKMULTISIG); [|discriminate].
    destruct (read_num _) as [[m0 s1]|e]; [|discriminate].
    destruct (read_pubkeys deser _ s1 m0) as [[k1 s2]|e] eqn:R1; [|discriminate].
    destruct (read_buffers _ s2) as [[bufs s3]|e]; [|discriminate].
    destruct (negb (src_len s3 =? 0)); [discriminate|].
    destruct bufs as [|b0 br]; [discriminate|].
    destruct (deser_all deser (removelast (b0 :: br))) as [k2|] eqn:R2; [|discriminate].
    destruct (negb _); [discriminate|]. destruct (negb _); [discriminate|].
    intro E. injection E as <- _. apply Forall_app. split; [eapply read_pubkeys_from; exact R1|eapply deser_all_from; exact R2].
Qed.

End FromDeser.

(** * Addresses of sane keys are defined *)
Section Total.
Variable deser : bytes -> option pubkey.
Variable sigT : Type.
Variable sdeser : bytes -> option sigT.
Variable sverify : pubkey -> bytes -> sigT -> vout.
Variable H : bytes -> bytes.
Variable Keth : bytes -> bytes.

Notation get_sig := (get_sig deser).
Notation multi_loop := (multi_loop sigT sdeser sverify).
Notation verify_multi := (verify_multi sigT sdeser sverify).
Notation check_sigset := (check_sigset deser sigT sdeser sverify H Keth).
Notation check_sigs := (check_sigs deser sigT sdeser sverify H Keth).
Notation cts := (check_transaction_signatures deser sigT sdeser sverify H Keth).

Lemma push_all_sane ds : Forall (fun d => d <> [] /\ N.of_nat (length d) < two32) ds ->
  exists e, push_all ds = Some e.
Proof.
  induction 1 as [|d ds (Hne & Hl) _ (e & IH)]; simpl; [eauto|].
  destruct (push_bytes_some _ Hne Hl) as (hdr & -> & _). simpl. rewrite IH. simpl. eauto.
Qed.

Lemma address_single_sane k : ser_sane k -> exists a, address_from_pubkey H Keth k = AOk a.
Proof.
  intros (Hne & Hl). unfold address_from_pubkey. destruct (pk_type k =? PK_ETHECDSA); [eauto|].
  unfold program_from_pubkey. destruct (push_bytes_some _ Hne Hl) as (hdr & -> & _). simpl. eauto.
Qed.

Lemma address_multi_sane ks m : Forall ser_sane ks -> address_from_multi_pubkeys H ks m <> APanic.
Proof.
  intro F. unfold address_from_multi_pubkeys. destruct (multi_params_ok m _); cbn [negb]; [|discriminate].
  unfold program_from_multi_pubkey. destruct (multi_params_ok m _); cbn [negb]; [|discriminate].
  unfold multi_script.
  assert (B : forall v, v mod 65536 <= 65535) by (intro v; pose proof (N.mod_lt v 65536); lia).
  destruct (push_num_some _ (B (Z.to_N m))) as (e1 & -> & _). cbn [obind].
  assert (F' : Forall (fun d => d <> [] /\ N.of_nat (length d) < two32) (map pk_ser (sort_keys ks))).
  { apply Forall_map. eapply Permutation_Forall; [apply Permutation_sym, sort_keys_perm|exact F]. }
  destruct (push_all_sane _ F') as (e2 & ->). cbn [obind].
  destruct (push_num_some _ (B (N.of_nat (length (sort_keys ks))))) as (e3 & -> & _). cbn [obind].
  discriminate.
Qed.

Lemma multi_loop_no_crash h keys : forall m sigs mask,
  (m <= length sigs)%nat -> multi_loop h keys m sigs mask <> MCrash.
Proof.
  induction m as [|m IH]; intros sigs mask L; [discriminate|].
  cbn [Sig.multi_loop]. destruct sigs as [|sb rest]; [simpl in L; lia|].
  destruct (sdeser sb) as [s|]; [|discriminate].
  destruct (find_slot sigT sverify h s keys mask) as [mask'|]; [|discriminate].
  apply IH. simpl in L. lia.
Qed.

Hypothesis Sane : deser_sane deser.

Lemma get_sig_keys_sane r ss : get_sig r = inl ss -> Forall ser_sane (ss_keys ss).
Proof.
  unfold Sig.get_sig. destruct (get_param_info (rs_invoke r)) as [sigs|e]; [|discriminate].
  destruct (get_program_info deser (rs_verify r)) as [[ks m]|e] eqn:G; [|discriminate].
  intro E. injection E as <-. cbn [ss_keys].
  eapply Forall_impl; [|eapply program_info_keys_from_deser; exact G].
  intros k (b & D). exact (Sane b k D).
Qed.

Lemma check_sigset_no_crash h r : check_sigset h r <> CCrash.
Proof.
  unfold Sig.check_sigset. destruct (get_sig r) as [ss|e] eqn:G; [|discriminate].
  pose proof (get_sig_keys_sane r ss G) as KS.
  destruct (sig_param_bad _ _ _) eqn:P; [discriminate|].
  apply sig_param_bad_spec in P. destruct P as (P1 & P2 & P3 & P4).
  destruct (Z.eqb_spec (Z.of_nat (length (ss_keys ss))) 1) as [K1|K1].
  - destruct (ss_keys ss) as [|k ks]; [simpl in K1; lia|].
    destruct (ss_sigdata ss) as [|sb rest]; [simpl in P2; lia|].
    destruct (verify_single sigT sdeser sverify k h sb); try discriminate.
    destruct (address_single_sane k) as (a & ->); [inversion KS; assumption|discriminate].
  - destruct (verify_multi h (ss_keys ss) (Z.of_N (ss_m ss)) (ss_sigdata ss)) eqn:VM; [|discriminate|].
    + pose proof (address_multi_sane (ss_keys ss) (Z.of_N (ss_m ss)) KS) as AM.
      destruct (address_from_multi_pubkeys H (ss_keys ss) (Z.of_N (ss_m ss))); try discriminate. contradiction.
    + exfalso. revert VM. unfold Sig.verify_multi. destruct (multi_not_enough _ _) eqn:NE; [discriminate|].
      apply multi_not_enough_spec in NE. apply multi_loop_no_crash. lia.
Qed.

Lemma check_sigs_no_crash h : forall rs acc, check_sigs h rs acc <> LCrash.
Proof.
  induction rs as [|r rest IH]; intros acc; [discriminate|]. cbn [Sig.check_sigs].
  pose proof (check_sigset_no_crash h r) as NC.
  destruct (check_sigset h r); [apply IH|discriminate|contradiction].
Qed.

Theorem no_crash_proof t : cts t <> VCrash.
Proof.
  unfold Sig.check_transaction_signatures.
  destruct (v_eip t); [discriminate|]. destruct (too_many_sigs _); [discriminate|].
  pose proof (check_sigs_no_crash (v_hash t) (v_sigs t) []) as NC.
  destruct (check_sigs (v_hash t) (v_sigs t) []) as [ad| |]; [|discriminate|contradiction].
  destruct (mem_addr (v_payer t) ad); discriminate.
Qed.

(** An Ontology-format run that does not accept rejects. *)
Lemma not_accept_reject t :
  v_eip t = false -> (forall addrs, cts t <> VAccept addrs) -> exists e, cts t = VReject e.
Proof.
  intros Eip NA. pose proof (no_crash_proof t) as NC.
  destruct (cts t) as [ad| |e|] eqn:E; [exfalso; exact (NA ad eq_refl)| |eauto|contradiction].
  exfalso. revert E. unfold Sig.check_transaction_signatures. rewrite Eip.
  destruct (too_many_sigs _); [discriminate|].
  destruct (Sig.check_sigs _ _ _ _ _ _ _ _ _) as [ad| |]; try discriminate. destruct (mem_addr _ _); discriminate.
Qed.

(** A counted signature that verifies under no key of its set: rejected (any scheme). *)
Theorem bad_signature_rejected_proof t r ss i sb :
  v_eip t = false -> In r (v_sigs t) -> get_sig r = inl ss ->
  (i < N.to_nat (ss_m ss))%nat -> nth_error (ss_sigdata ss) i = Some sb ->
  (forall k, In k (ss_keys ss) -> ~ verifies sigT sdeser sverify k (v_hash t) sb) ->
  exists e, cts t = VReject e.
Proof.
  intros Eip Hr G Hi Hs Bad. apply not_accept_reject; [exact Eip|].
  eapply bad_signature_not_accepted_proof; eassumption.
Qed.

End Total.
