(** Proofs/MerkleTree.v — the compact tree and its hash store.

    Abstract state of a CompactMerkleTree: a forest of perfect binary trees, one per set bit of the
    tree size (the "compact range").  [R] lists it smallest tree first (the order in which
    AppendHash merges), [rev R] largest first (the order of [hashes] and of the RFC-6962 split).
    Appending is a binary increment with carry; the hash store receives the post-order of the
    perfect trees. *)
From Coq Require Import List Bool Arith NArith ZArith Lia.
Local Open Scope nat_scope.
Import ListNotations.
From Ont Require Import Model.Merkle Proofs.MerkleSpec Proofs.MerkleVerify.

Ltac Zify.zify_post_hook ::= Z.to_euclidean_division_equations.

Lemma Nodd_double_succ x : N.odd (1 + 2 * x) = true.
Proof. rewrite N.odd_add_mul_2. reflexivity. Qed.
Lemma Nodd_double x : N.odd (2 * x) = false.
Proof. replace (2 * x)%N with (0 + 2 * x)%N by lia. rewrite N.odd_add_mul_2. reflexivity. Qed.
Lemma Ndiv2_double_succ x : N.div2 (1 + 2 * x) = x.
Proof. rewrite N.div2_div. lia. Qed.
Lemma Ndiv2_double x : N.div2 (2 * x) = x.
Proof. rewrite N.div2_div. lia. Qed.

Section Tree.
  Variable T : Type.
  Variable hc : T -> T -> T.
  Variable hempty : T.

  Notation mth := (mth T hc hempty).
  Notation hash_fold1 := (hash_fold1 T hc).
  Notation append_loop := (append_loop T hc).

  Inductive ptree := PLeaf (x : T) | PNode (l r : ptree).
  Fixpoint proot (t : ptree) : T :=
    match t with PLeaf x => x | PNode l r => hc (proot l) (proot r) end.
  Fixpoint pleaves (t : ptree) : list T :=
    match t with PLeaf x => [x] | PNode l r => pleaves l ++ pleaves r end.
  (** post-order of the node hashes: what the appends write to the hash store *)
  Fixpoint ppost (t : ptree) : list T :=
    match t with PLeaf x => [x] | PNode l r => ppost l ++ ppost r ++ [hc (proot l) (proot r)] end.
  Fixpoint perfect (h : nat) (t : ptree) : Prop :=
    match h, t with
    | O, PLeaf _ => True
    | S h', PNode l r => perfect h' l /\ perfect h' r
    | _, _ => False
    end.

  Lemma perfect_leaves_len : forall h t, perfect h t -> length (pleaves t) = 2 ^ h.
  Proof.
    induction h as [|h IH]; destruct t; simpl; try tauto.
    intros [Hl Hr]. rewrite app_length, (IH _ Hl), (IH _ Hr). lia.
  Qed.

  Lemma pleaves_nonempty t : pleaves t <> [].
  Proof. induction t; simpl; [congruence|]. intro E. apply app_eq_nil in E. tauto. Qed.

  Lemma perfect_mth : forall h t, perfect h t -> mth (pleaves t) = proot t.
  Proof.
    induction h as [|h IH]; destruct t; simpl; try tauto.
    intros [Hl Hr].
    rewrite (mth_app T hc hempty h).
    - rewrite (IH _ Hl), (IH _ Hr). reflexivity.
    - apply perfect_leaves_len; assumption.
    - apply pleaves_nonempty.
    - rewrite (perfect_leaves_len _ _ Hr). lia.
  Qed.

  Lemma perfect_post_len : forall h t, perfect h t -> length (ppost t) = 2 ^ S h - 1.
  Proof.
    induction h as [|h IH]; destruct t; simpl; try tauto.
    intros [Hl Hr]. rewrite !app_length, (IH _ Hl), (IH _ Hr). simpl.
    pose proof (pow2_pos h). lia.
  Qed.

  Lemma ppost_last t : exists pre, ppost t = pre ++ [proot t].
  Proof.
    destruct t; simpl.
    - exists []. reflexivity.
    - exists (ppost t1 ++ ppost t2). rewrite app_assoc. reflexivity.
  Qed.

  (** * The forest, smallest tree first *)
  Definition forest := list (nat * ptree).

  Fixpoint rwf (lo : nat) (R : forest) : Prop :=
    match R with
    | [] => True
    | (h, t) :: R' => lo <= h /\ perfect h t /\ rwf (S h) R'
    end.
  Definition rroots (R : forest) : list T := map (fun ht => proot (snd ht)) R.
  Definition mleaves (R : forest) : list T := flat_map (fun ht => pleaves (snd ht)) (rev R).
  Definition mpost (R : forest) : list T := flat_map (fun ht => ppost (snd ht)) (rev R).
  Fixpoint rval (j : nat) (R : forest) : N :=
    match R with [] => 0%N | (h, _) :: R' => (2 ^ N.of_nat (h - j) + rval j R')%N end.

  Lemma rwf_weaken : forall R lo lo', lo' <= lo -> rwf lo R -> rwf lo' R.
  Proof. destruct R as [|[h t] R]; simpl; intros; [auto|]. intuition lia. Qed.

  Lemma rval_shift : forall R j, rwf (S j) R -> rval j R = (2 * rval (S j) R)%N.
  Proof.
    induction R as [|[h t] R IH]; intros j H; [reflexivity|].
    cbn [rval]. destruct H as (Hh & _ & HR).
    rewrite (IH j) by (eapply rwf_weaken; [|exact HR]; lia).
    replace (h - j) with (S (h - S j)) by lia.
    rewrite Nat2N.inj_succ, N.pow_succ_r'. lia.
  Qed.

  Lemma mleaves_cons h t R : mleaves ((h, t) :: R) = mleaves R ++ pleaves t.
  Proof. unfold mleaves. cbn [rev]. rewrite flat_map_app. simpl. rewrite app_nil_r. reflexivity. Qed.
  Lemma mpost_cons h t R : mpost ((h, t) :: R) = mpost R ++ ppost t.
  Proof. unfold mpost. cbn [rev]. rewrite flat_map_app. simpl. rewrite app_nil_r. reflexivity. Qed.

  Lemma rval_leaves : forall R j, rwf j R ->
    (rval j R * 2 ^ N.of_nat j)%N = N.of_nat (length (mleaves R)).
  Proof.
    induction R as [|[h t] R IH]; intros j H; [reflexivity|].
    destruct H as (Hh & Hp & HR).
    rewrite mleaves_cons, app_length, Nat2N.inj_add, (perfect_leaves_len _ _ Hp).
    cbn [rval]. rewrite <- (IH j) by (eapply rwf_weaken; [|exact HR]; lia).
    rewrite N.mul_add_distr_r, <- N.pow_add_r.
    replace (N.of_nat (h - j) + N.of_nat j)%N with (N.of_nat h) by lia.
    rewrite Nat2N.inj_pow. simpl N.of_nat. lia.
  Qed.

  (** * Binary increment with carry: what AppendHash does to the forest *)
  Fixpoint carry (j : nat) (c : ptree) (R : forest) : forest :=
    match R with
    | (h, t) :: R' => if h =? j then carry (S j) (PNode t c) R' else (j, c) :: R
    | [] => [(j, c)]
    end.
  (** the node hashes created by the carries, in creation order *)
  Fixpoint merged (j : nat) (c : ptree) (R : forest) : list T :=
    match R with
    | (h, t) :: R' => if h =? j then proot (PNode t c) :: merged (S j) (PNode t c) R' else []
    | [] => []
    end.

  Lemma carry_rwf : forall R j c, rwf j R -> perfect j c -> rwf j (carry j c R).
  Proof.
    induction R as [|[h t] R IH]; intros j c HR Hc.
    - simpl. auto.
    - cbn [carry]. destruct HR as (Hh & Hp & HR).
      destruct (Nat.eqb_spec h j) as [->|Hne].
      + eapply rwf_weaken; [|apply IH; [exact HR | simpl; auto]]. lia.
      + simpl. repeat split; auto; lia.
  Qed.

  Lemma carry_leaves : forall R j c, mleaves (carry j c R) = mleaves R ++ pleaves c.
  Proof.
    induction R as [|[h t] R IH]; intros j c.
    - cbn [carry]. rewrite mleaves_cons. reflexivity.
    - cbn [carry]. destruct (h =? j).
      + rewrite IH, mleaves_cons, <- app_assoc. reflexivity.
      + rewrite mleaves_cons. reflexivity.
  Qed.

  Lemma carry_post : forall R j c, mpost (carry j c R) = mpost R ++ ppost c ++ merged j c R.
  Proof.
    induction R as [|[h t] R IH]; intros j c.
    - cbn [carry merged]. rewrite mpost_cons, app_nil_r. reflexivity.
    - cbn [carry merged]. destruct (h =? j).
      + rewrite IH, mpost_cons. cbn [ppost proot]. rewrite <- !app_assoc. reflexivity.
      + rewrite !mpost_cons, app_nil_r. reflexivity.
  Qed.

  Lemma carry_rval : forall R j c, rwf j R -> perfect j c -> rval j (carry j c R) = (rval j R + 1)%N.
  Proof.
    induction R as [|[h t] R IH]; intros j c HR Hc.
    - cbn [carry rval]. rewrite Nat.sub_diag. reflexivity.
    - cbn [carry]. destruct HR as (Hh & Hp & HR).
      destruct (Nat.eqb_spec h j) as [->|Hne].
      + rewrite rval_shift by (apply carry_rwf; [exact HR | simpl; auto]).
        rewrite IH by (simpl; auto). cbn [rval]. rewrite Nat.sub_diag.
        rewrite (rval_shift R j HR). simpl N.of_nat. lia.
      + cbn [rval]. rewrite Nat.sub_diag. simpl N.of_nat. lia.
  Qed.

  (** the merge loop of AppendHash is the carry *)
  Lemma append_loop_carry : forall R j c st, rwf j R ->
    append_loop (rval j R) (rroots R) (proot c) st =
      match carry j c R with
      | [] => None
      | (_, c') :: R' => Some (rroots R', proot c', st ++ merged j c R)
      end.
  Proof.
    induction R as [|[h t] R IH]; intros j c st HR.
    - simpl. rewrite app_nil_r. reflexivity.
    - destruct HR as (Hh & Hp & HR). cbn [carry merged rroots map snd].
      destruct (Nat.eqb_spec h j) as [->|Hne].
      + cbn [rval Merkle.append_loop]. rewrite Nat.sub_diag.
        rewrite (rval_shift R j HR). change (2 ^ N.of_nat 0)%N with 1%N.
        rewrite Nodd_double_succ, Ndiv2_double_succ.
        change (hc (proot t) (proot c)) with (proot (PNode t c)).
        fold (rroots R). rewrite IH by exact HR.
        destruct (carry (S j) (PNode t c) R) as [|[j' c'] R'']; [reflexivity|].
        rewrite <- app_assoc. reflexivity.
      + assert (Hr : rwf (S j) ((h, t) :: R)) by (simpl; repeat split; auto; lia).
        rewrite (rval_shift _ j Hr).
        cbn [Merkle.append_loop]. rewrite Nodd_double.
        rewrite app_nil_r. reflexivity.
  Qed.

  (** * The forest, largest tree first (the RFC-6962 split order) *)
  Fixpoint fwf (b : nat) (F : forest) : Prop :=
    match F with
    | [] => True
    | (h, t) :: F' => h < b /\ perfect h t /\ fwf h F'
    end.
  Definition fleaves (F : forest) : list T := flat_map (fun ht => pleaves (snd ht)) F.
  Definition fpost (F : forest) : list T := flat_map (fun ht => ppost (snd ht)) F.
  Definition froots (F : forest) : list T := map (fun ht => proot (snd ht)) F.

  Lemma mleaves_rev R : mleaves R = fleaves (rev R). Proof. reflexivity. Qed.
  Lemma mpost_rev R : mpost R = fpost (rev R). Proof. reflexivity. Qed.
  Lemma rroots_rev R : rev (rroots R) = froots (rev R).
  Proof. unfold rroots, froots. rewrite map_rev. reflexivity. Qed.

  Lemma fwf_weaken : forall F b b', b <= b' -> fwf b F -> fwf b' F.
  Proof. destruct F as [|[h t] F]; simpl; intros; [auto|]. intuition lia. Qed.

  Lemma fwf_snoc : forall X b h t, fwf b X -> (forall h' t', In (h', t') X -> h < h') -> h < b ->
    perfect h t -> fwf b (X ++ [(h, t)]).
  Proof.
    induction X as [|[h0 t0] X IH]; intros b h t HX Hall Hb Hp.
    - simpl. auto.
    - destruct HX as (H0 & Hp0 & HX). cbn [app fwf]. repeat split; auto.
      apply IH; auto.
      + intros h' t' Hin. apply (Hall h' t'). right. exact Hin.
      + apply (Hall h0 t0). left. reflexivity.
  Qed.

  Lemma rwf_ge : forall R lo h t, rwf lo R -> In (h, t) R -> lo <= h.
  Proof.
    induction R as [|[h0 t0] R IH]; intros lo h t H Hin; [destruct Hin|].
    destruct H as (H0 & _ & HR). destruct Hin as [E|Hin].
    - inversion E; subst. exact H0.
    - pose proof (IH _ _ _ HR Hin). lia.
  Qed.

  Lemma rwf_rev : forall R lo b, rwf lo R -> (forall h t, In (h, t) R -> h < b) -> fwf b (rev R).
  Proof.
    induction R as [|[h t] R IH]; intros lo b H Hb; [simpl; auto|].
    destruct H as (H0 & Hp & HR). cbn [rev].
    apply fwf_snoc.
    - apply (IH (S h)); [exact HR|]. intros h' t' Hin. apply (Hb h' t'). right. exact Hin.
    - intros h' t' Hin. apply in_rev in Hin. pose proof (rwf_ge _ _ _ _ HR Hin). lia.
    - apply (Hb h t). left. reflexivity.
    - exact Hp.
  Qed.

  Lemma fwf_leaves_lt : forall F b, fwf b F -> length (fleaves F) < 2 ^ b.
  Proof.
    induction F as [|[h t] F IH]; intros b H.
    - simpl. apply pow2_pos.
    - destruct H as (Hb & Hp & HF). cbn [fleaves flat_map snd]. fold (fleaves F).
      rewrite app_length, (perfect_leaves_len _ _ Hp).
      pose proof (IH _ HF). pose proof (Nat.pow_le_mono_r 2 (S h) b ltac:(lia) ltac:(lia)) as Hm.
      rewrite Nat.pow_succ_r' in Hm. lia.
  Qed.

  Lemma fleaves_nonempty h t F : fleaves ((h, t) :: F) <> [].
  Proof.
    cbn [fleaves flat_map snd]. intro E. apply app_eq_nil in E. destruct E as [E _].
    exact (pleaves_nonempty _ E).
  Qed.

  (** Root(): folding the compact hashes gives the RFC tree hash of all leaves *)
  Lemma fold_roots_mth : forall F b h t, fwf b ((h, t) :: F) ->
    hash_fold1 (proot t) (froots F) = mth (fleaves ((h, t) :: F)).
  Proof.
    induction F as [|[h' t'] F IH]; intros b h t H.
    - destruct H as (_ & Hp & _). cbn. rewrite app_nil_r. symmetry. apply (perfect_mth _ _ Hp).
    - destruct H as (Hb & Hp & HF).
      cbn [froots map snd Merkle.hash_fold1]. fold (froots F).
      rewrite (IH _ _ _ HF).
      cbn [fleaves flat_map snd]. fold (fleaves F).
      change (pleaves t' ++ fleaves F) with (fleaves ((h', t') :: F)).
      rewrite (mth_app T hc hempty h).
      + rewrite (perfect_mth _ _ Hp). reflexivity.
      + apply (perfect_leaves_len _ _ Hp).
      + apply fleaves_nonempty.
      + pose proof (fwf_leaves_lt _ _ HF). lia.
  Qed.

  (** * The tree invariant *)
  Definition store_inv (st : option (hstore T)) (R : forest) : Prop :=
    match st with
    | None => True
    | Some s => hs_cur T s = length (mpost R) /\ firstn (hs_cur T s) (hs_data T s) = mpost R
    end.
  Definition tree_inv (t : ctree T) (R : forest) : Prop :=
    rwf 0 R /\ ct_size T t = rval 0 R /\ ct_hashes T t = rev (rroots R) /\ store_inv (ct_store T t) R.

  Lemma carry_nonempty : forall R j c, carry j c R <> [].
  Proof.
    induction R as [|[h t] R IH]; intros j c; cbn [carry]; [congruence|].
    destruct (h =? j); [apply IH | congruence].
  Qed.

  Lemma w32m_small x : (x < two32N)%N -> w32m x = x.
  Proof. intro H. unfold w32m. apply N.mod_small. exact H. Qed.

  Lemma firstn_app_exact (A : Type) (l1 l2 : list A) n : n = length l1 -> firstn n (l1 ++ l2) = l1.
  Proof. intros ->. rewrite firstn_app, Nat.sub_diag, firstn_all. simpl. apply app_nil_r. Qed.

  Lemma append_hash_inv t R x : tree_inv t R -> (rval 0 R + 1 < two32N)%N ->
    exists t', append_hash T hc t x = Some (t', rev (ct_hashes T t)) /\
               tree_inv t' (carry 0 (PLeaf x) R) /\
               (ct_store T t = None -> ct_store T t' = None).
  Proof.
    intros (HR & Hs & Hh & Hst) Hb.
    unfold append_hash. rewrite Hs, Hh, rev_involutive.
    change x with (proot (PLeaf x)) at 1.
    rewrite (append_loop_carry R 0 (PLeaf x) [x] HR).
    pose proof (carry_nonempty R 0 (PLeaf x)) as Hne.
    pose proof (carry_rwf R 0 (PLeaf x) HR I) as Hwf.
    pose proof (carry_rval R 0 (PLeaf x) HR I) as Hval.
    pose proof (carry_post R 0 (PLeaf x)) as Hpost.
    destruct (carry 0 (PLeaf x) R) as [|[j' c'] R'] eqn:Ec; [congruence|].
    eexists. split; [reflexivity|]. split; [|intro E; cbn; rewrite E; reflexivity].
    unfold tree_inv. cbn [ct_size ct_hashes ct_store].
    split; [exact Hwf|]. split; [rewrite Hval; apply w32m_small; lia|].
    split.
    - cbn [rroots map snd rev]. reflexivity.
    - destruct (ct_store T t) as [s|]; [|exact I].
      destruct Hst as [Hc Hf]. unfold store_inv, hs_append. cbn [hs_cur hs_data].
      set (st := [x] ++ merged 0 (PLeaf x) R) in *.
      assert (Hpost' : mpost ((j', c') :: R') = mpost R ++ st) by (rewrite Hpost; reflexivity).
      rewrite Hpost'. split.
      + rewrite app_length. lia.
      + rewrite Hf, app_assoc. apply firstn_app_exact. rewrite app_length. lia.
  Qed.

  (** the forest after appending a list of leaves *)
  Definition forest_from (R : forest) (ls : list T) : forest :=
    fold_left (fun R x => carry 0 (PLeaf x) R) ls R.
  Definition forest_of (ls : list T) : forest := forest_from [] ls.

  Lemma forest_from_rwf : forall ls R, rwf 0 R -> rwf 0 (forest_from R ls).
  Proof.
    induction ls as [|x ls IH]; intros R H; [exact H|]. cbn. apply IH. apply carry_rwf; [exact H|exact I].
  Qed.
  Lemma forest_from_leaves : forall ls R, mleaves (forest_from R ls) = mleaves R ++ ls.
  Proof.
    induction ls as [|x ls IH]; intros R; cbn; [rewrite app_nil_r; reflexivity|].
    rewrite IH, carry_leaves, <- app_assoc. reflexivity.
  Qed.
  Lemma forest_from_rval : forall ls R, rwf 0 R ->
    rval 0 (forest_from R ls) = (rval 0 R + N.of_nat (length ls))%N.
  Proof.
    induction ls as [|x ls IH]; intros R H; cbn [forest_from fold_left length]; [lia|].
    fold (forest_from (carry 0 (PLeaf x) R) ls).
    rewrite IH by (apply carry_rwf; [exact H|exact I]).
    rewrite carry_rval by (exact H || exact I). lia.
  Qed.
  Lemma forest_from_post : forall ls R, exists more, mpost (forest_from R ls) = mpost R ++ more.
  Proof.
    induction ls as [|x ls IH]; intros R; cbn.
    - exists []. rewrite app_nil_r. reflexivity.
    - destruct (IH (carry 0 (PLeaf x) R)) as [more Hm]. rewrite carry_post in Hm.
      eexists. rewrite Hm, <- app_assoc. reflexivity.
  Qed.
  Lemma forest_from_app R l1 l2 : forest_from R (l1 ++ l2) = forest_from (forest_from R l1) l2.
  Proof. unfold forest_from. apply fold_left_app. Qed.

  Lemma append_all_inv : forall ls t R, tree_inv t R ->
    (rval 0 R + N.of_nat (length ls) < two32N)%N ->
    exists t', append_all T hc t ls = Some t' /\ tree_inv t' (forest_from R ls) /\
               (ct_store T t = None -> ct_store T t' = None).
  Proof.
    induction ls as [|x ls IH]; intros t R Hinv Hb.
    - exists t. cbn. auto.
    - cbn [length] in Hb.
      destruct (append_hash_inv t R x Hinv ltac:(lia)) as (t1 & Ha & Hinv1 & Hn1).
      cbn [append_all]. rewrite Ha.
      destruct (IH t1 (carry 0 (PLeaf x) R) Hinv1) as (t' & Hb' & Hinv' & Hn').
      + destruct Hinv as (HR & _). rewrite carry_rval by (exact HR || exact I). lia.
      + exists t'. cbn [forest_from fold_left]. auto.
  Qed.

  Lemma empty_tree_inv : tree_inv (empty_tree_mem T) [].
  Proof. unfold tree_inv, empty_tree_mem. cbn. auto. Qed.

  Lemma forest_of_inv ls : (N.of_nat (length ls) < two32N)%N ->
    exists t, build T hc ls = Some t /\ tree_inv t (forest_of ls).
  Proof.
    intro Hb. destruct (append_all_inv ls _ [] empty_tree_inv) as (t & H1 & H2 & _); [cbn; lia|].
    exists t. auto.
  Qed.

  Definition hmax (R : forest) : nat := fold_right (fun ht m => Nat.max (fst ht) m) 0 R.
  Lemma hmax_ge : forall R h t, In (h, t) R -> h < S (hmax R).
  Proof.
    induction R as [|[h0 t0] R IH]; intros h t Hin; [destruct Hin|].
    cbn [hmax fold_right fst]. fold (hmax R). destruct Hin as [E|Hin].
    - inversion E; subst. lia.
    - pose proof (IH _ _ Hin). lia.
  Qed.

  Lemma tree_inv_root t R : tree_inv t R -> ct_root T hc hempty t = mth (mleaves R).
  Proof.
    intros (HR & _ & Hh & _).
    pose proof (rwf_rev R 0 (S (hmax R)) HR (hmax_ge R)) as HF.
    unfold ct_root. rewrite Hh, rroots_rev, mleaves_rev.
    destruct (rev R) as [|[h t0] F]; [reflexivity|].
    cbn [froots map snd]. fold (froots F).
    apply (fold_roots_mth F _ h t0 HF).
  Qed.

  (** append_root: the incrementally maintained root is the RFC-6962 tree hash of all leaves *)
  Theorem append_root ls : (N.of_nat (length ls) < two32N)%N ->
    exists t, build T hc ls = Some t /\ ct_root T hc hempty t = mth ls /\
              ct_size T t = N.of_nat (length ls).
  Proof.
    intro Hb. destruct (forest_of_inv ls Hb) as (t & Hbuild & Hinv).
    exists t. split; [exact Hbuild|]. split.
    - rewrite (tree_inv_root t _ Hinv). unfold forest_of. rewrite forest_from_leaves. reflexivity.
    - destruct Hinv as (_ & Hs & _). rewrite Hs. unfold forest_of. rewrite forest_from_rval by exact I.
      cbn. reflexivity.
  Qed.
End Tree.
