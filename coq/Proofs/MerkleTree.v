(** Proofs/MerkleTree.v — the compact tree and its hash store.

    Abstract state of a CompactMerkleTree: a forest of perfect binary trees, one per set bit of the
    tree size (the "compact range").  [R] lists it smallest tree first (the order in which
    AppendHash merges), [rev R] largest first (the order of [hashes] and of the RFC-6962 split).
    Appending is a binary increment with carry; the hash store receives the post-order of the
    perfect trees. *)
From Coq Require Import List Bool Arith NArith ZArith Lia.
Local Open Scope nat_scope.
Import ListNotations.
From Ont Require Import Model.Merkle Proofs.MerkleSpec Proofs.MerkleVerify.

Ltac Zify.zify_post_hook ::= Z.to_euclidean_division_equations.

Lemma Nodd_double_succ x : N.odd (1 + 2 * x) = true.
Proof. rewrite N.odd_add_mul_2. reflexivity. Qed.
Lemma Nodd_double x : N.odd (2 * x) = false.
Proof. replace (2 * x)%N with (0 + 2 * x)%N by lia. rewrite N.odd_add_mul_2. reflexivity. Qed.
Lemma Ndiv2_double_succ x : N.div2 (1 + 2 * x) = x.
Proof. rewrite N.div2_div. lia. Qed.
Lemma Ndiv2_double x : N.div2 (2 * x) = x.
Proof. rewrite N.div2_div. lia. Qed.

Section Tree.
  Variable T : Type.
  Variable hc : T -> T -> T.
  Variable hempty : T.

  Notation mth := (mth T hc hempty).
  Notation hash_fold1 := (hash_fold1 T hc).
  Notation append_loop := (append_loop T hc).

  Inductive ptree := PLeaf (x : T) | PNode (l r : ptree).
  Fixpoint proot (t : ptree) : T :=
    match t with PLeaf x => x | PNode l r => hc (proot l) (proot r) end.
  Fixpoint pleaves (t : ptree) : list T :=
    match t with PLeaf x => [x] | PNode l r => pleaves l ++ pleaves r end.
  (** post-order of the node hashes: what the appends write to the hash store *)
  Fixpoint ppost (t : ptree) : list T :=
    match t with PLeaf x => [x] | PNode l r => ppost l ++ ppost r ++ [hc (proot l) (proot r)] end.
  Fixpoint perfect (h : nat) (t : ptree) : Prop :=
    match h, t with
    | O, PLeaf _ => True
    | S h', PNode l r => perfect h' l /\ perfect h' r
    | _, _ => False
    end.

  Lemma perfect_leaves_len : forall h t, perfect h t -> length (pleaves t) = 2 ^ h.
  Proof.
    induction h as [|h IH]; destruct t; simpl; try tauto.
    intros [Hl Hr]. rewrite app_length, (IH _ Hl), (IH _ Hr). lia.
  Qed.

  Lemma pleaves_nonempty t : pleaves t <> [].
  Proof. induction t; simpl; [congruence|]. intro E. apply app_eq_nil in E. tauto. Qed.

  Lemma perfect_mth : forall h t, perfect h t -> mth (pleaves t) = proot t.
  Proof.
    induction h as [|h IH]; destruct t; simpl; try tauto.
    intros [Hl Hr].
    rewrite (mth_app T hc hempty h).
    - rewrite (IH _ Hl), (IH _ Hr). reflexivity.
    - apply perfect_leaves_len; assumption.
    - apply pleaves_nonempty.
    - rewrite (perfect_leaves_len _ _ Hr). lia.
  Qed.

  Lemma perfect_post_len : forall h t, perfect h t -> length (ppost t) = 2 ^ S h - 1.
  Proof.
    induction h as [|h IH]; destruct t; simpl; try tauto.
    intros [Hl Hr]. rewrite !app_length, (IH _ Hl), (IH _ Hr). simpl.
    pose proof (pow2_pos h). lia.
  Qed.

  Lemma ppost_last t : exists pre, ppost t = pre ++ [proot t].
  Proof.
    destruct t; simpl.
    - exists []. reflexivity.
    - exists (ppost t1 ++ ppost t2). rewrite app_assoc. reflexivity.
  Qed.

  (** * The forest, smallest tree first *)
  Definition forest := list (nat * ptree).

  Fixpoint rwf (lo : nat) (R : forest) : Prop :=
    match R with
    | [] => True
    | (h, t) :: R' => lo <= h /\ perfect h t /\ rwf (S h) R'
    end.
  Definition rroots (R : forest) : list T := map (fun ht => proot (snd ht)) R.
  Definition mleaves (R : forest) : list T := flat_map (fun ht => pleaves (snd ht)) (rev R).
  Definition mpost (R : forest) : list T := flat_map (fun ht => ppost (snd ht)) (rev R).
  Fixpoint rval (j : nat) (R : forest) : N :=
    match R with [] => 0%N | (h, _) :: R' => (2 ^ N.of_nat (h - j) + rval j R')%N end.

  Lemma rwf_weaken : forall R lo lo', lo' <= lo -> rwf lo R -> rwf lo' R.
  Proof. destruct R as [|[h t] R]; simpl; intros; [auto|]. intuition lia. Qed.

  Lemma rval_shift : forall R j, rwf (S j) R -> rval j R = (2 * rval (S j) R)%N.
  Proof.
    induction R as [|[h t] R IH]; intros j H; [reflexivity|].
    cbn [rval]. destruct H as (Hh & _ & HR).
    rewrite (IH j) by (eapply rwf_weaken; [|exact HR]; lia).
    replace (h - j) with (S (h - S j)) by lia.
    rewrite Nat2N.inj_succ, N.pow_succ_r'. lia.
  Qed.

  Lemma mleaves_cons h t R : mleaves ((h, t) :: R) = mleaves R ++ pleaves t.
  Proof. unfold mleaves. cbn [rev]. rewrite flat_map_app. simpl. rewrite app_nil_r. reflexivity. Qed.
  Lemma mpost_cons h t R : mpost ((h, t) :: R) = mpost R ++ ppost t.
  Proof. unfold mpost. cbn [rev]. rewrite flat_map_app. simpl. rewrite app_nil_r. reflexivity. Qed.

  Lemma rval_leaves : forall R j, rwf j R ->
    (rval j R * 2 ^ N.of_nat j)%N = N.of_nat (length (mleaves R)).
  Proof.
    induction R as [|[h t] R IH]; intros j H; [reflexivity|].
    destruct H as (Hh & Hp & HR).
    rewrite mleaves_cons, app_length, Nat2N.inj_add, (perfect_leaves_len _ _ Hp).
    cbn [rval]. rewrite <- (IH j) by (eapply rwf_weaken; [|exact HR]; lia).
    rewrite N.mul_add_distr_r, <- N.pow_add_r.
    replace (N.of_nat (h - j) + N.of_nat j)%N with (N.of_nat h) by lia.
    rewrite Nat2N.inj_pow. simpl N.of_nat. lia.
  Qed.

  (** * Binary increment with carry: what AppendHash does to the forest *)
  Fixpoint carry (j : nat) (c : ptree) (R : forest) : forest :=
    match R with
    | (h, t) :: R' => if h =? j then carry (S j) (PNode t c) R' else (j, c) :: R
    | [] => [(j, c)]
    end.
  (** the node hashes created by the carries, in creation order *)
  Fixpoint merged (j : nat) (c : ptree) (R : forest) : list T :=
    match R with
    | (h, t) :: R' => if h =? j then proot (PNode t c) :: merged (S j) (PNode t c) R' else []
    | [] => []
    end.

  Lemma carry_rwf : forall R j c, rwf j R -> perfect j c -> rwf j (carry j c R).
  Proof.
    induction R as [|[h t] R IH]; intros j c HR Hc.
    - simpl. auto.
    - cbn [carry]. destruct HR as (Hh & Hp & HR).
      destruct (Nat.eqb_spec h j) as [->|Hne].
      + eapply rwf_weaken; [|apply IH; [exact HR | simpl; auto]]. lia.
      + simpl. repeat split; auto; lia.
  Qed.

  Lemma carry_leaves : forall R j c, mleaves (carry j c R) = mleaves R ++ pleaves c.
  Proof.
    induction R as [|[h t] R IH]; intros j c.
    - cbn [carry]. rewrite mleaves_cons. reflexivity.
    - cbn [carry]. destruct (h =? j).
      + rewrite IH, mleaves_cons, <- app_assoc. reflexivity.
      + rewrite mleaves_cons. reflexivity.
  Qed.

  Lemma carry_post : forall R j c, mpost (carry j c R) = mpost R ++ ppost c ++ merged j c R.
  Proof.
    induction R as [|[h t] R IH]; intros j c.
    - cbn [carry merged]. rewrite mpost_cons, app_nil_r. reflexivity.
    - cbn [carry merged]. destruct (h =? j).
      + rewrite IH, mpost_cons. cbn [ppost proot]. rewrite <- !app_assoc. reflexivity.
      + rewrite !mpost_cons, app_nil_r. reflexivity.
  Qed.

  Lemma carry_rval : forall R j c, rwf j R -> perfect j c -> rval j (carry j c R) = (rval j R + 1)%N.
  Proof.
    induction R as [|[h t] R IH]; intros j c HR Hc.
    - cbn [carry rval]. rewrite Nat.sub_diag. reflexivity.
    - cbn [carry]. destruct HR as (Hh & Hp & HR).
      destruct (Nat.eqb_spec h j) as [->|Hne].
      + rewrite rval_shift by (apply carry_rwf; [exact HR | simpl; auto]).
        rewrite IH by (simpl; auto). cbn [rval]. rewrite Nat.sub_diag.
        rewrite (rval_shift R j HR). simpl N.of_nat. lia.
      + cbn [rval]. rewrite Nat.sub_diag. simpl N.of_nat. lia.
  Qed.

  (** the merge loop of AppendHash is the carry *)
  Lemma append_loop_carry : forall R j c st, rwf j R ->
    append_loop (rval j R) (rroots R) (proot c) st =
      match carry j c R with
      | [] => None
      | (_, c') :: R' => Some (rroots R', proot c', st ++ merged j c R)
      end.
  Proof.
    induction R as [|[h t] R IH]; intros j c st HR.
    - simpl. rewrite app_nil_r. reflexivity.
    - destruct HR as (Hh & Hp & HR). cbn [carry merged rroots map snd].
      destruct (Nat.eqb_spec h j) as [->|Hne].
      + cbn [rval Merkle.append_loop]. rewrite Nat.sub_diag.
        rewrite (rval_shift R j HR). change (2 ^ N.of_nat 0)%N with 1%N.
        rewrite Nodd_double_succ, Ndiv2_double_succ.
        change (hc (proot t) (proot c)) with (proot (PNode t c)).
        fold (rroots R). rewrite IH by exact HR.
        destruct (carry (S j) (PNode t c) R) as [|[j' c'] R'']; [reflexivity|].
        rewrite <- app_assoc. reflexivity.
      + assert (Hr : rwf (S j) ((h, t) :: R)) by (simpl; repeat split; auto; lia).
        rewrite (rval_shift _ j Hr).
        cbn [Merkle.append_loop]. rewrite Nodd_double.
        rewrite app_nil_r. reflexivity.
  Qed.

  (** * The forest, largest tree first (the RFC-6962 split order) *)
  Fixpoint fwf (b : nat) (F : forest) : Prop :=
    match F with
    | [] => True
    | (h, t) :: F' => h < b /\ perfect h t /\ fwf h F'
    end.
  Definition fleaves (F : forest) : list T := flat_map (fun ht => pleaves (snd ht)) F.
  Definition fpost (F : forest) : list T := flat_map (fun ht => ppost (snd ht)) F.
  Definition froots (F : forest) : list T := map (fun ht => proot (snd ht)) F.

  Lemma mleaves_rev R : mleaves R = fleaves (rev R). Proof. reflexivity. Qed.
  Lemma mpost_rev R : mpost R = fpost (rev R). Proof. reflexivity. Qed.
  Lemma rroots_rev R : rev (rroots R) = froots (rev R).
  Proof. unfold rroots, froots. rewrite map_rev. reflexivity. Qed.

  Lemma fwf_weaken : forall F b b', b <= b' -> fwf b F -> fwf b' F.
  Proof. destruct F as [|[h t] F]; simpl; intros; [auto|]. intuition lia. Qed.

  Lemma fwf_snoc : forall X b h t, fwf b X -> (forall h' t', In (h', t') X -> h < h') -> h < b ->
    perfect h t -> fwf b (X ++ [(h, t)]).
  Proof.
    induction X as [|[h0 t0] X IH]; intros b h t HX Hall Hb Hp.
    - simpl. auto.
    - destruct HX as (H0 & Hp0 & HX). cbn [app fwf]. repeat split; auto.
      apply IH; auto.
      + intros h' t' Hin. apply (Hall h' t'). right. exact Hin.
      + apply (Hall h0 t0). left. reflexivity.
  Qed.

  Lemma rwf_ge : forall R lo h t, rwf lo R -> In (h, t) R -> lo <= h.
  Proof.
    induction R as [|[h0 t0] R IH]; intros lo h t H Hin; [destruct Hin|].
    destruct H as (H0 & _ & HR). destruct Hin as [E|Hin].
    - inversion E; subst. exact H0.
    - pose proof (IH _ _ _ HR Hin). lia.
  Qed.

  Lemma rwf_rev : forall R lo b, rwf lo R -> (forall h t, In (h, t) R -> h < b) -> fwf b (rev R).
  Proof.
    induction R as [|[h t] R IH]; intros lo b H Hb; [simpl; auto|].
    destruct H as (H0 & Hp & HR). cbn [rev].
    apply fwf_snoc.
    - apply (IH (S h)); [exact HR|]. intros h' t' Hin. apply (Hb h' t'). right. exact Hin.
    - intros h' t' Hin. apply in_rev in Hin. pose proof (rwf_ge _ _ _ _ HR Hin). lia.
    - apply (Hb h t). left. reflexivity.
    - exact Hp.
  Qed.

  Lemma fwf_leaves_lt : forall F b, fwf b F -> length (fleaves F) < 2 ^ b.
  Proof.
    induction F as [|[h t] F IH]; intros b H.
    - simpl. apply pow2_pos.
    - destruct H as (Hb & Hp & HF). cbn [fleaves flat_map snd]. fold (fleaves F).
      rewrite app_length, (perfect_leaves_len _ _ Hp).
      pose proof (IH _ HF). pose proof (Nat.pow_le_mono_r 2 (S h) b ltac:(lia) ltac:(lia)) as Hm.
      rewrite Nat.pow_succ_r' in Hm. lia.
  Qed.

  Lemma fleaves_nonempty h t F : fleaves ((h, t) :: F) <> [].
  Proof.
    cbn [fleaves flat_map snd]. intro E. apply app_eq_nil in E. destruct E as [E _].
    exact (pleaves_nonempty _ E).
  Qed.

  (** Root(): folding the compact hashes gives the RFC tree hash of all leaves *)
  Lemma fold_roots_mth : forall F b h t, fwf b ((h, t) :: F) ->
    hash_fold1 (proot t) (froots F) = mth (fleaves ((h, t) :: F)).
  Proof.
    induction F as [|[h' t'] F IH]; intros b h t H.
    - destruct H as (_ & Hp & _). cbn. rewrite app_nil_r. symmetry. apply (perfect_mth _ _ Hp).
    - destruct H as (Hb & Hp & HF).
      cbn [froots map snd Merkle.hash_fold1]. fold (froots F).
      rewrite (IH _ _ _ HF).
      cbn [fleaves flat_map snd]. fold (fleaves F).
      change (pleaves t' ++ fleaves F) with (fleaves ((h', t') :: F)).
      rewrite (mth_app T hc hempty h).
      + rewrite (perfect_mth _ _ Hp). reflexivity.
      + apply (perfect_leaves_len _ _ Hp).
      + apply fleaves_nonempty.
      + pose proof (fwf_leaves_lt _ _ HF). lia.
  Qed.

  (** * The tree invariant *)
  Definition store_inv (st : option (hstore T)) (R : forest) : Prop :=
    match st with
    | None => True
    | Some s => hs_cur T s = length (mpost R) /\ firstn (hs_cur T s) (hs_data T s) = mpost R
    end.
  Definition tree_inv (t : ctree T) (R : forest) : Prop :=
    rwf 0 R /\ ct_size T t = rval 0 R /\ ct_hashes T t = rev (rroots R) /\ store_inv (ct_store T t) R.

  Lemma carry_nonempty : forall R j c, carry j c R <> [].
  Proof.
    induction R as [|[h t] R IH]; intros j c; cbn [carry]; [congruence|].
    destruct (h =? j); [apply IH | congruence].
  Qed.

  Lemma w32m_small x : (x < two32N)%N -> w32m x = x.
  Proof. intro H. unfold w32m. apply N.mod_small. exact H. Qed.

  Lemma firstn_app_exact (A : Type) (l1 l2 : list A) n : n = length l1 -> firstn n (l1 ++ l2) = l1.
  Proof. intros ->. rewrite firstn_app, Nat.sub_diag, firstn_all. simpl. apply app_nil_r. Qed.

  Lemma append_hash_inv t R x : tree_inv t R -> (rval 0 R + 1 < two32N)%N ->
    exists t', append_hash T hc t x = Some (t', rev (ct_hashes T t)) /\
               tree_inv t' (carry 0 (PLeaf x) R) /\
               (ct_store T t = None -> ct_store T t' = None).
  Proof.
    intros (HR & Hs & Hh & Hst) Hb.
    unfold append_hash. rewrite Hs, Hh, rev_involutive.
    change x with (proot (PLeaf x)) at 1.
    rewrite (append_loop_carry R 0 (PLeaf x) [x] HR).
    pose proof (carry_nonempty R 0 (PLeaf x)) as Hne.
    pose proof (carry_rwf R 0 (PLeaf x) HR I) as Hwf.
    pose proof (carry_rval R 0 (PLeaf x) HR I) as Hval.
    pose proof (carry_post R 0 (PLeaf x)) as Hpost.
    destruct (carry 0 (PLeaf x) R) as [|[j' c'] R'] eqn:Ec; [congruence|].
    eexists. split; [reflexivity|]. split; [|intro E; cbn; rewrite E; reflexivity].
    unfold tree_inv. cbn [ct_size ct_hashes ct_store].
    split; [exact Hwf|]. split; [rewrite Hval; apply w32m_small; lia|].
    split.
    - cbn [rroots map snd rev]. reflexivity.
    - destruct (ct_store T t) as [s|]; [|exact I].
      destruct Hst as [Hc Hf]. unfold store_inv, hs_append. cbn [hs_cur hs_data].
      set (st := [x] ++ merged 0 (PLeaf x) R) in *.
      assert (Hpost' : mpost ((j', c') :: R') = mpost R ++ st) by (rewrite Hpost; reflexivity).
      rewrite Hpost'. split.
      + rewrite app_length. lia.
      + rewrite Hf, app_assoc. apply firstn_app_exact. rewrite app_length. lia.
  Qed.

  (** the forest after appending a list of leaves *)
  Definition forest_from (R : forest) (ls : list T) : forest :=
    fold_left (fun R x => carry 0 (PLeaf x) R) ls R.
  Definition forest_of (ls : list T) : forest := forest_from [] ls.

  Lemma forest_from_cons R x ls : forest_from R (x :: ls) = forest_from (carry 0 (PLeaf x) R) ls.
  Proof. reflexivity. Qed.
  Lemma forest_from_rwf : forall ls R, rwf 0 R -> rwf 0 (forest_from R ls).
  Proof.
    induction ls as [|x ls IH]; intros R H; [exact H|]. rewrite forest_from_cons.
    apply IH. apply carry_rwf; [exact H|exact I].
  Qed.
  Lemma forest_from_leaves : forall ls R, mleaves (forest_from R ls) = mleaves R ++ ls.
  Proof.
    induction ls as [|x ls IH]; intros R; [cbn; rewrite app_nil_r; reflexivity|].
    rewrite forest_from_cons, IH, carry_leaves, <- app_assoc. reflexivity.
  Qed.
  Lemma forest_from_rval : forall ls R, rwf 0 R ->
    rval 0 (forest_from R ls) = (rval 0 R + N.of_nat (length ls))%N.
  Proof.
    induction ls as [|x ls IH]; intros R H; [cbn [forest_from fold_left length]; lia|].
    rewrite forest_from_cons.
    rewrite IH by (apply carry_rwf; [exact H|exact I]).
    rewrite carry_rval by (exact H || exact I). cbn [length]. lia.
  Qed.
  Lemma forest_from_post : forall ls R, exists more, mpost (forest_from R ls) = mpost R ++ more.
  Proof.
    induction ls as [|x ls IH]; intros R.
    - exists []. rewrite app_nil_r. reflexivity.
    - rewrite forest_from_cons.
      destruct (IH (carry 0 (PLeaf x) R)) as [more Hm]. rewrite carry_post in Hm.
      eexists. rewrite Hm, <- app_assoc. reflexivity.
  Qed.
  Lemma forest_from_app R l1 l2 : forest_from R (l1 ++ l2) = forest_from (forest_from R l1) l2.
  Proof. unfold forest_from. apply fold_left_app. Qed.

  Lemma append_all_inv : forall ls t R, tree_inv t R ->
    (rval 0 R + N.of_nat (length ls) < two32N)%N ->
    exists t', append_all T hc t ls = Some t' /\ tree_inv t' (forest_from R ls) /\
               (ct_store T t = None -> ct_store T t' = None).
  Proof.
    induction ls as [|x ls IH]; intros t R Hinv Hb.
    - exists t. cbn. auto.
    - cbn [length] in Hb.
      destruct (append_hash_inv t R x Hinv ltac:(lia)) as (t1 & Ha & Hinv1 & Hn1).
      cbn [append_all]. rewrite Ha.
      destruct (IH t1 (carry 0 (PLeaf x) R) Hinv1) as (t' & Hb' & Hinv' & Hn').
      + destruct Hinv as (HR & _). rewrite carry_rval by (exact HR || exact I). lia.
      + exists t'. rewrite forest_from_cons. auto.
  Qed.

  Lemma empty_tree_inv : tree_inv (empty_tree_mem T) [].
  Proof. unfold tree_inv, empty_tree_mem. cbn. auto. Qed.

  Lemma forest_of_inv ls : (N.of_nat (length ls) < two32N)%N ->
    exists t, build T hc ls = Some t /\ tree_inv t (forest_of ls).
  Proof.
    intro Hb. destruct (append_all_inv ls _ [] empty_tree_inv) as (t & H1 & H2 & _); [cbn; lia|].
    exists t. auto.
  Qed.

  Definition hmax (R : forest) : nat := fold_right (fun ht m => Nat.max (fst ht) m) 0 R.
  Lemma hmax_ge : forall R h t, In (h, t) R -> h < S (hmax R).
  Proof.
    induction R as [|[h0 t0] R IH]; intros h t Hin; [destruct Hin|].
    cbn [hmax fold_right fst]. fold (hmax R). destruct Hin as [E|Hin].
    - inversion E; subst. lia.
    - pose proof (IH _ _ Hin). lia.
  Qed.

  Lemma tree_inv_root t R : tree_inv t R -> ct_root T hc hempty t = mth (mleaves R).
  Proof.
    intros (HR & _ & Hh & _).
    pose proof (rwf_rev R 0 (S (hmax R)) HR (hmax_ge R)) as HF.
    unfold ct_root. rewrite Hh, rroots_rev, mleaves_rev.
    destruct (rev R) as [|[h t0] F]; [reflexivity|].
    cbn [froots map snd]. fold (froots F).
    apply (fold_roots_mth F _ h t0 HF).
  Qed.

  (** append_root: the incrementally maintained root is the RFC-6962 tree hash of all leaves *)
  Theorem append_root ls : (N.of_nat (length ls) < two32N)%N ->
    exists t, build T hc ls = Some t /\ ct_root T hc hempty t = mth ls /\
              ct_size T t = N.of_nat (length ls).
  Proof.
    intro Hb. destruct (forest_of_inv ls Hb) as (t & Hbuild & Hinv).
    exists t. split; [exact Hbuild|]. split.
    - rewrite (tree_inv_root t _ Hinv). unfold forest_of. rewrite forest_from_leaves. reflexivity.
    - destruct Hinv as (_ & Hs & _). rewrite Hs. unfold forest_of. rewrite forest_from_rval by exact I.
      cbn. reflexivity.
  Qed.

  (** * Store positions: getSubTreeSize / getSubTreePos *)
  Definition szN (ht : nat * ptree) : N := (2 ^ N.of_nat (S (fst ht)) - 1)%N.

  Lemma pow2N_pos x : (0 < 2 ^ x)%N.
  Proof. apply N.neq_0_lt_0. apply N.pow_nonzero. discriminate. Qed.

  Lemma rval_zero R j : rval j R = 0%N -> R = [].
  Proof.
    destruct R as [|[h t] R]; [reflexivity|]. cbn [rval].
    pose proof (pow2N_pos (N.of_nat (h - j))). lia.
  Qed.

  Lemma sub32_small x y : (y <= x)%N -> (x < two32N)%N -> sub32 x y = (x - y)%N.
  Proof. unfold sub32, w32m, two32N. intros. lia. Qed.

  Lemma pow2N_le a b : a <= b -> (2 ^ N.of_nat a <= 2 ^ N.of_nat b)%N.
  Proof. intro H. apply N.pow_le_mono_r; lia. Qed.

  Lemma sizes_loop_forest : forall f R j acc, rwf j R -> N.size_nat (rval j R) = f -> j + f <= 31 ->
    sizes_loop f (rval j R) (2 ^ N.of_nat j) acc = rev (map szN R) ++ acc.
  Proof.
    induction f as [|f IH]; intros R j acc HR Hf Hb.
    - apply size_nat_0 in Hf. apply rval_zero in Hf. subst R. reflexivity.
    - pose proof (size_nat_S _ _ Hf) as [Hnz Hf'].
      cbn [sizes_loop].
      assert (Hid : w32m (2 ^ N.of_nat j * 2) = (2 ^ N.of_nat (S j))%N).
      { rewrite Nat2N.inj_succ, N.pow_succ_r', N.mul_comm. apply w32m_small.
        pose proof (pow2N_le (S j) 31 ltac:(lia)) as Hle.
        rewrite Nat2N.inj_succ, N.pow_succ_r' in Hle. change (2 ^ N.of_nat 31)%N with 2147483648%N in Hle.
        unfold two32N. lia. }
      rewrite Hid.
      destruct R as [|[h t] R]; [cbn in Hnz; congruence|].
      destruct HR as (Hh & Hp & HR).
      destruct (Nat.eq_dec h j) as [->|Hne].
      + cbn [rval] in *. rewrite Nat.sub_diag in *. change (2 ^ N.of_nat 0)%N with 1%N in *.
        rewrite (rval_shift R j HR) in *.
        rewrite Nodd_double_succ. rewrite Ndiv2_double_succ in *.
        rewrite (IH R (S j)) by (assumption || lia).
        cbn [map rev]. rewrite <- app_assoc. cbn [app]. f_equal. f_equal.
        unfold szN. cbn [fst]. apply sub32_small.
        * pose proof (pow2N_pos (N.of_nat (S j))). lia.
        * pose proof (pow2N_le (S j) 31 ltac:(lia)) as Hle.
          change (2 ^ N.of_nat 31)%N with 2147483648%N in Hle. unfold two32N. lia.
      + assert (Hr : rwf (S j) ((h, t) :: R)) by (simpl; repeat split; auto; lia).
        rewrite (rval_shift _ j Hr) in *.
        rewrite Nodd_double. rewrite Ndiv2_double in *.
        apply (IH _ (S j)); assumption || lia.
  Qed.

  Lemma size_nat_lower : forall f n, N.size_nat n = S f -> (2 ^ N.of_nat f <= n)%N.
  Proof.
    induction f as [|f IH]; intros n H.
    - destruct n; [discriminate|]. simpl. lia.
    - apply size_nat_S in H. destruct H as [H0 H1]. apply IH in H1.
      rewrite Nat2N.inj_succ, N.pow_succ_r'. rewrite N.div2_div in H1. lia.
  Qed.

  Lemma size_nat_le31 n : (n < 2147483648)%N -> N.size_nat n <= 31.
  Proof.
    intro H. destruct (N.size_nat n) as [|f] eqn:E; [lia|].
    apply size_nat_lower in E.
    destruct (le_lt_dec (S f) 31) as [|Hgt]; [assumption|].
    pose proof (pow2N_le 31 f ltac:(lia)) as Hle.
    change (2 ^ N.of_nat 31)%N with 2147483648%N in Hle. lia.
  Qed.

  Lemma get_sub_tree_size_forest R : rwf 0 R -> (rval 0 R < 2147483648)%N ->
    get_sub_tree_size (rval 0 R) = map szN (rev R).
  Proof.
    intros HR Hb. unfold get_sub_tree_size.
    change 1%N with (2 ^ N.of_nat 0)%N.
    rewrite (sizes_loop_forest _ R 0 [] HR eq_refl) by (pose proof (size_nat_le31 _ Hb); lia).
    rewrite app_nil_r, map_rev. reflexivity.
  Qed.

  (** ideal running sums *)
  Fixpoint psums (a : N) (l : list N) : list N :=
    match l with [] => [] | x :: r => (a + x)%N :: psums (a + x)%N r end.
  Definition sumN (l : list N) : N := fold_right N.add 0%N l.

  Lemma prefix_sums_nowrap : forall l a, (a + sumN l < two32N)%N -> prefix_sums a l = psums a l.
  Proof.
    induction l as [|x l IH]; intros a H; [reflexivity|].
    cbn [sumN fold_right] in H. fold (sumN l) in H.
    cbn [prefix_sums psums]. rewrite w32m_small by lia.
    f_equal. apply IH. lia.
  Qed.

  Lemma szN_post h t : perfect h t -> szN (h, t) = N.of_nat (length (ppost t)).
  Proof.
    intro Hp. rewrite (perfect_post_len _ _ Hp). unfold szN. cbn [fst].
    pose proof (pow2_pos (S h)).
    rewrite Nat2N.inj_sub, Nat2N.inj_pow. reflexivity.
  Qed.

  Lemma sumN_post : forall F b, fwf b F -> sumN (map szN F) = N.of_nat (length (fpost F)).
  Proof.
    induction F as [|[h t] F IH]; intros b H; [reflexivity|].
    destruct H as (_ & Hp & HF).
    cbn [map sumN fold_right fpost flat_map snd]. fold (sumN (map szN F)). fold (fpost F).
    rewrite (IH _ HF), (szN_post _ _ Hp), app_length. lia.
  Qed.

  (** reading the roots of a forest laid out in the store at [pre0 ++ done] *)
  Lemma read_all_forest : forall F b s pre0 done post,
    fwf b F -> hs_data T s = pre0 ++ done ++ fpost F ++ post ->
    (N.of_nat (length pre0 + length done + length (fpost F)) < two32N)%N ->
    read_all T s (N.of_nat (length pre0)) (psums (N.of_nat (length done)) (map szN F)) = Some (froots F).
  Proof.
    induction F as [|[h t] F IH]; intros b s pre0 done post HF Hd Hb; [reflexivity|].
    destruct HF as (_ & Hp & HF).
    cbn [map psums read_all froots snd]. fold (froots F).
    cbn [fpost flat_map snd] in Hd, Hb. fold (fpost F) in Hd, Hb.
    rewrite app_length in Hb.
    rewrite (szN_post _ _ Hp).
    destruct (ppost_last t) as [pt Hpt].
    assert (Hlen : length (ppost t) = S (length pt)) by (rewrite Hpt, app_length; simpl; lia).
    assert (Hget : hs_get T s (sub32 (w32m (N.of_nat (length done) + N.of_nat (length (ppost t)) + N.of_nat (length pre0))) 1)
                   = Some (proot t)).
    { rewrite w32m_small by lia. rewrite sub32_small by lia.
      unfold hs_get. rewrite Hd, Hpt.
      replace (N.to_nat (N.of_nat (length done) + N.of_nat (length (pt ++ [proot t])) + N.of_nat (length pre0) - 1))
        with (length (pre0 ++ done ++ pt)) by (rewrite !app_length; simpl; lia).
      replace (pre0 ++ done ++ ((pt ++ [proot t]) ++ fpost F) ++ post)
        with ((pre0 ++ done ++ pt) ++ proot t :: fpost F ++ post) by (rewrite <- !app_assoc; reflexivity).
      rewrite nth_error_app2 by lia. rewrite Nat.sub_diag. reflexivity. }
    rewrite Hget.
    replace (N.of_nat (length done) + N.of_nat (length (ppost t)))%N
      with (N.of_nat (length (done ++ ppost t))) by (rewrite app_length; lia).
    rewrite (IH _ s pre0 (done ++ ppost t) post HF).
    - reflexivity.
    - rewrite Hd, <- !app_assoc. reflexivity.
    - rewrite app_length. lia.
  Qed.

  (** * From the largest-first view back to the smallest-first one *)
  Lemma rwf_snoc : forall X lo h t, rwf lo X -> (forall h' t', In (h', t') X -> h' < h) -> lo <= h ->
    perfect h t -> rwf lo (X ++ [(h, t)]).
  Proof.
    induction X as [|[h0 t0] X IH]; intros lo h t HX Hall Hlo Hp.
    - simpl. auto.
    - destruct HX as (H0 & Hp0 & HX). cbn [app rwf]. repeat split; auto.
      assert (h0 < h) by (apply (Hall h0 t0); left; reflexivity).
      apply IH; auto; try lia.
      intros h' t' Hin. apply (Hall h' t'). right. exact Hin.
  Qed.

  Lemma fwf_lt : forall F b h t, fwf b F -> In (h, t) F -> h < b.
  Proof.
    induction F as [|[h0 t0] F IH]; intros b h t H Hin; [destruct Hin|].
    destruct H as (H0 & _ & HF). destruct Hin as [E|Hin].
    - inversion E; subst. exact H0.
    - pose proof (IH _ _ _ HF Hin). lia.
  Qed.

  Lemma fwf_rev : forall F b, fwf b F -> rwf 0 (rev F).
  Proof.
    induction F as [|[h t] F IH]; intros b H; [simpl; auto|].
    destruct H as (H0 & Hp & HF). cbn [rev].
    apply rwf_snoc; [apply (IH _ HF) | | lia | exact Hp].
    intros h' t' Hin. apply in_rev in Hin. apply (fwf_lt _ _ _ _ HF Hin).
  Qed.

  Lemma fwf_rval F b : fwf b F -> rval 0 (rev F) = N.of_nat (length (fleaves F)).
  Proof.
    intro H. pose proof (rval_leaves (rev F) 0 (fwf_rev _ _ H)) as E.
    rewrite mleaves_rev, rev_involutive in E. simpl N.of_nat in E. rewrite N.pow_0_r, N.mul_1_r in E. exact E.
  Qed.

  Lemma post_le_leaves : forall F b, fwf b F -> length (fpost F) <= 2 * length (fleaves F).
  Proof.
    induction F as [|[h t] F IH]; intros b H; [simpl; lia|].
    destruct H as (_ & Hp & HF).
    cbn [fpost fleaves flat_map snd]. fold (fpost F). fold (fleaves F).
    rewrite !app_length, (perfect_post_len _ _ Hp), (perfect_leaves_len _ _ Hp).
    pose proof (IH _ HF). rewrite Nat.pow_succ_r'. lia.
  Qed.

  Lemma get_sub_tree_pos_fwf F b : fwf b F -> (N.of_nat (length (fleaves F)) < 2147483648)%N ->
    get_sub_tree_pos (N.of_nat (length (fleaves F))) = psums 0 (map szN F).
  Proof.
    intros H Hb. unfold get_sub_tree_pos.
    rewrite <- (fwf_rval F b H).
    rewrite get_sub_tree_size_forest by (try apply (fwf_rev _ _ H); rewrite (fwf_rval F b H); exact Hb).
    rewrite rev_involutive.
    apply prefix_sums_nowrap. rewrite (sumN_post _ _ H).
    pose proof (post_le_leaves _ _ H). unfold two32N. lia.
  Qed.

  (** subhashes + _hash_fold over a forest laid out at [pre] = the RFC hash of its leaves *)
  Lemma fold_at_fwf F b s pre post : fwf b F -> F <> [] ->
    hs_data T s = pre ++ fpost F ++ post ->
    (N.of_nat (length pre + length (fpost F)) < two32N)%N ->
    (N.of_nat (length (fleaves F)) < 2147483648)%N ->
    fold_at T hc s (N.of_nat (length pre)) (get_sub_tree_pos (N.of_nat (length (fleaves F)))) = inr (mth (fleaves F)).
  Proof.
    intros H Hne Hd Hb Hn. unfold fold_at.
    rewrite (get_sub_tree_pos_fwf F b H Hn).
    pose proof (read_all_forest F b s pre [] post H Hd) as Hr.
    cbn [length] in Hr. change (N.of_nat 0) with 0%N in Hr. rewrite Hr by lia.
    destruct F as [|[h t] F]; [congruence|].
    cbn [froots map snd hash_fold]. fold (froots F).
    rewrite (fold_roots_mth F b h t H). reflexivity.
  Qed.

  (** * One step of the RFC-6962 split on a forest *)
  Definition fmeasure (G : forest) : nat :=
    match G with [] => 0 | [(h, _)] => h | (h, _) :: _ => S h end.

  Lemma forest_split G b : fwf b G -> 2 <= length (fleaves G) ->
    exists hl tl Gr tail,
      perfect hl tl /\ fwf (S hl) Gr /\ Gr <> [] /\
      fleaves G = pleaves tl ++ fleaves Gr /\ length (fleaves Gr) <= 2 ^ hl /\
      fpost G = ppost tl ++ fpost Gr ++ tail /\
      hl < fmeasure G /\ fmeasure Gr < fmeasure G.
  Proof.
    intros H Hn. destruct G as [|[h t] G']; [simpl in Hn; lia|].
    destruct H as (Hb & Hp & HG').
    destruct G' as [|[h2 t2] G''].
    - (* a single perfect tree with at least two leaves *)
      cbn [fleaves flat_map snd] in Hn. rewrite app_nil_r in Hn.
      destruct h as [|h']; destruct t as [x|l r]; cbn in Hp; try tauto.
      { simpl in Hn. lia. }
      destruct Hp as [Hl Hr].
      exists h', l, [(h', r)], [hc (proot l) (proot r)].
      repeat split; auto; try congruence.
      + cbn. rewrite !app_nil_r. reflexivity.
      + cbn. rewrite app_nil_r, (perfect_leaves_len _ _ Hr). lia.
      + cbn. rewrite !app_nil_r. reflexivity.
    - exists h, t, ((h2, t2) :: G''), [].
      pose proof (fwf_leaves_lt _ _ HG').
      split; [exact Hp|].
      split; [eapply fwf_weaken; [|exact HG']; lia|].
      split; [congruence|].
      split; [reflexivity|].
      split; [lia|].
      split; [cbn [fpost flat_map snd]; rewrite app_nil_r; reflexivity|].
      split; [cbn; lia|].
      destruct HG' as (Hh2 & _). cbn [fmeasure]. destruct G''; lia.
  Qed.

  Lemma split32_spec K hl n' : K = 2 ^ hl -> 0 < n' -> n' <= K -> (N.of_nat (K + n') < two32N)%N ->
    split32 (N.of_nat (K + n')) = N.of_nat K.
  Proof.
    intros HK H0 H1 Hb. unfold split32, highBit.
    rewrite sub32_small by (unfold two32N in *; lia).
    set (x := (N.of_nat (K + n') - 1)%N).
    assert (HKN : N.of_nat K = (2 ^ N.of_nat hl)%N) by (rewrite HK, Nat2N.inj_pow; reflexivity).
    assert (Hx0 : x <> 0%N) by (pose proof (pow2_pos hl); subst x; lia).
    rewrite (N.size_log2 x Hx0).
    assert (Hlog : N.log2 x = N.of_nat hl).
    { apply N.log2_unique; [lia|]. rewrite N.pow_succ_r', <- HKN. subst x. lia. }
    rewrite Hlog.
    destruct (N.eqb_spec (N.succ (N.of_nat hl)) 0); [lia|].
    replace (N.succ (N.of_nat hl) - 1)%N with (N.of_nat hl) by lia.
    symmetry. exact HKN.
  Qed.

  (** * InclusionProof reads the RFC-6962 audit path out of the store *)
  Lemma incl_loop_S f s offset m n acc :
    incl_loop T hc (S f) s offset m n acc =
      if (n =? 1)%N then inr acc else
      let k := split32 n in
      if (m <? k)%N then
        match fold_at T hc s (w32m (offset + k * 2 + two32N - 1)) (get_sub_tree_pos (sub32 n k)) with
        | inl e => inl e
        | inr rootk2n => incl_loop T hc f s offset m k (rootk2n :: acc)
        end
      else
        let offset' := w32m (offset + k * 2 + two32N - 1) in
        match hs_get T s (sub32 offset' 1) with
        | None => inl GStoreRead
        | Some root02k => incl_loop T hc f s offset' (sub32 m k) (sub32 n k) (root02k :: acc)
        end.
  Proof. reflexivity. Qed.

  Lemma incl_loop_one f s offset m acc : incl_loop T hc f s offset m 1 acc = inr acc.
  Proof. destruct f; reflexivity. Qed.

  Lemma incl_loop_forest : forall f G b s pre post m acc,
    fwf b G -> G <> [] -> hs_data T s = pre ++ fpost G ++ post ->
    (N.of_nat (length pre + length (fpost G)) < two32N)%N ->
    (N.of_nat (length (fleaves G)) < 2147483648)%N ->
    m < length (fleaves G) -> fmeasure G <= f ->
    incl_loop T hc f s (N.of_nat (length pre)) (N.of_nat m) (N.of_nat (length (fleaves G))) acc
      = inr (rfc_path T hc hempty m (fleaves G) ++ acc).
  Proof.
    induction f as [|f IH]; intros G b s pre post m acc HG Hne Hd Hb Hn Hm Hf;
      (destruct (le_lt_dec (length (fleaves G)) 1) as [H1|H2];
       [ replace (length (fleaves G)) with 1 by lia;
         rewrite (rfc_path_small T hc hempty m (fleaves G) H1); apply incl_loop_one | ]).
    - destruct (forest_split G b HG H2) as (hl & tl & Gr & tail & _ & _ & _ & _ & _ & _ & Hlt & _). lia.
    - destruct (forest_split G b HG H2) as (hl & tl & Gr & tail & Hp & HGr & HGrne & Hlv & Hle & Hpost & Hm1 & Hm2).
      pose proof (perfect_leaves_len _ _ Hp) as HlenL.
      pose proof (perfect_post_len _ _ Hp) as HlenP. rewrite Nat.pow_succ_r' in HlenP.
      remember (2 ^ hl) as K eqn:HK.
      assert (HK1 : 1 <= K) by (rewrite HK; apply pow2_pos).
      assert (Hn' : 0 < length (fleaves Gr)).
      { destruct Gr as [|[h0 t0] Gr0]; [congruence|].
        pose proof (fleaves_nonempty h0 t0 Gr0). destruct (fleaves ((h0, t0) :: Gr0)); simpl; [congruence|lia]. }
      rewrite Hpost in Hd, Hb. rewrite !app_length in Hb.
      rewrite Hlv in *. rewrite app_length, HlenL in *.
      rewrite incl_loop_S.
      destruct (N.eqb_spec (N.of_nat (K + length (fleaves Gr))) 1) as [E|_]; [lia|].
      cbv zeta.
      rewrite (split32_spec K hl (length (fleaves Gr)) HK Hn' Hle) by (unfold two32N; lia).
      rewrite Nltb_of_nat.
      assert (Hbase : w32m (N.of_nat (length pre) + N.of_nat K * 2 + two32N - 1) = N.of_nat (length (pre ++ ppost tl))).
      { rewrite app_length. unfold w32m, two32N in *. lia. }
      assert (Hsub : sub32 (N.of_nat (K + length (fleaves Gr))) (N.of_nat K) = N.of_nat (length (fleaves Gr))).
      { rewrite sub32_small by (unfold two32N; lia). lia. }
      rewrite Hbase, Hsub.
      assert (Hd2 : hs_data T s = (pre ++ ppost tl) ++ fpost Gr ++ (tail ++ post)).
      { rewrite Hd, <- !app_assoc. reflexivity. }
      destruct (Nat.ltb_spec m K) as [Hl|Hr].
      + rewrite (fold_at_fwf Gr (S hl) s (pre ++ ppost tl) (tail ++ post) HGr HGrne Hd2)
          by (rewrite ?app_length; unfold two32N in *; lia).
        assert (HdL : hs_data T s = pre ++ fpost [(hl, tl)] ++ (fpost Gr ++ tail ++ post)).
        { rewrite Hd. cbn [fpost flat_map snd]. rewrite app_nil_r, <- !app_assoc. reflexivity. }
        assert (HlvL : length (fleaves [(hl, tl)]) = K).
        { cbn [fleaves flat_map snd]. rewrite app_nil_r. exact HlenL. }
        rewrite <- HlvL.
        rewrite (IH [(hl, tl)] (S hl) s pre _ m _ ltac:(simpl; auto) ltac:(congruence) HdL).
        * rewrite (rfc_path_app T hc hempty hl) by (try rewrite <- HK; assumption || lia || (destruct (fleaves Gr); simpl in *; [lia|congruence])).
          rewrite <- HK. destruct (Nat.ltb_spec m K); [|lia].
          cbn [fleaves flat_map snd]. rewrite app_nil_r, <- app_assoc. reflexivity.
        * cbn [fpost flat_map snd]. rewrite app_nil_r. unfold two32N in *. lia.
        * rewrite HlvL. lia.
        * rewrite HlvL. lia.
        * cbn [fmeasure]. lia.
      + destruct (ppost_last tl) as [pt Hpt].
        assert (Hget : hs_get T s (sub32 (N.of_nat (length (pre ++ ppost tl))) 1) = Some (proot tl)).
        { rewrite sub32_small by (rewrite app_length; unfold two32N in *; lia).
          unfold hs_get. rewrite Hd, Hpt.
          replace (N.to_nat (N.of_nat (length (pre ++ pt ++ [proot tl])) - 1)) with (length (pre ++ pt))
            by (rewrite !app_length; simpl; lia).
          rewrite <- !app_assoc. rewrite (app_assoc pre pt).
          rewrite nth_error_app2 by lia. rewrite Nat.sub_diag. reflexivity. }
        rewrite Hget.
        assert (Hsubm : sub32 (N.of_nat m) (N.of_nat K) = N.of_nat (m - K)).
        { rewrite sub32_small by (unfold two32N; lia). lia. }
        rewrite Hsubm.
        rewrite (IH Gr (S hl) s (pre ++ ppost tl) (tail ++ post) (m - K) _ HGr HGrne Hd2)
          by (rewrite ?app_length; unfold two32N in *; lia).
        rewrite (rfc_path_app T hc hempty hl) by (try rewrite <- HK; assumption || lia || (destruct (fleaves Gr); simpl in *; [lia|congruence])).
        rewrite <- HK. destruct (Nat.ltb_spec m K); [lia|].
        rewrite (perfect_mth _ _ Hp), <- app_assoc. reflexivity.
  Qed.

  (** the forest of a prefix, and where it sits in the store of the longer tree *)
  Lemma forest_of_rwf ls : rwf 0 (forest_of ls).
  Proof. apply forest_from_rwf. exact I. Qed.
  Lemma forest_of_leaves ls : mleaves (forest_of ls) = ls.
  Proof. unfold forest_of. rewrite forest_from_leaves. reflexivity. Qed.
  Lemma forest_of_rval ls : rval 0 (forest_of ls) = N.of_nat (length ls).
  Proof. unfold forest_of. rewrite forest_from_rval by exact I. reflexivity. Qed.
  Lemma forest_of_prefix ls k : exists more, mpost (forest_of ls) = mpost (forest_of (firstn k ls)) ++ more.
  Proof.
    assert (E : forest_of ls = forest_from (forest_of (firstn k ls)) (skipn k ls)).
    { unfold forest_of. rewrite <- forest_from_app, firstn_skipn. reflexivity. }
    rewrite E. apply forest_from_post.
  Qed.

  Definition fview (ls : list T) : forest := rev (forest_of ls).
  Lemma fview_fwf ls : fwf (S (hmax (forest_of ls))) (fview ls).
  Proof. apply (rwf_rev _ 0); [apply forest_of_rwf | apply hmax_ge]. Qed.
  Lemma fview_leaves ls : fleaves (fview ls) = ls.
  Proof. unfold fview. rewrite <- mleaves_rev. apply forest_of_leaves. Qed.
  Lemma fview_post ls : fpost (fview ls) = mpost (forest_of ls).
  Proof. reflexivity. Qed.
  Lemma fview_nonempty ls : ls <> [] -> fview ls <> [].
  Proof. intros H E. apply H. rewrite <- (fview_leaves ls), E. reflexivity. Qed.

  Lemma fmeasure_fuel G b : fwf b G -> G <> [] ->
    fmeasure G <= N.size_nat (N.of_nat (length (fleaves G) - 1)).
  Proof.
    intros HG Hne.
    pose proof (size_nat_bound _ (length (fleaves G) - 1) eq_refl) as Hb.
    set (f := N.size_nat (N.of_nat (length (fleaves G) - 1))) in *.
    destruct G as [|[h t] G']; [congruence|]. destruct HG as (_ & Hp & HG').
    cbn [fleaves flat_map snd] in Hb. fold (fleaves G') in Hb.
    rewrite app_length, (perfect_leaves_len _ _ Hp) in Hb.
    assert (Hhf : h <= f).
    { destruct (le_lt_dec h f); [assumption|].
      pose proof (Nat.pow_le_mono_r 2 (S f) h ltac:(lia) ltac:(lia)) as Hp2.
      rewrite Nat.pow_succ_r' in Hp2. pose proof (pow2_pos f). lia. }
    destruct G' as [|[h2 t2] G'']; cbn [fmeasure]; [exact Hhf|].
    destruct (Nat.eq_dec h f) as [Ehf|]; [|lia].
    pose proof (fleaves_nonempty h2 t2 G'') as Hn2.
    destruct (fleaves ((h2, t2) :: G'')); [congruence|]. cbn [length] in Hb. rewrite Ehf in Hb. lia.
  Qed.

  (** the tree built from [ls] (or any tree in the same state, e.g. a reloaded one) *)
  Definition tree_of (t : ctree T) (ls : list T) : Prop := tree_inv t (forest_of ls).

  Theorem inclusion_proof_rfc t ls m k : tree_of t ls -> ct_store T t <> None ->
    (N.of_nat (length ls) < 2147483648)%N -> m < k -> k <= length ls ->
    inclusion_proof T hc t (N.of_nat m) (N.of_nat k) = inr (rfc_path T hc hempty m (firstn k ls)).
  Proof.
    intros (HR & Hs & Hh & Hst) Hsome Hb Hm Hk.
    unfold inclusion_proof. rewrite Hs, forest_of_rval.
    destruct (N.leb_spec (N.of_nat k) (N.of_nat m)); [lia|].
    destruct (N.ltb_spec (N.of_nat (length ls)) (N.of_nat k)); [lia|].
    destruct (ct_store T t) as [s|]; [|congruence].
    destruct Hst as [Hc Hf].
    destruct (forest_of_prefix ls k) as [more Hmore].
    set (lk := firstn k ls) in *.
    assert (Hlk : length lk = k) by (subst lk; rewrite firstn_length; lia).
    assert (Hd : hs_data T s = [] ++ fpost (fview lk) ++ (more ++ skipn (hs_cur T s) (hs_data T s))).
    { rewrite <- (firstn_skipn (hs_cur T s) (hs_data T s)) at 1. rewrite Hf, Hmore, fview_post, <- app_assoc. reflexivity. }
    assert (Hne : fview lk <> []) by (apply fview_nonempty; destruct lk; simpl in *; [lia|congruence]).
    pose proof (fview_fwf lk) as HF.
    pose proof (post_le_leaves _ _ HF) as Hpl. rewrite fview_leaves, Hlk in Hpl.
    pose proof (incl_loop_forest (N.size_nat (N.of_nat k - 1)) (fview lk) _ s [] _ m [] HF Hne Hd) as HL.
    rewrite fview_leaves, Hlk in HL. cbn [length] in HL. change (N.of_nat 0) with 0%N in HL.
    rewrite app_nil_r in HL. apply HL.
    - unfold two32N. lia.
    - lia.
    - lia.
    - pose proof (fmeasure_fuel _ _ HF Hne) as Hfu. rewrite fview_leaves, Hlk in Hfu.
      replace (N.of_nat k - 1)%N with (N.of_nat (k - 1)) by lia. exact Hfu.
  Qed.

  (** * ConsistencyProof / subproof reads RFC-6962 SUBPROOF out of the store *)
  Notation sub := (sub T hc hempty).

  Definition sp_finish (s : hstore T) (r : N * N * bool * list T) : gerr + list T :=
    let '(offset, n', b', acc) := r in
    if b' then inr acc else
    match get_sub_tree_pos n' with
    | [p] => match hs_get T s (sub32 (w32m (p + offset)) 1) with
             | None => inl GStoreRead
             | Some h => inr (h :: acc)
             end
    | _ => inl GAssert
    end.
  Definition sp_run f s offset m n b acc : gerr + list T :=
    match subproof_loop T hc f s offset m n b acc with
    | inl e => inl e
    | inr r => sp_finish s r
    end.

  Lemma subproof_eq s m n b :
    subproof T hc s m n b = sp_run (S (N.size_nat (n - 1))) s 0%N m n b [].
  Proof.
    unfold subproof, sp_run.
    destruct (subproof_loop T hc _ s 0%N m n b []) as [e|[[[o n'] b'] acc]]; reflexivity.
  Qed.

  Lemma sp_run_done f s offset m n b acc : (m <? n)%N = false ->
    sp_run f s offset m n b acc = sp_finish s (offset, n, b, acc).
  Proof. intro H. unfold sp_run. destruct f; cbn [subproof_loop]; rewrite H; reflexivity. Qed.

  Lemma sp_run_step f s offset m n b acc : (m <? n)%N = true ->
    sp_run (S f) s offset m n b acc =
      let k := split32 n in
      if (m <=? k)%N then
        match fold_at T hc s (w32m (offset + k * 2 + two32N - 1)) (get_sub_tree_pos (sub32 n k)) with
        | inl e => inl e
        | inr rootk2n => sp_run f s offset m k b (rootk2n :: acc)
        end
      else
        let offset' := w32m (offset + k * 2 + two32N - 1) in
        match hs_get T s (sub32 offset' 1) with
        | None => inl GStoreRead
        | Some root02k => sp_run f s offset' (sub32 m k) (sub32 n k) false (root02k :: acc)
        end.
  Proof.
    intro H. unfold sp_run. cbn [subproof_loop]. rewrite H. cbn [negb]. cbv zeta.
    destruct (m <=? split32 n)%N.
    - destruct (fold_at T hc s _ _); reflexivity.
    - destruct (hs_get T s _); reflexivity.
  Qed.

  Lemma sp_run_forest : forall f G b0 s pre post m b acc,
    fwf b0 G -> G <> [] -> hs_data T s = pre ++ fpost G ++ post ->
    (N.of_nat (length pre + length (fpost G)) < two32N)%N ->
    (N.of_nat (length (fleaves G)) < 2147483648)%N ->
    1 <= m -> m <= length (fleaves G) ->
    (m < length (fleaves G) \/ b = true \/ exists h t, G = [(h, t)]) ->
    fmeasure G <= f ->
    sp_run f s (N.of_nat (length pre)) (N.of_nat m) (N.of_nat (length (fleaves G))) b acc
      = inr (sub m (fleaves G) b ++ acc).
  Proof.
    induction f as [|f IH]; intros G b0 s pre post m b acc HG Hne Hd Hb Hn Hm1 Hm2 Hinv Hf;
      (destruct (Nat.eq_dec m (length (fleaves G))) as [Emn|Hmn];
       [ (* m = n: the loop is over *)
         rewrite sp_run_done by (rewrite Nltb_of_nat; apply Nat.ltb_ge; lia);
         subst m; rewrite sub_full; unfold sp_finish;
         destruct b; [reflexivity|];
         destruct Hinv as [Hlt|[Hbt|(h & t & HGs)]]; [lia|discriminate|];
         subst G; destruct HG as (Hh & Hp & _);
         rewrite (get_sub_tree_pos_fwf [(h, t)] b0) by (simpl; auto);
         cbn [map psums];
         pose proof (read_all_forest [(h, t)] b0 s pre [] post ltac:(simpl; auto) Hd) as Hr;
         cbn [length map psums read_all] in Hr; change (N.of_nat 0) with 0%N in Hr;
         specialize (Hr ltac:(lia));
         destruct (hs_get T s _) as [x|]; [|discriminate];
         cbn [froots map snd] in Hr; inversion Hr; subst x;
         cbn [fleaves flat_map snd app]; rewrite app_nil_r, (perfect_mth _ _ Hp); reflexivity
       | ]).
    - (* no fuel but m < n: the forest has at least two leaves, so its measure is positive *)
      destruct (forest_split G b0 HG ltac:(lia)) as (hl & tl & Gr & tail & _ & _ & _ & _ & _ & _ & Hlt & _). lia.
    - assert (H2 : 2 <= length (fleaves G)) by lia.
      destruct (forest_split G b0 HG H2) as (hl & tl & Gr & tail & Hp & HGr & HGrne & Hlv & Hle & Hpost & Hm1' & Hm2').
      pose proof (perfect_leaves_len _ _ Hp) as HlenL.
      pose proof (perfect_post_len _ _ Hp) as HlenP. rewrite Nat.pow_succ_r' in HlenP.
      remember (2 ^ hl) as K eqn:HK.
      assert (HK1 : 1 <= K) by (rewrite HK; apply pow2_pos).
      assert (Hn' : 0 < length (fleaves Gr)).
      { destruct Gr as [|[h0 t0] Gr0]; [congruence|].
        pose proof (fleaves_nonempty h0 t0 Gr0). destruct (fleaves ((h0, t0) :: Gr0)); simpl; [congruence|lia]. }
      assert (HGrl : fleaves Gr <> []) by (destruct (fleaves Gr); simpl in *; [lia|congruence]).
      rewrite Hpost in Hd, Hb. rewrite !app_length in Hb.
      rewrite Hlv in *. rewrite app_length, HlenL in *.
      rewrite sp_run_step by (rewrite Nltb_of_nat; apply Nat.ltb_lt; lia).
      cbv zeta.
      rewrite (split32_spec K hl (length (fleaves Gr)) HK Hn' Hle) by (unfold two32N; lia).
      assert (Hleb : (N.of_nat m <=? N.of_nat K)%N = (m <=? K)).
      { destruct (N.leb_spec (N.of_nat m) (N.of_nat K)); destruct (Nat.leb_spec m K); lia. }
      rewrite Hleb.
      assert (Hbase : w32m (N.of_nat (length pre) + N.of_nat K * 2 + two32N - 1) = N.of_nat (length (pre ++ ppost tl))).
      { rewrite app_length. unfold w32m, two32N in *. lia. }
      assert (Hsub : sub32 (N.of_nat (K + length (fleaves Gr))) (N.of_nat K) = N.of_nat (length (fleaves Gr))).
      { rewrite sub32_small by (unfold two32N; lia). lia. }
      rewrite Hbase, Hsub.
      assert (Hd2 : hs_data T s = (pre ++ ppost tl) ++ fpost Gr ++ (tail ++ post)).
      { rewrite Hd, <- !app_assoc. reflexivity. }
      rewrite (sub_app T hc hempty hl) by (try rewrite <- HK; assumption || lia).
      rewrite <- HK.
      destruct (Nat.leb_spec m K) as [Hl|Hr].
      + rewrite (fold_at_fwf Gr (S hl) s (pre ++ ppost tl) (tail ++ post) HGr HGrne Hd2)
          by (rewrite ?app_length; unfold two32N in *; lia).
        assert (HdL : hs_data T s = pre ++ fpost [(hl, tl)] ++ (fpost Gr ++ tail ++ post)).
        { rewrite Hd. cbn [fpost flat_map snd]. rewrite app_nil_r, <- !app_assoc. reflexivity. }
        assert (HlvL : fleaves [(hl, tl)] = pleaves tl).
        { cbn [fleaves flat_map snd]. apply app_nil_r. }
        rewrite <- HlenL, <- HlvL.
        rewrite (IH [(hl, tl)] (S hl) s pre _ m b _ ltac:(simpl; auto) ltac:(congruence) HdL).
        * rewrite HlvL, <- app_assoc. reflexivity.
        * cbn [fpost flat_map snd]. rewrite app_nil_r. unfold two32N in *. lia.
        * rewrite HlvL, HlenL. lia.
        * lia.
        * rewrite HlvL, HlenL. lia.
        * right. right. exists hl, tl. reflexivity.
        * cbn [fmeasure]. lia.
      + destruct (ppost_last tl) as [pt Hpt].
        assert (Hget : hs_get T s (sub32 (N.of_nat (length (pre ++ ppost tl))) 1) = Some (proot tl)).
        { rewrite sub32_small by (rewrite app_length; unfold two32N in *; lia).
          unfold hs_get. rewrite Hd, Hpt.
          replace (N.to_nat (N.of_nat (length (pre ++ pt ++ [proot tl])) - 1)) with (length (pre ++ pt))
            by (rewrite !app_length; simpl; lia).
          rewrite <- !app_assoc. rewrite (app_assoc pre pt).
          rewrite nth_error_app2 by lia. rewrite Nat.sub_diag. reflexivity. }
        rewrite Hget.
        assert (Hsubm : sub32 (N.of_nat m) (N.of_nat K) = N.of_nat (m - K)).
        { rewrite sub32_small by (unfold two32N; lia). lia. }
        rewrite Hsubm.
        rewrite (IH Gr (S hl) s (pre ++ ppost tl) (tail ++ post) (m - K) false _ HGr HGrne Hd2)
          by (rewrite ?app_length; unfold two32N in *; lia || (left; lia)).
        rewrite (perfect_mth _ _ Hp), <- app_assoc. reflexivity.
  Qed.

  Theorem consistency_proof_rfc t ls m k : tree_of t ls -> ct_store T t <> None ->
    (N.of_nat (length ls) < 2147483648)%N -> 1 <= m -> m <= k -> k <= length ls ->
    consistency_proof T hc t (N.of_nat m) (N.of_nat k) = inr (rfc_proof T hc hempty m (firstn k ls)).
  Proof.
    intros (HR & Hs & Hh & Hst) Hsome Hb Hm1 Hmk Hk.
    unfold consistency_proof. rewrite Hs, forest_of_rval.
    destruct (N.ltb_spec (N.of_nat k) (N.of_nat m)); [lia|].
    destruct (N.ltb_spec (N.of_nat (length ls)) (N.of_nat k)); [lia|].
    cbn [orb].
    destruct (ct_store T t) as [s|]; [|congruence].
    destruct Hst as [Hc Hf].
    destruct (forest_of_prefix ls k) as [more Hmore].
    set (lk := firstn k ls) in *.
    assert (Hlk : length lk = k) by (subst lk; rewrite firstn_length; lia).
    assert (Hd : hs_data T s = [] ++ fpost (fview lk) ++ (more ++ skipn (hs_cur T s) (hs_data T s))).
    { rewrite <- (firstn_skipn (hs_cur T s) (hs_data T s)) at 1. rewrite Hf, Hmore, fview_post, <- app_assoc. reflexivity. }
    assert (Hne : fview lk <> []) by (apply fview_nonempty; destruct lk; simpl in *; [lia|congruence]).
    pose proof (fview_fwf lk) as HF.
    pose proof (post_le_leaves _ _ HF) as Hpl. rewrite fview_leaves, Hlk in Hpl.
    rewrite subproof_eq.
    pose proof (sp_run_forest (S (N.size_nat (N.of_nat k - 1))) (fview lk) _ s [] _ m true [] HF Hne Hd) as HL.
    rewrite fview_leaves, Hlk in HL. cbn [length] in HL. change (N.of_nat 0) with 0%N in HL.
    rewrite app_nil_r in HL. unfold rfc_proof. fold (MerkleSpec.sub T hc hempty m lk). apply HL.
    - unfold two32N. lia.
    - lia.
    - lia.
    - lia.
    - right. left. reflexivity.
    - pose proof (fmeasure_fuel _ _ HF Hne) as Hfu. rewrite fview_leaves, Hlk in Hfu.
      replace (N.of_nat k - 1)%N with (N.of_nat (k - 1)) by lia. lia.
  Qed.
End Tree.
