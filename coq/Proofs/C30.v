(** C30: the chain configuration is a deterministic function of the stake set — assembly of the
    order part (C30Sort), the table part (C30Shuffle) and the float part (C30Float). *)
From Coq Require Import List Bool NArith ZArith Lia ZifyN ZifyNat ZifyBool Permutation Sorted.
From Ont Require Import Lib.Bytes Lib.F64 Gen.ChainConfigGen Model.ChainConfig
  Proofs.C30Sort Proofs.C30Shuffle Proofs.C30Float.
Import ListNotations.
Local Open Scope N_scope.
Ltac Zify.zify_post_hook ::= Z.to_euclidean_division_equations.

(** * Hypotheses of the property, as predicates on the input *)

Definition stake_sum (l : list peer) : N := fold_right (fun p s => p_stake p + s) 0 l.

Definition distinct_indexes (l : list peer) : Prop := NoDup (map p_index l).

(** "valid K, L, C": the checks of genConsensusPayload pass (as the code evaluates them, in
    uint32), the fields are uint32 values and the uint32 product K*2 inside the check does not wrap. *)
Definition valid_params (conf : vbft_config) (npeers : nat) : Prop :=
  payload_check conf npeers = None /\
  c_C conf < 2 ^ 32 /\ c_L conf < 2 ^ 32 /\ 2 * c_K conf < 2 ^ 32.

(** stakes are uint64 values whose total fits in uint64 (ONT: total supply 10^9) *)
Definition stakes_fit (l : list peer) : Prop := stake_sum l < 2 ^ 64.

Definition slots (cfg : chain_config) (p : peer) : nat :=
  count_occ N.eq_dec (cc_postable cfg) (p_index p).

(** * Order independence (any parameters, any hash, errors included) *)

Theorem config_perm_invariant (H : bytes -> N -> N) conf l1 l2 :
  distinct_keys l1 -> Permutation l1 l2 ->
  genesis_chain_config H conf l1 = genesis_chain_config H conf l2.
Proof.
  intros Hd Hp. unfold genesis_chain_config.
  rewrite (sort_perm_invariant l1 l2 Hd Hp). reflexivity.
Qed.

(** * Arithmetic consequences of valid parameters *)

Lemma valid_params_arith conf n : valid_params conf n ->
  1 <= c_K conf /\ c_K conf <= N.of_nat n /\
  1 <= scale_of (c_L conf) (c_K conf) /\ scale_of (c_L conf) (c_K conf) * c_K conf <= 2 ^ 32.
Proof.
  unfold valid_params, payload_check, scale_of, u32, scale_expr, kc_min, kl_min.
  intros (Hc & HC & HL & HK).
  destruct (c_C conf =? 0) eqn:E0; [discriminate|].
  destruct (N.of_nat n <? c_K conf) eqn:E1; [discriminate|].
  destruct (c_K conf <? Z.to_N ((2 * Z.of_N (c_C conf) + 1) mod 2 ^ 32)) eqn:E2; [discriminate|].
  destruct (negb (c_L conf mod c_K conf =? 0) || (c_L conf <? Z.to_N ((Z.of_N (c_K conf) * 2) mod 2 ^ 32))) eqn:E3;
    [discriminate|].
  apply orb_false_elim in E3. destruct E3 as [E3 E4]. apply negb_false_iff in E3.
  set (K := c_K conf) in *. set (L := c_L conf) in *. set (C := c_C conf) in *.
  assert (K1 : 1 <= K).
  { apply N.ltb_ge in E2.
    assert (1 <= Z.to_N ((2 * Z.of_N C + 1) mod 2 ^ 32)); [|lia].
    assert (0 < (2 * Z.of_N C + 1) mod 2 ^ 32)%Z; [|lia].
    assert ((2 * Z.of_N C + 1) mod 2 ^ 32 <> 0)%Z; [|pose proof (Z.mod_pos_bound (2 * Z.of_N C + 1) (2^32) eq_refl); lia].
    intro F. apply Z.mod_divide in F; [|lia]. destruct F as [q F]. lia. }
  assert (KL : 2 * K <= L).
  { apply N.ltb_ge in E4. rewrite Z.mod_small in E4 by lia. lia. }
  apply N.eqb_eq in E3. apply N.ltb_ge in E1.
  assert (Hdiv : L = K * (L / K)).
  { pose proof (N.div_mod L K ltac:(lia)). lia. }
  assert (Q2 : 2 <= L / K).
  { apply N.div_le_lower_bound; lia. }
  rewrite Z.quot_div_nonneg by lia.
  rewrite <- N2Z.inj_div.
  rewrite Z.mod_small.
  2:{ split; [lia|]. assert (L / K <= L) by (apply N.div_le_upper_bound; nia). lia. }
  replace (Z.to_N (Z.of_N (L / K) - 1)) with (L / K - 1) by lia.
  repeat split; lia.
Qed.

(** * Sums *)

Lemma stake_sum_perm l1 l2 : Permutation l1 l2 -> stake_sum l1 = stake_sum l2.
Proof. induction 1; simpl; lia. Qed.

Lemma stake_sum_app l1 l2 : stake_sum (l1 ++ l2) = stake_sum l1 + stake_sum l2.
Proof. induction l1; simpl; lia. Qed.

Lemma stake_sum_in l p : In p l -> p_stake p <= stake_sum l.
Proof. induction l as [|x l IH]; simpl; [tauto|]. intros [->|Hin]; [lia|]. specialize (IH Hin). lia. Qed.

Lemma u64_small n : n < 2 ^ 64 -> u64 n = n.
Proof.
  intro Hn. unfold u64. change mask64 with (N.ones 64). rewrite N.land_ones. now apply N.mod_small.
Qed.

Lemma sum_stakes_nowrap l : stake_sum l < 2 ^ 64 -> sum_stakes l = stake_sum l.
Proof.
  unfold sum_stakes.
  assert (G : forall l acc, acc + stake_sum l < 2 ^ 64 ->
            fold_left (fun s p => u64 (s + p_stake p)) l acc = acc + stake_sum l).
  { induction l0 as [|x l0 IH]; intros acc Hb; simpl in *; [lia|].
    rewrite u64_small by lia. rewrite IH by lia. lia. }
  intro Hb. rewrite G by lia. lia.
Qed.

(** * chainPeers lookups with distinct indexes *)

Lemma find_index_unique l p : NoDup (map p_index l) -> In p l ->
  find (fun q => p_index q =? p_index p) l = Some p.
Proof.
  induction l as [|x l IH]; intros Hnd Hin; [contradiction|].
  simpl in Hnd. inversion Hnd as [|? ? Hni Hnd']; subst. simpl.
  destruct Hin as [->|Hin].
  - now rewrite N.eqb_refl.
  - destruct (p_index x =? p_index p) eqn:E.
    + apply N.eqb_eq in E. exfalso. apply Hni. rewrite E. now apply in_map.
    + now apply IH.
Qed.

Lemma cp_get_in top p : NoDup (map p_index top) -> In p top -> cp_get top (p_index p) = Some p.
Proof.
  intros Hnd Hin. unfold cp_get. apply find_index_unique.
  - rewrite map_rev. apply NoDup_rev. exact Hnd.
  - now apply in_rev in Hin.
Qed.

Lemma peer_cfg_in top p : NoDup (map p_index top) -> In p top ->
  peer_cfg top p = (p_index p, p_key p).
Proof. intros. unfold peer_cfg. now rewrite cp_get_in. Qed.

Lemma NoDup_app_l {A} (a b : list A) : NoDup (a ++ b) -> NoDup a.
Proof.
  induction a as [|x a IH]; intro Hn; [constructor|].
  simpl in Hn. inversion Hn as [|? ? Hni Hn']; subst. constructor.
  - intro F. apply Hni. apply in_or_app. now left.
  - now apply IH.
Qed.

(** * Ranks *)

Lemma all_some_map {A B} (f : A -> option B) (l : list A) :
  (forall x, In x l -> exists y, f x = Some y) ->
  exists ys, all_some (map f l) = Some ys /\ length ys = length l /\
             forall i x, nth_error l i = Some x -> exists y, nth_error ys i = Some y /\ f x = Some y.
Proof.
  induction l as [|a l IH]; intro Hall.
  - exists []. repeat split; auto. intros [|i] x; discriminate.
  - destruct (Hall a (or_introl eq_refl)) as [b Hb].
    destruct IH as (ys & E & Hlen & Hnth). { intros x Hx. apply Hall. now right. }
    exists (b :: ys). simpl. rewrite Hb, E. repeat split; [simpl; lia|].
    intros [|i] x Hx; simpl in *.
    + injection Hx as <-. eauto.
    + now apply Hnth.
Qed.

Section Ranks.
  Variables sum scale K : N.
  Hypothesis Hsum : sum < 2 ^ 64.
  Hypothesis Hscale : 1 <= scale.
  Hypothesis HK : 1 <= K.
  Hypothesis HsK : scale * K <= 2 ^ 32.

  Let scale64 : in64 scale. Proof. unfold in64. nia. Qed.
  Let K64 : in64 K. Proof. unfold in64. nia. Qed.

  Lemma peer_rank_some p : p_stake p <= sum ->
    exists r, peer_rank sum scale K p = Some r /\ 1 <= r.
  Proof.
    intro Hp. unfold peer_rank.
    destruct ((0 <? sum) && (0 <? p_stake p)) eqn:E; [|exists 1; split; [reflexivity|lia]].
    apply andb_prop in E. destruct E as [E1 E2]. apply N.ltb_lt in E1, E2.
    destruct (rank_some (p_stake p) scale K sum) as (r & Hr & H1 & _); unfold in64; try lia; auto.
    exists r. auto.
  Qed.

  Lemma peer_rank_mono p q a b : p_stake p <= sum -> p_stake q <= sum ->
    peer_rank sum scale K p = Some a -> peer_rank sum scale K q = Some b ->
    p_stake p <= p_stake q -> a <= b.
  Proof.
    intros Hp Hq Ha Hb Hle.
    destruct (peer_rank_some q Hq) as (b' & Hb' & B1). rewrite Hb in Hb'. injection Hb' as <-.
    unfold peer_rank in Ha, Hb.
    destruct ((0 <? sum) && (0 <? p_stake p)) eqn:E; [|injection Ha as <-; exact B1].
    apply andb_prop in E. destruct E as [E1 E2]. rewrite E1 in Hb. apply N.ltb_lt in E1, E2.
    replace (0 <? p_stake q) with true in Hb by (symmetry; apply N.ltb_lt; lia). simpl in Hb.
    eapply (rank_mono (p_stake p) (p_stake q) scale K sum); unfold in64; try lia; eauto.
  Qed.
End Ranks.

(** * The main statement *)

Section Main.
  Variable H : bytes -> N -> N.

  Theorem config_valid_spec conf peers :
    valid_params conf (length peers) -> distinct_indexes peers -> stakes_fit peers ->
    exists cfg sel rest,
      genesis_chain_config H conf peers = inr cfg /\
      sort_peers peers = sel ++ rest /\
      length sel = N.to_nat (c_K conf) /\
      cc_n cfg = c_K conf /\ cc_c cfg = c_C conf /\
      cc_peers cfg = map (fun p => (p_index p, p_key p)) sel /\
      (forall p q, In p sel -> In q rest -> less q p = false) /\
      (forall x, In x (cc_postable cfg) -> In x (map p_index sel)) /\
      (forall p, In p sel -> (1 <= slots cfg p)%nat) /\
      (forall p q, In p sel -> In q sel -> p_stake p <= p_stake q -> (slots cfg p <= slots cfg q)%nat).
  Proof.
    intros Hv Hdi Hfit.
    destruct (valid_params_arith _ _ Hv) as (K1 & Klen & S1 & SK).
    set (K := c_K conf) in *. set (scale := scale_of (c_L conf) K) in *.
    pose proof (sort_perm peers) as Hperm. pose proof (sort_sorted peers) as Hsorted.
    set (sorted := sort_peers peers) in *.
    set (sel := firstn (N.to_nat K) sorted). set (rest := skipn (N.to_nat K) sorted).
    assert (Hsplit : sorted = sel ++ rest) by (symmetry; apply firstn_skipn).
    assert (Hlen : length sorted = length peers) by (now apply Permutation_length).
    assert (Hsel_len : length sel = N.to_nat K) by (unfold sel; rewrite firstn_length; lia).
    assert (Hnd_sorted : NoDup (map p_index sorted)).
    { eapply Permutation_NoDup; [|exact Hdi]. apply Permutation_map. now symmetry. }
    assert (Hnd_sel : NoDup (map p_index sel)).
    { rewrite Hsplit, map_app in Hnd_sorted. now apply NoDup_app_l in Hnd_sorted. }
    assert (Hsum_le : stake_sum sel <= stake_sum peers).
    { rewrite <- (stake_sum_perm _ _ Hperm), Hsplit, stake_sum_app. lia. }
    unfold stakes_fit in Hfit.
    set (sum := sum_stakes sel).
    assert (Hsum : sum = stake_sum sel) by (apply sum_stakes_nowrap; lia).
    assert (Hsum64 : sum < 2 ^ 64) by lia.
    assert (Hstake_le : forall p, In p sel -> p_stake p <= sum).
    { intros p Hp. rewrite Hsum. now apply stake_sum_in. }
    destruct (all_some_map (peer_rank sum scale K) sel) as (ranks & Hranks & Hrlen & Hrnth).
    { intros p Hp. destruct (peer_rank_some sum scale K Hsum64 S1 K1 SK p (Hstake_le p Hp)) as (r & Hr & _). eauto. }
    eexists. exists sel, rest.
    split.
    { unfold genesis_chain_config. fold sorted. fold K.
      replace (N.of_nat (length sorted) <? K) with false by (symmetry; apply N.ltb_ge; lia).
      replace (K =? 0) with false by (symmetry; apply N.eqb_neq; lia).
      cbv zeta. simpl orb. cbv iota. fold sel. fold sum. fold scale.
      replace (scale =? 0) with false by (symmetry; apply N.eqb_neq; lia).
      rewrite Hranks. reflexivity. }
    cbn [cc_n cc_c cc_peers cc_postable slots].
    (* count of a selected peer = its rank *)
    assert (Hcount : forall p, In p sel -> exists r, peer_rank sum scale K p = Some r /\
              count_occ N.eq_dec (shuffle H sel (pos_table sel ranks)) (p_index p) = N.to_nat r).
    { intros p Hp. destruct (In_nth_error _ _ Hp) as [i Hi].
      destruct (Hrnth i p Hi) as (r & Hri & Hr). exists r. split; [exact Hr|].
      rewrite (proj1 (Permutation_count_occ N.eq_dec _ _) (shuffle_perm H sel (pos_table sel ranks))).
      eapply count_pos_table; eauto. }
    repeat split; auto.
    - apply map_ext_in. intros p Hp. now apply peer_cfg_in.
    - (* selected peers are not after any unselected one *)
      intros p q Hp Hq. fold sorted in Hsorted. rewrite Hsplit in Hsorted.
      clear - Hsorted Hp Hq. induction sel as [|a sel' IH]; [contradiction|].
      simpl in Hsorted. inversion Hsorted as [|? ? Hs' Hall]; subst.
      destruct Hp as [<-|Hp].
      + rewrite Forall_forall in Hall. apply Hall. apply in_or_app. now right.
      + now apply IH.
    - (* only selected indexes in the table *)
      intros x Hx. eapply Permutation_in in Hx; [|apply shuffle_perm].
      destruct (in_dec N.eq_dec x (map p_index sel)) as [Hin|Hni]; [exact Hin|].
      exfalso. pose proof (count_pos_table_notin sel ranks x Hni) as Hc.
      apply (count_occ_In N.eq_dec) in Hx. lia.
    - intros p Hp. unfold slots. simpl. destruct (Hcount p Hp) as (r & Hr & ->).
      destruct (peer_rank_some sum scale K Hsum64 S1 K1 SK p (Hstake_le p Hp)) as (r' & Hr' & R1).
      rewrite Hr in Hr'. injection Hr' as <-. lia.
    - intros p q Hp Hq Hle. unfold slots. simpl.
      destruct (Hcount p Hp) as (a & Ha & ->). destruct (Hcount q Hq) as (b & Hb & ->).
      pose proof (peer_rank_mono sum scale K Hsum64 S1 K1 SK p q a b (Hstake_le p Hp) (Hstake_le q Hq) Ha Hb Hle).
      lia.
  Qed.
End Main.

(** [less q p = false] spelled out: q's stake is not larger, and on equal stakes q's key is not larger. *)
Lemma less_false_spec q p : less q p = false ->
  p_stake q <= p_stake p /\ (p_stake q = p_stake p -> str_gtb (p_key q) (p_key p) = false).
Proof.
  unfold less. destruct (p_stake p <? p_stake q) eqn:E1; [discriminate|].
  apply N.ltb_ge in E1. intro Hf. split; [exact E1|].
  intro Heq. rewrite Heq, N.eqb_refl in Hf. exact Hf.
Qed.
