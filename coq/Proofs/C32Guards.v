(** C32 — committed inventory of the call sites of verifyHeader in
    core/store/ledgerstore/ledger_store.go.  Gen/HeaderSyncGuards.v is regenerated from the source
    on every run; the lemma below re-checks that every block/header entry point still calls
    verifyHeader UNCONDITIONALLY (no enclosing statement) after exactly the listed early exits
    (wrong height / already stored / closing).  A new guard around the call, a new early exit
    before it, a removed call or a new call site breaks the lemma. *)
From Coq Require Import List String.
Import ListNotations.
From Ont Require Import Gen.HeaderSyncGuards.
Local Open Scope string_scope.

Definition expected_verify_header_call_sites : list (string * (list string * list string)) := [
  ("AddHeader", ([], ["header.Height != nextHeaderHeight"]));
  ("SubmitBlock", ([], ["this.closing"; "blockHeight <= currBlockHeight"; "blockHeight != nextBlockHeight"]));
  ("AddBlock", ([], ["blockHeight <= currBlockHeight"; "blockHeight != nextBlockHeight"]))
].

Lemma verify_header_call_sites_as_committed :
  verify_header_call_sites = expected_verify_header_call_sites.
Proof. reflexivity. Qed.

Lemma verify_header_calls_unconditional :
  forall f enc pre, In (f, (enc, pre)) verify_header_call_sites -> enc = [].
Proof.
  rewrite verify_header_call_sites_as_committed. simpl.
  intros f enc pre [H|[H|[H|[]]]]; inversion H; reflexivity.
Qed.
