(** C37, concurrent callers: under the lock discipline found in the source, every schedule of
    non-atomic Update / Remove / NearestPeers calls behaves like the sequential run of the writes in
    the order in which they took the lock, nobody ever reads a half-written table, and every table
    anybody sees is a table of a sequential history — to which the sequential theorems apply. *)
From Coq Require Import List Bool Arith NArith ZArith Lia Sorted.
Import ListNotations.
From Ont Require Import Lib.Bytes Gen.KBucketGen Model.KBucket Model.KBucketConc Proofs.C37.
Open Scope bool_scope.

(** The shapes read from the source satisfy the discipline.  (This is the proof step that fails
    when a method stops being one critical section.) *)
Lemma lock_discipline_holds : lock_discipline_ok = true.
Proof. reflexivity. Qed.

Definition inW (p : pc) : bool :=
  match p with WHeld _ | WLoaded _ _ | WTorn _ _ | WStored => true | _ => false end.
Definition inR (p : pc) : bool :=
  match p with RHeld _ | RSeen => true | _ => false end.

Definition cnt (f : pc -> bool) (l : list thread) : nat :=
  length (filter (fun th => f (fst th)) l).
Definition b2n (b : bool) : nat := if b then 1 else 0.

Lemma cnt_upd f l : forall i x y, nth_error l i = Some x ->
  cnt f (upd i y l) + b2n (f (fst x)) = cnt f l + b2n (f (fst y)).
Proof.
  unfold cnt. induction l as [|z r IH]; intros [|i] x y H; simpl in H; try discriminate.
  - inversion H; subst. simpl. destruct (f (fst x)), (f (fst y)); simpl; lia.
  - simpl. specialize (IH i x y H). destruct (f (fst z)); simpl; lia.
Qed.

Lemma cnt_one f l : forall i x, nth_error l i = Some x -> f (fst x) = true -> 1 <= cnt f l.
Proof.
  unfold cnt. induction l as [|z r IH]; intros [|i] x H Hf; simpl in H; try discriminate.
  - inversion H; subst. simpl. rewrite Hf. simpl. lia.
  - simpl. specialize (IH i x H Hf). destruct (f (fst z)); simpl; lia.
Qed.

Lemma cnt_two f l : forall i j x y, i <> j -> nth_error l i = Some x -> nth_error l j = Some y ->
  f (fst x) = true -> f (fst y) = true -> 2 <= cnt f l.
Proof.
  unfold cnt. induction l as [|z r IH]; intros [|i] [|j] x y Hij Hi Hj Hx Hy; simpl in Hi, Hj;
    try discriminate; try congruence.
  - inversion Hi; subst. simpl. rewrite Hx. simpl.
    pose proof (cnt_one f r j y Hj Hy). unfold cnt in *. lia.
  - inversion Hj; subst. simpl. rewrite Hy. simpl.
    pose proof (cnt_one f r i x Hi Hx). unfold cnt in *. lia.
  - simpl. assert (i <> j) by congruence. specialize (IH i j x y H Hi Hj Hx Hy).
    destruct (f (fst z)); simpl; lia.
Qed.

Lemma cnt_pos f l : 1 <= cnt f l -> exists j th, nth_error l j = Some th /\ f (fst th) = true.
Proof.
  unfold cnt. induction l as [|z r IH]; simpl; [lia|].
  destruct (f (fst z)) eqn:E.
  - intros _. exists 0, z. auto.
  - intro H. destruct (IH H) as [j [th [Hj Hf]]]. exists (S j), th. auto.
Qed.

Lemma nth_error_upd_cases {A} (l : list A) i j x y :
  nth_error (upd i x l) j = Some y -> (i = j /\ y = x) \/ (i <> j /\ nth_error l j = Some y).
Proof.
  rewrite nth_error_upd. destruct (Nat.eqb_spec i j).
  - destruct (Nat.ltb i (length l)); intro H; inversion H; auto.
  - auto.
Qed.

Lemma apply_ops_snoc t l o : apply_ops t (l ++ [o]) = fst (step (apply_ops t l) o).
Proof. unfold apply_ops. rewrite fold_left_app. reflexivity. Qed.

(** what a thread in the middle of a write knows about the shared table *)
Definition th_ok (t0 : table) (sh : option table) (log : list op) (th : thread) : Prop :=
  match fst th with
  | WHeld _ | WStored => sh = Some (apply_ops t0 log)
  | WLoaded _ t => sh = Some t /\ t = apply_ops t0 log
  | WTorn _ t => sh = None /\ t = apply_ops t0 log
  | _ => True
  end.

Lemma th_ok_notW t0 sh log th : inW (fst th) = false -> th_ok t0 sh log th.
Proof. unfold th_ok. destruct (fst th); simpl; auto; discriminate. Qed.

Definition lock_ok (c : conf) : Prop :=
  match c_lk c with
  | LFree => cnt inW (c_thr c) = 0 /\ cnt inR (c_thr c) = 0
  | LW => cnt inW (c_thr c) = 1 /\ cnt inR (c_thr c) = 0
  | LR n => cnt inW (c_thr c) = 0 /\ cnt inR (c_thr c) = n /\ 1 <= n
  end.

Record Inv (t0 : table) (c : conf) : Prop := {
  i_bad : c_bad c = false;
  i_lock : lock_ok c;
  i_quiet : cnt inW (c_thr c) = 0 -> c_sh c = Some (apply_ops t0 (c_log c));
  i_thr : forall j th, nth_error (c_thr c) j = Some th -> th_ok t0 (c_sh c) (c_log c) th;
  i_obs : forall t o, In (t, o) (c_obs c) -> exists l, t = apply_ops t0 l
}.

Lemma inv_init t0 progs : Inv t0 (init_conf t0 progs).
Proof.
  assert (Z : forall f : pc -> bool, f Idle = false -> cnt f (map (fun ops => (Idle, ops)) progs) = 0).
  { intros f Hf. unfold cnt. induction progs; simpl; auto. rewrite Hf. auto. }
  constructor; simpl; auto.
  - unfold lock_ok; simpl. split; apply Z; auto.
  - intros j th H. apply nth_error_In in H. apply in_map_iff in H. destruct H as [ops [<- _]].
    exact I.
  - tauto.
Qed.

(** a thread that is writing is the only one, and the lock is held exclusively *)
Lemma writer_alone c i th :
  lock_ok c -> nth_error (c_thr c) i = Some th -> inW (fst th) = true ->
  c_lk c = LW /\ cnt inW (c_thr c) = 1 /\ cnt inR (c_thr c) = 0 /\
  forall j th', j <> i -> nth_error (c_thr c) j = Some th' -> inW (fst th') = false.
Proof.
  intros L H W. pose proof (cnt_one inW _ _ _ H W) as C1. unfold lock_ok in L.
  destruct (c_lk c) eqn:E; try lia. destruct L as [L1 L2]. repeat split; auto.
  intros j th' Hj H'. destruct (inW (fst th')) eqn:W'; auto.
  pose proof (cnt_two inW _ _ _ _ _ Hj H' H W' W). lia.
Qed.

Lemma reader_inside c i th :
  lock_ok c -> nth_error (c_thr c) i = Some th -> inR (fst th) = true ->
  exists n, c_lk c = LR (S n) /\ cnt inW (c_thr c) = 0 /\ cnt inR (c_thr c) = S n.
Proof.
  intros L H R. pose proof (cnt_one inR _ _ _ H R) as C1. unfold lock_ok in L.
  destruct (c_lk c) eqn:E; try lia. destruct L as [L1 [L2 L3]].
  destruct readers; [lia|]. eauto.
Qed.

Ltac upd_cases H :=
  apply nth_error_upd_cases in H; destruct H as [[? ?]|[? H]]; subst.

Ltac quiet Hq :=
  unfold set_thr in *;
  first [ solve [auto]
        | let Hz := fresh in intro Hz; exfalso; lia
        | intros _; apply Hq; lia ].

Lemma inv_step t0 c c' : Inv t0 c -> cstep true c c' -> Inv t0 c'.
Proof.
  intros [Hb Hl Hq Ht Ho] S.
  inversion S as [i o r Hi Hw Hd|i o r t Hi Hs|i o r Hi Hs|i o t r Hi|i o t r Hi|i r Hi
                 |i o r Hi Hw Hd|i o r t Hi Hs|i o r Hi Hs|i r Hi]; subst; clear S.
  - (* writer takes the lock *)
    specialize (Hd eq_refl). unfold lock_ok in Hl. rewrite Hd in Hl. destruct Hl as [L1 L2].
    pose proof (cnt_upd inW _ _ _ (WHeld o, r) Hi) as CW. pose proof (cnt_upd inR _ _ _ (WHeld o, r) Hi) as CR.
    simpl in CW, CR.
    constructor; simpl; [auto| | | |auto].
    + unfold lock_ok, set_thr; simpl. lia.
    + quiet Hq.
    + intros j th H. unfold set_thr in H. upd_cases H.
      * unfold th_ok; simpl. auto.
      * apply th_ok_notW. destruct (inW (fst th)) eqn:W; auto.
        pose proof (cnt_one inW _ _ _ H W). lia.
  - (* writer reads the table *)
    destruct (writer_alone c i _ Hl Hi eq_refl) as [Lk [CW [CR Hoth]]].
    pose proof (cnt_upd inW _ _ _ (WLoaded o t, r) Hi) as CW'. pose proof (cnt_upd inR _ _ _ (WLoaded o t, r) Hi) as CR'.
    simpl in CW', CR'.
    pose proof (Ht i _ Hi) as Hok. unfold th_ok in Hok; simpl in Hok.
    constructor; simpl; [auto| | | |auto].
    + unfold lock_ok, set_thr; simpl. rewrite Lk. lia.
    + quiet Hq.
    + intros j th H. unfold set_thr in H. upd_cases H.
      * unfold th_ok; simpl. split; congruence.
      * apply Ht with (j := j); auto.
  - (* writer would read a half-written table: impossible *)
    exfalso. pose proof (Ht i _ Hi) as Hok. unfold th_ok in Hok; simpl in Hok. congruence.
  - (* writer starts rewriting *)
    destruct (writer_alone c i _ Hl Hi eq_refl) as [Lk [CW [CR Hoth]]].
    pose proof (cnt_upd inW _ _ _ (WTorn o t, r) Hi) as CW'. pose proof (cnt_upd inR _ _ _ (WTorn o t, r) Hi) as CR'.
    simpl in CW', CR'.
    pose proof (Ht i _ Hi) as Hok. unfold th_ok in Hok; simpl in Hok. destruct Hok as [_ Hok].
    constructor; simpl; [auto| | | |auto].
    + unfold lock_ok, set_thr; simpl. rewrite Lk. lia.
    + quiet Hq.
    + intros j th H. unfold set_thr in H. upd_cases H.
      * unfold th_ok; simpl. auto.
      * apply th_ok_notW. eapply Hoth; eauto.
  - (* writer writes the result *)
    destruct (writer_alone c i _ Hl Hi eq_refl) as [Lk [CW [CR Hoth]]].
    pose proof (cnt_upd inW _ _ _ (WStored, r) Hi) as CW'. pose proof (cnt_upd inR _ _ _ (WStored, r) Hi) as CR'.
    simpl in CW', CR'.
    pose proof (Ht i _ Hi) as Hok. unfold th_ok in Hok; simpl in Hok. destruct Hok as [_ Hok].
    constructor; simpl; [auto| | | |auto].
    + unfold lock_ok, set_thr; simpl. rewrite Lk. lia.
    + quiet Hq.
    + intros j th H. unfold set_thr in H. upd_cases H.
      * unfold th_ok; simpl. rewrite apply_ops_snoc. congruence.
      * apply th_ok_notW. eapply Hoth; eauto.
  - (* writer releases *)
    destruct (writer_alone c i _ Hl Hi eq_refl) as [Lk [CW [CR Hoth]]].
    pose proof (cnt_upd inW _ _ _ (Idle, r) Hi) as CW'. pose proof (cnt_upd inR _ _ _ (Idle, r) Hi) as CR'.
    simpl in CW', CR'.
    pose proof (Ht i _ Hi) as Hok. unfold th_ok in Hok; simpl in Hok.
    constructor; simpl; [auto| | | |auto].
    + unfold lock_ok, set_thr; simpl. lia.
    + quiet Hq.
    + intros j th H. unfold set_thr in H. upd_cases H.
      * exact I.
      * apply th_ok_notW. eapply Hoth; eauto.
  - (* reader takes the lock *)
    specialize (Hd eq_refl).
    pose proof (cnt_upd inW _ _ _ (RHeld o, r) Hi) as CW'. pose proof (cnt_upd inR _ _ _ (RHeld o, r) Hi) as CR'.
    simpl in CW', CR'.
    assert (CW : cnt inW (c_thr c) = 0).
    { unfold lock_ok in Hl. destruct (c_lk c); try tauto; try contradiction. }
    constructor; simpl; [auto| | | |auto].
    + unfold lock_ok in *. unfold set_thr; simpl. destruct (c_lk c); simpl; try congruence; lia.
    + quiet Hq.
    + intros j th H. unfold set_thr in H. upd_cases H.
      * exact I.
      * apply Ht with (j := j); auto.
  - (* reader reads the table *)
    destruct (reader_inside c i _ Hl Hi eq_refl) as [n [Lk [CW CR]]].
    pose proof (cnt_upd inW _ _ _ (RSeen, r) Hi) as CW'. pose proof (cnt_upd inR _ _ _ (RSeen, r) Hi) as CR'.
    simpl in CW', CR'.
    constructor; simpl; [auto| | | | ].
    + unfold lock_ok, set_thr; simpl. rewrite Lk. lia.
    + quiet Hq.
    + intros j th H. unfold set_thr in H. upd_cases H.
      * exact I.
      * apply Ht with (j := j); auto.
    + intros t' o' [E|Hin]; [|eauto]. inversion E; subst.
      exists (c_log c). rewrite (Hq CW) in Hs. congruence.
  - (* reader would read a half-written table: impossible *)
    exfalso. destruct (reader_inside c i _ Hl Hi eq_refl) as [n [Lk [CW CR]]].
    rewrite (Hq CW) in Hs. discriminate.
  - (* reader releases *)
    destruct (reader_inside c i _ Hl Hi eq_refl) as [n [Lk [CW CR]]].
    pose proof (cnt_upd inW _ _ _ (Idle, r) Hi) as CW'. pose proof (cnt_upd inR _ _ _ (Idle, r) Hi) as CR'.
    simpl in CW', CR'.
    constructor; simpl; [auto| | | |auto].
    + unfold lock_ok, set_thr; simpl. rewrite Lk. destruct n; simpl; lia.
    + quiet Hq.
    + intros j th H. unfold set_thr in H. upd_cases H.
      * exact I.
      * apply Ht with (j := j); auto.
Qed.

Lemma inv_reach t0 progs c : creach true (init_conf t0 progs) c -> Inv t0 c.
Proof. induction 1; [apply inv_init|eapply inv_step; eauto]. Qed.

(** sequential runs of the model from a valid table stay valid *)
Lemma apply_ops_valid l : forall t,
  valid t -> (1 <= t_size t)%Z -> length (t_local t) = KB_ID_LEN ->
  valid (apply_ops t l) /\ t_size (apply_ops t l) = t_size t /\ t_local (apply_ops t l) = t_local t.
Proof.
  induction l as [|o r IH]; intros t V Hs Hl; simpl; auto.
  destruct (step_valid t o V Hs Hl) as [V' [_ [Hs' Hl']]].
  destruct (IH (fst (step t o)) V' ltac:(lia) ltac:(congruence)) as [V'' [Hs'' Hl'']].
  unfold apply_ops in *. simpl. split; [auto|split; congruence].
Qed.

(** ... and are what [exec] computes *)
Lemma exec_apply_ops l : forall t,
  valid t -> (1 <= t_size t)%Z -> length (t_local t) = KB_ID_LEN ->
  exec t l = Some (apply_ops t l).
Proof.
  assert (R : forall l0 t, valid t -> (1 <= t_size t)%Z -> length (t_local t) = KB_ID_LEN ->
            fst (run t l0) = apply_ops t l0).
  { induction l0 as [|o r IH]; intros t V Hs Hl; [reflexivity|].
    destruct (step_valid t o V Hs Hl) as [V' [Hd [Hs' Hl']]].
    simpl. destruct (step t o) as [t' res] eqn:E; simpl in *. rewrite Hd.
    specialize (IH t' V' ltac:(lia) ltac:(congruence)).
    destruct (run t' r) as [t'' rs]; simpl in *. exact IH. }
  intros t V Hs Hl. destruct (run_valid l t V Hs Hl) as [_ [Hd _]].
  specialize (R l t V Hs Hl). unfold exec. destruct (run t l) as [t' rs]; simpl in *.
  rewrite Hd. congruence.
Qed.

(** The lifting.  For a positive bucket size and the lock discipline of the source: in every
    configuration any schedule can reach, nobody has read a half-written table; the shared table,
    when nobody is writing, is the result of the sequential history [c_log] (the writes in the
    order they took the lock) and satisfies the structural statement; every table a NearestPeers
    call saw is the table of a sequential history, so its answer satisfies [nearest_spec]. *)
Definition concurrent_ok (size : Z) (local : peer_id) (c : conf) : Prop :=
  c_bad c = false /\
  (forall t, c_sh c = Some t ->
     exec (new_table size local) (c_log c) = Some t /\ table_ok t) /\
  (forall t o, In (t, o) (c_obs c) ->
     (exists l, exec (new_table size local) l = Some t) /\ table_ok t /\
     forall target count, o = ONearest target count -> (0 <= count)%Z -> (count + size < 2 ^ 63)%Z ->
       exists out, nearest_peers t target count = NOk out /\ nearest_spec t target count out).

Lemma concurrent_callers size local progs c :
  (1 <= size)%Z -> length local = KB_ID_LEN ->
  creach lock_discipline_ok (init_conf (new_table size local) progs) c ->
  concurrent_ok size local c.
Proof.
  intros Hs Hl R. rewrite lock_discipline_holds in R.
  destruct (inv_reach _ _ _ R) as [Hb Hlk Hq Ht Ho].
  set (t0 := new_table size local) in *.
  assert (V0 : valid t0) by (apply valid_new; lia).
  assert (A : forall l, exec t0 l = Some (apply_ops t0 l) /\ valid (apply_ops t0 l) /\
                        t_size (apply_ops t0 l) = size).
  { intro l. split; [apply exec_apply_ops; auto|]. destruct (apply_ops_valid l t0 V0 Hs Hl) as [V [S _]]. auto. }
  split; [auto|split].
  - intros t Hsh.
    assert (E : t = apply_ops t0 (c_log c)).
    { destruct (cnt inW (c_thr c)) eqn:C.
      - rewrite (Hq eq_refl) in Hsh. congruence.
      - (* somebody is writing and the table is consistent: the writer's own knowledge *)
        assert (exists j th, nth_error (c_thr c) j = Some th /\ inW (fst th) = true) as [j [th [Hj W]]].
        { apply cnt_pos. lia. }
        pose proof (Ht j th Hj) as Hok. unfold th_ok in Hok. destruct (fst th); simpl in W; try discriminate.
        + congruence.
        + destruct Hok; congruence.
        + destruct Hok; congruence.
        + congruence. }
    subst t. destruct (A (c_log c)) as [E [V _]]. split; auto. apply valid_table_ok; auto.
  - intros t o Hin. destruct (Ho t o Hin) as [l ->]. destruct (A l) as [E [V S]].
    split; [eauto|]. split; [apply valid_table_ok; auto|].
    intros target count _ Hc Hw. apply nearest_peers_ok; auto; lia.
Qed.

(** The lock matters in this model: when taking the lock does not wait ([disc = false]), a
    NearestPeers call can read a table an Update is in the middle of rewriting. *)
Lemma undisciplined_reads_torn size local id :
  exists c, creach false (init_conf (new_table size local) [[OUpdate id 1%N]; [ONearest id 1%Z]]) c /\
            c_bad c = true.
Proof.
  set (t0 := new_table size local).
  eexists. split.
  - eapply cr_step. eapply cr_step. eapply cr_step. eapply cr_step. eapply cr_step. apply cr_refl.
    + eapply (s_wacq false _ 0); simpl; try reflexivity; try discriminate.
    + eapply (s_wload false _ 0); simpl; reflexivity.
    + eapply (s_wbegin false _ 0); simpl; reflexivity.
    + eapply (s_racq false _ 1); simpl; try reflexivity; try discriminate.
    + eapply (s_rload_torn false _ 1); simpl; reflexivity.
  - reflexivity.
Qed.
