(** C45 — lemmas about Model/OntId.v: meaning of the regenerated conditions, from the contract's
    checks to the declarative witnesses of Model/OntIdSpec.v, frame and per-step authorisation. *)
From Coq Require Import List Bool NArith Lia.
Import ListNotations.
From Ont Require Import Model.OntId Model.OntIdSpec.
Local Open Scope N_scope.
Open Scope bool_scope.

(** * What the regenerated conditions (Gen/OntIdConsts.v) mean.
    Each is proved by computation on the generated text: a changed operator or constant in the
    source makes the corresponding lemma (and everything after it) fail. *)
Lemma gen_flags_distinct :
  FLAG_NOT_EXIST <> FLAG_VALID /\ FLAG_VALID <> FLAG_REVOKE /\ FLAG_NOT_EXIST <> FLAG_REVOKE.
Proof. repeat split; discriminate. Qed.
Lemma gen_is_valid f : id_is_valid f = (f =? FLAG_VALID).
Proof. reflexivity. Qed.
Lemma gen_reg_pk_taken f : reg_pk_taken f = negb (f =? FLAG_NOT_EXIST).
Proof. reflexivity. Qed.
Lemma gen_reg_attr_taken f : reg_attr_taken f = negb (f =? FLAG_NOT_EXIST).
Proof. reflexivity. Qed.
Lemma gen_reg_ctrl_taken f : reg_ctrl_taken f = negb (f =? FLAG_NOT_EXIST).
Proof. reflexivity. Qed.
Lemma gen_cwbi_revoked b : cwbi_reject_revoked b = b.
Proof. reflexivity. Qed.
Lemma gen_cwbi_noauth b : cwbi_reject_noauth b = negb b.
Proof. reflexivity. Qed.
Lemma gen_getpk_index i n : getpk_index_invalid i n = ((i <? 1) || (n <? i)).
Proof. reflexivity. Qed.
Lemma gen_chauth_index i n : chauth_index_invalid i n = ((i <? 1) || (n <? i)).
Proof. reflexivity. Qed.
Lemma gen_chauth_revoked b : chauth_reject_revoked b = b.
Proof. reflexivity. Qed.
Lemma gen_revoke_nokey i n : revoke_index_nokey i n = ((i <? 1) || (n <? i)).
Proof. reflexivity. Qed.
Lemma gen_findpk e a : findpk_match e a = (e && a).
Proof. reflexivity. Qed.
Lemma gen_is_owner_ok k r : is_owner_ok k r = (negb (k =? 0) && negb r).
Proof. reflexivity. Qed.
Lemma gen_threshold_met a t : threshold_met a t = (t <=? a).
Proof. reflexivity. Qed.
Lemma gen_threshold_invalid t n : threshold_invalid t n = (n <? t).
Proof. reflexivity. Qed.
Lemma gen_depth_exceeded d : depth_exceeded d = (d =? MAX_DEPTH).
Proof. reflexivity. Qed.

Lemma is_valid_flag f : id_is_valid f = true -> f = FLAG_VALID.
Proof. rewrite gen_is_valid. apply N.eqb_eq. Qed.
Lemma not_taken_flag f : negb (negb (f =? FLAG_NOT_EXIST)) = true -> f = FLAG_NOT_EXIST.
Proof. rewrite negb_involutive. apply N.eqb_eq. Qed.
Lemma revoke_not_valid : id_is_valid FLAG_REVOKE = false.
Proof. reflexivity. Qed.
Lemma revoke_is_taken : negb (FLAG_REVOKE =? FLAG_NOT_EXIST) = true.
Proof. reflexivity. Qed.

(** * An induction principle for the nested [group] type. *)
Section GroupInd.
  Variable P : group -> Prop.
  Definition memP (m : member) : Prop := match m with MId _ => True | MGrp g => P g end.
  Hypothesis H : forall ms t, Forall memP ms -> P (G ms t).
  Fixpoint group_ind' (g : group) : P g :=
    match g with
    | G ms t =>
        H ms t
          ((fix go (l : list member) : Forall memP l :=
              match l with
              | [] => Forall_nil memP
              | m :: r =>
                  @Forall_cons member memP m r
                    (match m return memP m with
                     | MId _ => I
                     | MGrp g' => group_ind' g'
                     end) (go r)
              end) ms)
    end.
End GroupInd.

(** counting satisfied members, as a named function (the inner [fix] of [gsat] / [group_sat]) *)
Definition msat (sat : group -> bool) (P : id -> bool) (m : member) : bool :=
  match m with MId i => P i | MGrp g => sat g end.
Fixpoint cnt (f : member -> bool) (l : list member) : N :=
  match l with [] => 0 | m :: r => (if f m then 1 else 0) + cnt f r end.

Lemma gsat_unfold P ms t : gsat P (G ms t) = threshold_met (cnt (msat (gsat P) P) ms) t.
Proof.
  cbn [gsat]. f_equal. induction ms as [|m r IH]; [reflexivity|].
  cbn [cnt]. rewrite <- IH. destruct m; reflexivity.
Qed.
Lemma group_sat_unfold P ms t : group_sat P (G ms t) = (t <=? cnt (msat (group_sat P) P) ms).
Proof.
  cbn [group_sat]. f_equal. induction ms as [|m r IH]; [reflexivity|].
  cbn [cnt]. rewrite <- IH. destruct m; reflexivity.
Qed.

Lemma cnt_ext f f' l :
  Forall (fun m => f m = f' m) l -> cnt f l = cnt f' l.
Proof. induction 1 as [|m r Hm _ IH]; cbn [cnt]; [reflexivity|]. rewrite Hm, IH. reflexivity. Qed.

Lemma cnt_mono f f' l :
  Forall (fun m => f m = true -> f' m = true) l -> cnt f l <= cnt f' l.
Proof.
  induction 1 as [|m r Hm _ IH]; cbn [cnt]; [lia|].
  destruct (f m) eqn:E; [rewrite (Hm eq_refl)|destruct (f' m)]; lia.
Qed.

(** the contract's threshold test is the specification's *)
Lemma gsat_group_sat P g : gsat P g = group_sat P g.
Proof.
  induction g as [ms t IH] using group_ind'.
  rewrite gsat_unfold, group_sat_unfold, gen_threshold_met.
  replace (cnt (msat (gsat P) P) ms) with (cnt (msat (group_sat P) P) ms); [reflexivity|].
  apply cnt_ext. induction IH as [|m r Hm _ IHr]; constructor; auto.
  all: try (destruct m; cbn [msat memP] in *; auto).
Qed.

Lemma group_sat_mono P Q g :
  (forall j, P j = true -> Q j = true) -> group_sat P g = true -> group_sat Q g = true.
Proof.
  intro HPQ. induction g as [ms t IH] using group_ind'.
  rewrite !group_sat_unfold. intro Ht. apply N.leb_le in Ht. apply N.leb_le.
  eapply N.le_trans; [exact Ht|]. apply cnt_mono. clear Ht.
  induction IH as [|m r Hm _ IHr]; constructor; auto.
  all: try (destruct m; cbn [msat memP] in *; auto).
Qed.

(** members of [leaves] *)
Fixpoint mleaves (l : list member) : list id :=
  match l with
  | [] => []
  | m :: r => match m with MId i => [i] | MGrp g => leaves g end ++ mleaves r
  end.
Lemma leaves_unfold ms t : leaves (G ms t) = mleaves ms.
Proof. cbn [leaves]. induction ms as [|m r IH]; [reflexivity|]. cbn [mleaves]. rewrite <- IH. reflexivity. Qed.

(** a satisfied group that is not satisfied by nobody has a satisfied leaf *)
Lemma group_sat_leaf P g :
  group_sat P g = true -> vacuous g = false -> exists j, In j (leaves g) /\ P j = true.
Proof.
  unfold vacuous. induction g as [ms t IH] using group_ind'.
  rewrite !group_sat_unfold, leaves_unfold. intros Hs Hv.
  apply N.leb_le in Hs. apply N.leb_gt in Hv.
  assert (Hlt : cnt (msat (group_sat (fun _ => false)) (fun _ => false)) ms
                < cnt (msat (group_sat P) P) ms) by lia.
  clear Hs Hv. induction IH as [|m r Hm _ IHr]; cbn [cnt mleaves] in *; [lia|].
  destruct (msat (group_sat P) P m) eqn:E1.
  - destruct (msat (group_sat (fun _ => false)) (fun _ => false) m) eqn:E2.
    + destruct IHr as [j [Hj Pj]]; [lia|]. exists j. split; [apply in_or_app; auto|exact Pj].
    + destruct m as [i|g]; cbn [msat] in *.
      * exists i. split; [left; reflexivity|exact E1].
      * destruct (Hm E1 E2) as [j [Hj Pj]]. exists j. split; [apply in_or_app; auto|exact Pj].
  - destruct IHr as [j [Hj Pj]].
    + destruct (msat (group_sat (fun _ => false)) (fun _ => false) m); lia.
    + exists j. split; [apply in_or_app; auto|exact Pj].
Qed.

(** * From the contract's checks to witnesses *)
Lemma mem_In a sg : mem a sg = true <-> In a sg.
Proof.
  unfold mem. rewrite existsb_exists. split.
  - intros [x [Hx E]]. apply N.eqb_eq in E. subst. exact Hx.
  - intro H. exists a. split; [exact H|apply N.eqb_refl].
Qed.

Lemma get_pk_nth keys idx p :
  get_pk keys idx = Some p -> nth_error keys (N.to_nat (idx - 1)) = Some p.
Proof.
  unfold get_pk. destruct keys as [|k r]; [discriminate|].
  destruct (getpk_index_invalid idx (len (k :: r))); [discriminate|auto].
Qed.

Section Witness.
  Variables (id_ok id_valid : id -> bool) (addr_of : key -> addr).

  Lemma key_witness_b_iff s sg i :
    key_witness_b addr_of s sg i = true <-> key_witness addr_of s sg i.
  Proof.
    unfold key_witness_b, key_witness, live_key_signed. rewrite existsb_exists. split.
    - intros [p [Hin Hp]]. apply andb_prop in Hp. destruct Hp as [Hp Hs].
      apply andb_prop in Hp. destruct Hp as [Hr Ha].
      destruct (In_nth_error _ _ Hin) as [n Hn]. exists n, p. repeat split; auto.
      + destruct (pk_revoked p); [discriminate|reflexivity].
      + apply (proj1 (mem_In _ _)). exact Hs.
    - intros [n [p [Hn [Hr [Ha Hs]]]]]. exists p. split; [eapply nth_error_In; eauto|].
      rewrite Hr, Ha. cbn. apply (proj2 (mem_In _ _)). exact Hs.
  Qed.

  Lemma cwbi_witness s sg i idx :
    cwbi addr_of s sg i idx = true -> key_witness addr_of s sg i.
  Proof.
    unfold cwbi. destruct (get_pk (r_keys (s i)) idx) as [p|] eqn:E; [|discriminate].
    rewrite gen_cwbi_revoked, gen_cwbi_noauth.
    destruct (pk_revoked p) eqn:Hr; [discriminate|].
    destruct (pk_auth p) eqn:Ha; cbn; [|discriminate].
    intro Hm. exists (N.to_nat (idx - 1)), p. repeat split; auto using get_pk_nth.
    apply mem_In. exact Hm.
  Qed.

  Lemma find_pk_spec keys b : forall n kid rv,
    find_pk keys b n = (kid, rv) -> kid <> 0 -> n <> 0 ->
    exists m p, nth_error keys m = Some p /\ b = BKey (pk_key p) /\
                pk_auth p = true /\ pk_revoked p = rv.
  Proof.
    induction keys as [|p r IH]; intros n kid rv; cbn [find_pk].
    - intros E; inversion E; subst. congruence.
    - rewrite gen_findpk. destruct (blob_is_key b (pk_key p) && pk_auth p) eqn:E.
      + intros E'; inversion E'; subst. intros _ _.
        apply andb_prop in E. destruct E as [Ek Ea].
        exists O, p. repeat split; auto.
        destruct b; cbn in Ek; try discriminate. apply N.eqb_eq in Ek. subst. reflexivity.
      + intros E' Hk Hn. destruct (IH (n + 1) kid rv E' Hk) as [m [q Hq]]; [lia|].
        exists (S m), q. exact Hq.
  Qed.

  Lemma is_owner_witness s sg i b :
    is_owner (r_keys (s i)) b = true -> check_witness addr_of sg b = true ->
    key_witness addr_of s sg i.
  Proof.
    unfold is_owner. destruct (find_pk (r_keys (s i)) b 1) as [kid rv] eqn:E.
    rewrite gen_is_owner_ok. intro H. apply andb_prop in H. destruct H as [Hk Hr].
    assert (Hk' : kid <> 0) by (intro; subst; discriminate).
    destruct (find_pk_spec _ _ _ _ _ E Hk') as [m [p [Hn [Hb [Ha Hrv]]]]]; [discriminate|].
    subst b. cbn [check_witness]. intro Hm. exists m, p. repeat split; auto.
    - rewrite Hrv. destruct rv; [discriminate|reflexivity].
    - apply mem_In. exact Hm.
  Qed.

  Lemma find_signer_In l j : find_signer l j = true -> exists x, In x l /\ fst x = j.
  Proof.
    unfold find_signer. rewrite existsb_exists. intros [x [Hx E]]. apply N.eqb_eq in E. eauto.
  Qed.

  Lemma verify_group_witnessed s sg g l :
    verify_group id_ok addr_of s sg g l = true -> group_witnessed addr_of s sg g.
  Proof.
    unfold verify_group, group_witnessed. intro H. apply andb_prop in H. destruct H as [Hg Hall].
    rewrite gsat_group_sat in Hg. eapply group_sat_mono; [|exact Hg].
    intros j Hj. destruct (find_signer_In _ _ Hj) as [x [Hx Ex]].
    rewrite forallb_forall in Hall. specialize (Hall x Hx). apply andb_prop in Hall.
    destruct Hall as [_ Hc]. subst j. apply key_witness_b_iff. eapply cwbi_witness. exact Hc.
  Qed.

  Lemma verify_single_witness s sg j pr :
    verify_single id_ok addr_of s sg j pr = true -> key_witness addr_of s sg j.
  Proof.
    unfold verify_single. destruct (p_index pr); [|discriminate]. intro H.
    apply andb_prop in H. destruct H as [_ H]. eapply cwbi_witness. exact H.
  Qed.

  Lemma verify_groupc_witnessed s sg g pr :
    verify_groupc id_ok addr_of s sg g pr = true -> group_witnessed addr_of s sg g.
  Proof.
    unfold verify_groupc. destruct (p_signers pr); [|discriminate]. apply verify_group_witnessed.
  Qed.

  Lemma verify_ctrl_holds s sg i pr :
    verify_ctrl id_ok addr_of s sg i pr = true ->
    exists c, r_ctrl (s i) = Some c /\ controller_witnessed addr_of s sg c.
  Proof.
    unfold verify_ctrl. destruct (r_ctrl (s i)) as [[j|g]|]; [| |discriminate]; intro H.
    - exists (CSingle j). split; [reflexivity|]. eapply verify_single_witness. exact H.
    - apply andb_prop in H. destruct H as [_ H].
      exists (CGroup g). split; [reflexivity|]. eapply verify_groupc_witnessed. exact H.
  Qed.

  Lemma verify_rec_holds s sg i sgn :
    verify_rec id_ok addr_of s sg i sgn = true ->
    exists g, r_rec (s i) = Some (RNew g) /\ group_witnessed addr_of s sg g.
  Proof.
    unfold verify_rec. destruct sgn as [l|]; [|discriminate].
    destruct (r_rec (s i)) as [[a|g]|]; try discriminate. intro H.
    apply andb_prop in H. destruct H as [_ H].
    exists g. split; [reflexivity|]. eapply verify_group_witnessed. exact H.
  Qed.

  Lemma old_rec_is_holds s sg i b :
    old_rec_is s i b = true -> check_witness addr_of sg b = true ->
    exists a, r_rec (s i) = Some (ROld a) /\ In a sg.
  Proof.
    unfold old_rec_is. destruct (r_rec (s i)) as [[a|g]|]; try discriminate.
    destruct b; cbn [blob_is_addr]; try discriminate. intro E. apply N.eqb_eq in E. subst.
    cbn [check_witness]. intro Hm. exists a. split; [reflexivity|apply mem_In; exact Hm].
  Qed.
End Witness.

(** * One step *)
Lemma upd_same s i r : upd s i r i = r.
Proof. unfold upd. rewrite N.eqb_refl. reflexivity. Qed.
Lemma upd_other s i r j : j <> i -> upd s i r j = s j.
Proof. unfold upd. intro H. apply N.eqb_neq in H. rewrite H. reflexivity. Qed.

Section Step.
  Variables (id_ok id_valid : id -> bool) (addr_of : key -> addr).
  Notation step := (step id_ok id_valid addr_of).
  Notation authorized := (authorized id_valid addr_of).

  Lemma with_keys_inv s i o s' :
    with_keys s i o = Some s' -> exists l, o = Some l /\ s' = upd s i (set_keys (s i) l).
  Proof. destruct o; cbn; intro H; inversion H; eauto. Qed.
  Lemma with_attrs_inv s i o s' :
    with_attrs s i o = Some s' -> exists l, o = Some l /\ s' = upd s i (set_attrs (s i) l).
  Proof. destruct o; cbn; intro H; inversion H; eauto. Qed.
  Lemma add_key_as_inv s i b isl isa s' :
    add_key_as s i b isl isa = Some s' ->
    exists k l, b = BKey k /\ insert_pk (r_keys (s i)) k isl isa = Some l /\
                s' = upd s i (set_keys (s i) l).
  Proof.
    destruct b; cbn [add_key_as]; try discriminate. intro H.
    apply with_keys_inv in H. destruct H as [l [H1 H2]]. eauto.
  Qed.
  Lemma put_recovery_inv s i ga s' :
    put_recovery id_ok s i ga = Some s' ->
    exists g, ga = Some g /\ s' = upd s i (set_rec (s i) (Some (RNew g))).
  Proof.
    unfold put_recovery. destruct ga as [g|]; [|discriminate].
    destruct (group_ok g 0 && validate_members id_ok s g); [|discriminate].
    intro H; inversion H; eauto.
  Qed.

  (** the conditions of a successful step, taken apart *)
  Ltac crack H :=
    repeat match type of H with
           | match ?x with _ => _ end = Some _ =>
               let E := fresh "E" in destruct x eqn:E; try discriminate H
           end.
  Ltac split_andb :=
    repeat match goal with
           | H : _ && _ = true |- _ => apply andb_prop in H; destruct H
           end.

  (** Every accepted call rewrites the record of the identity it addresses, and only that. *)
  Lemma step_shape lg s sg o s' : step lg s sg o = Some s' -> exists r, s' = upd s (target o) r.
  Proof.
    unfold OntId.step. destruct (lg && negb (legacy_method o)); [discriminate|].
    destruct o; cbn [target]; intro H; crack H;
      repeat match type of H with
             | with_keys _ _ _ = Some _ => apply with_keys_inv in H; destruct H as [? [_ H]]
             | with_attrs _ _ _ = Some _ => apply with_attrs_inv in H; destruct H as [? [_ H]]
             | add_key_as _ _ _ _ _ = Some _ => apply add_key_as_inv in H; destruct H as [? [? [_ [_ H]]]]
             | put_recovery _ _ _ _ = Some _ => apply put_recovery_inv in H; destruct H as [? [_ H]]
             | Some _ = Some _ => inversion H; clear H
             end; subst; eauto.
  Qed.

  Lemma step_frame lg s sg o s' j : step lg s sg o = Some s' -> j <> target o -> s' j = s j.
  Proof.
    intros H Hj. destruct (step_shape _ _ _ _ _ H) as [r Hr]. subst. apply upd_other. exact Hj.
  Qed.

  Lemma registered_of s i : is_valid s i = true -> registered s i.
  Proof. unfold is_valid, registered. apply is_valid_flag. Qed.

  (** Every accepted call is witnessed by the authority its method requires. *)
  Lemma step_authorized lg s sg o s' : step lg s sg o = Some s' -> authorized s sg o.
  Proof.
    unfold OntIdSpec.authorized, OntId.step. destruct (lg && negb (legacy_method o)); [discriminate|].
    destruct o; cbn [target required holds]; intro H; crack H; split_andb;
      repeat match goal with
             | H : is_valid _ _ = true |- _ => apply registered_of in H
             | H : newk_ok ?b = true |- _ => clear H
             end.
    all: try (split; [assumption|]).
    all: eauto using cwbi_witness, is_owner_witness, verify_ctrl_holds, verify_rec_holds.
    - (* regIDWithPublicKey *)
      split; [apply not_taken_flag; rewrite <- gen_reg_pk_taken; assumption|].
      eexists; split; [reflexivity|apply mem_In; assumption].
    - (* regIDWithAttributes *)
      split; [apply not_taken_flag; rewrite <- gen_reg_attr_taken; assumption|].
      eexists; split; [reflexivity|apply mem_In; assumption].
    - (* regIDWithController, single *)
      split; [apply not_taken_flag; rewrite <- gen_reg_ctrl_taken; assumption|].
      eapply verify_single_witness; eassumption.
    - (* regIDWithController, group *)
      split; [apply not_taken_flag; rewrite <- gen_reg_ctrl_taken; assumption|].
      eexists; split; [reflexivity|]. eapply verify_groupc_witnessed; eassumption.
    - (* addKey *)
      match goal with Ho : _ || _ = true |- _ => apply orb_prop in Ho; destruct Ho end;
        [right; eapply old_rec_is_holds; eassumption|left; eapply is_owner_witness; eassumption].
    - (* removeKey *)
      match goal with Ho : _ || _ = true |- _ => apply orb_prop in Ho; destruct Ho end;
        [right; eapply old_rec_is_holds; eassumption|left; eapply is_owner_witness; eassumption].
    - (* changeRecovery *)
      destruct (r_rec (s i)) as [[a|g]|]; try discriminate.
      match goal with He : (_ =? _) = true |- _ => apply N.eqb_eq in He; subst end.
      eexists. split; [reflexivity|]. apply mem_In. assumption.
  Qed.
End Step.

(** * Histories *)
Section History.
  Variables (id_ok id_valid : id -> bool) (addr_of : key -> addr).
  Notation step := (step id_ok id_valid addr_of).
  Notation step_ev := (step_ev id_ok id_valid addr_of).
  Notation run := (run id_ok id_valid addr_of).
  Notation trace := (trace id_ok id_valid addr_of).
  Notation authorized := (authorized id_valid addr_of).
  Notation accepted := (accepted id_ok id_valid addr_of).

  Lemma run_cons s e h : run s (e :: h) = run (step_ev s e) h.
  Proof. reflexivity. Qed.

  Lemma trace_last_run h : forall s, run s h = match rev (trace s h) with
                                               | [] => s
                                               | (_, _, post) :: _ => post
                                               end.
  Proof.
    induction h as [|e h IH]; intro s; [reflexivity|].
    rewrite run_cons, IH. cbn [OntIdSpec.trace rev].
    destruct (rev (trace (step_ev s e) h)) as [|[[a b] c] r] eqn:E; cbn; [reflexivity|reflexivity].
  Qed.

  (** consecutive entries of a trace are steps of the run *)
  Lemma trace_step h : forall s pre e post,
    In (pre, e, post) (trace s h) -> post = step_ev pre e.
  Proof.
    induction h as [|e0 h IH]; intros s pre e post; cbn [OntIdSpec.trace]; [intros []|].
    intros [H|H]; [inversion H; subst; reflexivity|eapply IH; exact H].
  Qed.

  (** [pre] of every entry is reachable from the start by a prefix of the history *)
  Lemma trace_prefix h : forall s pre e post,
    In (pre, e, post) (trace s h) -> exists h1 h2, h = h1 ++ e :: h2 /\ pre = run s h1.
  Proof.
    induction h as [|e0 h IH]; intros s pre e post; cbn [OntIdSpec.trace]; [intros []|].
    intros [H|H].
    - inversion H; subst. exists [], h. split; reflexivity.
    - destruct (IH _ _ _ _ H) as [h1 [h2 [E1 E2]]]. exists (e0 :: h1), h2. subst. split; reflexivity.
  Qed.

  Lemma step_ev_change s e i :
    step_ev s e i <> s i ->
    target (e_op e) = i /\ step (e_legacy e) s (e_signers e) (e_op e) = Some (step_ev s e).
  Proof.
    unfold OntId.step_ev. destruct (step (e_legacy e) s (e_signers e) (e_op e)) as [s'|] eqn:E; [|congruence].
    intro Hne. split; [|reflexivity].
    destruct (N.eq_dec i (target (e_op e))) as [->|Hd]; [reflexivity|].
    exfalso. apply Hne. eapply step_frame; eauto.
  Qed.

  (** Whenever the record of an identity differs between two consecutive states of a history,
      the event in between was an accepted call addressed to that identity and carried the
      authority its method requires. *)
  Lemma change_authorized h s pre e post i :
    In (pre, e, post) (trace s h) -> post i <> pre i ->
    target (e_op e) = i /\ accepted pre e /\ authorized pre (e_signers e) (e_op e).
  Proof.
    intros Hin Hne. rewrite (trace_step _ _ _ _ _ Hin) in Hne.
    destruct (step_ev_change _ _ _ Hne) as [Ht Hs]. split; [exact Ht|]. split.
    - unfold OntIdSpec.accepted. rewrite Hs. discriminate.
    - eapply step_authorized. exact Hs.
  Qed.

  Lemma accepted_authorized s e : accepted s e -> authorized s (e_signers e) (e_op e).
  Proof.
    unfold OntIdSpec.accepted. destruct (step (e_legacy e) s (e_signers e) (e_op e)) eqn:E; [|congruence].
    intros _. eapply step_authorized. exact E.
  Qed.

  (** ** revoked for ever *)
  Lemma authorized_flag s sg o :
    authorized s sg o -> registered s (target o) \/ unregistered s (target o).
  Proof.
    unfold OntIdSpec.authorized. destruct (required o); cbn [holds]; intros [H _]; auto.
  Qed.

  Lemma revoked_refused lg s sg o : id_revoked s (target o) -> step lg s sg o = None.
  Proof.
    unfold id_revoked. intro Hr. destruct (step lg s sg o) eqn:E; [|reflexivity].
    exfalso. destruct (authorized_flag _ _ _ (step_authorized _ _ _ _ _ _ _ _ E)) as [H|H];
      unfold registered, unregistered in H; rewrite H in Hr;
      destruct gen_flags_distinct as [A [B C]]; congruence.
  Qed.

  Lemma revoked_step_ev s e i : id_revoked s i -> step_ev s e i = s i.
  Proof.
    intro Hr. unfold OntId.step_ev.
    destruct (step (e_legacy e) s (e_signers e) (e_op e)) as [s'|] eqn:E; [|reflexivity].
    destruct (N.eq_dec i (target (e_op e))) as [->|Hd].
    - rewrite revoked_refused in E by exact Hr. discriminate.
    - eapply step_frame; eauto.
  Qed.

  Lemma revoked_run h : forall s i, id_revoked s i -> run s h i = s i.
  Proof.
    induction h as [|e h IH]; intros s i Hr; [reflexivity|].
    rewrite run_cons, IH; [apply revoked_step_ev; exact Hr|].
    unfold id_revoked in *. rewrite revoked_step_ev; exact Hr.
  Qed.

  Lemma revoked_trace h : forall s i, id_revoked s i ->
    forall pre e post, In (pre, e, post) (trace s h) ->
      pre i = s i /\ post i = s i /\ (target (e_op e) = i -> ~ accepted pre e).
  Proof.
    intros s i Hr pre e post Hin.
    destruct (trace_prefix _ _ _ _ _ Hin) as [h1 [h2 [_ Hp]]].
    assert (Hpre : pre i = s i) by (subst pre; apply revoked_run; exact Hr).
    assert (Hr' : id_revoked pre i) by (unfold id_revoked in *; rewrite Hpre; exact Hr).
    split; [exact Hpre|]. split.
    - rewrite (trace_step _ _ _ _ _ Hin), revoked_step_ev; assumption.
    - intros Ht Ha. apply Ha. apply revoked_refused. rewrite Ht. exact Hr'.
  Qed.
End History.

(** * The key list: indices are stable, revocation is permanent *)
Definition keys_ext (l l' : list pk) : Prop :=
  forall n p, nth_error l n = Some p ->
    exists p', nth_error l' n = Some p' /\ pk_key p' = pk_key p /\
               (pk_revoked p = true -> pk_revoked p' = true).

Lemma keys_ext_refl l : keys_ext l l.
Proof. intros n p H. exists p. auto. Qed.
Lemma keys_ext_trans a b c : keys_ext a b -> keys_ext b c -> keys_ext a c.
Proof.
  intros H1 H2 n p Hn. destruct (H1 _ _ Hn) as [p1 [Hn1 [Hk1 Hr1]]].
  destruct (H2 _ _ Hn1) as [p2 [Hn2 [Hk2 Hr2]]]. exists p2. repeat split; auto; congruence.
Qed.

Lemma nth_error_upd_nth {A} (l : list A) n x m :
  nth_error (upd_nth l n x) m =
  if Nat.eqb m n then match nth_error l n with Some _ => Some x | None => None end
  else nth_error l m.
Proof.
  revert n m. induction l as [|y r IH]; intros [|n] [|m]; cbn; auto.
  all: try (destruct (Nat.eqb m n); reflexivity).
  all: try apply IH.
Qed.

Lemma upd_nth_map_key l n p q :
  nth_error l n = Some p -> pk_key q = pk_key p ->
  map pk_key (upd_nth l n q) = map pk_key l.
Proof.
  revert n. induction l as [|y r IH]; intros [|n]; cbn; try discriminate.
  - intros E Hk. inversion E; subst. rewrite Hk. reflexivity.
  - intros E Hk. rewrite (IH _ E Hk). reflexivity.
Qed.

Lemma keys_ext_upd_nth l n p q :
  nth_error l n = Some p -> pk_key q = pk_key p ->
  (pk_revoked p = true -> pk_revoked q = true) -> keys_ext l (upd_nth l n q).
Proof.
  intros Hn Hk Hr m x Hm. rewrite nth_error_upd_nth.
  destruct (Nat.eqb m n) eqn:E.
  - apply PeanoNat.Nat.eqb_eq in E. subst m. rewrite Hn in *. inversion Hm; subst.
    exists q. auto.
  - exists x. auto.
Qed.

Lemma insert_pk_ext l k a b l' : insert_pk l k a b = Some l' -> keys_ext l l'.
Proof.
  unfold insert_pk. destruct (existsb _ l); [discriminate|]. intro H; inversion H; subst.
  intros n p Hn. exists p. split; [|auto]. rewrite nth_error_app1; [exact Hn|].
  apply nth_error_Some. congruence.
Qed.

Lemma revoke_loop_ext l b : forall l' f, revoke_loop l b = Some (l', f) ->
  keys_ext l l' /\ map pk_key l' = map pk_key l.
Proof.
  induction l as [|p r IH]; cbn [revoke_loop]; intros l' f H.
  - inversion H; subst. split; [apply keys_ext_refl|reflexivity].
  - destruct (blob_is_key b (pk_key p)).
    + destruct (pk_revoked p) eqn:Hr; [discriminate|].
      destruct (revoke_loop r b) as [[r' f']|]; [|discriminate]. inversion H; subst.
      destruct (IH _ _ eq_refl) as [He Hm]. split; [|cbn; rewrite Hm; reflexivity].
      intros [|n] x; cbn; intro Hn.
      * inversion Hn; subst. eexists; split; [reflexivity|]. cbn. auto.
      * apply He. exact Hn.
    + destruct (revoke_loop r b) as [[r' f']|]; [|discriminate]. inversion H; subst.
      destruct (IH _ _ eq_refl) as [He Hm]. split; [|cbn; rewrite Hm; reflexivity].
      intros [|n] x; cbn; intro Hn.
      * inversion Hn; subst. eexists; split; [reflexivity|]. auto.
      * apply He. exact Hn.
Qed.

Lemma revoke_pk_ext l b l' : revoke_pk l b = Some l' ->
  keys_ext l l' /\ map pk_key l' = map pk_key l.
Proof.
  unfold revoke_pk. destruct (revoke_loop l b) as [[x [|]]|] eqn:E; try discriminate.
  intro H; inversion H; subst. eapply revoke_loop_ext. exact E.
Qed.

Lemma revoke_by_index_ext l i l' : revoke_by_index l i = Some l' ->
  keys_ext l l' /\ map pk_key l' = map pk_key l.
Proof.
  unfold revoke_by_index. destruct (revoke_index_nokey i (len l)); [discriminate|].
  destruct (len l <=? u32 (i + 4294967295)); [discriminate|].
  destruct (nth_error l (N.to_nat (u32 (i + 4294967295)))) as [p|] eqn:E; [|discriminate].
  destruct (pk_revoked p); [discriminate|]. intro H; inversion H; subst. split.
  - eapply keys_ext_upd_nth; eauto.
  - eapply upd_nth_map_key; eauto.
Qed.

Lemma change_auth_ext l i v l' : change_auth l i v = Some l' ->
  keys_ext l l' /\ map pk_key l' = map pk_key l.
Proof.
  unfold change_auth. destruct (chauth_index_invalid i (len l)); [discriminate|].
  destruct (nth_error l (N.to_nat (i - 1))) as [p|] eqn:E; [|discriminate].
  destruct (chauth_reject_revoked (pk_revoked p)); [discriminate|]. intro H; inversion H; subst.
  split.
  - eapply keys_ext_upd_nth; eauto.
  - eapply upd_nth_map_key; eauto.
Qed.

(** * Well-formed records: the invariant of reachable states *)
Definition wf_rec (r : idrec) : Prop :=
  (r_flag r = FLAG_VALID \/ r = empty_rec \/ r = revoked_rec) /\ NoDup (map pk_key (r_keys r)).
Definition inv (s : state) : Prop := forall i, wf_rec (s i).

Lemma inv_init : inv init_state.
Proof. intro i. split; [right; left; reflexivity|constructor]. Qed.

Lemma NoDup_snoc {A} (l : list A) (k : A) : NoDup l -> ~ In k l -> NoDup (l ++ [k]).
Proof.
  induction 1 as [|x r Hx Hr IH]; cbn; intro Hk.
  - constructor; [intros []|constructor].
  - constructor.
    + intro Hin. apply in_app_or in Hin. destruct Hin as [Hin|[Hin|[]]]; [auto|].
      subst. apply Hk. left. reflexivity.
    + apply IH. intro. apply Hk. right. assumption.
Qed.

Lemma insert_pk_nodup l k a b l' :
  insert_pk l k a b = Some l' -> NoDup (map pk_key l) -> NoDup (map pk_key l').
Proof.
  unfold insert_pk. destruct (existsb (fun p => pk_key p =? k) l) eqn:E; [discriminate|].
  intro H; inversion H; subst. intro Hn. rewrite map_app. cbn.
  apply NoDup_snoc; [exact Hn|]. intro Hin. apply in_map_iff in Hin.
  destruct Hin as [p [Hk Hp]].
  assert (existsb (fun p => pk_key p =? k) l = true)
    by (apply existsb_exists; exists p; split; [exact Hp|apply N.eqb_eq; exact Hk]).
  congruence.
Qed.

Section StepKeys.
  Variables (id_ok id_valid : id -> bool) (addr_of : key -> addr).
  Notation step := (step id_ok id_valid addr_of).

  Ltac crack H :=
    repeat match type of H with
           | match ?x with _ => _ end = Some _ =>
               let E := fresh "E" in destruct x eqn:E; try discriminate H
           end.
  Ltac split_andb :=
    repeat match goal with
           | H : _ && _ = true |- _ => apply andb_prop in H; destruct H
           end.

  (** What an accepted call does to the addressed record: it becomes the revoked record, or it
      stays / becomes registered with a key list that extends the old one index by index. *)
  Lemma step_record lg s sg o s' :
    step lg s sg o = Some s' ->
    s' (target o) = revoked_rec \/
    (r_flag (s' (target o)) = FLAG_VALID /\
     keys_ext (r_keys (s (target o))) (r_keys (s' (target o))) /\
     (NoDup (map pk_key (r_keys (s (target o)))) -> NoDup (map pk_key (r_keys (s' (target o)))))).
  Proof.
    unfold OntId.step. destruct (lg && negb (legacy_method o)); [discriminate|].
    destruct o; cbn [target]; intro H; crack H; split_andb;
      repeat match goal with
             | H : is_valid _ _ = true |- _ => apply registered_of in H; unfold registered in H
             end;
      repeat match type of H with
             | with_keys _ _ _ = Some _ => apply with_keys_inv in H; destruct H as [? [? H]]
             | with_attrs _ _ _ = Some _ => apply with_attrs_inv in H; destruct H as [? [? H]]
             | add_key_as _ _ _ _ _ = Some _ => apply add_key_as_inv in H; destruct H as [? [? [? [? H]]]]
             | put_recovery _ _ _ _ = Some _ => apply put_recovery_inv in H; destruct H as [? [? H]]
             | Some _ = Some _ => inversion H; clear H
             end; subst; rewrite upd_same; try (left; reflexivity); right;
      cbn [r_flag r_keys set_keys set_flag set_ctrl set_rec set_attrs];
      (split; [try assumption; try reflexivity|]).
    all: try (split; [apply keys_ext_refl|auto]).
    all: try match goal with
             | H : insert_pk _ _ _ _ = Some _ |- _ =>
                 split; [eapply insert_pk_ext; exact H|eapply insert_pk_nodup; exact H]
             | H : revoke_pk _ _ = Some _ |- _ =>
                 destruct (revoke_pk_ext _ _ _ H) as [? Hm]; split; [assumption|rewrite Hm; auto]
             | H : revoke_by_index _ _ = Some _ |- _ =>
                 destruct (revoke_by_index_ext _ _ _ H) as [? Hm]; split; [assumption|rewrite Hm; auto]
             | H : change_auth _ _ _ = Some _ |- _ =>
                 destruct (change_auth_ext _ _ _ _ H) as [? Hm]; split; [assumption|rewrite Hm; auto]
             end.
  Qed.
End StepKeys.

Section Reachable.
  Variables (id_ok id_valid : id -> bool) (addr_of : key -> addr).
  Notation step := (step id_ok id_valid addr_of).
  Notation step_ev := (step_ev id_ok id_valid addr_of).
  Notation run := (run id_ok id_valid addr_of).
  Notation trace := (trace id_ok id_valid addr_of).

  Lemma wf_revoked_rec : wf_rec revoked_rec.
  Proof. split; [right; right; reflexivity|constructor]. Qed.

  Lemma inv_step lg s sg o s' : inv s -> step lg s sg o = Some s' -> inv s'.
  Proof.
    intros Hi Hs j. destruct (N.eq_dec j (target o)) as [->|Hd].
    - destruct (step_record _ _ _ _ _ _ _ _ Hs) as [Hr|[Hf [_ Hn]]].
      + rewrite Hr. apply wf_revoked_rec.
      + split; [left; exact Hf|apply Hn; apply Hi].
    - rewrite (step_frame _ _ _ _ _ _ _ _ _ Hs Hd). apply Hi.
  Qed.

  Lemma inv_step_ev s e : inv s -> inv (step_ev s e).
  Proof.
    intro Hi. unfold OntId.step_ev.
    destruct (step (e_legacy e) s (e_signers e) (e_op e)) eqn:E; [eapply inv_step; eauto|exact Hi].
  Qed.

  Lemma inv_run h : forall s, inv s -> inv (run s h).
  Proof. induction h as [|e h IH]; intros s Hi; [exact Hi|]. apply IH. apply inv_step_ev. exact Hi. Qed.

  Lemma inv_reachable h : inv (run init_state h).
  Proof. apply inv_run. apply inv_init. Qed.

  Lemma inv_trace h s pre e post : inv s -> In (pre, e, post) (trace s h) -> inv pre.
  Proof.
    intros Hi Hin. destruct (trace_prefix _ _ _ _ _ _ _ _ Hin) as [h1 [h2 [_ ->]]].
    apply inv_run. exact Hi.
  Qed.

  (** In a well-formed state an identity that is not registered (never was, or revoked) has no
      keys, no controller, no recovery and no attributes; in particular it witnesses nothing. *)
  Lemma inv_not_registered s j :
    inv s -> ~ registered s j -> s j = empty_rec \/ s j = revoked_rec.
  Proof. intros Hi Hn. destruct (Hi j) as [[H|H] _]; [contradiction|exact H]. Qed.

  Lemma inv_no_witness s sg j :
    inv s -> ~ registered s j -> ~ key_witness addr_of s sg j.
  Proof.
    intros Hi Hn [n [p [Hp _]]].
    destruct (inv_not_registered _ _ Hi Hn) as [E|E]; rewrite E in Hp; destruct n; discriminate.
  Qed.

  Lemma revoked_not_registered s j : id_revoked s j -> ~ registered s j.
  Proof.
    unfold id_revoked, registered. intros H1 H2. rewrite H1 in H2.
    destruct gen_flags_distinct as [_ [B _]]. congruence.
  Qed.

  (** ** key indices are stable and revocation of a key is permanent, along any history *)
  Lemma step_ev_keys s e i :
    id_revoked (step_ev s e) i \/ keys_ext (r_keys (s i)) (r_keys (step_ev s e i)).
  Proof.
    unfold OntId.step_ev. destruct (step (e_legacy e) s (e_signers e) (e_op e)) as [s'|] eqn:E;
      [|right; apply keys_ext_refl].
    destruct (N.eq_dec i (target (e_op e))) as [->|Hd].
    - destruct (step_record _ _ _ _ _ _ _ _ E) as [Hr|[_ [Hk _]]].
      + left. unfold id_revoked. rewrite Hr. reflexivity.
      + right. exact Hk.
    - right. rewrite (step_frame _ _ _ _ _ _ _ _ _ E Hd). apply keys_ext_refl.
  Qed.

  Lemma run_keys h : forall s i,
    id_revoked (run s h) i \/ keys_ext (r_keys (s i)) (r_keys (run s h i)).
  Proof.
    induction h as [|e h IH]; intros s i; [right; apply keys_ext_refl|].
    rewrite run_cons. destruct (step_ev_keys s e i) as [Hr|Hk].
    - left. unfold id_revoked. rewrite revoked_run; exact Hr.
    - destruct (IH (step_ev s e) i) as [Hr|Hk']; [left; exact Hr|right].
      eapply keys_ext_trans; eauto.
  Qed.

  Lemma nodup_key_index l m n q q' :
    NoDup (map pk_key l) -> nth_error l m = Some q -> nth_error l n = Some q' ->
    pk_key q = pk_key q' -> q = q'.
  Proof.
    intros Hnd Hm Hn Hk.
    assert (E : m = n).
    { apply (proj1 (NoDup_nth_error (map pk_key l)) Hnd).
      - rewrite map_length. apply nth_error_Some. congruence.
      - rewrite (map_nth_error pk_key _ _ Hm), (map_nth_error pk_key _ _ Hn), Hk. reflexivity. }
    subst. congruence.
  Qed.

  (** Once a key of an identity is revoked, no entry of that identity's key list with these key
      bytes is ever live again. *)
  Lemma revoked_key_for_ever s i n p h m q :
    inv s -> nth_error (r_keys (s i)) n = Some p -> pk_revoked p = true ->
    nth_error (r_keys (run s h i)) m = Some q -> pk_key q = pk_key p -> pk_revoked q = true.
  Proof.
    intros Hi Hn Hr Hm Hk. pose proof (inv_run h s Hi) as Hi'.
    destruct (run_keys h s i) as [Hrev|Hext].
    - exfalso. destruct (inv_not_registered _ _ Hi' (revoked_not_registered _ _ Hrev)) as [E|E];
        rewrite E in Hm; destruct m; discriminate.
    - destruct (Hext _ _ Hn) as [p' [Hn' [Hk' Hr']]].
      assert (q = p') by (eapply nodup_key_index; [apply Hi'| | |]; eauto; congruence).
      subst. auto.
  Qed.
End Reachable.

(** * The literal reading: at least one witnessing key behind every accepted change *)
Section Literal.
  Variables (id_ok id_valid : id -> bool) (addr_of : key -> addr).

  Lemma group_witnessed_has_witness s sg g :
    group_witnessed addr_of s sg g -> vacuous g = false -> group_has_witness addr_of s sg g.
  Proof.
    unfold group_witnessed, group_has_witness. intros H Hv.
    destruct (group_sat_leaf _ _ H Hv) as [j [Hj Pj]].
    exists j. split; [exact Hj|apply key_witness_b_iff; exact Pj].
  Qed.

  Lemma holds_has_witness s sg i a :
    holds id_valid addr_of s sg i a ->
    (forall g, authority_group id_valid s i a = Some g -> vacuous g = false) ->
    has_witness id_valid addr_of s sg i a.
  Proof.
    destruct a; cbn [holds has_witness authority_group]; intros H Hv.
    - apply H.
    - apply H.
    - apply H.
    - destruct H as [_ [c [Hc Hw]]]. rewrite Hc in *. destruct c as [j|g]; cbn in Hw; [exact Hw|].
      apply group_witnessed_has_witness; auto.
    - destruct H as [_ [g [Hg Hw]]]. rewrite Hg in *. apply group_witnessed_has_witness; auto.
    - apply H.
    - destruct H as [_ H]. destruct (id_valid (ca_id c)); [exact H|].
      destruct H as [g [Hg Hw]]. rewrite Hg in *. apply group_witnessed_has_witness; auto.
  Qed.

  (** a vacuous group is witnessed by the empty signer set *)
  Lemma vacuous_witnessed s g : vacuous g = true -> group_witnessed addr_of s [] g.
  Proof.
    unfold vacuous, group_witnessed. apply group_sat_mono. discriminate.
  Qed.

  (** ** a revoked (or never registered) identity carries no authority *)
  Lemma dead_controller_refuses s sg o j :
    inv s -> r_ctrl (s (target o)) = Some (CSingle j) -> ~ registered s j ->
    required o = AController -> forall lg, step id_ok id_valid addr_of lg s sg o = None.
  Proof.
    intros Hi Hc Hj Hr lg. destruct (step id_ok id_valid addr_of lg s sg o) eqn:E; [|reflexivity].
    exfalso. pose proof (step_authorized _ _ _ _ _ _ _ _ E) as Ha.
    unfold authorized in Ha. rewrite Hr in Ha. destruct Ha as [_ [c [Hc' Hw]]].
    rewrite Hc in Hc'. inversion Hc'; subst. cbn in Hw.
    eapply inv_no_witness; eauto.
  Qed.

  Lemma dead_group_not_witnessed s sg g :
    inv s -> (forall j, In j (leaves g) -> ~ registered s j) -> vacuous g = false ->
    ~ group_witnessed addr_of s sg g.
  Proof.
    intros Hi Hl Hv Hw. destruct (group_witnessed_has_witness _ _ _ Hw Hv) as [j [Hj Hk]].
    eapply inv_no_witness; eauto.
  Qed.
End Literal.
