(** Proofs about Model/Base58.v: decimal / base-58 / base-256 conversions compose to the identity
    on canonical inputs, hence AddressFromBase58 (ToBase58 a) = a; the final re-encode comparison
    makes the canonical string the only accepted one; hex round trips. *)
From Coq Require Import List Bool Arith NArith Lia ZArith ZifyN ZifyNat ZifyBool.
Import ListNotations.
From Ont Require Import Lib.Bytes Lib.Radix Gen.AddrConsts Model.Base58.
Local Open Scope N_scope.
Open Scope bool_scope.
Ltac Zify.zify_post_hook ::= Z.to_euclidean_division_equations.

(** * Facts about the regenerated constants (re-checked by computation on every build) *)

Lemma radix_ge2 : 2 <= B58_RADIX.
Proof. vm_compute. discriminate. Qed.

Lemma alphabet_length : length B58_ALPHABET = N.to_nat B58_RADIX.
Proof. reflexivity. Qed.

Lemma alphabet_wf : wf_bytes B58_ALPHABET = true.
Proof. reflexivity. Qed.

Lemma ver_idx_0 : DEC_VER_IDX = 0%nat.
Proof. reflexivity. Qed.

Lemma ver_same : ADDR_VERSION_ENC = ADDR_VERSION_DEC.
Proof. reflexivity. Qed.

Lemma ver_range : 0 < ADDR_VERSION_ENC < 256.
Proof. split; reflexivity. Qed.

Lemma dec_slice : DEC_LO = 1%nat /\ (DEC_HI - DEC_LO)%nat = B58_ADDR_LEN.
Proof. split; reflexivity. Qed.

Lemma dec_len : DEC_LEN = (1 + B58_ADDR_LEN + (CHK_HI - CHK_LO))%nat.
Proof. reflexivity. Qed.

Lemma chk_in_hash : (CHK_LO + (CHK_HI - CHK_LO) <= HASH_LEN)%nat.
Proof. vm_compute. repeat constructor. Qed.

(** the longest payload still encodes to at most MaxBase58AddrLen characters *)
Lemma guard_const : 256 ^ N.of_nat DEC_LEN <= B58_RADIX ^ N.of_nat (N.to_nat MAX_B58_ADDR_LEN).
Proof. apply N.leb_le. vm_compute. reflexivity. Qed.

(** * The alphabet table *)

Definition below (k : nat) : list N := map N.of_nat (seq 0 k).

Lemma in_below d k : d < N.of_nat k -> In d (below k).
Proof.
  intro H. unfold below. apply in_map_iff. exists (N.to_nat d). split; [apply N2Nat.id|].
  apply in_seq. lia.
Qed.

Lemma alpha_index_alpha_sweep :
  forallb (fun d => match alpha_index (alpha d) with Some d' => d' =? d | None => false end)
          (below (N.to_nat B58_RADIX)) = true.
Proof. vm_compute. reflexivity. Qed.

Lemma alpha_index_alpha d : d < B58_RADIX -> alpha_index (alpha d) = Some d.
Proof.
  intro H. pose proof alpha_index_alpha_sweep as S. rewrite forallb_forall in S.
  specialize (S d). destruct (alpha_index (alpha d)) as [d'|].
  - f_equal. apply N.eqb_eq. apply S. apply in_below. lia.
  - exfalso. assert (false = true) by (apply S; apply in_below; lia). discriminate.
Qed.

Lemma alpha_inj d e : d < B58_RADIX -> e < B58_RADIX -> alpha d = alpha e -> d = e.
Proof.
  intros Hd He E. apply alpha_index_alpha in Hd. apply alpha_index_alpha in He.
  rewrite E in Hd. congruence.
Qed.

Lemma index_from_sound tbl : forall i c d,
  index_from i tbl c = Some d -> i <= d /\ d < i + N.of_nat (length tbl) /\ nth (N.to_nat (d - i)) tbl 0 = c.
Proof.
  induction tbl as [|x r IH]; intros i c d E; cbn [index_from] in E; [discriminate|].
  destruct (N.eqb_spec x c) as [->|Hne].
  - injection E as <-. cbn [length]. rewrite N.sub_diag. cbn. lia.
  - apply IH in E. destruct E as (L & U & Nt). cbn [length]. repeat split; try lia.
    replace (N.to_nat (d - i)) with (S (N.to_nat (d - (i + 1)))) by lia. exact Nt.
Qed.

Lemma alpha_index_sound c d : alpha_index c = Some d -> d < B58_RADIX /\ alpha d = c.
Proof.
  intro E. apply index_from_sound in E. destruct E as (_ & U & Nt).
  rewrite alphabet_length in U. rewrite N.sub_0_r in Nt. split; [lia|exact Nt].
Qed.

Lemma alpha_byte d : d < B58_RADIX -> alpha d < 256.
Proof.
  intro H. unfold alpha. pose proof alphabet_wf as W. unfold wf_bytes in W. rewrite forallb_forall in W.
  apply N.ltb_lt. apply (W (nth (N.to_nat d) B58_ALPHABET 0)). apply nth_In. rewrite alphabet_length. lia.
Qed.

(** * map_opt *)

Lemma map_opt_map {A B} (f : A -> option B) (g : B -> A) (l : list B) :
  Forall (fun y => f (g y) = Some y) l -> map_opt f (map g l) = Some l.
Proof.
  induction 1 as [|y l Hy _ IH]; [reflexivity|]. cbn [map map_opt]. rewrite Hy, IH. reflexivity.
Qed.

Lemma map_opt_app {A B} (f : A -> option B) (l1 l2 : list A) r1 r2 :
  map_opt f l1 = Some r1 -> map_opt f l2 = Some r2 -> map_opt f (l1 ++ l2) = Some (r1 ++ r2).
Proof.
  revert r1. induction l1 as [|x l1 IH]; intros r1 E1 E2.
  - injection E1 as <-. exact E2.
  - cbn [map_opt app] in *. destruct (f x); [|discriminate].
    destruct (map_opt f l1) as [r|]; [|discriminate]. injection E1 as <-.
    rewrite (IH r eq_refl E2). reflexivity.
Qed.

Lemma map_opt_sound {A B} (f : A -> option B) (l : list A) r :
  map_opt f l = Some r -> Forall2 (fun x y => f x = Some y) l r.
Proof.
  revert r. induction l as [|x l IH]; intros r E; cbn [map_opt] in E.
  - injection E as <-. constructor.
  - destruct (f x) eqn:Ex; [|discriminate]. destruct (map_opt f l) as [r'|]; [|discriminate].
    injection E as <-. constructor; auto.
Qed.

(** * Decimal strings *)

Lemma dec_digit_char d : d < 10 -> dec_digit (ch_0 + d) = Some d.
Proof.
  intro H. unfold dec_digit, ch_0.
  destruct (N.leb_spec 48 (48 + d)); [|lia]. destruct (N.leb_spec (48 + d) (48 + 9)); [|lia].
  cbn [andb]. f_equal. lia.
Qed.

Lemma map_opt_dec_digits ds : digits_lt 10 ds -> map_opt dec_digit (map (fun d => ch_0 + d) ds) = Some ds.
Proof.
  intro H. apply map_opt_map. eapply Forall_impl; [|exact H]. intros d Hd. apply dec_digit_char; exact Hd.
Qed.

Lemma map_opt_dec_zeros k : map_opt dec_digit (repeat ch_0 k) = Some (repeat 0 k).
Proof. induction k as [|k IH]; [reflexivity|]. cbn [repeat map_opt]. rewrite IH. reflexivity. Qed.

Lemma big_string10_digits x :
  exists ds, big_string10 x = map (fun d => ch_0 + d) ds /\ digits_lt 10 ds /\ ds <> [] /\ of_digits 10 ds = x.
Proof.
  unfold big_string10. destruct (N.eqb_spec x 0) as [->|Hx].
  - exists [0]. repeat split; try discriminate. constructor; [lia|constructor].
  - exists (to_digits 10 x). repeat split.
    + apply to_digits_lt. lia.
    + intro E. apply to_digits_nil in E; [contradiction|lia].
    + apply of_to_digits. lia.
Qed.

(** SetString(_, 10) reads back String(), also behind any number of leading '0's *)
Lemma set_string10_zeros_string k x : big_set_string10 (repeat ch_0 k ++ big_string10 x) = Some x.
Proof.
  destruct (big_string10_digits x) as (ds & -> & Hlt & Hne & Hv).
  unfold big_set_string10.
  rewrite (map_opt_app _ _ _ _ _ (map_opt_dec_zeros k) (map_opt_dec_digits ds Hlt)).
  rewrite of_digits_leading_zeros, Hv.
  destruct (repeat ch_0 k ++ map (fun d => ch_0 + d) ds) eqn:E; [|reflexivity].
  apply app_eq_nil in E. destruct E as [_ E]. destruct ds; [congruence|discriminate].
Qed.

Lemma set_string10_string x : big_set_string10 (big_string10 x) = Some x.
Proof. exact (set_string10_zeros_string 0 x). Qed.

(** the decimal string of a non-zero number has no leading '0' and is not empty *)
Lemma big_string10_nonzero x : x <> 0 ->
  exists d r, big_string10 x = (ch_0 + d) :: r /\ d <> 0.
Proof.
  intro Hx. unfold big_string10. destruct (N.eqb_spec x 0); [contradiction|].
  pose proof (to_digits_canon 10 ltac:(lia) x) as C.
  destruct (to_digits 10 x) as [|d r] eqn:E.
  - apply to_digits_nil in E; [contradiction|lia].
  - exists d, (map (fun d => ch_0 + d) r). split; [reflexivity|exact C].
Qed.

(** * base-58 Encode / Decode on the strings that occur *)

Lemma count_leading_head_ne z c r : c <> z -> count_leading z (c :: r) = 0%nat.
Proof. intro H. cbn [count_leading]. destruct (N.eqb_spec c z); [contradiction|reflexivity]. Qed.

Lemma count_leading_not_last_head_ne z c r : c <> z -> count_leading_not_last z (c :: r) = 0%nat.
Proof.
  intro H. cbn [count_leading_not_last]. destruct r; [reflexivity|].
  destruct (N.eqb_spec c z); [contradiction|reflexivity].
Qed.

(** Encode of the decimal string of a non-zero number: its base-58 digits through the alphabet *)
Lemma b58_encode_string x : x <> 0 ->
  b58_encode (big_string10 x) = Some (map alpha (to_digits B58_RADIX x)).
Proof.
  intro Hx. unfold b58_encode. rewrite set_string10_string.
  destruct (big_string10_nonzero x Hx) as (d & r & E & Hd). rewrite E.
  rewrite count_leading_head_ne by (unfold ch_0; lia). reflexivity.
Qed.

Lemma map_opt_alpha_index ds : digits_lt B58_RADIX ds -> map_opt alpha_index (map alpha ds) = Some ds.
Proof.
  intro H. apply map_opt_map. eapply Forall_impl; [|exact H]. intros d Hd. apply alpha_index_alpha; exact Hd.
Qed.

(** Decode of a canonical base-58 digit string (no leading alphabet[0]) of x <> 0 *)
Lemma b58_decode_digits x : x <> 0 ->
  b58_decode (map alpha (to_digits B58_RADIX x)) = Some (big_string10 x).
Proof.
  intro Hx. pose proof radix_ge2 as Hb.
  pose proof (to_digits_lt B58_RADIX Hb x) as Hlt. pose proof (to_digits_canon B58_RADIX Hb x) as Hc.
  pose proof (of_to_digits B58_RADIX Hb x) as Hv.
  destruct (to_digits B58_RADIX x) as [|d r] eqn:E.
  - apply to_digits_nil in E; [contradiction|exact Hb].
  - unfold b58_decode. cbn [map]. change (alpha d :: map alpha r) with (map alpha (d :: r)).
    rewrite (map_opt_alpha_index _ Hlt), Hv. cbn [map].
    rewrite count_leading_not_last_head_ne; [reflexivity|].
    intro Ea. apply alpha_inj in Ea.
    + unfold canon in Hc. cbn in Hc. contradiction.
    + inversion Hlt; assumption.
    + lia.
Qed.

(** Decode with [k] extra leading alphabet[0] characters: [k] leading '0's in the decimal string *)
Lemma b58_decode_leading k x : x <> 0 ->
  b58_decode (repeat (alpha 0) k ++ map alpha (to_digits B58_RADIX x)) = Some (repeat ch_0 k ++ big_string10 x).
Proof.
  intro Hx. pose proof radix_ge2 as Hb.
  pose proof (to_digits_lt B58_RADIX Hb x) as Hlt. pose proof (to_digits_canon B58_RADIX Hb x) as Hc.
  pose proof (of_to_digits B58_RADIX Hb x) as Hv.
  destruct (to_digits B58_RADIX x) as [|d r] eqn:E.
  { apply to_digits_nil in E; [contradiction|exact Hb]. }
  assert (Hd : alpha d <> alpha 0).
  { intro Ea. apply alpha_inj in Ea; [|inversion Hlt; assumption|lia]. unfold canon in Hc. cbn in Hc. contradiction. }
  assert (M : map_opt alpha_index (repeat (alpha 0) k ++ map alpha (d :: r)) = Some (repeat 0 k ++ d :: r)).
  { apply map_opt_app; [|apply map_opt_alpha_index; exact Hlt].
    clear. induction k as [|k IH]; [reflexivity|]. cbn [repeat map_opt].
    rewrite alpha_index_alpha by (pose proof radix_ge2; lia). rewrite IH. reflexivity. }
  assert (Z : count_leading_not_last (alpha 0) (repeat (alpha 0) k ++ map alpha (d :: r)) = k).
  { clear - Hd. induction k as [|k IH].
    - cbn [repeat app map]. apply count_leading_not_last_head_ne. exact Hd.
    - cbn [repeat app]. cbn [count_leading_not_last].
      destruct (repeat (alpha 0) k ++ map alpha (d :: r)) eqn:E2.
      + destruct k; discriminate.
      + rewrite N.eqb_refl. rewrite IH. reflexivity. }
  unfold b58_decode. rewrite M, Z, of_digits_leading_zeros, Hv.
  destruct (repeat (alpha 0) k ++ map alpha (d :: r)) eqn:E2; [|reflexivity].
  destruct k; discriminate.
Qed.

(** * math/big Bytes after SetBytes *)

Lemma wf_digits_lt b : wf_bytes b = true <-> digits_lt 256 b.
Proof.
  unfold wf_bytes, digits_lt, byte_ok. rewrite forallb_forall, Forall_forall.
  split; intros H x Hx; specialize (H x Hx); [apply N.ltb_lt|apply N.ltb_lt]; exact H.
Qed.

Lemma big_bytes_set_bytes d : wf_bytes d = true -> hd 1 d <> 0 -> big_bytes (big_set_bytes d) = d.
Proof.
  intros W C. unfold big_bytes, big_set_bytes. apply to_of_digits; [lia| |exact C].
  apply wf_digits_lt. exact W.
Qed.

Lemma big_bytes_wf x : wf_bytes (big_bytes x) = true.
Proof. apply wf_digits_lt. apply to_digits_lt. lia. Qed.

(** * Addresses *)

Definition addr_ok (a : bytes) : Prop := length a = B58_ADDR_LEN /\ wf_bytes a = true.

Lemma parse_ok f : length f = B58_ADDR_LEN -> address_parse_from_bytes f = inr f.
Proof. intro H. unfold address_parse_from_bytes. rewrite H, Nat.eqb_refl. reflexivity. Qed.

Lemma parse_inv f a : address_parse_from_bytes f = inr a -> a = f /\ length f = B58_ADDR_LEN.
Proof.
  unfold address_parse_from_bytes. destruct (Nat.eqb_spec (length f) B58_ADDR_LEN); intro E; [|discriminate].
  injection E as <-. auto.
Qed.

Section WithHash.
  Variable H : bytes -> bytes.
  (** sha256.Sum256 returns a [32]byte *)
  Hypothesis H_length : forall x, length (H x) = HASH_LEN.
  Hypothesis H_wf : forall x, wf_bytes (H x) = true.

  Lemma checksum_length data : length (checksum H data) = (CHK_HI - CHK_LO)%nat.
  Proof. unfold checksum. apply slice_length. rewrite H_length. exact chk_in_hash. Qed.

  Lemma checksum_wf data : wf_bytes (checksum H data) = true.
  Proof. unfold checksum. apply wf_slice. apply H_wf. Qed.

  Lemma payload_length a : length a = B58_ADDR_LEN -> length (payload H a) = DEC_LEN.
  Proof.
    intro L. unfold payload. rewrite !app_length, checksum_length, L, dec_len. reflexivity.
  Qed.

  Lemma payload_wf a : wf_bytes a = true -> wf_bytes (payload H a) = true.
  Proof.
    intro W. unfold payload. rewrite !wf_bytes_app, W, checksum_wf.
    assert (E : wf_bytes [ADDR_VERSION_ENC] = true).
    { unfold wf_bytes. cbn [forallb]. unfold byte_ok. pose proof ver_range as [_ V].
      apply N.ltb_lt in V. rewrite V. reflexivity. }
    rewrite E. reflexivity.
  Qed.

  Lemma payload_head a : exists r, payload H a = ADDR_VERSION_ENC :: r.
  Proof. unfold payload. cbn [app]. eexists. reflexivity. Qed.

  Lemma payload_value_nonzero a : wf_bytes a = true -> big_set_bytes (payload H a) <> 0.
  Proof.
    intro W. unfold big_set_bytes. destruct (payload_head a) as (r & E).
    apply of_digits_nonzero; [lia| |rewrite E; discriminate].
    rewrite E. unfold canon. cbn. pose proof ver_range. lia.
  Qed.

  Lemma payload_value_bound a : addr_ok a -> big_set_bytes (payload H a) < 256 ^ N.of_nat DEC_LEN.
  Proof.
    intros [L W]. unfold big_set_bytes. rewrite <- (payload_length a L).
    apply of_digits_bound. apply wf_digits_lt. apply payload_wf. exact W.
  Qed.

  (** ToBase58: the base-58 digits of the 25-byte big-endian number, through the alphabet *)
  Lemma to_base58_digits a : wf_bytes a = true ->
    to_base58 H a = map alpha (to_digits B58_RADIX (big_set_bytes (payload H a))).
  Proof.
    intro W. unfold to_base58. rewrite b58_encode_string; [reflexivity|]. apply payload_value_nonzero. exact W.
  Qed.

  Lemma nocheck_to a : addr_ok a -> from_base58_nocheck (to_base58 H a) = inr a.
  Proof.
    intros [L W]. pose proof radix_ge2 as Hb.
    set (x := big_set_bytes (payload H a)).
    assert (Hx : x <> 0) by (apply payload_value_nonzero; exact W).
    rewrite (to_base58_digits a W). fold x.
    unfold from_base58_nocheck.
    (* length guard *)
    assert (Hl1 : length (map alpha (to_digits B58_RADIX x)) <> 0%nat).
    { rewrite map_length. intro E. apply length_zero_iff_nil in E. apply to_digits_nil in E; [contradiction|exact Hb]. }
    assert (Hl2 : (length (map alpha (to_digits B58_RADIX x)) <= N.to_nat MAX_B58_ADDR_LEN)%nat).
    { rewrite map_length. apply to_digits_length_le; [exact Hb|].
      eapply N.lt_le_trans; [apply payload_value_bound; split; assumption|exact guard_const]. }
    destruct (N.eqb_spec (N.of_nat (length (map alpha (to_digits B58_RADIX x)))) 0) as [E0|_]; [lia|].
    destruct (N.ltb_spec MAX_B58_ADDR_LEN (N.of_nat (length (map alpha (to_digits B58_RADIX x))))) as [E1|_]; [lia|].
    cbn [orb].
    rewrite (b58_decode_digits x Hx), set_string10_string.
    unfold x. rewrite big_bytes_set_bytes.
    - rewrite (payload_length a L), Nat.eqb_refl. cbn [negb orb].
      destruct (payload_head a) as (r & E). rewrite ver_idx_0. rewrite E at 1. cbn [nth].
      rewrite ver_same, N.eqb_refl. cbn [negb].
      destruct dec_slice as [Elo Ehi]. rewrite Ehi, Elo, <- L.
      unfold payload. rewrite <- app_assoc.
      change 1%nat with (length [ADDR_VERSION_ENC]).
      rewrite slice_app_exact. apply parse_ok. exact L.
    - apply payload_wf. exact W.
    - destruct (payload_head a) as (r & E). rewrite E. cbn. pose proof ver_range. lia.
  Qed.

  (** ** from_to: every address decodes from its own encoding *)
  Theorem from_to a : addr_ok a -> from_base58 H (to_base58 H a) = inr a.
  Proof.
    intro Ha. unfold from_base58. rewrite (nocheck_to a Ha).
    assert (E : bytes_eqb (to_base58 H a) (to_base58 H a) = true) by (apply bytes_eqb_eq; reflexivity).
    rewrite E. reflexivity.
  Qed.

  Lemma nocheck_addr_ok s a : from_base58_nocheck s = inr a -> addr_ok a.
  Proof.
    unfold from_base58_nocheck.
    destruct (_ || _); [discriminate|]. destruct (b58_decode s) as [dec|]; [|discriminate].
    destruct (big_set_string10 dec) as [x|]; [|discriminate].
    destruct (_ || _); [discriminate|]. intro E. apply parse_inv in E. destruct E as [-> L].
    split; [exact L|]. apply wf_slice. apply big_bytes_wf.
  Qed.

  (** ** from_only_canonical: whatever is accepted is the canonical encoding of the result.
      No hypothesis on [s]: any byte string. *)
  Theorem from_only_canonical s a : from_base58 H s = inr a -> s = to_base58 H a /\ addr_ok a.
  Proof.
    unfold from_base58. destruct (from_base58_nocheck s) as [e|ph] eqn:E; [discriminate|].
    destruct (bytes_eqb (to_base58 H ph) s) eqn:Eq; [|discriminate].
    intro R. injection R as <-. apply bytes_eqb_eq in Eq. split; [symmetry; exact Eq|].
    eapply nocheck_addr_ok; exact E.
  Qed.

  Theorem accept_iff s a : from_base58 H s = inr a <-> (addr_ok a /\ s = to_base58 H a).
  Proof.
    split.
    - intro E. apply from_only_canonical in E. tauto.
    - intros [Ha ->]. apply from_to. exact Ha.
  Qed.

  Theorem to_base58_injective a b : addr_ok a -> addr_ok b -> to_base58 H a = to_base58 H b -> a = b.
  Proof.
    intros Ha Hb E. pose proof (from_to a Ha) as Fa. rewrite E, (from_to b Hb) in Fa. congruence.
  Qed.

  (** any string other than the encoding of [a] never decodes to [a]; if it decodes at all it is
      itself the complete canonical encoding (version, address, matching checksum) of the result *)
  Theorem corrupted_rejected a s : s <> to_base58 H a -> from_base58 H s <> inr a.
  Proof. intros Hne E. apply from_only_canonical in E. tauto. Qed.

  (** at most one string decodes to a given address: two accepted strings with the same result are
      the same string, whatever the hash function is *)
  Theorem from_base58_unique s1 s2 a : from_base58 H s1 = inr a -> from_base58 H s2 = inr a -> s1 = s2.
  Proof.
    intros E1 E2. apply from_only_canonical in E1. apply from_only_canonical in E2.
    destruct E1 as [-> _]. destruct E2 as [-> _]. reflexivity.
  Qed.
End WithHash.

(** * What the final comparison is needed for: without it, leading alphabet[0] characters and
      arbitrary checksum bytes are accepted *)

Lemma nocheck_payload k a c :
  addr_ok a -> length c = (CHK_HI - CHK_LO)%nat -> wf_bytes c = true ->
  (k + length (to_digits B58_RADIX (big_set_bytes ([ADDR_VERSION_ENC] ++ a ++ c))) <= N.to_nat MAX_B58_ADDR_LEN)%nat ->
  from_base58_nocheck
    (repeat (alpha 0) k ++ map alpha (to_digits B58_RADIX (big_set_bytes ([ADDR_VERSION_ENC] ++ a ++ c)))) = inr a.
Proof.
  intros [L W] Lc Wc. pose proof radix_ge2 as Hb. pose proof ver_range as [V0 V1].
  set (p := [ADDR_VERSION_ENC] ++ a ++ c). set (x := big_set_bytes p). intro Hk.
  assert (Wp : wf_bytes p = true).
  { unfold p. rewrite !wf_bytes_app, W, Wc. unfold wf_bytes. cbn [forallb]. unfold byte_ok.
    apply N.ltb_lt in V1. rewrite V1. reflexivity. }
  assert (Cp : hd 1 p <> 0) by (unfold p; cbn; lia).
  assert (Hx : x <> 0).
  { unfold x, big_set_bytes. apply of_digits_nonzero; [lia|exact Cp|unfold p; discriminate]. }
  assert (Hne : to_digits B58_RADIX x <> []).
  { intro E. apply to_digits_nil in E; [contradiction|exact Hb]. }
  unfold from_base58_nocheck.
  set (s := repeat (alpha 0) k ++ map alpha (to_digits B58_RADIX x)).
  assert (Ls : length s = (k + length (to_digits B58_RADIX x))%nat).
  { unfold s. rewrite app_length, repeat_length, map_length. reflexivity. }
  assert (Ls0 : length (to_digits B58_RADIX x) <> 0%nat).
  { intro E. apply length_zero_iff_nil in E. contradiction. }
  destruct (N.eqb_spec (N.of_nat (length s)) 0) as [E0|_]; [lia|].
  destruct (N.ltb_spec MAX_B58_ADDR_LEN (N.of_nat (length s))) as [E1|_]; [lia|].
  cbn [orb]. unfold s.
  rewrite (b58_decode_leading k x Hx), set_string10_zeros_string.
  unfold x. rewrite (big_bytes_set_bytes p Wp Cp).
  assert (Lp : length p = DEC_LEN).
  { unfold p. rewrite !app_length, L, Lc, dec_len. reflexivity. }
  rewrite Lp, Nat.eqb_refl. cbn [negb orb].
  rewrite ver_idx_0. unfold p at 1. cbn [app nth]. rewrite ver_same, N.eqb_refl. cbn [negb].
  destruct dec_slice as [Elo Ehi]. rewrite Ehi, Elo, <- L.
  unfold p. change 1%nat with (length [ADDR_VERSION_ENC]).
  rewrite slice_app_exact. apply parse_ok. exact L.
Qed.

(** * Shape of an encoded address: a fixed number of characters and a fixed first character.
      These use the concrete values of the regenerated constants. *)

Definition ENC_LEN : nat := 34.
Definition LEAD_DIGIT : N := 9.   (* alphabet[9] = 'A' *)

Lemma shape_consts :
  LEAD_DIGIT * B58_RADIX ^ N.of_nat (pred ENC_LEN) <= ADDR_VERSION_ENC * 256 ^ N.of_nat (pred DEC_LEN) /\
  (ADDR_VERSION_ENC + 1) * 256 ^ N.of_nat (pred DEC_LEN) <= (LEAD_DIGIT + 1) * B58_RADIX ^ N.of_nat (pred ENC_LEN) /\
  1 <= LEAD_DIGIT /\ LEAD_DIGIT + 1 <= B58_RADIX.
Proof. repeat split; apply N.leb_le; vm_compute; reflexivity. Qed.

Lemma payload_range p r :
  p = ADDR_VERSION_ENC :: r -> length p = DEC_LEN -> wf_bytes p = true ->
  ADDR_VERSION_ENC * 256 ^ N.of_nat (pred DEC_LEN) <= big_set_bytes p
  /\ big_set_bytes p < (ADDR_VERSION_ENC + 1) * 256 ^ N.of_nat (pred DEC_LEN).
Proof.
  intros -> Lp Wp. unfold big_set_bytes. rewrite of_digits_cons.
  cbn [length] in Lp. rewrite <- Lp. cbn [pred].
  rewrite wf_bytes_cons in Wp. apply andb_prop in Wp. destruct Wp as [_ Wr].
  apply wf_digits_lt in Wr. pose proof (of_digits_bound 256 r Wr). lia.
Qed.

Lemma digits_shape x :
  ADDR_VERSION_ENC * 256 ^ N.of_nat (pred DEC_LEN) <= x ->
  x < (ADDR_VERSION_ENC + 1) * 256 ^ N.of_nat (pred DEC_LEN) ->
  length (to_digits B58_RADIX x) = ENC_LEN /\ hd 0 (to_digits B58_RADIX x) = LEAD_DIGIT.
Proof.
  intros Lo Hi. destruct shape_consts as (C1 & C2 & C3 & C4). pose proof radix_ge2 as Hb.
  set (P := B58_RADIX ^ N.of_nat (pred ENC_LEN)) in *.
  assert (HP : 0 < P) by (apply N.neq_0_lt_0, N.pow_nonzero; lia).
  assert (L1 : P <= x) by nia.
  assert (L2 : x < B58_RADIX ^ N.of_nat (S (pred ENC_LEN))).
  { rewrite Nat2N.inj_succ, N.pow_succ_r'. fold P. nia. }
  split.
  - apply (to_digits_length_eq B58_RADIX Hb x (pred ENC_LEN) L1 L2).
  - rewrite (to_digits_hd B58_RADIX Hb x (pred ENC_LEN) L1 L2). fold P.
    symmetry. apply N.div_unique with (r := x - LEAD_DIGIT * P); lia.
Qed.

Section Shape.
  Variable H : bytes -> bytes.
  Hypothesis H_length : forall x, length (H x) = HASH_LEN.
  Hypothesis H_wf : forall x, wf_bytes (H x) = true.

  Theorem to_base58_shape a : addr_ok a ->
    length (to_base58 H a) = ENC_LEN /\ hd 0 (to_base58 H a) = alpha LEAD_DIGIT /\
    Forall (fun c => In c B58_ALPHABET) (to_base58 H a).
  Proof.
    intros [L W]. rewrite (to_base58_digits H H_length H_wf a W).
    destruct (payload_head H a) as (r & E).
    destruct (payload_range _ r E (payload_length H H_length a L) (payload_wf H H_wf a W)) as [Lo Hi].
    destruct (digits_shape _ Lo Hi) as [Hl Hh]. pose proof radix_ge2 as Hb.
    pose proof (to_digits_lt B58_RADIX Hb (big_set_bytes (payload H a))) as Hlt.
    repeat split.
    - rewrite map_length. exact Hl.
    - destruct (to_digits B58_RADIX (big_set_bytes (payload H a))) as [|d t]; [discriminate Hl|].
      cbn [map hd] in *. rewrite Hh. reflexivity.
    - apply Forall_forall. intros c Hc. apply in_map_iff in Hc. destruct Hc as (d & <- & Hd).
      unfold digits_lt in Hlt. rewrite Forall_forall in Hlt. specialize (Hlt d Hd).
      unfold alpha. apply nth_In. rewrite alphabet_length. lia.
  Qed.

  (** extra or missing characters: nothing of another length is accepted *)
  Theorem wrong_length_rejected s : length s <> ENC_LEN -> exists e, from_base58 H s = inl e.
  Proof.
    intro Hl. destruct (from_base58 H s) as [e|a] eqn:E; [eauto|exfalso].
    apply (from_only_canonical H) in E. destruct E as [-> Ha].
    apply Hl. apply to_base58_shape. exact Ha.
  Qed.

  Theorem wrong_first_char_rejected s : hd 0 s <> alpha LEAD_DIGIT -> exists e, from_base58 H s = inl e.
  Proof.
    intro Hl. destruct (from_base58 H s) as [e|a] eqn:E; [eauto|exfalso].
    apply (from_only_canonical H) in E. destruct E as [-> Ha].
    apply Hl. apply to_base58_shape. exact Ha.
  Qed.

  (** a character outside the alphabet anywhere in the string *)
  Theorem foreign_char_rejected s c : In c s -> ~ In c B58_ALPHABET -> exists e, from_base58 H s = inl e.
  Proof.
    intros Hin Hout. destruct (from_base58 H s) as [e|a] eqn:E; [eauto|exfalso].
    apply (from_only_canonical H) in E. destruct E as [-> Ha].
    destruct (to_base58_shape a Ha) as (_ & _ & F). rewrite Forall_forall in F. auto.
  Qed.

  (** ** The comparison is load-bearing: the decoder without it accepts [k] extra leading
      alphabet[0] characters, the real one answers EVerify *)
  Theorem leading_ones_need_recheck a k : addr_ok a -> (0 < k)%nat -> (k + ENC_LEN <= N.to_nat MAX_B58_ADDR_LEN)%nat ->
    from_base58_nocheck (repeat (alpha 0) k ++ to_base58 H a) = inr a /\
    from_base58 H (repeat (alpha 0) k ++ to_base58 H a) = inl EVerify.
  Proof.
    intros Ha Hk Hmax. destruct Ha as [L W].
    assert (N1 : from_base58_nocheck (repeat (alpha 0) k ++ to_base58 H a) = inr a).
    { rewrite (to_base58_digits H H_length H_wf a W). unfold payload. rewrite <- app_assoc.
      apply nocheck_payload; [split; assumption|apply checksum_length; exact H_length|apply checksum_wf; exact H_wf|].
      destruct (to_base58_shape a (conj L W)) as (Hl & _). rewrite (to_base58_digits H H_length H_wf a W), map_length in Hl.
      unfold payload in Hl. rewrite <- app_assoc in Hl. rewrite Hl. exact Hmax. }
    split; [exact N1|]. unfold from_base58. rewrite N1.
    destruct (bytes_eqb (to_base58 H a) (repeat (alpha 0) k ++ to_base58 H a)) eqn:E; [exfalso|reflexivity].
    apply bytes_eqb_eq in E. apply (f_equal (@length N)) in E. rewrite app_length, repeat_length in E. lia.
  Qed.

  (** ... and any 4 checksum bytes: the checksum is verified by the comparison only *)
  Theorem wrong_checksum_needs_recheck a c : addr_ok a ->
    length c = (CHK_HI - CHK_LO)%nat -> wf_bytes c = true -> c <> checksum H ([ADDR_VERSION_ENC] ++ a) ->
    let s := map alpha (to_digits B58_RADIX (big_set_bytes ([ADDR_VERSION_ENC] ++ a ++ c))) in
    from_base58_nocheck s = inr a /\ from_base58 H s = inl EVerify.
  Proof.
    intros Ha Lc Wc Hne s. pose proof radix_ge2 as Hb. destruct Ha as [L W].
    set (p := [ADDR_VERSION_ENC] ++ a ++ c).
    assert (Lp : length p = DEC_LEN) by (unfold p; rewrite !app_length, L, Lc, dec_len; reflexivity).
    assert (Wp : wf_bytes p = true).
    { unfold p. rewrite !wf_bytes_app, W, Wc. unfold wf_bytes. cbn [forallb]. unfold byte_ok.
      pose proof ver_range as [_ V1]. apply N.ltb_lt in V1. rewrite V1. reflexivity. }
    destruct (payload_range p (a ++ c) eq_refl Lp Wp) as [Lo Hi].
    destruct (digits_shape _ Lo Hi) as [Hl _].
    assert (N1 : from_base58_nocheck s = inr a).
    { apply (nocheck_payload 0 a c (conj L W) Lc Wc). fold p. rewrite Hl. apply Nat.leb_le. vm_compute. reflexivity. }
    split; [exact N1|]. unfold from_base58. rewrite N1.
    destruct (bytes_eqb (to_base58 H a) s) eqn:E; [exfalso|reflexivity].
    apply bytes_eqb_eq in E. rewrite (to_base58_digits H H_length H_wf a W) in E. unfold s in E. fold p in E.
    (* equal strings -> equal digits -> equal numbers -> equal payloads *)
    assert (Ed : to_digits B58_RADIX (big_set_bytes (payload H a)) = to_digits B58_RADIX (big_set_bytes p)).
    { pose proof (to_digits_lt B58_RADIX Hb (big_set_bytes (payload H a))) as D1.
      pose proof (to_digits_lt B58_RADIX Hb (big_set_bytes p)) as D2.
      revert E D1 D2. generalize (to_digits B58_RADIX (big_set_bytes (payload H a))) (to_digits B58_RADIX (big_set_bytes p)).
      intros l. induction l as [|d1 l1 IH]; intros [|d2 l2] E D1 D2; cbn [map] in E.
      - reflexivity.
      - discriminate E.
      - discriminate E.
      - injection E as E1 E2. inversion D1; inversion D2; subst.
        f_equal; [apply alpha_inj; assumption|apply IH; assumption]. }
    apply (f_equal (of_digits B58_RADIX)) in Ed. rewrite !(of_to_digits B58_RADIX Hb) in Ed.
    apply (f_equal big_bytes) in Ed.
    rewrite big_bytes_set_bytes in Ed; [|apply payload_wf; assumption|].
    - rewrite big_bytes_set_bytes in Ed; [|exact Wp|unfold p; cbn; pose proof ver_range; lia].
      unfold payload, p in Ed. rewrite <- app_assoc in Ed. apply app_inv_head in Ed. apply app_inv_head in Ed.
      apply Hne. symmetry. exact Ed.
    - destruct (payload_head H a) as (r & ->). cbn. pose proof ver_range. lia.
  Qed.
End Shape.

(** * Hex *)

Lemma from_hex_char_hex_char d : d < 16 -> from_hex_char (hex_char d) = Some d.
Proof.
  intro H. unfold hex_char, from_hex_char. destruct (N.ltb_spec d 10).
  - destruct (N.leb_spec 48 (48 + d)); [|lia]. destruct (N.leb_spec (48 + d) 57); [|lia].
    cbn [andb]. f_equal. lia.
  - destruct (N.leb_spec 48 (87 + d)); [|lia]. destruct (N.leb_spec (87 + d) 57); [lia|].
    cbn [andb]. destruct (N.leb_spec 97 (87 + d)); [|lia]. destruct (N.leb_spec (87 + d) 102); [|lia].
    cbn [andb]. f_equal. lia.
Qed.

Lemma from_hex_char_sound c d : from_hex_char c = Some d -> d < 16 /\ hex_char d = hex_lower c.
Proof.
  unfold from_hex_char, hex_char, hex_lower.
  destruct (N.leb_spec 48 c); destruct (N.leb_spec c 57); cbn [andb];
  destruct (N.leb_spec 97 c); destruct (N.leb_spec c 102); cbn [andb];
  destruct (N.leb_spec 65 c); destruct (N.leb_spec c 70); cbn [andb];
  intro E; try discriminate; injection E as <-;
  (split; [lia|]); destruct (N.ltb_spec (c - 48) 10); destruct (N.ltb_spec (c - 87) 10);
  destruct (N.ltb_spec (c - 55) 10); lia.
Qed.

Lemma pairs_ind {A} (P : list A -> Prop) :
  P [] -> (forall p, P [p]) -> (forall p q r, P r -> P (p :: q :: r)) -> forall s, P s.
Proof.
  intros H0 H1 H2 s. assert (G : P s /\ forall x, P (x :: s)).
  { induction s as [|y s [IH1 IH2]]; split; auto. }
  exact (proj1 G).
Qed.

Lemma hex_decode_encode b : wf_bytes b = true -> hex_decode (hex_encode b) = inr b.
Proof.
  induction b as [|x b IH]; intro W; [reflexivity|].
  rewrite wf_bytes_cons in W. apply andb_prop in W. destruct W as [Wx Wb].
  unfold byte_ok in Wx. apply N.ltb_lt in Wx.
  cbn [hex_encode flat_map app]. cbn [hex_decode].
  rewrite from_hex_char_hex_char by lia. rewrite from_hex_char_hex_char by lia.
  fold (hex_encode b). rewrite (IH Wb). f_equal. f_equal. lia.
Qed.

Lemma hex_decode_sound : forall s b, hex_decode s = inr b ->
  hex_encode b = map hex_lower s /\ wf_bytes b = true /\ length s = (2 * length b)%nat.
Proof.
  intro s. induction s as [| p | p q r IH] using pairs_ind; intros b E.
  - injection E as <-. auto.
  - cbn [hex_decode] in E. destruct (from_hex_char p); discriminate.
  - cbn [hex_decode] in E.
    destruct (from_hex_char p) as [a|] eqn:Ep; [|discriminate].
    destruct (from_hex_char q) as [c|] eqn:Eq; [|discriminate].
    destruct (hex_decode r) as [e|t] eqn:Er; [discriminate|]. injection E as <-.
    destruct (IH t eq_refl) as (I1 & I2 & I3).
    apply from_hex_char_sound in Ep. apply from_hex_char_sound in Eq.
    destruct Ep as [La Ea]. destruct Eq as [Lc Ec].
    assert (D : (a * 16 + c) / 16 = a) by lia. assert (M : (a * 16 + c) mod 16 = c) by lia.
    repeat split.
    + cbn [hex_encode flat_map app map]. fold (hex_encode t). rewrite D, M, Ea, Ec, I1. reflexivity.
    + rewrite wf_bytes_cons, I2. unfold byte_ok. assert (a * 16 + c < 256) by lia.
      apply N.ltb_lt in H. rewrite H. reflexivity.
    + cbn [length]. lia.
Qed.

Theorem hex_roundtrip a : addr_ok a -> from_hex_string (to_hex_string a) = inr a.
Proof.
  intros [L W]. unfold from_hex_string, to_hex_string, to_array_reverse.
  rewrite hex_decode_encode.
  - rewrite rev_involutive, (parse_ok a L). reflexivity.
  - unfold wf_bytes in *. rewrite forallb_forall in *. intros x Hx. apply W. apply in_rev. exact Hx.
Qed.

(** whatever AddressFromHexString accepts is, up to the case of A-F, the hex string of the result *)
Theorem hex_only_canonical s a :
  from_hex_string s = inr a -> to_hex_string a = map hex_lower s /\ addr_ok a /\ length s = (2 * B58_ADDR_LEN)%nat.
Proof.
  unfold from_hex_string, to_hex_string, to_array_reverse.
  destruct (hex_decode s) as [e|hx] eqn:E; [discriminate|].
  destruct (address_parse_from_bytes (rev hx)) as [e|a'] eqn:P; [discriminate|].
  intro R. injection R as <-. apply parse_inv in P. destruct P as [-> L].
  apply hex_decode_sound in E. destruct E as (E1 & E2 & E3).
  rewrite rev_involutive. repeat split; auto.
  - unfold wf_bytes in *. rewrite forallb_forall in *. intros x Hx. apply E2. apply in_rev. exact Hx.
  - rewrite rev_length in L. lia.
Qed.

Theorem hex_injective a b : addr_ok a -> addr_ok b -> to_hex_string a = to_hex_string b -> a = b.
Proof.
  intros Ha Hb E. pose proof (hex_roundtrip a Ha) as Fa. rewrite E, (hex_roundtrip b Hb) in Fa. congruence.
Qed.

Theorem parse_from_bytes_iff f a : address_parse_from_bytes f = inr a <-> (a = f /\ length f = B58_ADDR_LEN).
Proof.
  split; [apply parse_inv|]. intros [-> L]. apply parse_ok. exact L.
Qed.

(** two hex strings accepted with the same result differ at most in the case of A-F *)
Theorem hex_unique_up_to_case s1 s2 a :
  from_hex_string s1 = inr a -> from_hex_string s2 = inr a -> map hex_lower s1 = map hex_lower s2.
Proof.
  intros E1 E2. apply hex_only_canonical in E1. apply hex_only_canonical in E2.
  destruct E1 as [E1 _]. destruct E2 as [E2 _]. congruence.
Qed.
