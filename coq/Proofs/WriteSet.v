(** Proofs about Model/WriteSet.v: the write set of any history is the key-sorted last-write map,
    hence write set and change hash depend only on the last-write map (C03). *)
From Coq Require Import List Bool NArith Lia Sorted Permutation.
Import ListNotations.
From Ont Require Import Lib.Bytes Model.WriteSet.
Local Open Scope N_scope.

(** * bytes.Compare is a strict total order *)

Lemma ws_cmp_refl a : ws_cmp a a = Eq.
Proof. induction a as [|x a IH]; simpl; [reflexivity|]. rewrite N.compare_refl; exact IH. Qed.

Lemma ws_cmp_eq a b : ws_cmp a b = Eq -> a = b.
Proof.
  revert b; induction a as [|x a IH]; intros [|y b]; simpl; try discriminate; auto.
  destruct (N.compare x y) eqn:E; try discriminate.
  apply N.compare_eq in E; subst. intro H; f_equal; auto.
Qed.

Lemma ws_cmp_eq_iff a b : ws_cmp a b = Eq <-> a = b.
Proof. split; [apply ws_cmp_eq|intros ->; apply ws_cmp_refl]. Qed.

Lemma ws_cmp_antisym a b : ws_cmp b a = CompOpp (ws_cmp a b).
Proof.
  revert b; induction a as [|x a IH]; intros [|y b]; simpl; auto.
  rewrite (N.compare_antisym x y). destruct (N.compare x y); simpl; auto.
Qed.

Definition klt (a b : bytes) : Prop := ws_cmp a b = Lt.

Lemma klt_irrefl a : ~ klt a a.
Proof. unfold klt; rewrite ws_cmp_refl; discriminate. Qed.

Lemma klt_trans a b c : klt a b -> klt b c -> klt a c.
Proof.
  unfold klt. revert b c; induction a as [|x a IH]; intros [|y b] [|z c]; simpl; try discriminate; auto.
  destruct (N.compare x y) eqn:Exy; try discriminate;
  destruct (N.compare y z) eqn:Eyz; try discriminate; intros H1 H2.
  - apply N.compare_eq in Exy, Eyz; subst. rewrite N.compare_refl. eauto.
  - apply N.compare_eq in Exy; subst. rewrite Eyz; reflexivity.
  - apply N.compare_eq in Eyz; subst. rewrite Exy; reflexivity.
  - rewrite N.compare_lt_iff in Exy, Eyz.
    assert (E : (x ?= z) = Lt) by (apply N.compare_lt_iff; lia). rewrite E; reflexivity.
Qed.

Lemma klt_asym a b : klt a b -> ~ klt b a.
Proof. intros H1 H2. exact (klt_irrefl a (klt_trans _ _ _ H1 H2)). Qed.

Lemma ws_cmp_gt_lt a b : ws_cmp a b = Gt -> klt b a.
Proof. unfold klt; intro H. rewrite ws_cmp_antisym, H; reflexivity. Qed.

Lemma klt_neq a b : klt a b -> a <> b.
Proof. intros H ->. exact (klt_irrefl _ H). Qed.

(** * Strictly key-sorted lists *)

Definition kv_lt (x y : kv) : Prop := klt (fst x) (fst y).
Definition sorted_keys (m : wset) : Prop := StronglySorted kv_lt m.

Lemma sorted_nil : sorted_keys [].
Proof. constructor. Qed.

Lemma sorted_cons_inv x m : sorted_keys (x :: m) -> sorted_keys m /\ Forall (kv_lt x) m.
Proof. intro H; inversion H; auto. Qed.

(** Two strictly sorted lists with the same elements are equal. *)
Lemma sorted_unique (l1 l2 : wset) :
  sorted_keys l1 -> sorted_keys l2 -> (forall e, In e l1 <-> In e l2) -> l1 = l2.
Proof.
  revert l2; induction l1 as [|x l1 IH]; intros [|y l2] S1 S2 Hin.
  - reflexivity.
  - exfalso. apply (proj2 (Hin y)); left; reflexivity.
  - exfalso. apply (proj1 (Hin x)); left; reflexivity.
  - apply sorted_cons_inv in S1; destruct S1 as [S1 F1].
    apply sorted_cons_inv in S2; destruct S2 as [S2 F2].
    rewrite Forall_forall in F1, F2.
    assert (Exy : x = y).
    { destruct (proj1 (Hin x) (or_introl eq_refl)) as [E|Hx]; [auto|].
      destruct (proj2 (Hin y) (or_introl eq_refl)) as [E|Hy]; [auto|].
      exfalso. exact (klt_asym _ _ (F2 _ Hx) (F1 _ Hy)). }
    subst y. f_equal. apply IH; auto.
    intro e; split; intro He.
    + destruct (proj1 (Hin e) (or_intror He)) as [E|H']; [|exact H'].
      subst e. exfalso. exact (klt_irrefl _ (F1 _ He)).
    + destruct (proj2 (Hin e) (or_intror He)) as [E|H']; [|exact H'].
      subst e. exfalso. exact (klt_irrefl _ (F2 _ He)).
Qed.

(** * MemDB.Put keeps the list sorted and is a map update *)

Lemma put_in k v m e :
  In e (memdb_put k v m) -> e = (k, v) \/ In e m.
Proof.
  induction m as [|[k' v'] r IH]; simpl.
  - intros [H|[]]; auto.
  - destruct (ws_cmp k' k) eqn:E; simpl.
    + apply ws_cmp_eq in E; subst k'. intros [H|H]; auto.
    + intros [H|H]; auto. destruct (IH H); auto.
    + intros [H|[H|H]]; auto.
Qed.

Lemma put_sorted k v m : sorted_keys m -> sorted_keys (memdb_put k v m).
Proof.
  induction m as [|[k' v'] r IH]; simpl; intro S.
  - repeat constructor.
  - apply sorted_cons_inv in S; destruct S as [S F].
    destruct (ws_cmp k' k) eqn:E.
    + apply ws_cmp_eq in E; subst k'. constructor; [exact S|exact F].
    + constructor; [exact (IH S)|]. rewrite Forall_forall in *. intros e He.
      apply put_in in He. destruct He as [->|He]; [exact E|auto].
    + apply ws_cmp_gt_lt in E. constructor.
      * constructor; [exact S|exact F].
      * constructor; [exact E|]. rewrite Forall_forall in *. intros e He.
        unfold kv_lt in *; simpl in *. eapply klt_trans; [exact E|]. apply (F _ He).
Qed.

(** Membership after a Put into a sorted list: the entry for [k] is exactly [(k,v)], every other
    key keeps its entry. *)
Lemma put_in_iff k v m k0 v0 : sorted_keys m ->
  (In (k0, v0) (memdb_put k v m) <-> (k0 = k /\ v0 = v) \/ (k0 <> k /\ In (k0, v0) m)).
Proof.
  induction m as [|[k' v'] r IH]; simpl; intro S.
  - split.
    + intros [H|[]]. inversion H; auto.
    + intros [[-> ->]|[_ []]]; auto.
  - apply sorted_cons_inv in S; destruct S as [S F]. rewrite Forall_forall in F.
    destruct (ws_cmp k' k) eqn:E; simpl.
    + apply ws_cmp_eq in E; subst k'. split.
      * intros [H|H]; [inversion H; auto|].
        right; split; [|auto]. apply not_eq_sym, klt_neq. apply (F _ H).
      * intros [[-> ->]|[Hn [H|H]]]; auto. inversion H; congruence.
    + rewrite (IH S). split.
      * intros [H|[H|[Hn H]]]; auto. inversion H; subst. right; split; auto.
        apply klt_neq; exact E.
      * intros [H|[Hn [H|H]]]; auto.
    + apply ws_cmp_gt_lt in E. split.
      * intros [H|[H|H]]; [inversion H; auto| |].
        -- inversion H; subst. right; split; auto. apply not_eq_sym, klt_neq; exact E.
        -- right; split; auto. apply not_eq_sym, klt_neq.
           eapply klt_trans; [exact E|]. apply (F _ H).
      * intros [[-> ->]|[Hn H]]; auto.
Qed.

(** * Histories: the overlay after any history is sorted and is the last-write map *)

Lemma apply_memdb o x :
  ov_memdb (ov_apply o x) = memdb_put (op_key x) (op_val x) (ov_memdb o).
Proof. destruct x; reflexivity. Qed.

Lemma run_from_sorted ops : forall o, sorted_keys (ov_memdb o) -> sorted_keys (ov_memdb (ov_run_from o ops)).
Proof.
  induction ops as [|x r IH]; intros o S; simpl; [exact S|].
  apply IH. rewrite apply_memdb. apply put_sorted; exact S.
Qed.

Lemma run_sorted ops : sorted_keys (ov_write_set (ov_run ops)).
Proof. apply run_from_sorted. apply sorted_nil. Qed.

Lemma run_from_in ops : forall o k v, sorted_keys (ov_memdb o) ->
  (In (k, v) (ov_memdb (ov_run_from o ops)) <->
   match last_write ops k with Some v' => v = v' | None => In (k, v) (ov_memdb o) end).
Proof.
  induction ops as [|x r IH]; intros o k v S; simpl; [tauto|].
  assert (S' : sorted_keys (ov_memdb (ov_apply o x))) by (rewrite apply_memdb; apply put_sorted; exact S).
  unfold ov_run_from in IH. rewrite (IH _ k v S').
  destruct (last_write r k) as [v'|]; [tauto|].
  rewrite apply_memdb, (put_in_iff _ _ _ _ _ S).
  destruct (bytes_eqb (op_key x) k) eqn:E.
  - apply bytes_eqb_eq in E. split; [intros [[_ H]|[Hn _]]; [exact H|congruence]|intros ->; left; auto].
  - assert (Hn : k <> op_key x) by (intros ->; rewrite (proj2 (bytes_eqb_eq _ _) eq_refl) in E; discriminate).
    split; [intros [[H _]|[_ H]]; [congruence|exact H]|intro H; right; auto].
Qed.

(** The write set contains exactly the pairs (k, last value written to k). *)
Lemma run_in ops k v : In (k, v) (ov_write_set (ov_run ops)) <-> last_write ops k = Some v.
Proof.
  unfold ov_write_set, memdb_foreach, ov_run. rewrite (run_from_in ops ov_new k v sorted_nil).
  destruct (last_write ops k) as [v'|]; simpl.
  - split; [intros ->; reflexivity|intro H; inversion H; reflexivity].
  - split; [tauto|discriminate].
Qed.

(** * last_write *)

Lemma last_write_app a b k :
  last_write (a ++ b) k = match last_write b k with Some v => Some v | None => last_write a k end.
Proof.
  induction a as [|x a IH]; simpl.
  - destruct (last_write b k); reflexivity.
  - rewrite IH. destruct (last_write b k); reflexivity.
Qed.

Lemma last_write_none ops k : last_write ops k = None <-> ~ In k (map op_key ops).
Proof.
  induction ops as [|x r IH]; simpl; [tauto|].
  destruct (last_write r k) as [v|] eqn:E.
  - split; [discriminate|]. intro H. exfalso. apply H. right.
    destruct (in_dec (list_eq_dec N.eq_dec) k (map op_key r)) as [Hi|Hi]; [exact Hi|].
    apply (proj2 IH) in Hi. discriminate.
  - destruct (bytes_eqb (op_key x) k) eqn:Ek.
    + apply bytes_eqb_eq in Ek. split; [discriminate|intro H; exfalso; apply H; auto].
    + split; [|reflexivity]. intros _ [H|H].
      * rewrite H, (proj2 (bytes_eqb_eq _ _) eq_refl) in Ek. discriminate.
      * exact (proj1 IH eq_refl H).
Qed.

Lemma last_write_some ops k : (exists v, last_write ops k = Some v) <-> In k (map op_key ops).
Proof.
  split.
  - intros [v Hv]. destruct (in_dec (list_eq_dec N.eq_dec) k (map op_key ops)) as [Hi|Hi]; [exact Hi|].
    apply last_write_none in Hi. congruence.
  - intro Hi. destruct (last_write ops k) as [v|] eqn:E; [eauto|].
    apply last_write_none in E. contradiction.
Qed.

(** * The specification-side sort *)

Lemma key_mem_in k l : key_mem k l = true <-> In k l.
Proof.
  induction l as [|x r IH]; simpl; [split; [discriminate|tauto]|].
  rewrite Bool.orb_true_iff, IH, bytes_eqb_eq. tauto.
Qed.

Lemma touched_in ops k : In k (touched ops) <-> In k (map op_key ops).
Proof.
  induction ops as [|x r IH]; simpl; [tauto|].
  destruct (key_mem (op_key x) (touched r)) eqn:E.
  - rewrite IH. split; [auto|]. intros [<-|H]; [|exact H]. apply IH, key_mem_in; exact E.
  - simpl. rewrite IH. tauto.
Qed.

Lemma touched_nodup ops : NoDup (touched ops).
Proof.
  induction ops as [|x r IH]; simpl; [constructor|].
  destruct (key_mem (op_key x) (touched r)) eqn:E; [exact IH|].
  constructor; [|exact IH]. intro H. apply key_mem_in in H. congruence.
Qed.

Lemma assoc_in ops k v : In (k, v) (last_write_assoc ops) <-> last_write ops k = Some v.
Proof.
  unfold last_write_assoc. rewrite in_map_iff. split.
  - intros [k' [H Hi]]. inversion H; subst k'. apply touched_in, last_write_some in Hi.
    destruct Hi as [v' Hv]. unfold final_value. rewrite Hv. reflexivity.
  - intro H. exists k. split.
    + unfold final_value; rewrite H; reflexivity.
    + apply touched_in, last_write_some. eauto.
Qed.

Lemma assoc_keys ops : map fst (last_write_assoc ops) = touched ops.
Proof. unfold last_write_assoc. rewrite map_map. simpl. apply map_id. Qed.

Lemma insert_in e l x : In x (insert_by_key e l) <-> x = e \/ In x l.
Proof.
  induction l as [|e' r IH]; simpl; [intuition|].
  destruct (ws_cmp (fst e') (fst e)); simpl; try rewrite IH; intuition.
Qed.

Lemma insert_sorted e l : sorted_keys l -> ~ In (fst e) (map fst l) -> sorted_keys (insert_by_key e l).
Proof.
  induction l as [|e' r IH]; simpl; intros S Hn.
  - repeat constructor.
  - apply sorted_cons_inv in S; destruct S as [S F].
    destruct (ws_cmp (fst e') (fst e)) eqn:E.
    + exfalso. apply Hn. left. apply ws_cmp_eq; exact E.
    + constructor; [apply IH; [exact S|tauto]|].
      rewrite Forall_forall in *. intros x Hx. apply insert_in in Hx.
      destruct Hx as [->|Hx]; [exact E|auto].
    + apply ws_cmp_gt_lt in E. constructor; [constructor; [exact S|exact F]|].
      constructor; [exact E|]. rewrite Forall_forall in *. intros x Hx.
      unfold kv_lt in *. eapply klt_trans; [exact E|apply (F _ Hx)].
Qed.

Lemma sort_in l x : In x (sort_by_key l) <-> In x l.
Proof.
  induction l as [|e r IH]; simpl; [tauto|]. rewrite insert_in, IH. intuition.
Qed.

Lemma sort_sorted l : NoDup (map fst l) -> sorted_keys (sort_by_key l).
Proof.
  induction l as [|e r IH]; simpl; intro N; [apply sorted_nil|].
  inversion N as [|? ? Hn N']; subst. apply insert_sorted; [exact (IH N')|].
  intro H. apply Hn. apply in_map_iff in H. destruct H as [x [Hx Hi]].
  apply (proj1 (sort_in _ _)) in Hi. apply in_map_iff. eauto.
Qed.

(** * Main results *)

(** writeset_canonical: the write set is the key-sorted last-write map. *)
Lemma writeset_canonical_proof ops :
  ov_write_set (ov_run ops) = sort_by_key (last_write_assoc ops).
Proof.
  apply sorted_unique.
  - apply run_sorted.
  - apply sort_sorted. rewrite assoc_keys. apply touched_nodup.
  - intros [k v]. rewrite run_in, sort_in, assoc_in. tauto.
Qed.

Lemma writeset_order_free ops1 ops2 :
  (forall k, last_write ops1 k = last_write ops2 k) ->
  ov_write_set (ov_run ops1) = ov_write_set (ov_run ops2).
Proof.
  intro H. apply sorted_unique; try apply run_sorted.
  intros [k v]. rewrite !run_in, H. tauto.
Qed.

Lemma overlay_eq_of_write_set o1 o2 : ov_write_set o1 = ov_write_set o2 -> o1 = o2.
Proof. destruct o1, o2; unfold ov_write_set, memdb_foreach; simpl; intros ->; reflexivity. Qed.

Lemma change_hash_order_free_proof (H : bytes -> bytes) ops1 ops2 :
  (forall k, last_write ops1 k = last_write ops2 k) ->
  ov_write_set (ov_run ops1) = ov_write_set (ov_run ops2) /\
  ov_change_hash H (ov_run ops1) = ov_change_hash H (ov_run ops2).
Proof.
  intro E. pose proof (writeset_order_free _ _ E) as W. split; [exact W|].
  rewrite (overlay_eq_of_write_set _ _ W). reflexivity.
Qed.

(** Converse: the write set determines the last-write map (nothing but it is recorded). *)
Lemma writeset_determines_last_write ops1 ops2 :
  ov_write_set (ov_run ops1) = ov_write_set (ov_run ops2) ->
  forall k, last_write ops1 k = last_write ops2 k.
Proof.
  intros W k.
  destruct (last_write ops1 k) as [v|] eqn:E1.
  - apply run_in in E1. rewrite W in E1. apply run_in in E1. auto.
  - destruct (last_write ops2 k) as [v|] eqn:E2; [|reflexivity].
    apply run_in in E2. rewrite <- W in E2. apply run_in in E2. congruence.
Qed.

(** Decidable form of the hypothesis. *)
Lemma opt_bytes_eqb_eq a b : opt_bytes_eqb a b = true <-> a = b.
Proof.
  destruct a, b; simpl; try (split; [discriminate|discriminate]); try tauto.
  rewrite bytes_eqb_eq. split; [intros ->; reflexivity|intro H; inversion H; reflexivity].
Qed.

Lemma same_last_write_spec a b :
  same_last_write a b = true <-> (forall k, last_write a k = last_write b k).
Proof.
  unfold same_last_write. rewrite forallb_forall. split.
  - intros H k.
    destruct (in_dec (list_eq_dec N.eq_dec) k (map op_key a ++ map op_key b)) as [Hi|Hi].
    + apply opt_bytes_eqb_eq, H, Hi.
    + rewrite in_app_iff in Hi.
      rewrite (proj2 (last_write_none a k)), (proj2 (last_write_none b k)); tauto.
  - intros H k _. apply opt_bytes_eqb_eq, H.
Qed.
