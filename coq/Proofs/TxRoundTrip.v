(** Encode-then-decode round trip for the transaction codec (Model/TxCodec.v): every well-formed
    Ontology-format transaction is accepted from its encoding at any position of any buffer and
    decodes to itself. Consequences: the writer is injective on accepted transactions (one
    transaction per encoding), equal unsigned bytes mean equal unsigned fields, and replacing the
    signature section of an accepted transaction gives an accepted transaction with the same hash. *)
From Coq Require Import List Bool Arith NArith ZArith Lia ZifyN ZifyNat ZifyBool.
Import ListNotations.
From Ont Require Import Lib.Bytes Gen.CodecConsts Gen.TxConsts Model.Codec Proofs.Codec Model.TxCodec Proofs.TxCodec.
Local Open Scope N_scope.
Open Scope bool_scope.
Ltac Zify.zify_post_hook ::= Z.to_euclidean_division_equations.

(** [mexact m a bs]: wherever [bs] sits in a buffer, [m] reads exactly it and returns [a]. *)
Definition mexact {A} (m : M A) (a : A) (bs : bytes) : Prop :=
  forall pre post, N.of_nat (length (pre ++ bs ++ post)) < two64 ->
    m (at_ pre bs post) = (inl a, after_ pre bs post).

Lemma at_app pre b1 b2 post : at_ pre (b1 ++ b2) post = at_ pre b1 (b2 ++ post).
Proof. unfold at_. rewrite <- app_assoc. reflexivity. Qed.

Lemma after_at pre b1 b2 post : after_ pre b1 (b2 ++ post) = at_ (pre ++ b1) b2 post.
Proof. unfold after_, at_. rewrite app_length, <- app_assoc. reflexivity. Qed.

Lemma after_app pre b1 b2 post : after_ (pre ++ b1) b2 post = after_ pre (b1 ++ b2) post.
Proof. unfold after_. rewrite !app_length, <- !app_assoc. f_equal. lia. Qed.

Lemma mexact_ret {A} (a : A) : mexact (ret a) a [].
Proof. intros pre post _. unfold ret, at_, after_. simpl. rewrite Nat.add_0_r. reflexivity. Qed.

Lemma mexact_bind {A B} (m : M A) (f : A -> M B) a b b1 b2 :
  mexact m a b1 -> mexact (f a) b b2 -> mexact (bind m f) b (b1 ++ b2).
Proof.
  intros Hm Hf pre post L. unfold bind. rewrite at_app, Hm.
  - rewrite after_at, Hf.
    + rewrite after_app. reflexivity.
    + rewrite <- !app_assoc in *. exact L.
  - rewrite <- !app_assoc in *. exact L.
Qed.

Lemma mexact_bind_cons {A B} (m : M A) (f : A -> M B) a b x b2 :
  mexact m a [x] -> mexact (f a) b b2 -> mexact (bind m f) b (x :: b2).
Proof. intros Hm Hf. apply (mexact_bind m f a b [x] b2 Hm Hf). Qed.

Lemma mexact_bind_nil {A B} (m : M A) (f : A -> M B) a b b2 :
  mexact m a [] -> mexact (f a) b b2 -> mexact (bind m f) b b2.
Proof. intros Hm Hf. apply (mexact_bind m f a b [] b2 Hm Hf). Qed.

Lemma mexact_guard e : mexact (guard true e) tt [].
Proof. apply mexact_ret. Qed.

Lemma mexact_byte v : mexact m_byte v [v].
Proof.
  intros pre post _. unfold m_byte. rewrite (next_byte_exact pre v [] post), at_nil_after. reflexivity.
Qed.

Lemma mexact_uint w v : v < 256 ^ N.of_nat w -> mexact (m_uint w) v (le_encode w v).
Proof. intros Hv pre post L. unfold m_uint. rewrite next_uint_at by assumption. reflexivity. Qed.

Lemma mexact_bytes d : mexact (m_bytes (N.of_nat (length d))) d d.
Proof. intros pre post L. unfold m_bytes. rewrite next_bytes_at by assumption. reflexivity. Qed.

Lemma mexact_varuint v : v < two64 -> mexact m_varuint_ie v (write_varuint v).
Proof. intros Hv pre post L. unfold m_varuint_ie. rewrite next_varuint_at by assumption. reflexivity. Qed.

Lemma next_varbytes_at d pre post :
  N.of_nat (length (pre ++ write_varbytes d ++ post)) < two64 ->
  exists sz, next_varbytes (at_ pre (write_varbytes d) post) = (d, sz, false, false, after_ pre (write_varbytes d) post).
Proof.
  intro L. pose proof (readback_ok (WVarBytes d) pre post eq_refl L) as R.
  cbn [run_wop readback fst snd run_rop] in R.
  destruct (next_varbytes (at_ pre (write_varbytes d) post)) as [[[[d0 sz0] i] e] s'].
  inversion R; subst. eexists. reflexivity.
Qed.

Lemma mexact_varbytes_ei d : mexact m_varbytes_ei d (write_varbytes d).
Proof.
  intros pre post L. unfold m_varbytes_ei. destruct (next_varbytes_at d pre post L) as [sz ->]. reflexivity.
Qed.

Lemma mexact_varbytes_ie d : mexact m_varbytes_ie d (write_varbytes d).
Proof.
  intros pre post L. unfold m_varbytes_ie. destruct (next_varbytes_at d pre post L) as [sz ->]. reflexivity.
Qed.

Lemma mexact_eq {A} (m : M A) a bs bs' : mexact m a bs -> bs = bs' -> mexact m a bs'.
Proof. intros Hm <-. exact Hm. Qed.

(** * Payloads and signatures *)
Lemma mexact_deploy d : deploy_ok d -> mexact deploy_deser d (deploy_encode d).
Proof.
  intros [V F]. destruct d as [code flags name version author email desc]. unfold deploy_deser, deploy_encode.
  cbn [d_code d_flags d_name d_version d_author d_email d_desc].
  eapply mexact_bind; [apply mexact_varbytes_ei|].
  eapply mexact_bind; [apply mexact_byte|].
  eapply mexact_bind; [apply mexact_varbytes_ei|].
  eapply mexact_bind; [apply mexact_varbytes_ei|].
  eapply mexact_bind; [apply mexact_varbytes_ei|].
  eapply mexact_bind; [apply mexact_varbytes_ei|].
  eapply mexact_eq; [|apply app_nil_r].
  eapply mexact_bind; [apply mexact_varbytes_ie|].
  cbv zeta. rewrite V. apply mexact_ret.
Qed.

Lemma mexact_sig g : mexact sig_deser g (sig_encode g).
Proof.
  destruct g as [inv ver]. unfold sig_deser, sig_encode. cbn [sg_invoke sg_verify].
  eapply mexact_bind; [apply mexact_varbytes_ei|].
  eapply mexact_eq; [|apply app_nil_r].
  eapply mexact_bind; [apply mexact_varbytes_ei|]. apply mexact_ret.
Qed.

Lemma mexact_sigs l : mexact (sigs_deser (length l)) l (flat_map sig_encode l).
Proof.
  induction l as [|g l IH]; cbn [length sigs_deser flat_map]; [apply mexact_ret|].
  eapply mexact_bind; [apply mexact_sig|].
  eapply mexact_eq; [|apply app_nil_r].
  eapply mexact_bind; [apply IH|]. apply mexact_ret.
Qed.

Section RoundTrip.
Variable H : bytes -> bytes.
Variable etx : Type.
Variable E : ethapi etx.

Local Notation payload_ok := (payload_ok etx).
Local Notation unsigned_ok := (unsigned_ok etx).
Local Notation u_encode := (u_encode etx E).
Local Notation ont_tx := (ont_tx H etx E).
Local Notation accepted := (accepted H etx E).

Lemma mexact_payload ty p : payload_ok ty p -> mexact (@payload_deser etx ty) p (payload_encode E p).
Proof.
  intro P. unfold payload_deser. destruct p as [c|d|e]; cbn [TxCodec.payload_ok payload_encode] in *.
  - replace ((ty =? TX_INVOKE_NEO) || (ty =? TX_INVOKE_WASM)) with true
      by (symmetry; apply orb_true_iff; destruct P as [->| ->]; [left|right]; reflexivity).
    eapply mexact_eq; [|apply app_nil_r].
    eapply mexact_bind; [apply mexact_varbytes_ei|]. apply mexact_ret.
  - destruct P as [-> D]. cbn [N.eqb orb]. change ((TX_DEPLOY =? TX_INVOKE_NEO) || (TX_DEPLOY =? TX_INVOKE_WASM)) with false.
    change (TX_DEPLOY =? TX_DEPLOY) with true. cbv iota.
    eapply mexact_eq; [|apply app_nil_r].
    eapply mexact_bind; [apply mexact_deploy; exact D|]. apply mexact_ret.
  - contradiction.
Qed.

Lemma mexact_unsigned u : unsigned_ok u -> mexact (@deserialize_ont_unsigned etx) u (u_encode u).
Proof.
  destruct u as [ver ty nonce gp gl payer p]. intros (V & T & NE & Hn & Hgp & Hgl & Lp & P).
  cbn [u_version u_type u_nonce u_gasprice u_gaslimit u_payer u_payload] in *. subst ver.
  unfold deserialize_ont_unsigned, TxCodec.u_encode, encode_unsigned, write_uint32, write_uint64.
  cbn [u_version u_type u_nonce u_gasprice u_gaslimit u_payer u_payload].
  destruct widths as (_ & W32 & W64).
  cbn [app].
  eapply mexact_bind_cons; [apply mexact_byte|]. change (0 =? 0) with true.
  eapply mexact_bind_nil; [apply mexact_guard|].
  eapply mexact_bind_cons; [apply mexact_byte|].
  replace (negb (ty =? TX_EIP155)) with true by (symmetry; apply negb_true_iff, N.eqb_neq; exact NE).
  eapply mexact_bind_nil; [apply mexact_guard|].
  eapply mexact_bind; [apply mexact_uint; rewrite W32; exact Hn|].
  eapply mexact_bind; [apply mexact_uint; rewrite W64; exact Hgp|].
  eapply mexact_bind; [apply mexact_uint; rewrite W64; exact Hgl|].
  rewrite <- Lp.
  eapply mexact_bind; [apply mexact_bytes|].
  eapply mexact_bind; [apply mexact_payload; exact P|].
  eapply mexact_eq; [|apply app_nil_r].
  eapply mexact_bind; [apply mexact_varuint; reflexivity|]. change (0 =? 0) with true.
  eapply mexact_bind_nil; [apply mexact_guard|]. apply mexact_ret.
Qed.

Lemma consumed_at_after pre m post : consumed (at_ pre m post) (after_ pre m post) m.
Proof.
  unfold consumed, at_, after_; cbn [buf off]. repeat split; try lia.
  - rewrite !app_length; lia.
  - apply slice_app_exact.
Qed.

Lemma src_ok_at pre m post : N.of_nat (length (pre ++ m ++ post)) < two64 -> src_ok (at_ pre m post).
Proof. intro L. unfold src_ok, at_; cbn [buf off]. split; [rewrite app_length; lia|exact L]. Qed.

Lemma sub64_at_after pre m post :
  N.of_nat (length (pre ++ m ++ post)) < two64 ->
  sub64 (src_pos (after_ pre m post)) (src_pos (at_ pre m post)) = N.of_nat (length m).
Proof.
  intro L. unfold sub64, src_pos, after_, at_; cbn [off]. rewrite !app_length in L.
  replace (N.of_nat (length pre + length m) + two64 - N.of_nat (length pre)) with (N.of_nat (length m) + 1 * two64) by lia.
  rewrite N.mod_add by (unfold two64; discriminate). apply N.mod_small. lia.
Qed.

Lemma reread_at_after pre m post :
  N.of_nat (length (pre ++ m ++ post)) < two64 ->
  m_reread (N.of_nat (length m)) (after_ pre m post) = (inl m, after_ pre m post).
Proof.
  intro L. unfold m_reread. rewrite (back_up_consumed H _ _ _ (consumed_at_after pre m post)).
  rewrite (next_bytes_again _ _ _ (src_ok_at pre m post L) (consumed_at_after pre m post)). reflexivity.
Qed.

Lemma is_eip155_at pre v ty rest post :
  N.of_nat (length (pre ++ (v :: ty :: rest) ++ post)) < two64 ->
  is_eip155 (at_ pre (v :: ty :: rest) post) = (inl (ty =? TX_EIP155), at_ pre (v :: ty :: rest) post).
Proof.
  intro L. unfold is_eip155.
  change (v :: ty :: rest) with ([v; ty] ++ rest). rewrite at_app.
  assert (L' : N.of_nat (length (pre ++ [v; ty] ++ rest ++ post)) < two64).
  { exact L. }
  change 2 with (N.of_nat (length [v; ty])).
  rewrite (next_bytes_at pre [v; ty] (rest ++ post) L').
  rewrite (back_up_consumed H _ _ _ (consumed_at_after pre [v; ty] (rest ++ post))). reflexivity.
Qed.

(** Every well-formed Ontology-format transaction is decoded from its encoding, wherever it sits. *)
Theorem ont_roundtrip t pre post :
  ont_tx t -> t_raw t = tx_encode E t -> N.of_nat (length (tx_encode E t)) <= MAX_TX_SIZE ->
  N.of_nat (length (pre ++ tx_encode E t ++ post)) < two64 ->
  tx_deserialization H E (at_ pre (tx_encode E t) post) = (inl t, after_ pre (tx_encode E t) post).
Proof.
  destruct t as [ver ty nonce gp gl payer p attr sigs raw hu h].
  intros (Uok & At & Ns & HU & HH) R Sz L.
  cbn [t_version t_type t_nonce t_gasprice t_gaslimit t_payer t_payload t_attr t_sigs t_raw t_hash_unsigned t_hash] in *.
  subst attr.
  set (u := mkU ver ty nonce gp gl payer p) in *.
  assert (EU : tx_encode_unsigned E (mkTx ver ty nonce gp gl payer p 0 sigs raw hu h) = u_encode u) by reflexivity.
  rewrite EU in HU, HH.
  assert (EN : tx_encode E (mkTx ver ty nonce gp gl payer p 0 sigs raw hu h) = u_encode u ++ sigs_encode sigs).
  { unfold tx_encode. cbn [t_payload t_sigs]. rewrite EU.
    destruct Uok as (_ & _ & _ & _ & _ & _ & _ & PO). cbn [u_payload u_type u] in PO.
    destruct p; [reflexivity|reflexivity|contradiction]. }
  rewrite EN in *. clear EN EU.
  assert (V0 : ver = 0) by (destruct Uok as (V & _); exact V).
  assert (NE : ty <> TX_EIP155) by (destruct Uok as (_ & _ & X & _); exact X).
  pose proof (mexact_unsigned u Uok) as MU.
  set (U := u_encode u) in *. set (S := sigs_encode sigs) in *.
  (* the eip test *)
  unfold tx_deserialization, bind.
  assert (Ush : exists rest, U = ver :: ty :: rest).
  { unfold U, TxCodec.u_encode, encode_unsigned. cbn [u_version u_type u app]. eexists. reflexivity. }
  destruct Ush as [rest Ush].
  assert (IE : is_eip155 (at_ pre (U ++ S) post) = (inl false, at_ pre (U ++ S) post)).
  { rewrite Ush. cbn [app]. rewrite is_eip155_at.
    - replace (ty =? TX_EIP155) with false by (symmetry; apply N.eqb_neq; exact NE). reflexivity.
    - rewrite Ush in L. exact L. }
  rewrite IE. clear IE.
  unfold ont_deserialization, bind, m_pos.
  rewrite at_app. rewrite MU by (rewrite <- !app_assoc in L; exact L).
  assert (L1 : N.of_nat (length (pre ++ U ++ S ++ post)) < two64) by (rewrite <- !app_assoc in L; exact L).
  rewrite (sub64_at_after pre U (S ++ post) L1), (reread_at_after pre U (S ++ post) L1).
  rewrite after_at. unfold S at 1 2 3 4, sigs_encode. rewrite at_app.
  assert (Hn : N.of_nat (length sigs) < two64) by (unfold TX_MAX_SIG_SIZE, two64 in *; lia).
  assert (L2 : N.of_nat (length ((pre ++ U) ++ write_varuint (N.of_nat (length sigs)) ++ flat_map sig_encode sigs ++ post)) < two64).
  { unfold S, sigs_encode in L1. rewrite <- !app_assoc in *. exact L1. }
  rewrite (mexact_varuint _ Hn (pre ++ U) (flat_map sig_encode sigs ++ post) L2).
  unfold guard at 1. replace (negb (TX_MAX_SIG_SIZE <? N.of_nat (length sigs))) with true
    by (symmetry; apply negb_true_iff, N.ltb_ge; exact Ns).
  unfold ret at 1. rewrite Nat2N.id, after_at.
  assert (L3 : N.of_nat (length (((pre ++ U) ++ write_varuint (N.of_nat (length sigs))) ++ flat_map sig_encode sigs ++ post)) < two64).
  { rewrite <- !app_assoc in *. exact L2. }
  rewrite (mexact_sigs sigs _ post L3).
  rewrite !after_app. fold (sigs_encode sigs). fold S.
  rewrite <- (at_app pre U S post).
  rewrite (sub64_at_after pre (U ++ S) post L).
  unfold guard. replace (negb (MAX_TX_SIZE <? N.of_nat (length (U ++ S)))) with true
    by (symmetry; apply negb_true_iff, N.ltb_ge; exact Sz).
  unfold ret at 1. rewrite (reread_at_after pre (U ++ S) post L). unfold ret.
  rewrite HU, HH, R. reflexivity.
Qed.

Lemma max_lt : forall n, n <= MAX_TX_SIZE -> n < two64.
Proof. intros n Hn. unfold MAX_TX_SIZE, two64 in *. lia. Qed.

(** From the start of a buffer that holds exactly the encoding. *)
Corollary ont_roundtrip_raw t :
  ont_tx t -> t_raw t = tx_encode E t -> N.of_nat (length (tx_encode E t)) <= MAX_TX_SIZE ->
  fst (tx_from_raw_bytes H E (tx_encode E t)) = inl t.
Proof.
  intros O R Sz. unfold tx_from_raw_bytes, blen.
  replace (MAX_TX_SIZE <? N.of_nat (length (tx_encode E t))) with false by (symmetry; apply N.ltb_ge; exact Sz).
  pose proof (ont_roundtrip t [] [] O R Sz) as RT. unfold at_ in RT. cbn [app length] in RT.
  rewrite app_nil_r in RT. unfold src_new. rewrite RT; [reflexivity|]. apply max_lt. exact Sz.
Qed.

(** The writer is injective on well-formed transactions: one transaction per encoding. *)
Theorem tx_encode_injective t1 t2 :
  ont_tx t1 -> t_raw t1 = tx_encode E t1 -> N.of_nat (length (tx_encode E t1)) <= MAX_TX_SIZE ->
  ont_tx t2 -> t_raw t2 = tx_encode E t2 -> N.of_nat (length (tx_encode E t2)) <= MAX_TX_SIZE ->
  tx_encode E t1 = tx_encode E t2 -> t1 = t2.
Proof.
  intros O1 R1 S1 O2 R2 S2 EQ.
  pose proof (ont_roundtrip_raw t1 O1 R1 S1) as A. pose proof (ont_roundtrip_raw t2 O2 R2 S2) as B.
  rewrite EQ in A. rewrite A in B. inversion B. reflexivity.
Qed.

(** The transaction obtained from [t] by replacing its signature section. *)
Definition resign (t : tx etx) (sigs : list rawsig) : tx etx :=
  mkTx (t_version t) (t_type t) (t_nonce t) (t_gasprice t) (t_gaslimit t) (t_payer t) (t_payload t) 0 sigs
       (tx_encode_unsigned E t ++ sigs_encode sigs) (t_hash_unsigned t) (t_hash t).

Lemma resign_ok t sigs :
  ont_tx t -> N.of_nat (length sigs) <= TX_MAX_SIG_SIZE ->
  ont_tx (resign t sigs) /\ t_raw (resign t sigs) = tx_encode E (resign t sigs) /\
  tx_encode E (resign t sigs) = tx_encode_unsigned E t ++ sigs_encode sigs.
Proof.
  intros (Uok & At & Ns & HU & HH) Ns'.
  assert (EU : tx_encode_unsigned E (resign t sigs) = tx_encode_unsigned E t).
  { unfold tx_encode_unsigned, resign. cbn [t_version t_type t_nonce t_gasprice t_gaslimit t_payer t_payload t_attr].
    rewrite At. reflexivity. }
  assert (EN : tx_encode E (resign t sigs) = tx_encode_unsigned E t ++ sigs_encode sigs).
  { unfold tx_encode. rewrite EU. unfold resign at 1 2. cbn [t_payload t_sigs].
    destruct Uok as (_ & _ & _ & _ & _ & _ & _ & PO). cbn [u_payload u_type] in PO.
    destruct (t_payload t); [reflexivity|reflexivity|contradiction]. }
  split; [|split; [rewrite EN; reflexivity|exact EN]].
  unfold TxCodec.ont_tx. rewrite EU. unfold resign.
  cbn [t_version t_type t_nonce t_gasprice t_gaslimit t_payer t_payload t_attr t_sigs t_hash_unsigned t_hash].
  repeat split; try assumption; apply Uok.
Qed.

(** Signatures are not covered by the hash, existentially: for an accepted transaction and ANY
    other signature section within the limits, the re-signed byte string is accepted, wherever it
    sits, and has the same hash. *)
Theorem resigned_accepted_same_hash t sigs pre post :
  ont_tx t -> N.of_nat (length sigs) <= TX_MAX_SIG_SIZE ->
  let b := tx_encode_unsigned E t ++ sigs_encode sigs in
  N.of_nat (length b) <= MAX_TX_SIZE -> N.of_nat (length (pre ++ b ++ post)) < two64 ->
  exists t', tx_deserialization H E (at_ pre b post) = (inl t', after_ pre b post) /\
             t_hash t' = t_hash t /\ t_sigs t' = sigs /\ tx_to_array t' = b.
Proof.
  intros O Ns b Sz L. destruct (resign_ok t sigs O Ns) as (O' & R' & EN).
  exists (resign t sigs). fold b in EN. rewrite <- EN in *.
  split; [apply ont_roundtrip; assumption|]. split; [reflexivity|]. split; [reflexivity|exact R'].
Qed.

(** Equal unsigned bytes mean equal unsigned fields. *)
Theorem unsigned_fields_determined t1 t2 :
  ont_tx t1 -> N.of_nat (length (tx_encode E t1)) <= MAX_TX_SIZE ->
  ont_tx t2 -> N.of_nat (length (tx_encode E t2)) <= MAX_TX_SIZE ->
  tx_encode_unsigned E t1 = tx_encode_unsigned E t2 ->
  t_version t1 = t_version t2 /\ t_type t1 = t_type t2 /\ t_nonce t1 = t_nonce t2 /\
  t_gasprice t1 = t_gasprice t2 /\ t_gaslimit t1 = t_gaslimit t2 /\ t_payer t1 = t_payer t2 /\
  t_payload t1 = t_payload t2.
Proof.
  intros O1 S1 O2 S2 EQ.
  assert (N0 : N.of_nat (length (@nil rawsig)) <= TX_MAX_SIG_SIZE) by (unfold TX_MAX_SIG_SIZE; simpl; lia).
  destruct (resign_ok t1 [] O1 N0) as (A1 & B1 & C1). destruct (resign_ok t2 [] O2 N0) as (A2 & B2 & C2).
  assert (Sh : forall t, ont_tx t -> N.of_nat (length (tx_encode E t)) <= MAX_TX_SIZE ->
               N.of_nat (length (tx_encode_unsigned E t ++ sigs_encode [])) <= MAX_TX_SIZE).
  { intros t (Uok & _) S. unfold tx_encode in S.
    assert (X : N.of_nat (length (tx_encode_unsigned E t ++ sigs_encode (t_sigs t))) <= MAX_TX_SIZE).
    { destruct Uok as (_ & _ & _ & _ & _ & _ & _ & PO). cbn [u_payload u_type] in PO.
      destruct (t_payload t); [exact S|exact S|contradiction]. }
    assert (W : (1 <= length (sigs_encode (t_sigs t)))%nat).
    { unfold sigs_encode. rewrite app_length, write_varuint_length.
      destruct (getVarUintSize_cases (N.of_nat (length (t_sigs t)))) as [[_ ->]|[[_ ->]|[[_ ->]|[_ ->]]]]; lia. }
    assert (W0 : length (sigs_encode []) = 1%nat) by reflexivity.
    rewrite app_length in *. rewrite W0. lia. }
  assert (T : resign t1 [] = resign t2 []).
  { apply tx_encode_injective; try assumption.
    - rewrite C1. apply Sh; assumption.
    - rewrite C2. apply Sh; assumption.
    - rewrite C1, C2, EQ. reflexivity. }
  unfold resign in T. inversion T. repeat split; assumption.
Qed.
End RoundTrip.

Section Binding.
Variable H : bytes -> bytes.
Variable etx : Type.
Variable E : ethapi etx.
Hypothesis rlp_canon : forall b e, rlp_dec E b = Some e -> rlp_enc E e = b.

(** What acceptance of an Ontology-format transaction establishes. *)
Lemma accepted_wf s t s' :
  good s -> tx_deserialization H E s = (inl t, s') -> t_type t <> TX_EIP155 ->
  ont_tx H etx E t /\ t_raw t = tx_encode E t /\ N.of_nat (length (tx_encode E t)) <= MAX_TX_SIZE.
Proof.
  intros G D T. pose proof (tx_deserialization_spec H etx E rlp_canon s G) as P. rewrite D in P.
  destruct P as (bs & _ & A). pose proof (accepted_ont H etx E rlp_canon t bs A T) as O.
  destruct A as (-> & R & Sz & _). auto.
Qed.

(** The hash binds the signed content: two accepted Ontology-format transactions with the same
    hash agree on every unsigned field, or the statement exhibits a collision of [H]. *)
Theorem hash_binds_content s1 s1' t1 s2 s2' t2 :
  good s1 -> good s2 ->
  tx_deserialization H E s1 = (inl t1, s1') -> tx_deserialization H E s2 = (inl t2, s2') ->
  t_type t1 <> TX_EIP155 -> t_type t2 <> TX_EIP155 ->
  t_hash t1 = t_hash t2 ->
  (t_version t1 = t_version t2 /\ t_type t1 = t_type t2 /\ t_nonce t1 = t_nonce t2 /\
   t_gasprice t1 = t_gasprice t2 /\ t_gaslimit t1 = t_gaslimit t2 /\ t_payer t1 = t_payer t2 /\
   t_payload t1 = t_payload t2) \/
  exists x y, x <> y /\ H x = H y.
Proof.
  intros G1 G2 D1 D2 T1 T2 EH.
  destruct (hash_binds_unsigned H etx E rlp_canon _ _ _ _ _ _ G1 G2 D1 D2 T1 T2 EH) as [EU|C]; [left|right; exact C].
  destruct (accepted_wf _ _ _ G1 D1 T1) as (O1 & _ & S1). destruct (accepted_wf _ _ _ G2 D2 T2) as (O2 & _ & S2).
  apply (unsigned_fields_determined H etx E t1 t2 O1 S1 O2 S2 EU).
Qed.

(** Decoding then re-decoding: whatever was accepted is accepted again from its own bytes, anywhere. *)
Theorem accepted_redecodes s t s' pre post :
  good s -> tx_deserialization H E s = (inl t, s') -> t_type t <> TX_EIP155 ->
  N.of_nat (length (pre ++ tx_encode E t ++ post)) < two64 ->
  tx_deserialization H E (at_ pre (tx_encode E t) post) = (inl t, after_ pre (tx_encode E t) post).
Proof.
  intros G D T L. destruct (accepted_wf _ _ _ G D T) as (O & R & Sz). apply ont_roundtrip; assumption.
Qed.
End Binding.
