(** C16 on transaction BYTES: Model/TxCodec.v's decoder (C19) composed with Model/Sig.v's
    validator.  Two byte strings that decode to Ontology-format transactions with the same
    signature section but different signed (unsigned-part) bytes: if the first is accepted, the
    second is not - or the two exhibit a collision of the hash function [Hsha] (sha256). *)
From Coq Require Import List Bool NArith ZArith Lia.
Import ListNotations.
From Ont Require Import Lib.Bytes Model.Codec Gen.TxConsts Gen.SigConsts Model.Program Model.TxCodec Model.Sig Model.SigTx.
From Ont Require Import Proofs.TxCodec Proofs.Sig Proofs.SigAbs.
Local Open Scope N_scope.

Lemma eip_tags_agree : SIG_TX_EIP155 = TX_EIP155.
Proof. reflexivity. Qed.

Section SigTx.
Variable Hsha : bytes -> bytes.
Variable etx : Type.
Variable E : ethapi etx.
Hypothesis rlp_canon : forall b e, rlp_dec E b = Some e -> rlp_enc E e = b.

Variable weak : pubkey -> bool.
Variable deser : bytes -> option pubkey.
Variable sdeser : bytes -> option asig.
Variable Haddr : bytes -> bytes.
Variable Keth : bytes -> bytes.

Notation cts := (check_transaction_signatures deser asig sdeser (abs_verify weak) Haddr Keth).

Lemma vtx_of_ont (t : tx etx) : t_type t <> TX_EIP155 -> v_eip (vtx_of_tx t) = false.
Proof.
  intro T. unfold vtx_of_tx. cbn [v_eip]. rewrite eip_tags_agree. apply N.eqb_neq. exact T.
Qed.

Theorem signed_bytes_mutation_proof s1 s1' t1 s2 s2' t2 addrs :
  good s1 -> good s2 ->
  tx_deserialization Hsha E s1 = (inl t1, s1') -> tx_deserialization Hsha E s2 = (inl t2, s2') ->
  t_type t1 <> TX_EIP155 -> t_type t2 <> TX_EIP155 ->
  cts (vtx_of_tx t1) = VAccept addrs ->
  t_sigs t2 = t_sigs t1 ->
  tx_encode_unsigned E t1 <> tx_encode_unsigned E t2 ->
  (forall addrs', cts (vtx_of_tx t2) <> VAccept addrs') \/ (exists x y, x <> y /\ Hsha x = Hsha y).
Proof.
  intros G1 G2 D1 D2 T1 T2 A S U.
  destruct (list_eq_dec N.eq_dec (t_hash t2) (t_hash t1)) as [Eh|Nh].
  - right. destruct (hash_binds_unsigned Hsha etx E rlp_canon _ _ _ _ _ _ G1 G2 D1 D2 T1 T2 (eq_sym Eh)) as [Eu|C];
      [contradiction|exact C].
  - left. intros addrs' A2.
    assert (V2 : vtx_of_tx t2 = mkVtx false (t_hash t2) (t_payer t2) (v_sigs (vtx_of_tx t1))).
    { pose proof (vtx_of_ont t2 T2) as Ev. unfold vtx_of_tx in *. cbn [v_eip v_sigs] in *. rewrite Ev, S. reflexivity. }
    rewrite V2 in A2.
    refine (hash_mutation_not_accepted_proof weak deser sdeser Haddr Keth (vtx_of_tx t1) addrs (t_hash t2) (t_payer t2) A _ addrs' A2).
    unfold vtx_of_tx. cbn [v_hash]. exact Nh.
Qed.

End SigTx.
