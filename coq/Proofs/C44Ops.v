(** C44, part 4: the service calls (Contract.Create/Migrate/Destroy, Storage.Put/Delete, the
    operator's AddDestroyed/RemoveDestroyed) — what each leaves in the store, and the two
    per-address invariants they preserve:
      [deadf a]   the destroyed marker of [a] is set and no storage entry lies under [a];
      [orphf a]   no contract record at [a] => no storage entry under [a]. *)
From Coq Require Import List Bool Arith NArith Lia.
Import ListNotations.
From Ont Require Import Lib.Bytes Model.KV Proofs.KV Proofs.KVLive Gen.ContractConsts Model.ContractStore
  Proofs.C44Loop Proofs.C44Effect Proofs.C44Spec.
Local Open Scope N_scope.
Open Scope bool_scope.

Definition ov (o : option bytes) : bytes := match o with Some v => v | None => [] end.
Definition isS (o : option bytes) : bool := match o with Some _ => true | None => false end.

Lemma cache_get_ov pfx s k : sorted_state s -> cache_get pfx s k = ov (glk s (pkey pfx k)).
Proof. apply cache_get_glk. Qed.

Lemma ov_empty s x : is_empty (ov (glk s x)) = negb (isS (glk s x)).
Proof.
  destruct (glk s x) as [v|] eqn:E; simpl; [|reflexivity].
  destruct v; [exfalso; eapply glk_nonempty; eauto|reflexivity].
Qed.

Lemma is_destroyed_glk s a : sorted_state s -> is_destroyed s a = isS (glk s (DK a)).
Proof.
  intro Hs. unfold is_destroyed. rewrite cache_get_ov by exact Hs. fold (DK a). rewrite ov_empty.
  apply negb_involutive.
Qed.

Lemma get_contract_glk s a : sorted_state s ->
  get_contract s a = if isS (glk s (DK a)) then (None, true) else (glk s (CK a), false).
Proof.
  intro Hs. unfold get_contract. rewrite is_destroyed_glk by exact Hs.
  destruct (isS (glk s (DK a))); [reflexivity|].
  rewrite cache_get_ov by exact Hs. fold (CK a). rewrite ov_empty.
  destruct (glk s (CK a)); reflexivity.
Qed.

Lemma undeployed_glk s a : sorted_state s ->
  undeployed s a = negb (isS (glk s (DK a))) && negb (isS (glk s (CK a))).
Proof.
  intro Hs. unfold undeployed. rewrite get_contract_glk by exact Hs.
  destruct (isS (glk s (DK a))); [reflexivity|]. destruct (glk s (CK a)); reflexivity.
Qed.

Lemma context_ok_glk s a : sorted_state s ->
  context_ok s a = negb (isS (glk s (DK a))) && isS (glk s (CK a)).
Proof.
  intro Hs. unfold context_ok. rewrite get_contract_glk by exact Hs.
  destruct (isS (glk s (DK a))); [reflexivity|]. destruct (glk s (CK a)); reflexivity.
Qed.

(** * full specifications (DeleteContract included) *)
Theorem migrate_full_spec track h old new s : good s -> is_addr old = true -> is_addr new = true ->
  let r := migrate_contract_storage track h old new s in
  snd r = true /\ good (fst r) /\ same_block s (fst r) /\
  (forall x, has_prefix (SP old) x = true -> glk (fst r) x = None) /\
  (old <> new -> forall sfx, glk (fst r) (SK new sfx) =
                   match glk s (SK old sfx) with Some v => Some v | None => glk s (SK new sfx) end) /\
  (forall x, has_prefix (SP old) x = false -> has_prefix (SP new) x = false ->
     glk (fst r) x = if (track <=? h) && key_eqb x (DK old) then Some (marker h)
                     else if key_eqb x (CK old) then None else glk s x).
Proof.
  intros G Ao An r. pose proof (good_sorted s G) as Hs.
  assert (Wo : wf_bytes old = true) by (apply is_addr_spec in Ao; apply Ao).
  pose proof (delete_contract_good track h old s G Wo) as G0.
  destruct (migrate_loop_spec old new (delete_contract track h old s) G0 Ao An) as (R1 & R2 & R3 & R4 & R5 & R6).
  unfold r, migrate_contract_storage. split; [exact R1|]. split; [exact R2|]. split.
  { eapply same_block_trans; [apply delete_contract_block|exact R3]. }
  split; [exact R4|]. split.
  - intros Hne sfx. rewrite (R5 Hne sfx). rewrite !glk_delete_contract by exact Hs.
    rewrite (SK_not_DK _ old old sfx eq_refl), (SK_not_CK _ old old sfx eq_refl).
    rewrite (SK_not_DK _ new old sfx eq_refl), (SK_not_CK _ new old sfx eq_refl).
    rewrite !andb_false_r. reflexivity.
  - intros x H1 H2. rewrite (R6 x H1 H2). apply glk_delete_contract; exact Hs.
Qed.

Theorem clean_full_spec track h a s : good s -> is_addr a = true ->
  let r := clean_contract_storage track h a s in
  snd r = true /\ good (fst r) /\ same_block s (fst r) /\
  forall x, glk (fst r) x =
    if has_prefix (SP a) x then None
    else if (track <=? h) && key_eqb x (DK a) then Some (marker h)
    else if key_eqb x (CK a) then None else glk s x.
Proof.
  intros G Aa r. pose proof (good_sorted s G) as Hs.
  assert (Wa : wf_bytes a = true) by (apply is_addr_spec in Aa; apply Aa).
  pose proof (delete_contract_good track h a s G Wa) as G0.
  destruct (clean_data_spec a (delete_contract track h a s) G0) as (R1 & R2 & R3 & R4).
  unfold r, clean_contract_storage. split; [exact R1|]. split; [exact R2|]. split.
  { eapply same_block_trans; [apply delete_contract_block|exact R3]. }
  intro x. rewrite R4. destruct (has_prefix (SP a) x); [reflexivity|]. apply glk_delete_contract; exact Hs.
Qed.

Lemma glk_put_contract a code s x : sorted_state s -> code_ok code = true ->
  glk (put_contract a code s) x = if key_eqb x (CK a) then Some code else glk s x.
Proof.
  intros Hs Hc. unfold put_contract. rewrite glk_put by exact Hs. fold (CK a).
  destruct (key_eqb x (CK a)); [|reflexivity]. unfold code_ok in Hc. apply andb_prop in Hc. destruct Hc as [_ Hc].
  unfold nz. apply negb_true_iff in Hc. rewrite Hc. reflexivity.
Qed.

Lemma of_loop_ok r s' : of_loop r = Ok s' -> snd r = true /\ fst r = s'.
Proof. unfold of_loop. destruct (snd r); intro H; inversion H; auto. Qed.

Lemma is_addr_wf a : is_addr a = true -> wf_bytes a = true.
Proof. intro H. apply is_addr_spec in H. apply H. Qed.
Lemma is_addr_len a : is_addr a = true -> length a = ADDR_LEN.
Proof. intro H. apply is_addr_spec in H. apply H. Qed.

Lemma code_ok_wf c : code_ok c = true -> wf_bytes c = true.
Proof. unfold code_ok. intro H. apply andb_prop in H. apply H. Qed.

(** every service call keeps the store well formed and touches only the transaction cache *)
Lemma exec_good_any strict track h s o s' : good s -> cop_wf o = true -> exec strict track h s o = Ok s' ->
  good s' /\ same_block s s'.
Proof.
  intros G W E. destruct o as [a code|cur new code|cur|cur k v|cur k|a|a|a]; cbn [exec cop_wf] in *.
  - apply andb_prop in W. destruct W as [Wa Wc].
    destruct (get_contract s a) as [[c|] [|]]; inversion E; subst; try (split; [exact G|apply same_block_refl]).
    split; [apply good_put; [exact G|reflexivity|apply is_addr_wf; exact Wa]|apply same_block_put].
  - apply andb_prop in W. destruct W as [W Wc]. apply andb_prop in W. destruct W as [Wcur Wnew].
    destruct (undeployed s new); [|discriminate]. apply of_loop_ok in E. destruct E as [_ <-].
    assert (G1 : good (put_contract new code s)) by (apply good_put; [exact G|reflexivity|apply is_addr_wf; exact Wnew]).
    destruct (migrate_full_spec track h cur new _ G1 Wcur Wnew) as (_ & R2 & R3 & _).
    split; [exact R2|]. eapply same_block_trans; [apply same_block_put|exact R3].
  - destruct (context_ok s cur); [|discriminate]. apply of_loop_ok in E. destruct E as [_ <-].
    destruct (clean_full_spec track h cur s G W) as (_ & R2 & R3 & _). split; assumption.
  - apply andb_prop in W. destruct W as [W Wv]. apply andb_prop in W. destruct W as [Wcur Wk].
    destruct (negb strict || context_ok s cur); [|discriminate]. destruct (C44_MAX_STORAGE_KEY <? _); [discriminate|].
    inversion E; subst. split; [|apply same_block_put].
    apply good_put; [exact G|reflexivity|]. rewrite wf_bytes_app, (is_addr_wf _ Wcur), Wk. reflexivity.
  - apply andb_prop in W. destruct W as [Wcur Wk].
    destruct (negb strict || context_ok s cur); [|discriminate]. inversion E; subst. split; [|apply same_block_delete].
    apply good_delete; [exact G|reflexivity|]. rewrite wf_bytes_app, (is_addr_wf _ Wcur), Wk. reflexivity.
  - inversion E; subst. split; [apply set_destroyed_good; [exact G|apply is_addr_wf; exact W]|apply set_destroyed_block].
  - inversion E; subst. split; [apply unset_destroyed_good; [exact G|apply is_addr_wf; exact W]|apply unset_destroyed_block].
  - destruct (context_ok s a); inversion E; subst. split; [exact G|apply same_block_refl].
Qed.

Lemma exec_good track h s o s' : good s -> cop_wf o = true -> exec true track h s o = Ok s' ->
  good s' /\ same_block s s'.
Proof. apply exec_good_any. Qed.

(** * prefix separation for addresses *)
Lemma other_prefix a b x : length a = length b -> a <> b -> has_prefix (SP a) x = true -> has_prefix (SP b) x = false.
Proof.
  intros HL Hne H. apply SP_prefix_inv in H. rewrite H. apply SP_disjoint; [symmetry; exact HL|congruence].
Qed.

Lemma SK_under a k : has_prefix (SP a) (pkey ST_STORAGE (a ++ k)) = true.
Proof. apply (SP_prefix_SK a k). Qed.

Section PerAddress.
Variable a : bytes.
Hypothesis Aa : is_addr a = true.
Let La : length a = ADDR_LEN := is_addr_len a Aa.

(** [a] is destroyed and owns no storage *)
Definition deadf (f : bytes -> option bytes) : Prop :=
  f (DK a) <> None /\ forall x, has_prefix (SP a) x = true -> f x = None.

(** no record at [a] => no storage under [a] *)
Definition orphf (f : bytes -> option bytes) : Prop :=
  f (CK a) = None -> forall x, has_prefix (SP a) x = true -> f x = None.

Lemma deadf_ext f g : (forall x, f x = g x) -> deadf f -> deadf g.
Proof. intros E [D1 D2]. split; [rewrite <- E; exact D1|intros x Hx; rewrite <- E; apply D2; exact Hx]. Qed.
Lemma orphf_ext f g : (forall x, f x = g x) -> orphf f -> orphf g.
Proof. intros E O H x Hx. rewrite <- E. apply O; [rewrite E; exact H|exact Hx]. Qed.

Lemma dead_isS s : deadf (glk s) -> isS (glk s (DK a)) = true.
Proof. intros [D _]. destruct (glk s (DK a)); [reflexivity|congruence]. Qed.

Lemma dead_get_contract s : sorted_state s -> deadf (glk s) -> get_contract s a = (None, true).
Proof. intros Hs D. rewrite get_contract_glk by exact Hs. rewrite (dead_isS s D). reflexivity. Qed.

Lemma dead_not_undeployed s : sorted_state s -> deadf (glk s) -> undeployed s a = false.
Proof. intros Hs D. rewrite undeployed_glk by exact Hs. rewrite (dead_isS s D). reflexivity. Qed.

Lemma dead_not_context s : sorted_state s -> deadf (glk s) -> context_ok s a = false.
Proof. intros Hs D. rewrite context_ok_glk by exact Hs. rewrite (dead_isS s D). reflexivity. Qed.

(** a destroyed address refuses every call that would deploy at it or write under it *)
Lemma exec_dead_refuses track h s o : good s -> deadf (glk s) -> cop_touches a o = true ->
  exec true track h s o = Err Refused.
Proof.
  intros G D T. pose proof (good_sorted s G) as Hs.
  destruct o as [b code|cur new code|cur|cur k v|cur k|b|b|b]; cbn [cop_touches] in T; try discriminate;
    apply bytes_eqb_eq in T; subst; cbn [exec].
  - rewrite (dead_not_undeployed s Hs D). reflexivity.
  - rewrite (dead_not_context s Hs D). reflexivity.
  - rewrite (dead_not_context s Hs D). reflexivity.
  - rewrite (dead_not_context s Hs D). reflexivity.
Qed.

Lemma under_not_CK x b : has_prefix (SP a) x = true -> key_eqb x (CK b) = false.
Proof. apply under_prefix_not_CK. Qed.
Lemma under_not_DK x b : has_prefix (SP a) x = true -> key_eqb x (DK b) = false.
Proof. apply under_prefix_not_DK. Qed.

(** the effect of a migrate / clean on the keys of a third address *)
Lemma migrate_third track h cur new s x : good s -> is_addr cur = true -> is_addr new = true ->
  a <> cur -> a <> new -> has_prefix (SP a) x = true ->
  glk (fst (migrate_contract_storage track h cur new s)) x = glk s x.
Proof.
  intros G Ac An N1 N2 Hx. destruct (migrate_full_spec track h cur new s G Ac An) as (_ & _ & _ & _ & _ & R).
  rewrite R.
  - rewrite (under_not_DK x cur Hx), (under_not_CK x cur Hx), andb_false_r. reflexivity.
  - apply (other_prefix a cur); [rewrite La, (is_addr_len _ Ac); reflexivity|exact N1|exact Hx].
  - apply (other_prefix a new); [rewrite La, (is_addr_len _ An); reflexivity|exact N2|exact Hx].
Qed.

Lemma exec_dead track h s o s' : good s -> cop_wf o = true -> cop_unsets a o = false ->
  deadf (glk s) -> exec true track h s o = Ok s' -> deadf (glk s').
Proof.
  intros G W U D E. pose proof (good_sorted s G) as Hs. pose proof D as [D1 D2].
  destruct o as [b code|cur new code|cur|cur k v|cur k|b|b|b]; cbn [exec cop_wf cop_unsets negb orb] in *.
  - (* Create *)
    apply andb_prop in W. destruct W as [Wb Wc].
    destruct (get_contract s b) as [[c|] [|]]; inversion E; subst; try exact D.
    split.
    + rewrite glk_put_contract by assumption. rewrite DK_not_CK. exact D1.
    + intros x Hx. rewrite glk_put_contract by assumption. rewrite (under_not_CK x b Hx). apply D2; exact Hx.
  - (* Migrate *)
    apply andb_prop in W. destruct W as [W Wc]. apply andb_prop in W. destruct W as [Wcur Wnew].
    destruct (undeployed s new) eqn:Un; [|discriminate]. apply of_loop_ok in E. destruct E as [_ <-].
    assert (Nn : a <> new).
    { intros <-. rewrite (dead_not_undeployed s Hs D) in Un. discriminate. }
    set (s1 := put_contract new code s).
    assert (G1 : good s1) by (apply good_put; [exact G|reflexivity|apply is_addr_wf; exact Wnew]).
    assert (E1 : forall x, glk s1 x = if key_eqb x (CK new) then Some code else glk s x)
      by (intro x; apply glk_put_contract; assumption).
    destruct (migrate_full_spec track h cur new s1 G1 Wcur Wnew) as (_ & _ & _ & R4 & _ & R6).
    split.
    + rewrite R6 by apply DK_not_SP. rewrite DK_not_CK.
      destruct ((track <=? h) && key_eqb (DK a) (DK cur)); [discriminate|].
      rewrite E1, DK_not_CK. exact D1.
    + intros x Hx. destruct (bytes_dec a cur) as [<-|Nc].
      * apply R4; exact Hx.
      * rewrite (migrate_third track h cur new s1 x G1 Wcur Wnew Nc Nn Hx).
        rewrite E1, (under_not_CK x new Hx). apply D2; exact Hx.
  - (* Destroy *)
    destruct (context_ok s cur) eqn:C; [|discriminate]. apply of_loop_ok in E. destruct E as [_ <-].
    destruct (clean_full_spec track h cur s G W) as (_ & _ & _ & R). split.
    + rewrite R, DK_not_SP, DK_not_CK. destruct ((track <=? h) && key_eqb (DK a) (DK cur)); [discriminate|exact D1].
    + intros x Hx. rewrite R. destruct (has_prefix (SP cur) x); [reflexivity|].
      rewrite (under_not_DK x cur Hx), (under_not_CK x cur Hx), andb_false_r. apply D2; exact Hx.
  - (* Put *)
    apply andb_prop in W. destruct W as [W Wv]. apply andb_prop in W. destruct W as [Wcur Wk].
    destruct (context_ok s cur) eqn:C; [|discriminate]. destruct (C44_MAX_STORAGE_KEY <? _); [discriminate|].
    inversion E; subst. clear E.
    assert (Nc : a <> cur) by (intros <-; rewrite (dead_not_context s Hs D) in C; discriminate).
    split.
    + rewrite glk_put by exact Hs. change (pkey ST_STORAGE (cur ++ k)) with (SK cur k).
      rewrite key_eqb_sym, (SK_not_DK _ cur a k eq_refl). exact D1.
    + intros x Hx. rewrite glk_put by exact Hs.
      destruct (key_eqb x (pkey ST_STORAGE (cur ++ k))) eqn:K; [|apply D2; exact Hx].
      apply key_eqb_eq in K. subst x. exfalso.
      rewrite (other_prefix cur a _ ltac:(rewrite La, (is_addr_len _ Wcur); reflexivity) ltac:(congruence) (SK_under cur k)) in Hx.
      discriminate.
  - (* Delete *)
    apply andb_prop in W. destruct W as [Wcur Wk].
    destruct (context_ok s cur) eqn:C; [|discriminate]. inversion E; subst. clear E. split.
    + rewrite glk_delete by exact Hs. change (pkey ST_STORAGE (cur ++ k)) with (SK cur k).
      rewrite key_eqb_sym, (SK_not_DK _ cur a k eq_refl). exact D1.
    + intros x Hx. rewrite glk_delete by exact Hs. destruct (key_eqb x _); [reflexivity|apply D2; exact Hx].
  - (* AddDestroyed *)
    inversion E; subst. split.
    + rewrite glk_set_destroyed by exact Hs. destruct ((track <=? h) && _); [discriminate|exact D1].
    + intros x Hx. rewrite glk_set_destroyed by exact Hs. rewrite (under_not_DK x b Hx), andb_false_r. apply D2; exact Hx.
  - (* RemoveDestroyed, of another address *)
    inversion E; subst. assert (Nb : b <> a) by (intros ->; rewrite (proj2 (bytes_eqb_eq a a) eq_refl) in U; discriminate).
    split.
    + rewrite glk_unset_destroyed by exact Hs.
      destruct (key_eqb (DK a) (DK b)) eqn:K; [apply DK_eqb in K; congruence|]. rewrite andb_false_r. exact D1.
    + intros x Hx. rewrite glk_unset_destroyed by exact Hs. rewrite (under_not_DK x b Hx), andb_false_r. apply D2; exact Hx.
  - (* APPCALL *)
    destruct (context_ok s b); inversion E; subst. exact D.
Qed.

Lemma exec_orph track h s o s' : good s -> cop_wf o = true ->
  orphf (glk s) -> exec true track h s o = Ok s' -> orphf (glk s').
Proof.
  intros G W O E. pose proof (good_sorted s G) as Hs.
  destruct o as [b code|cur new code|cur|cur k v|cur k|b|b|b]; cbn [exec cop_wf negb orb] in *.
  - (* Create *)
    apply andb_prop in W. destruct W as [Wb Wc].
    destruct (get_contract s b) as [[c|] [|]]; inversion E; subst; try exact O.
    intros H x Hx. rewrite glk_put_contract in * by assumption. rewrite (under_not_CK x b Hx).
    destruct (key_eqb (CK a) (CK b)); [discriminate|]. apply O; assumption.
  - (* Migrate *)
    apply andb_prop in W. destruct W as [W Wc]. apply andb_prop in W. destruct W as [Wcur Wnew].
    destruct (undeployed s new) eqn:Un; [|discriminate]. apply of_loop_ok in E. destruct E as [_ <-].
    set (s1 := put_contract new code s).
    assert (G1 : good s1) by (apply good_put; [exact G|reflexivity|apply is_addr_wf; exact Wnew]).
    assert (E1 : forall x, glk s1 x = if key_eqb x (CK new) then Some code else glk s x)
      by (intro x; apply glk_put_contract; assumption).
    destruct (migrate_full_spec track h cur new s1 G1 Wcur Wnew) as (_ & _ & _ & R4 & _ & R6).
    intros H x Hx. destruct (bytes_dec a cur) as [<-|Nc]; [apply R4; exact Hx|].
    destruct (bytes_dec a new) as [<-|Nn].
    + (* the record of [a] was just written and is not the one deleted *)
      exfalso. rewrite R6 in H by apply CK_not_SP. rewrite CK_not_DK, andb_false_r in H.
      destruct (key_eqb (CK a) (CK cur)) eqn:K; [apply CK_eqb in K; congruence|].
      rewrite E1, key_eqb_refl in H. discriminate.
    + rewrite (migrate_third track h cur new s1 x G1 Wcur Wnew Nc Nn Hx).
      rewrite E1, (under_not_CK x new Hx). apply O; [|exact Hx].
      rewrite R6 in H by apply CK_not_SP. rewrite CK_not_DK, andb_false_r in H.
      destruct (key_eqb (CK a) (CK cur)) eqn:K; [apply CK_eqb in K; congruence|].
      rewrite E1 in H. destruct (key_eqb (CK a) (CK new)) eqn:K2; [discriminate|exact H].
  - (* Destroy *)
    destruct (context_ok s cur) eqn:C; [|discriminate]. apply of_loop_ok in E. destruct E as [_ <-].
    destruct (clean_full_spec track h cur s G W) as (_ & _ & _ & R).
    intros H x Hx. rewrite R. destruct (has_prefix (SP cur) x) eqn:P; [reflexivity|].
    rewrite (under_not_DK x cur Hx), (under_not_CK x cur Hx), andb_false_r. apply O; [|exact Hx].
    rewrite R, CK_not_SP, CK_not_DK, andb_false_r in H.
    destruct (key_eqb (CK a) (CK cur)) eqn:K; [|exact H].
    apply CK_eqb in K. subst cur. rewrite Hx in P. discriminate.
  - (* Put *)
    apply andb_prop in W. destruct W as [W Wv]. apply andb_prop in W. destruct W as [Wcur Wk].
    destruct (context_ok s cur) eqn:C; [|discriminate]. destruct (C44_MAX_STORAGE_KEY <? _); [discriminate|].
    inversion E; subst. clear E. intros H x Hx. rewrite glk_put in * by exact Hs.
    change (pkey ST_STORAGE (cur ++ k)) with (SK cur k) in *.
    rewrite key_eqb_sym, (SK_not_CK _ cur a k eq_refl) in H.
    destruct (key_eqb x (SK cur k)) eqn:K; [|apply O; assumption].
    apply key_eqb_eq in K. subst x. exfalso.
    destruct (bytes_dec a cur) as [<-|Nc].
    + rewrite context_ok_glk in C by exact Hs. rewrite H in C. rewrite andb_false_r in C. discriminate.
    + rewrite (other_prefix cur a _ ltac:(rewrite La, (is_addr_len _ Wcur); reflexivity) ltac:(congruence) (SP_prefix_SK cur k)) in Hx.
      discriminate.
  - (* Delete *)
    apply andb_prop in W. destruct W as [Wcur Wk].
    destruct (context_ok s cur) eqn:C; [|discriminate]. inversion E; subst. clear E.
    intros H x Hx. rewrite glk_delete in * by exact Hs.
    change (pkey ST_STORAGE (cur ++ k)) with (SK cur k) in *.
    rewrite key_eqb_sym, (SK_not_CK _ cur a k eq_refl) in H.
    destruct (key_eqb x (SK cur k)); [reflexivity|apply O; assumption].
  - (* AddDestroyed *)
    inversion E; subst. intros H x Hx. rewrite glk_set_destroyed in * by exact Hs.
    rewrite CK_not_DK, andb_false_r in H. rewrite (under_not_DK x b Hx), andb_false_r. apply O; assumption.
  - (* RemoveDestroyed *)
    inversion E; subst. intros H x Hx. rewrite glk_unset_destroyed in * by exact Hs.
    rewrite CK_not_DK, andb_false_r in H. rewrite (under_not_DK x b Hx), andb_false_r. apply O; assumption.
  - (* APPCALL *)
    destruct (context_ok s b); inversion E; subst. exact O.
Qed.

(** [a] is marked destroyed and has no record: preserved by the code AS IT IS (any [strict]) *)
Definition markf (f : bytes -> option bytes) : Prop := f (DK a) <> None /\ f (CK a) = None.

Lemma markf_ext f g : (forall x, f x = g x) -> markf f -> markf g.
Proof. intros E [D1 D2]. split; rewrite <- E; assumption. Qed.

Lemma mark_isS s : markf (glk s) -> isS (glk s (DK a)) = true.
Proof. intros [D _]. destruct (glk s (DK a)); [reflexivity|congruence]. Qed.

Lemma mark_get_contract s : sorted_state s -> markf (glk s) -> get_contract s a = (None, true).
Proof. intros Hs D. rewrite get_contract_glk by exact Hs. rewrite (mark_isS s D). reflexivity. Qed.

Lemma mark_not_undeployed s : sorted_state s -> markf (glk s) -> undeployed s a = false.
Proof. intros Hs D. rewrite undeployed_glk by exact Hs. rewrite (mark_isS s D). reflexivity. Qed.

Lemma mark_not_context s : sorted_state s -> markf (glk s) -> context_ok s a = false.
Proof. intros Hs D. rewrite context_ok_glk by exact Hs. rewrite (mark_isS s D). reflexivity. Qed.

Lemma exec_mark_refuses strict track h s o : good s -> markf (glk s) -> cop_claims a o = true ->
  exec strict track h s o = Err Refused.
Proof.
  intros G D T. pose proof (good_sorted s G) as Hs.
  destruct o as [b code|cur new code|cur|cur k v|cur k|b|b|b]; cbn [cop_claims] in T; try discriminate;
    apply bytes_eqb_eq in T; subst; cbn [exec].
  - rewrite (mark_not_undeployed s Hs D). reflexivity.
  - rewrite (mark_not_context s Hs D). reflexivity.
  - rewrite (mark_not_context s Hs D). reflexivity.
Qed.

Lemma exec_mark strict track h s o s' : good s -> cop_wf o = true -> cop_unsets a o = false ->
  markf (glk s) -> exec strict track h s o = Ok s' -> markf (glk s').
Proof.
  intros G W U D E. pose proof (good_sorted s G) as Hs. pose proof D as [D1 D2].
  destruct o as [b code|cur new code|cur|cur k v|cur k|b|b|b]; cbn [exec cop_wf cop_unsets] in *.
  - (* Create *)
    apply andb_prop in W. destruct W as [Wb Wc].
    destruct (get_contract s b) as [[c|] [|]] eqn:GC; inversion E; subst; try exact D.
    assert (Nb : b <> a) by (intros ->; rewrite (mark_get_contract s Hs D) in GC; discriminate).
    split; rewrite glk_put_contract by assumption.
    + rewrite DK_not_CK. exact D1.
    + destruct (key_eqb (CK a) (CK b)) eqn:K; [apply CK_eqb in K; congruence|exact D2].
  - (* Migrate *)
    apply andb_prop in W. destruct W as [W Wc]. apply andb_prop in W. destruct W as [Wcur Wnew].
    destruct (undeployed s new) eqn:Un; [|discriminate]. apply of_loop_ok in E. destruct E as [_ <-].
    assert (Nn : a <> new) by (intros <-; rewrite (mark_not_undeployed s Hs D) in Un; discriminate).
    set (s1 := put_contract new code s).
    assert (G1 : good s1) by (apply good_put; [exact G|reflexivity|apply is_addr_wf; exact Wnew]).
    assert (E1 : forall x, glk s1 x = if key_eqb x (CK new) then Some code else glk s x)
      by (intro x; apply glk_put_contract; assumption).
    destruct (migrate_full_spec track h cur new s1 G1 Wcur Wnew) as (_ & _ & _ & _ & _ & R6).
    split.
    + rewrite R6 by apply DK_not_SP. rewrite DK_not_CK.
      destruct ((track <=? h) && key_eqb (DK a) (DK cur)); [discriminate|].
      rewrite E1, DK_not_CK. exact D1.
    + rewrite R6 by apply CK_not_SP. rewrite CK_not_DK, andb_false_r.
      destruct (key_eqb (CK a) (CK cur)); [reflexivity|]. rewrite E1.
      destruct (key_eqb (CK a) (CK new)) eqn:K; [apply CK_eqb in K; congruence|exact D2].
  - (* Destroy *)
    destruct (context_ok s cur) eqn:C; [|discriminate]. apply of_loop_ok in E. destruct E as [_ <-].
    destruct (clean_full_spec track h cur s G W) as (_ & _ & _ & R). split.
    + rewrite R, DK_not_SP, DK_not_CK. destruct ((track <=? h) && key_eqb (DK a) (DK cur)); [discriminate|exact D1].
    + rewrite R, CK_not_SP, CK_not_DK, andb_false_r. destruct (key_eqb (CK a) (CK cur)); [reflexivity|exact D2].
  - (* Put: whatever the context *)
    destruct (negb strict || context_ok s cur); [|discriminate]. destruct (C44_MAX_STORAGE_KEY <? _); [discriminate|].
    inversion E; subst. clear E. change (pkey ST_STORAGE (cur ++ k)) with (SK cur k) in *.
    split; rewrite glk_put by exact Hs; change (pkey ST_STORAGE (cur ++ k)) with (SK cur k).
    + rewrite key_eqb_sym, (SK_not_DK _ cur a k eq_refl). exact D1.
    + rewrite key_eqb_sym, (SK_not_CK _ cur a k eq_refl). exact D2.
  - (* Delete *)
    destruct (negb strict || context_ok s cur); [|discriminate]. inversion E; subst. clear E.
    split; rewrite glk_delete by exact Hs; change (pkey ST_STORAGE (cur ++ k)) with (SK cur k).
    + rewrite key_eqb_sym, (SK_not_DK _ cur a k eq_refl). exact D1.
    + rewrite key_eqb_sym, (SK_not_CK _ cur a k eq_refl). exact D2.
  - (* AddDestroyed *)
    inversion E; subst. split; rewrite glk_set_destroyed by exact Hs.
    + destruct ((track <=? h) && _); [discriminate|exact D1].
    + rewrite CK_not_DK, andb_false_r. exact D2.
  - (* RemoveDestroyed, of another address *)
    inversion E; subst. assert (Nb : b <> a) by (intros ->; rewrite (proj2 (bytes_eqb_eq a a) eq_refl) in U; discriminate).
    split; rewrite glk_unset_destroyed by exact Hs.
    + destruct (key_eqb (DK a) (DK b)) eqn:K; [apply DK_eqb in K; congruence|]. rewrite andb_false_r. exact D1.
    + rewrite CK_not_DK, andb_false_r. exact D2.
  - (* APPCALL *)
    destruct (context_ok s b); inversion E; subst. exact D.
Qed.

End PerAddress.
