(** Proofs about the header/block codec model (Model/BlockCodec.v + Gen/BlockLayout.v):
    decode-then-encode round trip (with the hypotheses the proof forces), duplicate and root checks,
    injectivity of the unsigned header layout. *)
From Coq Require Import List Bool Arith NArith ZArith Lia ZifyN ZifyNat ZifyBool.
Import ListNotations.
From Ont Require Import Lib.Bytes Gen.CodecConsts Model.Codec Proofs.Codec
  Model.BlockCodecTypes Gen.BlockLayout Model.BlockCodec.
Local Open Scope N_scope.
Open Scope bool_scope.
Ltac Zify.zify_post_hook ::= Z.to_euclidean_division_equations.

(** * Reading a stretch of the buffer *)

(** Source invariant: offset inside an addressable buffer of bytes. *)
Definition ok (s : source) : Prop := src_ok s /\ wf_bytes (buf s) = true.

(** [reads s s' w]: going from [s] to [s'] the reader stayed on the same buffer, moved forward,
    and the bytes it passed over are exactly [w]. *)
Definition reads (s s' : source) (w : bytes) : Prop :=
  buf s' = buf s /\ (off s <= off s' <= length (buf s))%nat /\
  slice (buf s) (off s) (off s' - off s) = w.

Lemma reads_ok s s' w : ok s -> reads s s' w -> ok s'.
Proof.
  intros [[O L] W] [E [B _]]. unfold ok, src_ok. rewrite E. repeat split; try assumption; lia.
Qed.

Lemma reads_refl s : ok s -> reads s s [].
Proof.
  intros [[O _] _]. unfold reads. repeat split; try lia. rewrite Nat.sub_diag. reflexivity.
Qed.

Lemma reads_trans s s1 s2 w1 w2 : reads s s1 w1 -> reads s1 s2 w2 -> reads s s2 (w1 ++ w2).
Proof.
  intros [E1 [B1 S1]] [E2 [B2 S2]]. unfold reads. rewrite E1 in *. repeat split; try congruence; try lia.
  replace (off s2 - off s)%nat with ((off s1 - off s) + (off s2 - off s1))%nat by lia.
  rewrite slice_split. rewrite S1. f_equal.
  replace (off s + (off s1 - off s))%nat with (off s1) by lia. exact S2.
Qed.

Lemma reads_length s s' w : reads s s' w -> length w = (off s' - off s)%nat.
Proof. intros [E [B S]]. rewrite <- S. apply slice_length. lia. Qed.

Lemma step_safe_reads s s' : step_safe s s' -> reads s s' (slice (buf s) (off s) (off s' - off s)).
Proof. intros [E B]. unfold reads. auto. Qed.

(** * Primitive reads give back what the matching writer writes *)
Lemma uint_reads w s v s' : ok s -> next_uint w s = (v, false, s') ->
  reads s s' (le_encode w v) /\ v < 256 ^ N.of_nat w.
Proof.
  intros [O W] E. destruct (next_uint_spec w s v s' O W E) as (Ho & Eb & Bd & Hv & Henc).
  split; [|exact Hv]. unfold reads. repeat split; try assumption; try lia.
  replace (off s' - off s)%nat with w by lia. symmetry; exact Henc.
Qed.

Lemma fixed_reads w s d s' : ok s -> next_fixed w s = (d, false, s') ->
  reads s s' d /\ length d = w.
Proof.
  intros [O W] E. unfold next_fixed in E.
  pose proof (next_bytes_spec s (N.of_nat w) O) as P.
  destruct (next_bytes s (N.of_nat w)) as [[d0 e] s0]. destruct e; [discriminate|].
  inversion E; subst; clear E. destruct P as (Eb & Bd & Ed & Hn & _). specialize (Hn eq_refl).
  split.
  - unfold reads. repeat split; try assumption; try lia. symmetry; exact Ed.
  - rewrite Ed. rewrite slice_length by lia. lia.
Qed.

Lemma varuint_reads s v sz s' : ok s -> next_varuint s = (v, sz, false, false, s') ->
  reads s s' (write_varuint v) /\ v < two64.
Proof.
  intros [O W] E. pose proof (varuint_canonical s v sz false s' O W E) as (_ & Hv & Hc).
  pose proof (next_varuint_safe s O) as P. rewrite E in P. cbn [snd] in P.
  split; [|exact Hv]. destruct P as [Eb Bd]. unfold reads. repeat split; try assumption; try lia.
  apply Hc. reflexivity.
Qed.

Lemma varuint_eof_zero s v sz irr s' : next_varuint s = (v, sz, irr, true, s') -> v = 0.
Proof.
  unfold next_varuint. destruct (next_byte s) as [[fb e] s1]. destruct e; [intro E; inversion E; reflexivity|].
  assert (G : forall (r : N * bool * source) (z : N),
    (let '(v0, e0, s2) := r in if e0 then (0, 0, false, true, s2)
                               else (v0, z, negb (z =? getVarUintSize v0), false, s2)) = (v, sz, irr, true, s') -> v = 0).
  { intros [[v0 e0] s2] z. destruct e0; intro E; inversion E; reflexivity. }
  destruct (fb =? 253); [apply G|]. destruct (fb =? 254); [apply G|]. destruct (fb =? 255); [apply G|].
  intro E; inversion E.
Qed.

Lemma varbytes_reads s d sz s' : ok s -> next_varbytes s = (d, sz, false, false, s') ->
  reads s s' (write_varbytes d) /\ N.of_nat (length d) < two64.
Proof.
  intros Hok E. unfold next_varbytes in E.
  destruct (next_varuint s) as [[[[c sz0] irr] e] s1] eqn:EV.
  destruct (0 <? c) eqn:Z0.
  - apply N.ltb_lt in Z0.
    destruct e. { apply varuint_eof_zero in EV. lia. }
    destruct (next_bytes s1 c) as [[d0 e'] s2] eqn:EB.
    inversion E; subst; clear E.
    destruct (varuint_reads s c sz0 s1 Hok EV) as [R1 Hc].
    pose proof (reads_ok _ _ _ Hok R1) as Hok1. destruct Hok1 as [O1 W1].
    pose proof (next_bytes_spec s1 c O1) as P. rewrite EB in P.
    destruct P as (Eb & Bd & Ed & Hn & _). specialize (Hn eq_refl).
    assert (Ld : length d = N.to_nat c) by (rewrite Ed, slice_length by lia; lia).
    split; [|lia]. unfold write_varbytes. replace (N.of_nat (length d)) with c by lia.
    eapply reads_trans; [exact R1|]. unfold reads. repeat split; try assumption; try lia. symmetry; exact Ed.
  - apply N.ltb_ge in Z0. assert (c = 0) by lia. subst c.
    inversion E; subst; clear E.
    destruct (varuint_reads s 0 sz0 s' Hok EV) as [R1 Hc].
    split; [|simpl; unfold two64; lia]. unfold write_varbytes. simpl length. rewrite app_nil_r. exact R1.
Qed.

(** * The generated unsigned-header reader and writer *)
Definition wf_uhdr (u : uhdr) : Prop :=
  hVersion u < 256 ^ N.of_nat UINT32_SIZE /\ length (hPrevBlockHash u) = UINT256_SIZE /\
  length (hTransactionsRoot u) = UINT256_SIZE /\ length (hBlockRoot u) = UINT256_SIZE /\
  hTimestamp u < 256 ^ N.of_nat UINT32_SIZE /\ hHeight u < 256 ^ N.of_nat UINT32_SIZE /\
  hConsensusData u < 256 ^ N.of_nat UINT64_SIZE /\ N.of_nat (length (hConsensusPayload u)) < two64 /\
  length (hNextBookkeeper u) = ADDR_LEN.

Section Inv.
Context {R : Type}.
Lemma rd_u32_inv s (k : N -> source -> R + derr) r : ok s -> rd_NextUint32_eof s k = inl r ->
  exists v s1, reads s s1 (wr_WriteUint32 v) /\ v < 256 ^ N.of_nat UINT32_SIZE /\ k v s1 = inl r.
Proof.
  intros Hok E. unfold rd_NextUint32_eof in E. destruct (next_uint32 s) as [[v e] s1] eqn:EU.
  destruct e; [discriminate|]. destruct (uint_reads _ _ _ _ Hok EU) as [R1 B]. exists v, s1. auto.
Qed.
Lemma rd_u64_inv s (k : N -> source -> R + derr) r : ok s -> rd_NextUint64_eof s k = inl r ->
  exists v s1, reads s s1 (wr_WriteUint64 v) /\ v < 256 ^ N.of_nat UINT64_SIZE /\ k v s1 = inl r.
Proof.
  intros Hok E. unfold rd_NextUint64_eof in E. destruct (next_uint64 s) as [[v e] s1] eqn:EU.
  destruct e; [discriminate|]. destruct (uint_reads _ _ _ _ Hok EU) as [R1 B]. exists v, s1. auto.
Qed.
Lemma rd_hash_inv s (k : bytes -> source -> R + derr) r : ok s -> rd_NextHash_eof s k = inl r ->
  exists v s1, reads s s1 (wr_WriteBytes v) /\ length v = UINT256_SIZE /\ k v s1 = inl r.
Proof.
  intros Hok E. unfold rd_NextHash_eof in E. destruct (next_hash s) as [[v e] s1] eqn:EU.
  destruct e; [discriminate|]. destruct (fixed_reads _ _ _ _ Hok EU) as [R1 B]. exists v, s1. auto.
Qed.
Lemma rd_addr_inv s (k : bytes -> source -> R + derr) r : ok s -> rd_NextAddress_eof s k = inl r ->
  exists v s1, reads s s1 (wr_WriteBytes v) /\ length v = ADDR_LEN /\ k v s1 = inl r.
Proof.
  intros Hok E. unfold rd_NextAddress_eof in E. destruct (next_address s) as [[v e] s1] eqn:EU.
  destruct e; [discriminate|]. destruct (fixed_reads _ _ _ _ Hok EU) as [R1 B]. exists v, s1. auto.
Qed.
Lemma rd_varbytes_inv s (k : bytes -> source -> R + derr) r : ok s -> rd_NextVarBytes_eof_irregular s k = inl r ->
  exists v s1, reads s s1 (wr_WriteVarBytes v) /\ N.of_nat (length v) < two64 /\ k v s1 = inl r.
Proof.
  intros Hok E. unfold rd_NextVarBytes_eof_irregular in E.
  destruct (next_varbytes s) as [[[[v sz] irr] e] s1] eqn:EU.
  destruct e; [discriminate|]. destruct irr; [discriminate|].
  destruct (varbytes_reads _ _ _ _ Hok EU) as [R1 B]. exists v, s1. auto.
Qed.
End Inv.

Ltac rd_step E Hok lem v s1 R1 B1 :=
  apply lem in E; [|exact Hok]; destruct E as (v & s1 & R1 & B1 & E).

Theorem deser_unsigned_reads s u s' : ok s -> gen_hdr_deserializationUnsigned s = inl (u, s') ->
  reads s s' (gen_hdr_serializationUnsigned u) /\ wf_uhdr u.
Proof.
  intros Hok E. unfold gen_hdr_deserializationUnsigned in E.
  rd_step E Hok (@rd_u32_inv (uhdr * source)) v1 s1 R1 B1. pose proof (reads_ok _ _ _ Hok R1) as Hok1.
  rd_step E Hok1 (@rd_hash_inv (uhdr * source)) v2 s2 R2 B2. pose proof (reads_ok _ _ _ Hok1 R2) as Hok2.
  rd_step E Hok2 (@rd_hash_inv (uhdr * source)) v3 s3 R3 B3. pose proof (reads_ok _ _ _ Hok2 R3) as Hok3.
  rd_step E Hok3 (@rd_hash_inv (uhdr * source)) v4 s4 R4 B4. pose proof (reads_ok _ _ _ Hok3 R4) as Hok4.
  rd_step E Hok4 (@rd_u32_inv (uhdr * source)) v5 s5 R5 B5. pose proof (reads_ok _ _ _ Hok4 R5) as Hok5.
  rd_step E Hok5 (@rd_u32_inv (uhdr * source)) v6 s6 R6 B6. pose proof (reads_ok _ _ _ Hok5 R6) as Hok6.
  rd_step E Hok6 (@rd_u64_inv (uhdr * source)) v7 s7 R7 B7. pose proof (reads_ok _ _ _ Hok6 R7) as Hok7.
  rd_step E Hok7 (@rd_varbytes_inv (uhdr * source)) v8 s8 R8 B8. pose proof (reads_ok _ _ _ Hok7 R8) as Hok8.
  rd_step E Hok8 (@rd_addr_inv (uhdr * source)) v9 s9 R9 B9.
  inversion E; subst; clear E.
  split.
  - unfold gen_hdr_serializationUnsigned. cbn [hVersion hPrevBlockHash hTransactionsRoot hBlockRoot hTimestamp
      hHeight hConsensusData hConsensusPayload hNextBookkeeper].
    repeat (eapply reads_trans; [eassumption|]). assumption.
  - unfold wf_uhdr; cbn. repeat split; assumption.
Qed.

(** The layout is injective on well-formed field values: every field is fixed-width or
    length-prefixed. So "changing any unsigned field changes the hash preimage". *)
Lemma app_inj_len' (a b c d : bytes) : length a = length c -> a ++ b = c ++ d -> a = c /\ b = d.
Proof.
  revert c; induction a as [|x a IH]; intros [|y c] L E; simpl in *; try discriminate.
  - split; [reflexivity|exact E].
  - inversion E; subst. destruct (IH c) as [E1 E2]; [lia|assumption|]. subst. split; reflexivity.
Qed.

Lemma le_encode_app_inj w v1 v2 r1 r2 : v1 < 256 ^ N.of_nat w -> v2 < 256 ^ N.of_nat w ->
  le_encode w v1 ++ r1 = le_encode w v2 ++ r2 -> v1 = v2 /\ r1 = r2.
Proof.
  intros B1 B2 E. apply app_inj_len' in E; [|rewrite !le_encode_length; reflexivity].
  destruct E as [E1 E2]. split; [|exact E2]. eapply le_encode_inj; eassumption.
Qed.

Lemma varbytes_app_inj d1 d2 r1 r2 : N.of_nat (length d1) < two64 -> N.of_nat (length d2) < two64 ->
  write_varbytes d1 ++ r1 = write_varbytes d2 ++ r2 -> d1 = d2 /\ r1 = r2.
Proof.
  intros B1 B2 E. apply (f_equal ser_read_varbytes) in E.
  change write_varbytes with ser_write_varbytes in E.
  rewrite !ser_varbytes_roundtrip in E by assumption. inversion E; auto.
Qed.

Theorem ser_unsigned_inj u1 u2 : wf_uhdr u1 -> wf_uhdr u2 ->
  gen_hdr_serializationUnsigned u1 = gen_hdr_serializationUnsigned u2 -> u1 = u2.
Proof.
  intros (A1 & A2 & A3 & A4 & A5 & A6 & A7 & A8 & A9) (B1 & B2 & B3 & B4 & B5 & B6 & B7 & B8 & B9) E.
  destruct u1 as [a1 a2 a3 a4 a5 a6 a7 a8 a9], u2 as [b1 b2 b3 b4 b5 b6 b7 b8 b9].
  unfold gen_hdr_serializationUnsigned, wr_WriteUint32, wr_WriteUint64, wr_WriteBytes, wr_WriteVarBytes,
    write_uint32, write_uint64 in E. unfold wf_uhdr in *.
  cbn [hVersion hPrevBlockHash hTransactionsRoot hBlockRoot hTimestamp
      hHeight hConsensusData hConsensusPayload hNextBookkeeper] in *.
  apply le_encode_app_inj in E; [|assumption|assumption]. destruct E as [-> E].
  apply app_inj_len' in E; [|congruence]. destruct E as [-> E].
  apply app_inj_len' in E; [|congruence]. destruct E as [-> E].
  apply app_inj_len' in E; [|congruence]. destruct E as [-> E].
  apply le_encode_app_inj in E; [|assumption|assumption]. destruct E as [-> E].
  apply le_encode_app_inj in E; [|assumption|assumption]. destruct E as [-> E].
  apply le_encode_app_inj in E; [|assumption|assumption]. destruct E as [-> E].
  apply varbytes_app_inj in E; [|assumption|assumption]. destruct E as [-> E].
  subst. reflexivity.
Qed.

(** * Header: key and signature loops *)
Definition two63 : N := 2 ^ (GO_INT_BITS - 1).

Lemma loop_count_small n : n < two63 -> loop_count n = n.
Proof. intro L. unfold loop_count. fold two63. apply N.ltb_lt in L. rewrite L. reflexivity. Qed.

Lemma loop_count_big n : two63 <= n -> loop_count n = 0.
Proof. intro L. unfold loop_count. fold two63. apply N.ltb_ge in L. rewrite L. reflexivity. Qed.

Section Hdr.
Variable pk_parse : bytes -> option bytes.

Lemma read_keys_reads fuel : forall cnt s ks s', ok s -> read_keys pk_parse fuel cnt s = inl (ks, s') ->
  reads s s' (flat_map write_varbytes (map fst ks)) /\ N.of_nat (length ks) = cnt /\
  Forall (fun p => pk_parse (fst p) = Some (snd p)) ks.
Proof.
  induction fuel as [|f IH]; intros cnt s ks s' Hok E.
  - cbn [read_keys] in E. destruct (cnt =? 0) eqn:Z; [|discriminate].
    inversion E; subst. apply N.eqb_eq in Z. subst. (split; [apply reads_refl; exact Hok|]); repeat split; auto; try constructor.
  - cbn [read_keys] in E. destruct (cnt =? 0) eqn:Z.
    { inversion E; subst. apply N.eqb_eq in Z. subst. (split; [apply reads_refl; exact Hok|]); repeat split; auto; try constructor. }
    apply N.eqb_neq in Z.
    destruct (next_varbytes s) as [[[[d sz] irr] e] s1] eqn:EV.
    destruct e; [discriminate|]. destruct irr; [discriminate|].
    destruct (pk_parse d) as [k|] eqn:PK; [|discriminate].
    destruct (read_keys pk_parse f (cnt - 1) s1) as [[ks1 s2]|] eqn:ER; [|discriminate].
    inversion E; subst; clear E.
    destruct (varbytes_reads _ _ _ _ Hok EV) as [R1 _].
    destruct (IH _ _ _ _ (reads_ok _ _ _ Hok R1) ER) as (R2 & L2 & F2).
    cbn [map fst flat_map length]. split; [|split].
    + eapply reads_trans; eassumption.
    + lia.
    + constructor; [exact PK|exact F2].
Qed.

Lemma read_sigs_reads fuel : forall cnt s l s', ok s -> read_sigs fuel cnt s = inl (l, s') ->
  reads s s' (flat_map write_varbytes l) /\ N.of_nat (length l) = cnt.
Proof.
  induction fuel as [|f IH]; intros cnt s l s' Hok E.
  - cbn [read_sigs] in E. destruct (cnt =? 0) eqn:Z; [|discriminate].
    inversion E; subst. apply N.eqb_eq in Z. subst. split; [apply reads_refl; exact Hok|reflexivity].
  - cbn [read_sigs] in E. destruct (cnt =? 0) eqn:Z.
    { inversion E; subst. apply N.eqb_eq in Z. subst. split; [apply reads_refl; exact Hok|reflexivity]. }
    apply N.eqb_neq in Z.
    destruct (next_varbytes s) as [[[[d sz] irr] e] s1] eqn:EV.
    destruct e; [discriminate|]. destruct irr; [discriminate|].
    destruct (read_sigs f (cnt - 1) s1) as [[l1 s2]|] eqn:ER; [|discriminate].
    inversion E; subst; clear E.
    destruct (varbytes_reads _ _ _ _ Hok EV) as [R1 _].
    destruct (IH _ _ _ _ (reads_ok _ _ _ Hok R1) ER) as (R2 & L2).
    cbn [flat_map length]. split; [eapply reads_trans; eassumption|lia].
Qed.

(** What a successful Header.Deserialization passed over, in terms of what it saw. *)
Lemma header_decode_reads s h aux s' : ok s -> header_decode pk_parse s = inl (h, aux, s') ->
  reads s s' (gen_hdr_serializationUnsigned (h_u h) ++
              write_varuint (a_nkeys aux) ++ flat_map write_varbytes (a_rawkeys aux) ++
              write_varuint (a_nsigs aux) ++ flat_map write_varbytes (h_sigdata h)) /\
  wf_uhdr (h_u h) /\
  N.of_nat (length (a_rawkeys aux)) = loop_count (a_nkeys aux) /\
  N.of_nat (length (h_sigdata h)) = loop_count (a_nsigs aux) /\
  length (h_bookkeepers h) = length (a_rawkeys aux) /\
  Forall2 (fun raw k => pk_parse raw = Some k) (a_rawkeys aux) (h_bookkeepers h).
Proof.
  intros Hok E. unfold header_decode in E.
  destruct (gen_hdr_deserializationUnsigned s) as [[u s1]|] eqn:EU; [|discriminate].
  destruct (deser_unsigned_reads _ _ _ Hok EU) as [R1 WU]. pose proof (reads_ok _ _ _ Hok R1) as Hok1.
  destruct (next_varuint s1) as [[[[n szn] irr] e] s2] eqn:EN.
  destruct e; [discriminate|]. destruct irr; [discriminate|].
  destruct (varuint_reads _ _ _ _ Hok1 EN) as [R2 _]. pose proof (reads_ok _ _ _ Hok1 R2) as Hok2.
  destruct (read_keys pk_parse (fuel_of s2) (loop_count n) s2) as [[ks s3]|] eqn:EK; [|discriminate].
  destruct (read_keys_reads _ _ _ _ _ Hok2 EK) as (R3 & L3 & F3). pose proof (reads_ok _ _ _ Hok2 R3) as Hok3.
  destruct (next_varuint s3) as [[[[m szm] irr'] e'] s4] eqn:EM.
  destruct e'; [discriminate|]. destruct irr'; [discriminate|].
  destruct (varuint_reads _ _ _ _ Hok3 EM) as [R4 _]. pose proof (reads_ok _ _ _ Hok3 R4) as Hok4.
  destruct (read_sigs (fuel_of s4) (loop_count m) s4) as [[sigs s5]|] eqn:ES; [|discriminate].
  destruct (read_sigs_reads _ _ _ _ _ Hok4 ES) as (R5 & L5).
  inversion E; subst; clear E. cbn [h_u h_bookkeepers h_sigdata a_nkeys a_rawkeys a_nsigs].
  split; [|split; [|split; [|split; [|split]]]]; try assumption.
  - repeat (eapply reads_trans; [eassumption|]). assumption.
  - rewrite map_length. exact L3.
  - rewrite !map_length. reflexivity.
  - clear - F3. induction F3 as [|[a b] t P _ IH]; cbn [map fst snd]; constructor; assumption.
Qed.

(** Round trip of the header, under the two hypotheses the proof forces: both counts are below
    2^63 (otherwise [int(n)] is negative and the loop is skipped), and every key appears in the
    encoding the key serializer produces. *)
Theorem header_roundtrip s h aux s' : ok s -> header_decode pk_parse s = inl (h, aux, s') ->
  a_nkeys aux < two63 -> a_nsigs aux < two63 -> a_rawkeys aux = h_bookkeepers h ->
  reads s s' (header_encode h).
Proof.
  intros Hok E Bn Bm Ek.
  destruct (header_decode_reads _ _ _ _ Hok E) as (R & _ & Ln & Lm & _ & _).
  unfold header_encode. rewrite <- Ek.
  rewrite loop_count_small in Ln by exact Bn. rewrite loop_count_small in Lm by exact Bm.
  rewrite Ln, Lm. exact R.
Qed.
End Hdr.

(** * Block *)
Section Blk.
Variable H : bytes -> bytes.
Variable pk_parse : bytes -> option bytes.
Variable tx_decode : bytes -> txres.

(** The transaction decoder does not claim to have consumed more than there is. *)
Definition tx_in_bounds : Prop := forall r id n, tx_decode r = TxOk id n -> (n <= length r)%nat.

Lemma existsb_bytes_false id seen : existsb (bytes_eqb id) seen = false -> ~ In id seen.
Proof.
  intros E I. assert (existsb (bytes_eqb id) seen = true); [|congruence].
  apply existsb_exists. exists id. split; [exact I|apply bytes_eqb_eq; reflexivity].
Qed.

Lemma existsb_bytes_true id seen : existsb (bytes_eqb id) seen = true -> In id seen.
Proof.
  intro E. apply existsb_exists in E. destruct E as (x & I & E). apply bytes_eqb_eq in E. subst; exact I.
Qed.

Lemma read_txs_reads (TB : tx_in_bounds) fuel : forall cnt s seen l s', ok s ->
  read_txs tx_decode fuel cnt s seen = inl (l, s') ->
  reads s s' (concat (map snd l)) /\ N.of_nat (length l) = cnt /\
  NoDup (map fst l) /\ (forall id, In id (map fst l) -> ~ In id seen).
Proof.
  induction fuel as [|f IH]; intros cnt s seen l s' Hok E.
  - cbn [read_txs] in E. destruct (cnt =? 0) eqn:Z; [|discriminate].
    inversion E; subst. apply N.eqb_eq in Z. subst. (split; [apply reads_refl; exact Hok|]); repeat split; auto; try constructor.
  - cbn [read_txs] in E. destruct (cnt =? 0) eqn:Z.
    { inversion E; subst. apply N.eqb_eq in Z. subst. (split; [apply reads_refl; exact Hok|]); repeat split; auto; try constructor. }
    apply N.eqb_neq in Z.
    destruct (tx_decode (skipn (off s) (buf s))) as [id n|e] eqn:ET; [|discriminate].
    destruct (existsb (bytes_eqb id) seen) eqn:EX; [discriminate|].
    destruct (read_txs tx_decode f (cnt - 1) (mkSrc (buf s) (off s + n)) (id :: seen)) as [[l1 s2]|] eqn:ER; [|discriminate].
    inversion E; subst; clear E.
    apply TB in ET. rewrite skipn_length in ET.
    assert (R1 : reads s (mkSrc (buf s) (off s + n)) (slice (buf s) (off s) n)).
    { destruct Hok as [[O _] _]. unfold reads; cbn [buf off]. repeat split; try lia. f_equal. lia. }
    destruct (IH _ _ _ _ _ (reads_ok _ _ _ Hok R1) ER) as (R2 & L2 & N2 & D2).
    cbn [map fst snd concat length]. split; [|split; [|split]].
    + eapply reads_trans; eassumption.
    + lia.
    + constructor; [|exact N2]. intro I. apply (D2 id I). left; reflexivity.
    + intros x [<-|I]; [apply existsb_bytes_false; exact EX|].
      intro I2. apply (D2 x I). right; exact I2.
Qed.

(** Everything a successful Block.Deserialization establishes. *)
Lemma block_decode_src_spec (TB : tx_in_bounds) s blk aux s' : ok s ->
  block_decode_src H pk_parse tx_decode s = inl (blk, aux, s') ->
  exists s1, header_decode pk_parse s = inl (b_hdr blk, aux, s1) /\
  reads s1 s' (write_uint32 (N.of_nat (length (b_txs blk)) mod two32) ++ concat (map snd (b_txs blk))) /\
  NoDup (map fst (b_txs blk)) /\
  hTransactionsRoot (h_u (b_hdr blk)) = merkle_root H (map fst (b_txs blk)).
Proof.
  intros Hok E. unfold block_decode_src in E.
  destruct (header_decode pk_parse s) as [[[h a] s1]|] eqn:EH; [|discriminate].
  destruct (header_decode_reads _ _ _ _ _ Hok EH) as (R1 & _). pose proof (reads_ok _ _ _ Hok R1) as Hok1.
  destruct (next_uint32 s1) as [[len e] s2] eqn:EL. destruct e; [discriminate|].
  destruct (uint_reads _ _ _ _ Hok1 EL) as [R2 B2]. pose proof (reads_ok _ _ _ Hok1 R2) as Hok2.
  destruct (read_txs tx_decode (fuel_of s2) len s2 []) as [[txs s3]|] eqn:ET; [|discriminate].
  destruct (read_txs_reads TB _ _ _ _ _ _ Hok2 ET) as (R3 & L3 & N3 & _).
  destruct (bytes_eqb (hTransactionsRoot (h_u h)) (merkle_root H (map fst txs))) eqn:ER; [|discriminate].
  inversion E; subst; clear E. cbn [b_hdr b_txs]. exists s1. split; [|split; [|split]]; try assumption.
  - reflexivity.
  - replace (N.of_nat (length txs) mod two32) with (N.of_nat (length txs)).
    + eapply reads_trans; eassumption.
    + symmetry. apply N.mod_small. change two32 with (256 ^ N.of_nat UINT32_SIZE). exact B2.
  - apply bytes_eqb_eq; exact ER.
Qed.

Theorem block_roundtrip_src (TB : tx_in_bounds) s blk aux s' : ok s ->
  block_decode_src H pk_parse tx_decode s = inl (blk, aux, s') ->
  a_nkeys aux < two63 -> a_nsigs aux < two63 -> a_rawkeys aux = h_bookkeepers (b_hdr blk) ->
  reads s s' (block_encode blk).
Proof.
  intros Hok E Bn Bm Ek. destruct (block_decode_src_spec TB _ _ _ _ Hok E) as (s1 & EH & R2 & _).
  pose proof (header_roundtrip _ _ _ _ _ Hok EH Bn Bm Ek) as R1.
  unfold block_encode. eapply reads_trans; eassumption.
Qed.

Lemma ok_new b : wf_bytes b = true -> N.of_nat (length b) < two64 -> ok (src_new b).
Proof. intros W L. split; [apply src_new_ok; exact L|exact W]. Qed.

(** BlockFromRawBytes, then ToArray: the bytes consumed. *)
Theorem block_roundtrip_bytes (TB : tx_in_bounds) b blk aux s' :
  wf_bytes b = true -> N.of_nat (length b) < two64 ->
  block_decode H pk_parse tx_decode b = inl (blk, aux, s') ->
  a_nkeys aux < two63 -> a_nsigs aux < two63 -> a_rawkeys aux = h_bookkeepers (b_hdr blk) ->
  block_encode blk = firstn (off s') b /\ b = block_encode blk ++ skipn (off s') b.
Proof.
  intros W L E Bn Bm Ek. unfold block_decode in E.
  pose proof (block_roundtrip_src TB _ _ _ _ (ok_new b W L) E Bn Bm Ek) as (_ & _ & S).
  cbn [src_new buf off] in S. rewrite Nat.sub_0_r in S. unfold slice in S. cbn [skipn] in S.
  split; [symmetry; exact S|]. rewrite <- S. symmetry. apply firstn_skipn.
Qed.

(** The duplicate check and the root check. *)
Theorem accepted_nodup_and_root (TB : tx_in_bounds) b blk aux s' :
  wf_bytes b = true -> N.of_nat (length b) < two64 ->
  block_decode H pk_parse tx_decode b = inl (blk, aux, s') ->
  NoDup (map fst (b_txs blk)) /\
  hTransactionsRoot (h_u (b_hdr blk)) = merkle_root H (map fst (b_txs blk)) /\
  wf_uhdr (h_u (b_hdr blk)).
Proof.
  intros W L E. destruct (block_decode_src_spec TB _ _ _ _ (ok_new b W L) E) as (s1 & EH & _ & N & R).
  destruct (header_decode_reads _ _ _ _ _ (ok_new b W L) EH) as (_ & WU & _).
  auto.
Qed.
End Blk.
