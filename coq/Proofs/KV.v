(** Proofs about Model/KV.v: the layered storage refines one ordered map.

    A. bytes.Compare is a strict total order.
    B. Key-sorted association lists: lookup, extensionality, put/merge/filter/commit folds.
    C. The layers: Get/Put/Delete/Commit/Reset/CommitTo against [abs] / [abs_block].
    D. util.BytesPrefix: key in [start, limit) iff the key has the prefix.
    E. Iterators: a contract ([tracks]) satisfied by the MemDB iterator, the LevelDB snapshot
       iterator and -- by induction on the merged remainder -- by the exact JoinIter state machine
       over any two iterators that satisfy it (hence by nested JoinIters).
    F. Histories. *)
From Coq Require Import List Bool Arith NArith Lia.
Import ListNotations.
From Ont Require Import Lib.Bytes Model.KV.
Local Open Scope N_scope.
Open Scope bool_scope.

(** * A. The order *)

Lemma cmp_refl a : bytes_cmp a a = Eq.
Proof. induction a as [|x a IH]; simpl; [reflexivity|]. rewrite N.compare_refl; exact IH. Qed.

Lemma cmp_eq a b : bytes_cmp a b = Eq -> a = b.
Proof.
  revert b; induction a as [|x a IH]; intros [|y b]; simpl; intro H; try reflexivity; try discriminate.
  destruct (N.compare x y) eqn:E; try discriminate.
  apply N.compare_eq in E; subst. f_equal; apply IH; exact H.
Qed.

Lemma cmp_antisym a b : bytes_cmp a b = CompOpp (bytes_cmp b a).
Proof.
  revert b; induction a as [|x a IH]; intros [|y b]; simpl; try reflexivity.
  rewrite (N.compare_antisym y x). destruct (N.compare y x); simpl; auto.
Qed.

Lemma cmp_lt_gt a b : bytes_cmp a b = Lt <-> bytes_cmp b a = Gt.
Proof. rewrite (cmp_antisym a b). destruct (bytes_cmp b a); simpl; split; congruence. Qed.

Lemma cmp_lt_trans a b c : bytes_cmp a b = Lt -> bytes_cmp b c = Lt -> bytes_cmp a c = Lt.
Proof.
  revert b c; induction a as [|x a IH]; intros [|y b] [|z c]; simpl; try congruence.
  destruct (N.compare x y) eqn:E1; try discriminate; destruct (N.compare y z) eqn:E2; try discriminate; intros H1 H2.
  - apply N.compare_eq in E1; apply N.compare_eq in E2; subst. rewrite N.compare_refl. eapply IH; eauto.
  - apply N.compare_eq in E1; subst. rewrite E2; reflexivity.
  - apply N.compare_eq in E2; subst. rewrite E1; reflexivity.
  - rewrite N.compare_lt_iff in *. assert (x < z) by lia. rewrite (proj2 (N.compare_lt_iff x z)); auto.
Qed.

Lemma cmp_nil_l k : bytes_cmp [] k <> Gt.
Proof. destruct k; simpl; congruence. Qed.

Lemma cmp_nil_lt k : k <> [] -> bytes_cmp [] k = Lt.
Proof. destruct k; simpl; congruence. Qed.

Lemma cmp_nil_gt k : k <> [] -> bytes_cmp k [] = Gt.
Proof. destruct k; simpl; congruence. Qed.

Lemma ltb_lt a b : bytes_ltb a b = true <-> bytes_cmp a b = Lt.
Proof. unfold bytes_ltb; destruct (bytes_cmp a b); split; congruence. Qed.

Lemma ltb_irrefl a : bytes_ltb a a = false.
Proof. unfold bytes_ltb; rewrite cmp_refl; reflexivity. Qed.

Lemma key_eqb_eq a b : key_eqb a b = true <-> a = b.
Proof.
  unfold key_eqb; split.
  - destruct (bytes_cmp a b) eqn:E; try discriminate. intros _; apply cmp_eq; exact E.
  - intros ->; rewrite cmp_refl; reflexivity.
Qed.

Lemma key_eqb_refl a : key_eqb a a = true.
Proof. apply key_eqb_eq; reflexivity. Qed.

Lemma key_eqb_sym a b : key_eqb a b = key_eqb b a.
Proof. unfold key_eqb; rewrite (cmp_antisym a b); destruct (bytes_cmp b a); reflexivity. Qed.

Lemma key_eqb_neq a b : key_eqb a b = false <-> a <> b.
Proof.
  split.
  - intros H E; apply key_eqb_eq in E; congruence.
  - intro H; destruct (key_eqb a b) eqn:E; auto. apply key_eqb_eq in E; contradiction.
Qed.

Lemma cmp_lt_neq a b : bytes_cmp a b = Lt -> key_eqb a b = false.
Proof. unfold key_eqb; intros ->; reflexivity. Qed.

Lemma cmp_gt_neq a b : bytes_cmp a b = Gt -> key_eqb a b = false.
Proof. unfold key_eqb; intros ->; reflexivity. Qed.

Lemma leb_alt a b : bytes_leb a b = negb (bytes_ltb b a).
Proof. unfold bytes_leb, bytes_ltb; rewrite (cmp_antisym b a); destruct (bytes_cmp a b); reflexivity. Qed.

(** * B. Sorted association lists *)

Fixpoint lookup (k : bytes) (l : list kv) : option bytes :=
  match l with
  | [] => None
  | (k', v') :: r => if key_eqb k k' then Some v' else lookup k r
  end.

Lemma lookup_cons k k' v' r : lookup k ((k', v') :: r) = if key_eqb k k' then Some v' else lookup k r.
Proof. reflexivity. Qed.

Definition all_gt (k : bytes) (l : list kv) : Prop := forall e, In e l -> bytes_cmp k (fst e) = Lt.

Fixpoint ssorted (l : list kv) : Prop :=
  match l with
  | [] => True
  | (k, _) :: r => all_gt k r /\ ssorted r
  end.

Lemma all_gt_nil k : all_gt k [].
Proof. intros e []. Qed.

Lemma all_gt_cons k e l : all_gt k (e :: l) <-> bytes_cmp k (fst e) = Lt /\ all_gt k l.
Proof.
  unfold all_gt; split.
  - intro H; split; [apply H; left; reflexivity | intros x Hx; apply H; right; exact Hx].
  - intros [H1 H2] x [<-|Hx]; auto.
Qed.

Lemma all_gt_trans k k' l : bytes_cmp k k' = Lt -> all_gt k' l -> all_gt k l.
Proof. intros H Hl e He; eapply cmp_lt_trans; [exact H | apply Hl; exact He]. Qed.

Lemma all_gt_lookup k l : all_gt k l -> lookup k l = None.
Proof.
  induction l as [|[k' v'] r IH]; simpl; intro H; [reflexivity|].
  apply all_gt_cons in H; destruct H as [H1 H2]; simpl in H1.
  rewrite (cmp_lt_neq _ _ H1). apply IH; exact H2.
Qed.

Lemma all_gt_lookup_lt k k' l : all_gt k l -> bytes_cmp k' k <> Gt -> lookup k' l = None.
Proof.
  intros H Hk. induction l as [|[k2 v2] r IH]; simpl; [reflexivity|].
  apply all_gt_cons in H; destruct H as [H1 H2]; simpl in H1.
  assert (bytes_cmp k' k2 = Lt).
  { destruct (bytes_cmp k' k) eqn:E; try congruence.
    - apply cmp_eq in E; subst; exact H1.
    - eapply cmp_lt_trans; eauto. }
  rewrite (cmp_lt_neq _ _ H). apply IH; exact H2.
Qed.

Lemma sortedb_ssorted l : sortedb l = true <-> ssorted l.
Proof.
  induction l as [|[k v] r IH]; simpl; [tauto|].
  rewrite andb_true_iff, IH. destruct r as [|[k' v'] r'].
  - simpl; split; intros _; split; try reflexivity; try exact I; apply all_gt_nil.
  - split.
    + intros [H1 H2]; split; [|exact H2]. apply ltb_lt in H1.
      apply all_gt_cons; split; [exact H1|]. simpl in H2; destruct H2 as [H2 _].
      eapply all_gt_trans; eauto.
    + intros [H1 H2]; split; [|exact H2]. apply all_gt_cons in H1; destruct H1 as [H1 _]. apply ltb_lt; exact H1.
Qed.

Lemma ssorted_tail e l : ssorted (e :: l) -> ssorted l.
Proof. destruct e; simpl; tauto. Qed.

(** extensionality: a sorted list is determined by its lookup function *)
Lemma lookup_In k v l : ssorted l -> In (k, v) l -> lookup k l = Some v.
Proof.
  induction l as [|[k' v'] r IH]; simpl; intros Hs Hin; [contradiction|].
  destruct Hin as [H|H].
  - inversion H; subst. rewrite key_eqb_refl; reflexivity.
  - destruct Hs as [Hg Hs]. specialize (Hg _ H); simpl in Hg.
    rewrite key_eqb_sym, (cmp_lt_neq _ _ Hg). apply IH; auto.
Qed.

Lemma lookup_ext l1 : forall l2, ssorted l1 -> ssorted l2 ->
  (forall k, lookup k l1 = lookup k l2) -> l1 = l2.
Proof.
  induction l1 as [|[k1 v1] r1 IH]; intros [|[k2 v2] r2] H1 H2 E.
  - reflexivity.
  - specialize (E k2); simpl in E; rewrite key_eqb_refl in E; discriminate.
  - specialize (E k1); simpl in E; rewrite key_eqb_refl in E; discriminate.
  - simpl in H1, H2; destruct H1 as [G1 S1], H2 as [G2 S2].
    assert (Hk : k1 = k2).
    { destruct (bytes_cmp k1 k2) eqn:C.
      - apply cmp_eq; exact C.
      - pose proof (E k1) as E1; simpl in E1. rewrite key_eqb_refl, (cmp_lt_neq _ _ C) in E1.
        rewrite (all_gt_lookup_lt k2 k1 r2 G2) in E1 by congruence. discriminate.
      - pose proof (E k2) as E1; simpl in E1. apply cmp_lt_gt in C.
        rewrite key_eqb_refl, (cmp_lt_neq _ _ C) in E1.
        rewrite (all_gt_lookup_lt k1 k2 r1 G1) in E1 by congruence. discriminate. }
    subst k2. pose proof (E k1) as E1; simpl in E1; rewrite key_eqb_refl in E1; inversion E1; subst v2.
    f_equal. apply IH; auto. intro k. specialize (E k); simpl in E.
    destruct (key_eqb k k1) eqn:Ek; [|exact E].
    apply key_eqb_eq in Ek; subst k. rewrite (all_gt_lookup _ _ G1), (all_gt_lookup _ _ G2); reflexivity.
Qed.

(** mem_put *)
Lemma mem_put_all_gt k0 k v m : bytes_cmp k0 k = Lt -> all_gt k0 m -> all_gt k0 (mem_put k v m).
Proof.
  induction m as [|[k' v'] r IH]; simpl; intros H0 Hg.
  - intros e [<-|[]]; exact H0.
  - apply all_gt_cons in Hg; destruct Hg as [Hg1 Hg2]; simpl in Hg1.
    destruct (bytes_cmp k k') eqn:C.
    + apply all_gt_cons; split; auto.
    + apply all_gt_cons; split; [exact H0|]. apply all_gt_cons; split; auto.
    + apply all_gt_cons; split; [exact Hg1|]. apply IH; auto.
Qed.

Lemma mem_put_sorted k v m : ssorted m -> ssorted (mem_put k v m).
Proof.
  induction m as [|[k' v'] r IH]; simpl; intro Hs.
  - split; [apply all_gt_nil|exact I].
  - destruct Hs as [Hg Hs]. destruct (bytes_cmp k k') eqn:C; simpl.
    + split; auto.
    + split; [|split; auto]. apply all_gt_cons; split; [exact C|]. eapply all_gt_trans; eauto.
    + split; [|apply IH; exact Hs]. apply mem_put_all_gt; auto. apply cmp_lt_gt; exact C.
Qed.

Lemma lookup_mem_put k v m x : ssorted m ->
  lookup x (mem_put k v m) = if key_eqb x k then Some v else lookup x m.
Proof.
  induction m as [|[k' v'] r IH]; simpl; intro Hs.
  - reflexivity.
  - destruct Hs as [Hg Hs]. destruct (bytes_cmp k k') eqn:C; simpl.
    + apply cmp_eq in C; subst k'. destruct (key_eqb x k); reflexivity.
    + reflexivity.
    + rewrite IH by exact Hs. destruct (key_eqb x k') eqn:E1; [|reflexivity].
      apply key_eqb_eq in E1; subst x. rewrite key_eqb_sym, (cmp_gt_neq _ _ C). reflexivity.
Qed.

(** store_delete *)
Lemma store_delete_all_gt k0 k m : all_gt k0 m -> all_gt k0 (store_delete k m).
Proof.
  induction m as [|[k' v'] r IH]; simpl; intro Hg; [exact Hg|].
  apply all_gt_cons in Hg; destruct Hg as [Hg1 Hg2].
  destruct (bytes_cmp k k'); [exact Hg2 | apply all_gt_cons; auto | apply all_gt_cons; auto].
Qed.

Lemma store_delete_sorted k m : ssorted m -> ssorted (store_delete k m).
Proof.
  induction m as [|[k' v'] r IH]; simpl; intro Hs; [exact I|].
  destruct Hs as [Hg Hs]. destruct (bytes_cmp k k'); simpl; auto.
  split; [apply store_delete_all_gt; exact Hg | apply IH; exact Hs].
Qed.

Lemma lookup_store_delete k m x : ssorted m ->
  lookup x (store_delete k m) = if key_eqb x k then None else lookup x m.
Proof.
  induction m as [|[k' v'] r IH]; simpl; intro Hs.
  - destruct (key_eqb x k); reflexivity.
  - destruct Hs as [Hg Hs]. destruct (bytes_cmp k k') eqn:C; simpl.
    + apply cmp_eq in C; subst k'. destruct (key_eqb x k) eqn:E; [|reflexivity].
      apply key_eqb_eq in E; subst x. apply all_gt_lookup; exact Hg.
    + destruct (key_eqb x k) eqn:E; [|reflexivity]. apply key_eqb_eq in E; subst x.
      rewrite (cmp_lt_neq _ _ C). apply all_gt_lookup_lt with (k := k'); [exact Hg | congruence].
    + rewrite IH by exact Hs. destruct (key_eqb x k') eqn:E1; [|reflexivity].
      apply key_eqb_eq in E1; subst x. rewrite key_eqb_sym, (cmp_gt_neq _ _ C). reflexivity.
Qed.

(** mem_get, kv_lookup *)
Lemma mem_get_lookup k m : ssorted m ->
  mem_get k m = match lookup k m with Some v => (v, false) | None => ([], true) end.
Proof.
  induction m as [|[k' v'] r IH]; simpl; intro Hs; [reflexivity|].
  destruct Hs as [Hg Hs]. unfold key_eqb. destruct (bytes_cmp k k') eqn:C.
  - reflexivity.
  - rewrite (all_gt_lookup_lt k' k r Hg) by congruence. reflexivity.
  - apply IH; exact Hs.
Qed.

Lemma kv_lookup_lookup k l : kv_lookup k l = match lookup k l with Some v => v | None => [] end.
Proof. induction l as [|[k' v'] r IH]; simpl; [reflexivity|]. destruct (key_eqb k k'); auto. Qed.

(** filter *)
Lemma filter_all_gt k f (l : list kv) : all_gt k l -> all_gt k (filter f l).
Proof. intros H e He; apply filter_In in He; apply H; tauto. Qed.

Lemma filter_sorted f (l : list kv) : ssorted l -> ssorted (filter f l).
Proof.
  induction l as [|[k v] r IH]; simpl; intro Hs; [exact I|].
  destruct Hs as [Hg Hs]. destruct (f (k, v)); simpl; auto.
  split; [apply filter_all_gt; exact Hg | auto].
Qed.

Lemma lookup_filter f l k : ssorted l ->
  lookup k (filter f l) = match lookup k l with Some v => if f (k, v) then Some v else None | None => None end.
Proof.
  induction l as [|[k' v'] r IH]; simpl; intro Hs; [reflexivity|].
  destruct Hs as [Hg Hs]. destruct (key_eqb k k') eqn:E.
  - apply key_eqb_eq in E; subst k'. destruct (f (k, v')) eqn:F; simpl.
    + rewrite key_eqb_refl; reflexivity.
    + apply all_gt_lookup. apply filter_all_gt; exact Hg.
  - destruct (f (k', v')); simpl; [rewrite E|]; apply IH; exact Hs.
Qed.

Lemma live_sorted l : ssorted l -> ssorted (live l).
Proof. apply filter_sorted. Qed.

Lemma lookup_live l k : ssorted l ->
  lookup k (live l) = match lookup k l with Some v => if is_empty v then None else Some v | None => None end.
Proof.
  intro Hs; unfold live; rewrite lookup_filter by exact Hs.
  destruct (lookup k l) as [v|]; [|reflexivity]. simpl; destruct (is_empty v); reflexivity.
Qed.

Lemma live_idem l : live (live l) = live l.
Proof.
  unfold live. induction l as [|e r IH]; simpl; [reflexivity|].
  destruct (negb (is_empty (snd e))) eqn:E; simpl; [rewrite E|]; congruence.
Qed.

Lemma live_values l e : In e (live l) -> snd e <> [].
Proof. unfold live; intro H; apply filter_In in H; destruct H as [_ H]. destruct (snd e); [discriminate|congruence]. Qed.

(** merge *)
Lemma merge_nil_r m : merge m [] = m.
Proof. destruct m as [|[k v] r]; reflexivity. Qed.

Lemma merge_cons km vm m' kb vb b' :
  merge ((km, vm) :: m') ((kb, vb) :: b') =
  match bytes_cmp km kb with
  | Lt => (km, vm) :: merge m' ((kb, vb) :: b')
  | Eq => (km, vm) :: merge m' b'
  | Gt => (kb, vb) :: merge ((km, vm) :: m') b'
  end.
Proof. reflexivity. Qed.

Lemma merge_all_gt k m : forall b, all_gt k m -> all_gt k b -> all_gt k (merge m b).
Proof.
  induction m as [|[km vm] m' IHm]; intros b Hm Hb; [exact Hb|].
  induction b as [|[kb vb] b' IHb]; [rewrite merge_nil_r; exact Hm|].
  rewrite merge_cons. apply all_gt_cons in Hm; destruct Hm as [Hm1 Hm2].
  pose proof Hb as Hb0. apply all_gt_cons in Hb; destruct Hb as [Hb1 Hb2].
  destruct (bytes_cmp km kb); apply all_gt_cons; split; auto.
Qed.

Lemma merge_sorted m : forall b, ssorted m -> ssorted b -> ssorted (merge m b).
Proof.
  induction m as [|[km vm] m' IHm]; intros b Hm Hb; [exact Hb|].
  induction b as [|[kb vb] b' IHb]; [rewrite merge_nil_r; exact Hm|].
  rewrite merge_cons. destruct Hm as [Gm Sm]. pose proof Hb as Hb0. destruct Hb as [Gb Sb].
  destruct (bytes_cmp km kb) eqn:C; simpl.
  - apply cmp_eq in C; subst kb. split; [apply merge_all_gt; auto | apply IHm; auto].
  - split; [|apply IHm; auto]. apply merge_all_gt; [exact Gm|].
    apply all_gt_cons; split; [exact C|]. eapply all_gt_trans; eauto.
  - split; [|apply IHb; auto]. apply cmp_lt_gt in C. apply merge_all_gt with (m := (km, vm) :: m'); [|exact Gb].
    apply all_gt_cons; split; [exact C|]. eapply all_gt_trans; eauto.
Qed.

Lemma lookup_merge m : forall b k, ssorted m -> ssorted b ->
  lookup k (merge m b) = match lookup k m with Some v => Some v | None => lookup k b end.
Proof.
  induction m as [|[km vm] m' IHm]; intros b k Hm Hb; [reflexivity|].
  induction b as [|[kb vb] b' IHb].
  - rewrite merge_nil_r. simpl. destruct (key_eqb k km); [reflexivity|]. destruct (lookup k m'); reflexivity.
  - rewrite merge_cons. destruct Hm as [Gm Sm]. pose proof Hb as Hb0. destruct Hb as [Gb Sb].
    destruct (bytes_cmp km kb) eqn:C.
    + apply cmp_eq in C; subst kb. simpl. destruct (key_eqb k km) eqn:E; [reflexivity|].
      apply IHm; auto.
    + simpl. destruct (key_eqb k km) eqn:E; [reflexivity|]. rewrite IHm by auto. reflexivity.
    + specialize (IHb Sb). cbn [lookup] in *.
      destruct (key_eqb k kb) eqn:E.
      * apply key_eqb_eq in E; subst k. apply cmp_lt_gt in C.
        rewrite (cmp_lt_neq _ _ C).
        rewrite (all_gt_lookup_lt km kb m' Gm) by congruence. reflexivity.
      * exact IHb.
Qed.

(** replay folds (CacheDB.Commit, OverlayDB.CommitTo) *)
Lemma replay_into_sorted m : forall ov, ssorted ov -> ssorted (replay_into m ov).
Proof.
  unfold replay_into. induction m as [|[k v] r IH]; simpl; intros ov Hs; [exact Hs|].
  apply IH. destruct (is_empty v); apply mem_put_sorted; exact Hs.
Qed.

Lemma lookup_replay_into m : forall ov x, ssorted m -> ssorted ov ->
  lookup x (replay_into m ov) = match lookup x m with Some v => Some v | None => lookup x ov end.
Proof.
  unfold replay_into. induction m as [|[k v] r IH]; simpl; intros ov x Hm Hs; [reflexivity|].
  destruct Hm as [Gm Sm].
  assert (E : (if is_empty v then mem_delete k ov else mem_put k v ov) = mem_put k v ov).
  { destruct v; reflexivity. }
  rewrite E, IH; auto using mem_put_sorted. rewrite lookup_mem_put by exact Hs.
  destruct (key_eqb x k) eqn:Ex; [|reflexivity].
  apply key_eqb_eq in Ex; subst x. rewrite (all_gt_lookup _ _ Gm). reflexivity.
Qed.

Lemma commit_to_sorted m : forall st, ssorted st -> ssorted (commit_to m st).
Proof.
  unfold commit_to. induction m as [|[k v] r IH]; simpl; intros st Hs; [exact Hs|].
  apply IH. destruct (is_empty v); [apply store_delete_sorted | apply mem_put_sorted]; exact Hs.
Qed.

Lemma lookup_commit_to m : forall st x, ssorted m -> ssorted st ->
  lookup x (commit_to m st) =
  match lookup x m with Some v => if is_empty v then None else Some v | None => lookup x st end.
Proof.
  unfold commit_to. induction m as [|[k v] r IH]; simpl; intros st x Hm Hs; [reflexivity|].
  destruct Hm as [Gm Sm]. rewrite IH; auto.
  2:{ destruct (is_empty v); [apply store_delete_sorted | apply mem_put_sorted]; exact Hs. }
  destruct (key_eqb x k) eqn:Ex.
  - apply key_eqb_eq in Ex; subst x. rewrite (all_gt_lookup _ _ Gm).
    destruct (is_empty v) eqn:Ev.
    + rewrite lookup_store_delete, key_eqb_refl by exact Hs. reflexivity.
    + unfold store_put. rewrite lookup_mem_put, key_eqb_refl by exact Hs. reflexivity.
  - destruct (lookup x r); [reflexivity|].
    destruct (is_empty v).
    + rewrite lookup_store_delete, Ex by exact Hs. reflexivity.
    + unfold store_put. rewrite lookup_mem_put, Ex by exact Hs. reflexivity.
Qed.

(** * C. The layers *)

Definition nz (o : option bytes) : option bytes :=
  match o with Some v => if is_empty v then None else Some v | None => None end.
Definition orelse (a b : option bytes) : option bytes := match a with Some v => Some v | None => b end.

Definition sorted_state (s : state) : Prop :=
  ssorted (st_cache s) /\ ssorted (st_overlay s) /\ ssorted (st_store s).

Lemma wf_state_sorted s : wf_state s = true <-> sorted_state s.
Proof.
  unfold wf_state, sorted_state. rewrite !andb_true_iff, !sortedb_ssorted. tauto.
Qed.

Lemma apply_layer_sorted m b : ssorted m -> ssorted b -> ssorted (apply_layer m b).
Proof. intros; unfold apply_layer; apply live_sorted, merge_sorted; auto. Qed.

Lemma lookup_apply_layer m b k : ssorted m -> ssorted b ->
  lookup k (apply_layer m b) = nz (orelse (lookup k m) (lookup k b)).
Proof.
  intros Hm Hb; unfold apply_layer. rewrite lookup_live by (apply merge_sorted; auto).
  rewrite lookup_merge by auto. reflexivity.
Qed.

Lemma abs_block_sorted s : sorted_state s -> ssorted (abs_block s).
Proof. intros (_ & Ho & Hs); apply apply_layer_sorted; [exact Ho | apply live_sorted; exact Hs]. Qed.

Lemma abs_sorted s : sorted_state s -> ssorted (abs s).
Proof. intros H; apply apply_layer_sorted; [apply H | apply abs_block_sorted; exact H]. Qed.

Lemma lookup_abs_block s k : sorted_state s ->
  lookup k (abs_block s) = nz (orelse (lookup k (st_overlay s)) (lookup k (st_store s))).
Proof.
  intros (_ & Ho & Hs). unfold abs_block. rewrite lookup_apply_layer by (auto using live_sorted).
  rewrite lookup_live by exact Hs.
  destruct (lookup k (st_overlay s)) as [v|]; simpl; [reflexivity|].
  destruct (lookup k (st_store s)) as [v|]; simpl; [|reflexivity].
  destruct (is_empty v) eqn:E; simpl; [reflexivity | rewrite E; reflexivity].
Qed.

Lemma nz_idem o : nz (nz o) = nz o.
Proof. destruct o as [v|]; simpl; [|reflexivity]. destruct (is_empty v) eqn:E; simpl; [reflexivity | rewrite E; reflexivity]. Qed.

Lemma lookup_abs s k : sorted_state s ->
  lookup k (abs s) = nz (orelse (lookup k (st_cache s))
                          (orelse (lookup k (st_overlay s)) (lookup k (st_store s)))).
Proof.
  intros H. unfold abs. rewrite lookup_apply_layer by (try apply H; apply abs_block_sorted; exact H).
  rewrite lookup_abs_block by exact H.
  destruct (lookup k (st_cache s)) as [v|]; simpl; [reflexivity|]. apply nz_idem.
Qed.

Lemma abs_live_values s e : In e (abs s) -> snd e <> [].
Proof. unfold abs, apply_layer; apply live_values. Qed.

Lemma abs_block_live_values s e : In e (abs_block s) -> snd e <> [].
Proof. unfold abs_block, apply_layer; apply live_values. Qed.

(** reads *)
Lemma overlay_get_refines s k : sorted_state s -> overlay_get s k = kv_lookup k (abs_block s).
Proof.
  intros H. rewrite kv_lookup_lookup, lookup_abs_block by exact H. destruct H as (_ & Ho & Hs).
  unfold overlay_get, store_get. rewrite (mem_get_lookup k _ Ho), (mem_get_lookup k _ Hs).
  destruct (lookup k (st_overlay s)) as [v|]; simpl.
  - destruct v; reflexivity.
  - destruct (lookup k (st_store s)) as [v|]; simpl; [destruct v|]; reflexivity.
Qed.

Lemma cache_get_refines pfx s k : sorted_state s -> cache_get pfx s k = kv_lookup (pkey pfx k) (abs s).
Proof.
  intros H. unfold cache_get. rewrite (mem_get_lookup _ _ (proj1 H)).
  rewrite kv_lookup_lookup, lookup_abs by exact H.
  destruct (lookup (pkey pfx k) (st_cache s)) as [v|]; simpl.
  - destruct v; reflexivity.
  - rewrite overlay_get_refines, kv_lookup_lookup, lookup_abs_block by exact H. reflexivity.
Qed.

(** writes *)
Lemma kv_remove_sorted k l : ssorted l -> ssorted (kv_remove k l).
Proof. apply filter_sorted. Qed.

Lemma lookup_kv_remove k l x : ssorted l -> lookup x (kv_remove k l) = if key_eqb x k then None else lookup x l.
Proof.
  intro Hs. unfold kv_remove. rewrite lookup_filter by exact Hs. simpl.
  rewrite (key_eqb_sym k x). destruct (key_eqb x k) eqn:E; simpl.
  - destruct (lookup x l); reflexivity.
  - destruct (lookup x l); reflexivity.
Qed.

Lemma spec_put_sorted k v l : ssorted l -> ssorted (spec_put k v l).
Proof. intro H; unfold spec_put; destruct (is_empty v); [apply kv_remove_sorted | apply mem_put_sorted]; exact H. Qed.

Lemma lookup_spec_put k v l x : ssorted l ->
  lookup x (spec_put k v l) = if key_eqb x k then nz (Some v) else lookup x l.
Proof.
  intro H; unfold spec_put. simpl. destruct (is_empty v).
  - apply lookup_kv_remove; exact H.
  - apply lookup_mem_put; exact H.
Qed.

Lemma cache_put_sorted pfx k v s : sorted_state s -> sorted_state (cache_put pfx k v s).
Proof. intros (Hc & Ho & Hs); repeat split; simpl; auto using mem_put_sorted. Qed.

Lemma cache_delete_sorted pfx k s : sorted_state s -> sorted_state (cache_delete pfx k s).
Proof. apply cache_put_sorted. Qed.

Lemma cache_put_refines pfx k v s : sorted_state s ->
  abs (cache_put pfx k v s) = spec_put (pkey pfx k) v (abs s) /\ abs_block (cache_put pfx k v s) = abs_block s.
Proof.
  intro H; split; [|reflexivity].
  apply lookup_ext.
  - apply abs_sorted, cache_put_sorted; exact H.
  - apply spec_put_sorted, abs_sorted; exact H.
  - intro x. rewrite lookup_spec_put by (apply abs_sorted; exact H).
    rewrite !lookup_abs by (try apply cache_put_sorted; exact H). simpl.
    rewrite lookup_mem_put by apply H. destruct (key_eqb x (pkey pfx k)); reflexivity.
Qed.

Lemma cache_delete_refines pfx k s : sorted_state s ->
  abs (cache_delete pfx k s) = kv_remove (pkey pfx k) (abs s) /\ abs_block (cache_delete pfx k s) = abs_block s.
Proof. intro H. exact (cache_put_refines pfx k [] s H). Qed.

(** commit of the transaction cache: publishes exactly its writes *)
Lemma cache_commit_sorted s : sorted_state s -> sorted_state (cache_commit s).
Proof. intros (Hc & Ho & Hs); repeat split; simpl; auto using replay_into_sorted. Qed.

Lemma commit_cache_abs s : sorted_state s ->
  st_cache (cache_commit s) = [] /\
  st_overlay (cache_commit s) = replay_into (st_cache s) (st_overlay s) /\
  st_store (cache_commit s) = st_store s /\
  abs_block (cache_commit s) = abs s /\
  abs (cache_commit s) = abs s.
Proof.
  intro H. split; [reflexivity|]. split; [reflexivity|]. split; [reflexivity|].
  pose proof (cache_commit_sorted s H) as H'.
  assert (E : abs_block (cache_commit s) = abs s).
  { apply lookup_ext; [apply abs_block_sorted; exact H' | apply abs_sorted; exact H |].
    intro x. rewrite lookup_abs_block by exact H'. rewrite lookup_abs by exact H. simpl.
    destruct H as (Hc & Ho & Hs). rewrite lookup_replay_into by auto.
    destruct (lookup x (st_cache s)); reflexivity. }
  split; [exact E|].
  unfold abs at 1. rewrite E. simpl. unfold apply_layer. simpl.
  unfold abs, apply_layer. apply live_idem.
Qed.

(** reset of the transaction cache: discards exactly its writes *)
Lemma cache_reset_sorted s : sorted_state s -> sorted_state (cache_reset s).
Proof. intros (Hc & Ho & Hs); repeat split; simpl; auto. Qed.

Lemma reset_abs s :
  st_cache (cache_reset s) = [] /\ abs_block (cache_reset s) = abs_block s /\ abs (cache_reset s) = abs_block s.
Proof.
  split; [reflexivity|]. split; [reflexivity|].
  unfold abs, apply_layer. simpl. unfold abs_block, apply_layer. apply live_idem.
Qed.

(** commit of the overlay into the store *)
Lemma overlay_commit_sorted s : sorted_state s -> sorted_state (overlay_commit s).
Proof. intros (Hc & Ho & Hs); repeat split; simpl; auto using commit_to_sorted. Qed.

Lemma overlay_commit_abs s : sorted_state s ->
  live (st_store (overlay_commit s)) = abs_block s /\
  abs_block (overlay_commit s) = abs_block s /\
  abs (overlay_commit s) = abs s.
Proof.
  intro H. pose proof (overlay_commit_sorted s H) as H'.
  assert (E1 : live (st_store (overlay_commit s)) = abs_block s).
  { apply lookup_ext; [apply live_sorted; apply H' | apply abs_block_sorted; exact H |].
    intro x. rewrite lookup_live by apply H'. rewrite lookup_abs_block by exact H. simpl.
    destruct H as (Hc & Ho & Hs). rewrite lookup_commit_to by auto.
    destruct (lookup x (st_overlay s)) as [v|]; simpl; [|reflexivity].
    destruct (is_empty v) eqn:E; simpl; [reflexivity | rewrite E; reflexivity]. }
  assert (E2 : abs_block (overlay_commit s) = abs_block s).
  { apply lookup_ext; [apply abs_block_sorted; exact H' | apply abs_block_sorted; exact H |].
    intro x. rewrite !lookup_abs_block by assumption. simpl.
    destruct H as (Hc & Ho & Hs). rewrite lookup_commit_to by auto.
    destruct (lookup x (st_overlay s)) as [v|]; simpl; reflexivity. }
  split; [exact E1|]. split; [exact E2|].
  unfold abs. rewrite E2. reflexivity.
Qed.

(** direct writes to the overlay, and its reset *)
Lemma overlay_put_sorted k v s : sorted_state s -> sorted_state (overlay_put k v s).
Proof. intros (Hc & Ho & Hs); repeat split; simpl; auto using mem_put_sorted. Qed.

Lemma overlay_put_refines k v s : sorted_state s ->
  abs_block (overlay_put k v s) = spec_put k v (abs_block s).
Proof.
  intro H. apply lookup_ext.
  - apply abs_block_sorted, overlay_put_sorted; exact H.
  - apply spec_put_sorted, abs_block_sorted; exact H.
  - intro x. rewrite lookup_spec_put by (apply abs_block_sorted; exact H).
    rewrite !lookup_abs_block by (try apply overlay_put_sorted; exact H). simpl.
    rewrite lookup_mem_put by apply H. destruct (key_eqb x k); reflexivity.
Qed.

Lemma overlay_reset_abs s : abs_block (overlay_reset s) = live (st_store s).
Proof. unfold abs_block, apply_layer; simpl. apply live_idem. Qed.

(** * D. util.BytesPrefix *)

Lemma leb_nil k : bytes_leb [] k = true.
Proof. destruct k; reflexivity. Qed.

Lemma in_range_prefix p : forall k, wf_bytes k = true -> in_range (bytes_prefix p) k = has_prefix p k.
Proof.
  unfold in_range, bytes_prefix; simpl.
  induction p as [|c r IH]; intros k Hk.
  - simpl. rewrite leb_nil. reflexivity.
  - destruct k as [|y k']; [reflexivity|].
    rewrite wf_bytes_cons in Hk; apply andb_prop in Hk; destruct Hk as [Hy Hk'].
    unfold byte_ok in Hy; apply N.ltb_lt in Hy.
    specialize (IH k' Hk'). cbn [has_prefix prefix_limit].
    unfold bytes_leb, bytes_ltb in *. cbn [bytes_cmp].
    destruct (N.compare c y) eqn:C.
    + apply N.compare_eq in C; subst y. rewrite N.eqb_refl. cbn [andb].
      destruct (prefix_limit r) as [l|]; cbn [below_limit] in *.
      * unfold bytes_ltb in *. cbn [bytes_cmp]. rewrite N.compare_refl. exact IH.
      * destruct (c <? 255) eqn:L; cbn [below_limit].
        -- unfold bytes_ltb. cbn [bytes_cmp].
           assert (Hc : N.compare c (c + 1) = Lt) by (apply N.compare_lt_iff; lia).
           rewrite Hc. rewrite andb_true_r in *. exact IH.
        -- exact IH.
    + rewrite N.compare_lt_iff in C. assert (c =? y = false) by (apply N.eqb_neq; lia). rewrite H. cbn [andb].
      destruct (prefix_limit r) as [l|]; cbn [below_limit].
      * unfold bytes_ltb. cbn [bytes_cmp]. assert (Hc : N.compare y c = Gt) by (apply N.compare_gt_iff; lia).
        rewrite Hc. reflexivity.
      * destruct (c <? 255) eqn:L; cbn [below_limit].
        -- unfold bytes_ltb. cbn [bytes_cmp]. destruct (N.compare y (c + 1)) eqn:C2.
           ++ destruct k'; reflexivity.
           ++ rewrite N.compare_lt_iff in C2. lia.
           ++ reflexivity.
        -- apply N.ltb_ge in L. lia.
    + rewrite N.compare_gt_iff in C. assert (c =? y = false) by (apply N.eqb_neq; lia). rewrite H. reflexivity.
Qed.

Definition keys_wf (l : list kv) : Prop := forall e, In e l -> wf_bytes (fst e) = true.

Lemma filter_range_prefix p l : keys_wf l ->
  filter (fun e => in_range (bytes_prefix p) (fst e)) l = with_prefix p l.
Proof.
  intro H. unfold with_prefix. apply filter_ext_in. intros e He. apply in_range_prefix, H, He.
Qed.

(** * E. Iterators *)

Definition nilb (l : list kv) : bool := match l with [] => true | _ => false end.
Definition res_of (l : list kv) : ires := if nilb l then RFalse else RTrue.
Definition dead (it : iter) : Prop := it_key it = [] /\ it_value it = [].
Definition hd_key (l : list kv) : bytes := match l with [] => [] | e :: _ => fst e end.
Definition hd_val (l : list kv) : bytes := match l with [] => [] | e :: _ => snd e end.

Section Iterators.
Variable env : layer -> memdb.

(** [tracks B l it]: the iterator is positioned on the head of [l] (invalid when [l] is empty: Key
    and Value are nil) and, given fuel at least [B], every further Next moves to the next entry of
    [l], returns false exactly at the end, and returns false again when called after the end. *)
Fixpoint tracks (B : nat) (l : list kv) (it : iter) : Prop :=
  match l with
  | [] => dead it /\ forall f, (B <= f)%nat -> exists it', it_next env f it = (it', RFalse) /\ dead it'
  | e :: l' => it_key it = fst e /\ it_value it = snd e /\
      forall f, (B <= f)%nat -> exists it', it_next env f it = (it', res_of l') /\ tracks B l' it'
  end.

Definition first_ok (B : nat) (l : list kv) (it : iter) : Prop :=
  forall f, (B <= f)%nat -> exists it', it_first env f it = (it', res_of l) /\ tracks B l it'.

Lemma tracks_mono B B' l : (B <= B')%nat -> forall it, tracks B l it -> tracks B' l it.
Proof.
  intro HB. induction l as [|e l' IH]; intros it H; simpl in *.
  - destruct H as [Hd Hn]; split; [exact Hd|]. intros f Hf; apply Hn; lia.
  - destruct H as (Hk & Hv & Hn); repeat split; auto.
    intros f Hf. destruct (Hn f ltac:(lia)) as (it' & E & T). exists it'; split; [exact E|apply IH; exact T].
Qed.

Lemma tracks_key B l it : tracks B l it -> it_key it = hd_key l /\ it_value it = hd_val l.
Proof. destruct l as [|e l']; simpl; [intros [[H1 H2] _]; auto | intros (H1 & H2 & _); auto]. Qed.

Lemma tracks_next B l it f : tracks B l it -> (B <= f)%nat ->
  exists it', it_next env f it = (it', res_of (tl l)) /\
              (if nilb (tl l) then dead it' else tracks B (tl l) it') /\
              (l <> [] -> tracks B (tl l) it').
Proof.
  destruct l as [|e l']; simpl; intros H Hf.
  - destruct H as [_ Hn]. destruct (Hn f Hf) as (it' & E & D).
    exists it'; split; [exact E|split; [exact D|intro X; exfalso; apply X; reflexivity]].
  - destruct H as (_ & _ & Hn). destruct (Hn f Hf) as (it' & E & T).
    exists it'; split; [exact E|split; [|intros _; exact T]].
    destruct l'; simpl in *; [apply T | exact T].
Qed.

(** ** MemDB iterator *)
Fixpoint after (k : bytes) (m : memdb) : memdb :=
  match m with [] => [] | (k', v') :: r => if bytes_ltb k k' then m else after k r end.
Fixpoint from (k : bytes) (m : memdb) : memdb :=
  match m with [] => [] | (k', v') :: r => if bytes_leb k k' then m else from k r end.
Fixpoint upto (lim : option bytes) (l : list kv) : list kv :=
  match l with [] => [] | e :: r => if below_limit lim (fst e) then e :: upto lim r else [] end.

Lemma mem_succ_after k m : mem_succ k m = hd_error (after k m).
Proof. induction m as [|[k' v'] r IH]; simpl; [reflexivity|]. destruct (bytes_ltb k k'); auto. Qed.

Lemma mem_find_ge_from k m : mem_find_ge k m = hd_error (from k m).
Proof. induction m as [|[k' v'] r IH]; simpl; [reflexivity|]. destruct (bytes_leb k k'); auto. Qed.

Lemma after_In k m e : In e (after k m) -> In e m.
Proof.
  induction m as [|[k' v'] r IH]; simpl; [tauto|]. destruct (bytes_ltb k k'); [auto|]. intro H; right; auto.
Qed.

Lemma from_In k m e : In e (from k m) -> In e m.
Proof.
  induction m as [|[k' v'] r IH]; simpl; [tauto|]. destruct (bytes_leb k k'); [auto|]. intro H; right; auto.
Qed.

Lemma after_all_gt k l : all_gt k l -> after k l = l.
Proof.
  destruct l as [|[k' v'] r]; [reflexivity|]. intro H. apply all_gt_cons in H; destruct H as [H _]; simpl in *.
  apply ltb_lt in H; rewrite H; reflexivity.
Qed.

Lemma after_step k m e r : ssorted m -> after k m = e :: r -> after (fst e) m = r.
Proof.
  induction m as [|[k' v'] r0 IH]; simpl; [discriminate|]. intros [Hg Hs] E.
  destruct (bytes_ltb k k') eqn:L.
  - inversion E; subst. simpl. rewrite ltb_irrefl. apply after_all_gt; exact Hg.
  - assert (Hin : In e r0) by (apply (after_In k); rewrite E; left; reflexivity).
    specialize (Hg _ Hin). apply cmp_lt_gt in Hg. unfold bytes_ltb at 1. rewrite Hg. apply IH; auto.
Qed.

Lemma from_step k m e r : ssorted m -> from k m = e :: r -> after (fst e) m = r.
Proof.
  induction m as [|[k' v'] r0 IH]; simpl; [discriminate|]. intros [Hg Hs] E.
  destruct (bytes_leb k k') eqn:L.
  - inversion E; subst. simpl. rewrite ltb_irrefl. apply after_all_gt; exact Hg.
  - assert (Hin : In e r0) by (apply (from_In k); rewrite E; left; reflexivity).
    specialize (Hg _ Hin). apply cmp_lt_gt in Hg. unfold bytes_ltb at 1. rewrite Hg. apply IH; auto.
Qed.

Lemma mem_invalid_tracks l rg : tracks 1 [] (IMem l rg None true [] []).
Proof.
  simpl. split; [split; reflexivity|]. intros f Hf. destruct f as [|f]; [lia|].
  eexists; split; [reflexivity|split; reflexivity].
Qed.

Lemma mem_tracks l rg : ssorted (env l) -> forall L k v,
  upto (r_limit rg) (after k (env l)) = L -> tracks 1 ((k, v) :: L) (IMem l rg (Some k) true k v).
Proof.
  intros Hs L. induction L as [|e1 L' IH]; intros k v E; simpl; (split; [reflexivity|split; [reflexivity|]]);
    intros f Hf; (destruct f as [|f]; [lia|]); cbn [it_next mem_next]; rewrite mem_succ_after.
  - destruct (after k (env l)) as [|[k1 v1] r] eqn:A; simpl.
    + eexists; split; [reflexivity|apply (mem_invalid_tracks l rg)].
    + simpl in E. destruct (below_limit (r_limit rg) k1); [discriminate|].
      eexists; split; [reflexivity|apply (mem_invalid_tracks l rg)].
  - destruct (after k (env l)) as [|[k1 v1] r] eqn:A; simpl in E; [discriminate|].
    destruct (below_limit (r_limit rg) k1) eqn:BL; [|discriminate]. inversion E; subst. simpl. rewrite BL.
    eexists; split; [reflexivity|]. apply IH. f_equal. exact (after_step k (env l) (k1, v1) r Hs A).
Qed.

Lemma mem_first_ok l rg nd fw k v : ssorted (env l) ->
  first_ok 1 (upto (r_limit rg) (from (r_start rg) (env l))) (IMem l rg nd fw k v).
Proof.
  intros Hs f Hf. destruct f as [|f]; [lia|]. cbn [it_first]. unfold mem_first. rewrite mem_find_ge_from.
  destruct (from (r_start rg) (env l)) as [|[k1 v1] r] eqn:A; simpl.
  - eexists; split; [reflexivity|apply (mem_invalid_tracks l rg)].
  - destruct (below_limit (r_limit rg) k1) eqn:BL; simpl.
    + eexists; split; [reflexivity|]. apply mem_tracks; [exact Hs|]. f_equal.
      exact (from_step _ _ (k1, v1) r Hs A).
    + eexists; split; [reflexivity|apply (mem_invalid_tracks l rg)].
Qed.

(** ** LevelDB snapshot iterator *)
Lemma store_eoi_tracks all cur : tracks 1 [] (IStore all cur EOI).
Proof.
  simpl. split; [split; reflexivity|]. intros f Hf. destruct f as [|f]; [lia|].
  eexists; split; [reflexivity|split; reflexivity].
Qed.

Lemma store_tracks all : forall cur, cur <> [] -> tracks 1 cur (IStore all cur SFwd).
Proof.
  induction cur as [|[k v] r IH]; intro H; [congruence|]. simpl. split; [reflexivity|split; [reflexivity|]].
  intros f Hf. destruct f as [|f]; [lia|]. cbn [it_next store_next tl].
  destruct r as [|e r'].
  - eexists; split; [reflexivity|apply store_eoi_tracks].
  - eexists; split; [reflexivity|apply IH; discriminate].
Qed.

Lemma store_first_ok all cur dir : first_ok 1 all (IStore all cur dir).
Proof.
  intros f Hf. destruct f as [|f]; [lia|]. cbn [it_first]. unfold store_first.
  destruct all as [|e r] eqn:A.
  - eexists; split; [reflexivity|apply store_eoi_tracks].
  - eexists; split; [reflexivity|apply store_tracks; discriminate].
Qed.

(** ** JoinIter over two iterators that satisfy the contract *)

Definition side_ok (B : nat) (flag : bool) (l : list kv) (it : iter) : Prop :=
  if flag then l = [] else tracks B l it.

Definition head_lt (k : bytes) (l : list kv) : Prop :=
  match l with [] => True | e :: _ => bytes_cmp k (fst e) = Lt end.

Definition nonempty_keys (l : list kv) : Prop := forall e, In e l -> fst e <> [].

(** the current entry of the JoinIter is the head of the merge of what the two sides still hold
    (their current entries included), or the empty key/value of an exhausted side whose end flag
    is not set yet *)
Definition cur_ok (lm lb : list kv) (k v : bytes) (o : origin) (me be : bool) : Prop :=
  match o with
  | FromMem => me = false /\ ((exists lm', lm = (k, v) :: lm' /\ head_lt k lb) \/ (lm = [] /\ k = [] /\ v = []))
  | FromBack => be = false /\ ((exists lb', lb = (k, v) :: lb' /\ head_lt k lm) \/ (lb = [] /\ k = [] /\ v = []))
  | FromBoth => me = false /\ be = false /\ exists lm' lb' vb, lm = (k, v) :: lm' /\ lb = (k, vb) :: lb'
  end.

Definition mu (lm lb : list kv) (me be : bool) : nat :=
  (length lm + length lb + (if me then 0 else 1) + (if be then 0 else 1))%nat.

Lemma ended_res_of l : ended (res_of l) = nilb l.
Proof. destruct l; reflexivity. Qed.

Lemma res_of_not_fuel l : res_of l <> RFuel.
Proof. destruct l; discriminate. Qed.

Lemma nonempty_keys_tl l : nonempty_keys l -> nonempty_keys (tl l).
Proof. destruct l; simpl; intros H e He; apply H; simpl; auto. Qed.

Lemma ssorted_tl l : ssorted l -> ssorted (tl l).
Proof. destruct l as [|[k v] r]; simpl; tauto. Qed.

(** advancing one side *)
Lemma adv_side B f (go me : bool) lm mem :
  side_ok B me lm mem -> (B <= f)%nat -> (go = true -> me = false) ->
  exists mem1 rm,
    (if go && negb me then it_next env f mem else (mem, RTrue)) = (mem1, rm) /\ rm <> RFuel /\
    (if go && negb me then ended rm else me) = (if go then nilb (tl lm) else me) /\
    side_ok B (if go then nilb (tl lm) else me) (if go then tl lm else lm) mem1.
Proof.
  intros Hs Hf Hgo. destruct go; simpl.
  - rewrite (Hgo eq_refl) in *. simpl in *.
    destruct (tracks_next B lm mem f Hs Hf) as (mem1 & E & T & _).
    exists mem1, (res_of (tl lm)). rewrite E. repeat split.
    + apply res_of_not_fuel.
    + apply ended_res_of.
    + unfold side_ok. destruct (tl lm); simpl in *; [reflexivity|exact T].
  - exists mem, RTrue. repeat split; [discriminate|exact Hs].
Qed.

Lemma select_ok B lm1 lb1 back1 mem1 o me1 be1 :
  side_ok B me1 lm1 mem1 -> side_ok B be1 lb1 back1 ->
  nonempty_keys lm1 -> nonempty_keys lb1 ->
  ~ (me1 = false /\ lm1 = [] /\ be1 = false /\ lb1 = []) ->
  exists k1 v1 o1 r, join_select back1 mem1 o me1 be1 = (IJoin back1 mem1 k1 v1 o1 me1 be1, r) /\
    ((r = RFalse /\ me1 = true /\ be1 = true /\ k1 = [] /\ v1 = []) \/
     (r = RTrue /\ cur_ok lm1 lb1 k1 v1 o1 me1 be1)).
Proof.
  intros Hm Hb Nm Nb Hex. unfold join_select. destruct be1, me1; simpl in Hm, Hb.
  - do 4 eexists; split; [reflexivity|]. left; repeat split.
  - do 4 eexists; split; [reflexivity|]. right; split; [reflexivity|].
    destruct (tracks_key _ _ _ Hm) as [Ek Ev]. rewrite Ek, Ev. simpl. split; [reflexivity|].
    destruct lm1 as [|[km vm] lm']; simpl; [right; auto|]. left; exists lm'; subst lb1; simpl; auto.
  - do 4 eexists; split; [reflexivity|]. right; split; [reflexivity|].
    destruct (tracks_key _ _ _ Hb) as [Ek Ev]. rewrite Ek, Ev. simpl. split; [reflexivity|].
    destruct lb1 as [|[kb vb] lb']; simpl; [right; auto|]. left; exists lb'; subst lm1; simpl; auto.
  - destruct (tracks_key _ _ _ Hm) as [Ekm Evm]. destruct (tracks_key _ _ _ Hb) as [Ekb Evb].
    rewrite Ekm, Ekb, Evm, Evb.
    destruct lm1 as [|[km vm] lm']; destruct lb1 as [|[kb vb] lb']; simpl.
    + exfalso; apply Hex; auto.
    + assert (Hk : kb <> []) by (apply (Nb (kb, vb)); left; reflexivity).
      destruct kb; [congruence|]. simpl.
      do 4 eexists; split; [reflexivity|]. right; split; [reflexivity|]. simpl. split; [reflexivity|]. right; auto.
    + assert (Hk : km <> []) by (apply (Nm (km, vm)); left; reflexivity).
      destruct km; [congruence|]. simpl.
      do 4 eexists; split; [reflexivity|]. right; split; [reflexivity|]. simpl. split; [reflexivity|]. right; auto.
    + destruct (bytes_cmp km kb) eqn:C.
      * apply cmp_eq in C; subst kb.
        do 4 eexists; split; [reflexivity|]. right; split; [reflexivity|]. simpl.
        split; [reflexivity|]. split; [reflexivity|]. exists lm', lb', vb; auto.
      * do 4 eexists; split; [reflexivity|]. right; split; [reflexivity|]. simpl.
        split; [reflexivity|]. left; exists lm'; auto.
      * do 4 eexists; split; [reflexivity|]. right; split; [reflexivity|]. simpl.
        split; [reflexivity|]. left; exists lb'; split; [reflexivity|]. simpl. apply cmp_lt_gt; exact C.
Qed.

Lemma head_lt_merge k v lm' lb : head_lt k lb -> merge ((k, v) :: lm') lb = (k, v) :: merge lm' lb.
Proof. destruct lb as [|[kb vb] lb']; simpl; [intros _; rewrite merge_nil_r; reflexivity|]. intros ->; reflexivity. Qed.

Lemma head_lt_merge_r k v lb' lm : head_lt k lm -> merge lm ((k, v) :: lb') = (k, v) :: merge lm lb'.
Proof.
  destruct lm as [|[km vm] lm']; simpl; [reflexivity|]. intro H. apply cmp_lt_gt in H. rewrite H. reflexivity.
Qed.

Lemma live_cons k v l : live ((k, v) :: l) = (if is_empty v then [] else [(k, v)]) ++ live l.
Proof. unfold live; simpl. destruct (is_empty v); reflexivity. Qed.

(** what one raw step consumes *)
Lemma cur_merge lm lb k v o me be : cur_ok lm lb k v o me be ->
  live (merge lm lb) = (if is_empty v then [] else [(k, v)]) ++
                       live (merge (if origin_mem o then tl lm else lm) (if origin_back o then tl lb else lb)).
Proof.
  destruct o; simpl.
  - intros [_ [(lm' & -> & H)|(-> & -> & ->)]]; simpl tl; [|reflexivity].
    rewrite head_lt_merge by exact H. apply live_cons.
  - intros [_ [(lb' & -> & H)|(-> & -> & ->)]]; simpl tl; [|reflexivity].
    rewrite head_lt_merge_r by exact H. apply live_cons.
  - intros (_ & _ & lm' & lb' & vb & -> & ->). simpl tl. rewrite merge_cons, cmp_refl. apply live_cons.
Qed.

Lemma cur_mu lm lb k v o me be :
  cur_ok lm lb k v o me be -> (me = true -> lm = []) -> (be = true -> lb = []) ->
  (mu (if origin_mem o then tl lm else lm) (if origin_back o then tl lb else lb)
      (if origin_mem o then nilb (tl lm) else me) (if origin_back o then nilb (tl lb) else be)
   < mu lm lb me be)%nat.
Proof.
  unfold mu. destruct o; simpl.
  - intros [-> [(lm' & -> & _)|(-> & _)]] _ _; simpl; [destruct lm'; simpl; lia | lia].
  - intros [-> [(lb' & -> & _)|(-> & _)]] _ _; simpl; [destruct lb'; simpl; lia | lia].
  - intros (-> & -> & lm' & lb' & vb & -> & ->) _ _. simpl. destruct lm', lb'; simpl; lia.
Qed.

Record jinv (B : nat) (lm lb : list kv) (back mem : iter) (k v : bytes) (o : origin) (me be : bool) : Prop := {
  j_mem : side_ok B me lm mem;
  j_back : side_ok B be lb back;
  j_sm : ssorted lm;
  j_sb : ssorted lb;
  j_nm : nonempty_keys lm;
  j_nb : nonempty_keys lb;
  j_cur : cur_ok lm lb k v o me be
}.

Lemma cur_ok_flags lm lb k v o me be : cur_ok lm lb k v o me be ->
  (origin_mem o = true -> me = false) /\ (origin_back o = true -> be = false).
Proof. destruct o; simpl; intuition congruence. Qed.

Lemma side_flag B me lm mem : side_ok B me lm mem -> me = true -> lm = [].
Proof. intros H ->; exact H. Qed.

(** JoinIter.next() from a state satisfying the invariant *)
Lemma join_step B lm lb back mem k v o me be f :
  jinv B lm lb back mem k v o me be -> (B <= f)%nat ->
  let lm1 := if origin_mem o then tl lm else lm in
  let lb1 := if origin_back o then tl lb else lb in
  exists back1 mem1 k1 v1 o1 me1 be1 r,
    join_next_raw (it_next env f) back mem k v o me be = (IJoin back1 mem1 k1 v1 o1 me1 be1, r) /\
    ((r = RFalse /\ me1 = true /\ be1 = true /\ k1 = [] /\ v1 = [] /\ lm1 = [] /\ lb1 = []) \/
     (r = RTrue /\ jinv B lm1 lb1 back1 mem1 k1 v1 o1 me1 be1 /\ (mu lm1 lb1 me1 be1 < mu lm lb me be)%nat)).
Proof.
  intros [Hm Hb Sm Sb Nm Nb Hc] Hf lm1 lb1.
  destruct (cur_ok_flags _ _ _ _ _ _ _ Hc) as [Fm Fb].
  destruct (adv_side B f (origin_mem o) me lm mem Hm Hf Fm) as (mem1 & rm & Em & Nfm & Eme & Hm1).
  destruct (adv_side B f (origin_back o) be lb back Hb Hf Fb) as (back1 & rb & Eb & Nfb & Ebe & Hb1).
  unfold join_next_raw. rewrite Em, Eb, Eme, Ebe.
  set (me1 := if origin_mem o then nilb (tl lm) else me) in *.
  set (be1 := if origin_back o then nilb (tl lb) else be) in *.
  assert (Nm1 : nonempty_keys lm1) by (unfold lm1; destruct (origin_mem o); auto using nonempty_keys_tl).
  assert (Nb1 : nonempty_keys lb1) by (unfold lb1; destruct (origin_back o); auto using nonempty_keys_tl).
  assert (Hex : ~ (me1 = false /\ lm1 = [] /\ be1 = false /\ lb1 = [])).
  { unfold me1, be1, lm1, lb1. intros (A1 & A2 & A3 & A4).
    destruct o; simpl in *.
    - rewrite A2 in A1; discriminate.
    - rewrite A4 in A3; discriminate.
    - rewrite A2 in A1; discriminate. }
  destruct (select_ok B lm1 lb1 back1 mem1 o me1 be1 Hm1 Hb1 Nm1 Nb1 Hex) as (k1 & v1 & o1 & r & Es & Hr).
  exists back1, mem1, k1, v1, o1, me1, be1, r.
  split.
  { destruct rm; try congruence; destruct rb; try congruence; exact Es. }
  destruct Hr as [(-> & M1 & B1 & -> & ->)|(-> & Hc1)].
  - left. repeat split; auto.
    + exact (side_flag _ _ _ _ Hm1 M1).
    + exact (side_flag _ _ _ _ Hb1 B1).
  - right. split; [reflexivity|]. split.
    + constructor; auto.
      * unfold lm1; destruct (origin_mem o); auto using ssorted_tl.
      * unfold lb1; destruct (origin_back o); auto using ssorted_tl.
    + apply (cur_mu lm lb k v o me be Hc); [exact (side_flag _ _ _ _ Hm) | exact (side_flag _ _ _ _ Hb)].
Qed.

Lemma join_final_tracks B' back mem o : (1 <= B')%nat -> tracks B' [] (IJoin back mem [] [] o true true).
Proof.
  intro HB. simpl. split; [split; reflexivity|]. intros f Hf. destruct f as [|f]; [lia|].
  cbn [it_next]. unfold join_next_raw. rewrite !andb_false_r. simpl.
  eexists; split; [reflexivity|split; reflexivity].
Qed.

Lemma cur_ok_mu_pos lm lb k v o me be : cur_ok lm lb k v o me be -> (1 <= mu lm lb me be)%nat.
Proof. unfold mu. destruct o; simpl; intros H; decompose [and] H; subst; simpl; lia. Qed.

Lemma join_skip_eq nx n it :
  join_skip nx n it =
  if negb (is_empty (it_value it)) then (it, RTrue) else
  match n with
  | O => (it, RFuel)
  | S n' => let '(it1, r) := it_next_raw nx it in
            match r with RTrue => join_skip nx n' it1 | _ => (it1, r) end
  end.
Proof. destruct n; reflexivity. Qed.

(** The central lemma, by induction on the size of the merged remainder [mu]: from any state of the
    exact JoinIter state machine that satisfies the invariant, (N) the public Next and (L) the
    tombstone-skipping loop produce exactly the live entries of the merge of the two sides. *)
Lemma join_main B : forall n lm lb back mem k v o me be,
  (mu lm lb me be <= n)%nat -> jinv B lm lb back mem k v o me be ->
  forall B', (B + n + 1 <= B')%nat ->
  let rest := live (merge (if origin_mem o then tl lm else lm) (if origin_back o then tl lb else lb)) in
  (forall f, (B' <= f)%nat -> exists it',
      it_next env f (IJoin back mem k v o me be) = (it', res_of rest) /\ tracks B' rest it') /\
  (forall cnt f, (mu lm lb me be <= cnt)%nat -> (B <= f)%nat -> exists it',
      join_skip (it_next env f) cnt (IJoin back mem k v o me be) = (it', res_of (live (merge lm lb))) /\
      tracks B' (live (merge lm lb)) it').
Proof.
  induction n as [|n IH]; intros lm lb back mem k v o me be Hmu Hj B' HB rest.
  { pose proof (cur_ok_mu_pos _ _ _ _ _ _ _ (j_cur _ _ _ _ _ _ _ _ _ _ Hj)). lia. }
  assert (HN : forall f, (B' <= f)%nat -> exists it',
      it_next env f (IJoin back mem k v o me be) = (it', res_of rest) /\ tracks B' rest it').
  { intros f Hf. destruct f as [|f]; [lia|]. cbn [it_next].
    assert (HfB : (B <= f)%nat) by lia.
    pose proof (join_step B lm lb back mem k v o me be f Hj HfB) as HS. cbv zeta in HS.
    destruct HS as (back1 & mem1 & k1 & v1 & o1 & me1 & be1 & r & Es & Hr).
    rewrite Es.
    destruct Hr as [(-> & -> & -> & -> & -> & E1 & E2)|(-> & Hj1 & Hlt)].
    - unfold rest. rewrite E1, E2. simpl. eexists; split; [reflexivity|]. apply join_final_tracks; lia.
    - assert (Hle : (mu (if origin_mem o then tl lm else lm) (if origin_back o then tl lb else lb) me1 be1 <= n)%nat) by lia.
      assert (HB' : (B + n + 1 <= B')%nat) by lia.
      destruct (IH _ _ _ _ _ _ _ _ _ Hle Hj1 B' HB') as [_ HL].
      assert (Hc1 : (mu (if origin_mem o then tl lm else lm) (if origin_back o then tl lb else lb) me1 be1 <= f)%nat) by lia.
      destruct (HL f f Hc1 HfB) as (it' & E & T). exists it'; split; [exact E|exact T]. }
  split; [exact HN|].
  intros cnt f Hcnt Hf. rewrite join_skip_eq. cbn [it_value].
  pose proof (cur_merge _ _ _ _ _ _ _ (j_cur _ _ _ _ _ _ _ _ _ _ Hj)) as HM. fold rest in HM.
  destruct (is_empty v) eqn:Ev; cbn [negb].
  - (* skipped entry *)
    simpl in HM. rewrite HM.
    pose proof (cur_ok_mu_pos _ _ _ _ _ _ _ (j_cur _ _ _ _ _ _ _ _ _ _ Hj)) as Hpos.
    destruct cnt as [|cnt]; [lia|]. cbn [it_next_raw].
    pose proof (join_step B lm lb back mem k v o me be f Hj Hf) as HS. cbv zeta in HS.
    destruct HS as (back1 & mem1 & k1 & v1 & o1 & me1 & be1 & r & Es & Hr).
    rewrite Es.
    destruct Hr as [(-> & -> & -> & -> & -> & E1 & E2)|(-> & Hj1 & Hlt)].
    + unfold rest. rewrite E1, E2. simpl. eexists; split; [reflexivity|]. apply join_final_tracks; lia.
    + assert (Hle : (mu (if origin_mem o then tl lm else lm) (if origin_back o then tl lb else lb) me1 be1 <= n)%nat) by lia.
      assert (HB' : (B + n + 1 <= B')%nat) by lia.
      destruct (IH _ _ _ _ _ _ _ _ _ Hle Hj1 B' HB') as [_ HL].
      assert (Hc1 : (mu (if origin_mem o then tl lm else lm) (if origin_back o then tl lb else lb) me1 be1 <= cnt)%nat) by lia.
      destruct (HL cnt f Hc1 Hf) as (it' & E & T). exists it'; split; [exact E|exact T].
  - (* current entry is live: the loop stops here *)
    rewrite HM. simpl. eexists; split; [reflexivity|].
    split; [reflexivity|split; [reflexivity|]]. exact HN.
Qed.

Lemma jinv_tracks B lm lb back mem k v o me be B' :
  jinv B lm lb back mem k v o me be -> (B + mu lm lb me be + 1 <= B')%nat -> is_empty v = false ->
  tracks B' (live (merge lm lb)) (IJoin back mem k v o me be).
Proof.
  intros Hj HB Ev.
  destruct (join_main B _ _ _ _ _ _ _ _ _ _ (le_n _) Hj B' HB) as [_ HL].
  destruct (HL (mu lm lb me be) B (le_n _) (le_n _)) as (it' & E & T).
  rewrite join_skip_eq in E. cbn [it_value] in E. rewrite Ev in E. simpl in E. inversion E; subst. exact T.
Qed.

Lemma first_ok_parts B L it f : first_ok B L it -> (B <= f)%nat ->
  exists it', it_first env f it = (it', res_of L) /\ tracks B L it'.
Proof. intros H Hf; exact (H f Hf). Qed.

(** JoinIter.First() on a new JoinIter *)
Lemma join_first_ok B Lm Lb mem back :
  first_ok B Lm mem -> first_ok B Lb back ->
  ssorted Lm -> ssorted Lb -> nonempty_keys Lm -> nonempty_keys Lb ->
  first_ok (B + length Lm + length Lb + 4) (live (merge Lm Lb)) (new_join_iter mem back).
Proof.
  intros Fm Fb Sm Sb Nm Nb f Hf. set (B' := (B + length Lm + length Lb + 4)%nat) in *.
  destruct f as [|f]; [lia|]. unfold new_join_iter. cbn [it_first].
  destruct (Fb f ltac:(lia)) as (back1 & Eb & Tb). destruct (Fm f ltac:(lia)) as (mem1 & Em & Tm).
  rewrite Eb, Em.
  destruct (tracks_key _ _ _ Tm) as [Ekm Evm]. destruct (tracks_key _ _ _ Tb) as [Ekb Evb].
  assert (Hgo : forall k v o, jinv B Lm Lb back1 mem1 k v o false false ->
            exists it', join_skip (it_next env f) f (IJoin back1 mem1 k v o false false)
                        = (it', res_of (live (merge Lm Lb))) /\ tracks B' (live (merge Lm Lb)) it').
  { intros k v o Hj.
    destruct (join_main B _ _ _ _ _ _ _ _ _ _ (le_n _) Hj B') as [_ HL]; [unfold mu, B'; lia|].
    apply HL; unfold mu; lia. }
  destruct Lm as [|[km vm] Lm']; destruct Lb as [|[kb vb] Lb']; unfold res_of; cbn [nilb].
  - (* both sides empty: First returns false; a further Next returns false too *)
    unfold join_first_raw. simpl. eexists; split; [reflexivity|].
    assert (Hj : jinv B [] [] back1 mem1 [] [] FromMem false false).
    { constructor; simpl; auto. }
    destruct (join_main B _ _ _ _ _ _ _ _ _ _ (le_n _) Hj B') as [HN _]; [unfold mu, B'; simpl; lia|].
    split; [split; reflexivity|]. intros f' Hf'. destruct (HN f' Hf') as (it' & E & T).
    simpl in E, T. exists it'; split; [exact E|apply T].
  - unfold join_first_raw. cbn [negb]. rewrite Ekb, Evb. simpl hd_key; simpl hd_val.
    apply Hgo. constructor; simpl; auto. split; [reflexivity|]. left; exists Lb'; simpl; auto.
  - unfold join_first_raw. rewrite Ekm, Evm. simpl hd_key; simpl hd_val.
    apply Hgo. constructor; simpl; auto. split; [reflexivity|]. left; exists Lm'; simpl; auto.
  - unfold join_first_raw. cbn [negb]. rewrite Ekm, Evm, Ekb, Evb. simpl hd_key; simpl hd_val.
    destruct (bytes_cmp km kb) eqn:C.
    + apply cmp_eq in C; subst kb. apply Hgo. constructor; simpl; auto.
      split; [reflexivity|]. split; [reflexivity|]. exists Lm', Lb', vb; auto.
    + apply Hgo. constructor; simpl; auto. split; [reflexivity|]. left; exists Lm'; auto.
    + apply Hgo. constructor; simpl; auto. split; [reflexivity|]. left; exists Lb'; split; [reflexivity|].
      simpl. apply cmp_lt_gt; exact C.
Qed.

(** draining a tracked iterator yields exactly its list *)
Lemma drain_tracks B : forall L it fuel n, tracks B L it -> (B <= fuel)%nat -> (length L <= n)%nat ->
  drain env fuel n it (res_of L) = (L, true).
Proof.
  induction L as [|[k v] L' IH]; intros it fuel n T Hf Hn; [destruct n; reflexivity|].
  simpl in Hn. destruct n as [|n]; [lia|]. unfold res_of; cbn [nilb drain].
  simpl in T. destruct T as (Ek & Ev & Hnx). destruct (Hnx fuel Hf) as (it' & E & T').
  rewrite E, (IH it' fuel n T' Hf ltac:(lia)), Ek, Ev. reflexivity.
Qed.

Lemma iterate_first_ok B L it fuel : first_ok B L it -> (B <= fuel)%nat -> (length L <= fuel)%nat ->
  iterate env fuel it = (L, true).
Proof.
  intros F Hf Hl. unfold iterate. destruct (F fuel Hf) as (it' & E & T). rewrite E.
  apply (drain_tracks B); auto.
Qed.

End Iterators.

Lemma first_ok_mono env B B' L it : (B <= B')%nat -> first_ok env B L it -> first_ok env B' L it.
Proof.
  intros HB F f Hf. destruct (F f ltac:(lia)) as (it' & E & T). exists it'; split; [exact E|].
  eapply tracks_mono; eauto.
Qed.

(** ** The range-restricted view of a sorted list *)

Definition kfilter (R : bytes -> bool) (l : list kv) : list kv := filter (fun e => R (fst e)) l.

Lemma filter_none {A} (f : A -> bool) l : (forall e, In e l -> f e = false) -> filter f l = [].
Proof.
  induction l as [|e r IH]; simpl; intro H; [reflexivity|].
  rewrite (H e (or_introl eq_refl)). apply IH. intros x Hx; apply H; right; exact Hx.
Qed.

Lemma below_mono lim k k' : below_limit lim k' = true -> bytes_cmp k k' = Lt -> below_limit lim k = true.
Proof.
  destruct lim as [l|]; simpl; [|reflexivity]. rewrite !ltb_lt. intros H1 H2. eapply cmp_lt_trans; eauto.
Qed.

Lemma leb_lt_trans a b c : bytes_leb a b = true -> bytes_cmp b c = Lt -> bytes_leb a c = true.
Proof.
  unfold bytes_leb. destruct (bytes_cmp a b) eqn:E; intros H1 H2; try discriminate.
  - apply cmp_eq in E; subst; rewrite H2; reflexivity.
  - rewrite (cmp_lt_trans _ _ _ E H2); reflexivity.
Qed.

Lemma upto_filter lim start l : ssorted l -> (forall e, In e l -> bytes_leb start (fst e) = true) ->
  upto lim l = kfilter (in_range (mkRange start lim)) l.
Proof.
  unfold kfilter. induction l as [|[k v] r IH]; simpl; intros Hs Hge; [reflexivity|].
  destruct Hs as [Hg Hs]. unfold in_range at 1; simpl.
  pose proof (Hge (k, v) (or_introl eq_refl)) as L0; simpl in L0; rewrite L0. simpl.
  destruct (below_limit lim k) eqn:BL.
  - f_equal. apply IH; auto.
  - symmetry. apply filter_none. intros e He. unfold in_range; simpl.
    destruct (below_limit lim (fst e)) eqn:B2; [|apply andb_false_r].
    rewrite (below_mono lim k (fst e) B2 (Hg e He)) in BL. discriminate.
Qed.

Lemma from_upto_filter rg m : ssorted m ->
  upto (r_limit rg) (from (r_start rg) m) = kfilter (in_range rg) m.
Proof.
  destruct rg as [start lim]; cbn [r_start r_limit].
  induction m as [|[k v] r IH]; intros Hs; [reflexivity|]. destruct Hs as [Hg Hs].
  cbn [from]. destruct (bytes_leb start k) eqn:L.
  - apply upto_filter; [simpl; auto|].
    intros e [<-|He]; [exact L|]. eapply leb_lt_trans; [exact L|apply Hg; exact He].
  - unfold kfilter; cbn [filter fst]. unfold in_range at 1; cbn [r_start r_limit]. rewrite L. cbn [andb].
    apply IH; exact Hs.
Qed.

Lemma kfilter_sorted R l : ssorted l -> ssorted (kfilter R l).
Proof. apply filter_sorted. Qed.

Lemma lookup_kfilter R l k : ssorted l -> lookup k (kfilter R l) = if R k then lookup k l else None.
Proof.
  intro Hs. unfold kfilter. rewrite lookup_filter by exact Hs. simpl.
  destruct (lookup k l); destruct (R k); reflexivity.
Qed.

Lemma kfilter_length R l : (length (kfilter R l) <= length l)%nat.
Proof. unfold kfilter. induction l as [|e r IH]; simpl; [lia|]. destruct (R (fst e)); simpl; lia. Qed.

Lemma live_length l : (length (live l) <= length l)%nat.
Proof. unfold live. induction l as [|e r IH]; simpl; [lia|]. destruct (negb (is_empty (snd e))); simpl; lia. Qed.

Lemma merge_length m : forall b, (length (merge m b) <= length m + length b)%nat.
Proof.
  induction m as [|[km vm] m' IHm]; intro b; [simpl; lia|].
  induction b as [|[kb vb] b' IHb]; [rewrite merge_nil_r; lia|].
  rewrite merge_cons. destruct (bytes_cmp km kb); cbn [length] in *.
  - specialize (IHm b'); lia.
  - specialize (IHm ((kb, vb) :: b')); cbn [length] in IHm; lia.
  - apply le_n_S in IHb. eapply Nat.le_trans; [exact IHb|]. lia.
Qed.

Lemma kfilter_apply_layer R m b : ssorted m -> ssorted b ->
  apply_layer (kfilter R m) (kfilter R b) = kfilter R (apply_layer m b).
Proof.
  intros Hm Hb. apply lookup_ext.
  - apply apply_layer_sorted; apply kfilter_sorted; auto.
  - apply kfilter_sorted, apply_layer_sorted; auto.
  - intro x. rewrite lookup_kfilter by (apply apply_layer_sorted; auto).
    rewrite !lookup_apply_layer by (auto using kfilter_sorted).
    rewrite !lookup_kfilter by auto. destruct (R x); reflexivity.
Qed.

Lemma apply_layer_live_base m b : ssorted m -> ssorted b -> apply_layer m (live b) = apply_layer m b.
Proof.
  intros Hm Hb. apply lookup_ext; try (apply apply_layer_sorted; auto using live_sorted).
  intro x. rewrite !lookup_apply_layer by (auto using live_sorted). rewrite lookup_live by exact Hb.
  destruct (lookup x m); simpl; [reflexivity|]. apply nz_idem.
Qed.

Lemma nonempty_keys_kfilter R l : (forall k, R k = true -> k <> []) -> nonempty_keys (kfilter R l).
Proof. intros H e He. apply filter_In in He. apply H; tauto. Qed.

Lemma nonempty_keys_sub (f : kv -> bool) l : nonempty_keys l -> nonempty_keys (filter f l).
Proof. intros H e He. apply filter_In in He. apply H; tauto. Qed.

Lemma nonempty_keys_merge m b : nonempty_keys m -> nonempty_keys b -> nonempty_keys (merge m b).
Proof.
  revert b; induction m as [|[km vm] m' IHm]; intros b Hm Hb; [exact Hb|].
  induction b as [|[kb vb] b' IHb]; [rewrite merge_nil_r; exact Hm|].
  rewrite merge_cons.
  assert (Hm' : nonempty_keys m') by (intros e He; apply Hm; right; exact He).
  assert (Hb' : nonempty_keys b') by (intros e He; apply Hb; right; exact He).
  destruct (bytes_cmp km kb); intros e [<-|He].
  - apply (Hm (km, vm)); left; reflexivity.
  - exact (IHm b' Hm' Hb' e He).
  - apply (Hm (km, vm)); left; reflexivity.
  - exact (IHm _ Hm' Hb e He).
  - apply (Hb (kb, vb)); left; reflexivity.
  - exact (IHb Hb' e He).
Qed.

(** ** OverlayDB.NewIterator and CacheDB.NewIterator *)

Section Stacks.
Variable s : state.
Hypothesis Hs : sorted_state s.

Let env := env_of s.

Lemma overlay_iter_first_ok p :
  nonempty_keys (kfilter (in_range (bytes_prefix p)) (st_overlay s)) ->
  nonempty_keys (kfilter (in_range (bytes_prefix p)) (st_store s)) ->
  first_ok env (length (st_overlay s) + length (st_store s) + 5)
    (kfilter (in_range (bytes_prefix p)) (abs_block s)) (overlay_new_iterator s p).
Proof.
  intros No Ns. destruct Hs as (Hc & Ho & Hst).
  set (R := in_range (bytes_prefix p)) in *.
  assert (F : first_ok env (1 + length (kfilter R (st_overlay s)) + length (kfilter R (st_store s)) + 4)
                (live (merge (kfilter R (st_overlay s)) (kfilter R (st_store s)))) (overlay_new_iterator s p)).
  { unfold overlay_new_iterator. apply join_first_ok; auto using kfilter_sorted.
    - unfold new_mem_iter, R. rewrite <- (from_upto_filter (bytes_prefix p) (st_overlay s) Ho).
      apply (mem_first_ok env LOverlay (bytes_prefix p)). exact Ho.
    - unfold new_store_iter. apply store_first_ok. }
  assert (E : live (merge (kfilter R (st_overlay s)) (kfilter R (st_store s))) = kfilter R (abs_block s)).
  { change (apply_layer (kfilter R (st_overlay s)) (kfilter R (st_store s)) = kfilter R (abs_block s)).
    rewrite kfilter_apply_layer by auto. unfold abs_block. rewrite apply_layer_live_base by auto. reflexivity. }
  rewrite E in F. intros f Hf. destruct (F f) as (it' & E1 & T).
  - pose proof (kfilter_length R (st_overlay s)). pose proof (kfilter_length R (st_store s)). lia.
  - exists it'; split; [exact E1|]. eapply tracks_mono; [|exact T].
    pose proof (kfilter_length R (st_overlay s)). pose proof (kfilter_length R (st_store s)). lia.
Qed.

Lemma abs_block_length : (length (abs_block s) <= length (st_overlay s) + length (st_store s))%nat.
Proof.
  unfold abs_block, apply_layer.
  pose proof (live_length (merge (st_overlay s) (live (st_store s)))).
  pose proof (merge_length (st_overlay s) (live (st_store s))). pose proof (live_length (st_store s)). lia.
Qed.

Lemma abs_length : (length (abs s) <= state_size s)%nat.
Proof.
  unfold abs, apply_layer, state_size.
  pose proof (live_length (merge (st_cache s) (abs_block s))).
  pose proof (merge_length (st_cache s) (abs_block s)). pose proof abs_block_length. lia.
Qed.

Lemma cache_iter_first_ok p : p <> [] ->
  (forall k, in_range (bytes_prefix p) k = true -> k <> []) ->
  first_ok env (enough_fuel s) (kfilter (in_range (bytes_prefix p)) (abs s))
    (new_join_iter (new_mem_iter LCache (bytes_prefix p)) (overlay_new_iterator s p)).
Proof.
  intros Hp Hne. pose proof Hs as (Hc & Ho & Hst).
  set (R := in_range (bytes_prefix p)) in *.
  set (B := (length (st_overlay s) + length (st_store s) + 5)%nat).
  assert (F : first_ok env (B + length (kfilter R (st_cache s)) + length (kfilter R (abs_block s)) + 4)
                (live (merge (kfilter R (st_cache s)) (kfilter R (abs_block s))))
                (new_join_iter (new_mem_iter LCache (bytes_prefix p)) (overlay_new_iterator s p))).
  { apply join_first_ok; auto using kfilter_sorted, abs_block_sorted, nonempty_keys_kfilter.
    - unfold new_mem_iter, R. rewrite <- (from_upto_filter (bytes_prefix p) (st_cache s) Hc).
      eapply first_ok_mono; [|apply (mem_first_ok env LCache (bytes_prefix p)); exact Hc]. unfold B; lia.
    - apply overlay_iter_first_ok; apply nonempty_keys_kfilter; exact Hne. }
  assert (E : live (merge (kfilter R (st_cache s)) (kfilter R (abs_block s))) = kfilter R (abs s)).
  { change (apply_layer (kfilter R (st_cache s)) (kfilter R (abs_block s)) = kfilter R (abs s)).
    rewrite kfilter_apply_layer by (auto using abs_block_sorted). reflexivity. }
  rewrite E in F. intros f Hf. destruct (F f) as (it' & E1 & T).
  - pose proof (kfilter_length R (st_cache s)). pose proof (kfilter_length R (abs_block s)).
    pose proof abs_block_length. unfold enough_fuel, state_size, B in *. lia.
  - exists it'; split; [exact E1|]. eapply tracks_mono; [|exact T].
    pose proof (kfilter_length R (st_cache s)). pose proof (kfilter_length R (abs_block s)).
    pose proof abs_block_length. unfold enough_fuel, state_size, B in *. lia.
Qed.

End Stacks.

(** ** Key predicates carried by all operations *)

Definition keys_all (P : bytes -> Prop) (l : list kv) : Prop := forall e, In e l -> P (fst e).

Lemma mem_put_In k v m e : In e (mem_put k v m) -> fst e = k \/ In e m.
Proof.
  induction m as [|[k' v'] r IH]; simpl.
  - intros [<-|[]]; left; reflexivity.
  - destruct (bytes_cmp k k') eqn:C; simpl.
    + intros [<-|H]; [left; simpl; symmetry; apply cmp_eq; exact C | right; right; exact H].
    + intros [<-|[<-|H]]; [left; reflexivity | right; left; reflexivity | right; right; exact H].
    + intros [<-|H]; [right; left; reflexivity|]. destruct (IH H); [left; assumption | right; right; assumption].
Qed.

Lemma mem_put_keys (P : bytes -> Prop) k v m : P k -> keys_all P m -> keys_all P (mem_put k v m).
Proof. intros Hk Hm e He. destruct (mem_put_In _ _ _ _ He) as [->|H]; auto. Qed.

Lemma store_delete_In k m e : In e (store_delete k m) -> In e m.
Proof.
  induction m as [|[k' v'] r IH]; simpl; [tauto|].
  destruct (bytes_cmp k k'); simpl; [auto | auto | intros [<-|H]; auto].
Qed.

Lemma store_delete_keys (P : bytes -> Prop) k m : keys_all P m -> keys_all P (store_delete k m).
Proof. intros Hm e He. apply Hm, (store_delete_In k); exact He. Qed.

Lemma replay_into_keys (P : bytes -> Prop) m : forall ov, keys_all P m -> keys_all P ov -> keys_all P (replay_into m ov).
Proof.
  unfold replay_into. induction m as [|[k v] r IH]; simpl; intros ov Hm Ho; [exact Ho|].
  apply IH; [intros e He; apply Hm; right; exact He|].
  assert (Pk : P k) by (apply (Hm (k, v)); left; reflexivity).
  destruct (is_empty v); apply mem_put_keys; auto.
Qed.

Lemma commit_to_keys (P : bytes -> Prop) m : forall st, keys_all P m -> keys_all P st -> keys_all P (commit_to m st).
Proof.
  unfold commit_to. induction m as [|[k v] r IH]; simpl; intros st Hm Ho; [exact Ho|].
  apply IH; [intros e He; apply Hm; right; exact He|].
  assert (Pk : P k) by (apply (Hm (k, v)); left; reflexivity).
  destruct (is_empty v); [apply store_delete_keys | apply mem_put_keys]; auto.
Qed.

Lemma merge_In m : forall b e, In e (merge m b) -> In e m \/ In e b.
Proof.
  induction m as [|[km vm] m' IHm]; intros b e; [right; assumption|].
  induction b as [|[kb vb] b' IHb]; [rewrite merge_nil_r; left; assumption|].
  rewrite merge_cons. destruct (bytes_cmp km kb); intros [<-|H].
  - left; left; reflexivity.
  - destruct (IHm _ _ H); [left; right; assumption | right; right; assumption].
  - left; left; reflexivity.
  - destruct (IHm _ _ H); [left; right; assumption | right; assumption].
  - right; left; reflexivity.
  - destruct (IHb H); [left; assumption | right; right; assumption].
Qed.

Lemma apply_layer_keys (P : bytes -> Prop) m b : keys_all P m -> keys_all P b -> keys_all P (apply_layer m b).
Proof.
  intros Hm Hb e He. unfold apply_layer, live in He. apply filter_In in He. destruct He as [He _].
  destruct (merge_In _ _ _ He); auto.
Qed.

Lemma filter_keys (P : bytes -> Prop) (f : kv -> bool) l : keys_all P l -> keys_all P (filter f l).
Proof. intros H e He. apply filter_In in He. apply H; tauto. Qed.

Lemma abs_block_keys (P : bytes -> Prop) s : keys_all P (st_overlay s) -> keys_all P (st_store s) -> keys_all P (abs_block s).
Proof. intros Ho Hs. apply apply_layer_keys; [exact Ho|apply filter_keys; exact Hs]. Qed.

Lemma abs_keys (P : bytes -> Prop) s : keys_all P (st_cache s) -> keys_all P (st_overlay s) -> keys_all P (st_store s) ->
  keys_all P (abs s).
Proof. intros Hc Ho Hs. apply apply_layer_keys; [exact Hc|apply abs_block_keys; auto]. Qed.

(** ** iter_refines *)

Lemma in_range_nonempty p k : p <> [] -> in_range (bytes_prefix p) k = true -> k <> [].
Proof.
  intros Hp H E; subst k. unfold in_range in H; simpl in H. destruct p; [congruence|]. discriminate.
Qed.

Theorem overlay_iter_refines s p :
  sorted_state s -> keys_wf (st_overlay s) -> keys_wf (st_store s) ->
  p <> [] \/ (nonempty_keys (st_overlay s) /\ nonempty_keys (st_store s)) ->
  overlay_iterate s p = (with_prefix p (abs_block s), true).
Proof.
  intros Hs Wo Wst Hne. unfold overlay_iterate.
  rewrite <- (filter_range_prefix p (abs_block s)) by (apply (abs_block_keys (fun k => wf_bytes k = true)); auto).
  apply (iterate_first_ok (env_of s) (length (st_overlay s) + length (st_store s) + 5)).
  - apply overlay_iter_first_ok; [exact Hs| |].
    + destruct Hne as [Hp|[H _]]; [apply nonempty_keys_kfilter; intro k; apply in_range_nonempty; exact Hp|].
      apply nonempty_keys_sub; exact H.
    + destruct Hne as [Hp|[_ H]]; [apply nonempty_keys_kfilter; intro k; apply in_range_nonempty; exact Hp|].
      apply nonempty_keys_sub; exact H.
  - unfold enough_fuel, state_size; lia.
  - pose proof (kfilter_length (in_range (bytes_prefix p)) (abs_block s)). pose proof (abs_block_length s).
    unfold kfilter in *. unfold enough_fuel, state_size; lia.
Qed.

Theorem cache_iter_refines pfx s p :
  sorted_state s -> keys_wf (st_cache s) -> keys_wf (st_overlay s) -> keys_wf (st_store s) ->
  cache_iterate pfx s p = (strip_keys (with_prefix (pkey pfx p) (abs s)), true).
Proof.
  intros Hs Wc Wo Wst. unfold cache_iterate.
  rewrite <- (filter_range_prefix (pkey pfx p) (abs s)) by (apply (abs_keys (fun k => wf_bytes k = true)); auto).
  unfold cache_new_iterator.
  rewrite (iterate_first_ok (env_of s) (enough_fuel s) (kfilter (in_range (bytes_prefix (pkey pfx p))) (abs s))).
  - reflexivity.
  - apply cache_iter_first_ok; [exact Hs|discriminate|]. intro k; apply in_range_nonempty; discriminate.
  - lia.
  - pose proof (kfilter_length (in_range (bytes_prefix (pkey pfx p))) (abs s)). pose proof (abs_length s).
    unfold enough_fuel; lia.
Qed.

(** The listing an iterator returns is strictly ascending and contains exactly the live entries:
    [abs] is key-sorted, has no empty value, and [kv_lookup] on it is what Get returns. *)
Lemma with_prefix_sorted p l : ssorted l -> ssorted (with_prefix p l).
Proof. apply filter_sorted. Qed.

(** * F. Histories *)

Definition good (s : state) : Prop :=
  sorted_state s /\
  keys_all (fun k => wf_bytes k = true /\ k <> []) (st_cache s) /\
  keys_all (fun k => wf_bytes k = true /\ k <> []) (st_overlay s) /\
  keys_all (fun k => wf_bytes k = true /\ k <> []) (st_store s).

Lemma keys_okb_all l : keys_okb l = true <-> keys_all (fun k => wf_bytes k = true /\ k <> []) l.
Proof.
  unfold keys_okb, keys_all. rewrite forallb_forall. split; intros H e He; specialize (H e He).
  - unfold key_ok in H. apply andb_prop in H. destruct H as [H1 H2]. split; [exact H1|].
    destruct (fst e); [discriminate|congruence].
  - destruct H as [H1 H2]. unfold key_ok. rewrite H1. destruct (fst e); [congruence|reflexivity].
Qed.

Lemma good_state_good s : good_state s = true <-> good s.
Proof.
  unfold good_state, good. rewrite !andb_true_iff, wf_state_sorted, !keys_okb_all. tauto.
Qed.

Lemma keys_all_weaken (P Q : bytes -> Prop) l : (forall k, P k -> Q k) -> keys_all P l -> keys_all Q l.
Proof. intros H Hl e He; apply H, Hl, He. Qed.

Lemma good_wf s : good s ->
  keys_wf (st_cache s) /\ keys_wf (st_overlay s) /\ keys_wf (st_store s) /\
  nonempty_keys (st_overlay s) /\ nonempty_keys (st_store s).
Proof.
  intros (_ & Hc & Ho & Hs). repeat split.
  - exact (keys_all_weaken _ _ _ (fun k H => proj1 H) Hc).
  - exact (keys_all_weaken _ _ _ (fun k H => proj1 H) Ho).
  - exact (keys_all_weaken _ _ _ (fun k H => proj1 H) Hs).
  - exact (keys_all_weaken _ _ _ (fun k H => proj2 H) Ho).
  - exact (keys_all_weaken _ _ _ (fun k H => proj2 H) Hs).
Qed.

Lemma pkey_ok pfx k : byte_ok pfx && wf_bytes k = true -> wf_bytes (pkey pfx k) = true /\ pkey pfx k <> [].
Proof. intro H. split; [exact H|discriminate]. Qed.

Lemma impl_step_good pfx s o : good s -> hop_ok pfx o = true -> good (fst (impl_step pfx s o)).
Proof.
  intros Hg Hop. pose proof Hg as (Hs & Kc & Ko & Kst).
  destruct o as [k v|k|k|p| | |k|p| ]; simpl in *.
  - split; [apply cache_put_sorted; exact Hs|]. simpl.
    split; [apply mem_put_keys; [apply pkey_ok; exact Hop|exact Kc] | split; assumption].
  - split; [apply cache_delete_sorted; exact Hs|]. simpl.
    split; [apply mem_put_keys; [apply pkey_ok; exact Hop|exact Kc] | split; assumption].
  - exact Hg.
  - destruct (cache_iterate pfx s p); exact Hg.
  - split; [apply cache_commit_sorted; exact Hs|]. simpl. split; [intros e []|]. split; [|exact Kst].
    apply replay_into_keys; assumption.
  - split; [apply cache_reset_sorted; exact Hs|]. simpl. split; [intros e []|]. split; assumption.
  - exact Hg.
  - destruct (overlay_iterate s p); exact Hg.
  - split; [apply overlay_commit_sorted; exact Hs|]. simpl. split; [exact Kc|]. split; [exact Ko|].
    apply commit_to_keys; assumption.
Qed.

Lemma impl_step_refines pfx s o : good s -> hop_ok pfx o = true ->
  spec_step pfx (abs_spec s) o = (abs_spec (fst (impl_step pfx s o)), snd (impl_step pfx s o)).
Proof.
  intros Hg Hop. pose proof (good_wf s Hg) as (Wc & Wo & Wst & No & Nst). destruct Hg as (Hs & _).
  destruct o as [k v|k|k|p| | |k|p| ]; simpl.
  - destruct (cache_put_refines pfx k v s Hs) as [E1 E2]. unfold abs_spec. rewrite E1, E2. reflexivity.
  - destruct (cache_delete_refines pfx k s Hs) as [E1 E2]. unfold abs_spec. rewrite E1, E2. reflexivity.
  - rewrite (cache_get_refines pfx s k Hs). reflexivity.
  - rewrite (cache_iter_refines pfx s p Hs Wc Wo Wst). reflexivity.
  - destruct (commit_cache_abs s Hs) as (_ & _ & _ & E1 & E2). unfold abs_spec. rewrite E1, E2. reflexivity.
  - destruct (reset_abs s) as (_ & E1 & E2). unfold abs_spec. rewrite E1, E2. reflexivity.
  - rewrite (overlay_get_refines s k Hs). reflexivity.
  - rewrite (overlay_iter_refines s p Hs Wo Wst (or_intror (conj No Nst))). reflexivity.
  - destruct (overlay_commit_abs s Hs) as (E0 & E1 & E2). unfold abs_spec. rewrite E0, E1, E2. reflexivity.
Qed.

Theorem history_refines pfx : forall ops s, good s -> forallb (hop_ok pfx) ops = true ->
  spec_run pfx (abs_spec s) ops = (abs_spec (fst (impl_run pfx s ops)), snd (impl_run pfx s ops)) /\
  good (fst (impl_run pfx s ops)).
Proof.
  induction ops as [|o r IH]; intros s Hg Hops; simpl.
  - split; [reflexivity|exact Hg].
  - simpl in Hops. apply andb_prop in Hops. destruct Hops as [Ho Hr].
    rewrite (impl_step_refines pfx s o Hg Ho).
    pose proof (impl_step_good pfx s o Hg Ho) as Hg1.
    destruct (impl_step pfx s o) as [s1 o1]. simpl in *.
    destruct (IH s1 Hg1 Hr) as [E Hg2]. rewrite E.
    destruct (impl_run pfx s1 r) as [s2 o2]. simpl in *. split; [reflexivity|exact Hg2].
Qed.

(** * Read your writes, and nothing else moves (corollaries of the refinement) *)
Lemma cache_get_after_put pfx s k v k' : sorted_state s ->
  cache_get pfx (cache_put pfx k v s) k' = if key_eqb k' k then v else cache_get pfx s k'.
Proof.
  intro H. rewrite (cache_get_refines pfx _ k' (cache_put_sorted pfx k v s H)).
  rewrite (cache_get_refines pfx s k' H).
  destruct (cache_put_refines pfx k v s H) as [E _]. rewrite E.
  rewrite !kv_lookup_lookup, (lookup_spec_put _ _ _ _ (abs_sorted s H)).
  assert (K : key_eqb (pkey pfx k') (pkey pfx k) = key_eqb k' k).
  { destruct (key_eqb k' k) eqn:E1.
    - apply key_eqb_eq in E1. subst k'. apply key_eqb_refl.
    - destruct (key_eqb (pkey pfx k') (pkey pfx k)) eqn:E2; [|reflexivity].
      apply key_eqb_eq in E2. unfold pkey in E2. injection E2 as E2. subst k'.
      rewrite key_eqb_refl in E1. discriminate. }
  rewrite K. destruct (key_eqb k' k); [|reflexivity].
  unfold nz. destruct v; reflexivity.
Qed.

Lemma cache_get_after_delete pfx s k k' : sorted_state s ->
  cache_get pfx (cache_delete pfx k s) k' = if key_eqb k' k then [] else cache_get pfx s k'.
Proof. intro H. exact (cache_get_after_put pfx s k [] k' H). Qed.
