(** C10/C11, fee-split hypothesis as an invariant, part 3: the first pass of commitDpos (peers
    that quit or were black-listed leave the pool, their records are unfrozen). *)
From Coq Require Import List NArith Bool Lia.
Import ListNotations.
From Ont Require Import Lib.AList Gen.GovConsts Model.Gov Model.GovSpec Proofs.GovInv Proofs.GovAcct
  Proofs.GovAcct2 Proofs.GovAcct3 Proofs.GovAcct4 Proofs.GovAcct5 Proofs.GovPrev.
Local Open Scope N_scope.

(** [sel] only selects records of peer [k] *)
Definition only_peer (k : N) (sel : N * N -> bool) : Prop := forall key, sel key = true -> fst key = k.

Lemma only_selP : forall k o, only_peer k (selP k o).
Proof. intros k o key H. unfold selP in H. apply andb_true_iff in H. destruct H as [H _]. now apply N.eqb_eq in H. Qed.
Lemma only_selK : forall k, only_peer k (selK k).
Proof. intros k key H. now apply N.eqb_eq in H. Qed.

(** the records of the other peers are not touched by a per-peer map / a single-record update *)
Lemma psum_amap_other : forall k k0 sel proj f infos, only_peer k sel -> k <> k0 ->
  psum sel proj (amap (on_peer k0 f) infos) = psum sel proj infos.
Proof.
  intros k k0 sel proj f infos Ho Hne. apply psum_amap_eq. intros key i _ Hs. unfold on_peer.
  destruct (N.eqb_spec (fst key) k0) as [E|E]; [|reflexivity]. exfalso. apply Hne. rewrite <- (Ho key Hs). exact E.
Qed.

Lemma psum_iset_other : forall k k0 a sel proj i' infos, only_peer k sel -> k <> k0 -> proj zero_info = 0 ->
  psum sel proj (iset k0 a i' infos) = psum sel proj infos.
Proof.
  intros k k0 a sel proj i' infos Ho Hne Hz. apply psum_iset_unsel; auto.
  destruct (sel (k0, a)) eqn:E; [|reflexivity]. exfalso. apply Hne. symmetry. exact (Ho _ E).
Qed.

(** what the pass keeps, relative to the state [s0] at its start *)
Record pass_inv (s0 s : state) : Prop := mkPassInv {
  pi_pool : forall k p, pget k (s_pool s0) = Some p -> is_active (p_status p) = true -> pget k (s_pool s) = Some p;
  pi_infos : forall k p, pget k (s_pool s0) = Some p -> is_active (p_status p) = true ->
             forall sel proj, only_peer k sel -> proj zero_info = 0 ->
             psum sel proj (s_infos s) = psum sel proj (s_infos s0);
  pi_B1 : Bk1 (s_pool s) (s_infos s);
  pi_B0 : Bk0 (s_pool s) (s_infos s)
}.

Lemma not_active_consts : is_active QuitingStatus = false /\ is_active BlackStatus = false /\
  is_active QuitConsensusStatus = false /\ is_active RegisterCandidateStatus = false.
Proof. vm_compute. auto. Qed.

(** a peer [k0] that is not Candidate/Consensus leaves the pool; its records get
    WithdrawConsensusPos = 0; nobody else's records change *)
Lemma pass_remove : forall s0 s k0 p0 infos', pass_inv s0 s -> NoDup (keys (s_pool s)) ->
  pget k0 (s_pool s0) = Some p0 -> is_active (p_status p0) = false ->
  (forall k sel proj, only_peer k sel -> k <> k0 -> proj zero_info = 0 -> psum sel proj infos' = psum sel proj (s_infos s)) ->
  WC k0 infos' = 0 ->
  forall s', s_pool s' = adel N.eqb k0 (s_pool s) -> s_infos s' = infos' -> pass_inv s0 s'.
Proof.
  intros s0 s k0 p0 infos' [Hp Hi H1 H0] Hnd Hg0 Hna Hoth Hwc s' Epool Einf.
  assert (Hk : forall k p, pget k (s_pool s0) = Some p -> is_active (p_status p) = true -> k <> k0).
  { intros k p Hg Ha ->. rewrite Hg0 in Hg. inversion Hg; subst. congruence. }
  constructor; rewrite ?Epool, ?Einf; unfold Bk1, Bk0.
  - intros k p Hg Ha. rewrite pget_adel_other by (eapply Hk; eauto). auto.
  - intros k p Hg Ha sel proj Ho Hz. rewrite (Hoth k) by (eauto using Hk). eapply Hi; eauto.
  - intros k pc Hg Hs. destruct (N.eq_dec k k0) as [->|Hne].
    + rewrite pget_adel_same in Hg by auto. discriminate.
    + rewrite pget_adel_other in Hg by auto. unfold SWC. rewrite (Hoth k) by (auto using only_selP).
      now apply H1.
  - intros k Hp0. destruct (N.eq_dec k k0) as [->|Hne]; [exact Hwc|].
    unfold WC. rewrite (Hoth k) by (auto using only_selK). apply H0.
    destruct Hp0 as [Hn|(pc & Hg & Hs)]; rewrite pget_adel_other in * by auto; [now left | right; eauto].
Qed.

Lemma normal_quit_pass : forall s0 s k0 p0, pass_inv s0 s -> NoDup (keys (s_pool s)) ->
  pget k0 (s_pool s0) = Some p0 -> is_active (p_status p0) = false ->
  pass_inv s0 (set_pool (adel N.eqb k0 (s_pool s)) (normal_quit s k0 p0)).
Proof.
  intros s0 s k0 p0 Hpi Hnd Hg0 Hna. unfold normal_quit.
  match goal with |- pass_inv _ (set_pool _ (set_infos ?inf _)) =>
    apply (pass_remove s0 s k0 p0 inf); auto; simp_state; try reflexivity end.
  - intros k sel proj Ho Hne Hz. rewrite (psum_iset_other k k0) by auto. now apply (psum_amap_other k k0).
  - unfold WC. rewrite psum_iset_same; [|reflexivity|reflexivity].
    apply psum_amap_zero. intros key i Hs. unfold on_peer. apply N.eqb_eq in Hs. rewrite Hs, N.eqb_refl. reflexivity.
Qed.

Lemma black_quit_pass : forall s0 s k0 p0 s1, pass_inv s0 s -> NoDup (keys (s_pool s)) ->
  pget k0 (s_pool s0) = Some p0 -> is_active (p_status p0) = false ->
  black_quit s k0 p0 = Ok s1 ->
  pass_inv s0 (set_pool (adel N.eqb k0 (s_pool s1)) s1).
Proof.
  intros s0 s k0 p0 s1 Hpi Hnd Hg0 Hna H. unfold black_quit in H. msteps H.
  apply (pass_remove s0 s k0 p0 (amap (on_peer k0 (black_info (g_penalty (s_par s)))) (s_infos s))); auto; simp_state; try reflexivity.
  - intros k sel proj Ho Hne Hz. now apply (psum_amap_other k k0).
  - unfold WC. apply psum_amap_zero. intros key i Hs. unfold on_peer. apply N.eqb_eq in Hs. rewrite Hs, N.eqb_refl. reflexivity.
Qed.

Lemma quitcons_pass : forall s0 s k0 p0, pass_inv s0 s ->
  pget k0 (s_pool s0) = Some p0 -> is_active (p_status p0) = false -> pget k0 (s_pool s) = Some p0 ->
  p_status p0 = QuitConsensusStatus ->
  pass_inv s0 (set_pool (pset k0 (with_status p0 QuitingStatus) (s_pool s)) s).
Proof.
  intros s0 s k0 p0 [Hp Hi H1 H0] Hg0 Hna Hgc Hst.
  assert (Hk : forall k p, pget k (s_pool s0) = Some p -> is_active (p_status p) = true -> k <> k0).
  { intros k p Hg Ha ->. rewrite Hg0 in Hg. inversion Hg; subst. congruence. }
  destruct status_consts as (C1 & C2 & C3 & C4 & C5). destruct consts_ne as (D1 & D2 & D3 & D4).
  constructor; simp_state; unfold Bk1, Bk0.
  - intros k p Hg Ha. rewrite pget_pset_other by (eapply Hk; eauto). auto.
  - intros. eapply Hi; eauto.
  - intros k pc Hg Hs. destruct (N.eq_dec k k0) as [->|Hne].
    + rewrite pget_pset_same in Hg. inversion Hg; subst pc. cbn in Hs. congruence.
    + rewrite pget_pset_other in Hg by auto. now apply H1.
  - intros k Hp0. apply H0. destruct (N.eq_dec k k0) as [->|Hne].
    + destruct Hp0 as [Hn|(pc & Hg & Hs)]; rewrite pget_pset_same in *; [discriminate|]. inversion Hg; subst pc. cbn in Hs. congruence.
    + destruct Hp0 as [Hn|(pc & Hg & Hs)]; rewrite pget_pset_other in * by auto; [now left | right; eauto].
Qed.

Lemma commit_pass_pinv : forall l s0 s s', inv2 s -> pass_inv s0 s -> NoDup (keys l) ->
  (forall k p, In (k, p) l -> pget k (s_pool s) = Some p /\ pget k (s_pool s0) = Some p) ->
  commit_pass l s = Ok s' -> pass_inv s0 s'.
Proof.
  induction l as [|[k p] r IH]; cbn [commit_pass]; intros s0 s s' H2 Hpi Hn Hin H.
  - inversion H; subst; auto.
  - destruct (Hin k p (or_introl eq_refl)) as [Hg Hg0].
    unfold keys in Hn. cbn [map fst] in Hn. inversion Hn as [|? ? Hnot Hnr]; subst.
    assert (Hother : forall k' p', In (k', p') r -> k' <> k).
    { intros k' p' Hi' ->. apply Hnot. change k with (fst (k, p')). now apply in_map. }
    destruct not_active_consts as (N1 & N2 & N3 & N4).
    destruct (p_status p =? QuitingStatus) eqn:E1.
    { apply N.eqb_eq in E1. eapply IH; [| | exact Hnr | | exact H].
      - now apply normal_quit_inv2.
      - apply normal_quit_pass; auto; [apply H2 | rewrite E1; exact N1].
      - intros k' p' Hi'. simp_state. unfold normal_quit. simp_state.
        rewrite pget_adel_other by (eapply Hother; eauto). apply Hin. now right. }
    destruct (p_status p =? BlackStatus) eqn:E2.
    { apply N.eqb_eq in E2. mstep H. eapply IH; [| | exact Hnr | | exact H].
      - eapply black_quit_inv2; eauto.
      - eapply black_quit_pass; eauto; [apply H2 | rewrite E2; exact N2].
      - intros k' p' Hi'. simp_state.
        match goal with H : black_quit _ _ _ = Ok _ |- _ => unfold black_quit in H; msteps H end. simp_state.
        rewrite pget_adel_other by (eapply Hother; eauto). apply Hin. now right. }
    destruct (p_status p =? QuitConsensusStatus) eqn:E3.
    { apply N.eqb_eq in E3. eapply IH; [| | exact Hnr | | exact H].
      - match goal with |- inv2 (set_pool (pset _ ?p' _) _) => eapply (inv2_pset_same s _ k p p') end;
          eauto; try reflexivity. cbn [with_status p_status]. not_register.
      - apply quitcons_pass; auto. rewrite E3; exact N3.
      - intros k' p' Hi'. simp_state.
        rewrite pget_pset_other by (eapply Hother; eauto). apply Hin. now right. }
    eapply IH; [exact H2 | exact Hpi | exact Hnr | | exact H]. intros k' p' Hi'. apply Hin. now right.
Qed.
