(** C44, part 5: transactions, blocks and chains. The per-address invariants of Proofs/C44Ops.v
    are carried through Reset / Commit / CommitTo for ALL histories; the statements are then
    re-expressed with the observers of the code (IsContractDestroyed, GetContract, Get,
    NewIterator). *)
From Coq Require Import List Bool Arith NArith Lia.
Import ListNotations.
From Ont Require Import Lib.Bytes Model.KV Proofs.KV Proofs.KVLive Gen.ContractConsts Model.ContractStore
  Proofs.C44Loop Proofs.C44Effect Proofs.C44Spec Proofs.C44Ops.
Local Open Scope N_scope.
Open Scope bool_scope.

(** what the NEXT transaction will see under the full key [x] (executeBlock resets the cache) *)
Definition bglk (s : state) (x : bytes) : option bytes := lookup x (abs_block s).

Lemma glk_reset s x : glk (cache_reset s) x = bglk s x.
Proof. unfold glk, bglk. rewrite (proj2 (proj2 (reset_abs s))). reflexivity. Qed.

Lemma bglk_reset s x : bglk (cache_reset s) x = bglk s x.
Proof. reflexivity. Qed.

Lemma bglk_commit s x : sorted_state s -> bglk (cache_commit s) x = glk s x.
Proof. intro H. unfold bglk, glk. destruct (commit_cache_abs s H) as (_ & _ & _ & E & _). rewrite E. reflexivity. Qed.

Lemma overlay_reset_good s : good s -> good (overlay_reset s).
Proof.
  intros (Hs & Kc & Ko & Kst). split; [|split; [exact Kc|split; [|exact Kst]]].
  - destruct Hs as (A & B & C). repeat split; simpl; auto.
  - intros e He. destruct He.
Qed.

Lemma bglk_block_end s x : sorted_state s -> bglk (overlay_reset (overlay_commit s)) x = bglk s x.
Proof.
  intro H. unfold bglk. rewrite overlay_reset_abs. destruct (overlay_commit_abs s H) as (E & _ & _).
  rewrite E. reflexivity.
Qed.

Lemma existsb_false_forallb {A} (f : A -> bool) l : existsb f l = false <-> forallb (fun x => negb (f x)) l = true.
Proof.
  induction l as [|x l IH]; simpl; [tauto|]. rewrite orb_false_iff, andb_true_iff, negb_true_iff, IH. tauto.
Qed.

(** * carrying an invariant of the transaction view through every history *)
Section Lift.
Variable strict : bool.
Variable P : (bytes -> option bytes) -> Prop.
Variable okop : cop -> bool.
Hypothesis P_ext : forall f g, (forall x, f x = g x) -> P f -> P g.
Hypothesis Hexec : forall track h s o s', good s -> cop_wf o = true -> okop o = true ->
  P (glk s) -> exec strict track h s o = Ok s' -> P (glk s').

Definition tx_okop (t : tx) : bool :=
  match t with TDeploy a code => okop (CCreate a code) | TInvoke ops => forallb okop ops end.

Lemma exec_all_inv track h : forall ops s s', good s -> forallb cop_wf ops = true -> forallb okop ops = true ->
  P (glk s) -> exec_all strict track h s ops = Ok s' -> good s' /\ P (glk s').
Proof.
  induction ops as [|o r IH]; intros s s' G W K Hp E; simpl in *.
  - inversion E; subst. auto.
  - apply andb_prop in W. destruct W as [Wo Wr]. apply andb_prop in K. destruct K as [Ko Kr].
    destruct (exec strict track h s o) as [s1|e] eqn:E1; [|discriminate].
    destruct (exec_good_any strict track h s o s1 G Wo E1) as [G1 _].
    apply (IH s1 s' G1 Wr Kr (Hexec track h s o s1 G Wo Ko Hp E1) E).
Qed.

Lemma run_tx_inv track h s t : good s -> tx_wf t = true -> tx_okop t = true -> P (bglk s) ->
  good (fst (run_tx strict track h s t)) /\ P (bglk (fst (run_tx strict track h s t))).
Proof.
  intros G W K Hp. pose proof (good_reset s G) as G0.
  assert (P0 : P (glk (cache_reset s))) by (eapply P_ext; [|exact Hp]; intro x; symmetry; apply glk_reset).
  assert (Pb0 : P (bglk (cache_reset s))) by exact Hp.
  unfold run_tx. destruct t as [a code|ops]; cbn [tx_wf tx_okop] in *.
  - pose proof (Hexec track h (cache_reset s) (CCreate a code)) as HC. cbn [exec cop_wf] in HC.
    destruct (get_contract (cache_reset s) a) as [[c|] [|]]; cbn [fst].
    + split; [exact G0|exact Pb0].
    + split; [apply good_commit; exact G0|]. eapply P_ext; [|exact P0]. intro x. symmetry. apply bglk_commit, good_sorted, G0.
    + split; [exact G0|exact Pb0].
    + assert (G1 : good (put_contract a code (cache_reset s))).
      { apply andb_prop in W. apply good_put; [exact G0|reflexivity|apply is_addr_wf, W]. }
      split; [apply good_commit; exact G1|].
      eapply P_ext; [intro x; symmetry; apply bglk_commit, good_sorted, G1|].
      apply (HC _ G0 W K P0 eq_refl).
  - destruct (exec_all strict track h (cache_reset s) ops) as [s1|[|]] eqn:E; cbn [fst]; try (split; [exact G0|exact Pb0]).
    destruct (exec_all_inv track h ops _ s1 G0 W K P0 E) as [G1 P1].
    split; [apply good_commit; exact G1|]. eapply P_ext; [|exact P1]. intro x. symmetry. apply bglk_commit, good_sorted, G1.
Qed.

Lemma run_txs_inv track h : forall ts s, good s -> forallb tx_wf ts = true -> forallb tx_okop ts = true -> P (bglk s) ->
  good (fst (run_txs strict track h s ts)) /\ P (bglk (fst (run_txs strict track h s ts))).
Proof.
  induction ts as [|t r IH]; intros s G W K Hp; simpl in *; [auto|].
  apply andb_prop in W. destruct W as [Wt Wr]. apply andb_prop in K. destruct K as [Kt Kr].
  destruct (run_tx_inv track h s t G Wt Kt Hp) as [G1 P1].
  destruct (run_tx strict track h s t) as [s1 o]. cbn [fst] in *.
  specialize (IH s1 G1 Wr Kr P1). destruct (run_txs strict track h s1 r) as [s2 os]. exact IH.
Qed.

Definition block_okop (b : block) : bool := forallb tx_okop (b_txs b).

Lemma run_block_inv track s b : good s -> block_wf b = true -> block_okop b = true -> P (bglk s) ->
  good (fst (run_block strict track s b)) /\ P (bglk (fst (run_block strict track s b))).
Proof.
  intros G W K Hp. unfold run_block.
  destruct (run_txs_inv track (b_height b) (b_txs b) s G W K Hp) as [G1 P1].
  destruct (run_txs strict track (b_height b) s (b_txs b)) as [s1 os]. cbn [fst] in *.
  split.
  - apply overlay_reset_good, good_overlay_commit, good_reset, G1.
  - eapply P_ext; [|exact P1]. intro x. symmetry.
    rewrite bglk_block_end by (apply good_sorted, good_reset, G1). reflexivity.
Qed.

Theorem run_chain_inv track : forall bs s, good s -> forallb block_wf bs = true -> forallb block_okop bs = true ->
  P (bglk s) -> good (fst (run_chain strict track s bs)) /\ P (bglk (fst (run_chain strict track s bs))).
Proof.
  induction bs as [|b r IH]; intros s G W K Hp; simpl in *; [auto|].
  apply andb_prop in W. destruct W as [Wb Wr]. apply andb_prop in K. destruct K as [Kb Kr].
  destruct (run_block_inv track s b G Wb Kb Hp) as [G1 P1].
  destruct (run_block strict track s b) as [s1 o]. cbn [fst] in *.
  specialize (IH s1 G1 Wr Kr P1). destruct (run_chain strict track s1 r) as [s2 os]. exact IH.
Qed.
End Lift.

(** * the destroyed marker, for all histories *)
Section Dead.
Variable a : bytes.
Hypothesis Aa : is_addr a = true.

Definition keeps (o : cop) : bool := negb (cop_unsets a o).

Lemma tx_keeps t : tx_unsets a t = false -> tx_okop keeps t = true.
Proof.
  destruct t as [b code|ops]; cbn [tx_unsets tx_okop]; [reflexivity|]. apply existsb_false_forallb.
Qed.

Lemma block_keeps b : block_unsets a b = false -> block_okop keeps b = true.
Proof.
  unfold block_unsets, block_okop. intro H. apply existsb_false_forallb in H.
  rewrite forallb_forall in *. intros t Ht. apply tx_keeps. apply negb_true_iff. apply H; exact Ht.
Qed.

Lemma exec_dead' track h s o s' : good s -> cop_wf o = true -> keeps o = true ->
  deadf a (glk s) -> exec true track h s o = Ok s' -> deadf a (glk s').
Proof. intros G W K. apply (exec_dead a Aa track h s o s' G W). apply negb_true_iff. exact K. Qed.

Theorem chain_dead track bs s : good s -> forallb block_wf bs = true -> existsb (block_unsets a) bs = false ->
  deadf a (bglk s) ->
  good (fst (run_chain true track s bs)) /\ deadf a (bglk (fst (run_chain true track s bs))).
Proof.
  intros G W U D. apply (run_chain_inv true (deadf a) keeps (deadf_ext a) exec_dead'); auto.
  apply existsb_false_forallb in U. rewrite forallb_forall in *. intros b Hb.
  apply block_keeps. apply negb_true_iff. apply U; exact Hb.
Qed.

(** transactions that try to deploy at [a] or write under [a] do not commit *)
Lemma exec_all_dead_touch track h : forall ops s, good s -> forallb cop_wf ops = true ->
  forallb keeps ops = true -> deadf a (glk s) -> existsb (cop_touches a) ops = true ->
  exists e, exec_all true track h s ops = Err e.
Proof.
  induction ops as [|o r IH]; intros s G W K D T; simpl in *; [discriminate|].
  apply andb_prop in W. destruct W as [Wo Wr]. apply andb_prop in K. destruct K as [Ko Kr].
  destruct (cop_touches a o) eqn:To.
  - rewrite (exec_dead_refuses a track h s o G D To). eexists; reflexivity.
  - simpl in T. destruct (exec true track h s o) as [s1|e] eqn:E1; [|eexists; reflexivity].
    destruct (exec_good track h s o s1 G Wo E1) as [G1 _].
    apply (IH s1 G1 Wr Kr (exec_dead' track h s o s1 G Wo Ko D E1) T).
Qed.

Lemma run_tx_dead_touch track h s t : good s -> tx_wf t = true -> tx_unsets a t = false ->
  deadf a (bglk s) -> tx_touches a t = true -> snd (run_tx true track h s t) <> Committed.
Proof.
  intros G W U D T. pose proof (good_reset s G) as G0.
  assert (D0 : deadf a (glk (cache_reset s))) by (eapply deadf_ext; [|exact D]; intro x; symmetry; apply glk_reset).
  unfold run_tx. destruct t as [b code|ops]; cbn [tx_wf tx_unsets tx_touches] in *.
  - apply bytes_eqb_eq in T. subst b.
    rewrite (dead_get_contract a (cache_reset s) (good_sorted _ G0) D0). cbn [snd]. discriminate.
  - apply existsb_false_forallb in U.
    destruct (exec_all_dead_touch track h ops _ G0 W U D0 T) as [e E]. rewrite E.
    destruct e; cbn [snd]; discriminate.
Qed.

Definition refused_when_touching (t : tx) (o : outcome) : Prop := tx_touches a t = true -> o <> Committed.

Lemma run_txs_dead_touch track h : forall ts s, good s -> forallb tx_wf ts = true ->
  existsb (tx_unsets a) ts = false -> deadf a (bglk s) ->
  Forall2 refused_when_touching ts (snd (run_txs true track h s ts)).
Proof.
  induction ts as [|t r IH]; intros s G W U D; simpl in *; [constructor|].
  apply andb_prop in W. destruct W as [Wt Wr]. apply orb_false_iff in U. destruct U as [Ut Ur].
  pose proof (run_tx_dead_touch track h s t G Wt Ut D) as R.
  destruct (run_tx_inv true (deadf a) keeps (deadf_ext a) exec_dead' track h s t G Wt (tx_keeps t Ut) D) as [G1 D1].
  destruct (run_tx true track h s t) as [s1 o]. cbn [fst snd] in *.
  specialize (IH s1 G1 Wr Ur D1). destruct (run_txs true track h s1 r) as [s2 os]. cbn [snd] in *.
  constructor; [exact R|exact IH].
Qed.

Theorem chain_dead_touch track : forall bs s, good s -> forallb block_wf bs = true ->
  existsb (block_unsets a) bs = false -> deadf a (bglk s) ->
  Forall2 (fun b os => Forall2 refused_when_touching (b_txs b) os) bs (snd (run_chain true track s bs)).
Proof.
  induction bs as [|b r IH]; intros s G W U D; simpl in *; [constructor|].
  apply andb_prop in W. destruct W as [Wb Wr]. apply orb_false_iff in U. destruct U as [Ub Ur].
  pose proof (run_txs_dead_touch track (b_height b) (b_txs b) s G Wb Ub D) as R.
  destruct (run_block_inv true (deadf a) keeps (deadf_ext a) exec_dead' track s b G Wb (block_keeps b Ub) D) as [G1 D1].
  unfold run_block in *. destruct (run_txs true track (b_height b) s (b_txs b)) as [s1 os]. cbn [fst snd] in *.
  specialize (IH _ G1 Wr Ur D1). destruct (run_chain true track _ r) as [s2 oss]. cbn [snd] in *.
  constructor; [exact R|exact IH].
Qed.

End Dead.

(** * no orphan storage, for all histories *)
Theorem chain_orph a track bs s : is_addr a = true -> good s -> forallb block_wf bs = true ->
  orphf a (bglk s) -> good (fst (run_chain true track s bs)) /\ orphf a (bglk (fst (run_chain true track s bs))).
Proof.
  intros Aa G W O.
  apply (run_chain_inv true (orphf a) (fun _ => true) (orphf_ext a)
           (fun track h s o s' G W _ => exec_orph a Aa track h s o s' G W)); auto.
  clear. induction bs as [|b r IH]; simpl; [reflexivity|]. rewrite IH, andb_true_r.
  unfold block_okop. induction (b_txs b) as [|t ts IHt]; simpl; [reflexivity|]. rewrite IHt, andb_true_r.
  destruct t as [x c|ops]; simpl; [reflexivity|]. induction ops; simpl; auto.
Qed.

(** * observers *)
Lemma storage_at_glk s a sfx : sorted_state s -> storage_at s a sfx = ov (glk s (SK a sfx)).
Proof. intro H. unfold storage_at. apply cache_get_ov; exact H. Qed.

Lemma contract_record_glk s a : sorted_state s -> contract_record s a = ov (glk s (CK a)).
Proof. intro H. unfold contract_record. apply cache_get_ov; exact H. Qed.

Lemma ov_nil_iff s x : ov (glk s x) = [] <-> glk s x = None.
Proof.
  destruct (glk s x) as [v|] eqn:E; simpl; [|tauto]. split; [|discriminate].
  intros ->. exfalso. eapply glk_nonempty; eauto.
Qed.

Lemma under_all a (f : bytes -> option bytes) :
  (forall x, has_prefix (SP a) x = true -> f x = None) <-> (forall sfx, f (SK a sfx) = None).
Proof.
  split; intros H.
  - intro sfx. apply H, SP_prefix_SK.
  - intros x Hx. rewrite (SP_prefix_inv a x Hx). apply H.
Qed.

Lemma dead_obs a s : sorted_state s ->
  deadf a (glk s) <-> is_destroyed s a = true /\ forall sfx, storage_at s a sfx = [].
Proof.
  intro Hs. unfold deadf. rewrite under_all, is_destroyed_glk by exact Hs. split; intros [A B]; split.
  - destruct (glk s (DK a)); [reflexivity|congruence].
  - intro sfx. rewrite storage_at_glk by exact Hs. apply ov_nil_iff, B.
  - destruct (glk s (DK a)); [discriminate|discriminate].
  - intro sfx. apply ov_nil_iff. rewrite <- storage_at_glk by exact Hs. apply B.
Qed.

Lemma orph_obs a s : sorted_state s ->
  orphf a (glk s) <-> (contract_record s a = [] -> forall sfx, storage_at s a sfx = []).
Proof.
  intro Hs. unfold orphf. rewrite under_all, contract_record_glk by exact Hs. rewrite ov_nil_iff.
  split; intros H C sfx.
  - rewrite storage_at_glk by exact Hs. apply ov_nil_iff, H, C.
  - apply ov_nil_iff. rewrite <- storage_at_glk by exact Hs. apply H, C.
Qed.

Lemma listing_empty a s : sorted_state s -> (forall x, has_prefix (SP a) x = true -> glk s x = None) -> listing a s = [].
Proof.
  intros Hs H. destruct (listing a s) as [|[k v] l] eqn:E; [reflexivity|]. exfalso.
  assert (I : In (k, v) (listing a s)) by (rewrite E; left; reflexivity).
  apply listing_In in I; [|exact Hs]. destruct I as [I1 I2]. rewrite (H k I2) in I1. discriminate.
Qed.

(** NewIterator over an address that owns nothing yields nothing *)
Lemma iterate_empty a s : good s -> (forall x, has_prefix (SP a) x = true -> glk s x = None) ->
  cache_iterate ST_STORAGE s a = ([], true).
Proof.
  intros G H. pose proof (good_sorted s G) as Hs. destruct (good_wf s G) as (Wc & Wo & Wst & _ & _).
  rewrite (cache_iter_refines ST_STORAGE s a Hs Wc Wo Wst). fold (SP a). fold (listing a s).
  rewrite (listing_empty a s Hs H). reflexivity.
Qed.

(** * the marker and the missing record, for all histories of the code AS IT IS ([strict] free) *)
Section Mark.
Variable strict : bool.
Variable a : bytes.
Hypothesis Aa : is_addr a = true.

Lemma exec_mark' track h s o s' : good s -> cop_wf o = true -> keeps a o = true ->
  markf a (glk s) -> exec strict track h s o = Ok s' -> markf a (glk s').
Proof. intros G W K. apply (exec_mark a strict track h s o s' G W). apply negb_true_iff. exact K. Qed.

Theorem chain_mark track bs s : good s -> forallb block_wf bs = true -> existsb (block_unsets a) bs = false ->
  markf a (bglk s) ->
  good (fst (run_chain strict track s bs)) /\ markf a (bglk (fst (run_chain strict track s bs))).
Proof.
  intros G W U D. apply (run_chain_inv strict (markf a) (keeps a) (markf_ext a) exec_mark'); auto.
  apply existsb_false_forallb in U. rewrite forallb_forall in *. intros b Hb.
  apply block_keeps. apply negb_true_iff. apply U; exact Hb.
Qed.

Lemma exec_all_mark_claim track h : forall ops s, good s -> forallb cop_wf ops = true ->
  forallb (keeps a) ops = true -> markf a (glk s) -> existsb (cop_claims a) ops = true ->
  exists e, exec_all strict track h s ops = Err e.
Proof.
  induction ops as [|o r IH]; intros s G W K D T; simpl in *; [discriminate|].
  apply andb_prop in W. destruct W as [Wo Wr]. apply andb_prop in K. destruct K as [Ko Kr].
  destruct (cop_claims a o) eqn:To.
  - rewrite (exec_mark_refuses a strict track h s o G D To). eexists; reflexivity.
  - simpl in T. destruct (exec strict track h s o) as [s1|e] eqn:E1; [|eexists; reflexivity].
    destruct (exec_good_any strict track h s o s1 G Wo E1) as [G1 _].
    apply (IH s1 G1 Wr Kr (exec_mark' track h s o s1 G Wo Ko D E1) T).
Qed.

Lemma run_tx_mark_claim track h s t : good s -> tx_wf t = true -> tx_unsets a t = false ->
  markf a (bglk s) -> tx_claims a t = true -> snd (run_tx strict track h s t) <> Committed.
Proof.
  intros G W U D T. pose proof (good_reset s G) as G0.
  assert (D0 : markf a (glk (cache_reset s))) by (eapply markf_ext; [|exact D]; intro x; symmetry; apply glk_reset).
  unfold run_tx. destruct t as [b code|ops]; cbn [tx_wf tx_unsets tx_claims] in *.
  - apply bytes_eqb_eq in T. subst b.
    rewrite (mark_get_contract a (cache_reset s) (good_sorted _ G0) D0). cbn [snd]. discriminate.
  - apply existsb_false_forallb in U.
    destruct (exec_all_mark_claim track h ops _ G0 W U D0 T) as [e E]. rewrite E.
    destruct e; cbn [snd]; discriminate.
Qed.

Definition refused_when_claiming (t : tx) (o : outcome) : Prop := tx_claims a t = true -> o <> Committed.

Lemma run_txs_mark_claim track h : forall ts s, good s -> forallb tx_wf ts = true ->
  existsb (tx_unsets a) ts = false -> markf a (bglk s) ->
  Forall2 refused_when_claiming ts (snd (run_txs strict track h s ts)).
Proof.
  induction ts as [|t r IH]; intros s G W U D; simpl in *; [constructor|].
  apply andb_prop in W. destruct W as [Wt Wr]. apply orb_false_iff in U. destruct U as [Ut Ur].
  pose proof (run_tx_mark_claim track h s t G Wt Ut D) as R.
  destruct (run_tx_inv strict (markf a) (keeps a) (markf_ext a) exec_mark' track h s t G Wt (tx_keeps a t Ut) D) as [G1 D1].
  destruct (run_tx strict track h s t) as [s1 o]. cbn [fst snd] in *.
  specialize (IH s1 G1 Wr Ur D1). destruct (run_txs strict track h s1 r) as [s2 os]. cbn [snd] in *.
  constructor; [exact R|exact IH].
Qed.

Theorem chain_mark_claim track : forall bs s, good s -> forallb block_wf bs = true ->
  existsb (block_unsets a) bs = false -> markf a (bglk s) ->
  Forall2 (fun b os => Forall2 refused_when_claiming (b_txs b) os) bs (snd (run_chain strict track s bs)).
Proof.
  induction bs as [|b r IH]; intros s G W U D; simpl in *; [constructor|].
  apply andb_prop in W. destruct W as [Wb Wr]. apply orb_false_iff in U. destruct U as [Ub Ur].
  pose proof (run_txs_mark_claim track (b_height b) (b_txs b) s G Wb Ub D) as R.
  destruct (run_block_inv strict (markf a) (keeps a) (markf_ext a) exec_mark' track s b G Wb (block_keeps a b Ub) D) as [G1 D1].
  unfold run_block in *. destruct (run_txs strict track (b_height b) s (b_txs b)) as [s1 os]. cbn [fst snd] in *.
  specialize (IH _ G1 Wr Ur D1). destruct (run_chain strict track _ r) as [s2 oss]. cbn [snd] in *.
  constructor; [exact R|exact IH].
Qed.
End Mark.

Lemma mark_obs a s : sorted_state s ->
  markf a (glk s) <-> is_destroyed s a = true /\ contract_record s a = [].
Proof.
  intro Hs. unfold markf. rewrite is_destroyed_glk, contract_record_glk by exact Hs. rewrite ov_nil_iff.
  split; intros [A B]; split; auto.
  - destruct (glk s (DK a)); [reflexivity|congruence].
  - destruct (glk s (DK a)); [discriminate|discriminate].
Qed.
