(** C10 on reachable states: the hypothesis of the fee-split arithmetic (per peer, the validate
    positions of the authorizers fit into the TotalPos of the previous view's pool) is discharged
    by the invariant [inv4] of the governance operations. *)
From Coq Require Import List NArith Bool Lia.
Import ListNotations.
From Ont Require Import Lib.AList Gen.GovConsts Model.Gov Model.GovSpec Model.GovSplit Proofs.GovInv Proofs.GovAcct
  Proofs.GovAcct4 Proofs.GovAcct5 Proofs.GovPrev Proofs.GovPrev4 Proofs.GovSplitP.
Local Open Scope N_scope.

Lemma vp_sum_le : forall cs k o infos,
  vp_sum cs k o infos <= if cs then SC k o infos else SD k o infos.
Proof.
  intros cs k o infos. destruct cs; unfold SC, SD, psum;
    (induction infos as [|[[p a] i] r IH]; cbn [vp_sum asum]; [lia|]);
    unfold selP; cbn [fst snd]; unfold validate_pos, bsel, cw, dw;
    pose proof (w64_le (i_cons i + i_wcons i)); pose proof (w64_le (i_cand i + i_wcand i));
    unfold selP, bsel, cw, dw in IH; destruct ((p =? k) && negb (a =? o)); lia.
Qed.

Lemma h2_from_inv4 : forall s k pp pre cu, inv4 s ->
  pget k (s_prev s) = Some pp -> is_active (p_status pp) = true -> is_cons (s_prev s) k = SOk pre ->
  vp_sum (cu || pre) k (p_owner pp) (s_infos s) <= p_total pp.
Proof.
  intros s k pp pre cu Hi Hg Ha Hpre. destruct (i4_J s Hi k pp Hg Ha) as [HC HD].
  pose proof (vp_sum_le (cu || pre) k (p_owner pp) (s_infos s)) as Hle.
  destruct (cu || pre) eqn:E; cbn iota in Hle; [exact (N.le_trans _ _ _ Hle HC)|].
  apply orb_false_iff in E. destruct E as [_ Ep]. subst pre.
  unfold is_cons in Hpre. rewrite Hg in Hpre. injection Hpre as Hc. apply N.eqb_neq in Hc.
  assert (p_status pp = CandidateStatus).
  { unfold is_active in Ha. apply orb_true_iff in Ha. destruct Ha as [E|E]; apply N.eqb_eq in E; congruence. }
  specialize (HD H). exact (N.le_trans _ _ _ Hle HD).
Qed.

Lemma cands_active : forall (prev : list (N * peerv)) w k, NoDup (keys prev) -> In (w, k) (sort_desc (candidates prev)) ->
  exists p, pget k prev = Some p /\ is_active (p_status p) = true.
Proof.
  intros prev w k Hn Hin. apply (proj1 (in_sort_desc _ _)) in Hin. unfold candidates in Hin.
  apply in_map_iff in Hin. destruct Hin as ([k' p] & E & Hf). cbn [fst snd] in E. inversion E; subst k'.
  apply filter_In in Hf. destruct Hf as [Hi Ha]. cbn [snd] in Ha.
  exists p. split; [now apply in_nodup_pget | exact Ha].
Qed.

(** (H1), the part of it that concerns the peers: TPeerCost <= 100, stored TStakeCost <= 101 *)
Definition costs_ok (attrs : list (N * (N * N))) : Prop :=
  forall k, fst (costs_of k attrs) <= 100 /\ snd (costs_of k attrs) <= 101.

Theorem reachable_node_ok : forall s attrs, inv4 s -> costs_ok attrs ->
  Forall (fun wk => node_ok (s_prev s) (s_pool s) attrs (s_infos s) (snd wk)) (sort_desc (candidates (s_prev s))).
Proof.
  intros s attrs Hi Hc. apply Forall_forall. intros [w k] Hin. cbn [snd].
  destruct (cands_active _ _ _ (i4_nodup s Hi) Hin) as (p & Hg & Ha).
  intros p' pre cu Hg' Hpre Hcu. rewrite Hg in Hg'. inversion Hg'; subst p'.
  destruct (Hc k) as [C1 C2]. repeat split; auto. eapply h2_from_inv4; eauto.
Qed.

Theorem split_le_income_reachable : forall s e attrs fees balance splitFee o,
  inv5 s ->
  execute_split2 e (s_prev s) (s_pool s) attrs (s_infos s) fees balance splitFee = SOk o ->
  e_A e + e_B e <= 100 -> e_dappFee e <= 100 -> costs_ok attrs ->
  Forall (fun y => y < W32) (e_Yi e) -> e_K e < W32 ->
  100 * (balance - splitFee) < W64 -> fsum fees + (balance - splitFee) < W64 ->
  sum_fst (sort_desc (candidates (s_prev s))) < W64 ->
  so_splitSum o + so_dapp o <= balance - splitFee /\
  fsum (so_fees o) = fsum fees + so_splitSum o /\
  splitFee + so_splitSum o <= balance - so_dapp o.
Proof.
  intros s e attrs fees balance splitFee o [H3 H4] H HAB Hdf Hc HY HK Hinc Hf Hst.
  eapply execute_split2_le_income; eauto. now apply reachable_node_ok.
Qed.

Theorem settle_fee_inv_reachable : forall s e attrs st st',
  inv5 s -> settle e (s_prev s) (s_pool s) attrs (s_infos s) st = SOk st' -> fee_inv st ->
  e_A e + e_B e <= 100 -> e_dappFee e <= 100 -> costs_ok attrs ->
  Forall (fun y => y < W32) (e_Yi e) -> e_K e < W32 ->
  100 * (fs_balance st - fs_splitFee st) < W64 -> fs_balance st < W64 ->
  sum_fst (sort_desc (candidates (s_prev s))) < W64 ->
  fee_inv st'.
Proof.
  intros s e attrs st st' [H3 H4] H Hi HAB Hdf Hc HY HK Hinc Hb Hst.
  eapply settle_fee_inv; eauto. now apply reachable_node_ok.
Qed.

(** histories of governance transactions from a funded genesis (the hypotheses of C11) *)
Definition gov_history_ok par (peers : list (N * N * N)) (ont : list (N * N)) (ops : list (N * op)) : Prop :=
  nget GOV ont = sum_init peers /\ asum (fun _ x => x) ont <= ONT_TOTAL_SUPPLY /\
  NoDup (peer_ids peers) /\ params_ok par /\ Forall (fun ho => op_ok2 (snd ho)) ops.

Theorem history_inv5 : forall par h0 peers ont ops, gov_history_ok par peers ont ops ->
  inv5 (run (genesis par h0 peers ont) ops).
Proof.
  intros par h0 peers ont ops (Hf & Hs & Hd & Hp & Hall). apply run_inv5; auto. now apply genesis_inv5.
Qed.

(** (H2) itself, on every reachable state *)
Theorem history_h2 : forall par h0 peers ont ops, gov_history_ok par peers ont ops ->
  let s := run (genesis par h0 peers ont) ops in
  forall k pp pre cu, pget k (s_prev s) = Some pp -> is_active (p_status pp) = true ->
  is_cons (s_prev s) k = SOk pre ->
  vp_sum (cu || pre) k (p_owner pp) (s_infos s) <= p_total pp.
Proof.
  intros par h0 peers ont ops Hh s k pp pre cu Hg Ha Hpre.
  eapply h2_from_inv4; eauto. apply (i5_inv4 _ (history_inv5 par h0 peers ont ops Hh)).
Qed.
