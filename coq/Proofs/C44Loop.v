(** C44, part 1: the two loops of cachedb.go (iterate a prefix while writing into the iterated
    cache) terminate having visited exactly the entries that were live under the prefix when the
    iterator was created, and the final store is the fold of the loop bodies over that listing.

    Built on Proofs/KVLive.v: the iterator contract [tracksW] that tolerates writes at or behind
    the cursor or outside the iterator's prefix. Unlike KV.live_drain (writes fixed in advance) the
    writes here are COMPUTED from the key/value the iterator shows, as in the code. *)
From Coq Require Import List Bool Arith NArith Lia.
Import ListNotations.
From Ont Require Import Lib.Bytes Model.KV Proofs.KV Proofs.KVLive Model.ContractStore.
Local Open Scope N_scope.
Open Scope bool_scope.

(** the state after running the bodies over a listing (keys with their prefix byte) *)
Definition fold_body (pfx : N) (body : bytes -> bytes -> list wr) (L : list kv) (s : state) : state :=
  fold_left (fun s e => apply_wrs pfx s (body (tl (fst e)) (snd e))) L s.

Lemma live_loop_behind pfx p body B : forall L s it fuel n,
  sorted_state s -> tracksW (bytes_prefix (pkey pfx p)) (env_of s) B L it -> (B <= fuel)%nat ->
  (length L < n)%nat ->
  (forall e, In e L -> wf_bytes (fst e) = true /\ has_prefix (pkey pfx p) (fst e) = true) ->
  (forall e, In e L -> Forall (wr_behind pfx p (fst e)) (body (tl (fst e)) (snd e))) ->
  live_loop pfx body s fuel it (res_of L) n = (fold_body pfx body L s, true).
Proof.
  induction L as [|e L' IH]; intros s it fuel n Hs T Hf Hn HL Hb.
  - destruct n; reflexivity.
  - unfold res_of; cbn [nilb]. simpl in T. destruct T as (Ek & Ev & Hnx).
    destruct n as [|n']; [simpl in Hn; lia|]. cbn [live_loop].
    destruct (HL e (or_introl eq_refl)) as [We Pe].
    pose proof (Hb e (or_introl eq_refl)) as Hw.
    unfold cache_iter_key. rewrite Ek, Ev.
    set (ws := body (tl (fst e)) (snd e)) in *.
    destruct (apply_wrs_unseen pfx p (fst e) ws s Hs We Pe Hw) as [U S1].
    destruct (Hnx _ U (fuel + 2 * length ws)%nat ltac:(lia)) as (it' & E & T').
    cbv zeta. rewrite E.
    rewrite (IH (apply_wrs pfx s ws) it' (fuel + 2 * length ws)%nat n' S1 T' ltac:(lia) ltac:(simpl in Hn; lia)
                (fun x Hx => HL x (or_intror Hx)) (fun x Hx => Hb x (or_intror Hx))).
    reflexivity.
Qed.

(** The loop over a CacheDB prefix iterator, from NewIterator on. *)
Theorem iterate_writing_behind body p s :
  sorted_state s -> keys_wf (st_cache s) -> keys_wf (st_overlay s) -> keys_wf (st_store s) ->
  (forall e, In e (with_prefix (pkey ST_STORAGE p) (abs s)) ->
     Forall (wr_behind ST_STORAGE p (fst e)) (body (tl (fst e)) (snd e))) ->
  iterate_writing body p s = (fold_body ST_STORAGE body (with_prefix (pkey ST_STORAGE p) (abs s)) s, true).
Proof.
  intros Hs Wc Wo Wst Hb. unfold iterate_writing.
  assert (Wabs : keys_wf (abs s)) by (apply (abs_keys (fun k => wf_bytes k = true)); auto).
  pose proof (cache_iter_first_okW ST_STORAGE s p Hs) as F. unfold kfilter in F.
  rewrite (filter_range_prefix (pkey ST_STORAGE p) (abs s) Wabs) in F.
  destruct (F (enough_fuel s) (le_n _)) as (it' & E & T). rewrite E.
  apply (live_loop_behind ST_STORAGE p body (enough_fuel s)); auto.
  - assert (length (with_prefix (pkey ST_STORAGE p) (abs s)) <= length (abs s))%nat by apply kfilter_length.
    pose proof (abs_length s). lia.
  - intros e He. unfold with_prefix in He. apply filter_In in He. destruct He as [He1 He2].
    split; [apply Wabs; exact He1|exact He2].
Qed.

(** * Reads after writes, on the whole key (prefix byte included) *)

(** what CacheDB.get sees under the full key [x]: None = absent or deleted *)
Definition glk (s : state) (x : bytes) : option bytes := lookup x (abs s).

Lemma cache_get_glk pfx s k : sorted_state s ->
  cache_get pfx s k = match glk s (pkey pfx k) with Some v => v | None => [] end.
Proof. intro H. rewrite cache_get_refines by exact H. apply kv_lookup_lookup. Qed.

Lemma glk_nonempty s x v : glk s x = Some v -> v <> [].
Proof.
  unfold glk. intro H.
  assert (In (x, v) (abs s)).
  { revert H. induction (abs s) as [|[k' v'] r IH]; simpl; [discriminate|].
    destruct (key_eqb x k') eqn:E; intro H.
    - apply key_eqb_eq in E. inversion H; subst. left; reflexivity.
    - right; apply IH; exact H. }
  exact (abs_live_values s (x, v) H0).
Qed.

Lemma glk_put pfx k v s x : sorted_state s ->
  glk (cache_put pfx k v s) x = if key_eqb x (pkey pfx k) then nz (Some v) else glk s x.
Proof.
  intro H. unfold glk. rewrite (proj1 (cache_put_refines pfx k v s H)).
  apply lookup_spec_put, abs_sorted, H.
Qed.

Lemma glk_delete pfx k s x : sorted_state s ->
  glk (cache_delete pfx k s) x = if key_eqb x (pkey pfx k) then None else glk s x.
Proof. intro H. exact (glk_put pfx k [] s x H). Qed.

Lemma abs_block_put pfx k v s : abs_block (cache_put pfx k v s) = abs_block s.
Proof. reflexivity. Qed.

Lemma In_lookup x v l : lookup x l = Some v -> In (x, v) l.
Proof.
  induction l as [|[k' v'] r IH]; simpl; [discriminate|].
  destruct (key_eqb x k') eqn:E; intro H.
  - apply key_eqb_eq in E. inversion H; subst. left; reflexivity.
  - right; apply IH; exact H.
Qed.

(** membership in the listing of a prefix *)
Lemma in_with_prefix P s x v : sorted_state s ->
  In (x, v) (with_prefix P (abs s)) <-> glk s x = Some v /\ has_prefix P x = true.
Proof.
  intro H. unfold with_prefix, glk. rewrite filter_In. simpl. split.
  - intros [HI HP]. split; [|exact HP]. apply lookup_In; [apply abs_sorted; exact H|exact HI].
  - intros [HL HP]. split; [apply In_lookup; exact HL|exact HP].
Qed.

(** * has_prefix facts *)

Lemma has_prefix_app p r : wf_bytes p = true -> has_prefix p (p ++ r) = true.
Proof.
  induction p as [|c p IH]; simpl; [reflexivity|]. intro H. apply andb_prop in H. destruct H as [_ H].
  rewrite N.eqb_refl. simpl. apply IH; exact H.
Qed.

Lemma has_prefix_app' p r : has_prefix p (p ++ r) = true.
Proof. induction p as [|c p IH]; simpl; [reflexivity|]. rewrite N.eqb_refl. exact IH. Qed.

Lemma has_prefix_split p : forall k, has_prefix p k = true -> k = p ++ skipn (length p) k.
Proof.
  induction p as [|c p IH]; intros k H; simpl in *; [reflexivity|].
  destruct k as [|y k]; [discriminate|]. apply andb_prop in H. destruct H as [E H].
  apply N.eqb_eq in E. subst. f_equal. apply IH; exact H.
Qed.

(** Two prefixes of the same length are the same or disjoint: no contract's key space contains
    another's (addresses are fixed 20-byte strings). *)
Lemma has_prefix_same_length p : forall q r, length p = length q -> has_prefix p (q ++ r) = true -> p = q.
Proof.
  induction p as [|c p IH]; intros q r HL H; destruct q as [|d q]; simpl in *; try discriminate; [reflexivity|].
  apply andb_prop in H. destruct H as [E H]. apply N.eqb_eq in E. subst. f_equal.
  apply (IH q r); [congruence|exact H].
Qed.

Lemma app_inv_same_length {A} (a b : list A) : forall c d, length a = length c -> a ++ b = c ++ d -> a = c /\ b = d.
Proof.
  induction a as [|x a IH]; intros c d HL H; destruct c as [|y c]; simpl in *; try discriminate; [auto|].
  inversion H; subst. destruct (IH c d ltac:(congruence) H2) as [-> ->]. auto.
Qed.
