(** C43 — lemmas about the bloom filter part of Model/Bloom.v ([Bloom.add], [Bloom.Test],
    [LogsBloom], [BytesToBloom]).  Nothing here depends on the hash [K6]. *)
From Coq Require Import List Bool Arith NArith ZArith Lia ZifyN ZifyNat ZifyBool.
Import ListNotations.
From Ont Require Import Lib.Bytes Gen.BloomConsts Gen.BloomFormulas Model.Bloom.
Local Open Scope N_scope.
Ltac Zify.zify_post_hook ::= Z.to_euclidean_division_equations.

Lemma or_at_length b i v : length (or_at b i v) = length b.
Proof. revert i; induction b as [|x r IH]; intros [|i]; simpl; auto. Qed.

Lemma nth_or_at b i v j :
  nth j (or_at b i v) 0 = if Nat.eqb i j && Nat.ltb i (length b) then N.lor (nth j b 0) v else nth j b 0.
Proof.
  revert i j; induction b as [|x r IH]; intros i j.
  - destruct i, j; simpl; try reflexivity; rewrite ?andb_false_r; reflexivity.
  - destruct i as [|i], j as [|j]; simpl; try reflexivity.
    rewrite IH. change (Nat.ltb (S i) (S (length r))) with (Nat.ltb i (length r)). reflexivity.
Qed.

Lemma land_lor_keep v x w : v = N.land v x -> v = N.land v (N.lor x w).
Proof.
  intro H. apply N.bits_inj; intro n.
  assert (Hn := f_equal (fun z => N.testbit z n) H); cbv beta in Hn.
  rewrite N.land_spec in Hn. rewrite N.land_spec, N.lor_spec.
  destruct (N.testbit v n), (N.testbit x n), (N.testbit w n); simpl in *; congruence.
Qed.

Lemma land_lor_self v x : v = N.land v (N.lor x v).
Proof.
  apply N.bits_inj; intro n. rewrite N.land_spec, N.lor_spec.
  destruct (N.testbit v n), (N.testbit x n); reflexivity.
Qed.

Definition item_ok (b : bytes) (iv : N * N) : bool := snd iv =? N.land (snd iv) (nthb b (fst iv)).

Lemma item_ok_or_at b j w iv : item_ok b iv = true -> item_ok (or_at b j w) iv = true.
Proof.
  unfold item_ok, nthb; intro H; apply N.eqb_eq in H; apply N.eqb_eq.
  rewrite nth_or_at. destruct (_ && _); [apply land_lor_keep|]; exact H.
Qed.

Lemma item_ok_or_at_self b iv : (N.to_nat (fst iv) < length b)%nat -> item_ok (or_at b (N.to_nat (fst iv)) (snd iv)) iv = true.
Proof.
  unfold item_ok, nthb; intro H; apply N.eqb_eq. rewrite nth_or_at.
  rewrite Nat.eqb_refl. apply Nat.ltb_lt in H; rewrite H. simpl. apply land_lor_self.
Qed.

Definition or_all (vals : list (N * N)) (b : bytes) : bytes :=
  fold_left (fun acc iv => or_at acc (N.to_nat (fst iv)) (snd iv)) vals b.

Lemma or_all_length vals b : length (or_all vals b) = length b.
Proof. revert b; induction vals as [|iv r IH]; intro b; simpl; [reflexivity|]. unfold or_all in IH; rewrite IH; apply or_at_length. Qed.

Lemma item_ok_or_all vals b iv : item_ok b iv = true -> item_ok (or_all vals b) iv = true.
Proof. revert b; induction vals as [|x r IH]; intros b H; simpl; [exact H|]. apply IH, item_ok_or_at, H. Qed.

Lemma or_all_sets vals b :
  (forall iv, In iv vals -> (N.to_nat (fst iv) < length b)%nat) ->
  forall iv, In iv vals -> item_ok (or_all vals b) iv = true.
Proof.
  revert b; induction vals as [|x r IH]; intros b Hlt iv Hin; [destruct Hin|].
  simpl. destruct Hin as [->|Hin].
  - apply item_ok_or_all, item_ok_or_at_self, Hlt; left; reflexivity.
  - apply IH; [|exact Hin]. intros iv' H'. rewrite or_at_length. apply Hlt; right; exact H'.
Qed.

Lemma bv_index_lt hi lo : bv_index hi lo < BloomByteLength.
Proof. unfold bv_index, BloomByteLength. lia. Qed.

Section K.
Variable K6 : bytes -> bytes.

Lemma bloom_values_lt d iv : In iv (bloom_values K6 d) -> fst iv < BloomByteLength.
Proof.
  unfold bloom_values; simpl; intros [<-|[<-|[<-|[]]]]; apply bv_index_lt.
Qed.

Lemma bloom_add_length d b : length (bloom_add K6 d b) = length b.
Proof. apply or_all_length. Qed.

Lemma bloom_test_spec d b : bloom_test K6 d b = forallb (item_ok b) (bloom_values K6 d).
Proof. reflexivity. Qed.

(** [test (add x b) x = true] *)
Theorem bloom_test_add_same d b :
  N.of_nat (length b) = BloomByteLength -> bloom_test K6 d (bloom_add K6 d b) = true.
Proof.
  intro Hl. rewrite bloom_test_spec. apply forallb_forall; intros iv Hin.
  apply (or_all_sets (bloom_values K6 d) b); [|exact Hin].
  intros iv' H'. apply bloom_values_lt in H'. lia.
Qed.

(** monotonicity: adding never clears a positive test *)
Theorem bloom_test_add_mono x y b : bloom_test K6 x b = true -> bloom_test K6 x (bloom_add K6 y b) = true.
Proof.
  rewrite !bloom_test_spec, !forallb_forall. intros H iv Hin. apply item_ok_or_all, H, Hin.
Qed.

Definition add_items (items : list bytes) (bin : bloom) : bloom :=
  fold_left (fun bn t => bloom_add K6 t bn) items bin.

Lemma add_items_length items bin : length (add_items items bin) = length bin.
Proof.
  revert bin; induction items as [|t r IH]; intro bin; simpl; [reflexivity|].
  unfold add_items in IH; rewrite IH; apply bloom_add_length.
Qed.

Lemma add_items_mono items bin x : bloom_test K6 x bin = true -> bloom_test K6 x (add_items items bin) = true.
Proof.
  revert bin; induction items as [|t r IH]; intros bin H; simpl; [exact H|]. apply IH, bloom_test_add_mono, H.
Qed.

Lemma add_items_complete items bin x :
  N.of_nat (length bin) = BloomByteLength -> In x items -> bloom_test K6 x (add_items items bin) = true.
Proof.
  revert bin; induction items as [|t r IH]; intros bin Hl Hin; [destruct Hin|].
  simpl. destruct Hin as [->|Hin].
  - apply add_items_mono, bloom_test_add_same, Hl.
  - apply IH; [rewrite bloom_add_length; exact Hl|exact Hin].
Qed.

Lemma logs_bloom_items logs bin :
  fold_left (fun bin l => fold_left (fun bn t => bloom_add K6 t bn) (l_topics l) (bloom_add K6 (l_addr l) bin)) logs bin
  = add_items (flat_map log_items logs) bin.
Proof.
  revert bin; induction logs as [|l r IH]; intro bin; simpl; [reflexivity|].
  rewrite IH. unfold add_items. rewrite fold_left_app. reflexivity.
Qed.

Lemma zero_bloom_length : N.of_nat (length zero_bloom) = BloomByteLength.
Proof. unfold zero_bloom; rewrite repeat_length; lia. Qed.

Lemma logs_bloom_length logs : N.of_nat (length (logs_bloom K6 logs)) = BloomByteLength.
Proof.
  unfold logs_bloom. rewrite logs_bloom_items, add_items_length. apply zero_bloom_length.
Qed.

(** [LogsBloom] tests positive for the address and every topic of every log *)
Theorem logs_bloom_complete logs l x :
  In l logs -> In x (log_items l) -> bloom_test K6 x (logs_bloom K6 logs) = true.
Proof.
  intros Hl Hx. unfold logs_bloom. rewrite logs_bloom_items.
  apply add_items_complete; [apply zero_bloom_length|].
  apply in_flat_map; exists l; split; assumption.
Qed.

Lemma bytes_to_bloom_id b : N.of_nat (length b) = BloomByteLength -> bytes_to_bloom b = Some b.
Proof.
  intro H. unfold bytes_to_bloom. rewrite H, N.ltb_irrefl.
  replace (N.to_nat BloomByteLength - length b)%nat with 0%nat by lia. reflexivity.
Qed.

Lemma block_bloom_eq txs : block_bloom K6 txs = Some (logs_bloom K6 (all_logs txs)).
Proof. apply bytes_to_bloom_id, logs_bloom_length. Qed.

(** the test in terms of the three bit positions *)
Lemma pow2_land_iff t y : 2 ^ t = N.land (2 ^ t) y <-> N.testbit y t = true.
Proof.
  split; intro H.
  - assert (Ht := f_equal (fun z => N.testbit z t) H); cbv beta in Ht.
    rewrite N.land_spec, N.pow2_bits_true in Ht. simpl in Ht. symmetry; exact Ht.
  - apply N.bits_inj; intro n. rewrite N.land_spec, N.pow2_bits_eqb.
    destruct (N.eqb_spec t n) as [<-|]; [rewrite H|]; reflexivity.
Qed.

Lemma item_pos_bit b hi lo :
  item_ok b (bv_index hi lo, bv_mask lo) = bloom_bit b (bv_pos hi lo).
Proof.
  unfold item_ok, bloom_bit, bv_index, bv_mask; cbn [fst snd].
  assert (E1 : BloomByteLength - bv_pos hi lo / 8 - 1 = BloomByteLength - 1 - bv_pos hi lo / 8) by (unfold BloomByteLength; lia).
  assert (E2 : bv_pos hi lo mod 8 = lo mod 8) by (unfold bv_pos; lia).
  rewrite E1, E2.
  destruct (N.testbit _ _) eqn:T.
  - apply N.eqb_eq, pow2_land_iff, T.
  - apply N.eqb_neq; intro H; apply pow2_land_iff in H; congruence.
Qed.

Theorem bloom_test_positions d b :
  bloom_test K6 d b = forallb (bloom_bit b) (bloom_positions K6 d).
Proof.
  rewrite bloom_test_spec. unfold bloom_values, bloom_positions; cbn [forallb].
  rewrite !item_pos_bit. reflexivity.
Qed.

Lemma bloom_positions_lt d p : In p (bloom_positions K6 d) -> p < BloomBitLength.
Proof.
  unfold bloom_positions, bv_pos, BloomBitLength; simpl; intros [<-|[<-|[<-|[]]]]; lia.
Qed.
End K.
