(** Proofs about the cross-chain merkle path model (Model/MerklePath.v):
      - [pairwise_eq_rfc]   the level-by-level root equals the RFC-6962 root;
      - [path_complete]     a generated path proves its value;
      - [prove_sound]       an accepted path yields membership, or an explicit collision, or an
                            element of the list that is itself an inner-node hash;
      - parser facts: trailing bytes, over-long paths, no panic.
    The hash function is a section variable; nothing is assumed about it except the digest
    length.  No collision-freedom assumption anywhere. *)
From Coq Require Import List Bool Arith NArith ZArith Lia ZifyN ZifyNat ZifyBool.
Import ListNotations.
From Ont Require Import Lib.Bytes Gen.CodecConsts Gen.MerklePathConsts Gen.MerklePathFormulas
  Model.Codec Proofs.Codec Model.MerklePath.
Open Scope bool_scope.
Ltac Zify.zify_post_hook ::= Z.to_euclidean_division_equations.

(** Facts about the generated constants the proofs rely on (re-checked on every run). *)
Lemma hash_size_32 : MP_HASH_SIZE = 32%nat /\ UINT256_SIZE = 32%nat. Proof. split; reflexivity. Qed.
Lemma prefixes_differ : MP_LEAF_PREFIX <> MP_NODE_PREFIX. Proof. discriminate. Qed.
Lemma left_right_differ : (MP_RIGHT =? MP_LEFT)%N = false. Proof. reflexivity. Qed.
Lemma left_is_left : (MP_LEFT =? MP_LEFT)%N = true. Proof. reflexivity. Qed.
Lemma max_size_val : (MP_MAX_SIZE <= 1048576)%Z. Proof. unfold MP_MAX_SIZE; lia. Qed.

Lemma parent_index_spec i : (2 * parent_index i <= i <= 2 * parent_index i + 1)%nat.
Proof. unfold parent_index, path_parent_index. lia. Qed.

Lemma prove_steps_exact k t : (k + t < 32)%nat ->
  Z.to_nat (prove_steps (Z.of_nat (33 * k + t)) (Z.of_nat UINT256_SIZE)) = k.
Proof. intro Hk. unfold prove_steps. replace UINT256_SIZE with 32%nat by reflexivity. lia. Qed.

Lemma prove_steps_long k : (32 <= k)%nat ->
  (k < Z.to_nat (prove_steps (Z.of_nat (33 * k)) (Z.of_nat UINT256_SIZE)))%nat.
Proof. intro Hk. unfold prove_steps. replace UINT256_SIZE with 32%nat by reflexivity. lia. Qed.

(** Induction two elements at a time. *)
Lemma pair_ind {A} (P : list A -> Prop) :
  P [] -> (forall a, P [a]) -> (forall a b r, P r -> P (a :: b :: r)) -> forall l, P l.
Proof.
  intros H0 H1 H2. fix IH 1. intros [|a [|b r]]; [exact H0|apply H1|apply H2, IH].
Qed.

Lemma app_eq_len {A} (a c b d : list A) : length a = length c -> a ++ b = c ++ d -> a = c /\ b = d.
Proof.
  revert c; induction a as [|x a IH]; intros [|y c] Hl E; simpl in *; try discriminate.
  - split; [reflexivity|exact E].
  - injection E as -> E. injection Hl as Hl. destruct (IH c Hl E) as [-> ->]. split; reflexivity.
Qed.

Section WithHash.
Variable H : bytes -> bytes.

Notation hash_leaf := (hash_leaf H).
Notation hash_children := (hash_children H).
Notation next_level := (next_level H).
Notation z := zero_hash.

Definition len32 (b : bytes) : Prop := length b = MP_HASH_SIZE.


(** * next_level *)
Lemma next_level_bounds l :
  (length l <= 2 * length (next_level l) <= length l + 1)%nat.
Proof. induction l using pair_ind; simpl in *; lia. Qed.

(** The allocation formula of the Go code is the length of the level. *)
Lemma next_level_length l :
  Z.of_nat (length (next_level l)) = next_level_len (Z.of_nat (length l)).
Proof. unfold next_level_len. induction l using pair_ind; cbn [MerklePath.next_level length] in *; lia. Qed.


Lemma next_level_app a b : (length a mod 2 = 0)%nat -> next_level (a ++ b) = next_level a ++ next_level b.
Proof.
  induction a using pair_ind; intro E; cbn [length] in E.
  - reflexivity.
  - discriminate.
  - cbn [app MerklePath.next_level]. f_equal. apply IHa. lia.
Qed.

Lemma nth_next_level l : forall p,
  ((2 * p + 1 < length l)%nat -> nth p (next_level l) z = hash_children (nth (2 * p) l z) (nth (2 * p + 1) l z)) /\
  ((2 * p + 1 = length l)%nat -> nth p (next_level l) z = nth (2 * p) l z).
Proof.
  induction l using pair_ind; intro p; simpl length.
  - split; lia.
  - split; [lia|]. intro E. assert (p = 0)%nat by lia. subst. reflexivity.
  - destruct p as [|p].
    + split; intro; [reflexivity|lia].
    + replace (2 * S p)%nat with (S (S (2 * p))) by lia.
      replace (S (S (2 * p)) + 1)%nat with (S (S (2 * p + 1))) by lia.
      destruct (IHl p) as [A B]. split; intro E; cbn [MerklePath.next_level nth]; [apply A|apply B]; lia.
Qed.

(** * Levels *)
Fixpoint up (d : nat) (l : list bytes) : list bytes :=
  match d with O => l | S d' => up d' (next_level l) end.

Lemma up_S_out d : forall l, up (S d) l = next_level (up d l).
Proof. induction d; intro l; [reflexivity|]. change (up (S (S d)) l) with (up (S d) (next_level l)). rewrite IHd. reflexivity. Qed.

Lemma up_add a : forall b l, up (a + b) l = up b (up a l).
Proof. induction a; intros b l; simpl; [reflexivity|apply IHa]. Qed.

Lemma up_single d x : up d [x] = [x].
Proof. induction d; simpl; auto. Qed.


Lemma up_length_one d : forall l, (1 <= length l <= 2 ^ d)%nat -> length (up d l) = 1%nat.
Proof.
  induction d; intros l Hl; simpl in *; [lia|].
  apply IHd. pose proof (next_level_bounds l). lia.
Qed.

Lemma up_stable d1 d2 l : length (up d1 l) = 1%nat -> (d1 <= d2)%nat -> up d2 l = up d1 l.
Proof.
  intros L Hd. replace d2 with (d1 + (d2 - d1))%nat by lia. rewrite up_add.
  destruct (up d1 l) as [|x [|? ?]]; try discriminate. apply up_single.
Qed.

Lemma levels_up_acc d : forall l acc, levels_up H d l acc = levels_up H d l [] ++ acc.
Proof.
  induction d; intros l acc; simpl; [reflexivity|].
  rewrite (IHd _ (l :: acc)), (IHd _ [l]), <- app_assoc. reflexivity.
Qed.

Lemma levels_up_length d : forall l, length (levels_up H d l []) = S d.
Proof.
  induction d; intro l; simpl; [reflexivity|].
  rewrite levels_up_acc, app_length, IHd. simpl. lia.
Qed.

Lemma levels_nth d : forall l i, (i <= d)%nat -> nth i (levels_up H d l []) [] = up (d - i) l.
Proof.
  induction d; intros l i Hi.
  - assert (i = 0)%nat by lia. subst. reflexivity.
  - simpl levels_up. rewrite levels_up_acc. destruct (le_lt_dec i d) as [L|G].
    + rewrite app_nth1 by (rewrite levels_up_length; lia). rewrite IHd by exact L.
      replace (S d - i)%nat with (S (d - i)) by lia. reflexivity.
    + assert (i = S d) by lia. subst. rewrite app_nth2 by (rewrite levels_up_length; lia).
      rewrite levels_up_length, Nat.sub_diag. reflexivity.
Qed.

Lemma level_root_up hs d : level_root H hs d = nth 0 (up d hs) z.
Proof. unfold level_root, merkle_hashes. rewrite levels_nth by lia. rewrite Nat.sub_0_r. reflexivity. Qed.

(** * The level-by-level root is the RFC-6962 root *)
Lemma up_app j : forall a b, length a = (2 ^ j)%nat -> (1 <= length b <= 2 ^ j)%nat ->
  up (S j) (a ++ b) = [hash_children (nth 0 (up j a) z) (nth 0 (up j b) z)].
Proof.
  induction j; intros a b La Lb.
  - simpl in La, Lb. destruct a as [|x [|? ?]]; try discriminate. destruct b as [|y [|? ?]]; simpl in Lb; try lia.
    reflexivity.
  - change (up (S (S j)) (a ++ b)) with (up (S j) (next_level (a ++ b))).
    assert (E2 : (2 ^ S j = 2 * 2 ^ j)%nat) by (simpl; lia).
    rewrite next_level_app by lia.
    pose proof (next_level_bounds a). pose proof (next_level_bounds b).
    rewrite IHj by lia. reflexivity.
Qed.

Lemma split_width_spec w : (2 <= w)%N ->
  exists j, split_width w = (2 ^ j)%N /\ (2 ^ j < w <= 2 * 2 ^ j)%N.
Proof.
  intro Hw. unfold split_width. exists (N.log2 (w - 1)).
  rewrite N.size_log2 by lia. rewrite N.sub_1_r, N.pred_succ, N.shiftl_1_l.
  split; [reflexivity|].
  pose proof (N.log2_spec (w - 1) ltac:(lia)) as [A B]. rewrite N.pow_succ_r' in B. lia.
Qed.

Lemma split_width_nat n : (2 <= n)%nat ->
  exists j, N.to_nat (split_width (N.of_nat n)) = (2 ^ j)%nat /\ (2 ^ j < n <= 2 * 2 ^ j)%nat.
Proof.
  intro Hn. destruct (split_width_spec (N.of_nat n) ltac:(lia)) as [j [E [A B]]].
  exists (N.to_nat j). rewrite E.
  assert (P : N.to_nat (2 ^ j) = (2 ^ N.to_nat j)%nat) by (rewrite N2Nat.inj_pow; reflexivity).
  rewrite P. split; [reflexivity|]. rewrite <- P. lia.
Qed.

Lemma rfc_unfold f l : (2 <= length l)%nat ->
  rfc_root_fuel H (S f) l =
  let k := N.to_nat (split_width (N.of_nat (length l))) in
  hash_children (rfc_root_fuel H f (firstn k l)) (rfc_root_fuel H f (skipn k l)).
Proof. destruct l as [|x [|y r]]; simpl length; intro; try lia. reflexivity. Qed.

Lemma rfc_eq_level f : forall l d, (length l <= f)%nat -> (1 <= length l <= 2 ^ d)%nat ->
  rfc_root_fuel H f l = nth 0 (up d l) z.
Proof.
  induction f; intros l d Hf Hl; [lia|].
  destruct (le_lt_dec (length l) 1) as [L1|L2].
  - destruct l as [|x [|? ?]]; simpl in *; try lia. rewrite up_single. reflexivity.
  - rewrite rfc_unfold by lia. cbv zeta.
    destruct (split_width_nat (length l) ltac:(lia)) as [j [Ek [A B]]]. rewrite Ek.
    set (a := firstn (2 ^ j) l). set (b := skipn (2 ^ j) l).
    assert (La : length a = (2 ^ j)%nat) by (unfold a; rewrite firstn_length; lia).
    assert (Lb : length b = (length l - 2 ^ j)%nat) by (unfold b; apply skipn_length).
    rewrite (IHf a j) by lia. rewrite (IHf b j) by lia.
    assert (Hjd : (S j <= d)%nat).
    { destruct (le_lt_dec (S j) d); [assumption|].
      assert (2 ^ d <= 2 ^ j)%nat by (apply Nat.pow_le_mono_r; lia). lia. }
    assert (E : up (S j) l = [hash_children (nth 0 (up j a) z) (nth 0 (up j b) z)]).
    { rewrite <- (firstn_skipn (2 ^ j) l) at 1. apply up_app; fold a b; lia. }
    rewrite (up_stable (S j) d l) by (try rewrite E; auto). rewrite E. reflexivity.
Qed.

Lemma depth_int_spec n : (1 <= n)%nat -> (n <= 2 ^ depth_int n)%nat.
Proof.
  intro Hn. unfold depth_int.
  assert (P : (N.of_nat n <= 2 ^ N.log2_up (N.of_nat n))%N).
  { destruct (N.eq_dec (N.of_nat n) 1) as [E|E]; [rewrite E; simpl; lia|].
    apply N.log2_up_spec. lia. }
  assert (Q : N.to_nat (2 ^ N.log2_up (N.of_nat n)) = (2 ^ N.to_nat (N.log2_up (N.of_nat n)))%nat)
    by (rewrite N2Nat.inj_pow; reflexivity).
  rewrite <- Q. lia.
Qed.

Theorem pairwise_eq_rfc_d hs d : (1 <= length hs <= 2 ^ d)%nat ->
  level_root H hs d = rfc_root H hs.
Proof. intro Hl. rewrite level_root_up. unfold rfc_root. symmetry. apply rfc_eq_level; lia. Qed.

Theorem pairwise_eq_rfc hs : hs <> [] -> path_root H hs = rfc_root H hs.
Proof.
  intro Hne. unfold path_root. apply pairwise_eq_rfc_d.
  assert (1 <= length hs)%nat by (destruct hs; simpl; [congruence|lia]).
  split; [assumption|apply depth_int_spec; assumption].
Qed.

(** From here on the digest length of [H] matters. *)
Hypothesis H_len : forall x, length (H x) = MP_HASH_SIZE.

Lemma hash_children_len a b : len32 (hash_children a b). Proof. apply H_len. Qed.
Lemma hash_leaf_len v : len32 (hash_leaf v). Proof. apply H_len. Qed.

Lemma next_level_len32 l : Forall len32 l -> Forall len32 (next_level l).
Proof.
  induction l using pair_ind; intro F; simpl; auto.
  inversion F as [|? ? _ F1]; inversion F1 as [|? ? _ F2]; subst.
  constructor; [apply hash_children_len|auto].
Qed.

Lemma up_len32 d : forall l, Forall len32 l -> Forall len32 (up d l).
Proof. induction d; intros l F; simpl; [exact F|apply IHd, next_level_len32, F]. Qed.

Lemma rfc_root_len f : forall l, Forall len32 l -> len32 (rfc_root_fuel H f l).
Proof.
  induction f; intros l F; [apply H_len|].
  destruct l as [|x [|y r]]; [apply H_len|inversion F; assumption|apply hash_children_len].
Qed.

(** * Path generation *)
Definition step := (N * bytes)%type.
Definition apply_step (h : bytes) (s : step) : bytes :=
  if (fst s =? MP_LEFT)%N then hash_children (snd s) h else hash_children h (snd s).
Definition climb (h : bytes) (steps : list step) : bytes := fold_left apply_step steps h.
Definition encode (steps : list step) : bytes := flat_map (fun s => fst s :: snd s) steps.
Definition steps_ok (steps : list step) : Prop := Forall (fun s => len32 (snd s)) steps.

(** The loop of MerkleLeafPath expressed on one level at a time (same tests as [path_loop]). *)
Fixpoint steps_up (d : nat) (l : list bytes) (index : nat) : list step :=
  match d with
  | O => []
  | S d' =>
    let subLen := length l in
    let nIndex := parent_index index in
    if (Z.of_nat index =? Z.of_nat subLen - 1)%Z && negb (subLen mod 2 =? 0)%nat then steps_up d' (next_level l) nIndex
    else if negb (index mod 2 =? 0)%nat then (MP_LEFT, nth (index - 1) l z) :: steps_up d' (next_level l) nIndex
    else (MP_RIGHT, nth (index + 1) l z) :: steps_up d' (next_level l) nIndex
  end.

Lemma steps_up_length d : forall l i, (length (steps_up d l i) <= d)%nat.
Proof.
  induction d; intros l i; cbn [steps_up]; [simpl; lia|].
  destruct (_ && _); [|destruct (negb _)]; cbn [length]; specialize (IHd (next_level l) (parent_index i)); lia.
Qed.

Lemma steps_up_ok d : forall l i, Forall len32 l -> (i < length l)%nat -> steps_ok (steps_up d l i).
Proof.
  induction d; intros l i F Hi; cbn [steps_up]; [constructor|].
  pose proof (parent_index_spec i) as P. pose proof (next_level_bounds l) as B.
  assert (IH : steps_ok (steps_up d (next_level l) (parent_index i))).
  { apply IHd; [apply next_level_len32, F|lia]. }
  destruct ((Z.of_nat i =? Z.of_nat (length l) - 1)%Z && negb (length l mod 2 =? 0)%nat) eqn:C1; [exact IH|].
  destruct (negb (i mod 2 =? 0)%nat) eqn:C2; constructor; try exact IH; simpl;
    apply (proj1 (Forall_forall _ _) F), nth_In; lia.
Qed.

(** [path_loop] over the tree of levels is [steps_up] on the current level; it never indexes out
    of range (no panic). *)
Lemma path_loop_steps hs d : forall i index, (i <= d)%nat -> (index < length (up (d - i) hs))%nat ->
  path_loop i (merkle_hashes H hs d) index = Some (encode (steps_up i (up (d - i) hs) index)).
Proof.
  induction i; intros index Hi Hidx; [reflexivity|].
  cbn [path_loop steps_up]. unfold merkle_hashes. rewrite levels_nth by lia.
  set (l := up (d - S i) hs) in *.
  assert (El : up (d - i) hs = next_level l).
  { unfold l. replace (d - i)%nat with (S (d - S i)) by lia. apply up_S_out. }
  pose proof (parent_index_spec index) as P. pose proof (next_level_bounds l) as B.
  assert (IH : path_loop i (merkle_hashes H hs d) (parent_index index) =
               Some (encode (steps_up i (next_level l) (parent_index index)))).
  { rewrite <- El. apply IHi; [lia|]. rewrite El. lia. }
  unfold merkle_hashes in IH.
  destruct ((Z.of_nat index =? Z.of_nat (length l) - 1)%Z && negb (length l mod 2 =? 0)%nat) eqn:C1; [exact IH|].
  destruct (negb (index mod 2 =? 0)%nat) eqn:C2.
  - rewrite (nth_error_nth' l z) by lia. rewrite IH. reflexivity.
  - assert (index + 1 < length l)%nat.
    { apply andb_false_iff in C1. apply negb_false_iff, Nat.eqb_eq in C2.
      destruct C1 as [C1|C1]; [apply Z.eqb_neq in C1; lia|].
      apply negb_false_iff, Nat.eqb_eq in C1.
      destruct (Nat.eq_dec (index + 1) (length l)); lia. }
    rewrite (nth_error_nth' l z) by lia. rewrite IH. reflexivity.
Qed.

(** Climbing the generated steps from the element at [index] reaches the top of the levels. *)
Lemma climb_steps d : forall l index, (1 <= length l <= 2 ^ d)%nat -> (index < length l)%nat ->
  climb (nth index l z) (steps_up d l index) = nth 0 (up d l) z.
Proof.
  induction d; intros l index Hl Hi.
  - simpl in *. assert (index = 0)%nat by lia. subst. reflexivity.
  - cbn [steps_up up].
    pose proof (parent_index_spec index) as P. pose proof (next_level_bounds l) as B.
    set (p := parent_index index) in *. clearbody p.
    assert (E2 : (2 ^ S d = 2 * 2 ^ d)%nat) by (simpl; lia).
    assert (IH : climb (nth p (next_level l) z) (steps_up d (next_level l) p) = nth 0 (up d (next_level l)) z)
      by (apply IHd; lia).
    destruct (nth_next_level l p) as [NA NB].
    destruct ((Z.of_nat index =? Z.of_nat (length l) - 1)%Z && negb (length l mod 2 =? 0)%nat) eqn:C1.
    + apply andb_true_iff in C1. destruct C1 as [C1 C1']. apply Z.eqb_eq in C1.
      apply negb_true_iff, Nat.eqb_neq in C1'.
      assert (index = 2 * p)%nat by lia.
      rewrite <- IH. rewrite NB by lia. subst index. reflexivity.
    + assert (Hcase : (index mod 2 <> 0 \/ (index mod 2 = 0 /\ index + 1 < length l))%nat).
      { apply andb_false_iff in C1. destruct (Nat.eq_dec (index mod 2) 0) as [E0|E0]; [right|left; exact E0].
        split; [exact E0|]. destruct C1 as [C1|C1]; [apply Z.eqb_neq in C1; lia|].
        apply negb_false_iff, Nat.eqb_eq in C1. destruct (Nat.eq_dec (index + 1) (length l)); lia. }
      destruct (negb (index mod 2 =? 0)%nat) eqn:C2.
      * apply negb_true_iff, Nat.eqb_neq in C2.
        assert (index = 2 * p + 1)%nat by lia.
        cbn [climb fold_left]. unfold apply_step at 2. cbn [fst snd]. rewrite left_is_left.
        fold (climb (hash_children (nth (index - 1) l z) (nth index l z)) (steps_up d (next_level l) p)).
        rewrite <- IH. rewrite NA by lia. subst index.
        replace (2 * p + 1 - 1)%nat with (2 * p)%nat by lia. reflexivity.
      * apply negb_false_iff, Nat.eqb_eq in C2. destruct Hcase as [Hc|[_ Hc]]; [lia|].
        assert (index = 2 * p)%nat by lia.
        cbn [climb fold_left]. unfold apply_step at 2. cbn [fst snd]. rewrite left_right_differ.
        fold (climb (hash_children (nth index l z) (nth (index + 1) l z)) (steps_up d (next_level l) p)).
        rewrite <- IH. rewrite NA by lia. subst index. reflexivity.
Qed.

(** * Parsing: what MerkleProve reads back *)
Lemma nb_at bf pre x rest : bf = pre ++ x :: rest ->
  next_byte (mkSrc bf (length pre)) = (x, false, mkSrc bf (S (length pre))).
Proof.
  intros ->. unfold next_byte; cbn [buf off].
  replace (length (pre ++ x :: rest) <=? length pre)%nat with false
    by (symmetry; apply Nat.leb_gt; rewrite app_length; simpl; lia).
  rewrite nth_middle. reflexivity.
Qed.

Lemma nb_end bf : next_byte (mkSrc bf (length bf)) = (0%N, true, mkSrc bf (length bf)).
Proof. unfold next_byte; cbn [buf off]. rewrite Nat.leb_refl. reflexivity. Qed.

Lemma nh_at bf pre v rest : bf = pre ++ v ++ rest -> len32 v -> (N.of_nat (length bf) < two64)%N ->
  next_hash (mkSrc bf (length pre)) = (v, false, mkSrc bf (length pre + 32)).
Proof.
  intros -> Lv Hb. unfold next_hash, next_fixed. replace UINT256_SIZE with (length v) by exact Lv.
  rewrite next_bytes_exact by exact Hb. rewrite Lv. reflexivity.
Qed.

Lemma nh_short bf pre rest : bf = pre ++ rest -> (length rest < 32)%nat -> (N.of_nat (length bf) < two64)%N ->
  snd (fst (next_hash (mkSrc bf (length pre)))) = true.
Proof.
  intros -> Lr Hb. unfold next_hash, next_fixed, next_bytes; cbn [buf off].
  replace UINT256_SIZE with 32%nat by reflexivity. rewrite app_length in *.
  destruct ((two64 <=? N.of_nat (length pre) + N.of_nat 32)%N || (N.of_nat (length pre + length rest) <? N.of_nat (length pre) + N.of_nat 32)%N) eqn:E.
  - reflexivity.
  - apply orb_false_iff in E. destruct E as [_ E]. apply N.ltb_ge in E. lia.
Qed.

Lemma encode_length steps : steps_ok steps -> length (encode steps) = (33 * length steps)%nat.
Proof.
  induction 1 as [|[f v] r Hs _ IH]; [reflexivity|].
  change (encode ((f, v) :: r)) with (f :: v ++ encode r).
  cbn [length snd] in *. rewrite app_length, IH. unfold len32 in Hs.
  rewrite Hs. replace MP_HASH_SIZE with 32%nat by reflexivity. lia.
Qed.

(** Running the loop over [length steps + m] iterations consumes the encoded steps and continues. *)
Lemma prove_loop_encode steps : forall pre post bf h m, steps_ok steps ->
  bf = pre ++ encode steps ++ post -> (N.of_nat (length bf) < two64)%N ->
  prove_loop H (length steps + m) (mkSrc bf (length pre)) h =
  prove_loop H m (mkSrc bf (length pre + length (encode steps))) (climb h steps).
Proof.
  induction steps as [|[f v] r IH]; intros pre post bf h m Ok E Hb.
  - simpl. rewrite Nat.add_0_r. reflexivity.
  - inversion Ok as [|? ? Hv Ok']; subst. cbn [snd] in Hv.
    cbn [length Nat.add prove_loop].
    change (encode ((f, v) :: r)) with (f :: v ++ encode r) in *.
    set (bf := pre ++ (f :: v ++ encode r) ++ post) in *.
    assert (E1 : bf = pre ++ f :: (v ++ encode r ++ post)).
    { unfold bf. cbn [app]. rewrite <- !app_assoc. reflexivity. }
    rewrite (nb_at bf pre f _ E1).
    assert (E2 : bf = (pre ++ [f]) ++ v ++ (encode r ++ post)).
    { rewrite E1, <- app_assoc. reflexivity. }
    replace (S (length pre)) with (length (pre ++ [f])) by (rewrite app_length; simpl; lia).
    rewrite (nh_at bf (pre ++ [f]) v _ E2 Hv Hb).
    assert (E3 : bf = ((pre ++ [f]) ++ v) ++ encode r ++ post).
    { rewrite E2, <- !app_assoc. reflexivity. }
    replace (length (pre ++ [f]) + 32)%nat with (length ((pre ++ [f]) ++ v))
      by (rewrite !app_length; unfold len32 in Hv; rewrite Hv; reflexivity).
    rewrite (IH _ post bf _ m Ok' E3 Hb).
    f_equal. f_equal. rewrite !app_length. cbn [length]. rewrite app_length. lia.
Qed.

Lemma varbytes_at data post : (N.of_nat (length (write_varbytes data ++ post)) < two64)%N ->
  next_varbytes (src_new (write_varbytes data ++ post)) =
  (data, ((varuint_size (N.of_nat (length data)) + N.of_nat (length data)) mod two64)%N, false, false,
   mkSrc (write_varbytes data ++ post) (length (write_varbytes data))).
Proof.
  intro Hb.
  pose proof (readback_ok (WVarBytes data) [] post eq_refl Hb) as R.
  cbn [run_wop readback fst snd run_rop] in R. unfold at_, after_ in R. cbn [app length Nat.add] in R.
  unfold src_new. destruct (next_varbytes _) as [[[[d sz] i] e] s']. injection R as -> -> -> -> ->. reflexivity.
Qed.

(** The decisive evaluation lemma: a path made of the value, [k] well-formed steps and [t]
    trailing bytes with [k + |t| < 32] is accepted iff the climbed hash is the root; the trailing
    bytes are ignored. *)
Lemma prove_eval data steps t root :
  steps_ok steps -> (length steps + length t < 32)%nat ->
  (N.of_nat (length (write_varbytes data ++ encode steps ++ t)) < two64)%N ->
  merkle_prove H (write_varbytes data ++ encode steps ++ t) root =
  if bytes_eqb (climb (hash_leaf data) steps) root then inr data else inl ERootMismatch.
Proof.
  intros Ok Hk Hb. unfold merkle_prove. rewrite varbytes_at by exact Hb. cbn [orb].
  unfold src_pos; cbn [off].
  set (wv := write_varbytes data) in *.
  replace (Z.of_nat (length (wv ++ encode steps ++ t)) - Z.of_N (N.of_nat (length wv)))%Z
    with (Z.of_nat (33 * length steps + length t)).
  2:{ rewrite !app_length, encode_length by exact Ok. lia. }
  rewrite prove_steps_exact by exact Hk.
  pose proof (prove_loop_encode steps wv t _ (hash_leaf data) 0 Ok eq_refl Hb) as P.
  rewrite Nat.add_0_r in P. rewrite P. reflexivity.
Qed.

(** A path with 32 or more steps is never accepted: the loop count [rem/32] exceeds the number of
    33-byte steps present. *)
Lemma prove_long data steps root :
  steps_ok steps -> (32 <= length steps)%nat ->
  (N.of_nat (length (write_varbytes data ++ encode steps)) < two64)%N ->
  merkle_prove H (write_varbytes data ++ encode steps) root = inl EReadByte.
Proof.
  intros Ok Hk Hb. unfold merkle_prove.
  pose proof (varbytes_at data (encode steps) Hb) as V. rewrite V. cbn [orb].
  unfold src_pos; cbn [off].
  set (wv := write_varbytes data) in *.
  replace (Z.of_nat (length (wv ++ encode steps)) - Z.of_N (N.of_nat (length wv)))%Z
    with (Z.of_nat (33 * length steps)).
  2:{ rewrite !app_length, encode_length by exact Ok. lia. }
  pose proof (prove_steps_long (length steps) Hk) as L.
  set (n := Z.to_nat _) in *.
  replace n with (length steps + S (n - length steps - 1))%nat by lia.
  assert (E : wv ++ encode steps = wv ++ encode steps ++ []) by (rewrite app_nil_r; reflexivity).
  rewrite (prove_loop_encode steps wv [] _ (hash_leaf data) _ Ok E Hb).
  cbn [prove_loop].
  replace (length wv + length (encode steps))%nat with (length (wv ++ encode steps)) by (rewrite app_length; reflexivity).
  rewrite nb_end. reflexivity.
Qed.

(** * getIndex *)
Lemma get_index_some leaf : forall hs i, get_index leaf hs = Some i -> (i < length hs)%nat /\ nth i hs z = leaf.
Proof.
  induction hs as [|v r IH]; intros i E; simpl in E; [discriminate|].
  destruct (bytes_eqb v leaf) eqn:B.
  - injection E as <-. apply bytes_eqb_eq in B. simpl. split; [lia|exact B].
  - destruct (get_index leaf r) as [j|] eqn:G; [|discriminate]. injection E as <-.
    destruct (IH j eq_refl) as [A C]. simpl. split; [lia|exact C].
Qed.

Lemma get_index_in leaf : forall hs, In leaf hs -> exists i, get_index leaf hs = Some i.
Proof.
  induction hs as [|v r IH]; intro I; [destruct I|]. simpl.
  destruct (bytes_eqb v leaf) eqn:B; [eexists; reflexivity|].
  destruct I as [->|I]; [rewrite (proj2 (bytes_eqb_eq leaf leaf) eq_refl) in B; discriminate|].
  destruct (IH I) as [i ->]. eexists; reflexivity.
Qed.

Lemma get_index_none leaf : forall hs, get_index leaf hs = None -> ~ In leaf hs.
Proof. intros hs E I. destruct (get_index_in leaf hs I) as [i E']. congruence. Qed.

(** * Completeness *)
Lemma log2_up_le_15 n : (N.of_nat n <= 32768)%N -> (depth_int n <= 15)%nat.
Proof.
  intro Hn. unfold depth_int.
  assert (N.log2_up (N.of_nat n) <= N.log2_up 32768)%N by (apply N.log2_up_le_mono; exact Hn).
  change (N.log2_up 32768) with 15%N in *. lia.
Qed.

(** What a successful MerkleLeafPath returns, for any depth [d] with [length hs <= 2^d]. *)
Lemma leaf_path_gen_shape depthf data hs p :
  (forall d, depthf (length hs) = Some d -> (length hs <= 2 ^ d)%nat) ->
  merkle_leaf_path_gen H depthf data hs = inr p ->
  exists d index,
    depthf (length hs) = Some d /\ (index < length hs)%nat /\ nth index hs z = hash_leaf data /\
    (leaf_path_size (Z.of_nat (length hs)) (Z.of_nat (length data)) (Z.of_nat UINT256_SIZE) <= MP_MAX_SIZE)%Z /\
    p = write_varbytes data ++ encode (steps_up d hs index).
Proof.
  intros Hd E. unfold merkle_leaf_path_gen in E.
  destruct (MP_MAX_SIZE <? _)%Z eqn:Sz; [discriminate|]. apply Z.ltb_ge in Sz.
  destruct (get_index (hash_leaf data) hs) as [index|] eqn:G; [|discriminate].
  destruct (get_index_some _ _ _ G) as [Hi Hn].
  destruct (depthf (length hs)) as [d|] eqn:D; [|discriminate].
  rewrite (path_loop_steps hs d d index) in E by (rewrite ?Nat.sub_diag; simpl; lia).
  rewrite Nat.sub_diag in E. simpl up in E. injection E as <-.
  exists d, index. repeat split; auto.
Qed.

Theorem path_complete_gen depthf data hs p :
  (forall d, depthf (length hs) = Some d -> (length hs <= 2 ^ d)%nat /\ (d < 32)%nat) ->
  Forall len32 hs ->
  merkle_leaf_path_gen H depthf data hs = inr p ->
  forall t d, depthf (length hs) = Some d -> (d + length t < 32)%nat ->
  merkle_prove H (p ++ t) (level_root H hs d) = inr data.
Proof.
  intros Hd F E t d Dd Ht.
  destruct (leaf_path_gen_shape depthf data hs p (fun d D => proj1 (Hd d D)) E)
    as [d' [index [D [Hi [Hn [Sz ->]]]]]].
  rewrite Dd in D. injection D as <-.
  destruct (Hd d Dd) as [Hl Hd32].
  assert (Ok : steps_ok (steps_up d hs index)) by (apply steps_up_ok; assumption).
  pose proof (steps_up_length d hs index) as Ls.
  rewrite <- app_assoc.
  rewrite prove_eval; [| exact Ok | lia |].
  - rewrite <- Hn. rewrite climb_steps by lia. rewrite level_root_up.
    rewrite (proj2 (bytes_eqb_eq _ _) eq_refl). reflexivity.
  - rewrite !app_length, encode_length by exact Ok. unfold write_varbytes. rewrite app_length, write_varuint_length.
    unfold leaf_path_size, MP_MAX_SIZE in Sz.
    destruct (getVarUintSize_cases (N.of_nat (length data))) as [[_ G]|[[_ G]|[[_ G]|[_ G]]]]; rewrite G;
      unfold two64; lia.
Qed.

(** The size check of MerkleLeafPath bounds the depth well below 32. *)
Lemma size_bounds_depth (data : bytes) (hs : list bytes) :
  (leaf_path_size (Z.of_nat (length hs)) (Z.of_nat (length data)) (Z.of_nat UINT256_SIZE) <= MP_MAX_SIZE)%Z ->
  (N.of_nat (length hs) <= 32768)%N.
Proof. unfold leaf_path_size, MP_MAX_SIZE. replace UINT256_SIZE with 32%nat by reflexivity. lia. Qed.

Theorem path_complete data hs p (t : bytes) :
  Forall len32 hs -> merkle_leaf_path H data hs = inr p -> (length t <= 16)%nat ->
  merkle_prove H (p ++ t) (path_root H hs) = inr data.
Proof.
  intros F E Ht. unfold merkle_leaf_path in E.
  assert (Sz : (leaf_path_size (Z.of_nat (length hs)) (Z.of_nat (length data)) (Z.of_nat UINT256_SIZE) <= MP_MAX_SIZE)%Z).
  { unfold merkle_leaf_path_gen in E. destruct (MP_MAX_SIZE <? _)%Z eqn:S; [discriminate|]. apply Z.ltb_ge in S. exact S. }
  assert (Hne : (1 <= length hs)%nat).
  { unfold merkle_leaf_path_gen in E. destruct (MP_MAX_SIZE <? _)%Z; [discriminate|].
    destruct hs; [discriminate|simpl; lia]. }
  pose proof (log2_up_le_15 _ (size_bounds_depth data hs Sz)) as D15.
  unfold path_root.
  apply (path_complete_gen (fun n => Some (depth_int n)) data hs p); auto; try lia.
  intros d [= <-]. split; [apply depth_int_spec; exact Hne|lia].
Qed.

(** A member of the list within the size bound always gets a path (no error, no panic). *)
Theorem path_generated data hs :
  In (hash_leaf data) hs ->
  (leaf_path_size (Z.of_nat (length hs)) (Z.of_nat (length data)) (Z.of_nat UINT256_SIZE) <= MP_MAX_SIZE)%Z ->
  exists p, merkle_leaf_path H data hs = inr p.
Proof.
  intros I Sz. unfold merkle_leaf_path, merkle_leaf_path_gen.
  apply Z.ltb_ge in Sz. rewrite Sz.
  destruct (get_index_in _ _ I) as [index G]. rewrite G.
  destruct (get_index_some _ _ _ G) as [Hi _].
  rewrite (path_loop_steps hs _ _ index) by (rewrite ?Nat.sub_diag; simpl; lia).
  eexists; reflexivity.
Qed.

(** MerkleLeafPath reports exactly: too large, not a member, or a path. It never panics. *)
Theorem leaf_path_no_panic data hs : merkle_leaf_path H data hs <> inl EPanic.
Proof.
  unfold merkle_leaf_path, merkle_leaf_path_gen.
  destruct (MP_MAX_SIZE <? _)%Z; [discriminate|].
  destruct (get_index (hash_leaf data) hs) as [index|] eqn:G; [|discriminate].
  destruct (get_index_some _ _ _ G) as [Hi _].
  rewrite (path_loop_steps hs _ _ index) by (rewrite ?Nat.sub_diag; simpl; lia). discriminate.
Qed.

Theorem leaf_path_not_found data hs : merkle_leaf_path H data hs = inl ENotFound -> ~ In (hash_leaf data) hs.
Proof.
  unfold merkle_leaf_path, merkle_leaf_path_gen.
  destruct (MP_MAX_SIZE <? _)%Z; [discriminate|].
  destruct (get_index (hash_leaf data) hs) as [index|] eqn:G.
  - destruct (get_index_some _ _ _ G) as [Hi _].
    rewrite (path_loop_steps hs _ _ index) by (rewrite ?Nat.sub_diag; simpl; lia). discriminate.
  - intros _. apply get_index_none, G.
Qed.

(** * Soundness *)
(** What an accepted proof yields, as data (constructive: the collision pair is computed from the
    path and the list, no classical reasoning, no assumption that [H] is collision free):
      - the leaf hash of the value is in the list, or
      - two different byte strings with the same hash (this includes the leaf/inner confusion
        pair [0x00 :: v] vs [0x01 :: l ++ r]), or
      - an element of the list is itself the inner-node hash of two 32-byte strings (impossible
        without a collision when the list holds leaf hashes: see [prove_sound_leaves]). *)
Inductive witness (hs : list bytes) (v : bytes) : Type :=
| W_member : In (hash_leaf v) hs -> witness hs v
| W_collision : forall x y : bytes, x <> y -> H x = H y -> witness hs v
| W_node_as_leaf : forall h a b, In h hs -> len32 a -> len32 b -> h = hash_children a b -> witness hs v.

Lemma witness_incl l1 l2 v : incl l1 l2 -> witness l1 v -> witness l2 v.
Proof.
  intros I [M|x y N E|h a b M La Lb E].
  - apply W_member, I, M.
  - exact (W_collision _ _ x y N E).
  - exact (W_node_as_leaf _ _ h a b (I _ M) La Lb E).
Qed.

Definition climbR (h : bytes) (rsteps : list step) : bytes :=
  fold_right (fun s acc => apply_step acc s) h rsteps.

Lemma climb_rev h steps : climb h steps = climbR h (rev steps).
Proof. unfold climb, climbR. rewrite fold_left_rev_right. reflexivity. Qed.

Lemma climbR_len v rsteps : len32 (climbR (hash_leaf v) rsteps).
Proof.
  destruct rsteps as [|s r]; simpl; [apply hash_leaf_len|].
  unfold apply_step. destruct (_ =? _)%N; apply H_len.
Qed.

Lemma split_width_bounds n : (2 <= n)%nat ->
  (1 <= N.to_nat (split_width (N.of_nat n)) < n)%nat.
Proof.
  intro Hn. destruct (split_width_nat n Hn) as [j [E [A B]]]. rewrite E.
  assert (1 <= 2 ^ j)%nat by (apply Nat.neq_0_lt_0, Nat.pow_nonzero; lia). lia.
Qed.

Lemma node_preimage_neq a b c d : a ++ b <> c ++ d -> MP_NODE_PREFIX :: a ++ b <> MP_NODE_PREFIX :: c ++ d.
Proof. intros N E. injection E as E. exact (N E). Qed.

Lemma leaf_node_preimage_neq v a b : MP_LEAF_PREFIX :: v <> MP_NODE_PREFIX :: a ++ b.
Proof. intro E. injection E as E _. exact (prefixes_differ E). Qed.

Lemma sound_core v f : forall l rsteps,
  (length l <= f)%nat -> (1 <= length l)%nat -> Forall len32 l -> steps_ok rsteps ->
  climbR (hash_leaf v) rsteps = rfc_root_fuel H f l -> witness l v.
Proof.
  induction f; intros l rsteps Hf Hl F Ok E; [exfalso; lia|].
  destruct (le_lt_dec (length l) 1) as [L1|L2].
  - destruct l as [|x [|? ?]]; simpl in Hl, L1; try (exfalso; lia).
    cbn [rfc_root_fuel] in E.
    destruct rsteps as [|[fl sib] r].
    + apply W_member. left. symmetry. exact E.
    + cbn [climbR fold_right] in E. fold (climbR (hash_leaf v) r) in E.
      pose proof (Forall_inv Ok) as Hs. pose proof (Forall_inv_tail Ok) as Ok'. cbn [snd] in Hs.
      pose proof (climbR_len v r) as Lc.
      unfold apply_step in E; cbn [fst snd] in E. destruct (fl =? MP_LEFT)%N.
      * exact (W_node_as_leaf [x] v x sib _ (in_eq x []) Hs Lc (eq_sym E)).
      * exact (W_node_as_leaf [x] v x _ sib (in_eq x []) Lc Hs (eq_sym E)).
  - rewrite rfc_unfold in E by lia. cbv zeta in E.
    pose proof (split_width_bounds (length l) ltac:(lia)) as Kb.
    set (k := N.to_nat (split_width (N.of_nat (length l)))) in *.
    set (a := firstn k l) in *. set (b := skipn k l) in *.
    assert (La : length a = k) by (unfold a; rewrite firstn_length; lia).
    assert (Lb : length b = (length l - k)%nat) by (unfold b; apply skipn_length).
    assert (Fa : Forall len32 a) by (apply Forall_forall; intros x I; apply (proj1 (Forall_forall _ _) F); unfold a in I; apply (firstn_In _ _ _ I) || (rewrite <- (firstn_skipn k l); apply in_or_app; left; exact I)).
    assert (Fb : Forall len32 b) by (apply Forall_forall; intros x I; apply (proj1 (Forall_forall _ _) F); rewrite <- (firstn_skipn k l); apply in_or_app; right; exact I).
    assert (Ia : incl a l) by (intros x I; rewrite <- (firstn_skipn k l); apply in_or_app; left; exact I).
    assert (Ib : incl b l) by (intros x I; rewrite <- (firstn_skipn k l); apply in_or_app; right; exact I).
    pose proof (rfc_root_len f a Fa) as Lra. pose proof (rfc_root_len f b Fb) as Lrb.
    set (ra := rfc_root_fuel H f a) in *. set (rb := rfc_root_fuel H f b) in *.
    destruct rsteps as [|[fl sib] r].
    + (* the leaf hash of the value equals an inner node: leaf/inner confusion pair *)
      cbn [climbR fold_right] in E.
      exact (W_collision _ _ _ _ (leaf_node_preimage_neq v ra rb) E).
    + cbn [climbR fold_right] in E. fold (climbR (hash_leaf v) r) in E.
      pose proof (Forall_inv Ok) as Hs. pose proof (Forall_inv_tail Ok) as Ok'. cbn [snd] in Hs.
      pose proof (climbR_len v r) as Lc.
      set (cur := climbR (hash_leaf v) r) in *.
      unfold apply_step in E; cbn [fst snd] in E. destruct (fl =? MP_LEFT)%N.
      * destruct (list_eq_dec N.eq_dec (sib ++ cur) (ra ++ rb)) as [Q|Q].
        -- destruct (app_eq_len sib ra cur rb ltac:(unfold len32 in *; congruence) Q) as [_ Q2].
           apply (witness_incl b l v Ib). apply (IHf b r); try assumption; try lia.
        -- exact (W_collision _ _ _ _ (node_preimage_neq _ _ _ _ Q) E).
      * destruct (list_eq_dec N.eq_dec (cur ++ sib) (ra ++ rb)) as [Q|Q].
        -- destruct (app_eq_len cur ra sib rb ltac:(unfold len32 in *; congruence) Q) as [Q1 _].
           apply (witness_incl a l v Ia). apply (IHf a r); try assumption; try lia.
        -- exact (W_collision _ _ _ _ (node_preimage_neq _ _ _ _ Q) E).
Qed.

Lemma next_hash_len s v s' : next_hash s = (v, false, s') -> len32 v.
Proof.
  unfold next_hash, next_fixed, next_bytes. replace UINT256_SIZE with 32%nat by reflexivity.
  destruct ((two64 <=? N.of_nat (off s) + N.of_nat 32)%N || (N.of_nat (length (buf s)) <? N.of_nat (off s) + N.of_nat 32)%N) eqn:C.
  - discriminate.
  - intro E. injection E as <- _. apply orb_false_iff in C. destruct C as [_ C]. apply N.ltb_ge in C.
    unfold len32. rewrite slice_length; [reflexivity|]. lia.
Qed.

Lemma prove_loop_sound n : forall s h r, prove_loop H n s h = inr r ->
  {steps | r = climb h steps /\ steps_ok steps}.
Proof.
  induction n; intros s h r E.
  - injection E as <-. exists []. split; [reflexivity|constructor].
  - cbn [prove_loop] in E.
    destruct (next_byte s) as [[f e] s1]. destruct e; [discriminate|].
    destruct (next_hash s1) as [[v e2] s2] eqn:NH. destruct e2; [discriminate|].
    destruct (IHn _ _ _ E) as [steps [-> Ok]].
    exists ((f, v) :: steps). split; [reflexivity|].
    constructor; [exact (next_hash_len _ _ _ NH)|exact Ok].
Qed.

(** Every accepted path is a value followed by a chain of well-formed steps that climbs from the
    value's leaf hash to the root. *)
Lemma prove_accepts p root v : merkle_prove H p root = inr v ->
  {steps | climb (hash_leaf v) steps = root /\ steps_ok steps}.
Proof.
  unfold merkle_prove. destruct (next_varbytes (src_new p)) as [[[[value sz] irr] eof] s1].
  destruct (eof || irr); [discriminate|].
  destruct (prove_loop H _ s1 (hash_leaf value)) as [e|h] eqn:PL; [discriminate|].
  destruct (bytes_eqb h root) eqn:B; [|discriminate]. intro E. injection E as <-.
  apply bytes_eqb_eq in B. destruct (prove_loop_sound _ _ _ _ PL) as [steps [-> Ok]].
  exists steps. split; assumption.
Qed.

Theorem prove_sound_rfc hs p v :
  hs <> [] -> Forall len32 hs -> merkle_prove H p (rfc_root H hs) = inr v -> witness hs v.
Proof.
  intros Hne F E. destruct (prove_accepts _ _ _ E) as [steps [C Ok]].
  rewrite climb_rev in C.
  apply (sound_core v (length hs) hs (rev steps)); auto.
  - destruct hs; simpl; [congruence|lia].
  - apply Forall_rev, Ok.
Qed.

Theorem prove_sound hs p v :
  hs <> [] -> Forall len32 hs -> merkle_prove H p (path_root H hs) = inr v -> witness hs v.
Proof. intros Hne F E. rewrite pairwise_eq_rfc in E by exact Hne. exact (prove_sound_rfc hs p v Hne F E). Qed.

(** When the list holds leaf hashes (what PushCrossState appends), the third alternative is a
    collision as well. *)
Definition collision : Type := {xy : bytes * bytes | fst xy <> snd xy /\ H (fst xy) = H (snd xy)}.

Lemma in_map_sig (f : bytes -> bytes) h : forall xs, In h (map f xs) -> {x | f x = h}.
Proof.
  induction xs as [|x xs IH]; intro I; [destruct I|].
  destruct (list_eq_dec N.eq_dec (f x) h) as [E|N]; [exists x; exact E|].
  apply IH. destruct I as [I|I]; [contradiction|exact I].
Qed.

Theorem prove_sound_leaves xs p v :
  xs <> [] -> merkle_prove H p (path_root H (map hash_leaf xs)) = inr v ->
  (In (hash_leaf v) (map hash_leaf xs)) + collision.
Proof.
  intros Hne E.
  assert (F : Forall len32 (map hash_leaf xs)).
  { apply Forall_forall. intros h I. apply in_map_iff in I. destruct I as [x [<- _]]. apply hash_leaf_len. }
  assert (Hne' : map hash_leaf xs <> []) by (destruct xs; simpl; congruence).
  destruct (prove_sound _ p v Hne' F E) as [M|x y N Q|h a b M La Lb Q].
  - left. exact M.
  - right. exists (x, y). split; assumption.
  - right. destruct (in_map_sig hash_leaf h xs M) as [x Ex].
    exists (MP_LEAF_PREFIX :: x, MP_NODE_PREFIX :: a ++ b). split.
    + apply leaf_node_preimage_neq.
    + cbn [fst snd]. unfold MerklePath.hash_leaf, MerklePath.hash_children in *. congruence.
Qed.

Theorem prove_sound_leaves_rfc xs p v :
  xs <> [] -> merkle_prove H p (rfc_root H (map hash_leaf xs)) = inr v ->
  (In (hash_leaf v) (map hash_leaf xs)) + collision.
Proof.
  intros Hne E. apply (prove_sound_leaves xs p v Hne).
  rewrite pairwise_eq_rfc by (destruct xs; simpl; congruence). exact E.
Qed.

(** Without the leaf-hash premise the third alternative is real: a one-element list whose element
    is an inner-node hash lets a path prove a value whose leaf hash is not that element. *)
Lemma node_as_leaf_accepts v sib : len32 sib -> (N.of_nat (length v) < 4294967296)%N ->
  merkle_prove H (write_varbytes v ++ MP_RIGHT :: sib)
               (path_root H [hash_children (hash_leaf v) sib]) = inr v.
Proof.
  intros Ls Lv.
  pose proof (prove_eval v [(MP_RIGHT, sib)] [] (path_root H [hash_children (hash_leaf v) sib])) as P.
  cbn [encode flat_map fst snd app] in P. rewrite !app_nil_r in P. rewrite P.
  - unfold climb, apply_step; cbn [fold_left fst snd]. rewrite left_right_differ.
    change (path_root H [hash_children (hash_leaf v) sib]) with (hash_children (hash_leaf v) sib).
    rewrite (proj2 (bytes_eqb_eq _ _) eq_refl). reflexivity.
  - constructor; [exact Ls|constructor].
  - simpl. lia.
  - rewrite app_length. cbn [length]. unfold write_varbytes. rewrite app_length, write_varuint_length.
    unfold len32 in Ls. rewrite Ls. replace MP_HASH_SIZE with 32%nat by reflexivity.
    destruct (getVarUintSize_cases (N.of_nat (length v))) as [[_ G]|[[_ G]|[[_ G]|[_ G]]]]; rewrite G;
      unfold two64; lia.
Qed.

Lemma next_varuint_eof_zero s c sz i s' : next_varuint s = (c, sz, i, true, s') -> c = 0%N.
Proof.
  unfold next_varuint. destruct (next_byte s) as [[fb e] sx]. destruct e.
  - intro Q; inversion Q; reflexivity.
  - unfold next_uint16, next_uint32, next_uint64, next_uint.
    destruct (fb =? 253)%N; [destruct (next_bytes sx _) as [[? []] ?]; intro Q; inversion Q; reflexivity|].
    destruct (fb =? 254)%N; [destruct (next_bytes sx _) as [[? []] ?]; intro Q; inversion Q; reflexivity|].
    destruct (fb =? 255)%N; [destruct (next_bytes sx _) as [[? []] ?]; intro Q; inversion Q; reflexivity|].
    intro Q; inversion Q.
Qed.

(** * The value prefix
    MerkleProve rejects a non-minimal length prefix ([irregular]) and a truncated value ([eof]), so
    an accepted path starts with exactly the canonical encoding [WriteVarBytes(value)]: the bytes
    of a path determine the proved value and one value has one prefix. *)
Theorem prove_value_prefix p root v :
  wf_bytes p = true -> (N.of_nat (length p) < two64)%N ->
  merkle_prove H p root = inr v -> exists rest, p = write_varbytes v ++ rest.
Proof.
  intros Wf Hb. unfold merkle_prove.
  destruct (next_varbytes (src_new p)) as [[[[value sz] irr] eof] s2] eqn:NV.
  destruct (eof || irr) eqn:EI; [discriminate|]. apply orb_false_iff in EI. destruct EI as [-> ->].
  intro E. assert (value = v).
  { destruct (prove_loop H _ s2 _); [discriminate|]. destruct (bytes_eqb _ _); [|discriminate]. congruence. }
  subst value. clear E.
  pose proof (src_new_ok p Hb) as Ok0.
  unfold next_varbytes in NV.
  pose proof (next_varuint_safe (src_new p) Ok0) as Safe.
  destruct (next_varuint (src_new p)) as [[[[count size] irr0] eof0] s1] eqn:NU. cbn [snd] in Safe.
  destruct Safe as [Eb [Ho1 Ho2]]. cbn [src_new buf off] in Eb, Ho1, Ho2.
  assert (Ok1 : src_ok s1) by (split; rewrite Eb; [exact Ho2|exact Hb]).
  assert (Canon : eof0 = false -> irr0 = false ->
          firstn (off s1) p = write_varuint count).
  { intros -> ->. pose proof (varuint_canonical _ _ _ _ _ Ok0 Wf NU) as [_ [_ C]].
    cbn [src_new buf off] in C. unfold slice in C. rewrite Nat.sub_0_r in C. simpl skipn in C.
    apply C. reflexivity. }
  destruct (0 <? count)%N eqn:Cnt.
  - pose proof (next_bytes_spec s1 count Ok1) as NB.
    destruct (next_bytes s1 count) as [[d eof'] s2'] eqn:NBe.
    injection NV as -> _ -> -> ->.
    destruct NB as [Eb2 [[Ho3 Ho4] [Ed [Hoff _]]]]. rewrite Eb in *.
    specialize (Hoff eq_refl).
    assert (eof0 = false).
    { destruct eof0; [|reflexivity]. rewrite (next_varuint_eof_zero _ _ _ _ _ NU) in Cnt. discriminate. }
    specialize (Canon H0 eq_refl).
    exists (skipn (off s2) p).
    assert (Ld : N.of_nat (length v) = count).
    { rewrite Ed. rewrite slice_length by lia. lia. }
    unfold write_varbytes. rewrite Ld, <- Canon, Ed. unfold slice.
    rewrite <- app_assoc.
    rewrite <- (firstn_skipn (off s1) p) at 1. f_equal.
    rewrite <- (firstn_skipn (off s2 - off s1) (skipn (off s1) p)) at 1. f_equal.
    rewrite skipn_add. f_equal. lia.
  - injection NV as <- _ -> -> ->.
    specialize (Canon eq_refl eq_refl). apply N.ltb_ge in Cnt. assert (count = 0%N) by lia. subst count.
    exists (skipn (off s2) p). unfold write_varbytes. cbn [length N.of_nat]. rewrite app_nil_r, <- Canon.
    symmetry. apply firstn_skipn.
Qed.

End WithHash.
