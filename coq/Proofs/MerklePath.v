(** Proofs about the cross-chain merkle path model (Model/MerklePath.v):
      - [pairwise_eq_rfc]   the level-by-level root equals the RFC-6962 root;
      - [path_complete]     a generated path proves its value;
      - [prove_sound]       an accepted path yields membership, or an explicit collision, or an
                            element of the list that is itself an inner-node hash;
      - parser facts: trailing bytes, over-long paths, no panic.
    The hash function is a section variable; nothing is assumed about it except the digest
    length.  No collision-freedom assumption anywhere. *)
From Coq Require Import List Bool Arith NArith ZArith Lia ZifyN ZifyNat ZifyBool.
Import ListNotations.
From Ont Require Import Lib.Bytes Gen.CodecConsts Gen.MerklePathConsts Gen.MerklePathFormulas
  Model.Codec Proofs.Codec Model.MerklePath.
Open Scope bool_scope.
Ltac Zify.zify_post_hook ::= Z.to_euclidean_division_equations.

(** Facts about the generated constants the proofs rely on (re-checked on every run). *)
Lemma hash_size_32 : MP_HASH_SIZE = 32%nat /\ UINT256_SIZE = 32%nat. Proof. split; reflexivity. Qed.
Lemma prefixes_differ : MP_LEAF_PREFIX <> MP_NODE_PREFIX. Proof. discriminate. Qed.
Lemma left_right_differ : (MP_RIGHT =? MP_LEFT)%N = false. Proof. reflexivity. Qed.
Lemma left_is_left : (MP_LEFT =? MP_LEFT)%N = true. Proof. reflexivity. Qed.
Lemma max_size_val : (MP_MAX_SIZE <= 1048576)%Z. Proof. unfold MP_MAX_SIZE; lia. Qed.

Lemma parent_index_spec i : (2 * parent_index i <= i <= 2 * parent_index i + 1)%nat.
Proof. unfold parent_index, path_parent_index. lia. Qed.

Lemma prove_steps_exact k t : (k + t < 32)%nat ->
  Z.to_nat (prove_steps (Z.of_nat (33 * k + t)) (Z.of_nat UINT256_SIZE)) = k.
Proof. intro Hk. unfold prove_steps. replace UINT256_SIZE with 32%nat by reflexivity. lia. Qed.

Lemma prove_steps_long k : (32 <= k)%nat ->
  (k < Z.to_nat (prove_steps (Z.of_nat (33 * k)) (Z.of_nat UINT256_SIZE)))%nat.
Proof. intro Hk. unfold prove_steps. replace UINT256_SIZE with 32%nat by reflexivity. lia. Qed.

(** Induction two elements at a time. *)
Lemma pair_ind {A} (P : list A -> Prop) :
  P [] -> (forall a, P [a]) -> (forall a b r, P r -> P (a :: b :: r)) -> forall l, P l.
Proof.
  intros H0 H1 H2. fix IH 1. intros [|a [|b r]]; [exact H0|apply H1|apply H2, IH].
Qed.

Lemma app_eq_len {A} (a c b d : list A) : length a = length c -> a ++ b = c ++ d -> a = c /\ b = d.
Proof.
  revert c; induction a as [|x a IH]; intros [|y c] Hl E; simpl in *; try discriminate.
  - split; [reflexivity|exact E].
  - injection E as -> E. injection Hl as Hl. destruct (IH c Hl E) as [-> ->]. split; reflexivity.
Qed.

Section WithHash.
Variable H : bytes -> bytes.
Hypothesis H_len : forall x, length (H x) = MP_HASH_SIZE.

Notation hash_leaf := (hash_leaf H).
Notation hash_children := (hash_children H).
Notation next_level := (next_level H).
Notation z := zero_hash.

Definition len32 (b : bytes) : Prop := length b = MP_HASH_SIZE.

Lemma hash_children_len a b : len32 (hash_children a b). Proof. apply H_len. Qed.
Lemma hash_leaf_len v : len32 (hash_leaf v). Proof. apply H_len. Qed.

(** * next_level *)
Lemma next_level_bounds l :
  (length l <= 2 * length (next_level l) <= length l + 1)%nat.
Proof. induction l using pair_ind; simpl in *; lia. Qed.

(** The allocation formula of the Go code is the length of the level. *)
Lemma next_level_length l :
  Z.of_nat (length (next_level l)) = next_level_len (Z.of_nat (length l)).
Proof. unfold next_level_len. induction l using pair_ind; cbn [MerklePath.next_level length] in *; lia. Qed.

Lemma next_level_len32 l : Forall len32 l -> Forall len32 (next_level l).
Proof.
  induction l using pair_ind; intro F; simpl; auto.
  inversion F as [|? ? _ F1]; inversion F1 as [|? ? _ F2]; subst.
  constructor; [apply hash_children_len|auto].
Qed.

Lemma next_level_app a b : (length a mod 2 = 0)%nat -> next_level (a ++ b) = next_level a ++ next_level b.
Proof.
  induction a using pair_ind; intro E; cbn [length] in E.
  - reflexivity.
  - discriminate.
  - cbn [app MerklePath.next_level]. f_equal. apply IHa. lia.
Qed.

Lemma nth_next_level l : forall p,
  ((2 * p + 1 < length l)%nat -> nth p (next_level l) z = hash_children (nth (2 * p) l z) (nth (2 * p + 1) l z)) /\
  ((2 * p + 1 = length l)%nat -> nth p (next_level l) z = nth (2 * p) l z).
Proof.
  induction l using pair_ind; intro p; simpl length.
  - split; lia.
  - split; [lia|]. intro E. assert (p = 0)%nat by lia. subst. reflexivity.
  - destruct p as [|p].
    + split; intro; [reflexivity|lia].
    + replace (2 * S p)%nat with (S (S (2 * p))) by lia.
      replace (S (S (2 * p)) + 1)%nat with (S (S (2 * p + 1))) by lia.
      destruct (IHl p) as [A B]. split; intro E; cbn [MerklePath.next_level nth]; [apply A|apply B]; lia.
Qed.

(** * Levels *)
Fixpoint up (d : nat) (l : list bytes) : list bytes :=
  match d with O => l | S d' => up d' (next_level l) end.

Lemma up_S_out d : forall l, up (S d) l = next_level (up d l).
Proof. induction d; intro l; [reflexivity|]. change (up (S (S d)) l) with (up (S d) (next_level l)). rewrite IHd. reflexivity. Qed.

Lemma up_add a : forall b l, up (a + b) l = up b (up a l).
Proof. induction a; intros b l; simpl; [reflexivity|apply IHa]. Qed.

Lemma up_single d x : up d [x] = [x].
Proof. induction d; simpl; auto. Qed.

Lemma up_len32 d : forall l, Forall len32 l -> Forall len32 (up d l).
Proof. induction d; intros l F; simpl; [exact F|apply IHd, next_level_len32, F]. Qed.

Lemma up_length_one d : forall l, (1 <= length l <= 2 ^ d)%nat -> length (up d l) = 1%nat.
Proof.
  induction d; intros l Hl; simpl in *; [lia|].
  apply IHd. pose proof (next_level_bounds l). lia.
Qed.

Lemma up_stable d1 d2 l : length (up d1 l) = 1%nat -> (d1 <= d2)%nat -> up d2 l = up d1 l.
Proof.
  intros L Hd. replace d2 with (d1 + (d2 - d1))%nat by lia. rewrite up_add.
  destruct (up d1 l) as [|x [|? ?]]; try discriminate. apply up_single.
Qed.

Lemma levels_up_acc d : forall l acc, levels_up H d l acc = levels_up H d l [] ++ acc.
Proof.
  induction d; intros l acc; simpl; [reflexivity|].
  rewrite (IHd _ (l :: acc)), (IHd _ [l]), <- app_assoc. reflexivity.
Qed.

Lemma levels_up_length d : forall l, length (levels_up H d l []) = S d.
Proof.
  induction d; intro l; simpl; [reflexivity|].
  rewrite levels_up_acc, app_length, IHd. simpl. lia.
Qed.

Lemma levels_nth d : forall l i, (i <= d)%nat -> nth i (levels_up H d l []) [] = up (d - i) l.
Proof.
  induction d; intros l i Hi.
  - assert (i = 0)%nat by lia. subst. reflexivity.
  - simpl levels_up. rewrite levels_up_acc. destruct (le_lt_dec i d) as [L|G].
    + rewrite app_nth1 by (rewrite levels_up_length; lia). rewrite IHd by exact L.
      replace (S d - i)%nat with (S (d - i)) by lia. reflexivity.
    + assert (i = S d) by lia. subst. rewrite app_nth2 by (rewrite levels_up_length; lia).
      rewrite levels_up_length, Nat.sub_diag. reflexivity.
Qed.

Lemma level_root_up hs d : level_root H hs d = nth 0 (up d hs) z.
Proof. unfold level_root, merkle_hashes. rewrite levels_nth by lia. rewrite Nat.sub_0_r. reflexivity. Qed.

(** * The level-by-level root is the RFC-6962 root *)
Lemma up_app j : forall a b, length a = (2 ^ j)%nat -> (1 <= length b <= 2 ^ j)%nat ->
  up (S j) (a ++ b) = [hash_children (nth 0 (up j a) z) (nth 0 (up j b) z)].
Proof.
  induction j; intros a b La Lb.
  - simpl in La, Lb. destruct a as [|x [|? ?]]; try discriminate. destruct b as [|y [|? ?]]; simpl in Lb; try lia.
    reflexivity.
  - change (up (S (S j)) (a ++ b)) with (up (S j) (next_level (a ++ b))).
    assert (E2 : (2 ^ S j = 2 * 2 ^ j)%nat) by (simpl; lia).
    rewrite next_level_app by lia.
    pose proof (next_level_bounds a). pose proof (next_level_bounds b).
    rewrite IHj by lia. reflexivity.
Qed.

Lemma split_width_spec w : (2 <= w)%N ->
  exists j, split_width w = (2 ^ j)%N /\ (2 ^ j < w <= 2 * 2 ^ j)%N.
Proof.
  intro Hw. unfold split_width. exists (N.log2 (w - 1)).
  rewrite N.size_log2 by lia. rewrite N.sub_1_r, N.pred_succ, N.shiftl_1_l.
  split; [reflexivity|].
  pose proof (N.log2_spec (w - 1) ltac:(lia)) as [A B]. rewrite N.pow_succ_r' in B. lia.
Qed.

Lemma split_width_nat n : (2 <= n)%nat ->
  exists j, N.to_nat (split_width (N.of_nat n)) = (2 ^ j)%nat /\ (2 ^ j < n <= 2 * 2 ^ j)%nat.
Proof.
  intro Hn. destruct (split_width_spec (N.of_nat n) ltac:(lia)) as [j [E [A B]]].
  exists (N.to_nat j). rewrite E.
  assert (P : N.to_nat (2 ^ j) = (2 ^ N.to_nat j)%nat) by (rewrite N2Nat.inj_pow; reflexivity).
  rewrite P. split; [reflexivity|]. rewrite <- P. lia.
Qed.

Lemma rfc_unfold f l : (2 <= length l)%nat ->
  rfc_root_fuel H (S f) l =
  let k := N.to_nat (split_width (N.of_nat (length l))) in
  hash_children (rfc_root_fuel H f (firstn k l)) (rfc_root_fuel H f (skipn k l)).
Proof. destruct l as [|x [|y r]]; simpl length; intro; try lia. reflexivity. Qed.

Lemma rfc_eq_level f : forall l d, (length l <= f)%nat -> (1 <= length l <= 2 ^ d)%nat ->
  rfc_root_fuel H f l = nth 0 (up d l) z.
Proof.
  induction f; intros l d Hf Hl; [lia|].
  destruct (le_lt_dec (length l) 1) as [L1|L2].
  - destruct l as [|x [|? ?]]; simpl in *; try lia. rewrite up_single. reflexivity.
  - rewrite rfc_unfold by lia. cbv zeta.
    destruct (split_width_nat (length l) ltac:(lia)) as [j [Ek [A B]]]. rewrite Ek.
    set (a := firstn (2 ^ j) l). set (b := skipn (2 ^ j) l).
    assert (La : length a = (2 ^ j)%nat) by (unfold a; rewrite firstn_length; lia).
    assert (Lb : length b = (length l - 2 ^ j)%nat) by (unfold b; apply skipn_length).
    rewrite (IHf a j) by lia. rewrite (IHf b j) by lia.
    assert (Hjd : (S j <= d)%nat).
    { destruct (le_lt_dec (S j) d); [assumption|].
      assert (2 ^ d <= 2 ^ j)%nat by (apply Nat.pow_le_mono_r; lia). lia. }
    assert (E : up (S j) l = [hash_children (nth 0 (up j a) z) (nth 0 (up j b) z)]).
    { rewrite <- (firstn_skipn (2 ^ j) l) at 1. apply up_app; fold a b; lia. }
    rewrite (up_stable (S j) d l) by (try rewrite E; auto). rewrite E. reflexivity.
Qed.

Lemma depth_int_spec n : (1 <= n)%nat -> (n <= 2 ^ depth_int n)%nat.
Proof.
  intro Hn. unfold depth_int.
  assert (P : (N.of_nat n <= 2 ^ N.log2_up (N.of_nat n))%N).
  { destruct (N.eq_dec (N.of_nat n) 1) as [E|E]; [rewrite E; simpl; lia|].
    apply N.log2_up_spec. lia. }
  assert (Q : N.to_nat (2 ^ N.log2_up (N.of_nat n)) = (2 ^ N.to_nat (N.log2_up (N.of_nat n)))%nat)
    by (rewrite N2Nat.inj_pow; reflexivity).
  rewrite <- Q. lia.
Qed.

Theorem pairwise_eq_rfc_d hs d : (1 <= length hs <= 2 ^ d)%nat ->
  level_root H hs d = rfc_root H hs.
Proof. intro Hl. rewrite level_root_up. unfold rfc_root. symmetry. apply rfc_eq_level; lia. Qed.

Theorem pairwise_eq_rfc hs : hs <> [] -> path_root H hs = rfc_root H hs.
Proof.
  intro Hne. unfold path_root. apply pairwise_eq_rfc_d.
  assert (1 <= length hs)%nat by (destruct hs; simpl; [congruence|lia]).
  split; [assumption|apply depth_int_spec; assumption].
Qed.

Lemma rfc_root_len f : forall l, Forall len32 l -> len32 (rfc_root_fuel H f l).
Proof.
  induction f; intros l F; [apply H_len|].
  destruct l as [|x [|y r]]; [apply H_len|inversion F; assumption|apply hash_children_len].
Qed.

(** * Path generation *)
Definition step := (N * bytes)%type.
Definition apply_step (h : bytes) (s : step) : bytes :=
  if (fst s =? MP_LEFT)%N then hash_children (snd s) h else hash_children h (snd s).
Definition climb (h : bytes) (steps : list step) : bytes := fold_left apply_step steps h.
Definition encode (steps : list step) : bytes := flat_map (fun s => fst s :: snd s) steps.
Definition steps_ok (steps : list step) : Prop := Forall (fun s => len32 (snd s)) steps.

(** The loop of MerkleLeafPath expressed on one level at a time (same tests as [path_loop]). *)
Fixpoint steps_up (d : nat) (l : list bytes) (index : nat) : list step :=
  match d with
  | O => []
  | S d' =>
    let subLen := length l in
    let nIndex := parent_index index in
    if (Z.of_nat index =? Z.of_nat subLen - 1)%Z && negb (subLen mod 2 =? 0)%nat then steps_up d' (next_level l) nIndex
    else if negb (index mod 2 =? 0)%nat then (MP_LEFT, nth (index - 1) l z) :: steps_up d' (next_level l) nIndex
    else (MP_RIGHT, nth (index + 1) l z) :: steps_up d' (next_level l) nIndex
  end.

Lemma steps_up_length d : forall l i, (length (steps_up d l i) <= d)%nat.
Proof.
  induction d; intros l i; cbn [steps_up]; [simpl; lia|].
  destruct (_ && _); [|destruct (negb _)]; cbn [length]; specialize (IHd (next_level l) (parent_index i)); lia.
Qed.

Lemma steps_up_ok d : forall l i, Forall len32 l -> (i < length l)%nat -> steps_ok (steps_up d l i).
Proof.
  induction d; intros l i F Hi; cbn [steps_up]; [constructor|].
  pose proof (parent_index_spec i) as P. pose proof (next_level_bounds l) as B.
  assert (IH : steps_ok (steps_up d (next_level l) (parent_index i))).
  { apply IHd; [apply next_level_len32, F|lia]. }
  destruct ((Z.of_nat i =? Z.of_nat (length l) - 1)%Z && negb (length l mod 2 =? 0)%nat) eqn:C1; [exact IH|].
  destruct (negb (i mod 2 =? 0)%nat) eqn:C2; constructor; try exact IH; simpl;
    apply (proj1 (Forall_forall _ _) F), nth_In; lia.
Qed.

(** [path_loop] over the tree of levels is [steps_up] on the current level; it never indexes out
    of range (no panic). *)
Lemma path_loop_steps hs d : forall i index, (i <= d)%nat -> (index < length (up (d - i) hs))%nat ->
  path_loop i (merkle_hashes H hs d) index = Some (encode (steps_up i (up (d - i) hs) index)).
Proof.
  induction i; intros index Hi Hidx; [reflexivity|].
  cbn [path_loop steps_up]. unfold merkle_hashes. rewrite levels_nth by lia.
  set (l := up (d - S i) hs) in *.
  assert (El : up (d - i) hs = next_level l).
  { unfold l. replace (d - i)%nat with (S (d - S i)) by lia. apply up_S_out. }
  pose proof (parent_index_spec index) as P. pose proof (next_level_bounds l) as B.
  assert (IH : path_loop i (merkle_hashes H hs d) (parent_index index) =
               Some (encode (steps_up i (next_level l) (parent_index index)))).
  { rewrite <- El. apply IHi; [lia|]. rewrite El. lia. }
  unfold merkle_hashes in IH.
  destruct ((Z.of_nat index =? Z.of_nat (length l) - 1)%Z && negb (length l mod 2 =? 0)%nat) eqn:C1; [exact IH|].
  destruct (negb (index mod 2 =? 0)%nat) eqn:C2.
  - rewrite (nth_error_nth' l z) by lia. rewrite IH. reflexivity.
  - assert (index + 1 < length l)%nat.
    { apply andb_false_iff in C1. apply negb_false_iff, Nat.eqb_eq in C2.
      destruct C1 as [C1|C1]; [apply Z.eqb_neq in C1; lia|].
      apply negb_false_iff, Nat.eqb_eq in C1.
      destruct (Nat.eq_dec (index + 1) (length l)); lia. }
    rewrite (nth_error_nth' l z) by lia. rewrite IH. reflexivity.
Qed.

(** Climbing the generated steps from the element at [index] reaches the top of the levels. *)
Lemma climb_steps d : forall l index, (1 <= length l <= 2 ^ d)%nat -> (index < length l)%nat ->
  climb (nth index l z) (steps_up d l index) = nth 0 (up d l) z.
Proof.
  induction d; intros l index Hl Hi.
  - simpl in *. assert (index = 0)%nat by lia. subst. reflexivity.
  - cbn [steps_up up].
    pose proof (parent_index_spec index) as P. pose proof (next_level_bounds l) as B.
    set (p := parent_index index) in *. clearbody p.
    assert (E2 : (2 ^ S d = 2 * 2 ^ d)%nat) by (simpl; lia).
    assert (IH : climb (nth p (next_level l) z) (steps_up d (next_level l) p) = nth 0 (up d (next_level l)) z)
      by (apply IHd; lia).
    destruct (nth_next_level l p) as [NA NB].
    destruct ((Z.of_nat index =? Z.of_nat (length l) - 1)%Z && negb (length l mod 2 =? 0)%nat) eqn:C1.
    + apply andb_true_iff in C1. destruct C1 as [C1 C1']. apply Z.eqb_eq in C1.
      apply negb_true_iff, Nat.eqb_neq in C1'.
      assert (index = 2 * p)%nat by lia.
      rewrite <- IH. rewrite NB by lia. subst index. reflexivity.
    + assert (Hcase : (index mod 2 <> 0 \/ (index mod 2 = 0 /\ index + 1 < length l))%nat).
      { apply andb_false_iff in C1. destruct (Nat.eq_dec (index mod 2) 0) as [E0|E0]; [right|left; exact E0].
        split; [exact E0|]. destruct C1 as [C1|C1]; [apply Z.eqb_neq in C1; lia|].
        apply negb_false_iff, Nat.eqb_eq in C1. destruct (Nat.eq_dec (index + 1) (length l)); lia. }
      destruct (negb (index mod 2 =? 0)%nat) eqn:C2.
      * apply negb_true_iff, Nat.eqb_neq in C2.
        assert (index = 2 * p + 1)%nat by lia.
        cbn [climb fold_left]. unfold apply_step at 2. cbn [fst snd]. rewrite left_is_left.
        fold (climb (hash_children (nth (index - 1) l z) (nth index l z)) (steps_up d (next_level l) p)).
        rewrite <- IH. rewrite NA by lia. subst index.
        replace (2 * p + 1 - 1)%nat with (2 * p)%nat by lia. reflexivity.
      * apply negb_false_iff, Nat.eqb_eq in C2. destruct Hcase as [Hc|[_ Hc]]; [lia|].
        assert (index = 2 * p)%nat by lia.
        cbn [climb fold_left]. unfold apply_step at 2. cbn [fst snd]. rewrite left_right_differ.
        fold (climb (hash_children (nth index l z) (nth (index + 1) l z)) (steps_up d (next_level l) p)).
        rewrite <- IH. rewrite NA by lia. subst index. reflexivity.
Qed.

(** * Parsing: what MerkleProve reads back *)
Lemma nb_at bf pre x rest : bf = pre ++ x :: rest ->
  next_byte (mkSrc bf (length pre)) = (x, false, mkSrc bf (S (length pre))).
Proof.
  intros ->. unfold next_byte; cbn [buf off].
  replace (length (pre ++ x :: rest) <=? length pre)%nat with false
    by (symmetry; apply Nat.leb_gt; rewrite app_length; simpl; lia).
  rewrite nth_middle. reflexivity.
Qed.

Lemma nb_end bf : next_byte (mkSrc bf (length bf)) = (0%N, true, mkSrc bf (length bf)).
Proof. unfold next_byte; cbn [buf off]. rewrite Nat.leb_refl. reflexivity. Qed.

Lemma nh_at bf pre v rest : bf = pre ++ v ++ rest -> len32 v -> (N.of_nat (length bf) < two64)%N ->
  next_hash (mkSrc bf (length pre)) = (v, false, mkSrc bf (length pre + 32)).
Proof.
  intros -> Lv Hb. unfold next_hash, next_fixed. replace UINT256_SIZE with (length v) by exact Lv.
  rewrite next_bytes_exact by exact Hb. rewrite Lv. reflexivity.
Qed.

Lemma nh_short bf pre rest : bf = pre ++ rest -> (length rest < 32)%nat -> (N.of_nat (length bf) < two64)%N ->
  snd (fst (next_hash (mkSrc bf (length pre)))) = true.
Proof.
  intros -> Lr Hb. unfold next_hash, next_fixed, next_bytes; cbn [buf off].
  replace UINT256_SIZE with 32%nat by reflexivity. rewrite app_length in *.
  destruct ((two64 <=? N.of_nat (length pre) + N.of_nat 32)%N || (N.of_nat (length pre + length rest) <? N.of_nat (length pre) + N.of_nat 32)%N) eqn:E.
  - reflexivity.
  - apply orb_false_iff in E. destruct E as [_ E]. apply N.ltb_ge in E. lia.
Qed.

Lemma encode_length steps : steps_ok steps -> length (encode steps) = (33 * length steps)%nat.
Proof.
  induction 1 as [|[f v] r Hs _ IH]; [reflexivity|].
  change (encode ((f, v) :: r)) with (f :: v ++ encode r).
  cbn [length snd] in *. rewrite app_length, IH. unfold len32 in Hs.
  rewrite Hs. replace MP_HASH_SIZE with 32%nat by reflexivity. lia.
Qed.

(** Running the loop over [length steps + m] iterations consumes the encoded steps and continues. *)
Lemma prove_loop_encode steps : forall pre post bf h m, steps_ok steps ->
  bf = pre ++ encode steps ++ post -> (N.of_nat (length bf) < two64)%N ->
  prove_loop H (length steps + m) (mkSrc bf (length pre)) h =
  prove_loop H m (mkSrc bf (length pre + length (encode steps))) (climb h steps).
Proof.
  induction steps as [|[f v] r IH]; intros pre post bf h m Ok E Hb.
  - simpl. rewrite Nat.add_0_r. reflexivity.
  - inversion Ok as [|? ? Hv Ok']; subst. cbn [snd] in Hv.
    cbn [length Nat.add prove_loop].
    change (encode ((f, v) :: r)) with (f :: v ++ encode r) in *.
    set (bf := pre ++ (f :: v ++ encode r) ++ post) in *.
    assert (E1 : bf = pre ++ f :: (v ++ encode r ++ post)).
    { unfold bf. cbn [app]. rewrite <- !app_assoc. reflexivity. }
    rewrite (nb_at bf pre f _ E1).
    assert (E2 : bf = (pre ++ [f]) ++ v ++ (encode r ++ post)).
    { rewrite E1, <- app_assoc. reflexivity. }
    replace (S (length pre)) with (length (pre ++ [f])) by (rewrite app_length; simpl; lia).
    rewrite (nh_at bf (pre ++ [f]) v _ E2 Hv Hb).
    assert (E3 : bf = ((pre ++ [f]) ++ v) ++ encode r ++ post).
    { rewrite E2, <- !app_assoc. reflexivity. }
    replace (length (pre ++ [f]) + 32)%nat with (length ((pre ++ [f]) ++ v))
      by (rewrite !app_length; unfold len32 in Hv; rewrite Hv; reflexivity).
    rewrite (IH _ post bf _ m Ok' E3 Hb).
    f_equal. f_equal. rewrite !app_length. cbn [length]. rewrite app_length. lia.
Qed.

Lemma varbytes_at data post : (N.of_nat (length (write_varbytes data ++ post)) < two64)%N ->
  next_varbytes (src_new (write_varbytes data ++ post)) =
  (data, ((varuint_size (N.of_nat (length data)) + N.of_nat (length data)) mod two64)%N, false, false,
   mkSrc (write_varbytes data ++ post) (length (write_varbytes data))).
Proof.
  intro Hb.
  pose proof (readback_ok (WVarBytes data) [] post eq_refl Hb) as R.
  cbn [run_wop readback fst snd run_rop] in R. unfold at_, after_ in R. cbn [app length Nat.add] in R.
  unfold src_new. destruct (next_varbytes _) as [[[[d sz] i] e] s']. injection R as -> -> -> -> ->. reflexivity.
Qed.

(** The decisive evaluation lemma: a path made of the value, [k] well-formed steps and [t]
    trailing bytes with [k + |t| < 32] is accepted iff the climbed hash is the root; the trailing
    bytes are ignored. *)
Lemma prove_eval data steps t root :
  steps_ok steps -> (length steps + length t < 32)%nat ->
  (N.of_nat (length (write_varbytes data ++ encode steps ++ t)) < two64)%N ->
  merkle_prove H (write_varbytes data ++ encode steps ++ t) root =
  if bytes_eqb (climb (hash_leaf data) steps) root then inr data else inl ERootMismatch.
Proof.
  intros Ok Hk Hb. unfold merkle_prove. rewrite varbytes_at by exact Hb. cbn [orb].
  unfold src_pos; cbn [off].
  set (wv := write_varbytes data) in *.
  replace (Z.of_nat (length (wv ++ encode steps ++ t)) - Z.of_N (N.of_nat (length wv)))%Z
    with (Z.of_nat (33 * length steps + length t)).
  2:{ rewrite !app_length, encode_length by exact Ok. lia. }
  rewrite prove_steps_exact by exact Hk.
  pose proof (prove_loop_encode steps wv t _ (hash_leaf data) 0 Ok eq_refl Hb) as P.
  rewrite Nat.add_0_r in P. rewrite P. reflexivity.
Qed.

(** A path with 32 or more steps is never accepted: the loop count [rem/32] exceeds the number of
    33-byte steps present. *)
Lemma prove_long data steps root :
  steps_ok steps -> (32 <= length steps)%nat ->
  (N.of_nat (length (write_varbytes data ++ encode steps)) < two64)%N ->
  merkle_prove H (write_varbytes data ++ encode steps) root = inl EReadByte.
Proof.
  intros Ok Hk Hb. unfold merkle_prove.
  pose proof (varbytes_at data (encode steps) Hb) as V. rewrite V. cbn [orb].
  unfold src_pos; cbn [off].
  set (wv := write_varbytes data) in *.
  replace (Z.of_nat (length (wv ++ encode steps)) - Z.of_N (N.of_nat (length wv)))%Z
    with (Z.of_nat (33 * length steps)).
  2:{ rewrite !app_length, encode_length by exact Ok. lia. }
  pose proof (prove_steps_long (length steps) Hk) as L.
  set (n := Z.to_nat _) in *.
  replace n with (length steps + S (n - length steps - 1))%nat by lia.
  assert (E : wv ++ encode steps = wv ++ encode steps ++ []) by (rewrite app_nil_r; reflexivity).
  rewrite (prove_loop_encode steps wv [] _ (hash_leaf data) _ Ok E Hb).
  cbn [prove_loop].
  replace (length wv + length (encode steps))%nat with (length (wv ++ encode steps)) by (rewrite app_length; reflexivity).
  rewrite nb_end. reflexivity.
Qed.
