(** Proofs for the counted recursions and the Invoke loop of Model/Guards.v. *)
From Coq Require Import List Bool Arith ZArith Lia.
Import ListNotations.
From Ont Require Import Gen.GuardSites Model.VmValue Model.Guards.
Local Open Scope Z_scope.

(** * cloneStruct: the counter bounds the recursion on EVERY heap, cyclic or not *)

(** invariant of a call with [f] frames left and counter [L]: f + min(L, MAX+1) >= MAX+2 *)
Definition clone_inv (f : nat) (L : Z) : Prop := Z.of_nat f + Z.min L (MAX_CLONE_LENGTH + 1) >= MAX_CLONE_LENGTH + 2.

Definition clone_good (r : cres) (L : Z) : Prop := r <> COof /\ forall L', r = CDone L' -> L' >= L.

Lemma clone_list_good : forall (rec : nat -> Z -> cres) (L0 : Z),
  (forall a L, L >= L0 + 1 -> clone_good (rec a L) L) ->
  forall l L, L >= L0 -> clone_good (clone_list rec l L) L.
Proof.
  intros rec L0 Hrec. induction l as [|v r IH]; intros L HL; cbn [clone_list].
  - split; [discriminate|]. intros L' E. inversion E. lia.
  - assert (Hr : clone_good (clone_list rec r (L + 1)) L).
    { destruct (IH (L + 1) ltac:(lia)) as [N M]. split; [exact N|]. intros L' E. specialize (M L' E). lia. }
    destruct v; try exact Hr.
    destruct (Hrec a (L + 1) ltac:(lia)) as [N M].
    destruct (rec a (L + 1)) as [L1| |] eqn:E.
    + specialize (M L1 eq_refl). destruct (IH L1 ltac:(lia)) as [N2 M2]. split; [exact N2|].
      intros L' E'. specialize (M2 L' E'). lia.
    + split; [discriminate|]. intros L' E'. discriminate.
    + contradiction.
Qed.

Lemma clone_struct_good : forall h f a L, clone_inv f L -> clone_good (clone_struct h f a L) L.
Proof.
  intros h. induction f as [|f IH]; intros a L Hinv.
  - unfold clone_inv in Hinv. cbn in Hinv. lia.
  - cbn [clone_struct]. unfold clone_over. destruct (MAX_CLONE_LENGTH <? L) eqn:G.
    + split; [discriminate|]. intros L' E. discriminate.
    + apply Z.ltb_ge in G. apply (clone_list_good (clone_struct h f) L); [|lia].
      intros a' L2 HL2. apply IH. unfold clone_inv in *. lia.
Qed.

Theorem clone_terminates : forall h a, clone_struct h clone_fuel a 0 <> COof.
Proof.
  intros h a. apply (clone_struct_good h clone_fuel a 0). unfold clone_inv, clone_fuel.
  assert (0 <= MAX_CLONE_LENGTH) by (unfold MAX_CLONE_LENGTH; lia). lia.
Qed.

(** * convertNeoVmValueHexString *)
Section ConvertProofs.
Variable plen : prim -> Z.

Definition conv_inv (f : nat) (c : Z) : Prop := Z.of_nat f + Z.min c (CONVERT_MAX_COUNT + 1) >= CONVERT_MAX_COUNT + 2.
Definition conv_good (r : vres) (c : Z) : Prop := r <> VOof /\ forall c' l', r = VDone c' l' -> c' >= c.

Lemma conv_list_good : forall (rec : hval -> Z -> Z -> vres) (c0 : Z),
  (forall v c l, c >= c0 + 1 -> conv_good (rec v c l) c) ->
  forall lst c l, c >= c0 -> conv_good (conv_list rec lst c l) c.
Proof.
  intros rec c0 Hrec. induction lst as [|v r IH]; intros c l Hc; cbn [conv_list].
  - split; [discriminate|]. intros c' l' E. inversion E. lia.
  - destruct (Hrec v (c + 1) l ltac:(lia)) as [N M].
    destruct (rec v (c + 1) l) as [c1 l1| |] eqn:E.
    + specialize (M c1 l1 eq_refl). destruct (IH c1 l1 ltac:(lia)) as [N2 M2]. split; [exact N2|].
      intros c' l' E'. specialize (M2 c' l' E'). lia.
    + split; [discriminate|]. intros c' l' E'. discriminate.
    + contradiction.
Qed.

Lemma convert_good : forall h f v c l, conv_inv f c -> conv_good (convert plen h f v c l) c.
Proof.
  intros h. induction f as [|f IH]; intros v c l Hinv.
  - unfold conv_inv in Hinv. cbn in Hinv. lia.
  - cbn [convert]. unfold convert_count_over. destruct (CONVERT_MAX_COUNT <? c) eqn:G.
    + split; [discriminate|]. intros c' l' E. discriminate.
    + apply Z.ltb_ge in G. destruct (convert_length_over l).
      { split; [discriminate|]. intros c' l' E. discriminate. }
      assert (Hl : forall lst, conv_good (conv_list (convert plen h f) lst c l) c).
      { intros lst. apply (conv_list_good (convert plen h f) c); [|lia].
        intros v' c2 l2 Hc2. apply IH. unfold conv_inv in *. lia. }
      destruct v; try apply Hl.
      * split; [discriminate|]. intros c' l' E. inversion E. lia.
      * split; [discriminate|]. intros c' l' E. discriminate.
      * split; [discriminate|]. intros c' l' E. inversion E. lia.
Qed.

Theorem convert_terminates : forall h v, convert plen h convert_fuel v 0 0 <> VOof.
Proof.
  intros h v. apply (convert_good h convert_fuel v 0 0). unfold conv_inv, convert_fuel.
  assert (0 <= CONVERT_MAX_COUNT) by (unfold CONVERT_MAX_COUNT; lia). lia.
Qed.
End ConvertProofs.

(** * The Invoke loop *)
Section LoopProofs.
Context {St : Type}.
Variable step : St -> option St.
Variable price : St -> Z.

(** block execution: every instruction costs at least MIN_OPCODE_GAS >= 1, so the gas limit bounds
    the number of iterations *)
Lemma min_gas_positive : 1 <= MIN_OPCODE_GAS.
Proof. unfold MIN_OPCODE_GAS. lia. Qed.

Lemma run_gas : forall (fuel : nat) (a : acct) (s : St),
  (forall s, MIN_OPCODE_GAS <= price s) -> Z.max 0 (gas a) < Z.of_nat fuel ->
  exists n, run step price false fuel a s = Some n /\ Z.of_nat n <= Z.max 0 (gas a).
Proof.
  pose proof min_gas_positive as MP.
  induction fuel as [|f IH]; intros a s Hp Hg; [lia|].
  cbn [run]. unfold iter. cbn [andb].
  unfold sc_gas_short. destruct (gas a <? price s) eqn:G.
  - exists O. split; [reflexivity|]. lia.
  - apply Z.ltb_ge in G. pose proof (Hp s).
    destruct (step s) as [s'|]; [|exists O; split; [reflexivity|lia]].
    destruct (IH (mkAcct (gas a - price s) (steps a)) s' Hp) as [n [E L]]; [cbn; lia|].
    rewrite E. exists (S n). split; [reflexivity|]. cbn [gas] in L. lia.
Qed.

Theorem exec_gas_bounded : forall (a : acct) (s : St),
  (forall s, MIN_OPCODE_GAS <= price s) ->
  exists n, run step price false (S (Z.to_nat (gas a))) a s = Some n /\ Z.of_nat n <= Z.max 0 (gas a).
Proof. intros a s Hp. apply run_gas; [exact Hp|lia]. Qed.

(** pre-execution: whatever the prices (gas is practically unlimited there), the step counter
    bounds the number of iterations *)
Lemma run_steps : forall (fuel : nat) (a : acct) (s : St),
  Z.max 0 (VM_STEP_LIMIT - steps a) < Z.of_nat fuel ->
  exists n, run step price true fuel a s = Some n /\ Z.of_nat n <= Z.max 0 (VM_STEP_LIMIT - steps a).
Proof.
  induction fuel as [|f IH]; intros a s Hs; [lia|].
  cbn [run]. unfold iter. cbn [andb]. unfold sc_steps_over.
  destruct (VM_STEP_LIMIT <=? steps a) eqn:G.
  - exists O. split; [reflexivity|lia].
  - apply Z.leb_gt in G.
    destruct (sc_gas_short _ _); [exists O; split; [reflexivity|lia]|].
    destruct (step s) as [s'|]; [|exists O; split; [reflexivity|lia]].
    cbn [gas steps].
    destruct (IH (mkAcct (gas a - price s) (steps a + 1)) s') as [n [E L]]; [cbn [gas steps]; lia|].
    rewrite E. exists (S n). split; [reflexivity|]. cbn [steps] in L. lia.
Qed.

Theorem exec_steps_bounded : forall (a : acct) (s : St),
  exists n, run step price true (S (Z.to_nat (VM_STEP_LIMIT - steps a))) a s = Some n /\
            Z.of_nat n <= Z.max 0 (VM_STEP_LIMIT - steps a).
Proof. intros a s. apply run_steps. lia. Qed.
End LoopProofs.
