(** C33 — lemmas about Model/CrossHeader.v (header_sync.VerifyHeader, VerifyMultiSignature). *)
From Coq Require Import List Bool NArith ZArith Lia PeanoNat.
Import ListNotations.
From Ont Require Import Gen.CrossHeader Model.CrossHeader.
Local Open Scope N_scope.

(** * Specification vocabulary *)

(** peer [p] has a valid signature on message [msg] somewhere in [sigs] *)
Definition has_valid_sig (msg : N) (sigs : list sigv) (p : N) : bool :=
  existsb (sig_verify p msg) sigs.

(** the peers of the stored set [pm] that validly signed header [h] *)
Definition signing_peers (pm : list N) (h : xheader) : list N :=
  filter (has_valid_sig (h_msg h) (h_sigs h)) pm.

(** the peer set VerifyHeader checks [h] against (its PeerMap: one entry per peer id) *)
Definition peer_set_for (st : hstore) (h : xheader) : option (list N) :=
  match find_key_height st (h_height h) (h_chain h) with
  | None => None
  | Some kh => get_consensus_peers st (h_chain h) kh
  end.

Definition two_thirds_signed (pm : list N) (h : xheader) : Prop :=
  (2 * Z.of_nat (length pm) <= 3 * Z.of_nat (length (signing_peers pm h)))%Z.

(** * Lists *)
Lemma mem_In : forall k l, mem k l = true <-> In k l.
Proof.
  intros k l. unfold mem. rewrite existsb_exists. split.
  - intros [x [Hx He]]. apply N.eqb_eq in He. subst. exact Hx.
  - intros H. exists k. split; [exact H | apply N.eqb_refl].
Qed.

Lemma mem_false_nIn : forall k l, mem k l = false <-> ~ In k l.
Proof.
  intros k l. rewrite <- mem_In. destruct (mem k l); split; intros; congruence.
Qed.

Lemma peer_map_In : forall l x, In x (peer_map l) <-> In x l.
Proof.
  induction l as [|p r IH]; intros x; cbn [peer_map]; [tauto|].
  destruct (mem p r) eqn:E.
  - rewrite IH. split; [intros H; right; exact H|].
    intros [H|H]; [subst; apply mem_In; exact E | exact H].
  - cbn [In]. rewrite IH. tauto.
Qed.

Lemma peer_map_NoDup : forall l, NoDup (peer_map l).
Proof.
  induction l as [|p r IH]; cbn [peer_map]; [constructor|].
  destruct (mem p r) eqn:E; [exact IH|].
  constructor; [|exact IH]. rewrite peer_map_In. apply mem_false_nIn. exact E.
Qed.

Lemma has_dup_false_NoDup : forall l, has_dup l = false <-> NoDup l.
Proof.
  induction l as [|k r IH]; cbn [has_dup].
  - split; [constructor | reflexivity].
  - rewrite orb_false_iff, IH, mem_false_nIn. split.
    + intros [H1 H2]. constructor; assumption.
    + intros H. inversion H; subst. split; assumption.
Qed.

Lemma filter_length_le : forall {A} (f : A -> bool) l, (length (filter f l) <= length l)%nat.
Proof.
  induction l as [|x r IH]; cbn [filter length]; [lia|]. destruct (f x); cbn [length]; lia.
Qed.

Lemma filter_length_all : forall {A} (f : A -> bool) l,
  (length l <= length (filter f l))%nat -> forall x, In x l -> f x = true.
Proof.
  induction l as [|y r IH]; cbn [filter length]; intros H x Hx; [destruct Hx|].
  destruct (f y) eqn:E.
  - cbn [length] in H. destruct Hx as [->|Hx]; [exact E|]. apply IH; [lia | exact Hx].
  - pose proof (filter_length_le f r). lia.
Qed.

Lemma NoDup_filter : forall {A} (f : A -> bool) l, NoDup l -> NoDup (filter f l).
Proof.
  induction l as [|x r IH]; cbn [filter]; intros H; [constructor|].
  inversion H; subst. destruct (f x); [|apply IH; assumption].
  constructor; [|apply IH; assumption]. rewrite filter_In. tauto.
Qed.

(** * VerifyMultiSignature: what a nil result says *)
Fixpoint count_true (l : list bool) : nat :=
  match l with
  | [] => O
  | b :: r => if b then S (count_true r) else count_true r
  end.

Lemma count_true_repeat_false : forall n, count_true (repeat false n) = O.
Proof. induction n; cbn; auto. Qed.

(** bookkeeper entry [b] has a valid signature on [msg] somewhere in [sigs] *)
Definition bk_has_valid_sig (msg : N) (sigs : list sigv) (b : bkey) : bool :=
  existsb (bk_verify b msg) sigs.

Lemma bk_has_valid_sig_genuine : forall msg sigs b, bk_has_valid_sig msg sigs b = true ->
  exists k, b = BkKey k /\ has_valid_sig msg sigs k = true.
Proof.
  intros msg sigs b H. destruct b as [k|p].
  - exists k. split; [reflexivity | exact H].
  - unfold bk_has_valid_sig in H. apply existsb_exists in H. destruct H as [x [_ Hx]]. discriminate.
Qed.

Section MultiSig.
  Variable msg : N.
  Variable allsigs : list sigv.

  (** every marked position holds a key with a valid signature in [allsigs] *)
  Definition marked_ok (keys : list bkey) (mask : list bool) : Prop :=
    Forall2 (fun k b => b = true -> bk_has_valid_sig msg allsigs k = true) keys mask.

  Lemma scan_inv : forall s keys mask mask',
    In s allsigs -> marked_ok keys mask -> ms_scan msg s keys mask = Some mask' ->
    marked_ok keys mask' /\ count_true mask' = S (count_true mask).
  Proof.
    intros s keys mask mask' Hs H. revert mask'.
    induction H as [|k b ks bs Hkb HF IH]; intros mask' E; cbn [ms_scan] in E; [discriminate|].
    destruct b.
    - destruct (ms_scan msg s ks bs) as [m1|] eqn:E1; cbn in E; [|discriminate].
      injection E as <-. destruct (IH m1 eq_refl) as [I1 I2]. split.
      + constructor; [intros _; apply Hkb; reflexivity | exact I1].
      + cbn [count_true]. rewrite I2. reflexivity.
    - destruct (bk_verify k msg s) eqn:V.
      + injection E as <-. split.
        * constructor; [|exact HF]. intros _. unfold bk_has_valid_sig. apply existsb_exists.
          exists s. split; assumption.
        * reflexivity.
      + destruct (ms_scan msg s ks bs) as [m1|] eqn:E1; cbn in E; [|discriminate].
        injection E as <-. destruct (IH m1 eq_refl) as [I1 I2]. split.
        * constructor; [intros; discriminate | exact I1].
        * cbn [count_true]. exact I2.
  Qed.

  Lemma loop_inv : forall keys m sigs mask,
    incl sigs allsigs -> marked_ok keys mask -> ms_loop msg keys m sigs mask = None ->
    exists mask', marked_ok keys mask' /\ count_true mask' = (count_true mask + m)%nat.
  Proof.
    intros keys. induction m as [|m IH]; intros sigs mask Hi Hm E.
    - exists mask. split; [exact Hm | lia].
    - cbn [ms_loop] in E. destruct sigs as [|s rest]; [discriminate|].
      destruct s as [|sk sm]; [discriminate|].
      destruct (ms_scan msg (SigOf sk sm) keys mask) as [m1|] eqn:E1; [|discriminate].
      destruct (scan_inv (SigOf sk sm) keys mask m1) as [I1 I2];
        [apply Hi; left; reflexivity | exact Hm | exact E1 |].
      destruct (IH rest m1) as [m2 [J1 J2]];
        [intros x Hx; apply Hi; right; exact Hx | exact I1 | exact E |].
      exists m2. split; [exact J1 | lia].
  Qed.

  Lemma marked_count : forall keys mask, marked_ok keys mask ->
    (count_true mask <= length (filter (bk_has_valid_sig msg allsigs) keys))%nat.
  Proof.
    intros keys mask H. induction H as [|k b ks bs Hkb HF IH]; cbn [count_true filter]; [lia|].
    destruct b.
    - rewrite (Hkb eq_refl). cbn [length]. lia.
    - destruct (bk_has_valid_sig msg allsigs k); cbn [length]; lia.
  Qed.

  Lemma marked_ok_init : forall keys, marked_ok keys (repeat false (length keys)).
  Proof. induction keys; cbn; constructor; [intros; discriminate | assumption]. Qed.
End MultiSig.

Lemma firstn_len : forall {A} (l : list A), firstn (Z.to_nat (Z.of_nat (length l))) l = l.
Proof. intros. rewrite Nat2Z.id. apply firstn_all. Qed.

(** nil from VerifyMultiSignature: at least [m] key positions hold a key with a valid signature
    among [sigs] (the count is over positions of [keys], not over distinct keys). *)
Lemma verify_multi_ok_count : forall msg keys m sigs,
  verify_multi msg keys m sigs = None ->
  (Z.to_nat m <= length (filter (bk_has_valid_sig msg sigs) keys))%nat.
Proof.
  intros msg keys m sigs E. unfold verify_multi in E.
  unfold ms_sigs_have, ms_sigs_need, ms_outer_bound, ms_inner_bound, ms_mask_len in E.
  destruct (Z.of_nat (length sigs) <? m)%Z; [discriminate|].
  destruct ((Z.of_nat (length keys) <? Z.of_nat (length keys))
            || (Z.of_nat (length keys) <? Z.of_nat (length keys)))%Z; [discriminate|].
  rewrite firstn_len, Nat2Z.id in E.
  destruct (loop_inv msg sigs keys (Z.to_nat m) sigs (repeat false (length keys)))
    as [mask' [I1 I2]]; [apply incl_refl | apply marked_ok_init | exact E |].
  rewrite count_true_repeat_false in I2. pose proof (marked_count msg sigs keys mask' I1). lia.
Qed.

(** the excluded error value is unreachable: sigs[i] is never indexed out of range *)
Lemma ms_loop_no_panic : forall msg keys m sigs mask,
  (m <= length sigs)%nat -> ms_loop msg keys m sigs mask <> Some MsPanic.
Proof.
  intros msg keys. induction m as [|m IH]; intros sigs mask Hl; cbn [ms_loop]; [discriminate|].
  destruct sigs as [|s rest]; [cbn in Hl; lia|]. destruct s; [discriminate|].
  destruct (ms_scan msg (SigOf signer msg0) keys mask); [|discriminate].
  apply IH. cbn in Hl. lia.
Qed.

Lemma verify_multi_no_panic : forall msg keys m sigs, verify_multi msg keys m sigs <> Some MsPanic.
Proof.
  intros msg keys m sigs. unfold verify_multi.
  unfold ms_sigs_have, ms_sigs_need, ms_outer_bound, ms_inner_bound, ms_mask_len.
  destruct (Z.of_nat (length sigs) <? m)%Z eqn:E; [discriminate|].
  rewrite Z.ltb_irrefl. cbn [orb]. apply ms_loop_no_panic. apply Z.ltb_ge in E. lia.
Qed.

Lemma bk_forged_no_sig : forall msg sigs p, bk_has_valid_sig msg sigs (BkForged p) = false.
Proof. intros. unfold bk_has_valid_sig. induction sigs as [|x r IH]; cbn; [reflexivity | exact IH]. Qed.

(** A key list holding nothing but forged keys is never satisfied by a positive threshold: with a
    key under which the library's verify fails or panics, VerifyMultiSignature returns an error. *)
Lemma verify_multi_forged_only : forall msg keys m sigs,
  (forall b, In b keys -> exists p, b = BkForged p) -> (0 < m)%Z ->
  verify_multi msg keys m sigs <> None.
Proof.
  intros msg keys m sigs Hf Hm E. apply verify_multi_ok_count in E.
  assert (Hz : filter (bk_has_valid_sig msg sigs) keys = []).
  { clear E. induction keys as [|b r IH]; [reflexivity|]. cbn [filter].
    destruct (Hf b (or_introl eq_refl)) as [p ->].
    rewrite bk_forged_no_sig. apply IH. intros b Hb. apply Hf. right. exact Hb. }
  rewrite Hz in E. cbn in E. lia.
Qed.

(** * VerifyHeader *)

Lemma verify_header_ok_inv : forall st h, verify_header st h = ROk ->
  exists pm, peer_set_for st h = Some pm /\ NoDup pm /\
    (vh_count_rhs (Z.of_nat (length pm)) <= vh_count_lhs (Z.of_nat (length (h_bookkeepers h))))%Z /\
    (forall b, In b (h_bookkeepers h) -> In (bk_pid b) pm) /\
    verify_multi (h_msg h) (h_bookkeepers h)
      (vh_multisig_m (Z.of_nat (length (h_bookkeepers h)))) (h_sigs h) = None.
Proof.
  intros st h E. unfold verify_header in E. unfold peer_set_for.
  destruct (find_key_height st (h_height h) (h_chain h)) as [kh|]; [|discriminate].
  destruct (get_consensus_peers st (h_chain h) kh) as [pm|] eqn:Ep; [|discriminate].
  exists pm. split; [reflexivity|].
  destruct (vh_count_lhs (Z.of_nat (length (h_bookkeepers h))) <? vh_count_rhs (Z.of_nat (length pm)))%Z
    eqn:Ec; [discriminate|].
  destruct (forallb (fun b => mem (bk_pid b) pm) (h_bookkeepers h)) eqn:Ef; cbn [negb] in E; [|discriminate].
  destruct (verify_multi (h_msg h) (h_bookkeepers h)
              (vh_multisig_m (Z.of_nat (length (h_bookkeepers h)))) (h_sigs h)) eqn:Em; [discriminate|].
  split; [|split; [|split; [|reflexivity]]].
  - unfold get_consensus_peers in Ep.
    destruct (assoc2 (h_chain h) kh (st_peers st)); cbn in Ep; [|discriminate].
    injection Ep as <-. apply peer_map_NoDup.
  - apply Z.ltb_ge in Ec. exact Ec.
  - intros k Hk. rewrite forallb_forall in Ef. apply mem_In. apply Ef. exact Hk.
Qed.

(** Accepted: every listed bookkeeper entry is the GENUINE key of a peer of the stored set (no
    forged encoding gets through) and has a valid signature on the header, and three times the
    LENGTH of the bookkeeper list reaches twice the peer count. *)
Lemma verify_header_ok_general : forall st h, verify_header st h = ROk ->
  exists pm, peer_set_for st h = Some pm /\ NoDup pm /\
    (2 * Z.of_nat (length pm) <= 3 * Z.of_nat (length (h_bookkeepers h)))%Z /\
    (forall b, In b (h_bookkeepers h) ->
       exists k, b = BkKey k /\ In k pm /\ has_valid_sig (h_msg h) (h_sigs h) k = true).
Proof.
  intros st h E. destruct (verify_header_ok_inv st h E) as [pm [Hp [Hn [Hc [Hi Hm]]]]].
  exists pm. split; [exact Hp|]. split; [exact Hn|]. split.
  - unfold vh_count_lhs, vh_count_rhs in Hc. lia.
  - intros b Hb.
    apply verify_multi_ok_count in Hm. unfold vh_multisig_m in Hm.
    assert (Hm' : (length (h_bookkeepers h)
                   <= length (filter (bk_has_valid_sig (h_msg h) (h_sigs h)) (h_bookkeepers h)))%nat) by lia.
    pose proof (filter_length_all _ _ Hm' b Hb) as Hv.
    destruct (bk_has_valid_sig_genuine _ _ _ Hv) as [k [-> Hk]].
    exists k. split; [reflexivity|]. split; [exact (Hi (BkKey k) Hb) | exact Hk].
Qed.

(** The distinct bookkeepers all count as signing peers. *)
Lemma distinct_bookkeepers_sign : forall st h, verify_header st h = ROk ->
  exists pm, peer_set_for st h = Some pm /\ NoDup pm /\
    (length (nodup N.eq_dec (map bk_pid (h_bookkeepers h))) <= length (signing_peers pm h))%nat.
Proof.
  intros st h E. destruct (verify_header_ok_general st h E) as [pm [Hp [Hn [_ Hk]]]].
  exists pm. split; [exact Hp|]. split; [exact Hn|].
  apply NoDup_incl_length; [apply NoDup_nodup|].
  intros k Hin. apply nodup_In in Hin. apply in_map_iff in Hin. destruct Hin as [b [Hb Hin]].
  destruct (Hk b Hin) as [k' [-> [H1 H2]]]. cbn in Hb. subst k'.
  unfold signing_peers. apply filter_In. split; assumption.
Qed.

Lemma NoDup_map_filter : forall {A B} (f : A -> B) (g : A -> bool) l,
  NoDup (map f l) -> NoDup (map f (filter g l)).
Proof.
  induction l as [|x r IH]; cbn [map filter]; intros H; [constructor|].
  inversion H; subst. destruct (g x); cbn [map]; [|apply IH; assumption].
  constructor; [|apply IH; assumption]. intros Hin. apply H2.
  apply in_map_iff in Hin. destruct Hin as [y [Hy Hin]]. apply filter_In in Hin.
  apply in_map_iff. exists y. tauto.
Qed.

(** Outside the finding class (no peer id listed twice) the property holds.  The proof only uses
    [2 np <= 3 m] for the translated expressions, so it re-checks under harmless rewrites and
    fails if the source weakens either expression. *)
Lemma verify_header_partial : forall st h, NoDup (map bk_pid (h_bookkeepers h)) ->
  verify_header st h = ROk ->
  exists pm, peer_set_for st h = Some pm /\ NoDup pm /\ two_thirds_signed pm h.
Proof.
  intros st h Hd E. destruct (verify_header_ok_inv st h E) as [pm [Hp [Hn [Hc [Hi Hm]]]]].
  exists pm. split; [exact Hp|]. split; [exact Hn|].
  apply verify_multi_ok_count in Hm.
  assert (Hl : (length (filter (bk_has_valid_sig (h_msg h) (h_sigs h)) (h_bookkeepers h))
                <= length (signing_peers pm h))%nat).
  { rewrite <- (map_length bk_pid).
    apply NoDup_incl_length; [apply NoDup_map_filter; exact Hd|].
    intros k Hk. apply in_map_iff in Hk. destruct Hk as [b [Hb Hk]].
    apply filter_In in Hk. destruct Hk as [H1 H2].
    destruct (bk_has_valid_sig_genuine _ _ _ H2) as [k' [-> Hv]]. cbn in Hb. subst k'.
    unfold signing_peers. apply filter_In. split; [exact (Hi (BkKey k) H1) | exact Hv]. }
  unfold two_thirds_signed. unfold vh_count_lhs, vh_count_rhs in Hc. unfold vh_multisig_m in Hm.
  lia.
Qed.

Lemma verify_header_repaired_full : forall st h, verify_header_repaired st h = ROk ->
  exists pm, peer_set_for st h = Some pm /\ NoDup pm /\ two_thirds_signed pm h.
Proof.
  intros st h E. unfold verify_header_repaired in E.
  destruct (has_dup (map bk_pid (h_bookkeepers h))) eqn:Ed; [discriminate|].
  apply verify_header_partial; [apply has_dup_false_NoDup; exact Ed | exact E].
Qed.

Lemma verify_header_no_panic : forall st h, verify_header st h <> RErr EPanic.
Proof.
  intros st h. unfold verify_header.
  destruct (find_key_height st (h_height h) (h_chain h)); [|discriminate].
  destruct (get_consensus_peers st (h_chain h) n); [|discriminate].
  destruct (_ <? _)%Z; [discriminate|]. destruct (negb _); [discriminate|].
  destruct (verify_multi _ _ _ _) as [e|] eqn:E; [|discriminate].
  destruct e; try discriminate. exfalso. exact (verify_multi_no_panic _ _ _ _ E).
Qed.

(** * Acceptance: one signature per listed position is enough, whoever is listed *)

Lemma scan_prefix : forall msg k pre post rest,
  ms_scan msg (SigOf k msg) (pre ++ BkKey k :: post) (repeat true (length pre) ++ false :: rest)
  = Some (repeat true (length pre) ++ true :: rest).
Proof.
  intros msg k. induction pre as [|p pre IH]; intros post rest; cbn [app length repeat ms_scan].
  - cbn [bk_verify sig_verify]. rewrite !N.eqb_refl. reflexivity.
  - rewrite IH. reflexivity.
Qed.

Lemma loop_positional : forall msg post pre,
  ms_loop msg (pre ++ map BkKey post) (length post) (map (fun k => SigOf k msg) post)
          (repeat true (length pre) ++ repeat false (length post)) = None.
Proof.
  intros msg. induction post as [|k post IH]; intros pre; cbn [length map ms_loop repeat]; [reflexivity|].
  rewrite scan_prefix.
  replace (pre ++ BkKey k :: map BkKey post) with ((pre ++ [BkKey k]) ++ map BkKey post)
    by (rewrite <- app_assoc; reflexivity).
  replace (repeat true (length pre) ++ true :: repeat false (length post))
    with (repeat true (length (pre ++ [BkKey k])) ++ repeat false (length post)).
  - apply IH.
  - rewrite app_length. cbn [length]. rewrite repeat_app. cbn [repeat].
    rewrite <- app_assoc. reflexivity.
Qed.

Lemma verify_multi_positional : forall msg keys,
  verify_multi msg (map BkKey keys) (vh_multisig_m (Z.of_nat (length (map BkKey keys))))
               (map (fun k => SigOf k msg) keys) = None.
Proof.
  intros msg keys. unfold verify_multi, vh_multisig_m.
  unfold ms_sigs_have, ms_sigs_need, ms_outer_bound, ms_inner_bound, ms_mask_len.
  rewrite !map_length, !Z.ltb_irrefl. cbn [orb].
  rewrite <- (map_length BkKey keys) at 1 3. rewrite firstn_len, map_length, Nat2Z.id.
  exact (loop_positional msg keys []).
Qed.

(** Any list of (genuinely encoded) peers of the stored set, long enough and each position signed,
    is accepted — whether or not the list repeats a peer. *)
Lemma verify_header_accepts : forall st h pm ks,
  peer_set_for st h = Some pm ->
  h_bookkeepers h = map BkKey ks ->
  (forall k, In k ks -> In k pm) ->
  (2 * Z.of_nat (length pm) <= 3 * Z.of_nat (length ks))%Z ->
  h_sigs h = map (fun k => SigOf k (h_msg h)) ks ->
  verify_header st h = ROk.
Proof.
  intros st h pm ks Hp Hb Hi Hc Hs. unfold peer_set_for in Hp. unfold verify_header.
  destruct (find_key_height st (h_height h) (h_chain h)) as [kh|]; [|discriminate].
  rewrite Hp, Hb.
  replace (vh_count_lhs (Z.of_nat (length (map BkKey ks))) <? vh_count_rhs (Z.of_nat (length pm)))%Z
    with false by (symmetry; apply Z.ltb_ge; rewrite map_length; unfold vh_count_lhs, vh_count_rhs; lia).
  replace (forallb (fun b => mem (bk_pid b) pm) (map BkKey ks)) with true
    by (symmetry; apply forallb_forall; intros b Hin; apply in_map_iff in Hin;
        destruct Hin as [k [<- Hk]]; apply mem_In; apply Hi; exact Hk).
  cbn [negb]. rewrite Hs, verify_multi_positional. reflexivity.
Qed.

Lemma signing_peers_single : forall pm p h,
  NoDup pm -> In p pm ->
  (forall s, In s (h_sigs h) -> s = SigOf p (h_msg h)) -> h_sigs h <> [] ->
  signing_peers pm h = [p].
Proof.
  intros pm p h Hn Hp Hs Hne. unfold signing_peers.
  assert (Hv : forall q, has_valid_sig (h_msg h) (h_sigs h) q = (q =? p)).
  { intros q. unfold has_valid_sig. destruct (q =? p) eqn:E.
    - apply N.eqb_eq in E. subst q. apply existsb_exists.
      destruct (h_sigs h) as [|s r] eqn:Es; [congruence|]. exists s. split; [left; reflexivity|].
      rewrite (Hs s (or_introl eq_refl)). cbn. rewrite !N.eqb_refl. reflexivity.
    - destruct (existsb (sig_verify q (h_msg h)) (h_sigs h)) eqn:Ex; [|reflexivity].
      apply existsb_exists in Ex. destruct Ex as [s [H1 H2]]. rewrite (Hs s H1) in H2.
      cbn in H2. rewrite E in H2. discriminate. }
  clear Hs Hne. induction pm as [|q r IH]; [destruct Hp|].
  cbn [filter]. rewrite Hv. inversion Hn; subst. destruct Hp as [->|Hp].
  - rewrite N.eqb_refl. f_equal.
    clear IH Hn. induction r as [|x r IH]; [reflexivity|]. cbn [filter]. rewrite Hv.
    destruct (x =? p) eqn:E; [apply N.eqb_eq in E; subst; exfalso; apply H1; left; reflexivity|].
    apply IH; [intros Hx; apply H1; right; exact Hx | inversion H2; assumption].
  - destruct (q =? p) eqn:E; [apply N.eqb_eq in E; subst; contradiction|].
    apply IH; assumption.
Qed.

(** * Contract level: a header enters storage through SyncBlockHeader only when VerifyHeader
      accepted it against the peer records stored at that moment *)
Lemma has_header_cons : forall st l ch ht a b,
  has_header (mkC st ((a, b) :: l)) ch ht = true ->
  (a = ch /\ b = ht) \/ has_header (mkC st l) ch ht = true.
Proof.
  intros st l ch ht a b H. unfold has_header in *. cbn [c_headers existsb fst snd] in H.
  apply orb_true_iff in H. destruct H as [H|H]; [left|right; exact H].
  apply andb_true_iff in H. destruct H as [H1 H2]. apply N.eqb_eq in H1, H2. tauto.
Qed.

Lemma sync_headers_verified : forall hs c c',
  sync_headers c hs = (ROk, c') ->
  forall ch ht, has_header c' ch ht = true ->
    has_header c ch ht = true \/
    exists h c0, In h hs /\ h_chain h = ch /\ h_height h = ht /\ verify_header (c_store c0) h = ROk.
Proof.
  induction hs as [|h r IH]; intros c c' E ch ht Hh; cbn [sync_headers] in E.
  - injection E as <-. left. exact Hh.
  - destruct (has_header c (h_chain h) (h_height h)) eqn:Eh.
    + destruct (IH c c' E ch ht Hh) as [H|[h0 [c0 [H1 H2]]]]; [left; exact H|].
      right. exists h0, c0. split; [right; exact H1 | exact H2].
    + unfold process_header in E. destruct (verify_header (c_store c) h) eqn:Ev.
      * destruct (update_consensus_peer (c_store c) h) as [st'|] eqn:Eu; [|discriminate].
        destruct (IH _ c' E ch ht Hh) as [H|[h0 [c0 [H1 H2]]]].
        -- apply has_header_cons in H. destruct H as [[Ha Hb]|H].
           ++ right. exists h, c. repeat split; try assumption. left. reflexivity.
           ++ left. exact H.
        -- right. exists h0, c0. split; [right; exact H1 | exact H2].
      * discriminate.
Qed.

Lemma sync_block_header_verified : forall hs c c',
  sync_block_header c hs = (ROk, c') ->
  forall ch ht, has_header c' ch ht = true -> has_header c ch ht = false ->
    exists h c0, In h hs /\ h_chain h = ch /\ h_height h = ht /\ verify_header (c_store c0) h = ROk.
Proof.
  intros hs c c' E ch ht H1 H0. unfold sync_block_header in E.
  destruct (sync_headers c hs) as [[|e] c1] eqn:Es; [|discriminate].
  injection E as <-. destruct (sync_headers_verified hs c c1 Es ch ht H1) as [H|H]; [congruence|exact H].
Qed.

Lemma sync_block_header_error_keeps_state : forall hs c e c',
  sync_block_header c hs = (RErr e, c') -> c' = c.
Proof.
  intros hs c e c' E. unfold sync_block_header in E.
  destruct (sync_headers c hs) as [[|e1] c1]; [discriminate|]. injection E as _ <-. reflexivity.
Qed.

(** * The witness of the finding *)
Definition f12_store : hstore := mkStore [(1, [0])] [((1, 0), [1; 2; 3; 4])].
Definition f12_header : xheader :=
  mkHeader 1 5 7 [BkKey 1; BkKey 1; BkKey 1] [SigOf 1 7; SigOf 1 7; SigOf 1 7] PNone.

Lemma f12_accepted : verify_header f12_store f12_header = ROk.
Proof. vm_compute. reflexivity. Qed.

Lemma f12_peer_set : peer_set_for f12_store f12_header = Some [1; 2; 3; 4].
Proof. vm_compute. reflexivity. Qed.

Lemma f12_signers : signing_peers [1; 2; 3; 4] f12_header = [1].
Proof. vm_compute. reflexivity. Qed.

(** * Which peer set governs a height: the selection rule, independent of insertion order *)
From Coq Require Import Sorting.Sorted Sorting.Permutation.
From Ont Require Import Gen.CrossHeaderShape.

(** The documented rule, stated over the stored key heights as a multiset: the greatest stored
    key height strictly below [h]. *)
Fixpoint max_below (l : list N) (h : N) : option N :=
  match l with
  | [] => None
  | v :: r =>
      if v <? h then Some (match max_below r h with None => v | Some a => N.max v a end)
      else max_below r h
  end.

Definition is_max_below (l : list N) (h v : N) : Prop :=
  In v l /\ v < h /\ forall u, In u l -> u < h -> u <= v.

Lemma max_below_some : forall l h v, max_below l h = Some v -> is_max_below l h v.
Proof.
  induction l as [|x r IH]; intros h v E; cbn [max_below] in E; [discriminate|].
  destruct (x <? h) eqn:Ex.
  - apply N.ltb_lt in Ex. destruct (max_below r h) as [a|] eqn:Ea.
    + injection E as <-. destruct (IH h a Ea) as [I1 [I2 I3]].
      split; [|split].
      * destruct (N.max_spec x a) as [[_ ->]|[_ ->]]; [right; exact I1 | left; reflexivity].
      * apply N.max_lub_lt; assumption.
      * intros u [->|Hu] Hlt; [apply N.le_max_l|]. specialize (I3 u Hu Hlt).
        pose proof (N.le_max_r x a). lia.
    + injection E as <-. split; [left; reflexivity|]. split; [exact Ex|].
      intros u [->|Hu] Hlt; [lia|]. exfalso.
      assert (Hn : forall l', max_below l' h = None -> forall w, In w l' -> h <= w).
      { clear. induction l' as [|y l' IH]; intros E w Hw; [destruct Hw|]. cbn [max_below] in E.
        destruct (y <? h) eqn:Ey; [discriminate|]. apply N.ltb_ge in Ey.
        destruct Hw as [->|Hw]; [exact Ey | apply IH; assumption]. }
      specialize (Hn r Ea u Hu). lia.
  - apply N.ltb_ge in Ex. destruct (IH h v E) as [I1 [I2 I3]].
    split; [right; exact I1|]. split; [exact I2|].
    intros u [->|Hu] Hlt; [lia | apply I3; assumption].
Qed.

Lemma max_below_none : forall l h, max_below l h = None -> forall u, In u l -> h <= u.
Proof.
  induction l as [|y l IH]; intros h E w Hw; [destruct Hw|]. cbn [max_below] in E.
  destruct (y <? h) eqn:Ey; [discriminate|]. apply N.ltb_ge in Ey.
  destruct Hw as [->|Hw]; [exact Ey | apply (IH h); assumption].
Qed.

Lemma is_max_below_unique : forall l h v v', is_max_below l h v -> is_max_below l h v' -> v = v'.
Proof.
  intros l h v v' [A1 [A2 A3]] [B1 [B2 B3]].
  specialize (A3 v' B1 B2). specialize (B3 v A1 A2). lia.
Qed.

(** the rule does not depend on the order in which the heights are listed *)
Lemma max_below_perm : forall l l' h, Permutation l l' -> max_below l h = max_below l' h.
Proof.
  intros l l' h P.
  assert (T : forall a b, Permutation a b -> forall v, is_max_below a h v -> is_max_below b h v).
  { intros a b Pab v [A1 [A2 A3]]. split; [apply (Permutation_in _ Pab A1)|]. split; [exact A2|].
    intros u Hu. apply A3. apply (Permutation_in _ (Permutation_sym Pab) Hu). }
  destruct (max_below l h) as [v|] eqn:E1; destruct (max_below l' h) as [v'|] eqn:E2.
  - f_equal. apply (is_max_below_unique l' h); [|apply max_below_some; exact E2].
    apply (T l l' P). apply max_below_some. exact E1.
  - exfalso. destruct (max_below_some _ _ _ E1) as [A1 [A2 _]].
    pose proof (max_below_none _ _ E2 v (Permutation_in _ P A1)). lia.
  - exfalso. destruct (max_below_some _ _ _ E2) as [A1 [A2 _]].
    pose proof (max_below_none _ _ E1 v' (Permutation_in _ (Permutation_sym P) A1)). lia.
  - reflexivity.
Qed.

Definition desc (l : list N) : Prop := StronglySorted (fun a b => b <= a) l.

(** on a list stored big -> small, "first entry below h" is the rule *)
Lemma find_first_below_is_max : forall l h, desc l -> find (fun v => v <? h) l = max_below l h.
Proof.
  induction l as [|x r IH]; intros h S; [reflexivity|]. cbn [find max_below].
  inversion S as [|? ? Sr Fx]; subst. destruct (x <? h) eqn:Ex.
  - destruct (max_below r h) as [a|] eqn:Ea; [|reflexivity].
    destruct (max_below_some _ _ _ Ea) as [A1 _]. rewrite Forall_forall in Fx.
    specialize (Fx a A1). f_equal. symmetry. apply N.max_l. exact Fx.
  - apply IH. exact Sr.
Qed.

Lemma kh_insert_In : forall h l x, In x (kh_insert h l) <-> x = h \/ In x l.
Proof.
  intros h. induction l as [|y r IH]; intros x; cbn [kh_insert].
  - cbn. intuition.
  - destruct (h <=? y); cbn [In]; [rewrite IH|]; intuition.
Qed.

Lemma kh_insert_desc : forall h l, desc l -> desc (kh_insert h l).
Proof.
  intros h. induction l as [|y r IH]; intros S; cbn [kh_insert].
  - constructor; constructor.
  - inversion S as [|? ? Sr Fy]; subst. destruct (h <=? y) eqn:E.
    + apply N.leb_le in E. constructor; [apply IH; exact Sr|].
      rewrite Forall_forall in *. intros x Hx. apply kh_insert_In in Hx.
      destruct Hx as [->|Hx]; [exact E | apply Fy; exact Hx].
    + apply N.leb_gt in E. constructor; [exact S|].
      rewrite Forall_forall in *. intros x [->|Hx]; [lia|]. specialize (Fy x Hx). lia.
Qed.

Lemma kh_insert_perm : forall h l, Permutation (kh_insert h l) (h :: l).
Proof.
  intros h. induction l as [|y r IH]; cbn [kh_insert]; [reflexivity|].
  destruct (h <=? y); [|reflexivity].
  apply perm_trans with (y :: h :: r); [apply perm_skip; exact IH | apply perm_swap].
Qed.

Lemma kh_fold_desc : forall l acc, desc acc -> desc (fold_left (fun a x => kh_insert x a) l acc).
Proof.
  induction l as [|x l IH]; intros acc S; cbn [fold_left]; [exact S|].
  apply IH. apply kh_insert_desc. exact S.
Qed.

Lemma kh_fold_perm : forall l acc,
  Permutation (fold_left (fun a x => kh_insert x a) l acc) (l ++ acc).
Proof.
  induction l as [|x l IH]; intros acc; cbn [fold_left app]; [reflexivity|].
  apply perm_trans with (l ++ kh_insert x acc); [apply IH|].
  apply perm_trans with (l ++ x :: acc); [apply Permutation_app_head; apply kh_insert_perm|].
  apply Permutation_sym. apply Permutation_middle.
Qed.

Lemma kh_sort_desc : forall l, desc (kh_sort l).
Proof. intros. apply kh_fold_desc. constructor. Qed.

Lemma kh_sort_perm : forall l, Permutation (kh_sort l) l.
Proof. intros. unfold kh_sort. rewrite <- (app_nil_r l) at 2. apply kh_fold_perm. Qed.

(** whatever the order in which key heights were inserted, the stored list selects the greatest
    inserted height below [h] *)
Lemma insertion_order_independent : forall hs h,
  find (fun v => v <? h) (kh_sort hs) = max_below hs h.
Proof.
  intros. rewrite (find_first_below_is_max _ _ (kh_sort_desc hs)).
  apply max_below_perm. apply kh_sort_perm.
Qed.

(** what the code writes: the list as written is big -> small and holds the old heights plus the
    new one.  (Depends on Gen/CrossHeaderShape.v: fails if the source stops sorting.) *)
Lemma kh_store_add_desc : forall old h, desc (kh_store (kh_add old h)).
Proof. intros. unfold kh_store, kh_write_sorts_desc. apply kh_sort_desc. Qed.

Lemma kh_store_add_perm : forall old h, Permutation (kh_store (kh_add old h)) (h :: old).
Proof.
  intros. unfold kh_store, kh_add, kh_write_sorts_desc, kh_put_appends.
  apply perm_trans with (old ++ [h]); [apply kh_sort_perm|].
  apply Permutation_sym. apply Permutation_cons_append.
Qed.

Lemma assoc1_set1_same : forall {V} k (v : V) l, assoc1 k (set1 k v l) = Some v.
Proof.
  intros V k v. induction l as [|[k' v'] r IH]; cbn [set1 assoc1]; [rewrite N.eqb_refl; reflexivity|].
  destruct (k =? k') eqn:E; cbn [assoc1]; [rewrite N.eqb_refl; reflexivity|]. rewrite E. exact IH.
Qed.

Lemma assoc1_set1_other : forall {V} k k2 (v : V) l, k2 <> k -> assoc1 k2 (set1 k v l) = assoc1 k2 l.
Proof.
  intros V k k2 v l Hne. induction l as [|[k' v'] r IH]; cbn [set1 assoc1].
  - apply N.eqb_neq in Hne. rewrite Hne. reflexivity.
  - destruct (k =? k') eqn:E; cbn [assoc1].
    + apply N.eqb_eq in E. subst k'. apply N.eqb_neq in Hne. rewrite Hne. reflexivity.
    + destruct (k2 =? k'); [reflexivity | exact IH].
Qed.

Lemma put_key_heights_same : forall st chain height ids,
  get_key_heights (put_consensus_peers st chain height ids) chain
  = kh_store (kh_add (get_key_heights st chain) height).
Proof.
  intros. unfold get_key_heights at 1. cbn [put_consensus_peers st_key_heights].
  rewrite assoc1_set1_same. reflexivity.
Qed.

Lemma put_key_heights_other : forall st chain height ids c2, c2 <> chain ->
  get_key_heights (put_consensus_peers st chain height ids) c2 = get_key_heights st c2.
Proof.
  intros. unfold get_key_heights. cbn [put_consensus_peers st_key_heights].
  rewrite assoc1_set1_other by assumption. reflexivity.
Qed.

Definition store_sorted (st : hstore) : Prop := forall chain, desc (get_key_heights st chain).

Lemma put_sorted : forall st chain height ids,
  store_sorted st -> store_sorted (put_consensus_peers st chain height ids).
Proof.
  intros st chain height ids S c2. destruct (N.eq_dec c2 chain) as [->|Hne].
  - rewrite put_key_heights_same. apply kh_store_add_desc.
  - rewrite put_key_heights_other by assumption. apply S.
Qed.

Lemma update_sorted : forall st h st', store_sorted st ->
  update_consensus_peer st h = Some st' -> store_sorted st'.
Proof.
  intros st h st' S E. unfold update_consensus_peer in E. destruct (h_payload h); try discriminate.
  - injection E as <-. exact S.
  - injection E as <-. apply put_sorted. exact S.
Qed.

Lemma sync_genesis_sorted : forall c h, store_sorted (c_store c) ->
  store_sorted (c_store (snd (sync_genesis c h))).
Proof.
  intros c h S. unfold sync_genesis.
  destruct (update_consensus_peer (c_store c) h) as [st'|] eqn:E; cbn [snd c_store]; [|exact S].
  apply (update_sorted _ _ _ S E).
Qed.

Lemma process_header_sorted : forall c h, store_sorted (c_store c) ->
  store_sorted (c_store (snd (process_header c h))).
Proof.
  intros c h S. unfold process_header. destruct (verify_header (c_store c) h); [|exact S].
  destruct (update_consensus_peer (c_store c) h) as [st'|] eqn:E; cbn [snd c_store]; [|exact S].
  apply (update_sorted _ _ _ S E).
Qed.

Lemma sync_headers_sorted : forall hs c, store_sorted (c_store c) ->
  store_sorted (c_store (snd (sync_headers c hs))).
Proof.
  induction hs as [|h r IH]; intros c S; cbn [sync_headers]; [exact S|].
  destruct (has_header c (h_chain h) (h_height h)); [apply IH; exact S|].
  pose proof (process_header_sorted c h S) as P.
  destruct (process_header c h) as [[|e] c1]; cbn [snd] in *; [apply IH; exact P | exact S].
Qed.

Lemma sync_block_header_sorted : forall hs c, store_sorted (c_store c) ->
  store_sorted (c_store (snd (sync_block_header c hs))).
Proof.
  intros hs c S. unfold sync_block_header. pose proof (sync_headers_sorted hs c S) as P.
  destruct (sync_headers c hs) as [[|e] c1]; cbn [snd] in *; [exact P | exact S].
Qed.

(** contract states reachable from the empty storage by the two entry points *)
Inductive reachable : cstate -> Prop :=
| reach_empty : reachable (mkC (mkStore [] []) [])
| reach_genesis : forall c h, reachable c -> reachable (snd (sync_genesis c h))
| reach_block : forall c hs, reachable c -> reachable (snd (sync_block_header c hs)).

Lemma reachable_sorted : forall c, reachable c -> store_sorted (c_store c).
Proof.
  intros c R. induction R.
  - intros chain. cbn. constructor.
  - apply sync_genesis_sorted. exact IHR.
  - apply sync_block_header_sorted. exact IHR.
Qed.

(** In every reachable state, findKeyHeight is the order-independent rule. *)
Lemma reachable_find_key_height : forall c, reachable c -> forall h chain,
  find_key_height (c_store c) h chain = max_below (get_key_heights (c_store c) chain) h.
Proof.
  intros c R h chain. unfold find_key_height, kh_find_first_below.
  apply find_first_below_is_max. apply (reachable_sorted c R).
Qed.
