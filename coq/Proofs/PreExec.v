(** Proofs about Model/PreExec.v: no operation available to a pre-execution session changes the
    ledger; the entry points return the ledger they were given; what the engines observe is what
    they would observe on a private copy of the persisted map (refinement through Proofs/KV.v);
    the generated call alphabet of the entry points contains only benign calls and every trace
    over a benign alphabet preserves the ledger. *)
From Coq Require Import List Bool NArith String.
Import ListNotations.
From Ont Require Import Lib.Bytes Model.KV Proofs.KV Model.PreExec.
From Ont Require Import Gen.PreExecGen.
Local Open Scope N_scope.

(** * Ledger bookkeeping *)

Lemma set_state_data_same L : set_state_data L (ps_data (l_state L)) = L.
Proof. destruct L as [[d b] bl ev mk h hs g pd]. reflexivity. Qed.

Lemma se_put_ledger x s : st_store s = ps_data (l_state (se_ledger x)) -> se_ledger (se_put x s) = se_ledger x.
Proof. intro E. unfold se_put. simpl. rewrite E. apply set_state_data_same. Qed.

(** * No session operation touches the store layer *)

Lemma impl_step_store pfx s o : o <> HOvCommit -> st_store (fst (impl_step pfx s o)) = st_store s.
Proof.
  intro H. destruct o; simpl; try reflexivity.
  - destruct (cache_iterate pfx s p). reflexivity.
  - destruct (overlay_iterate s p). reflexivity.
  - congruence.
Qed.

Lemma sop_hop_not_commit o : sop_hop o <> HOvCommit.
Proof. destruct o; discriminate. Qed.

Lemma sop_step_store s o : st_store (fst (sop_step s o)) = st_store s.
Proof. apply impl_step_store, sop_hop_not_commit. Qed.

Fixpoint no_ov_commit (ops : list hop) : bool :=
  match ops with
  | [] => true
  | HOvCommit :: _ => false
  | _ :: r => no_ov_commit r
  end.

Lemma impl_run_store pfx : forall ops s, no_ov_commit ops = true -> st_store (fst (impl_run pfx s ops)) = st_store s.
Proof.
  induction ops as [|o r IH]; intros s H; [reflexivity|].
  assert (Ho : o <> HOvCommit) by (destruct o; simpl in H; congruence).
  assert (Hr : no_ov_commit r = true) by (destruct o; simpl in H; congruence).
  simpl. pose proof (impl_step_store pfx s o Ho) as E.
  destruct (impl_step pfx s o) as [s1 o1]. simpl in E.
  specialize (IH s1 Hr). destruct (impl_run pfx s1 r) as [s2 o2]. simpl in *. congruence.
Qed.

(** the restriction is necessary: one overlay commit after a put changes the store *)
Lemma overlay_commit_changes_store :
  st_store (fst (impl_run 5 (mkState [] [] []) [HPut [1] [2]; HCommit; HOvCommit])) <> [].
Proof. vm_compute. discriminate. Qed.

(** * Programs *)

Lemma run_prog_ledger {R} (p : prog R) : forall x, se_ledger (snd (run_prog p x)) = se_ledger x.
Proof.
  induction p as [r|e|o k IH|q k IH]; intro x; simpl; try reflexivity.
  - pose proof (sop_step_store (se_state x) o) as E.
    destruct (sop_step (se_state x) o) as [s' ob]. simpl in E.
    rewrite IH. apply se_put_ledger. exact E.
  - apply IH.
Qed.

Lemma run_prog_ledger' {R} (p : prog R) x o x' : run_prog p x = (o, x') -> se_ledger x' = se_ledger x.
Proof. intro E. pose proof (run_prog_ledger p x) as H. rewrite E in H. exact H. Qed.

(** * Entry points *)

Lemma pre_execute_eip155_ledger L p : snd (pre_execute_eip155 L p) = L.
Proof.
  unfold pre_execute_eip155. destruct (run_prog p (open_session L)) as [o x'] eqn:E.
  simpl. apply (run_prog_ledger' _ _ _ _ E).
Qed.

Lemma execute_eip155_tx_ledger L p : snd (execute_eip155_tx L p) = L.
Proof.
  unfold execute_eip155_tx. destruct (run_prog p (open_session L)) as [o x'] eqn:E.
  simpl. apply (run_prog_ledger' _ _ _ _ E).
Qed.

Lemma pre_execute_with_param_ledger L t pm : snd (pre_execute_with_param L t pm) = L.
Proof.
  destruct t as [p|codelen p|chk codelen|]; unfold pre_execute_with_param.
  - pose proof (pre_execute_eip155_ledger L p) as H. destruct (pre_execute_eip155 L p) as [o L']. exact H.
  - match goal with |- context [run_prog ?q ?y] => destruct (run_prog q y) as [o x'] eqn:E end.
    simpl. apply (run_prog_ledger' _ _ _ _ E).
  - reflexivity.
  - reflexivity.
Qed.

Lemma pre_execute_contract_ledger L t : snd (pre_execute_contract L t) = L.
Proof. apply pre_execute_with_param_ledger. Qed.

Lemma pre_execute_batch_loop_ledger : forall txs L acc, snd (pre_execute_batch_loop L txs acc) = L.
Proof.
  induction txs as [|t r IH]; intros L acc; [reflexivity|].
  simpl. pose proof (pre_execute_contract_ledger L t) as H.
  destruct (pre_execute_contract L t) as [o L1]. simpl in H. subst L1.
  destruct o; [apply IH|reflexivity].
Qed.

Lemma pre_execute_batch_ledger L txs atomic : snd (pre_execute_batch L txs atomic) = L.
Proof.
  unfold pre_execute_batch. pose proof (pre_execute_batch_loop_ledger txs L []) as H.
  destruct (pre_execute_batch_loop L txs []) as [o L']. exact H.
Qed.

Lemma pre_execute_batch_height L txs atomic : snd (fst (pre_execute_batch L txs atomic)) = l_height L.
Proof. unfold pre_execute_batch. destruct (pre_execute_batch_loop L txs []). reflexivity. Qed.

(** later pre-executions do not see earlier ones *)
Lemma pre_execute_independent L t1 t2 pm1 pm2 :
  pre_execute_with_param (snd (pre_execute_with_param L t1 pm1)) t2 pm2 = pre_execute_with_param L t2 pm2.
Proof. rewrite pre_execute_with_param_ledger. reflexivity. Qed.

(** the committing variant does change the persisted state (the model can express the violation) *)
Definition writer_prog : prog evm_res :=
  POp (SPut 5 [1] [2]) (fun _ => POp SCommit (fun _ => PRet (mkEvmRes 0 [] 1 []))).
Definition empty_ledger : ledger := mkLedger (mkPStore [] None) (mkPStore [] None) (mkPStore [] None) [] 0 [] [] [].

Lemma committing_variant_changes_ledger :
  exists L', pre_execute_eip155_committing empty_ledger writer_prog = Some (Done (mkEvmRes 0 [] 1 []), L')
             /\ ps_data (l_state L') = [([5; 1], [2])] /\ L' <> empty_ledger.
Proof. eexists. split; [vm_compute; reflexivity|]. split; [reflexivity|discriminate]. Qed.

(** the overlay-recycling variant replaces a pending block's write set by the pre-execution's *)
Definition pending_ledger : ledger :=
  mkLedger (mkPStore [] None) (mkPStore [] None) (mkPStore [] None) [] 0 [] [] [[([5; 9], [9])]].

Lemma recycling_variant_changes_pending :
  l_pending (snd (pre_execute_eip155_recycling pending_ledger writer_prog)) = [[([5; 1], [2])]] /\
  snd (pre_execute_eip155_recycling pending_ledger writer_prog) <> pending_ledger /\
  snd (pre_execute_eip155 pending_ledger writer_prog) = pending_ledger.
Proof. split; [vm_compute; reflexivity|]. split; [vm_compute; discriminate|apply pre_execute_eip155_ledger]. Qed.

(** * What the engines observe: refinement to the plain ordered map *)

Lemma se_state_put x s : st_store s = ps_data (l_state (se_ledger x)) -> se_state (se_put x s) = s.
Proof.
  intro E. unfold se_state. rewrite (se_put_ledger x s E). unfold se_put. simpl.
  rewrite <- E. destruct s; reflexivity.
Qed.

Lemma run_prog_refines {R} (p : prog R) : forall x, prog_ok p -> good (se_state x) ->
  fst (run_prog p x) = fst (run_prog_spec (se_ledger x) p (abs_spec (se_state x))) /\
  abs_spec (se_state (snd (run_prog p x))) = snd (run_prog_spec (se_ledger x) p (abs_spec (se_state x))).
Proof.
  induction p as [r|e|o k IH|q k IH]; intros x Hok Hg; simpl.
  - split; reflexivity.
  - split; reflexivity.
  - inversion Hok as [| |o' k' Ho Hk|]; subst.
    unfold sop_spec_step. unfold sop_ok in Ho.
    rewrite (impl_step_refines (sop_pfx o) (se_state x) (sop_hop o) Hg Ho).
    pose proof (impl_step_good (sop_pfx o) (se_state x) (sop_hop o) Hg Ho) as Hg1.
    pose proof (sop_step_store (se_state x) o) as E. unfold sop_step in *.
    destruct (impl_step (sop_pfx o) (se_state x) (sop_hop o)) as [s1 ob]. simpl in *.
    assert (E' : st_store s1 = ps_data (l_state (se_ledger x))) by exact E.
    pose proof (se_state_put x s1 E') as Es. pose proof (se_put_ledger x s1 E') as El.
    specialize (IH ob (se_put x s1) (Hk ob)). rewrite Es, El in IH. apply IH. exact Hg1.
  - inversion Hok as [| | |q' k' Hk]; subst. apply IH; [apply Hk|exact Hg].
Qed.

Lemma fresh_abs L : abs_spec (se_state (open_session L)) = fresh_spec L.
Proof.
  unfold abs_spec, fresh_spec, se_state, open_session, abs, abs_block, apply_layer. simpl.
  rewrite !live_idem. reflexivity.
Qed.

Lemma fresh_good L : good_state (mkState [] [] (ps_data (l_state L))) = true -> good (se_state (open_session L)).
Proof. intro H. apply good_state_good. exact H. Qed.

(** the outcome of a pre-executed EIP-155 transaction is the outcome of the engine on the plain map *)
Lemma pre_execute_eip155_refines L p : prog_ok p -> good_state (mkState [] [] (ps_data (l_state L))) = true ->
  fst (pre_execute_eip155 L p) = fst (run_prog_spec L p (fresh_spec L)).
Proof.
  intros Hok Hg. unfold pre_execute_eip155.
  destruct (run_prog_refines p (open_session L) Hok (fresh_good L Hg)) as [E _].
  rewrite fresh_abs in E. simpl in E.
  destruct (run_prog p (open_session L)) as [o x']. exact E.
Qed.

(** * The call alphabet *)

Lemma exec_effect_benign e ch x x' : benign_effect e = true -> exec_effect e ch x = Some x' ->
  se_ledger x' = se_ledger x.
Proof.
  destruct e; simpl; intros H E; try discriminate; try (injection E as <-; reflexivity).
  destruct ch; try (injection E as <-; reflexivity).
  injection E as <-. apply run_prog_ledger.
Qed.

Lemma in_alphabet_benign alpha c : all_benign alpha = true -> existsb (String.eqb c) alpha = true -> benign c = true.
Proof.
  unfold all_benign. rewrite forallb_forall. intros H E. apply existsb_exists in E.
  destruct E as [c' [Hin Heq]]. apply String.eqb_eq in Heq. subst c'. apply H, Hin.
Qed.

Lemma exec_trace_ledger alpha : all_benign alpha = true -> forall tr x x',
  in_alphabet alpha tr = true -> exec_trace tr x = Some x' -> se_ledger x' = se_ledger x.
Proof.
  intros Ha. induction tr as [|[c ch] r IH]; intros x x' Hin E; simpl in *.
  - injection E as <-. reflexivity.
  - apply andb_prop in Hin. destruct Hin as [Hc Hr].
    pose proof (in_alphabet_benign alpha c Ha Hc) as Hb. unfold benign in Hb.
    destruct (classify c) as [e|]; [|discriminate].
    destruct (exec_effect e ch x) as [x1|] eqn:E1; [|discriminate].
    rewrite (IH x1 x' Hr E), (exec_effect_benign e ch x x1 Hb E1). reflexivity.
Qed.

(** a benign alphabet never gets stuck either: every call is classified and none can panic *)
Lemma exec_trace_defined alpha : all_benign alpha = true -> forall tr x,
  in_alphabet alpha tr = true -> exists x', exec_trace tr x = Some x'.
Proof.
  intros Ha. induction tr as [|[c ch] r IH]; intros x Hin; simpl in *.
  - eexists; reflexivity.
  - apply andb_prop in Hin. destruct Hin as [Hc Hr].
    pose proof (in_alphabet_benign alpha c Ha Hc) as Hb. unfold benign in Hb.
    destruct (classify c) as [e|]; [|discriminate].
    destruct e; simpl in *; try discriminate; try (apply IH; exact Hr).
    destruct ch; apply IH; exact Hr.
Qed.

(** the generated alphabets (recomputed by vm_compute against the current Gen/PreExecGen.v) *)
Lemma generated_entries_present : entries_present = true.
Proof. vm_compute. reflexivity. Qed.

Lemma generated_entries_benign : entries_benign = true.
Proof. vm_compute. reflexivity. Qed.

Lemma generated_model_calls_covered : model_calls_covered = true.
Proof. vm_compute. reflexivity. Qed.

Lemma reach_of_benign entry : all_benign (reach_of entry) = true.
Proof.
  unfold reach_of. destruct (find _ c42_reach) as [p|] eqn:F; [|reflexivity].
  apply find_some in F. destruct F as [Hin _].
  pose proof generated_entries_benign as H. unfold entries_benign in H.
  rewrite forallb_forall in H. apply (H p Hin).
Qed.

(** the mutating interface methods are not in any alphabet *)
Definition no_interface_mutator : bool :=
  forallb (fun p => forallb (fun c =>
     negb (existsb (fun m => String.eqb c (String.append "call:this." m))
                   ["AddBlock"; "AddHeaders"; "Close"; "EnableBlockPrune"; "ExecuteBlock";
                    "InitLedgerStoreWithGenesisBlock"; "SubmitBlock"]%string)) (snd p)) c42_reach.
Lemma generated_no_interface_mutator : no_interface_mutator = true.
Proof. vm_compute. reflexivity. Qed.
