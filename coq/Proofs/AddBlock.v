(** Proofs about Model/AddBlock.v (property C39). *)
From Coq Require Import String List Bool NArith ZArith Lia ZifyN ZifyNat ZifyBool.
Import ListNotations.
From Ont Require Import Lib.Bytes Gen.AddBlockGen Model.AddBlock.
Local Open Scope N_scope.
Open Scope bool_scope.

(** * Stores *)
Lemma dkey_eqb_eq a b : dkey_eqb a b = true <-> a = b.
Proof.
  destruct a, b; simpl; split; intro H; try reflexivity; try discriminate;
    try (apply N.eqb_eq in H; subst; reflexivity);
    try (inversion H; subst; apply N.eqb_refl).
Qed.

Lemma dkey_eqb_refl a : dkey_eqb a a = true.
Proof. apply dkey_eqb_eq; reflexivity. Qed.

Lemma dkey_eqb_neq a b : a <> b -> dkey_eqb a b = false.
Proof. intro H; destruct (dkey_eqb a b) eqn:E; [apply dkey_eqb_eq in E; contradiction|reflexivity]. Qed.

Lemma db_get_del_other d k k' : k <> k' -> db_get (db_del d k) k' = db_get d k'.
Proof.
  intro Hn; unfold db_del; induction d as [|[k0 v] d IH]; simpl; [reflexivity|].
  destruct (dkey_eqb k0 k) eqn:E; simpl.
  - apply dkey_eqb_eq in E; subst. rewrite (dkey_eqb_neq _ _ Hn). exact IH.
  - destruct (dkey_eqb k0 k'); [reflexivity|exact IH].
Qed.

Lemma db_get_put_same d k v : db_get (db_put d k v) k = Some v.
Proof. unfold db_put; simpl; rewrite dkey_eqb_refl; reflexivity. Qed.

Lemma db_get_put_other d k v k' : k <> k' -> db_get (db_put d k v) k' = db_get d k'.
Proof. intro Hn; unfold db_put; simpl; rewrite (dkey_eqb_neq _ _ Hn); apply db_get_del_other; exact Hn. Qed.

Definition wop_key (o : wop) : dkey := match o with Put k _ => k | Del k => k end.

Lemma db_get_commit_other ops : forall d k,
  (forall o, In o ops -> wop_key o <> k) -> db_get (db_commit d ops) k = db_get d k.
Proof.
  unfold db_commit; induction ops as [|o ops IH]; intros d k H; simpl; [reflexivity|].
  rewrite IH by (intros o' Ho'; apply H; right; exact Ho').
  assert (Hk : wop_key o <> k) by (apply H; left; reflexivity).
  destruct o; simpl in *; [apply db_get_put_other|apply db_get_del_other]; exact Hk.
Qed.

(** * Signatures *)
Section Sig.
  Variable msg : hash.

  Lemma find_unmasked_spec s : forall keys mask j,
    find_unmasked msg s keys mask = Some j ->
    exists k, nth_error keys j = Some k /\ nth_error mask j = Some false /\ sig_verifies k msg s = true.
  Proof.
    induction keys as [|k ks IH]; intros [|b bs] j H; simpl in H; try discriminate.
    destruct (negb b && sig_verifies k msg s) eqn:E.
    - inversion H; subst. apply andb_prop in E; destruct E as [E1 E2].
      exists k; simpl; repeat split; auto. destruct b; [discriminate|reflexivity].
    - destruct (find_unmasked msg s ks bs) as [j'|] eqn:F; simpl in H; [|discriminate].
      inversion H; subst. destruct (IH bs j' F) as [k' [A [B C]]]. exists k'; simpl; auto.
  Qed.

  Lemma nth_error_set_true_same j : forall mask, (j < length mask)%nat -> nth_error (set_true j mask) j = Some true.
  Proof.
    induction j as [|j IH]; intros [|b bs] H; simpl in *; try lia; [reflexivity|].
    apply IH; lia.
  Qed.

  Lemma nth_error_set_true_other j : forall mask i, i <> j -> nth_error (set_true j mask) i = nth_error mask i.
  Proof.
    induction j as [|j IH]; intros [|b bs] i H; simpl; try reflexivity.
    - destruct i; [congruence|reflexivity].
    - destruct i; [reflexivity|]. simpl. apply IH. congruence.
  Qed.

  Lemma set_true_length j : forall mask, length (set_true j mask) = length mask.
  Proof. induction j as [|j IH]; intros [|b bs]; simpl; auto. Qed.

  Lemma sig_verifies_inv k s : sig_verifies k msg s = true -> s = SigOk k msg.
  Proof.
    destruct s as [k' m'|]; simpl; [|discriminate]. intro H; apply andb_prop in H; destruct H as [A B].
    apply N.eqb_eq in A; apply N.eqb_eq in B; subst; reflexivity.
  Qed.

  (** What a successful run of the mask loop means: the processed signatures are valid
      signatures over [msg] by keys at pairwise distinct, previously unused positions. *)
  Lemma vm_loop_sound keys : forall sigs mask,
    vm_loop msg keys sigs mask = None ->
    exists js, length js = length sigs /\ NoDup js /\
      (forall j, In j js -> nth_error mask j = Some false) /\
      Forall2 (fun j s => exists k, nth_error keys j = Some k /\ s = SigOk k msg) js sigs.
  Proof.
    induction sigs as [|s sigs IH]; intros mask H; simpl in H.
    - exists []; repeat split; try constructor. intros j [].
    - destruct s as [k0 m0|]; [|discriminate].
      destruct (find_unmasked msg (SigOk k0 m0) keys mask) as [j|] eqn:F; [|discriminate].
      destruct (find_unmasked_spec _ _ _ _ F) as [k [Hk [Hm Hv]]].
      destruct (IH _ H) as [js [Hl [Hnd [Hfree Hall]]]].
      assert (Hjlt : (j < length mask)%nat) by (apply nth_error_Some; rewrite Hm; discriminate).
      exists (j :: js); repeat split.
      + simpl; lia.
      + constructor; [|exact Hnd]. intro Hin. specialize (Hfree j Hin).
        rewrite nth_error_set_true_same in Hfree by exact Hjlt. discriminate.
      + intros i [Hi|Hi]; [subst; exact Hm|].
        specialize (Hfree i Hi). destruct (Nat.eq_dec i j) as [->|Hne]; [exact Hm|].
        rewrite nth_error_set_true_other in Hfree by exact Hne. exact Hfree.
      + constructor; [|exact Hall]. exists k; split; [exact Hk|apply sig_verifies_inv; exact Hv].
  Qed.

  Lemma vm_loop_not_io keys : forall sigs mask e, vm_loop msg keys sigs mask = Some e -> e = ESigData \/ e = ESigVerify.
  Proof.
    induction sigs as [|s sigs IH]; intros mask e H; simpl in H; [discriminate|].
    destruct s; [|inversion H; auto].
    destruct (find_unmasked msg (SigOk k m) keys mask); [eapply IH; eauto|inversion H; auto].
  Qed.
End Sig.

(** [m] signatures among the first [m] of [sigs] are valid signatures over [msg] by keys at
    [m] pairwise distinct positions of [keys]. *)
Definition quorum_signed (msg : hash) (keys : list key) (sigs : list sigv) (m : nat) : Prop :=
  exists js : list nat, length js = m /\ NoDup js /\
    Forall2 (fun j s => exists k, nth_error keys j = Some k /\ s = SigOk k msg) js (firstn m sigs).

Lemma verify_multi_sound msg keys m sigs :
  verify_multi msg keys m sigs = None -> quorum_signed msg keys sigs (Z.to_nat m).
Proof.
  unfold verify_multi. destruct (Z.of_nat (length sigs) <? m)%Z eqn:E; [discriminate|].
  intro H. destruct (vm_loop_sound _ _ _ _ H) as [js [Hl [Hnd [_ Hall]]]].
  exists js; repeat split; auto.
  rewrite Hl, firstn_length. apply Z.ltb_ge in E. lia.
Qed.

Lemma verify_multi_not_io msg keys m sigs e :
  verify_multi msg keys m sigs = Some e -> e = ESigNotEnough \/ e = ESigData \/ e = ESigVerify.
Proof.
  unfold verify_multi. destruct (Z.of_nat (length sigs) <? m)%Z; intro H; [inversion H; auto|].
  right; eapply vm_loop_not_io; eauto.
Qed.

Definition io_error (o : outcome) : Prop := exists s, o = Rejected (EIo s).

Lemma next_height_gt h c : h = next_height c -> c < h -> h = c + 1 /\ c + 1 < u32.
Proof. unfold next_height, u32; intros; lia. Qed.

Section Proofs.
  Variable mroot : list hash -> hash.
  Variable txroot : list hash -> hash.
  Variable bk_addr : list key -> addr.
  Variable io : io_stage -> bool.

  Notation verify_header := (verify_header bk_addr).
  Notation verify_block := (verify_block bk_addr).
  Notation submit_block := (submit_block mroot io).
  Notation save_block := (save_block mroot io).
  Notation add_block := (add_block mroot bk_addr io).
  Notation submit_block_entry := (submit_block_entry mroot bk_addr io).
  Notation receive_block := (receive_block mroot txroot bk_addr io).

  (** ** The header checks *)
  Definition header_ok (st : ledger) (hd : header) : Prop :=
    exists prev,
      get_header_by_hash st (hd_prev hd) = Some prev /\
      next_height (hd_height prev) = hd_height hd /\
      hd_time prev < hd_time hd /\
      address_from_bookkeepers bk_addr (hd_keys hd) = Some (hd_nextbk prev) /\
      quorum_signed (hd_hash hd) (hd_keys hd) (hd_sigs hd)
                    (Z.to_nat (c39_solo_m (Z.of_nat (length (hd_keys hd))))).

  Lemma verify_header_sound st hd :
    verify_header st hd = None -> hd_height hd <> 0 -> header_ok st hd.
  Proof.
    unfold AddBlock.verify_header. intros H Hh.
    destruct (hd_height hd =? 0) eqn:E0; [apply N.eqb_eq in E0; contradiction|].
    destruct (get_header_by_hash st (hd_prev hd)) as [prev|] eqn:Ep; [|discriminate].
    destruct (next_height (hd_height prev) =? hd_height hd) eqn:E1; simpl in H; [|discriminate].
    destruct (hd_time hd <=? hd_time prev) eqn:E2; [discriminate|].
    destruct (address_from_bookkeepers bk_addr (hd_keys hd)) as [a|] eqn:Ea; [|discriminate].
    destruct (hd_nextbk prev =? a) eqn:E3; simpl in H; [|discriminate].
    exists prev. apply N.eqb_eq in E1; apply N.eqb_eq in E3; apply N.leb_gt in E2. subst a.
    repeat split; auto. apply verify_multi_sound; exact H.
  Qed.

  Lemma verify_header_not_io st hd e : verify_header st hd = Some e -> forall s, e <> EIo s.
  Proof.
    unfold AddBlock.verify_header. intros H s.
    destruct (hd_height hd =? 0); [discriminate|].
    destruct (get_header_by_hash st (hd_prev hd)) as [prev|]; [|inversion H; discriminate].
    destruct (negb (next_height (hd_height prev) =? hd_height hd)); [inversion H; discriminate|].
    destruct (hd_time hd <=? hd_time prev); [inversion H; discriminate|].
    destruct (address_from_bookkeepers bk_addr (hd_keys hd)) as [a|]; [|inversion H; discriminate].
    destruct (negb (hd_nextbk prev =? a)); [inversion H; discriminate|].
    apply verify_multi_not_io in H. destruct H as [->|[->| ->]]; discriminate.
  Qed.

  (** ** Failed checks leave the state unchanged *)
  Lemma sbss_err st b r st3 e :
    save_block_to_state_store io st b r = (st3, Some e) -> e = EIo IoNotify.
  Proof. unfold save_block_to_state_store; destruct (io IoNotify); simpl; intro H; inversion H; reflexivity. Qed.

  Lemma submit_block_unchanged st b r st' o :
    submit_block st b r = (st', o) -> o <> Added -> ~ io_error o -> st' = st.
  Proof.
    unfold AddBlock.submit_block. intros H Hna Hnio.
    destruct (negb (hd_height (b_hdr b) =? 0) && negb (_ =? hd_blockroot (b_hdr b))); [inversion H; reflexivity|].
    destruct (save_block_to_state_store io _ b r) as [st3 [e|]] eqn:Es.
    - apply sbss_err in Es; subst e. inversion H; subst. exfalso; apply Hnio; eexists; reflexivity.
    - destruct (negb (io IoCommitBlock)); [inversion H; subst; exfalso; apply Hnio; eexists; reflexivity|].
      destruct (negb (io IoCommitEvent)); [inversion H; subst; exfalso; apply Hnio; eexists; reflexivity|].
      destruct (negb (io IoCommitState)); [inversion H; subst; exfalso; apply Hnio; eexists; reflexivity|].
      inversion H; subst; contradiction.
  Qed.

  Lemma save_block_unchanged st b sroot ex st' o :
    save_block st b sroot ex = (st', o) -> o <> Added -> ~ io_error o -> st' = st.
  Proof.
    unfold AddBlock.save_block. intros H Hna Hnio.
    destruct ((0 <? hd_height (b_hdr b)) && (hd_height (b_hdr b) <=? cur_height st)); [inversion H; reflexivity|].
    destruct ((0 <? hd_height (b_hdr b)) && negb (hd_height (b_hdr b) =? next_height (cur_height st))); [inversion H; reflexivity|].
    destruct ex as [r|]; [|inversion H; reflexivity].
    destruct (negb _ && negb (r_merkle r =? sroot)); [inversion H; reflexivity|].
    eapply submit_block_unchanged; eauto.
  Qed.

  Lemma add_block_unchanged st b sroot ex st' o :
    add_block st b sroot ex = (st', o) -> o <> Added -> ~ io_error o -> st' = st.
  Proof.
    unfold AddBlock.add_block. intros H Hna Hnio.
    destruct (hd_height (b_hdr b) <=? cur_height st); [inversion H; reflexivity|].
    destruct (negb (hd_height (b_hdr b) =? next_height (cur_height st))); [inversion H; reflexivity|].
    destruct (verify_header st (b_hdr b)); [inversion H; reflexivity|].
    destruct (save_block st b sroot ex) as [st1 o1] eqn:Es.
    destruct o1; inversion H; subst; try contradiction; eapply save_block_unchanged; eauto.
  Qed.

  Lemma submit_block_entry_unchanged st b r st' o :
    submit_block_entry st b r = (st', o) -> o <> Added -> ~ io_error o -> st' = st.
  Proof.
    unfold AddBlock.submit_block_entry. intros H Hna Hnio.
    destruct (hd_height (b_hdr b) <=? cur_height st); [inversion H; reflexivity|].
    destruct (negb (hd_height (b_hdr b) =? next_height (cur_height st))); [inversion H; reflexivity|].
    destruct (verify_header st (b_hdr b)); [inversion H; reflexivity|].
    destruct (submit_block st b r) as [st1 o1] eqn:Es.
    destruct o1; inversion H; subst; try contradiction; eapply submit_block_unchanged; eauto.
  Qed.

  Lemma receive_block_unchanged st b sroot ex st' o :
    receive_block st b sroot ex = (st', o) -> o <> Added -> ~ io_error o -> st' = st.
  Proof.
    unfold AddBlock.receive_block. intros H Hna Hnio.
    destruct (decode_checks txroot b); [inversion H; reflexivity|].
    eapply add_block_unchanged; eauto.
  Qed.

  (** ** What it takes to get past the checks *)
  Definition committed (o : outcome) : Prop := o = Added \/ io_error o.

  Lemma block_root_next st h x :
    h = next_height (cur_height st) -> cur_height st < h ->
    block_root_with_new mroot st h [x] = mroot (blk_tree st ++ [x]).
  Proof.
    intros Hh Hlt. destruct (next_height_gt _ _ Hh Hlt) as [He Hb].
    unfold block_root_with_new. rewrite <- Hh. simpl length.
    replace ((h + N.of_nat 1 + u32 - 1) mod u32) with h by (unfold u32 in *; lia).
    destruct (h <? cur_height st) eqn:E1; [apply N.ltb_lt in E1; lia|].
    rewrite N.ltb_irrefl.
    replace ((cur_height st + 1 + u32 - h) mod u32) with 0 by (unfold u32 in *; lia).
    reflexivity.
  Qed.

  Definition passed_submit (st : ledger) (b : block) : Prop :=
    hd_height (b_hdr b) = 0 \/
    hd_blockroot (b_hdr b) = block_root_with_new mroot st (hd_height (b_hdr b)) [hd_txroot (b_hdr b)].

  Lemma submit_block_committed st b r st' o :
    submit_block st b r = (st', o) -> committed o -> passed_submit st b.
  Proof.
    unfold AddBlock.submit_block, passed_submit. intros H Hc.
    destruct (hd_height (b_hdr b) =? 0) eqn:E0; [left; apply N.eqb_eq; exact E0|]. simpl in H.
    destruct (_ =? hd_blockroot (b_hdr b)) eqn:E1; simpl in H.
    - right; apply N.eqb_eq in E1; symmetry; exact E1.
    - inversion H; subst. destruct Hc as [Hc|[s Hc]]; discriminate.
  Qed.

  Definition passed_state_root (b : block) (sroot : hash) (ex : option exec_res) : Prop :=
    exists r, ex = Some r /\ (b_txs b <> [] -> r_merkle r = sroot).

  Lemma save_block_committed st b sroot ex st' o :
    save_block st b sroot ex = (st', o) -> committed o ->
    passed_state_root b sroot ex /\ passed_submit st b.
  Proof.
    unfold AddBlock.save_block. intros H Hc.
    destruct ((0 <? hd_height (b_hdr b)) && (hd_height (b_hdr b) <=? cur_height st));
      [inversion H; subst; destruct Hc as [Hc|[s Hc]]; discriminate|].
    destruct ((0 <? hd_height (b_hdr b)) && negb (hd_height (b_hdr b) =? next_height (cur_height st)));
      [inversion H; subst; destruct Hc as [Hc|[s Hc]]; discriminate|].
    destruct ex as [r|]; [|inversion H; subst; destruct Hc as [Hc|[s Hc]]; discriminate].
    destruct (b_txs b) as [|t ts] eqn:Et; simpl in H.
    - split; [exists r; split; [reflexivity|intro X; congruence]|eapply submit_block_committed; eauto].
    - destruct (r_merkle r =? sroot) eqn:Er; simpl in H.
      + apply N.eqb_eq in Er. split; [exists r; split; [reflexivity|intros _; exact Er]|eapply submit_block_committed; eauto].
      + inversion H; subst; destruct Hc as [Hc|[s Hc]]; discriminate.
  Qed.

  (** Everything a block must satisfy for AddBlock to reach the commit. *)
  Definition passed_add (st : ledger) (b : block) (sroot : hash) (ex : option exec_res) : Prop :=
    let hd := b_hdr b in
    hd_height hd = cur_height st + 1 /\ cur_height st + 1 < u32 /\
    header_ok st hd /\
    passed_state_root b sroot ex /\
    hd_blockroot hd = mroot (blk_tree st ++ [hd_txroot hd]).

  Lemma add_block_committed st b sroot ex st' o :
    add_block st b sroot ex = (st', o) -> committed o -> passed_add st b sroot ex.
  Proof.
    unfold AddBlock.add_block. intros H Hc.
    destruct (hd_height (b_hdr b) <=? cur_height st) eqn:E0;
      [inversion H; subst; destruct Hc as [Hc|[s Hc]]; discriminate|].
    destruct (hd_height (b_hdr b) =? next_height (cur_height st)) eqn:E1; simpl in H;
      [|inversion H; subst; destruct Hc as [Hc|[s Hc]]; discriminate].
    apply N.leb_gt in E0. apply N.eqb_eq in E1.
    destruct (next_height_gt _ _ E1 E0) as [Hh Hb].
    destruct (verify_header st (b_hdr b)) as [e|] eqn:Ev.
    - inversion H; subst. destruct Hc as [Hc|[s Hc]]; [discriminate|].
      inversion Hc; subst. exfalso; eapply verify_header_not_io; eauto.
    - destruct (save_block st b sroot ex) as [st1 o1] eqn:Es.
      assert (Hc1 : committed o1).
      { destruct o1; inversion H; subst; [left; reflexivity|destruct Hc as [Hc|[s Hc]]; discriminate|exact Hc]. }
      destruct (save_block_committed _ _ _ _ _ _ Es Hc1) as [Hsr Hps].
      unfold passed_add; repeat split; auto.
      + apply verify_header_sound; [exact Ev|lia].
      + destruct Hps as [Hz|Hr]; [lia|]. rewrite Hr. apply block_root_next; [exact E1|lia].
  Qed.

  Lemma submit_block_entry_committed st b r st' o :
    submit_block_entry st b r = (st', o) -> committed o ->
    let hd := b_hdr b in
    hd_height hd = cur_height st + 1 /\ cur_height st + 1 < u32 /\ header_ok st hd /\
    hd_blockroot hd = mroot (blk_tree st ++ [hd_txroot hd]).
  Proof.
    unfold AddBlock.submit_block_entry. intros H Hc.
    destruct (hd_height (b_hdr b) <=? cur_height st) eqn:E0;
      [inversion H; subst; destruct Hc as [Hc|[s Hc]]; discriminate|].
    destruct (hd_height (b_hdr b) =? next_height (cur_height st)) eqn:E1; simpl in H;
      [|inversion H; subst; destruct Hc as [Hc|[s Hc]]; discriminate].
    apply N.leb_gt in E0. apply N.eqb_eq in E1.
    destruct (next_height_gt _ _ E1 E0) as [Hh Hb].
    destruct (verify_header st (b_hdr b)) as [e|] eqn:Ev.
    - inversion H; subst. destruct Hc as [Hc|[s Hc]]; [discriminate|].
      inversion Hc; subst. exfalso; eapply verify_header_not_io; eauto.
    - destruct (submit_block st b r) as [st1 o1] eqn:Es.
      assert (Hc1 : committed o1).
      { destruct o1; inversion H; subst; [left; reflexivity|destruct Hc as [Hc|[s Hc]]; discriminate|exact Hc]. }
      pose proof (submit_block_committed _ _ _ _ _ Es Hc1) as Hps.
      simpl; repeat split; auto.
      + apply verify_header_sound; [exact Ev|lia].
      + destruct Hps as [Hz|Hr]; [lia|]. rewrite Hr. apply block_root_next; [exact E1|lia].
  Qed.

  Lemma has_dup_false l : has_dup l = false -> NoDup l.
  Proof.
    induction l as [|x r IH]; simpl; intro H; [constructor|].
    apply orb_false_elim in H; destruct H as [H1 H2]. constructor; [|apply IH; exact H2].
    intro Hin. assert (existsb (N.eqb x) r = true) by (apply existsb_exists; exists x; split; [exact Hin|apply N.eqb_refl]).
    congruence.
  Qed.

  Definition passed_decode (b : block) : Prop :=
    NoDup (b_txs b) /\ hd_txroot (b_hdr b) = txroot (b_txs b).

  Lemma receive_block_committed st b sroot ex st' o :
    receive_block st b sroot ex = (st', o) -> committed o ->
    passed_decode b /\ passed_add st b sroot ex.
  Proof.
    unfold AddBlock.receive_block, decode_checks. intros H Hc.
    destruct (has_dup (b_txs b)) eqn:Ed; [inversion H; subst; destruct Hc as [Hc|[s Hc]]; discriminate|].
    destruct (txroot (b_txs b) =? hd_txroot (b_hdr b)) eqn:Et; simpl in H;
      [|inversion H; subst; destruct Hc as [Hc|[s Hc]]; discriminate].
    split; [split; [apply has_dup_false; exact Ed|apply N.eqb_eq in Et; symmetry; exact Et]|].
    eapply add_block_committed; eauto.
  Qed.

  (** ** Well-formed ledgers: the stored headers are those of the chain below the tip, and the
      header cache (header-first sync) only holds headers above the tip *)
  Definition cache_above_tip (st : ledger) : Prop :=
    forall h hd, assoc (hdr_cache st) h = Some hd -> cur_height st < hd_height hd /\ hd_height hd < u32.
  Definition wf_store (st : ledger) : Prop :=
    forall h hd, block_store_header st h = Some hd ->
      hd_height hd <= cur_height st /\ (hd_height hd = cur_height st -> h = cur_hash st).
  Definition wf (st : ledger) : Prop := cache_above_tip st /\ wf_store st.

  Lemma passed_add_prev_is_tip st b sroot ex :
    wf st -> passed_add st b sroot ex -> hd_prev (b_hdr b) = cur_hash st.
  Proof.
    intros [Hc Hs] (Hh & Hb & (prev & Hp & Hn & _) & _).
    unfold get_header_by_hash in Hp.
    destruct (assoc (hdr_cache st) (hd_prev (b_hdr b))) as [pc|] eqn:Ec.
    - inversion Hp; subst. destruct (Hc _ _ Ec) as [H1 H2]. exfalso.
      unfold next_height, u32 in *. lia.
    - destruct (Hs _ _ Hp) as [Hle Heq]. apply Heq.
      unfold next_height, u32 in *. lia.
  Qed.

  Lemma assoc_filter_other {B} (l : list (N * B)) k k' :
    k <> k' -> assoc (filter (fun e => negb (fst e =? k)) l) k' = assoc l k'.
  Proof.
    intro Hn; induction l as [|[a v] l IH]; simpl; [reflexivity|].
    destruct (a =? k) eqn:E; simpl.
    - apply N.eqb_eq in E; subst. destruct (k =? k') eqn:E2; [apply N.eqb_eq in E2; contradiction|exact IH].
    - destruct (a =? k'); [reflexivity|exact IH].
  Qed.

  (** the stored headers after a successful submit: the old ones and the new block's *)
  Lemma submit_block_headers st b r st' :
    submit_block st b r = (st', Added) ->
    hdr_cache st' = hdr_cache st /\
    cur_height st' = hd_height (b_hdr b) /\ cur_hash st' = hd_hash (b_hdr b) /\
    forall h hd, block_store_header st' h = Some hd ->
      (h = hd_hash (b_hdr b) /\ hd = b_hdr b) \/ block_store_header st h = Some hd.
  Proof.
    unfold AddBlock.submit_block. intro H.
    destruct (negb (hd_height (b_hdr b) =? 0) && negb (_ =? hd_blockroot (b_hdr b))); [discriminate|].
    unfold save_block_to_state_store in H.
    destruct (negb (io IoNotify)); [discriminate|].
    destruct (negb (io IoCommitBlock)); [discriminate|].
    destruct (negb (io IoCommitEvent)); [discriminate|].
    destruct (negb (io IoCommitState)); [discriminate|].
    inversion H; subst; clear H. simpl. repeat split; auto.
    intros h hd. unfold block_store_header; simpl.
    destruct (hd_hash (b_hdr b) =? h) eqn:E.
    - apply N.eqb_eq in E. intro X; inversion X; subst. left; split; reflexivity.
    - destruct (assoc (blk_cache st) h) as [hc|]; [intro X; right; exact X|].
      rewrite db_get_commit_other.
      + assert (Hne : KHeader (hd_hash (b_hdr b)) <> KHeader h)
          by (intro X; inversion X; subst; rewrite N.eqb_refl in E; discriminate).
        rewrite (db_get_put_other _ _ _ _ Hne).
        rewrite db_get_put_other by discriminate. rewrite db_get_put_other by discriminate.
        intro X; right; exact X.
      + intros o Ho. apply in_app_or in Ho; destruct Ho as [Ho|Ho].
        * apply in_map_iff in Ho. destruct Ho as [t [<- _]]. simpl; discriminate.
        * destruct Ho as [<-|[]]; simpl; discriminate.
  Qed.

  Lemma submit_block_wf st b r st' :
    wf_store st ->
    (forall h hd, block_store_header st h = Some hd -> hd_height hd < hd_height (b_hdr b)) ->
    submit_block st b r = (st', Added) -> wf_store st'.
  Proof.
    intros Hs Hlt H. destruct (submit_block_headers _ _ _ _ H) as (Hc' & Hh & Hx & Hall).
    intros h hd Hg. destruct (Hall _ _ Hg) as [[-> ->]|Hold].
    - rewrite Hh, Hx. split; [lia|reflexivity].
    - specialize (Hlt _ _ Hold). rewrite Hh. split; [lia|]. intro; lia.
  Qed.

  Lemma assoc_filter_some {B} (l : list (N * B)) k k' v :
    assoc (filter (fun e => negb (fst e =? k)) l) k' = Some v -> k' <> k /\ assoc l k' = Some v.
  Proof.
    induction l as [|[a x] l IH]; simpl; [discriminate|].
    destruct (a =? k) eqn:E; simpl.
    - intro H. destruct (IH H) as [Hn Ha]. split; [exact Hn|].
      apply N.eqb_eq in E; subst a. destruct (k =? k') eqn:E2; [apply N.eqb_eq in E2; congruence|exact Ha].
    - destruct (a =? k') eqn:E2; [|exact IH].
      intro H. split; [|exact H]. apply N.eqb_eq in E2; subst. intro; subst. rewrite N.eqb_refl in E; discriminate.
  Qed.

  (** Adding a block keeps the ledger well-formed provided the header cache holds, at the new
      height, nothing but (possibly) the header of the added block itself. *)
  Definition cache_clear_of (st : ledger) (b : block) : Prop :=
    forall h hd, assoc (hdr_cache st) h = Some hd -> h = hd_hash (b_hdr b) \/ hd_height (b_hdr b) < hd_height hd.

  Lemma add_block_wf st b sroot ex st' o :
    wf st -> add_block st b sroot ex = (st', o) -> ~ io_error o ->
    (o = Added -> cache_clear_of st b) -> wf st'.
  Proof.
    intros Hwf H Hnio Hcc. destruct o as [| |e].
    - (* Added *)
      specialize (Hcc eq_refl).
      unfold AddBlock.add_block in H.
      destruct (hd_height (b_hdr b) <=? cur_height st) eqn:E0; [discriminate|].
      destruct (negb (hd_height (b_hdr b) =? next_height (cur_height st))); [discriminate|].
      destruct (verify_header st (b_hdr b)); [discriminate|].
      destruct (save_block st b sroot ex) as [st1 o1] eqn:Es.
      destruct o1; inversion H; subst.
      unfold AddBlock.save_block in Es.
      destruct ((0 <? hd_height (b_hdr b)) && (hd_height (b_hdr b) <=? cur_height st)); [discriminate|].
      destruct ((0 <? hd_height (b_hdr b)) && negb (hd_height (b_hdr b) =? next_height (cur_height st))); [discriminate|].
      destruct ex as [r|]; [|discriminate].
      destruct (negb _ && negb (r_merkle r =? sroot)); [discriminate|].
      apply N.leb_gt in E0. destruct Hwf as [Hc Hs].
      destruct (submit_block_headers _ _ _ _ Es) as (Hc' & Hh & Hx & _).
      split.
      + intros h hd Ha. simpl in Ha. apply assoc_filter_some in Ha. destruct Ha as [Hne Ha].
        rewrite Hc' in Ha. simpl. rewrite Hh.
        destruct (Hc _ _ Ha) as [_ Hu]. destruct (Hcc _ _ Ha) as [->|Hlt]; [contradiction|]. split; assumption.
      + assert (Hs1 : wf_store st1).
        { eapply submit_block_wf; eauto. intros h hd Hg. destruct (Hs _ _ Hg) as [Hle _]. lia. }
        exact Hs1.
    - assert (st' = st) by (eapply add_block_unchanged; [exact H|discriminate|intros [s X]; discriminate]).
      subst; exact Hwf.
    - assert (st' = st) by (eapply add_block_unchanged; [exact H|discriminate|exact Hnio]).
      subst; exact Hwf.
  Qed.

  Lemma cache_clear_of_nil st b : hdr_cache st = [] -> cache_clear_of st b.
  Proof. intros H h hd Ha. rewrite H in Ha. discriminate. Qed.

  Lemma wf_empty : wf empty_ledger.
  Proof.
    split; [intros h hd; simpl; discriminate|].
    intros h hd; unfold block_store_header; simpl; discriminate.
  Qed.

  Lemma init_genesis_wf g r st : init_genesis mroot io g r = (st, Added) -> wf st /\ hdr_cache st = [].
  Proof.
    unfold init_genesis. destruct (submit_block empty_ledger g r) as [st0 o0] eqn:Es.
    destruct o0; intro H; inversion H; subst; clear H.
    destruct (submit_block_headers _ _ _ _ Es) as (Hc' & _).
    assert (Hs : wf_store st0).
    { eapply submit_block_wf; [apply wf_empty| |exact Es].
      intros h hd; unfold block_store_header; simpl; discriminate. }
    simpl in Hc'. split; [split|exact Hc'].
    - intros h hd Ha. simpl in Ha. rewrite Hc' in Ha. discriminate.
    - intros h hd Hg. apply Hs. unfold block_store_header in *. cbn [blk_cache bstore] in Hg.
      destruct (assoc (blk_cache st0) h); [exact Hg|].
      rewrite db_get_put_other in Hg by discriminate. exact Hg.
  Qed.

  (** *** AddHeader *)
  Lemma add_header_unchanged st hd st' e : add_header bk_addr st hd = (st', Some e) -> st' = st.
  Proof.
    unfold add_header. destruct (negb _); [intro H; inversion H; reflexivity|].
    destruct (verify_header st hd); intro H; inversion H; reflexivity.
  Qed.

  Lemma add_header_accepted st hd st' :
    add_header bk_addr st hd = (st', None) ->
    hd_height hd = next_height (current_header_height st) /\ verify_header st hd = None /\
    st' = set_header_index (add_header_cache st hd) (hd_height hd) (hd_hash hd).
  Proof.
    unfold add_header. destruct (hd_height hd =? next_height (current_header_height st)) eqn:E; simpl; [|discriminate].
    destruct (verify_header st hd) eqn:Ev; intro H; inversion H. apply N.eqb_eq in E. auto.
  Qed.

  Lemma add_header_wf st hd st' :
    wf st -> add_header bk_addr st hd = (st', None) -> cur_height st < hd_height hd -> wf st'.
  Proof.
    intros [Hc Hs] H Hlt. destruct (add_header_accepted _ _ _ H) as (Hh & Hv & ->).
    split.
    - intros h x Ha. simpl in Ha.
      destruct (hd_hash hd =? h) eqn:E.
      + inversion Ha; subst x. simpl. split; [exact Hlt|].
        rewrite Hh. unfold next_height, u32. apply N.mod_lt. discriminate.
      + apply assoc_filter_some in Ha. destruct Ha as [_ Ha]. exact (Hc _ _ Ha).
    - exact Hs.
  Qed.


  Lemma add_block_ignored st b sroot ex st' :
    add_block st b sroot ex = (st', Ignored) -> hd_height (b_hdr b) <= cur_height st.
  Proof.
    unfold AddBlock.add_block. intro H.
    destruct (hd_height (b_hdr b) <=? cur_height st) eqn:E0; [apply N.leb_le; exact E0|].
    destruct (hd_height (b_hdr b) =? next_height (cur_height st)) eqn:E1; simpl in H; [|discriminate].
    destruct (verify_header st (b_hdr b)); [discriminate|].
    destruct (save_block st b sroot ex) as [st1 o1] eqn:Es.
    destruct o1; inversion H; subst. exfalso.
    unfold AddBlock.save_block in Es. rewrite E0, E1 in Es. simpl in Es. rewrite !andb_false_r in Es.
    destruct ex as [r|]; [|discriminate].
    destruct (negb _ && negb (r_merkle r =? sroot)); [discriminate|].
    unfold AddBlock.submit_block in Es.
    destruct (negb (hd_height (b_hdr b) =? 0) && negb (_ =? hd_blockroot (b_hdr b))); [discriminate|].
    destruct (save_block_to_state_store io _ b r) as [st3 [e|]]; [discriminate|].
    destruct (negb (io IoCommitBlock)); [discriminate|].
    destruct (negb (io IoCommitEvent)); [discriminate|].
    destruct (negb (io IoCommitState)); discriminate.
  Qed.

  Lemma address_some_m_pos keys a :
    address_from_bookkeepers bk_addr keys = Some a -> (1 <= c39_solo_m (Z.of_nat (length keys)))%Z.
  Proof.
    unfold address_from_bookkeepers. destruct (Z.of_nat (length keys) =? 1)%Z eqn:E.
    - apply Z.eqb_eq in E. rewrite E. intros _. vm_compute. discriminate.
    - change (c39_addr_m (Z.of_nat (length keys))) with (c39_solo_m (Z.of_nat (length keys))).
      destruct (1 <=? c39_solo_m (Z.of_nat (length keys)))%Z eqn:E1; simpl; [|discriminate].
      intros _. apply Z.leb_le; exact E1.
  Qed.

  (** ** Valid blocks are added (the checks are not vacuously strict) *)
  Lemma add_block_accepts st b sroot r :
    let hd := b_hdr b in
    cur_height st < hd_height hd -> hd_height hd = next_height (cur_height st) ->
    verify_header st hd = None ->
    (b_txs b = [] \/ r_merkle r = sroot) ->
    hd_blockroot hd = mroot (blk_tree st ++ [hd_txroot hd]) ->
    (forall s, io s = true) ->
    exists st', add_block st b sroot (Some r) = (st', Added) /\
      cur_height st' = hd_height hd /\ cur_hash st' = hd_hash hd /\
      blk_tree st' = blk_tree st ++ [hd_txroot hd] /\
      st_tree st' = st_tree st ++ [r_hash r] /\
      merkle_file st' = merkle_file st ++ [hd_txroot hd].
  Proof.
    intros hd Hlt Hn Hv Hsr Hbr Hio. subst hd.
    unfold AddBlock.add_block.
    destruct (hd_height (b_hdr b) <=? cur_height st) eqn:E0; [apply N.leb_le in E0; lia|].
    assert (E1 : (hd_height (b_hdr b) =? next_height (cur_height st)) = true) by (apply N.eqb_eq; exact Hn).
    rewrite E1. simpl. rewrite Hv.
    unfold AddBlock.save_block. rewrite E0, E1. simpl. rewrite !andb_false_r.
    assert (Hchk : negb (match b_txs b with [] => true | _ => false end) && negb (r_merkle r =? sroot) = false).
    { destruct Hsr as [->| ->]; [reflexivity|]. rewrite N.eqb_refl; simpl; apply andb_false_r. }
    rewrite Hchk.
    unfold AddBlock.submit_block.
    rewrite (block_root_next st (hd_height (b_hdr b)) _ Hn Hlt), <- Hbr, N.eqb_refl. simpl. rewrite andb_false_r.
    unfold save_block_to_state_store. rewrite !Hio. simpl.
    eexists; split; [reflexivity|]. simpl. repeat split; reflexivity.
  Qed.

  (** ** The two header validators accept the same headers *)
  Lemma validator_m_eq n : c39_validator_m n = c39_solo_m n.
  Proof. reflexivity. Qed.

  Lemma validators_agree st hd :
    verify_block st hd = None <-> verify_header st hd = None.
  Proof.
    unfold AddBlock.verify_block, AddBlock.verify_header, validator_verify_header.
    destruct (hd_height hd =? 0); [tauto|].
    rewrite validator_m_eq.
    destruct (verify_multi (hd_hash hd) (hd_keys hd) _ (hd_sigs hd)) as [e|] eqn:Em;
      destruct (get_header_by_hash st (hd_prev hd)) as [prev|]; try (split; discriminate).
    - destruct (negb (next_height (hd_height prev) =? hd_height hd)); [split; discriminate|].
      destruct (hd_time hd <=? hd_time prev); [split; discriminate|].
      destruct (address_from_bookkeepers bk_addr (hd_keys hd)) as [a|]; [|split; discriminate].
      destruct (negb (hd_nextbk prev =? a)); split; discriminate.
    - destruct (negb (next_height (hd_height prev) =? hd_height hd)); [tauto|].
      destruct (hd_time hd <=? hd_time prev); [tauto|].
      destruct (address_from_bookkeepers bk_addr (hd_keys hd)) as [a|]; [|tauto].
      destruct (negb (hd_nextbk prev =? a)); tauto.
  Qed.

  (** ** The header cache does not decide acceptance
      verifyHeader is run in full by AddBlock whether or not the header (or any header with the
      same hash) was accepted earlier by AddHeader; the only thing it reads from the cache is the
      predecessor looked up by [hd_prev]. *)
  Lemma verify_header_cache st c hd :
    assoc c (hd_prev hd) = assoc (hdr_cache st) (hd_prev hd) ->
    verify_header (set_hdr_cache st c) hd = verify_header st hd.
  Proof.
    intro H. unfold AddBlock.verify_header, get_header_by_hash. simpl. rewrite H. reflexivity.
  Qed.

  Lemma submit_block_cache st c b r :
    submit_block (set_hdr_cache st c) b r =
    (set_hdr_cache (fst (submit_block st b r)) c, snd (submit_block st b r)).
  Proof.
    unfold AddBlock.submit_block, save_block_to_state_store.
    change (block_root_with_new mroot (set_hdr_cache st c)) with (block_root_with_new mroot st).
    destruct (negb (hd_height (b_hdr b) =? 0) && negb (_ =? hd_blockroot (b_hdr b))); [reflexivity|].
    destruct (negb (io IoNotify)); [reflexivity|].
    destruct (negb (io IoCommitBlock)); [reflexivity|].
    destruct (negb (io IoCommitEvent)); [reflexivity|].
    destruct (negb (io IoCommitState)); reflexivity.
  Qed.

  Lemma save_block_cache st c b sroot ex :
    save_block (set_hdr_cache st c) b sroot ex =
    (set_hdr_cache (fst (save_block st b sroot ex)) c, snd (save_block st b sroot ex)).
  Proof.
    unfold AddBlock.save_block. cbn [cur_height set_hdr_cache].
    destruct ((0 <? hd_height (b_hdr b)) && (hd_height (b_hdr b) <=? cur_height st)); [reflexivity|].
    destruct ((0 <? hd_height (b_hdr b)) && negb (hd_height (b_hdr b) =? next_height (cur_height st))); [reflexivity|].
    destruct ex as [r|]; [|reflexivity].
    destruct (negb _ && negb (r_merkle r =? sroot)); [reflexivity|].
    apply submit_block_cache.
  Qed.

  Lemma header_cache_irrelevant st c b sroot ex st1 o1 :
    assoc c (hd_prev (b_hdr b)) = assoc (hdr_cache st) (hd_prev (b_hdr b)) ->
    add_block st b sroot ex = (st1, o1) ->
    exists st2, add_block (set_hdr_cache st c) b sroot ex = (st2, o1) /\
                set_hdr_cache st2 [] = set_hdr_cache st1 [].
  Proof.
    intros Hc. unfold AddBlock.add_block. cbn [cur_height set_hdr_cache].
    rewrite (verify_header_cache _ _ _ Hc).
    destruct (hd_height (b_hdr b) <=? cur_height st); [intro H; inversion H; subst; eexists; split; reflexivity|].
    destruct (negb (hd_height (b_hdr b) =? next_height (cur_height st))); [intro H; inversion H; subst; eexists; split; reflexivity|].
    destruct (verify_header st (b_hdr b)); [intro H; inversion H; subst; eexists; split; reflexivity|].
    rewrite save_block_cache.
    destruct (save_block st b sroot ex) as [sx ox]. simpl.
    destruct ox; intro H; inversion H; subst; eexists; split; reflexivity.
  Qed.

  (** ** Late I/O failure: not atomic (outside the property; recorded precisely) *)
  Lemma late_io_failure_residue st b r st' o :
    passed_submit st b ->
    io IoNotify = true -> io IoCommitBlock = true -> io IoCommitEvent = true -> io IoCommitState = false ->
    submit_block st b r = (st', o) ->
    o = Rejected (EIo IoCommitState) /\
    cur_height st' = cur_height st /\ cur_hash st' = cur_hash st /\ sstore st' = sstore st /\
    blk_tree st' = blk_tree st ++ [hd_txroot (b_hdr b)] /\
    st_tree st' = st_tree st ++ [r_hash r] /\
    merkle_file st' = merkle_file st ++ [hd_txroot (b_hdr b)] /\
    assoc (blk_cache st') (hd_hash (b_hdr b)) = Some (b_hdr b) /\
    db_get (bstore st') KCurrent = Some (VCurrent (hd_hash (b_hdr b)) (hd_height (b_hdr b))) /\
    db_get (estore st') KCurrent = Some (VCurrent (hd_hash (b_hdr b)) (hd_height (b_hdr b))).
  Proof.
    intros Hp H1 H2 H3 H4. unfold AddBlock.submit_block.
    assert (Hchk : negb (hd_height (b_hdr b) =? 0) &&
                   negb (block_root_with_new mroot st (hd_height (b_hdr b)) [hd_txroot (b_hdr b)] =? hd_blockroot (b_hdr b)) = false).
    { destruct Hp as [Hz|Hr]; [rewrite Hz; reflexivity|]. rewrite <- Hr, N.eqb_refl; simpl; apply andb_false_r. }
    rewrite Hchk. unfold save_block_to_state_store. rewrite H1, H2, H3, H4. simpl.
    intro H; inversion H; subst; clear H. simpl. rewrite N.eqb_refl.
    repeat split; try reflexivity.
    - unfold db_commit. simpl fold_left.
      change (fold_left db_apply1 ?l ?d) with (db_commit d l).
      rewrite db_get_commit_other.
      + rewrite db_get_put_other by discriminate. rewrite db_get_put_other by discriminate. apply db_get_put_same.
      + intros o Ho. apply in_app_or in Ho; destruct Ho as [Ho|Ho].
        * apply in_map_iff in Ho. destruct Ho as [t [<- _]]. simpl; discriminate.
        * destruct Ho as [<-|[]]; simpl; discriminate.
    - unfold db_commit. rewrite fold_left_app. simpl.
      destruct (b_txs b); simpl; first [reflexivity | apply db_get_put_same].
  Qed.

  (** ... and the failure is sticky: the same (valid) block offered again meets a block tree that
      already contains its tx root. *)
  Lemma late_io_failure_sticky st b r st' io' :
    hd_height (b_hdr b) = next_height (cur_height st) -> cur_height st < hd_height (b_hdr b) ->
    cur_height st' = cur_height st ->
    blk_tree st' = blk_tree st ++ [hd_txroot (b_hdr b)] ->
    mroot (blk_tree st ++ [hd_txroot (b_hdr b)] ++ [hd_txroot (b_hdr b)]) <> hd_blockroot (b_hdr b) ->
    AddBlock.submit_block mroot io' st' b r = (st', Rejected EBlockRoot).
  Proof.
    intros Hn Hlt Hc Ht Hne. unfold AddBlock.submit_block.
    rewrite (block_root_next st' (hd_height (b_hdr b))) by (rewrite Hc; assumption).
    rewrite Ht, <- app_assoc.
    destruct (hd_height (b_hdr b) =? 0) eqn:E0; [apply N.eqb_eq in E0; lia|].
    destruct (_ =? hd_blockroot (b_hdr b)) eqn:E1; [apply N.eqb_eq in E1; contradiction|].
    reflexivity.
  Qed.
End Proofs.
