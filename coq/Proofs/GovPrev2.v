(** C10/C11, fee-split hypothesis as an invariant, part 2: unAuthorizeForPeer, reduceInitPos and the
    remaining single-record operations. *)
From Coq Require Import List NArith Bool Lia.
Import ListNotations.
From Ont Require Import Lib.AList Gen.GovConsts Model.Gov Model.GovSpec Proofs.GovInv Proofs.GovAcct
  Proofs.GovAcct2 Proofs.GovAcct3 Proofs.GovAcct4 Proofs.GovAcct5 Proofs.GovPrev.
Local Open Scope N_scope.

(** unAuthorizeForPeer moves positions only between a bucket and its Withdraw twin: Consensus +
    WithdrawConsensus and Candidate + WithdrawCandidate of the record stay what they were. *)
Lemma unauth_apply_inv4 : forall s a k p pos s', inv2 s -> inv4 s -> pget k (s_pool s) = Some p ->
  is_active (p_status p) = true ->
  unauth_apply s a k p (iget k a (s_infos s)) pos = Ok s' -> inv4 s'.
Proof.
  intros s a k p pos s' H2 Hi Hg Hact H. pose proof H2 as [H1 Ha Hp Hr Hn Hpar].
  set (i := iget k a (s_infos s)) in *.
  pose proof (info_bound s k a H1 Ha) as Hib. fold i in Hib. unfold all6 in Hib. pose proof B2.
  unfold unauth_apply in H.
  assert (Hst : p_status p = ConsensusStatus \/ p_status p = CandidateStatus).
  { unfold is_active in Hact. apply orb_true_iff in Hact. destruct Hact as [E|E]; apply N.eqb_eq in E; auto. }
  destruct (i_new i <? pos) eqn:Enew.
  - apply N.ltb_lt in Enew.
    destruct (p_status p =? ConsensusStatus) eqn:Est; mstep H; bnorm.
    + rewrite (w64_small (i_cons i + i_new i)), (w64_small (i_wcons i + pos)), (w64_small (i_wunf i + i_new i)) in H by lia.
      rewrite !wsub_exact in H by lia. inversion H; subst s'. inv4_start s.
      * now apply with_total_PR.
      * apply IR_iset_same; fold i; unfold cw, dw; cbn [i_cons i_cand i_wcons i_wcand]; lia.
      * eapply IRw_iset_cons; eauto.
    + assert (Ecand : p_status p = CandidateStatus) by (destruct Hst; congruence).
      rewrite (w64_small (i_cand i + i_new i)), (w64_small (i_wcand i + pos)), (w64_small (i_wunf i + i_new i)) in H by lia.
      rewrite !wsub_exact in H by lia. inversion H; subst s'. inv4_start s.
      * now apply with_total_PR.
      * apply IR_iset_same; fold i; unfold cw, dw; cbn [i_cons i_cand i_wcons i_wcand]; lia.
      * apply IRw_iset_same; reflexivity.
  - inversion H; subst s'. inv4_start s.
    + now apply with_total_PR.
    + apply IR_iset_same; reflexivity.
    + apply IRw_iset_same; reflexivity.
Qed.

Lemma unauth_item_inv4 : forall s a kp s', inv2 s -> inv4 s -> unauth_item s a kp = Ok s' -> inv4 s'.
Proof.
  intros s a [k pos0] s' H2 Hi H. unfold unauth_item in H. msteps H. bnorm.
  eapply unauth_apply_inv4; eauto.
Qed.

Lemma unauth_loop_inv4 : forall l s a s', inv2 s -> inv4 s -> unauth_loop s a l = Ok s' -> inv4 s'.
Proof.
  induction l as [|kp r IH]; cbn [unauth_loop]; intros s a s' H2 Hi H.
  - inversion H; subst; auto.
  - mstep H. eapply IH; [| |exact H].
    + eapply unauth_item_inv2; eauto.
    + eapply unauth_item_inv4; eauto.
Qed.

Lemma exec_unauthorize_inv4 : forall s sg a l wf s', inv2 s -> inv4 s -> exec_unauthorize s sg a l wf = Ok s' -> inv4 s'.
Proof. intros s sg a l wf s' H2 Hi H. unfold exec_unauthorize in H. msteps H. eapply unauth_loop_inv4; eauto. Qed.

(** reduceInitPos adds to the OWNER's Withdraw bucket; the owner's record is not counted *)
Lemma exec_reduceinit_inv4 : forall h s sg k a pos s', inv4 s -> exec_reduceinit h s sg k a pos = Ok s' -> inv4 s'.
Proof.
  intros h s sg k a pos s' Hi H. unfold exec_reduceinit in H. msteps H. bnorm. subst a. subst sg.
  match goal with H : pget k (s_pool s) = Some p |- _ => rename H into Hg end.
  inv4_start s.
  - now apply with_init_PR.
  - apply IR_iset_unsel. intros pp Hgp Hap. destruct (i4_P s Hi k pp Hgp Hap) as (pc & G1 & G2 & _).
    rewrite Hg in G1. inversion G1; subst. auto.
  - destruct (p_status p =? ConsensusStatus) eqn:E1.
    { apply N.eqb_eq in E1. eapply IRw_iset_cons; eauto. }
    destruct (p_status p =? CandidateStatus); [|destruct (p_status p =? RegisterCandidateStatus); [|discriminate]];
      match goal with H : Ok _ = Ok x |- _ => inversion H; subst x end; apply IRw_iset_same; reflexivity.
Qed.

Lemma exec_unregister_inv4 : forall s sg k a s', inv2 s -> inv4 s -> exec_unregister s sg k a = Ok s' -> inv4 s'.
Proof. intros s sg k a s' H2 Hi H. unfold exec_unregister in H. msteps H. bnorm. apply release_init_inv4; auto. Qed.

Lemma exec_reject_inv4 : forall s sg k s', inv2 s -> inv4 s -> exec_reject s sg k = Ok s' -> inv4 s'.
Proof. intros s sg k s' H2 Hi H. unfold exec_reject in H. msteps H. bnorm. apply release_init_inv4; auto. Qed.

Lemma exec_white_inv4 : forall s sg k s', inv4 s -> exec_white s sg k = Ok s' -> inv4 s'.
Proof. intros s sg k s' Hi H. unfold exec_white in H. msteps H. eapply inv4_frame; eauto. Qed.

Lemma exec_maxauth_inv4 : forall h s sg k a m s', inv4 s -> exec_maxauth h s sg k a m = Ok s' -> inv4 s'.
Proof. intros h s sg k a m s' Hi H. unfold exec_maxauth in H. msteps H. eapply inv4_frame; eauto. Qed.

Lemma exec_penalty_inv4 : forall s sg k a s', inv4 s -> exec_penalty s sg k a = Ok s' -> inv4 s'.
Proof. intros s sg k a s' Hi H. unfold exec_penalty in H. msteps H. eapply inv4_frame; eauto. Qed.
