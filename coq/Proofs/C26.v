(** Proofs/C26.v — assembling the C26 statements from MerkleSpec / MerkleVerify / MerkleTree, the
    reload lemmas, and the ties to the regenerated constants (Gen/MerkleConsts.v). *)
From Coq Require Import List Bool Arith NArith ZArith Lia.
Local Open Scope nat_scope.
Import ListNotations.
From Ont Require Import Lib.Bytes Lib.Sha256 Model.Merkle Proofs.MerkleSpec Proofs.MerkleVerify Proofs.MerkleTree.
From Ont Require Import Gen.MerkleConsts.

Ltac Zify.zify_post_hook ::= Z.to_euclidean_division_equations.

Lemma countBit_double x : countBit (2 * x) = countBit x.
Proof. destruct x; reflexivity. Qed.
Lemma countBit_double_succ x : countBit (1 + 2 * x) = S (countBit x).
Proof. destruct x; reflexivity. Qed.

Section C26.
  Variable T : Type.
  Variable teqb : T -> T -> bool.
  Variable hc : T -> T -> T.
  Variable hempty : T.
  Hypothesis teqb_spec : forall a b, teqb a b = true <-> a = b.

  Notation mth := (mth T hc hempty).
  Notation tree_of := (tree_of T hc).
  Notation collision := (collision T hc).

  (** bound under which no uint32 store position wraps: tree sizes below 2^31 *)
  Definition small (ls : list T) : Prop := (N.of_nat (length ls) < 2147483648)%N.

  Lemma small_two32 ls : small ls -> (N.of_nat (length ls) < two32N)%N.
  Proof. unfold small, two32N. lia. Qed.

  Lemma build_tree_of ls : small ls ->
    exists t, build T hc ls = Some t /\ tree_of t ls /\ ct_store T t <> None.
  Proof.
    intro Hs.
    destruct (append_all_inv T hc hempty ls (empty_tree_mem T) [] (empty_tree_inv T hc)) as (t & H1 & H2 & _).
    - cbn. apply small_two32 in Hs. lia.
    - exists t. split; [exact H1|]. split; [exact H2|].
      (* the store is never dropped by AppendHash *)
      clear H2. unfold build in H1.
      assert (G : forall ls t0 t1, ct_store T t0 <> None -> append_all T hc t0 ls = Some t1 -> ct_store T t1 <> None).
      { clear. induction ls as [|x ls IH]; intros t0 t1 H0 H; cbn in H.
        - inversion H; subst; exact H0.
        - unfold append_hash in H. destruct (append_loop T hc _ _ _ _) as [[[rh top] st]|]; [|discriminate].
          eapply IH; [|exact H]. cbn. destruct (ct_store T t0); [discriminate|congruence]. }
      eapply G; [|exact H1]. cbn. discriminate.
  Qed.

  Lemma tree_of_root t ls : tree_of t ls -> ct_root T hc hempty t = mth ls.
  Proof. intro H. rewrite (tree_inv_root T hc hempty t _ H), forest_of_leaves. reflexivity. Qed.

  Lemma tree_of_size t ls : tree_of t ls -> ct_size T t = N.of_nat (length ls).
  Proof. intros (_ & Hs & _). rewrite Hs. apply (forest_of_rval T hc hempty). Qed.

  (** ** incl_complete *)
  Theorem incl_complete d t ls m k : tree_of t ls -> ct_store T t <> None -> small ls ->
    m < k -> k <= length ls ->
    exists p, inclusion_proof T hc t (N.of_nat m) (N.of_nat k) = inr p /\
              p = rfc_path T hc hempty m (firstn k ls) /\
              verify_leaf_hash_inclusion T teqb hc (nth m ls d) (N.of_nat m) p (mth (firstn k ls)) (N.of_nat k) = VOk.
  Proof.
    intros Ht Hst Hs Hm Hk. eexists. split; [apply (inclusion_proof_rfc T hc hempty t ls m k); assumption|].
    split; [reflexivity|].
    assert (Hl : length (firstn k ls) = k) by (rewrite firstn_length; lia).
    pose proof (incl_complete_lists T teqb hc hempty teqb_spec d (firstn k ls) m ltac:(lia)) as H.
    rewrite Hl in H. rewrite <- H. f_equal.
    clear -Hm. revert m k Hm. induction ls as [|x ls IH]; intros m k Hm.
    - rewrite firstn_nil. destruct m; reflexivity.
    - destruct k; [lia|]. destruct m; [reflexivity|]. cbn. apply IH. lia.
  Qed.

  (** ** cons_complete *)
  Theorem cons_complete (d : T) t ls m k : tree_of t ls -> ct_store T t <> None -> small ls ->
    1 <= m -> m <= k -> k <= length ls ->
    exists p, consistency_proof T hc t (N.of_nat m) (N.of_nat k) = inr p /\
              p = rfc_proof T hc hempty m (firstn k ls) /\
              verify_consistency T teqb hc hempty (N.of_nat m) (N.of_nat k)
                (mth (firstn m ls)) (mth (firstn k ls)) p = VOk.
  Proof.
    intros Ht Hst Hs Hm1 Hmk Hk. eexists.
    split; [apply (consistency_proof_rfc T hc hempty t ls m k); assumption|].
    split; [reflexivity|].
    set (D := firstn k ls).
    assert (Hl : length D = k) by (subst D; rewrite firstn_length; lia).
    assert (Hfm : firstn m ls = firstn m D).
    { subst D. rewrite firstn_firstn. f_equal. lia. }
    rewrite Hfm.
    destruct (Nat.eq_dec m k) as [->|Hne].
    - (* equal sizes: empty proof, equal roots *)
      unfold rfc_proof. fold (sub T hc hempty k D true).
      replace (sub T hc hempty k D true) with (sub T hc hempty (length D) D true) by (rewrite Hl; reflexivity).
      rewrite sub_full.
      unfold verify_consistency.
      destruct (N.ltb_spec (N.of_nat k) (N.of_nat k)); [lia|]. rewrite N.eqb_refl.
      rewrite <- Hl, firstn_all.
      assert (teqb (mth D) (mth D) = true) as -> by (apply teqb_spec; reflexivity). reflexivity.
    - unfold rfc_proof. fold (sub T hc hempty m D true).
      rewrite (rfc_proof_bu T hc hempty d k D m true Hl Hm1 Hmk ltac:(left; lia)).
      rewrite <- Hl. apply (cons_complete_lists T teqb hc hempty teqb_spec d D m); lia.
  Qed.

  (** ** soundness against the tree's own root *)
  Theorem incl_sound d t ls leaf idx proof : tree_of t ls ->
    verify_leaf_hash_inclusion T teqb hc leaf idx proof (ct_root T hc hempty t) (ct_size T t) = VOk ->
    collision \/ leaf = nth (N.to_nat idx) ls d.
  Proof.
    intros Ht. rewrite (tree_of_root t ls Ht), (tree_of_size t ls Ht).
    apply (incl_sound_lists T teqb hc hempty teqb_spec).
  Qed.

  Theorem cons_sound t ls m old_root proof : tree_of t ls -> 0 < m -> m <= length ls ->
    verify_consistency T teqb hc hempty (N.of_nat m) (ct_size T t) old_root (ct_root T hc hempty t) proof = VOk ->
    collision \/ old_root = mth (firstn m ls).
  Proof.
    intros Ht Hm0 Hm. rewrite (tree_of_root t ls Ht), (tree_of_size t ls Ht).
    apply (cons_sound_lists T teqb hc hempty teqb_spec); assumption.
  Qed.

  Theorem incl_unique d t ls leaf idx proof : tree_of t ls ->
    verify_leaf_hash_inclusion T teqb hc leaf idx proof (ct_root T hc hempty t) (ct_size T t) = VOk ->
    collision \/ (leaf = nth (N.to_nat idx) ls d /\ proof = rfc_path T hc hempty (N.to_nat idx) ls).
  Proof.
    intros Ht. rewrite (tree_of_root t ls Ht), (tree_of_size t ls Ht).
    apply (incl_unique_lists T teqb hc hempty teqb_spec).
  Qed.

  (** HashFullTreeWithLeafHash computes the RFC tree hash *)
  Lemma hash_full_root : forall f D, fst (hash_full_f T hc hempty f D) = mth_f T hc hempty f D.
  Proof.
    induction f as [|f IH]; intro D; destruct D as [|x [|y r]]; try reflexivity.
    cbn [hash_full_f mth_f].
    set (k := split (length (x :: y :: r))).
    pose proof (IH (firstn k (x :: y :: r))) as H1. pose proof (IH (skipn k (x :: y :: r))) as H2.
    destruct (hash_full_f T hc hempty f (firstn k (x :: y :: r))) as [lr lh].
    destruct (hash_full_f T hc hempty f (skipn k (x :: y :: r))) as [rr rh].
    cbn [fst] in *. subst. reflexivity.
  Qed.
  Theorem hash_full_tree_mth D : hash_full_tree T hc hempty D = mth D.
  Proof. apply hash_full_root. Qed.

  (** ** store layout *)
  Lemma countBit_forest : forall f (R : forest T) j, rwf T j R -> N.size_nat (rval T j R) = f ->
    countBit (rval T j R) = length R.
  Proof.
    induction f as [|f IH]; intros R j HR Hf.
    - apply size_nat_0 in Hf. rewrite Hf. apply (rval_zero T hc hempty) in Hf. subst R. reflexivity.
    - pose proof (size_nat_S _ _ Hf) as [Hnz Hf'].
      destruct R as [|[h t] R]; [cbn in Hnz; congruence|].
      destruct HR as (Hh & Hp & HR).
      destruct (Nat.eq_dec h j) as [->|Hne].
      + cbn [rval] in *. rewrite Nat.sub_diag in *. change (2 ^ N.of_nat 0)%N with 1%N in *.
        rewrite (rval_shift T hc hempty R j HR) in *.
        rewrite Ndiv2_double_succ in Hf'. rewrite countBit_double_succ.
        cbn [length]. f_equal. apply (IH R (S j)); assumption.
      + assert (Hr : rwf T (S j) ((h, t) :: R)) by (simpl; repeat split; auto; lia).
        rewrite (rval_shift T hc hempty _ j Hr) in *.
        rewrite Ndiv2_double in Hf'. rewrite countBit_double.
        apply (IH _ (S j)); assumption.
  Qed.

  Lemma stored_num_forest (R : forest T) : rwf T 0 R -> (rval T 0 R < 2147483648)%N ->
    get_stored_hash_num (rval T 0 R) = N.of_nat (length (mpost T hc R)).
  Proof.
    intros HR Hb. unfold get_stored_hash_num.
    rewrite (get_sub_tree_size_forest T hc hempty R HR Hb).
    pose proof (rwf_rev T hc hempty R 0 (S (hmax T R)) HR (hmax_ge T hc hempty R)) as HF.
    rewrite mpost_rev, <- (sumN_post T hc hempty _ _ HF).
    generalize (map (szN T) (rev R)). intro l.
    assert (G : forall l a, fold_left N.add l a = (a + sumN l)%N).
    { clear. induction l as [|x l IH]; intro a; cbn; [lia|]. rewrite IH. fold (sumN l). lia. }
    rewrite G. lia.
  Qed.

  (** what the appends have written: the post-order of the perfect subtrees, and nothing else is
      ever read by the proof generators (their theorems above only use [tree_of]) *)
  Theorem store_layout t ls : tree_of t ls -> small ls ->
    length (ct_hashes T t) = countBit (ct_size T t) /\
    match ct_store T t with
    | None => True
    | Some s => N.of_nat (hs_cur T s) = get_stored_hash_num (ct_size T t) /\
                firstn (hs_cur T s) (hs_data T s) = fpost T hc (fview T ls)
    end.
  Proof.
    intros (HR & Hs & Hh & Hst) Hsm. split.
    - rewrite Hh, Hs, rev_length. unfold rroots. rewrite map_length. symmetry.
      apply (countBit_forest _ _ 0 HR eq_refl).
    - destruct (ct_store T t) as [s|]; [|exact I]. destruct Hst as [Hc Hf]. split.
      + rewrite Hs, stored_num_forest; [rewrite Hc; reflexivity | exact HR |].
        rewrite (forest_of_rval T hc hempty). exact Hsm.
      + rewrite Hf. reflexivity.
  Qed.

  (** ** reload: NewFileHashStore(file, size) + NewTree(size, hashes, store) *)
  Theorem reload t ls data : tree_of t ls -> small ls ->
    match ct_store T t with
    | None => True
    | Some s => firstn (hs_cur T s) data = firstn (hs_cur T s) (hs_data T s) /\ hs_cur T s <= length data
    end ->
    exists st' t',
      (ct_store T t <> None -> hs_file_open T data (ct_size T t) = Some st') /\
      new_tree T (ct_size T t) (ct_hashes T t)
               (match ct_store T t with None => None | Some _ => Some st' end) = Some t' /\
      tree_of t' ls /\ ct_root T hc hempty t' = ct_root T hc hempty t.
  Proof.
    intros Ht Hsm Hdata.
    destruct (store_layout t ls Ht Hsm) as [Hcb Hlay].
    pose proof Ht as (HR & Hs & Hh & Hst).
    destruct (ct_store T t) as [s|] eqn:Es.
    - destruct Hlay as [Hnum Hpost]. destruct Hdata as [Hd1 Hd2]. destruct Hst as [Hc Hf].
      exists (mk_hstore T data (hs_cur T s)).
      exists (mk_ctree T (ct_size T t) (ct_hashes T t) (Some (mk_hstore T data (hs_cur T s)))).
      split; [|split; [|split]].
      + intros _. unfold hs_file_open. rewrite <- Hnum, Nat2N.id.
        destruct (Nat.ltb_spec (length data) (hs_cur T s)); [lia|reflexivity].
      + unfold new_tree. rewrite Hcb, Nat.eqb_refl. reflexivity.
      + unfold MerkleTree.tree_of, tree_inv. cbn [ct_size ct_hashes ct_store store_inv hs_cur hs_data].
        repeat split; auto. rewrite Hd1. exact Hf.
      + reflexivity.
    - exists (hs_mem_new T). exists (mk_ctree T (ct_size T t) (ct_hashes T t) None).
      split; [congruence|]. split; [|split].
      + unfold new_tree. rewrite Hcb, Nat.eqb_refl. reflexivity.
      + unfold MerkleTree.tree_of, tree_inv. cbn [ct_size ct_hashes ct_store store_inv]. auto.
      + reflexivity.
  Qed.

  (** a reloaded tree continues exactly like the original: appending more leaves gives the tree of
      the longer list (hence the same roots and proofs, by the theorems above) *)
  Theorem continue_after t ls more : tree_of t ls -> small (ls ++ more) ->
    exists t', append_all T hc t more = Some t' /\ tree_of t' (ls ++ more).
  Proof.
    intros Ht Hsm. pose proof Ht as (HR & _).
    destruct (append_all_inv T hc hempty more t _ Ht) as (t' & Ha & Hinv & _).
    - rewrite (forest_of_rval T hc hempty). unfold small in Hsm. rewrite app_length in Hsm. unfold two32N. lia.
    - exists t'. split; [exact Ha|]. unfold MerkleTree.tree_of, forest_of. rewrite forest_from_app. exact Hinv.
  Qed.
End C26.

(** * The SHA-256 instance and the regenerated constants *)

(** hasher: prefixes and the empty hash are what the source has now.  Every conjunct is a closed
    computation, so a changed source makes this fail at once (no conversion on open SHA-256 terms). *)
Lemma hasher_consts :
  gen_leaf_prefix = 0%N /\ gen_node_prefix = 1%N /\ gen_uint256_size = 32 /\
  sha_hash_empty = gen_hash_empty /\
  sha_hash_children sha_zero sha_zero = gen_hash_children_zero /\
  sha_hash_leaf [97; 98; 99]%N = gen_hash_leaf_abc.
Proof.
  split; [vm_compute; reflexivity|].
  split; [vm_compute; reflexivity|].
  split; [vm_compute; reflexivity|].
  split; [vm_compute; reflexivity|].
  split; [vm_compute; reflexivity|].
  vm_compute; reflexivity.
Qed.

Lemma hasher_tied :
  (forall d, sha_hash_leaf d = sha256 (gen_leaf_prefix :: d)) /\
  (forall l r, sha_hash_children l r = sha256 (gen_node_prefix :: l ++ r)) /\
  sha_hash_empty = gen_hash_empty /\
  sha_hash_children sha_zero sha_zero = gen_hash_children_zero /\
  sha_hash_leaf [97; 98; 99]%N = gen_hash_leaf_abc /\
  gen_leaf_prefix <> gen_node_prefix /\ gen_uint256_size = 32.
Proof.
  destruct hasher_consts as (E1 & E2 & E3 & E4 & E5 & E6).
  rewrite E1, E2.
  split; [intro d; unfold sha_hash_leaf; exact eq_refl|].
  split; [intros l r; unfold sha_hash_children; exact eq_refl|].
  repeat split; try assumption. discriminate.
Qed.

(** store positions: the model's getSubTreePos / getStoredHashNum equal the code's, for every
    tree size in the regenerated table *)
Definition layout_table_ok : bool :=
  forallb (fun n => list_eqb N.eqb (get_sub_tree_pos (N.of_nat n)) (nth n gen_sub_tree_pos [])
                    && N.eqb (get_stored_hash_num (N.of_nat n)) (nth n gen_stored_hash_num 0%N))
          (seq 0 (S gen_table_n)).

Lemma layout_table : layout_table_ok = true.
Proof. vm_compute. reflexivity. Qed.

Lemma layout_table_forall n : n <= gen_table_n ->
  get_sub_tree_pos (N.of_nat n) = nth n gen_sub_tree_pos [] /\
  get_stored_hash_num (N.of_nat n) = nth n gen_stored_hash_num 0%N.
Proof.
  intro H. pose proof layout_table as E. unfold layout_table_ok in E.
  rewrite forallb_forall in E. specialize (E n).
  assert (Hin : In n (seq 0 (S gen_table_n))) by (apply in_seq; lia).
  apply E in Hin. apply andb_prop in Hin. destruct Hin as [H1 H2].
  split.
  - apply (list_eqb_spec N.eqb); [intros; apply N.eqb_eq|exact H1].
  - apply N.eqb_eq. exact H2.
Qed.

(** a collision of hash_children on 32-byte operands is a SHA-256 collision *)
Lemma sha_children_collision :
  collision bytes sha_hash_children ->
  (exists a b c e : bytes, (a <> c \/ b <> e) /\ sha_hash_children a b = sha_hash_children c e /\
     ~ (length a = length c)) \/
  exists x y : bytes, x <> y /\ sha256 x = sha256 y.
Proof.
  intros (a & b & c & e & Hne & Heq).
  destruct (Nat.eq_dec (length a) (length c)) as [Hl|Hl].
  - right. exists (1%N :: a ++ b), (1%N :: c ++ e). split; [|exact Heq].
    intro E. inversion E as [E'].
    apply app_inj_tail_length in E' || idtac.
    assert (a = c /\ b = e).
    { clear - E' Hl. revert c Hl E'. induction a as [|x a IH]; intros c Hl E'; destruct c as [|y c]; simpl in *; try discriminate.
      - auto.
      - inversion E'. subst. destruct (IH c) as [-> ->]; auto. }
    tauto.
  - left. exists a, b, c, e. auto.
Qed.
