(** C01 — lemmas about the building blocks of Model/Recovery.v: finite maps with batch commit,
    tree-size arithmetic of the compact merkle tree, AppendHash, the hash file. *)
From Coq Require Import List Bool Arith NArith ZArith Lia ZifyN ZifyNat ZifyBool.
Import ListNotations.
From Ont Require Import Lib.Bytes Model.RecoverTypes Gen.Recover Model.Recovery.
Local Open Scope N_scope.

(** * Finite maps *)
Section KVLemmas.
  Context {K V : Type}.
  Variable keqb : K -> K -> bool.
  Hypothesis keqb_spec : forall a b, keqb a b = true <-> a = b.

  Lemma keqb_refl k : keqb k k = true.
  Proof. apply keqb_spec; reflexivity. Qed.

  Lemma keqb_neq a b : a <> b -> keqb a b = false.
  Proof. intro H; destruct (keqb a b) eqn:E; [apply keqb_spec in E; contradiction|reflexivity]. Qed.

  Lemma kv_get_put_same (s : kv K V) k v : kv_get keqb (kv_put keqb s k v) k = Some v.
  Proof.
    induction s as [|[k' v'] r IH]; simpl.
    - rewrite keqb_refl; reflexivity.
    - destruct (keqb k k') eqn:E; simpl.
      + rewrite keqb_refl; reflexivity.
      + rewrite E; exact IH.
  Qed.

  Lemma kv_get_put_other (s : kv K V) k v k2 : k2 <> k -> kv_get keqb (kv_put keqb s k v) k2 = kv_get keqb s k2.
  Proof.
    intro Hne. induction s as [|[k' v'] r IH]; simpl.
    - rewrite (keqb_neq _ _ Hne); reflexivity.
    - destruct (keqb k k') eqn:E; simpl.
      + apply keqb_spec in E; subst k'. rewrite (keqb_neq _ _ Hne); reflexivity.
      + rewrite IH; reflexivity.
  Qed.

  Lemma kv_get_del_same (s : kv K V) k : kv_get keqb (kv_del keqb s k) k = None.
  Proof.
    induction s as [|[k' v'] r IH]; simpl; [reflexivity|].
    destruct (keqb k k') eqn:E; simpl; [exact IH|rewrite E; exact IH].
  Qed.

  Lemma kv_get_del_other (s : kv K V) k k2 : k2 <> k -> kv_get keqb (kv_del keqb s k) k2 = kv_get keqb s k2.
  Proof.
    intro Hne. induction s as [|[k' v'] r IH]; simpl; [reflexivity|].
    destruct (keqb k k') eqn:E; simpl.
    - apply keqb_spec in E; subst k'. rewrite (keqb_neq _ _ Hne); exact IH.
    - rewrite IH; reflexivity.
  Qed.

  Definition op_key (o : kvop K V) : K := match o with Put k _ => k | Del k => k end.
  Definition op_val (o : kvop K V) : option V := match o with Put _ v => Some v | Del _ => None end.

  (** The last operation of a batch on a key. *)
  Fixpoint ops_find (ops : list (kvop K V)) (k : K) : option (option V) :=
    match ops with
    | [] => None
    | o :: r => match ops_find r k with
                | Some x => Some x
                | None => if keqb k (op_key o) then Some (op_val o) else None
                end
    end.

  Lemma kv_get_apply (s : kv K V) o k :
    kv_get keqb (kv_apply keqb s o) k = if keqb k (op_key o) then op_val o else kv_get keqb s k.
  Proof.
    destruct o as [k' v|k']; simpl; destruct (keqb k k') eqn:E.
    - apply keqb_spec in E; subst; apply kv_get_put_same.
    - apply kv_get_put_other. intro; subst; rewrite keqb_refl in E; discriminate.
    - apply keqb_spec in E; subst; apply kv_get_del_same.
    - apply kv_get_del_other. intro; subst; rewrite keqb_refl in E; discriminate.
  Qed.

  Lemma kv_get_commit ops : forall (s : kv K V) k,
    kv_get keqb (kv_commit keqb s ops) k = match ops_find ops k with Some x => x | None => kv_get keqb s k end.
  Proof.
    induction ops as [|o r IH]; intros s k; [reflexivity|].
    unfold kv_commit in *; cbn [fold_left ops_find]. rewrite IH.
    destruct (ops_find r k); [reflexivity|]. rewrite kv_get_apply.
    destruct (keqb k (op_key o)); reflexivity.
  Qed.

  Lemma ops_find_app a b k :
    ops_find (a ++ b) k = match ops_find b k with Some x => Some x | None => ops_find a k end.
  Proof.
    induction a as [|o r IH]; simpl.
    - destruct (ops_find b k); reflexivity.
    - rewrite IH. destruct (ops_find b k); reflexivity.
  Qed.

  Lemma ops_find_none ops k : (forall o, In o ops -> op_key o <> k) -> ops_find ops k = None.
  Proof.
    induction ops as [|o r IH]; intro H; [reflexivity|]. simpl.
    rewrite IH by (intros o' Ho'; apply H; right; exact Ho').
    rewrite keqb_neq; [reflexivity|]. intro E; apply (H o); [left; reflexivity|symmetry; exact E].
  Qed.

  (** Committing the same batch twice is, as a map, committing it once. *)
  Lemma kv_commit_twice_get (s : kv K V) ops k :
    kv_get keqb (kv_commit keqb (kv_commit keqb s ops) ops) k = kv_get keqb (kv_commit keqb s ops) k.
  Proof. rewrite !kv_get_commit. destruct (ops_find ops k); reflexivity. Qed.
End KVLemmas.

Lemma bkey_eqb_spec a b : bkey_eqb a b = true <-> a = b.
Proof.
  destruct a, b; simpl; split; intro H; try reflexivity; try discriminate.
  - apply N.eqb_eq in H; subst; reflexivity.
  - inversion H; apply N.eqb_refl.
  - apply bytes_eqb_eq in H; subst; reflexivity.
  - inversion H; apply bytes_eqb_eq; reflexivity.
Qed.

Lemma ekey_eqb_spec a b : ekey_eqb a b = true <-> a = b.
Proof.
  destruct a, b; simpl; split; intro H; try reflexivity; try discriminate.
  - apply N.eqb_eq in H; subst; reflexivity.
  - inversion H; apply N.eqb_refl.
  - apply bytes_eqb_eq in H; subst; reflexivity.
  - inversion H; apply bytes_eqb_eq; reflexivity.
Qed.

Lemma skey_eqb_spec a b : skey_eqb a b = true <-> a = b.
Proof.
  destruct a, b; simpl; split; intro H; try reflexivity; try discriminate.
  - apply N.eqb_eq in H; subst; reflexivity.
  - inversion H; apply N.eqb_refl.
  - apply N.eqb_eq in H; subst; reflexivity.
  - inversion H; apply N.eqb_refl.
  - apply bytes_eqb_eq in H; subst; reflexivity.
  - inversion H; apply bytes_eqb_eq; reflexivity.
Qed.

Lemma list_bytes_eqb_eq a b : list_eqb bytes_eqb a b = true <-> a = b.
Proof. apply list_eqb_spec; intros; apply bytes_eqb_eq. Qed.

(** * Tree-size arithmetic *)
Lemma shn_pos_succ p : forall id, 1 <= id ->
  shn_pos (Pos.succ p) id = shn_pos p id + id - 1 + N.of_nat (tones_pos p).
Proof.
  induction p as [q IH|q IH|]; intros id Hid; cbn [Pos.succ shn_pos tones_pos].
  - rewrite IH by lia. lia.
  - lia.
  - lia.
Qed.

(** getStoredHashNum(n+1) = getStoredHashNum(n) + what AppendHash stores at size n. *)
Lemma stored_hash_num_succ n :
  stored_hash_num (n + 1) = stored_hash_num n + 1 + N.of_nat (trailing_ones n).
Proof.
  destruct n as [|p]; [reflexivity|].
  replace (N.pos p + 1) with (N.pos (Pos.succ p)) by lia.
  cbn [stored_hash_num trailing_ones]. rewrite shn_pos_succ by lia. lia.
Qed.

Lemma pop_pos_succ p : (pop_pos (Pos.succ p) + tones_pos p = S (pop_pos p))%nat.
Proof. induction p as [q IH|q IH|]; cbn [Pos.succ pop_pos tones_pos]; lia. Qed.

Lemma count_bit_succ n : (count_bit (n + 1) + trailing_ones n = S (count_bit n))%nat.
Proof.
  destruct n as [|p]; [reflexivity|].
  replace (N.pos p + 1) with (N.pos (Pos.succ p)) by lia.
  cbn [count_bit trailing_ones]. apply pop_pos_succ.
Qed.

Lemma tones_le_pop p : (tones_pos p <= pop_pos p)%nat.
Proof. induction p; cbn [pop_pos tones_pos]; lia. Qed.

Lemma trailing_ones_le_count n : (trailing_ones n <= count_bit n)%nat.
Proof. destruct n; [apply Nat.le_refl|apply tones_le_pop]. Qed.

Lemma u32_small x : x < 4294967296 -> u32 x = x.
Proof. intro H; unfold u32; apply N.mod_small; exact H. Qed.

(** * AppendHash *)
Definition len32 (h : hash) : Prop := length h = N.to_nat hash_size.

Section Tree.
  Variable hc : hash -> hash -> hash.
  Hypothesis hc_len : forall a b, len32 (hc a b).

  Lemma append_pos_spec p : forall rhs leaf stored,
    (tones_pos p <= length rhs)%nat ->
    exists r l' st',
      append_pos hc p rhs leaf stored = Some (r, l', st') /\
      length r = (length rhs - tones_pos p)%nat /\
      length st' = (length stored + tones_pos p)%nat /\
      (Forall len32 stored -> len32 leaf -> Forall len32 st').
  Proof.
    induction p as [q IH|q IH|]; intros rhs leaf stored Hlen; cbn [append_pos tones_pos] in *.
    - destruct rhs as [|h r]; [simpl in Hlen; lia|]. simpl in Hlen.
      destruct (IH r (hc h leaf) (stored ++ [hc h leaf]) ltac:(lia)) as (r' & l' & st' & E & L1 & L2 & L3).
      exists r', l', st'. split; [exact E|]. split; [simpl; lia|]. split.
      + rewrite L2, app_length; simpl; lia.
      + intros Hs Hl. apply L3; [|apply hc_len]. apply Forall_app; split; [exact Hs|].
        constructor; [apply hc_len|constructor].
    - exists rhs, leaf, stored. repeat split; try lia. intros; assumption.
    - destruct rhs as [|h r]; [simpl in Hlen; lia|].
      exists r, (hc h leaf), (stored ++ [hc h leaf]). split; [reflexivity|]. split; [simpl; lia|]. split.
      + rewrite app_length; simpl; lia.
      + intros Hs Hl. apply Forall_app; split; [exact Hs|]. constructor; [apply hc_len|constructor].
  Qed.

  Lemma tree_append_spec t leaf :
    length (t_hashes t) = count_bit (t_size t) -> t_size t + 1 < 4294967296 ->
    exists t' stored,
      tree_append hc t leaf = Some (t', stored) /\
      t_size t' = t_size t + 1 /\
      length (t_hashes t') = count_bit (t_size t + 1) /\
      length stored = S (trailing_ones (t_size t)) /\
      (len32 leaf -> Forall len32 stored).
  Proof.
    intros Hlen Hb. unfold tree_append.
    destruct (t_size t) as [|p] eqn:Es.
    - eexists _, _. split; [reflexivity|]. cbn [t_size t_hashes]. split; [apply u32_small; lia|].
      split.
      + rewrite app_length, rev_length, rev_length, Hlen; reflexivity.
      + split; [reflexivity|]. intro Hl; constructor; [exact Hl|constructor].
    - destruct (append_pos_spec p (rev (t_hashes t)) leaf [leaf]) as (r & l' & st' & E & L1 & L2 & L3).
      { rewrite rev_length, Hlen. cbn [count_bit]. apply tones_le_pop. }
      rewrite E. eexists _, _. split; [reflexivity|]. cbn [t_size t_hashes].
      split; [apply u32_small; lia|]. split.
      + rewrite app_length, rev_length, L1, rev_length, Hlen. cbn [length].
        pose proof (count_bit_succ (N.pos p)) as Hc. pose proof (tones_le_pop p) as Ht.
        cbn [count_bit trailing_ones] in *. lia.
      + split; [rewrite L2; reflexivity|].
        intro Hl. apply L3; [constructor; [exact Hl|constructor]|exact Hl].
  Qed.
End Tree.

Lemma concat_len32 (l : list hash) :
  Forall len32 l -> length (concat l) = (length l * N.to_nat hash_size)%nat.
Proof.
  induction 1 as [|h r Hh Hr IH]; [reflexivity|].
  cbn [concat length]. rewrite app_length, IH, Hh. lia.
Qed.

(** * The hash file *)
Lemma file_write_in_range f pos data : (N.to_nat pos <= length f)%nat ->
  file_write f pos data = firstn (N.to_nat pos) f ++ data ++ skipn (N.to_nat pos + length data) f.
Proof.
  intro H. unfold file_write. replace (N.to_nat pos - length f)%nat with O by lia. reflexivity.
Qed.

Lemma file_write_length f pos data : (N.to_nat pos <= length f)%nat ->
  (N.to_nat pos + length data <= length (file_write f pos data))%nat.
Proof.
  intro H. rewrite file_write_in_range by exact H.
  rewrite !app_length, firstn_length. lia.
Qed.

Lemma file_write_length_ge f pos data : (N.to_nat pos <= length f)%nat ->
  (N.to_nat pos <= length (file_write f pos data))%nat.
Proof. intro H; pose proof (file_write_length f pos data H); lia. Qed.

Lemma file_write_prefix f pos data : (N.to_nat pos <= length f)%nat ->
  firstn (N.to_nat pos) (file_write f pos data) = firstn (N.to_nat pos) f.
Proof.
  intro H. rewrite file_write_in_range by exact H.
  rewrite firstn_app, firstn_firstn, Nat.min_id, firstn_length.
  replace (N.to_nat pos - Nat.min (N.to_nat pos) (length f))%nat with O by lia.
  simpl. apply app_nil_r.
Qed.

(** The bytes up to the end of the written range are the old prefix followed by the data. *)
Lemma file_write_upto f pos data : (N.to_nat pos <= length f)%nat ->
  firstn (N.to_nat pos + length data) (file_write f pos data) = firstn (N.to_nat pos) f ++ data.
Proof.
  intro H. rewrite file_write_in_range by exact H.
  rewrite app_assoc, firstn_app.
  rewrite app_length, firstn_length.
  replace (Nat.min (N.to_nat pos) (length f)) with (N.to_nat pos) by lia.
  rewrite Nat.sub_diag. simpl. rewrite app_nil_r.
  apply firstn_all2. rewrite app_length, firstn_length. lia.
Qed.

(** Writing the same bytes again at the same offset (the replay of recoverStore) changes nothing. *)
Lemma file_write_idem f pos data : (N.to_nat pos <= length f)%nat ->
  file_write (file_write f pos data) pos data = file_write f pos data.
Proof.
  intro H.
  rewrite (file_write_in_range (file_write f pos data)) by (apply file_write_length_ge; exact H).
  rewrite file_write_prefix by exact H.
  rewrite (file_write_in_range f) by exact H.
  f_equal. f_equal.
  rewrite app_assoc. rewrite skipn_app.
  rewrite app_length, firstn_length.
  replace (Nat.min (N.to_nat pos) (length f)) with (N.to_nat pos) by lia.
  rewrite Nat.sub_diag. simpl.
  rewrite skipn_all2 by (rewrite app_length, firstn_length; lia).
  reflexivity.
Qed.
