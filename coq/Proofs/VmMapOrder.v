(** Proofs for Model/VmMapOrder.v (property C15), part 1: iteration orders, the sorted-key sites. *)
From Coq Require Import List Bool Arith NArith ZArith Lia Permutation Sorted.
Import ListNotations.
From Ont Require Import Lib.Bytes Model.NeoInt Gen.VmValueConsts Model.VmValue Model.VmMapOrder.
From Ont Require Import Proofs.VmValueLib.
Local Open Scope N_scope.

(** * [reorder]: every code gives a permutation, every permutation has a code *)
Lemma remove_nth_perm {A} (d : A) : forall l i, (i < length l)%nat -> Permutation l (nth i l d :: remove_nth i l).
Proof.
  induction l as [|x r IH]; intros i Hi; cbn in Hi; [lia|].
  destruct i as [|i]; cbn; [reflexivity|].
  rewrite perm_swap. apply perm_skip. apply IH. lia.
Qed.

Lemma remove_nth_length {A} : forall (l : list A) i, (i < length l)%nat -> length (remove_nth i l) = pred (length l).
Proof.
  induction l as [|x r IH]; intros i Hi; cbn in Hi; [lia|].
  destruct i as [|i]; cbn; [reflexivity|]. rewrite IH by lia. destruct r; cbn in *; lia.
Qed.

Theorem reorder_perm {A} : forall (p : perm_code) (l : list A), Permutation (reorder p l) l.
Proof.
  induction p as [|c p IH]; intro l; [reflexivity|].
  destruct l as [|d r]; [reflexivity|]. cbn [reorder].
  remember (d :: r) as l eqn:El.
  assert (Hi : (c mod length l < length l)%nat) by (apply Nat.mod_upper_bound; subst l; cbn; lia).
  eapply Permutation_trans; [apply perm_skip; apply IH|].
  apply Permutation_sym. apply remove_nth_perm. exact Hi.
Qed.

Lemma in_nth_lt {A} (d : A) : forall l x, In x l -> exists i, (i < length l)%nat /\ nth i l d = x.
Proof.
  induction l as [|y r IH]; intros x Hx; [destruct Hx|].
  destruct Hx as [->|Hx]; [exists O; cbn; split; [lia|reflexivity]|].
  destruct (IH x Hx) as [i [Hi E]]. exists (S i). cbn. split; [lia|exact E].
Qed.

Theorem reorder_complete {A} : forall (l' l : list A), Permutation l l' -> exists p, reorder p l = l'.
Proof.
  induction l' as [|x r IH]; intros l Hp.
  - apply Permutation_sym, Permutation_nil in Hp. subst. exists []. reflexivity.
  - destruct l as [|d t]; [apply Permutation_nil in Hp; discriminate|].
    assert (Hin : In x (d :: t)) by (eapply Permutation_in; [apply Permutation_sym; exact Hp|left; reflexivity]).
    destruct (in_nth_lt d (d :: t) x Hin) as [i [Hi E]].
    assert (Hr : Permutation (remove_nth i (d :: t)) r).
    { apply (Permutation_cons_inv (a := x)). eapply Permutation_trans; [|exact Hp]. rewrite <- E.
      apply Permutation_sym. apply remove_nth_perm. exact Hi. }
    destruct (IH _ Hr) as [p Ep].
    exists (i :: p). cbn [reorder]. rewrite (Nat.mod_small i (length (d :: t)) Hi). rewrite E, Ep. reflexivity.
Qed.

Lemma reorder_nil {A} (p : perm_code) : reorder p (@nil A) = [].
Proof. destruct p; reflexivity. Qed.

Lemma reorder_head_in {A} (p : perm_code) (l : list A) e r : reorder p l = e :: r -> In e l.
Proof. intro E. apply (Permutation_in e (reorder_perm p l)). rewrite E. left. reflexivity. Qed.

Lemma reorder_is_nil {A} (p : perm_code) (l : list A) : reorder p l = [] -> l = [].
Proof. intro E. pose proof (reorder_perm p l) as H. rewrite E in H. apply Permutation_nil in H. exact H. Qed.

(** * sort.Strings: the sorted list of a multiset of strings is unique *)
Definition ble (a b : bytes) : Prop := bytes_ltb b a = false.

Lemma ble_trans a b c : ble a b -> ble b c -> ble a c.
Proof.
  unfold ble. intros Hab Hbc.
  destruct (bytes_ltb c a) eqn:Hca; [|reflexivity]. exfalso.
  destruct (bytes_ltb a b) eqn:Hlt.
  - rewrite (bytes_ltb_trans _ _ _ Hca Hlt) in Hbc. discriminate.
  - assert (a = b) by (apply bytes_ltb_total; assumption). subst. congruence.
Qed.

Lemma ble_antisym a b : ble a b -> ble b a -> a = b.
Proof. unfold ble. intros H1 H2. apply bytes_ltb_total; assumption. Qed.

Lemma str_insert_perm k l : Permutation (k :: l) (str_insert k l).
Proof.
  induction l as [|x r IH]; cbn; [reflexivity|].
  destruct (bytes_ltb x k); [|reflexivity].
  rewrite perm_swap. apply perm_skip. exact IH.
Qed.

Lemma str_sort_perm l : Permutation l (str_sort l).
Proof.
  induction l as [|x r IH]; [reflexivity|]. cbn. rewrite <- str_insert_perm. apply perm_skip. exact IH.
Qed.

Lemma str_insert_sorted k l : StronglySorted ble l -> StronglySorted ble (str_insert k l).
Proof.
  induction l as [|x r IH]; intro Hs; cbn.
  - constructor; constructor.
  - inversion Hs as [|? ? Hr Hall]; subst.
    destruct (bytes_ltb x k) eqn:E.
    + constructor; [apply IH; exact Hr|].
      apply Forall_forall. intros y Hy.
      apply (Permutation_in y (Permutation_sym (str_insert_perm k r))) in Hy.
      destruct Hy as [<-|Hy]; [unfold ble; apply bytes_ltb_asym; exact E|].
      rewrite Forall_forall in Hall. apply Hall. exact Hy.
    + constructor; [exact Hs|]. constructor; [exact E|].
      rewrite Forall_forall in Hall |- *. intros y Hy. eapply ble_trans; [exact E|apply Hall; exact Hy].
Qed.

Lemma str_sort_sorted l : StronglySorted ble (str_sort l).
Proof. induction l as [|x r IH]; cbn; [constructor|apply str_insert_sorted; exact IH]. Qed.

Lemma sorted_perm_unique : forall l1 l2, StronglySorted ble l1 -> StronglySorted ble l2 -> Permutation l1 l2 -> l1 = l2.
Proof.
  induction l1 as [|a r1 IH]; intros l2 H1 H2 Hp.
  - apply Permutation_nil in Hp. subst. reflexivity.
  - destruct l2 as [|b r2]; [apply Permutation_sym, Permutation_nil in Hp; discriminate|].
    inversion H1 as [|? ? Hs1 Ha]; subst. inversion H2 as [|? ? Hs2 Hb]; subst.
    rewrite Forall_forall in Ha, Hb.
    assert (Eab : a = b).
    { assert (Hia : In a (b :: r2)) by (apply (Permutation_in a Hp); left; reflexivity).
      assert (Hib : In b (a :: r1)) by (apply (Permutation_in b (Permutation_sym Hp)); left; reflexivity).
      destruct Hia as [->|Hia]; [reflexivity|]. destruct Hib as [->|Hib]; [reflexivity|].
      apply ble_antisym; [apply Ha; exact Hib|apply Hb; exact Hia]. }
    subst b. f_equal. apply IH; [exact Hs1|exact Hs2|]. apply (Permutation_cons_inv Hp).
Qed.

(** the result of sort.Strings does not depend on the order the strings were collected in *)
Theorem str_sort_perm_irrelevant l l' : Permutation l l' -> str_sort l = str_sort l'.
Proof.
  intro Hp. apply sorted_perm_unique; [apply str_sort_sorted|apply str_sort_sorted|].
  rewrite <- (str_sort_perm l), <- (str_sort_perm l'). exact Hp.
Qed.

(** SITE LEMMA (shape collect-keys-sort: getMapSortedKey, the key loop of dump): whatever order the
    range statement produced the entries in, the sorted key slice is the same. *)
Theorem sorted_key_perm {V} (ord ord' : list (prim * V)) :
  Permutation ord ord' -> get_map_sorted_key ord = get_map_sorted_key ord'.
Proof. intro Hp. apply str_sort_perm_irrelevant. apply Permutation_map. exact Hp. Qed.

(** hence GetMapSortedKey / GetValues / the loops of Serialize and stringify: same entries, same
    order, for all iteration orders *)
Theorem map_sorted_entries_perm_irrelevant {V} (p p' : perm_code) (m : list (prim * V)) :
  map_sorted_entries p m = map_sorted_entries p' m.
Proof.
  unfold map_sorted_entries. f_equal. apply sorted_key_perm.
  rewrite (reorder_perm p m), (reorder_perm p' m). reflexivity.
Qed.

Corollary map_keys_perm_irrelevant p p' m : map_keys p m = map_keys p' m.
Proof. unfold map_keys. rewrite (map_sorted_entries_perm_irrelevant p p'). reflexivity. Qed.
Corollary map_values_perm_irrelevant p p' m : map_values p m = map_values p' m.
Proof. unfold map_values. rewrite (map_sorted_entries_perm_irrelevant p p'). reflexivity. Qed.

(** * Link with C14's [sort_entries] (which merges sorting and the lookups) *)
Lemma ins_entry_images {V} (e : prim * V) l :
  map key_image (ins_entry e l) = str_insert (key_image e) (map key_image l).
Proof.
  induction l as [|e' r IH]; cbn; [reflexivity|]. unfold key_image at 2 3.
  destruct (bytes_ltb (prim_bytes (fst e')) (prim_bytes (fst e))); cbn; [rewrite IH|]; reflexivity.
Qed.

Lemma sort_entries_images {V} (m : list (prim * V)) : map key_image (sort_entries m) = str_sort (map key_image m).
Proof.
  induction m as [|e r IH]; [reflexivity|]. rewrite sort_entries_cons, ins_entry_images, IH. reflexivity.
Qed.

Lemma data_get_in {V} (m : list (prim * V)) e : NoDup (map key_image m) -> In e m -> data_get m (key_image e) = Some e.
Proof.
  unfold data_get. induction m as [|x r IH]; intros Hn Hin; [destruct Hin|].
  cbn [map] in Hn. inversion Hn as [|? ? Hni Hnr]; subst. cbn [find].
  destruct Hin as [->|Hin]; [rewrite bytes_eqb_refl; reflexivity|].
  destruct (bytes_eqb (key_image x) (key_image e)) eqn:E; [|apply IH; assumption].
  exfalso. apply Hni. apply bytes_eqb_eq in E. rewrite E. apply in_map. exact Hin.
Qed.

Lemma lookup_all_images {V} (m : list (prim * V)) : NoDup (map key_image m) ->
  forall l, (forall e, In e l -> In e m) -> lookup_all m (map key_image l) = l.
Proof.
  intros Hn. induction l as [|e r IH]; intro Hsub; [reflexivity|].
  unfold lookup_all in *. cbn [map flat_map]. rewrite data_get_in; [|exact Hn|apply Hsub; left; reflexivity].
  cbn. f_equal. apply IH. intros x Hx. apply Hsub. right. exact Hx.
Qed.

Theorem map_sorted_entries_spec {V} (p : perm_code) (m : list (prim * V)) :
  NoDup (map key_image m) -> map_sorted_entries p m = sort_entries m.
Proof.
  intro Hn. unfold map_sorted_entries.
  rewrite (sorted_key_perm (reorder p m) m (reorder_perm p m)).
  unfold get_map_sorted_key. rewrite <- sort_entries_images.
  apply lookup_all_images; [exact Hn|]. intros e He. rewrite sort_entries_in in He. exact He.
Qed.

(** the list standing for the Go map may itself be in any order *)
Lemma data_get_perm {V} (m m' : list (prim * V)) k :
  NoDup (map key_image m) -> Permutation m m' -> data_get m k = data_get m' k.
Proof.
  intros Hn Hp.
  assert (Hn' : NoDup (map key_image m')) by (eapply Permutation_NoDup; [apply Permutation_map; exact Hp|exact Hn]).
  destruct (data_get m k) as [e|] eqn:E.
  - unfold data_get in E. apply find_some in E. destruct E as [Hin Hk]. apply bytes_eqb_eq in Hk. subst k.
    symmetry. apply data_get_in; [exact Hn'|]. apply (Permutation_in e Hp). exact Hin.
  - destruct (data_get m' k) as [e'|] eqn:E'; [|reflexivity]. exfalso.
    unfold data_get in E'. apply find_some in E'. destruct E' as [Hin Hk].
    unfold data_get in E. cbv beta in Hk. rewrite (find_none _ _ E e') in Hk; [discriminate|].
    apply (Permutation_in e' (Permutation_sym Hp)). exact Hin.
Qed.

Theorem map_sorted_entries_representation {V} (p p' : perm_code) (m m' : list (prim * V)) :
  NoDup (map key_image m) -> Permutation m m' -> map_sorted_entries p m = map_sorted_entries p' m'.
Proof.
  intros Hn Hp. unfold map_sorted_entries.
  rewrite (sorted_key_perm (reorder p m) (reorder p' m')).
  2:{ rewrite (reorder_perm p m), (reorder_perm p' m'). exact Hp. }
  unfold lookup_all. apply flat_map_ext. intro k. rewrite (data_get_perm m m' k Hn Hp). reflexivity.
Qed.
