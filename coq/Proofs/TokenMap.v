(** Lemmas on the association lists of Model/Token.v: read-after-write, key uniqueness,
    sum after write / delete. *)
From Coq Require Import List ZArith NArith Bool Lia.
Import ListNotations.
From Ont Require Import Model.Token.
Local Open Scope Z_scope.

Section AMapFacts.
  Context {K : Type}.
  Variable keqb : K -> K -> bool.
  Hypothesis keqb_spec : forall a b, keqb a b = true <-> a = b.

  Lemma keqb_refl : forall a, keqb a a = true.
  Proof. intros; apply keqb_spec; reflexivity. Qed.

  Lemma keqb_false : forall a b, keqb a b = false <-> a <> b.
  Proof.
    intros a b; split; intros H.
    - intros E. apply keqb_spec in E. congruence.
    - destruct (keqb a b) eqn:E; auto. apply keqb_spec in E. contradiction.
  Qed.

  Lemma keqb_trans_eq : forall k a b, keqb k a = true -> keqb k b = keqb a b.
  Proof. intros k a b H. apply keqb_spec in H. subst. reflexivity. Qed.

  Lemma aget_aput : forall l k v k',
    aget keqb (aput keqb k v l) k' = if keqb k' k then Some v else aget keqb l k'.
  Proof.
    induction l as [|[k0 v0] r IH]; intros k v k'; simpl.
    - reflexivity.
    - destruct (keqb k k0) eqn:E; simpl.
      + apply keqb_spec in E; subst k0. destruct (keqb k' k); reflexivity.
      + rewrite IH. destruct (keqb k' k0) eqn:E0; auto.
        destruct (keqb k' k) eqn:E1; auto.
        apply keqb_spec in E0, E1. subst. rewrite keqb_refl in E. discriminate.
  Qed.

  Lemma getd_aput : forall l k v k',
    getd keqb (aput keqb k v l) k' = if keqb k' k then v else getd keqb l k'.
  Proof. intros. unfold getd. rewrite aget_aput. destruct (keqb k' k); reflexivity. Qed.

  Lemma aget_adel : forall l k k',
    aget keqb (adel keqb k l) k' = if keqb k' k then None else aget keqb l k'.
  Proof.
    induction l as [|[k0 v0] r IH]; intros k k'; simpl.
    - destruct (keqb k' k); reflexivity.
    - destruct (keqb k k0) eqn:E; simpl.
      + apply keqb_spec in E; subst k0. rewrite IH. destruct (keqb k' k); reflexivity.
      + rewrite IH. destruct (keqb k' k0) eqn:E0; auto.
        destruct (keqb k' k) eqn:E1; auto.
        apply keqb_spec in E0, E1. subst. rewrite keqb_refl in E. discriminate.
  Qed.

  Lemma getd_adel : forall l k k',
    getd keqb (adel keqb k l) k' = if keqb k' k then 0 else getd keqb l k'.
  Proof. intros. unfold getd. rewrite aget_adel. destruct (keqb k' k); reflexivity. Qed.

  Lemma in_keys_aput : forall l k v x, In x (map fst (aput keqb k v l)) -> x = k \/ In x (map fst l).
  Proof.
    induction l as [|[k0 v0] r IH]; intros k v x; simpl.
    - intuition.
    - destruct (keqb k k0) eqn:E; simpl.
      + intuition.
      + intros [H|H]; auto. apply IH in H. intuition.
  Qed.

  Lemma in_keys_adel : forall l k x, In x (map fst (adel keqb k l)) -> In x (map fst l) /\ x <> k.
  Proof.
    induction l as [|[k0 v0] r IH]; intros k x; simpl.
    - intuition.
    - destruct (keqb k k0) eqn:E; simpl.
      + intros H. apply IH in H. intuition.
      + intros [H|H].
        * subst. split; auto. apply keqb_false in E. congruence.
        * apply IH in H. intuition.
  Qed.

  Lemma wf_aput : forall l k v, wf l -> wf (aput keqb k v l).
  Proof.
    unfold wf. induction l as [|[k0 v0] r IH]; intros k v H; simpl.
    - constructor; [intros []|constructor].
    - inversion H; subst. destruct (keqb k k0) eqn:E; simpl.
      + apply keqb_spec in E; subst. constructor; auto.
      + constructor; auto. intros Hin. apply in_keys_aput in Hin. destruct Hin as [->|Hin]; auto.
        rewrite keqb_refl in E. discriminate.
  Qed.

  Lemma wf_adel : forall l k, wf l -> wf (adel keqb k l).
  Proof.
    unfold wf. induction l as [|[k0 v0] r IH]; intros k H; simpl.
    - constructor.
    - inversion H; subst. destruct (keqb k k0) eqn:E; simpl; auto.
      constructor; auto. intros Hin. apply in_keys_adel in Hin. tauto.
  Qed.

  Lemma aget_notin : forall l k, ~ In k (map fst l) -> aget keqb l k = None.
  Proof.
    induction l as [|[k0 v0] r IH]; intros k H; simpl in *; auto.
    destruct (keqb k k0) eqn:E.
    - apply keqb_spec in E. subst. tauto.
    - apply IH. tauto.
  Qed.

  Lemma adel_notin : forall l k, ~ In k (map fst l) -> adel keqb k l = l.
  Proof.
    induction l as [|[k0 v0] r IH]; intros k H; simpl in *; auto.
    destruct (keqb k k0) eqn:E.
    - apply keqb_spec in E. subst. tauto.
    - f_equal. apply IH. tauto.
  Qed.

  Lemma asum_aput : forall l k v, wf l -> asum (aput keqb k v l) = asum l - getd keqb l k + v.
  Proof.
    unfold wf, getd. induction l as [|[k0 v0] r IH]; intros k v H; simpl.
    - lia.
    - inversion H; subst. destruct (keqb k k0) eqn:E; simpl.
      + lia.
      + rewrite IH by assumption. lia.
  Qed.

  Lemma asum_adel : forall l k, wf l -> asum (adel keqb k l) = asum l - getd keqb l k.
  Proof.
    unfold wf, getd. induction l as [|[k0 v0] r IH]; intros k H; simpl.
    - lia.
    - inversion H; subst. destruct (keqb k k0) eqn:E; simpl.
      + apply keqb_spec in E; subst. rewrite adel_notin by assumption. lia.
      + rewrite IH by assumption. lia.
  Qed.

  (** With unique keys, "every stored value is >= 0" is the pointwise statement. *)
  Lemma getd_in : forall l k v, wf l -> In (k, v) l -> getd keqb l k = v.
  Proof.
    unfold wf, getd. induction l as [|[k0 v0] r IH]; intros k v H Hin; simpl in *.
    - contradiction.
    - inversion H; subst. destruct Hin as [E|Hin].
      + inversion E; subst. rewrite keqb_refl. reflexivity.
      + destruct (keqb k k0) eqn:E.
        * apply keqb_spec in E; subst. exfalso. apply H2. apply (in_map fst) in Hin. exact Hin.
        * apply IH; assumption.
  Qed.
End AMapFacts.

Lemma addr_eqb_spec : forall a b, addr_eqb a b = true <-> a = b.
Proof. intros. unfold addr_eqb. apply N.eqb_eq. Qed.

Lemma pair_eqb_spec : forall a b, pair_eqb a b = true <-> a = b.
Proof.
  intros [a1 a2] [b1 b2]. unfold pair_eqb; simpl. rewrite andb_true_iff, !N.eqb_eq.
  split; [intros [-> ->]; reflexivity | intros E; inversion E; auto].
Qed.
