(** C11: genesis, the per-address reading of the accounting invariant, and "liquid + staked ONT
    of an address never grows" (nobody takes out more than was put in). *)
From Coq Require Import List NArith Bool Lia.
Import ListNotations.
From Ont Require Import Lib.AList Gen.GovConsts Model.Gov Model.GovSpec Proofs.GovInv Proofs.GovAcct
  Proofs.GovAcct2 Proofs.GovAcct3 Proofs.GovAcct4.
Local Open Scope N_scope.

(** ** genesis *)
Definition peer_ids (peers : list (N * N * N)) : list N := map (fun x => fst (fst x)) peers.

Fixpoint sel_init (sel : N -> bool) (peers : list (N * N * N)) : N :=
  match peers with [] => 0 | (_, o, i) :: r => bsel (sel o) i + sel_init sel r end.

Lemma sel_init_le : forall sel peers, sel_init sel peers <= sum_init peers.
Proof.
  induction peers as [|[[k o] i] r IH]; cbn [sel_init sum_init]; [lia|].
  pose proof (bsel_le (sel o) i). lia.
Qed.

Lemma genesis_stakes_L : forall sel peers st,
  asum (fun _ x => x) st + sum_init peers < W64 ->
  Lst sel (genesis_stakes peers st) = Lst sel st + sel_init sel peers.
Proof.
  induction peers as [|[[k o] i] r IH]; cbn [genesis_stakes sel_init sum_init]; intros st Hlt; [lia|].
  pose proof (nget_le_sum o st).
  rewrite IH.
  - rewrite L_deposit by lia. lia.
  - rewrite deposit_stake_sum by lia. lia.
Qed.

Definition gpool_step (acc : list (N * peerv)) (x : N * N * N) : list (N * peerv) :=
  let '(k, owner, init) := x in pset k (mkPV owner ConsensusStatus init 0) acc.

Lemma genesis_pool_props : forall peers acc,
  NoDup (keys acc) -> NoDup (peer_ids peers) -> (forall k, In k (peer_ids peers) -> pget k acc = None) ->
  (forall k p, pget k acc = Some p -> p_total p = 0) ->
  let pool := fold_left gpool_step peers acc in
  NoDup (keys pool) /\ (forall k p, pget k pool = Some p -> p_total p = 0) /\
  forall sel, Opool sel pool = Opool sel acc + sel_init sel peers.
Proof.
  induction peers as [|[[k o] i] r IH]; cbn [fold_left peer_ids map sel_init fst]; intros acc Hn Hd Hfresh Hz.
  - repeat split; auto. intros; lia.
  - inversion Hd as [|? ? Hnot Hdr]; subst.
    specialize (IH (pset k (mkPV o ConsensusStatus i 0) acc)).
    destruct IH as (N1 & Z1 & O1).
    + now apply nodup_pset.
    + exact Hdr.
    + intros k' Hin. rewrite pget_pset_other; [apply Hfresh; now right|]. intros ->. contradiction.
    + intros k' p Hg. destruct (N.eq_dec k' k) as [->|Hne].
      * rewrite pget_pset_same in Hg. inversion Hg; reflexivity.
      * rewrite pget_pset_other in Hg by auto. eauto.
    + cbn [gpool_step]. repeat split; auto. intros sel. rewrite O1.
      pose proof (O_pset sel k (mkPV o ConsensusStatus i 0) acc) as Eo.
      rewrite (Hfresh k (or_introl eq_refl)) in Eo. cbn [oinit p_owner p_init] in Eo. lia.
Qed.

Lemma genesis_pool_eq : forall peers, genesis_pool peers = fold_left gpool_step peers [].
Proof. reflexivity. Qed.

Theorem genesis_inv2 : forall par h peers ont,
  nget GOV ont = sum_init peers -> asum (fun _ x => x) ont <= ONT_TOTAL_SUPPLY ->
  NoDup (peer_ids peers) -> params_ok par ->
  inv2 (genesis par h peers ont).
Proof.
  intros par h peers ont Hf Hs Hd Hpar.
  pose proof (nget_le_sum GOV ont). pose proof supply_lt_W64.
  destruct (genesis_pool_props peers [] (NoDup_nil _) Hd (fun _ _ => eq_refl)) as (N1 & Z1 & O1).
  { intros k p Hg. discriminate. }
  constructor; unfold genesis; simp_state.
  - now apply genesis_inv1.
  - intros sel. simp_state. rewrite genesis_stakes_L by (cbn [asum]; lia).
    rewrite genesis_pool_eq, O1. unfold Lst, Winf, Opool. cbn [asum]. lia.
  - intros k. rewrite total_of_tot. simp_state. unfold Act. cbn [asum]. unfold tot.
    rewrite genesis_pool_eq. destruct (pget k (fold_left gpool_step peers [])) eqn:E; [|reflexivity].
    symmetry. eapply Z1; eauto.
  - unfold reg_zero. simp_state. rewrite genesis_pool_eq. intros k p Hg _. eapply Z1; eauto.
  - rewrite genesis_pool_eq. exact N1.
  - exact Hpar.
Qed.

(** ** the stake table has one record per address; liquid + staked ONT of an address never grows *)
Definition wealth (a : N) (s : state) : N := nget a (s_ont s) + nget a (s_stakes s).

(** [a] is not the destination the admin names in a transferPenalty *)
Definition not_paid (a : N) (o : op) : Prop :=
  match o with OPenalty _ _ d => d <> a | _ => True end.

Record eff (a : N) (s s' : state) : Prop := mkEff {
  eff_nodup : NoDup (keys (s_stakes s)) -> NoDup (keys (s_stakes s'));
  eff_wealth : wealth a s' <= wealth a s
}.

Lemma eff_fin : forall a s s', fin s' = fin s -> eff a s s'.
Proof.
  intros a s s' E. unfold fin in E. inversion E as [[E1 E2 E3]]. constructor.
  - now rewrite E2.
  - unfold wealth. rewrite E1, E2. lia.
Qed.

Lemma eff_trans : forall a s1 s2 s3, eff a s1 s2 -> eff a s2 s3 -> eff a s1 s3.
Proof. intros a s1 s2 s3 [N1 W1] [N2 W2]. constructor; auto. lia. Qed.

Lemma deposit_nodup : forall st a amt, NoDup (keys st) -> NoDup (keys (deposit_stake st a amt)).
Proof. intros. unfold deposit_stake. now apply (NoDup_aset N.eqb Neqb_spec). Qed.

Lemma withdraw_nodup : forall st a amt st', withdraw_stake st a amt = Ok st' -> NoDup (keys st) -> NoDup (keys st').
Proof.
  intros st a amt st' H Hn. unfold withdraw_stake in H. destruct (nget a st <? amt); [discriminate|].
  inversion H; subst. now apply (NoDup_aset N.eqb Neqb_spec).
Qed.

Lemma withdraw_many_eff : forall l st acc st' acc', withdraw_many st l acc = Ok (st', acc') ->
  (NoDup (keys st) -> NoDup (keys st')) /\ forall a, nget a st' <= nget a st.
Proof.
  induction l as [|[b amt] r IH]; cbn [withdraw_many]; intros st acc st' acc' H.
  - inversion H; subst. split; auto. intros; lia.
  - mstep H. destruct (IH _ _ _ _ H) as [N1 M1].
    match goal with H : withdraw_stake _ _ _ = Ok _ |- _ =>
      pose proof (withdraw_nodup _ _ _ _ H) as N0; destruct (withdraw_stake_get _ _ _ _ H) as [G1 G2] end.
    split; [auto|]. intros a. specialize (M1 a). destruct (N.eq_dec a b) as [->|Hne]; [lia|].
    rewrite G2 in M1 by auto. exact M1.
Qed.

(** ONT into governance + deposit *)
Lemma eff_deposit : forall a s s2 addr amt ont',
  inv1 s -> fin s2 = fin s -> addr <> GOV -> a <> GOV ->
  ont_transfer (s_ont s2) addr GOV amt = Ok ont' ->
  eff a s (set_stakes (deposit_stake (s_stakes s2) addr amt) (set_ont ont' s2)).
Proof.
  intros a s s2 addr amt ont' H1 Ef Hne Ha Ht.
  unfold fin in Ef. inversion Ef as [[E1 E2 E3]]. rewrite E1, E2 in *.
  destruct (ont_transfer_spec _ _ _ _ _ Ht) as (Sum & Hoth & Hd & _). destruct (Hd Hne) as [Hfrom Hto].
  pose proof (ont_transfer_le _ _ _ _ _ Ht) as Hle.
  pose proof (stake_le_B s addr H1). pose proof B2.
  assert (amt <= B) by (destruct H1 as [_ Hs]; unfold supply_ok, ont_total, B in *; lia).
  constructor; simp_state.
  - apply deposit_nodup.
  - unfold wealth. simp_state. unfold deposit_stake. rewrite w64_small by lia.
    destruct (N.eq_dec a addr) as [->|Hna].
    + rewrite nget_aset_same. lia.
    + rewrite nget_aset_other by auto. rewrite Hoth by auto. lia.
Qed.

Lemma black_quit_eff : forall a s k p s1, a <> GOV -> black_quit s k p = Ok s1 -> eff a s s1.
Proof.
  intros a s k p s1 Ha H. unfold black_quit in H. msteps H.
  match goal with H : ont_transfer _ _ _ _ = Ok _ |- _ => destruct (ont_transfer_spec _ _ _ _ _ H) as (_ & Hoth & _ & _) end.
  match goal with H : withdraw_stake _ _ _ = Ok _ |- _ =>
    pose proof (withdraw_nodup _ _ _ _ H) as N0; destruct (withdraw_stake_get _ _ _ _ H) as [G1 G2] end.
  match goal with H : withdraw_many _ _ _ = Ok _ |- _ => destruct (withdraw_many_eff _ _ _ _ _ H) as [N1 M1] end.
  constructor; simp_state; auto.
  unfold wealth. simp_state. rewrite Hoth by auto. specialize (M1 a).
  destruct (N.eq_dec a (p_owner p)) as [->|Hne]; [lia|]. rewrite G2 in M1 by auto. lia.
Qed.

Lemma commit_pass_eff : forall a l s s', a <> GOV -> commit_pass l s = Ok s' -> eff a s s'.
Proof.
  induction l as [|[k p] r IH]; cbn [commit_pass]; intros s s' Ha H.
  - inversion H; subst. apply eff_fin. reflexivity.
  - destruct (p_status p =? QuitingStatus).
    { eapply eff_trans; [|eapply IH; eauto]. apply eff_fin. reflexivity. }
    destruct (p_status p =? BlackStatus).
    { mstep H. eapply eff_trans; [eapply black_quit_eff; eauto|].
      eapply eff_trans; [|eapply IH; eauto]. apply eff_fin. reflexivity. }
    destruct (p_status p =? QuitConsensusStatus).
    { eapply eff_trans; [|eapply IH; eauto]. apply eff_fin. reflexivity. }
    eapply IH; eauto.
Qed.

Lemma commit_core_eff : forall a h s s', a <> GOV -> commit_core h s = Ok s' -> eff a s s'.
Proof.
  intros a h s s' Ha H. unfold commit_core in H. msteps H.
  match goal with H : commit_pass _ _ = Ok _ |- _ => apply (commit_pass_eff a) in H; [|exact Ha]; rename H into E1 end.
  match goal with H : transitions _ (firstn _ _) _ = Ok _ |- _ => apply transitions_fin in H; rename H into F1 end.
  match goal with H : transitions _ (skipn _ _) _ = Ok _ |- _ => apply transitions_fin in H; rename H into F2 end.
  eapply eff_trans; [exact E1|]. apply eff_fin. unfold fin in *. simp_state. congruence.
Qed.

Theorem exec_eff : forall a h s o s', inv1 s -> op_ok o -> a <> GOV -> not_paid a o ->
  exec h s o = Ok s' -> eff a s s'.
Proof.
  intros a h s o s' H1 Hok Ha Hnp H. destruct o; cbn [exec op_ok not_paid] in *.
  - unfold exec_register in H. msteps H. signer_eq.
    match goal with |- eff _ _ (set_stakes _ (set_ont _ ?s2)) => eapply (eff_deposit a s s2); eauto end.
    destruct (g_selfgov (s_par s) <=? h); reflexivity.
  - unfold exec_unregister in H. msteps H. apply eff_fin. reflexivity.
  - unfold exec_approve in H. msteps H. apply eff_fin. destruct (NEW_VERSION_BLOCK <=? h); reflexivity.
  - unfold exec_reject in H. msteps H. apply eff_fin. reflexivity.
  - unfold exec_authorize in H. msteps H. signer_eq.
    match goal with |- eff _ _ (set_stakes _ (set_ont _ ?s2)) => eapply (eff_deposit a s s2); eauto end.
    eapply auth_loop_fin; eauto.
  - unfold exec_unauthorize in H. msteps H. apply eff_fin. eapply unauth_loop_fin; eauto.
  - unfold exec_withdraw in H. msteps H. signer_eq.
    match goal with H : withdraw_loop _ _ _ _ _ = Ok _ |- _ => apply withdraw_loop_fin in H; rename H into Ef end.
    unfold fin in Ef. inversion Ef as [[E1 E2 E3]]. rewrite E1, E2 in *.
    match goal with H : ont_transfer _ _ _ _ = Ok _ |- _ => destruct (ont_transfer_spec _ _ _ _ _ H) as (_ & Hoth & Hd & _) end.
    destruct (Hd (not_eq_sym Hok)) as [Hfrom Hto].
    match goal with H : withdraw_stake _ _ _ = Ok _ |- _ =>
      pose proof (withdraw_nodup _ _ _ _ H) as N0; destruct (withdraw_stake_get _ _ _ _ H) as [G1 G2] end.
    constructor; simp_state; auto. unfold wealth. simp_state.
    destruct (N.eq_dec a signer) as [->|Hne]; [lia|]. rewrite G2 by auto. rewrite Hoth by auto. lia.
  - unfold exec_quit in H. msteps H. apply eff_fin. reflexivity.
  - unfold exec_black in H. msteps H. destruct x as [s1 c].
    match goal with H : black_loop _ _ _ = Ok _ |- _ => apply black_loop_fin in H; rename H into F end.
    cbn [fst snd] in H. destruct c.
    + eapply eff_trans; [apply eff_fin; exact F|]. eapply commit_core_eff; eauto.
    + inversion H; subst. apply eff_fin; exact F.
  - unfold exec_white in H. msteps H. apply eff_fin. reflexivity.
  - unfold exec_commit in H. msteps H. eapply commit_core_eff; eauto.
  - unfold exec_maxauth in H. msteps H. apply eff_fin. reflexivity.
  - unfold exec_addinit in H. msteps H. signer_eq.
    match goal with |- eff _ _ (set_stakes _ (set_ont _ ?s2)) => eapply (eff_deposit a s s2); eauto end.
  - unfold exec_reduceinit in H. msteps H. apply eff_fin. reflexivity.
  - destruct Hok as [Hsg Hd]. unfold exec_penalty in H. msteps H.
    match goal with H : ont_transfer _ _ _ _ = Ok _ |- _ => destruct (ont_transfer_spec _ _ _ _ _ H) as (_ & Hoth & _ & _) end.
    constructor; simp_state; auto. unfold wealth. simp_state. rewrite Hoth by auto. lia.
Qed.

Lemma exec_nodup : forall h s o s', inv1 s -> op_ok o -> exec h s o = Ok s' ->
  NoDup (keys (s_stakes s)) -> NoDup (keys (s_stakes s')).
Proof.
  intros h s o s' H1 Hok H.
  set (a := match o with OPenalty _ _ d => d + 1 | _ => 1 end).
  assert (Ha : a <> GOV) by (unfold a, GOV; destruct o; lia).
  assert (Hnp : not_paid a o) by (unfold a; destruct o; cbn; auto; lia).
  exact (eff_nodup a s s' (exec_eff a h s o s' H1 Hok Ha Hnp H)).
Qed.

(** ** the invariant of the whole development *)
Record inv3 (s : state) : Prop := mkInv3 {
  i3_inv2 : inv2 s;
  i3_stk : NoDup (keys (s_stakes s))
}.

Theorem step_inv3 : forall s ho, inv3 s -> op_ok2 (snd ho) -> inv3 (fst (step s ho)).
Proof.
  intros s [h o] [Hi Hn] Hok. pose proof (step_inv2 s (h, o) Hi Hok) as H2.
  constructor; [exact H2|]. unfold step in *. cbn [fst snd] in *.
  destruct (exec h s o) eqn:E; cbn [fst]; auto.
  eapply exec_nodup; eauto; [apply Hi | apply Hok].
Qed.

Theorem run_inv3 : forall l s, inv3 s -> Forall (fun ho => op_ok2 (snd ho)) l -> inv3 (run s l).
Proof.
  induction l as [|ho r IH]; cbn; intros s Hi Hall; auto.
  inversion Hall; subst. apply IH; auto. now apply step_inv3.
Qed.

Lemma genesis_stakes_nodup : forall peers st, NoDup (keys st) -> NoDup (keys (genesis_stakes peers st)).
Proof.
  induction peers as [|[[k o] i] r IH]; cbn [genesis_stakes]; intros st Hn; auto.
  apply IH. now apply deposit_nodup.
Qed.

Theorem genesis_inv3 : forall par h peers ont,
  nget GOV ont = sum_init peers -> asum (fun _ x => x) ont <= ONT_TOTAL_SUPPLY ->
  NoDup (peer_ids peers) -> params_ok par ->
  inv3 (genesis par h peers ont).
Proof.
  intros. constructor; [now apply genesis_inv2|]. unfold genesis. simp_state.
  apply genesis_stakes_nodup. constructor.
Qed.

(** reading the invariant per address *)
Lemma Lst_eqb : forall a st, NoDup (keys st) -> Lst (fun x => x =? a) st = nget a st.
Proof.
  intros a st. unfold Lst, nget, keys. induction st as [|[b v] r IH]; cbn [asum aget map fst]; intros Hn; [reflexivity|].
  inversion Hn as [|? ? Hnot Hr]; subst. rewrite (N.eqb_sym a b).
  destruct (N.eqb_spec b a) as [->|Hne]; cbn [bsel].
  - assert (asum (fun a0 v0 => bsel (a0 =? a) v0) r = 0) as ->; [|lia].
    apply asum_zero. intros k v' Hin. destruct (N.eqb_spec k a) as [->|]; [|reflexivity].
    exfalso. apply Hnot. change a with (fst (a, v')). now apply in_map.
  - rewrite IH by auto. lia.
Qed.

Theorem inv3_address : forall s, inv3 s -> inv_address s.
Proof.
  intros s [[H1 Ha Hp Hr Hn Hpar] Hs] a. specialize (Ha (fun x => x =? a)).
  rewrite Lst_eqb in Ha by auto. exact Ha.
Qed.

Theorem inv3_pool_pos : forall s, inv3 s -> pool_pos_consistent s.
Proof. intros s [Hi _]. apply ppc_spec. apply Hi. Qed.

Theorem inv3_balance : forall s, inv3 s -> inv_balance s.
Proof. intros s [Hi _]. apply Hi. Qed.

(** ** nobody takes out more than was put in *)
Theorem run_wealth : forall a l s, inv1 s -> a <> GOV ->
  Forall (fun ho => op_ok (snd ho) /\ not_paid a (snd ho)) l ->
  wealth a (run s l) <= wealth a s.
Proof.
  intros a. induction l as [|[h o] r IH]; cbn [run fold_left]; intros s H1 Ha Hall; [lia|].
  inversion Hall as [|? ? [Hok Hnp] Hr]; subst. cbn [snd] in *.
  pose proof (step_inv1 s (h, o) H1 Hok) as H1'.
  fold (run (fst (step s (h, o))) r). specialize (IH _ H1' Ha Hr).
  unfold step in *. cbn [fst snd] in *. destruct (exec h s o) eqn:E; cbn [fst] in *; [|exact IH].
  pose proof (eff_wealth a s x (exec_eff a h s o x H1 Hok Ha Hnp E)). lia.
Qed.
