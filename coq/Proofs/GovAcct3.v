(** C11 accounting invariants, continued: the list operations (withdraw, unAuthorizeForPeer,
    authorizeForPeer). *)
From Coq Require Import List NArith Bool Lia.
Import ListNotations.
From Ont Require Import Lib.AList Gen.GovConsts Model.Gov Model.GovSpec Proofs.GovInv Proofs.GovAcct Proofs.GovAcct2.
Local Open Scope N_scope.

(** ** withdraw *)
Definition wd_pre (s0 : state) (a : N) (s : state) (t : N) : Prop :=
  fin s = fin s0 /\ s_pool s = s_pool s0 /\ s_par s = s_par s0 /\
  (forall sel, Winf sel (s_infos s) + bsel (sel a) t = Winf sel (s_infos s0)) /\
  (forall k, Act k (s_infos s) = Act k (s_infos s0)).

Lemma withdraw_loop_pre : forall l h s0 s a t s' t',
  withdraw_loop h s a l t = Ok (s', t') -> pos_small l ->
  t + N.of_nat (length l) * W32 < W64 ->
  wd_pre s0 a s t -> wd_pre s0 a s' t'.
Proof.
  induction l as [|[k pos] r IH]; cbn [withdraw_loop length]; intros h s0 s a t s' t' H Hp Hb Hpre.
  - inversion H; subst. exact Hpre.
  - inversion Hp as [|? ? Hpos Hr]; subst. cbn [snd] in Hpos.
    rewrite Nat2N.inj_succ, N.mul_succ_l in *.
    mstep H. destruct x as [s1 t1]. cbn [fst snd] in H.
    match goal with H : withdraw_item _ _ _ _ _ = Ok _ |- _ => unfold withdraw_item in H; msteps H end.
    bnorm. rewrite (w64_small (t + pos)) in H by lia.
    eapply IH; [exact H | exact Hr | lia |].
    destruct Hpre as (Ef & Epool & Epar & Hw & Hact).
    set (i := iget k a (s_infos s)) in *.
    set (i' := mkIV (i_cons i) (i_cand i) (i_new i) (i_wcons i) (i_wcand i) (i_wunf i - pos)).
    assert (E6 : all6 i' + pos = all6 i) by (unfold all6, i'; cbn; lia).
    assert (E3 : act3 i' = act3 i) by reflexivity.
    unfold wd_pre. simp_state. repeat split; auto.
    + intros sel. specialize (Hw sel). pose proof (W_iset sel k a i' (s_infos s)) as Ew. fold i in Ew.
      unfold bsel in *. destruct (sel a); lia.
    + intros k'. rewrite <- Hact. pose proof (A_iset k' k a i' (s_infos s)) as Ea. fold i in Ea.
      rewrite E3 in Ea. lia.
Qed.

Lemma exec_withdraw_inv2 : forall h s sg a l wf s',
  inv2 s -> sg <> GOV -> pos_small l -> exec_withdraw h s sg a l wf = Ok s' -> inv2 s'.
Proof.
  intros h s sg a l wf s' Hi Hsg Hps H.
  assert (I1 : inv1 s') by (eapply exec_withdraw_inv1; eauto; apply Hi).
  pose proof Hi as [H1 Ha Hp Hr Hn Hpar].
  unfold exec_withdraw in H. msteps H. signer_eq.
  match goal with H : negb _ || negb (len_ok _ _) = false |- _ => apply orb_false_iff in H; destruct H as [_ Hlen] end.
  apply negb_false_iff in Hlen. unfold len_ok in Hlen. apply N.leb_le in Hlen.
  assert (HW : N.of_nat (length l) * W32 < W64).
  { assert (MAX_LIST_WithdrawParam * W32 < W64) by (vm_compute; reflexivity). nia. }
  match goal with H : withdraw_loop _ _ _ _ _ = Ok _ |- _ =>
    pose proof (withdraw_loop_pre _ _ s _ _ _ _ _ H Hps) as Hpre end.
  destruct Hpre as (Ef & Epool & Epar & Hw & Hact); [lia| |].
  { unfold wd_pre. repeat split; auto. intros sel. unfold bsel. destruct (sel sg); lia. }
  unfold fin in Ef. inversion Ef as [[E1 E2 E3]].
  constructor; auto; simp_state.
  - intros sel. specialize (Ha sel). specialize (Hw sel). simp_state. rewrite Epool.
    match goal with H : withdraw_stake _ _ _ = Ok _ |- _ => pose proof (L_withdraw sel _ _ _ _ H) as El end.
    rewrite E2 in El. lia.
  - intros k. rewrite total_of_tot. simp_state. rewrite Epool, Hact. apply Hp.
  - unfold reg_zero. simp_state. rewrite Epool. exact Hr.
  - now rewrite Epool.
  - now rewrite Epar.
Qed.

(** ** unAuthorizeForPeer *)
Lemma active_not_register : forall st, is_active st = true -> st <> RegisterCandidateStatus.
Proof.
  intros st H Hc. subst. vm_compute in H. discriminate.
Qed.

(** moving [d] units of one info of peer [k] from the active buckets to withdraw buckets and
    decrementing TotalPos by the same amount *)
Lemma inv2_move : forall s k a p i' d,
  inv2 s -> pget k (s_pool s) = Some p -> p_status p <> RegisterCandidateStatus ->
  all6 i' = all6 (iget k a (s_infos s)) -> act3 i' + d = act3 (iget k a (s_infos s)) ->
  inv2 (set_infos (iset k a i' (s_infos s)) (set_pool (pset k (with_total p (p_total p - d)) (s_pool s)) s)).
Proof.
  intros s k a p i' d Hi Hg Hst E6 E3. pose proof Hi as [H1 Ha Hp Hr Hn Hpar].
  set (i := iget k a (s_infos s)) in *.
  pose proof (act3_le_Act k a (s_infos s)) as Hle. fold i in Hle.
  pose proof (Hp k) as Hpk. rewrite total_of_tot in Hpk. unfold tot in Hpk. rewrite Hg in Hpk.
  constructor; simp_state.
  - eapply inv1_fin; [|exact H1]. reflexivity.
  - intros sel. specialize (Ha sel). simp_state.
    pose proof (W_iset sel k a i' (s_infos s)) as Ew. fold i in Ew.
    pose proof (O_pset sel k (with_total p (p_total p - d)) (s_pool s)) as Eo. rewrite Hg in Eo.
    cbn [oinit with_total p_owner p_init] in Eo. rewrite E6 in Ew. lia.
  - intros k'. specialize (Hp k'). rewrite total_of_tot in *. simp_state. rewrite tot_pset.
    pose proof (A_iset k' k a i' (s_infos s)) as Ea. fold i in Ea.
    destruct (N.eqb_spec k' k) as [->|Hne].
    + rewrite N.eqb_refl in Ea. unfold bsel in Ea. cbn [with_total p_total]. lia.
    + assert (k =? k' = false) as Hf by (apply N.eqb_neq; auto). rewrite Hf in Ea. unfold bsel in Ea. lia.
  - unfold reg_zero. simp_state. apply regz_pset; auto. cbn [with_total p_status]. intros; contradiction.
  - now apply nodup_pset.
  - exact Hpar.
Qed.

Lemma wsub_exact : forall a b, b <= a -> wsub a b = a - b.
Proof. intros a b H. unfold wsub. apply N.leb_le in H. now rewrite H. Qed.

Lemma unauth_apply_inv2 : forall s a k p pos s', inv2 s -> pget k (s_pool s) = Some p ->
  is_active (p_status p) = true ->
  unauth_apply s a k p (iget k a (s_infos s)) pos = Ok s' -> inv2 s'.
Proof.
  intros s a k p pos s' Hi Hg Hact H. pose proof Hi as [H1 Ha Hp Hr Hn Hpar].
  set (i := iget k a (s_infos s)) in *.
  pose proof (info_bound s k a H1 Ha) as Hib. fold i in Hib. unfold all6 in Hib.
  pose proof B2.
  pose proof (act3_le_Act k a (s_infos s)) as Hle. fold i in Hle.
  pose proof (Hp k) as Hpk. rewrite total_of_tot in Hpk. unfold tot in Hpk. rewrite Hg in Hpk.
  assert (Hnr : p_status p <> RegisterCandidateStatus) by (apply active_not_register; auto).
  unfold unauth_apply in H.
  destruct (i_new i <? pos) eqn:Enew.
  - apply N.ltb_lt in Enew.
    destruct (p_status p =? ConsensusStatus) eqn:Est; mstep H; bnorm; unfold act3 in *.
    + rewrite (w64_small (i_cons i + i_new i)), (w64_small (i_wcons i + pos)), (w64_small (i_wunf i + i_new i)) in H by lia.
      rewrite !wsub_exact in H by lia. inversion H; subst s'.
      apply inv2_move; auto; fold i; unfold all6, act3; cbn [i_cons i_cand i_new i_wcons i_wcand i_wunf]; lia.
    + rewrite (w64_small (i_cand i + i_new i)), (w64_small (i_wcand i + pos)), (w64_small (i_wunf i + i_new i)) in H by lia.
      rewrite !wsub_exact in H by lia. inversion H; subst s'.
      apply inv2_move; auto; fold i; unfold all6, act3; cbn [i_cons i_cand i_new i_wcons i_wcand i_wunf]; lia.
  - apply N.ltb_ge in Enew. unfold act3 in *.
    rewrite (w64_small (i_wunf i + pos)) in H by lia. rewrite wsub_exact in H by lia. inversion H; subst s'.
    apply inv2_move; auto; fold i; unfold all6, act3; cbn [i_cons i_cand i_new i_wcons i_wcand i_wunf]; lia.
Qed.

Lemma unauth_item_inv2 : forall s a kp s', inv2 s -> unauth_item s a kp = Ok s' -> inv2 s'.
Proof.
  intros s a [k pos0] s' Hi H. unfold unauth_item in H. msteps H. bnorm.
  eapply unauth_apply_inv2; eauto.
Qed.

Lemma unauth_loop_inv2 : forall l s a s', inv2 s -> unauth_loop s a l = Ok s' -> inv2 s'.
Proof.
  induction l as [|kp r IH]; cbn [unauth_loop]; intros s a s' Hi H.
  - inversion H; subst; auto.
  - mstep H. eapply IH; [|exact H]. eapply unauth_item_inv2; eauto.
Qed.

Lemma exec_unauthorize_inv2 : forall s sg a l wf s', inv2 s -> exec_unauthorize s sg a l wf = Ok s' -> inv2 s'.
Proof.
  intros s sg a l wf s' Hi H. unfold exec_unauthorize in H. msteps H. eapply unauth_loop_inv2; eauto.
Qed.

(** ** authorizeForPeer: the loop runs ahead of the deposit by the pending amount [t] *)
Record au_pre (s0 : state) (a : N) (s : state) (t : N) : Prop := mkAu {
  au_fin : fin s = fin s0;
  au_par : s_par s = s_par s0;
  au_nodup : NoDup (keys (s_pool s));
  au_reg : reg_zero s;
  au_ppc : ppc s;
  au_acct : forall sel, Lst sel (s_stakes s0) + bsel (sel a) t = Winf sel (s_infos s) + Opool sel (s_pool s)
}.

Lemma auth_item_pre : forall s0 s a kp t s' t',
  inv1 s0 -> au_pre s0 a s t -> snd kp < W32 -> t <= 1024 * W32 ->
  auth_item s a kp t = Ok (s', t') -> au_pre s0 a s' t' /\ t' = t + snd kp.
Proof.
  intros s0 s a [k pos] t s' t' H10 [Ef Epar Hn Hr Hp Hacc] Hpos Ht H. cbn [snd] in *.
  unfold auth_item in H. msteps H. bnorm.
  set (i := iget k a (s_infos s)) in *.
  pose proof (Hacc (fun _ => true)) as Hall. rewrite Lst_true in Hall. cbn [bsel] in Hall.
  assert (HS : asum (fun _ x => x) (s_stakes s0) <= B).
  { destruct H10 as [Hb Hs]. pose proof (nget_le_sum GOV (s_ont s0)).
    unfold inv_balance, supply_ok, gov_balance, sum_stakes, ont_total, B in *. lia. }
  pose proof (all6_le_W k a (s_infos s)) as Hi6. fold i in Hi6.
  pose proof (Act_le_W k (s_infos s)) as HaW.
  pose proof (Hp k) as Hpk. rewrite total_of_tot in Hpk. unfold tot in Hpk.
  match goal with H : pget k (s_pool s) = Some p |- _ => rename H into Hg end. rewrite Hg in Hpk.
  pose proof B_small.
  assert (E1 : w64 (i_new i + pos) = i_new i + pos) by (apply w64_small; unfold all6 in Hi6; lia).
  assert (E2 : w64 (p_total p + pos) = p_total p + pos) by (apply w64_small; lia).
  assert (E3 : w64 (t + pos) = t + pos) by (apply w64_small; lia).
  rewrite E1, E2, E3. split; [|reflexivity].
  set (i' := mkIV (i_cons i) (i_cand i) (i_new i + pos) (i_wcons i) (i_wcand i) (i_wunf i)).
  assert (E6 : all6 i' = all6 i + pos) by (unfold all6, i'; cbn; lia).
  assert (E3' : act3 i' = act3 i + pos) by (unfold act3, i'; cbn; lia).
  constructor; simp_state; auto.
  - now apply nodup_pset.
  - unfold reg_zero. simp_state. apply regz_pset; auto. cbn [with_total p_status]. intros Hc.
    exfalso. eapply active_not_register; eauto.
  - intros k'. specialize (Hp k'). rewrite total_of_tot in *. simp_state. rewrite tot_pset.
    pose proof (A_iset k' k a i' (s_infos s)) as Ea. fold i in Ea.
    destruct (N.eqb_spec k' k) as [->|Hne].
    + rewrite N.eqb_refl in Ea. unfold bsel in Ea. cbn [with_total p_total]. lia.
    + assert (k =? k' = false) as Hf by (apply N.eqb_neq; auto). rewrite Hf in Ea. unfold bsel in Ea. lia.
  - intros sel. specialize (Hacc sel).
    pose proof (W_iset sel k a i' (s_infos s)) as Ew. fold i in Ew.
    pose proof (O_pset sel k (with_total p (p_total p + pos)) (s_pool s)) as Eo. rewrite Hg in Eo.
    cbn [oinit with_total p_owner p_init] in Eo. rewrite E6 in Ew.
    unfold bsel in *. destruct (sel a); lia.
Qed.

Lemma auth_loop_pre : forall l s0 s a t s' t',
  inv1 s0 -> au_pre s0 a s t -> pos_small l -> t + N.of_nat (length l) * W32 <= 1024 * W32 ->
  auth_loop s a l t = Ok (s', t') -> au_pre s0 a s' t'.
Proof.
  induction l as [|kp r IH]; cbn [auth_loop length]; intros s0 s a t s' t' H10 Hpre Hps Hb H.
  - inversion H; subst; auto.
  - inversion Hps as [|? ? Hpos Hr]; subst.
    rewrite Nat2N.inj_succ, N.mul_succ_l in Hb.
    mstep H. destruct x as [s1 t1]. cbn [fst snd] in H.
    match goal with H : auth_item _ _ _ _ = Ok _ |- _ =>
      destruct (auth_item_pre s0 _ _ _ _ _ _ H10 Hpre Hpos ltac:(lia) H) as [Hpre1 Et] end.
    eapply IH; [exact H10 | exact Hpre1 | exact Hr | lia | exact H].
Qed.

Lemma exec_authorize_inv2 : forall s sg a l wf s',
  inv2 s -> sg <> GOV -> pos_small l -> exec_authorize s sg a l wf = Ok s' -> inv2 s'.
Proof.
  intros s sg a l wf s' Hi Hsg Hps H.
  assert (I1 : inv1 s') by (eapply exec_authorize_inv1; eauto; apply Hi).
  pose proof Hi as [H1 Ha Hp Hr Hn Hpar].
  unfold exec_authorize in H. msteps H. signer_eq.
  match goal with H : negb _ || negb (len_ok _ _) = false |- _ => apply orb_false_iff in H; destruct H as [_ Hlen] end.
  apply negb_false_iff in Hlen. unfold len_ok in Hlen. apply N.leb_le in Hlen.
  assert (HW : 0 + N.of_nat (length l) * W32 <= 1024 * W32).
  { assert (MAX_LIST_AuthorizeForPeerParam = 1024) by reflexivity. nia. }
  assert (Hpre0 : au_pre s sg s 0).
  { constructor; auto. intros sel. specialize (Ha sel). unfold bsel. destruct (sel sg); lia. }
  match goal with H : auth_loop _ _ _ _ = Ok _ |- _ =>
    pose proof (auth_loop_pre _ s _ _ _ _ _ H1 Hpre0 Hps HW H) as [Ef Epar Hn' Hr' Hp' Hacc] end.
  unfold fin in Ef. inversion Ef as [[E1 E2 E3]].
  match goal with H : ont_transfer _ _ _ _ = Ok _ |- _ => pose proof (ont_transfer_le _ _ _ _ _ H) as Hle end.
  assert (Hn0 : n <= B) by (destruct H1 as [_ Hs]; unfold supply_ok, ont_total, B in *; rewrite E1 in Hle; lia).
  pose proof (stake_le_B s sg H1). pose proof B2.
  constructor.
  - exact I1.
  - intros sel. specialize (Hacc sel). simp_state. rewrite E2. rewrite L_deposit by lia. lia.
  - intros k. specialize (Hp' k). rewrite total_of_tot in *. simp_state. exact Hp'.
  - exact Hr'.
  - exact Hn'.
  - simp_state. now rewrite Epar.
Qed.
