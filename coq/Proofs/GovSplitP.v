(** C10: arithmetic of the fee split - what one node's split and one whole executeSplit2 credit,
    under the hypotheses the code enforces elsewhere (percentages) and the C11 invariant
    supplies (validate positions fit into TotalPos). *)
From Coq Require Import List NArith Bool Lia.
Import ListNotations.
From Ont Require Import Lib.AList Gen.GovConsts Model.Gov Model.GovSplit Proofs.GovInv.
Local Open Scope N_scope.

Lemma w64_le : forall x, w64 x <= x.
Proof. intros. unfold w64. apply N.mod_le. unfold W64. discriminate. Qed.

Lemma wsub_ex : forall a b, b <= a -> wsub a b = a - b.
Proof. intros a b H. unfold wsub. apply N.leb_le in H. now rewrite H. Qed.

Lemma div_mul_le : forall a b, b <> 0 -> (a / b) * b <= a.
Proof. intros. rewrite N.mul_comm. now apply N.mul_div_le. Qed.

(** ** executeAddressSplit *)
Lemma address_amount_bound : forall exact vp amount T, T <> 0 ->
  address_amount exact vp amount T * T <= vp * amount.
Proof.
  intros exact vp amount T HT. unfold address_amount. destruct exact.
  - pose proof (w64_le ((vp * amount) / T)). pose proof (div_mul_le (vp * amount) T HT). nia.
  - pose proof (w64_le (vp * amount)). pose proof (div_mul_le (w64 (vp * amount)) T HT). nia.
Qed.

(** ** the part shared with authorizers never exceeds the node's amount *)
Lemma shared_amount_le : forall nc nodeAmount init total pc sc0 amount,
  pc <= 100 -> sc0 <= 101 -> 100 * nodeAmount < W64 ->
  shared_amount nc nodeAmount init total pc sc0 = SOk amount -> amount <= nodeAmount.
Proof.
  intros nc nodeAmount init total pc sc0 amount Hpc Hsc Hn H. unfold shared_amount in H.
  set (sc1 := if sc0 =? 0 then pc else sc0) in *.
  set (sc := if sc1 =? 101 then 0 else sc1) in *.
  assert (Hsc' : sc <= 100).
  { unfold sc, sc1. destruct (sc0 =? 0) eqn:E0.
    - destruct (pc =? 101) eqn:E1; lia.
    - destruct (sc0 =? 101) eqn:E1; [lia|]. apply N.eqb_neq in E1. lia. }
  assert (Hw : forall c, c <= 100 -> wsub 100 c = 100 - c).
  { intros c Hc. unfold wsub. apply N.leb_le in Hc. now rewrite Hc. }
  destruct nc.
  - destruct (init + total =? 0) eqn:Ez; [discriminate|]. apply N.eqb_neq in Ez.
    inversion H; subst amount; clear H.
    assert (Hsf : (nodeAmount * total) / (init + total) <= nodeAmount).
    { apply N.div_le_upper_bound; [exact Ez|]. nia. }
    rewrite (w64_small ((nodeAmount * total) / (init + total))) by lia.
    set (sf := (nodeAmount * total) / (init + total)) in *.
    assert (Hnf : wsub nodeAmount sf = nodeAmount - sf) by (unfold wsub; apply N.leb_le in Hsf; now rewrite Hsf).
    rewrite Hnf, !Hw by assumption.
    assert (sf * (100 - sc) <= 100 * sf) by nia.
    assert ((nodeAmount - sf) * (100 - pc) <= 100 * (nodeAmount - sf)) by nia.
    rewrite (w64_small (sf * (100 - sc))) by lia.
    rewrite (w64_small ((nodeAmount - sf) * (100 - pc))) by lia.
    assert (sf * (100 - sc) / 100 <= sf) by (apply N.div_le_upper_bound; lia).
    assert ((nodeAmount - sf) * (100 - pc) / 100 <= nodeAmount - sf) by (apply N.div_le_upper_bound; lia).
    rewrite w64_small by lia. lia.
  - inversion H; subst amount; clear H. rewrite Hw by assumption.
    assert (nodeAmount * (100 - pc) <= 100 * nodeAmount) by nia.
    rewrite w64_small by lia. apply N.div_le_upper_bound; lia.
Qed.

(** ** the loop over the authorizers of one peer *)
(** sum of the validate positions of the non-owner authorizers of peer [k] *)
Fixpoint vp_sum (cons_side : bool) (k owner : N) (infos : list ((N * N) * infov)) : N :=
  match infos with
  | [] => 0
  | ((p, a), i) :: r =>
      (if (p =? k) && negb (a =? owner) then validate_pos cons_side i else 0) + vp_sum cons_side k owner r
  end.

Definition fsum (fees : list (N * N)) : N := asum (fun _ x => x) fees.

Lemma credit_sum : forall fees a amt, fsum fees + amt < W64 -> fsum (credit fees a amt) = fsum fees + amt.
Proof.
  intros fees a amt H. unfold credit, fsum in *.
  pose proof (nget_le_sum a fees). rewrite w64_small by lia.
  pose proof (nsum_aset a (nget a fees + amt) fees). lia.
Qed.

Lemma split_addresses_spec : forall exact cs k owner T amount infos fees s0 fees' s',
  split_addresses exact cs k owner T amount infos fees s0 = SOk (fees', s') ->
  forall V0, s0 * T <= V0 * amount -> V0 + vp_sum cs k owner infos <= T -> s0 <= amount ->
  fsum fees + amount < W64 + s0 -> amount < W64 -> s0 <= fsum fees ->
  s' <= amount /\ fsum fees' + s0 = fsum fees + s' /\ s0 <= s'.
Proof.
  intros exact cs k owner T amount. induction infos as [|[[p a] i] r IH]; cbn [split_addresses vp_sum];
    intros fees s0 fees' s' H V0 Hinv HV Hsa Hf Ha Hs0.
  - inversion H; subst. repeat split; lia.
  - destruct (p =? k) eqn:Epk; cbn [negb andb] in *.
    2:{ eapply IH; eauto. }
    destruct (validate_pos cs i =? 0) eqn:Ez; cbn [orb] in H.
    { apply N.eqb_eq in Ez. eapply (IH _ _ _ _ H V0); eauto; try (destruct (a =? owner); cbn [negb] in HV; lia). }
    destruct (a =? owner) eqn:Eo; cbn [negb] in *.
    { eapply (IH _ _ _ _ H V0); eauto; try lia. }
    destruct (T =? 0) eqn:ET; [discriminate|]. apply N.eqb_neq in ET.
    set (vp := validate_pos cs i) in *. set (amt := address_amount exact vp amount T) in *.
    pose proof (address_amount_bound exact vp amount T ET) as Hb. fold amt in Hb.
    assert (Hnew : (s0 + amt) * T <= (V0 + vp) * amount) by nia.
    assert (Hle : s0 + amt <= amount).
    { assert ((s0 + amt) * T <= amount * T) by nia. nia. }
    rewrite (w64_small (s0 + amt)) in H by lia.
    assert (Hc : fsum (credit fees a amt) = fsum fees + amt) by (apply credit_sum; lia).
    destruct (IH _ _ _ _ H (V0 + vp)) as (R1 & R2 & R3); lia.
Qed.

(** vp_sum of the infos of the peer, as the hypothesis "the authorizers' validate positions fit
    into TotalPos" *)
Theorem split_node_fee_spec : forall e k owner pre cu init total nodeAmount attrs infos fees fees',
  let '(pc, sc0) := costs_of k attrs in
  pc <= 100 -> sc0 <= 101 -> 100 * nodeAmount < W64 ->
  vp_sum (cu || pre) k owner infos <= total ->
  fsum fees + nodeAmount < W64 ->
  split_node_fee e k owner pre cu init total nodeAmount attrs infos fees = SOk fees' ->
  fsum fees' = fsum fees + nodeAmount.
Proof.
  intros e k owner pre cu init total nodeAmount attrs infos fees fees'.
  unfold split_node_fee. destruct (costs_of k attrs) as [pc sc0].
  intros Hpc Hsc Hn HV Hf H.
  destruct (shared_amount (e_newcost e) nodeAmount init total pc sc0) as [amount| |] eqn:Es; cbn [sbind] in H; try discriminate.
  pose proof (shared_amount_le _ _ _ _ _ _ _ Hpc Hsc Hn Es) as Hle.
  destruct (split_addresses (e_exact e) (cu || pre) k owner total amount infos fees 0) as [[fees1 sa]| |] eqn:Ea;
    cbn [sbind] in H; try discriminate.
  inversion H; subst fees'; clear H.
  assert (HW : nodeAmount < W64) by lia.
  destruct (split_addresses_spec _ _ _ _ _ _ _ _ _ _ _ Ea 0) as (R1 & R2 & _); try lia.
  assert (Hsub : wsub nodeAmount sa = nodeAmount - sa).
  { unfold wsub. assert (sa <= nodeAmount) by lia. apply N.leb_le in H. now rewrite H. }
  rewrite Hsub. rewrite credit_sum by lia. lia.
Qed.

(** ** splitting one pot among a list of weighted peers *)
Definition node_ok (prev cur : list (N * peerv)) (attrs : list (N * (N * N))) (infos : list ((N * N) * infov)) (k : N) : Prop :=
  forall p pre cu, pget k prev = Some p -> is_cons prev k = SOk pre -> is_cons cur k = SOk cu ->
  fst (costs_of k attrs) <= 100 /\ snd (costs_of k attrs) <= 101 /\
  vp_sum (cu || pre) k (p_owner p) infos <= p_total p.

Fixpoint sum_fst (l : list (N * N)) : N := match l with [] => 0 | (w, _) :: r => w + sum_fst r end.

Lemma split_nodes_spec : forall e prev cur attrs infos part ws l fees s0 fees' s',
  split_nodes e prev cur attrs infos part ws l fees s0 = SOk (fees', s') ->
  Forall (fun wk => node_ok prev cur attrs infos (snd wk)) l -> 100 * part < W64 ->
  forall W0 D0, D0 * ws <= W0 * part -> W0 + sum_fst l <= ws -> D0 <= part ->
  s0 + (part - D0) < W64 -> fsum fees + (part - D0) < W64 ->
  exists D', D0 <= D' /\ D' <= part /\ s' = s0 + (D' - D0) /\ fsum fees' = fsum fees + (D' - D0).
Proof.
  intros e prev cur attrs infos part ws. induction l as [|[w k] r IH]; cbn [split_nodes sum_fst];
    intros fees s0 fees' s' H Hok Hp W0 D0 Hinv HW HD Hs Hf.
  - inversion H; subst. exists D0. repeat split; lia.
  - destruct (ws =? 0) eqn:Ews; [discriminate|]. apply N.eqb_neq in Ews.
    inversion Hok as [|? ? Hk Hr]; subst. cbn [snd] in Hk.
    destruct (pget k prev) as [p|] eqn:Hg; [|discriminate].
    destruct (is_cons prev k) as [pre| |] eqn:E1; cbn [sbind] in H; try discriminate.
    destruct (is_cons cur k) as [cu| |] eqn:E2; cbn [sbind] in H; try discriminate.
    set (n := (part * w) / ws) in *.
    assert (Hn1 : n * ws <= part * w) by (apply div_mul_le; auto).
    assert (Hn2 : (D0 + n) * ws <= (W0 + w) * part) by nia.
    assert (Hn3 : D0 + n <= part).
    { assert ((D0 + n) * ws <= part * ws) by nia. nia. }
    rewrite (w64_small n) in H by lia.
    destruct (split_node_fee e k (p_owner p) pre cu (p_init p) (p_total p) n attrs infos fees) as [fees1| |] eqn:Ef;
      cbn [sbind] in H; try discriminate.
    destruct (Hk p pre cu Hg E1 E2) as (Hc1 & Hc2 & Hc3).
    pose proof (split_node_fee_spec e k (p_owner p) pre cu (p_init p) (p_total p) n attrs infos fees fees1) as Hspec.
    destruct (costs_of k attrs) as [pc sc0]. cbn [fst snd] in *.
    assert (Ef1 : fsum fees1 = fsum fees + n) by (apply Hspec; auto; lia).
    rewrite (w64_small (s0 + n)) in H by lia.
    destruct (IH _ _ _ _ H Hr Hp (W0 + w) (D0 + n)) as (D' & G1 & G2 & G3 & G4); try lia.
    exists D'. repeat split; lia.
Qed.

(** ** executeSplit2 *)
Lemma wsum64_exact_gen : forall l acc, acc + sum_fst l < W64 ->
  fold_left (fun a (x : N * N) => w64 (a + fst x)) l acc = acc + sum_fst l.
Proof.
  induction l as [|[w k] r IH]; cbn [fold_left sum_fst fst]; intros acc H; [lia|].
  rewrite (w64_small (acc + w)) by lia. rewrite IH by lia. lia.
Qed.

Lemma wsum64_exact : forall l, sum_fst l < W64 -> wsum64 l = sum_fst l.
Proof. intros l H. unfold wsum64. now rewrite wsum64_exact_gen by lia. Qed.

Lemma sum_fst_firstn : forall n l, sum_fst (firstn n l) <= sum_fst l.
Proof.
  induction n as [|n IH]; destruct l as [|[w k] r]; cbn [firstn sum_fst]; try lia.
  specialize (IH r). lia.
Qed.

Lemma sum_fst_skipn : forall n l, sum_fst (skipn n l) <= sum_fst l.
Proof.
  induction n as [|n IH]; destruct l as [|[w k] r]; cbn [skipn sum_fst]; try lia.
  specialize (IH r). lia.
Qed.

Lemma div100_add : forall a b, a / 100 + b / 100 <= (a + b) / 100.
Proof.
  intros a b. apply N.div_le_lower_bound; [lia|].
  pose proof (N.mul_div_le a 100). pose proof (N.mul_div_le b 100). lia.
Qed.

Lemma pct_le : forall x p, p <= 100 -> (x * p) / 100 <= x.
Proof. intros x p Hp. apply N.div_le_upper_bound; [lia|]. nia. Qed.

Lemma Forall_firstn_ : forall {A} (P : A -> Prop) n l, Forall P l -> Forall P (firstn n l).
Proof.
  intros A P n. induction n as [|n IH]; intros l H; destruct l; cbn [firstn]; auto.
  inversion H; subst. constructor; auto.
Qed.

Lemma Forall_skipn_ : forall {A} (P : A -> Prop) n l, Forall P l -> Forall P (skipn n l).
Proof.
  intros A P n. induction n as [|n IH]; intros l H; destruct l; cbn [skipn]; auto.
  inversion H; subst. auto.
Qed.

Lemma curve_all_snd : forall e avg l ss, curve_all e avg l = SOk ss -> map snd ss = map snd l.
Proof.
  intros e avg. induction l as [|[st k] r IH]; cbn [curve_all]; intros ss H.
  - inversion H; subst. reflexivity.
  - destruct (split_curve (e_Yi e) st avg (e_yita e)) as [s| |]; cbn [sbind] in H; try discriminate.
    destruct (curve_all e avg r) as [rest| |] eqn:Er; cbn [sbind] in H; try discriminate.
    inversion H; subst ss. cbn [map snd]. f_equal. now apply IH.
Qed.

Theorem execute_split2_spec : forall e prev cur attrs infos fees balance splitFee o,
  execute_split2 e prev cur attrs infos fees balance splitFee = SOk o ->
  e_A e + e_B e <= 100 -> e_dappFee e <= 100 ->
  100 * (balance - splitFee) < W64 -> fsum fees + (balance - splitFee) < W64 ->
  Forall (fun wk => node_ok prev cur attrs infos (snd wk)) (sort_desc (candidates prev)) ->
  sum_fst (sort_desc (candidates prev)) < W64 ->
  (forall avg ss, curve_all e avg (firstn (N.to_nat (e_K e)) (sort_desc (candidates prev))) = SOk ss -> sum_fst ss < W64) ->
  so_splitSum o + so_dapp o <= balance - splitFee /\
  fsum (so_fees o) = fsum fees + so_splitSum o /\
  splitFee + so_splitSum o <= balance - so_dapp o.
Proof.
  intros e prev cur attrs infos fees balance splitFee o H HAB Hdf Hinc Hfees Hok Hst Hcv.
  unfold execute_split2 in H.
  destruct (balance <? splitFee) eqn:Eb; [discriminate|]. apply N.ltb_ge in Eb.
  set (income := balance - splitFee) in *.
  set (dapp := if e_gas e then income * e_dappFee e / 100 else 0) in *.
  assert (Hdapp : dapp <= income) by (unfold dapp; destruct (e_gas e); [now apply pct_le | lia]).
  destruct (e_gas e && (balance <? w64 dapp)); [discriminate|].
  destruct (income <? w64 dapp); [discriminate|].
  destruct (income <? dapp); [discriminate|].
  set (nI := income - dapp) in *.
  set (cands := sort_desc (candidates prev)) in *.
  destruct (len_N cands <? e_K e); [discriminate|].
  set (top := firstn (N.to_nat (e_K e)) cands) in *.
  assert (Htop : sum_fst top < W64) by (pose proof (sum_fst_firstn (N.to_nat (e_K e)) cands); unfold top; lia).
  destruct (wsum64 top <? e_K e).
  { inversion H; subst o. cbn [so_splitSum so_dapp so_fees]. repeat split; lia. }
  destruct (e_K e =? 0); [discriminate|].
  destruct (curve_all e (wsum64 top / e_K e) top) as [ss| |] eqn:Ec; cbn [sbind] in H; try discriminate.
  pose proof (Hcv _ _ Ec) as Hss.
  destruct (wsum64 ss =? 0) eqn:Ez; [discriminate|].
  set (part1 := nI * e_A e / 100) in *. set (part2 := nI * e_B e / 100) in *.
  assert (Hparts : part1 + part2 <= nI).
  { unfold part1, part2. pose proof (div100_add (nI * e_A e) (nI * e_B e)).
    assert ((nI * e_A e + nI * e_B e) / 100 <= nI) by (rewrite <- N.mul_add_distr_l; now apply pct_le). lia. }
  assert (HnI : nI <= income) by (unfold nI; lia).
  destruct (split_nodes e prev cur attrs infos part1 (wsum64 ss) ss fees 0) as [[fees1 s1]| |] eqn:E1; cbn [sbind] in H; try discriminate.
  destruct (split_nodes_spec _ _ _ _ _ _ _ _ _ _ _ _ E1) with (W0 := 0) (D0 := 0) as (D1 & _ & G2 & G3 & G4); try lia.
  { apply (Forall_map snd (node_ok prev cur attrs infos)). rewrite (curve_all_snd _ _ _ _ Ec).
    apply (Forall_map snd (node_ok prev cur attrs infos)). now apply Forall_firstn_. }
  { rewrite wsum64_exact by auto. lia. }
  rewrite N.sub_0_r, N.add_0_l in *. subst s1.
  set (len := if len_N cands <=? e_candSplitNum e then length cands else N.to_nat (e_candSplitNum e)) in *.
  set (rest := skipn (N.to_nat (e_K e)) (firstn len cands)) in *.
  assert (Hrest : sum_fst rest < W64).
  { pose proof (sum_fst_skipn (N.to_nat (e_K e)) (firstn len cands)). pose proof (sum_fst_firstn len cands). unfold rest. lia. }
  destruct (wsum64 rest =? 0).
  { inversion H; subst o. cbn [so_splitSum so_dapp so_fees]. repeat split; lia. }
  destruct (split_nodes e prev cur attrs infos part2 (wsum64 rest) rest fees1 D1) as [[fees2 s2]| |] eqn:E2; cbn [sbind] in H; try discriminate.
  destruct (split_nodes_spec _ _ _ _ _ _ _ _ _ _ _ _ E2) with (W0 := 0) (D0 := 0) as (D2 & _ & F2 & F3 & F4); try lia.
  { apply Forall_skipn_. now apply Forall_firstn_. }
  { rewrite wsum64_exact by auto. lia. }
  rewrite N.sub_0_r in *. inversion H; subst o. cbn [so_splitSum so_dapp so_fees]. repeat split; lia.
Qed.

(** ** splitCurve stays below the largest table entry, so the weights of the consensus part
    cannot wrap when summed *)
Lemma Xi_len : len_N Xi = 101.
Proof. vm_compute. reflexivity. Qed.

Lemma Xi_spec : forall j, j <= 100 -> nth_N Xi j = j * 100000.
Proof.
  intros j Hj.
  assert (Hall : forallb (fun n => nth_N Xi (N.of_nat n) =? N.of_nat n * 100000) (seq 0 101) = true)
    by (vm_compute; reflexivity).
  rewrite forallb_forall in Hall. specialize (Hall (N.to_nat j)).
  rewrite N2Nat.id in Hall. apply N.eqb_eq. apply Hall. apply in_seq. lia.
Qed.

Lemma nth_N_bound : forall (l : list N) j b, 0 < b -> Forall (fun y => y < b) l -> nth_N l j < b.
Proof.
  intros l j b Hb Hl. unfold nth_N. generalize (N.to_nat j). induction l as [|y r IH]; intros n; destruct n; cbn; auto.
  - inversion Hl; auto.
  - inversion Hl; auto.
Qed.

Lemma split_curve_bound : forall Yi pos avg yita s,
  Forall (fun y => y < W32) Yi -> split_curve Yi pos avg yita = SOk s -> s < W32.
Proof.
  intros Yi pos avg yita s HY H. unfold split_curve in H.
  destruct (avg =? 0); [discriminate|].
  destruct (w64 (avg * 10) =? 0); [discriminate|].
  set (xi0 := w64 (w64 (w64 (PRECISE * yita) * 2) * pos) / w64 (avg * 10)) in *.
  change (PRECISE / 10) with 100000 in H. rewrite Xi_len in H. change (101 - 2) with 99 in H. change (101 - 1) with 100 in H.
  set (index0 := xi0 / 100000) in *.
  assert (Hix : exists index xi, (if 99 <? index0 then (99, nth_N Xi 100) else (index0, xi0)) = (index, xi) /\
                 index <= 99 /\ index * 100000 <= xi /\ xi <= (index + 1) * 100000).
  { destruct (99 <? index0) eqn:E.
    - exists 99, (nth_N Xi 100). rewrite Xi_spec by lia. repeat split; lia.
    - apply N.ltb_ge in E. exists index0, xi0. repeat split; auto.
      + unfold index0. rewrite N.mul_comm. apply N.mul_div_le. lia.
      + unfold index0. pose proof (N.mul_succ_div_gt xi0 100000 ltac:(lia)). lia. }
  destruct Hix as (index & xi & Eix & Hi1 & Hi2 & Hi3). rewrite Eix in H.
  destruct (len_N Yi <=? index + 1); [discriminate|].
  rewrite !Xi_spec in H by lia.
  set (y1 := nth_N Yi (index + 1)) in *. set (y0 := nth_N Yi index) in *.
  assert (Hy1 : y1 < W32) by (apply nth_N_bound; [unfold W32; reflexivity | auto]).
  assert (Hy0 : y0 < W32) by (apply nth_N_bound; [unfold W32; reflexivity | auto]).
  assert (HW : W32 * 20000000 < W64) by (vm_compute; reflexivity).
  set (x0 := index * 100000) in *. set (x1 := (index + 1) * 100000) in *.
  assert (Hx : x1 = x0 + 100000) by (unfold x0, x1; lia).
  assert (Hx1 : x1 <= 10000000) by (unfold x1; lia).
  assert (P1 : y1 * xi < W32 * 10000000) by nia.
  assert (P2 : y0 * x1 < W32 * 10000000) by nia.
  assert (P3 : y0 * xi <= y0 * x1) by nia.
  assert (P4 : y1 * x0 <= y1 * xi) by nia.
  rewrite (w64_small (y1 * xi)), (w64_small (y0 * x1)), (w64_small (y0 * xi)), (w64_small (y1 * x0)) in H by lia.
  rewrite (w64_small (y1 * xi + y0 * x1)) in H by lia.
  rewrite (wsub_ex (y1 * xi + y0 * x1) (y0 * xi)) in H by lia.
  rewrite (wsub_ex (y1 * xi + y0 * x1 - y0 * xi) (y1 * x0)) in H by lia.
  rewrite (wsub_ex x1 x0) in H by lia.
  replace (x1 - x0) with 100000 in H by lia. cbn [N.eqb] in H.
  change (100000 =? 0) with false in H. inversion H; subst s; clear H.
  apply N.div_lt_upper_bound; [lia|].
  assert (y1 * xi + y0 * x1 - y0 * xi - y1 * x0 = y1 * (xi - x0) + y0 * (x1 - xi)) by nia.
  assert (y1 * (xi - x0) + y0 * (x1 - xi) < 100000 * W32).
  { assert (y1 * (xi - x0) <= (W32 - 1) * (xi - x0)) by nia.
    assert (y0 * (x1 - xi) <= (W32 - 1) * (x1 - xi)) by nia.
    assert ((W32 - 1) * (xi - x0) + (W32 - 1) * (x1 - xi) = (W32 - 1) * 100000) by nia.
    assert (0 < W32) by (unfold W32; reflexivity). nia. }
  lia.
Qed.

Lemma curve_all_bound : forall e avg l ss, Forall (fun y => y < W32) (e_Yi e) ->
  curve_all e avg l = SOk ss -> sum_fst ss + N.of_nat (length l) <= N.of_nat (length l) * W32.
Proof.
  intros e avg. induction l as [|[st k] r IH]; cbn [curve_all]; intros ss HY H.
  - inversion H; subst. cbn. lia.
  - destruct (split_curve (e_Yi e) st avg (e_yita e)) as [s| |] eqn:Es; cbn [sbind] in H; try discriminate.
    destruct (curve_all e avg r) as [rest| |] eqn:Er; cbn [sbind] in H; try discriminate.
    inversion H; subst ss. cbn [sum_fst length]. rewrite Nat2N.inj_succ, N.mul_succ_l.
    pose proof (split_curve_bound _ _ _ _ _ HY Es). specialize (IH rest HY eq_refl). lia.
Qed.

Theorem execute_split2_le_income : forall e prev cur attrs infos fees balance splitFee o,
  execute_split2 e prev cur attrs infos fees balance splitFee = SOk o ->
  e_A e + e_B e <= 100 -> e_dappFee e <= 100 ->
  Forall (fun y => y < W32) (e_Yi e) -> e_K e < W32 ->
  100 * (balance - splitFee) < W64 -> fsum fees + (balance - splitFee) < W64 ->
  Forall (fun wk => node_ok prev cur attrs infos (snd wk)) (sort_desc (candidates prev)) ->
  sum_fst (sort_desc (candidates prev)) < W64 ->
  so_splitSum o + so_dapp o <= balance - splitFee /\
  fsum (so_fees o) = fsum fees + so_splitSum o /\
  splitFee + so_splitSum o <= balance - so_dapp o.
Proof.
  intros e prev cur attrs infos fees balance splitFee o H HAB Hdf HY HK Hinc Hfees Hok Hst.
  eapply execute_split2_spec; eauto.
  intros avg ss Hc. pose proof (curve_all_bound _ _ _ _ HY Hc) as Hb.
  assert (Hlen : N.of_nat (length (firstn (N.to_nat (e_K e)) (sort_desc (candidates prev)))) <= e_K e).
  { rewrite firstn_length. lia. }
  assert (W32 * W32 = W64) by (vm_compute; reflexivity).
  set (n := N.of_nat (length (firstn (N.to_nat (e_K e)) (sort_desc (candidates prev))))) in *.
  destruct (N.eq_dec n 0) as [E|E]; [rewrite E in Hb; assert (0 < W64) by (vm_compute; reflexivity); lia|].
  assert (n * W32 <= (W32 - 1) * W32) by nia. nia.
Qed.

(** ** withdrawable: the recorded fees equal the sum of the per-address records and never exceed
    the ONG held by governance *)
Definition fee_inv (st : fee_state) : Prop :=
  fsum (fs_fees st) = fs_splitFee st /\ fs_splitFee st <= fs_balance st.

Theorem settle_fee_inv : forall e prev cur attrs infos st st',
  settle e prev cur attrs infos st = SOk st' -> fee_inv st ->
  e_A e + e_B e <= 100 -> e_dappFee e <= 100 ->
  Forall (fun y => y < W32) (e_Yi e) -> e_K e < W32 ->
  100 * (fs_balance st - fs_splitFee st) < W64 -> fs_balance st < W64 ->
  Forall (fun wk => node_ok prev cur attrs infos (snd wk)) (sort_desc (candidates prev)) ->
  sum_fst (sort_desc (candidates prev)) < W64 ->
  fee_inv st'.
Proof.
  intros e prev cur attrs infos st st' H [I1 I2] HAB Hdf HY HK Hinc Hbal Hok Hst.
  unfold settle in H.
  destruct (execute_split2 e prev cur attrs infos (fs_fees st) (fs_balance st) (fs_splitFee st)) as [o| |] eqn:E;
    cbn [sbind] in H; try discriminate.
  inversion H; subst st'; clear H.
  destruct (execute_split2_le_income _ _ _ _ _ _ _ _ _ E HAB Hdf HY HK Hinc) as (G1 & G2 & G3); auto; try lia.
  unfold fee_inv. cbn [fs_fees fs_splitFee fs_balance].
  rewrite w64_small by lia. split; lia.
Qed.

Theorem withdraw_fee_inv : forall st a st', withdraw_fee st a = SOk st' -> fee_inv st -> fee_inv st'.
Proof.
  intros st a st' H [I1 I2]. unfold withdraw_fee in H.
  destruct (fs_balance st <? nget a (fs_fees st)) eqn:E1; [discriminate|].
  destruct (fs_splitFee st <? nget a (fs_fees st)) eqn:E2; [discriminate|].
  apply N.ltb_ge in E1, E2. inversion H; subst st'; clear H.
  unfold fee_inv, fsum in *. cbn [fs_fees fs_splitFee fs_balance].
  pose proof (asum_adel N.eqb Neqb_spec (fun _ x => x) a (fs_fees st)) as Ed.
  rewrite <- nget_oval in Ed. split; lia.
Qed.

(** and what is paid to an address by WithdrawFee is exactly its record *)
Theorem withdraw_fee_pays_record : forall st a st', withdraw_fee st a = SOk st' ->
  fs_balance st' + nget a (fs_fees st) = fs_balance st.
Proof.
  intros st a st' H. unfold withdraw_fee in H.
  destruct (fs_balance st <? nget a (fs_fees st)) eqn:E1; [discriminate|].
  destruct (fs_splitFee st <? nget a (fs_fees st)); [discriminate|].
  apply N.ltb_ge in E1. inversion H; subst st'. cbn. lia.
Qed.
