(** C14: the cycle half — what the detector sees and what it misses, what bounds the recursion of
    Serialize on an arbitrary (possibly cyclic) heap value, and the divergence of BuildParamToNative
    on the witness w = [1, w]. *)
From Coq Require Import List Bool Arith NArith ZArith Lia ZifyN ZifyNat ZifyBool.
Import ListNotations.
From Ont Require Import Lib.Bytes Model.NeoInt Gen.VmValueConsts Model.VmValue Proofs.NeoInt Proofs.VmValueLib Proofs.VmValueCodec.
Local Open Scope N_scope.

(** * A value with a reachable cycle has no finite unfolding *)
Lemma map_opt_in {A B} (g : A -> option B) l r x : map_opt g l = Some r -> In x l -> exists y, g x = Some y.
Proof.
  revert r. induction l as [|a l IH]; cbn; intros r E Hx; [tauto|].
  destruct (g a) eqn:Ea; [|discriminate]. destruct (map_opt g l) eqn:El; [|discriminate].
  destruct Hx as [->|Hx]; [eauto|]. eapply IH; [reflexivity|exact Hx].
Qed.

Lemma map_opt_ext_in {A B} (g g' : A -> option B) l r :
  (forall x y, In x l -> g x = Some y -> g' x = Some y) -> map_opt g l = Some r -> map_opt g' l = Some r.
Proof.
  revert r. induction l as [|a l IH]; cbn; intros r H E; [exact E|].
  destruct (g a) eqn:Ea; [|discriminate]. destruct (map_opt g l) eqn:El; [|discriminate].
  rewrite (H a b (or_introl eq_refl) Ea). rewrite (IH l0); [exact E| |reflexivity].
  intros x y Hx. apply H. right. exact Hx.
Qed.

Lemma unfold_S h f v : unfold h (S f) v =
    match v with
    | HPrim p => Some (TPrim p)
    | HArr a => option_map TArr (map_opt (unfold h f) (get_list h a))
    | HStruct a => option_map TStruct (map_opt (unfold h f) (get_list h a))
    | HMap a => option_map TMap
        (map_opt (fun e : prim * hval => option_map (fun t => (fst e, t)) (unfold h f (snd e))) (get_map h a))
    | HInterop => Some TInterop
    end.
Proof. reflexivity. Qed.

Lemma unfold_mono h : forall f v t, unfold h f v = Some t -> unfold h (S f) v = Some t.
Proof.
  induction f as [|f IH]; intros v t E; [discriminate|].
  rewrite unfold_S in E. rewrite (unfold_S h (S f)).
  destruct v as [p|a|a|a|]; try exact E.
  - destruct (map_opt (unfold h f) (get_list h a)) as [r|] eqn:Er; [|discriminate].
    rewrite (map_opt_ext_in (unfold h f) (unfold h (S f)) _ r); [exact E| |exact Er]. intros x y _. apply IH.
  - destruct (map_opt (unfold h f) (get_list h a)) as [r|] eqn:Er; [|discriminate].
    rewrite (map_opt_ext_in (unfold h f) (unfold h (S f)) _ r); [exact E| |exact Er]. intros x y _. apply IH.
  - destruct (map_opt _ (get_map h a)) as [r|] eqn:Er; [|discriminate].
    rewrite (map_opt_ext_in (fun e : prim * hval => option_map (fun t => (fst e, t)) (unfold h f (snd e))) (fun e : prim * hval => option_map (fun t => (fst e, t)) (unfold h (S f) (snd e))) _ r); [exact E| |exact Er].
    intros x y _ Hx. destruct (unfold h f (snd x)) eqn:Eu; [|discriminate]. rewrite (IH _ _ Eu). exact Hx.
Qed.

Lemma unfold_mono_le h f f' v t : (f <= f')%nat -> unfold h f v = Some t -> unfold h f' v = Some t.
Proof. induction 1; [tauto|]. intro E. apply unfold_mono. auto. Qed.

Lemma unfold_child h f v t w : unfold h f v = Some t -> child h v w ->
  exists f' t', f = S f' /\ unfold h f' w = Some t'.
Proof.
  destruct f as [|f]; [discriminate|]. intros E Hc. exists f.
  destruct v as [p|a|a|a|]; cbn [child] in Hc; try tauto; cbn [unfold] in E.
  - destruct (map_opt (unfold h f) (get_list h a)) as [r|] eqn:Er; [|discriminate].
    destruct (map_opt_in _ _ _ _ Er Hc) as [y Hy]. eauto.
  - destruct (map_opt (unfold h f) (get_list h a)) as [r|] eqn:Er; [|discriminate].
    destruct (map_opt_in _ _ _ _ Er Hc) as [y Hy]. eauto.
  - destruct (map_opt _ (get_map h a)) as [r|] eqn:Er; [|discriminate].
    apply in_map_iff in Hc. destruct Hc as [e [<- He]].
    destruct (map_opt_in _ _ _ _ Er He) as [y Hy]. destruct (unfold h f (snd e)) eqn:Eu; [eauto|discriminate].
Qed.

Lemma unfold_reach h v w : reach h v w -> forall f t, unfold h f v = Some t -> exists f' t', (f' <= f)%nat /\ unfold h f' w = Some t'.
Proof.
  induction 1 as [v|v w x Hc _ IH]; intros f t E; [exists f, t; split; [lia|exact E]|].
  destruct (unfold_child _ _ _ _ _ E Hc) as [f1 [t1 [-> E1]]].
  destruct (IH _ _ E1) as [f2 [t2 [Hle E2]]]. exists f2, t2. split; [lia|exact E2].
Qed.

Lemma unfold_reach1 h v w f t : reach1 h v w -> unfold h f v = Some t -> exists f' t', (f' < f)%nat /\ unfold h f' w = Some t'.
Proof.
  intros [v0 w0 x Hc Hr] E.
  destruct (unfold_child _ _ _ _ _ E Hc) as [f1 [t1 [-> E1]]].
  destruct (unfold_reach _ _ _ Hr _ _ E1) as [f2 [t2 [Hle E2]]]. exists f2, t2. split; [lia|exact E2].
Qed.

Lemma self_reaching_no_unfold h w : reach1 h w w -> forall f, unfold h f w = None.
Proof.
  intros Hc f. induction f as [f IH] using lt_wf_ind.
  destruct (unfold h f w) as [t|] eqn:E; [|reflexivity].
  destruct (unfold_reach1 _ _ _ _ _ Hc E) as [f' [t' [Hlt E']]]. rewrite (IH f' Hlt) in E'. discriminate.
Qed.

Theorem cyclic_no_unfold h v : cyclic h v -> forall f, unfold h f v = None.
Proof.
  intros [w [Hr Hc]] f. destruct (unfold h f v) as [t|] eqn:E; [|reflexivity].
  destruct (unfold_reach _ _ _ Hr _ _ E) as [f' [t' [_ E']]]. rewrite (self_reaching_no_unfold _ _ Hc) in E'. discriminate.
Qed.

(** Serialize never succeeds on a value with a reachable cycle, whatever the fuel (stack) *)
Theorem serialize_cyclic_never_ok h base v : cyclic h v -> forall f s, r_ok (h_serialize h base f v s) = None.
Proof.
  intros Hc f s. destruct (r_ok (h_serialize h base f v s)) as [s'|] eqn:E; [|reflexivity].
  destruct (serialize_enc _ _ _ _ _ _ E) as [t [Hu _]]. rewrite (cyclic_no_unfold _ _ Hc) in Hu. discriminate.
Qed.

(** the same for BuildParamToNative *)
Lemma build_list_unfold h f rec l :
  (forall x s s', r_ok (rec x s) = Some s' -> exists t, unfold h f x = Some t) ->
  forall s s', r_ok (ser_list rec l s) = Some s' -> exists ts, map_opt (unfold h f) l = Some ts.
Proof.
  intro Hrec. induction l as [|x l IH]; cbn [ser_list map_opt]; intros s s' E; [eauto|].
  rewrite r_ok_bind in E. destruct (r_ok (rec x s)) as [s1|] eqn:E1; [|discriminate].
  destruct (Hrec _ _ _ E1) as [t Ht]. destruct (IH _ _ E) as [ts Hts]. rewrite Ht, Hts. eauto.
Qed.

Lemma build_ok_unfold h : forall f v s s', r_ok (h_build h f v s) = Some s' -> exists t, unfold h f v = Some t.
Proof.
  induction f as [|f IH]; intros v s s' E; [discriminate|].
  cbn [h_build] in E. rewrite guarded_ok in E. destruct (fst (detect_top h v)); [|discriminate].
  destruct v as [p|a|a|a|]; cbn [build_body] in E; cbn [unfold].
  - eauto.
  - destruct (build_list_unfold h f _ _ (IH) _ _ E) as [ts Hts]. rewrite Hts. cbn. eauto.
  - destruct (build_list_unfold h f _ _ (IH) _ _ E) as [ts Hts]. rewrite Hts. cbn. eauto.
  - discriminate.
  - discriminate.
Qed.

Theorem build_cyclic_never_ok h v : cyclic h v -> forall f s, r_ok (h_build h f v s) = None.
Proof.
  intros Hc f s. destruct (r_ok (h_build h f v s)) as [s'|] eqn:E; [|reflexivity].
  destruct (build_ok_unfold _ _ _ _ _ E) as [t Hu]. rewrite (cyclic_no_unfold _ _ Hc) in Hu. discriminate.
Qed.
