(** C14: the cycle half — what the detector sees and what it misses, what bounds the recursion of
    Serialize on an arbitrary (possibly cyclic) heap value, and the divergence of BuildParamToNative
    on the witness w = [1, w]. *)
From Coq Require Import List Bool Arith NArith ZArith Lia ZifyN ZifyNat ZifyBool.
Import ListNotations.
From Ont Require Import Lib.Bytes Model.NeoInt Gen.VmValueConsts Model.VmValue Proofs.NeoInt Proofs.VmValueLib Proofs.VmValueCodec.
Local Open Scope N_scope.

(** * A value with a reachable cycle has no finite unfolding *)
Lemma map_opt_in {A B} (g : A -> option B) l r x : map_opt g l = Some r -> In x l -> exists y, g x = Some y.
Proof.
  revert r. induction l as [|a l IH]; cbn; intros r E Hx; [tauto|].
  destruct (g a) eqn:Ea; [|discriminate]. destruct (map_opt g l) eqn:El; [|discriminate].
  destruct Hx as [->|Hx]; [eauto|]. eapply IH; [reflexivity|exact Hx].
Qed.

Lemma map_opt_ext_in {A B} (g g' : A -> option B) l r :
  (forall x y, In x l -> g x = Some y -> g' x = Some y) -> map_opt g l = Some r -> map_opt g' l = Some r.
Proof.
  revert r. induction l as [|a l IH]; cbn; intros r H E; [exact E|].
  destruct (g a) eqn:Ea; [|discriminate]. destruct (map_opt g l) eqn:El; [|discriminate].
  rewrite (H a b (or_introl eq_refl) Ea). rewrite (IH l0); [exact E| |reflexivity].
  intros x y Hx. apply H. right. exact Hx.
Qed.

Lemma unfold_S h f v : unfold h (S f) v =
    match v with
    | HPrim p => Some (TPrim p)
    | HArr a => option_map TArr (map_opt (unfold h f) (get_list h a))
    | HStruct a => option_map TStruct (map_opt (unfold h f) (get_list h a))
    | HMap a => option_map TMap
        (map_opt (fun e : prim * hval => option_map (fun t => (fst e, t)) (unfold h f (snd e))) (get_map h a))
    | HInterop => Some TInterop
    end.
Proof. reflexivity. Qed.

Lemma unfold_mono h : forall f v t, unfold h f v = Some t -> unfold h (S f) v = Some t.
Proof.
  induction f as [|f IH]; intros v t E; [discriminate|].
  rewrite unfold_S in E. rewrite (unfold_S h (S f)).
  destruct v as [p|a|a|a|]; try exact E.
  - destruct (map_opt (unfold h f) (get_list h a)) as [r|] eqn:Er; [|discriminate].
    rewrite (map_opt_ext_in (unfold h f) (unfold h (S f)) _ r); [exact E| |exact Er]. intros x y _. apply IH.
  - destruct (map_opt (unfold h f) (get_list h a)) as [r|] eqn:Er; [|discriminate].
    rewrite (map_opt_ext_in (unfold h f) (unfold h (S f)) _ r); [exact E| |exact Er]. intros x y _. apply IH.
  - destruct (map_opt _ (get_map h a)) as [r|] eqn:Er; [|discriminate].
    rewrite (map_opt_ext_in (fun e : prim * hval => option_map (fun t => (fst e, t)) (unfold h f (snd e))) (fun e : prim * hval => option_map (fun t => (fst e, t)) (unfold h (S f) (snd e))) _ r); [exact E| |exact Er].
    intros x y _ Hx. destruct (unfold h f (snd x)) eqn:Eu; [|discriminate]. rewrite (IH _ _ Eu). exact Hx.
Qed.

Lemma unfold_mono_le h f f' v t : (f <= f')%nat -> unfold h f v = Some t -> unfold h f' v = Some t.
Proof. induction 1; [tauto|]. intro E. apply unfold_mono. auto. Qed.

Lemma unfold_child h f v t w : unfold h f v = Some t -> child h v w ->
  exists f' t', f = S f' /\ unfold h f' w = Some t'.
Proof.
  destruct f as [|f]; [discriminate|]. intros E Hc. exists f.
  destruct v as [p|a|a|a|]; cbn [child] in Hc; try tauto; cbn [unfold] in E.
  - destruct (map_opt (unfold h f) (get_list h a)) as [r|] eqn:Er; [|discriminate].
    destruct (map_opt_in _ _ _ _ Er Hc) as [y Hy]. eauto.
  - destruct (map_opt (unfold h f) (get_list h a)) as [r|] eqn:Er; [|discriminate].
    destruct (map_opt_in _ _ _ _ Er Hc) as [y Hy]. eauto.
  - destruct (map_opt _ (get_map h a)) as [r|] eqn:Er; [|discriminate].
    apply in_map_iff in Hc. destruct Hc as [e [<- He]].
    destruct (map_opt_in _ _ _ _ Er He) as [y Hy]. destruct (unfold h f (snd e)) eqn:Eu; [eauto|discriminate].
Qed.

Lemma unfold_reach h v w : reach h v w -> forall f t, unfold h f v = Some t -> exists f' t', (f' <= f)%nat /\ unfold h f' w = Some t'.
Proof.
  induction 1 as [v|v w x Hc _ IH]; intros f t E; [exists f, t; split; [lia|exact E]|].
  destruct (unfold_child _ _ _ _ _ E Hc) as [f1 [t1 [-> E1]]].
  destruct (IH _ _ E1) as [f2 [t2 [Hle E2]]]. exists f2, t2. split; [lia|exact E2].
Qed.

Lemma unfold_reach1 h v w f t : reach1 h v w -> unfold h f v = Some t -> exists f' t', (f' < f)%nat /\ unfold h f' w = Some t'.
Proof.
  intros [v0 w0 x Hc Hr] E.
  destruct (unfold_child _ _ _ _ _ E Hc) as [f1 [t1 [-> E1]]].
  destruct (unfold_reach _ _ _ Hr _ _ E1) as [f2 [t2 [Hle E2]]]. exists f2, t2. split; [lia|exact E2].
Qed.

Lemma self_reaching_no_unfold h w : reach1 h w w -> forall f, unfold h f w = None.
Proof.
  intros Hc f. induction f as [f IH] using lt_wf_ind.
  destruct (unfold h f w) as [t|] eqn:E; [|reflexivity].
  destruct (unfold_reach1 _ _ _ _ _ Hc E) as [f' [t' [Hlt E']]]. rewrite (IH f' Hlt) in E'. discriminate.
Qed.

Theorem cyclic_no_unfold h v : cyclic h v -> forall f, unfold h f v = None.
Proof.
  intros [w [Hr Hc]] f. destruct (unfold h f v) as [t|] eqn:E; [|reflexivity].
  destruct (unfold_reach _ _ _ Hr _ _ E) as [f' [t' [_ E']]]. rewrite (self_reaching_no_unfold _ _ Hc) in E'. discriminate.
Qed.

(** Serialize never succeeds on a value with a reachable cycle, whatever the fuel (stack) *)
Theorem serialize_cyclic_never_ok h base v : cyclic h v -> forall f s, r_ok (h_serialize h base f v s) = None.
Proof.
  intros Hc f s. destruct (r_ok (h_serialize h base f v s)) as [s'|] eqn:E; [|reflexivity].
  destruct (serialize_enc _ _ _ _ _ _ E) as [t [Hu _]]. rewrite (cyclic_no_unfold _ _ Hc) in Hu. discriminate.
Qed.

(** the same for BuildParamToNative *)
Lemma build_list_unfold h f rec l :
  (forall x s s', r_ok (rec x s) = Some s' -> exists t, unfold h f x = Some t) ->
  forall s s', r_ok (ser_list rec l s) = Some s' -> exists ts, map_opt (unfold h f) l = Some ts.
Proof.
  intro Hrec. induction l as [|x l IH]; cbn [ser_list map_opt]; intros s s' E; [eauto|].
  rewrite r_ok_bind in E. destruct (r_ok (rec x s)) as [s1|] eqn:E1; [|discriminate].
  destruct (Hrec _ _ _ E1) as [t Ht]. destruct (IH _ _ E) as [ts Hts]. rewrite Ht, Hts. eauto.
Qed.

Lemma build_ok_unfold h : forall f v s s', r_ok (h_build h f v s) = Some s' -> exists t, unfold h f v = Some t.
Proof.
  induction f as [|f IH]; intros v s s' E; [discriminate|].
  cbn [h_build] in E. rewrite guarded_ok in E. destruct (fst (detect_top h v)); [|discriminate].
  destruct v as [p|a|a|a|]; cbn [build_body] in E; cbn [unfold].
  - eauto.
  - destruct (build_list_unfold h f _ _ (IH) _ _ E) as [ts Hts]. rewrite Hts. cbn. eauto.
  - destruct (build_list_unfold h f _ _ (IH) _ _ E) as [ts Hts]. rewrite Hts. cbn. eauto.
  - discriminate.
  - discriminate.
Qed.

Theorem build_cyclic_never_ok h v : cyclic h v -> forall f s, r_ok (h_build h f v s) = None.
Proof.
  intros Hc f s. destruct (r_ok (h_build h f v s)) as [s'|] eqn:E; [|reflexivity].
  destruct (build_ok_unfold _ _ _ _ _ E) as [t Hu]. rewrite (cyclic_no_unfold _ _ Hc) in Hu. discriminate.
Qed.

(** * The detector *)
Lemma detect_S h rem vis v : detect h (S rem) vis v =
    match v with
    | HArr a | HStruct a =>
      match get_list h a with
      | [] => (true, false)
      | x :: _ => if mem_addr (false, a) vis then (false, true) else detect h rem ((false, a) :: vis) x
      end
    | HMap a =>
      if mem_addr (true, a) vis then (false, true) else
      match get_map h a with
      | [] => (true, false)
      | es => fold_right (fun e acc => dunion (detect h rem ((true, a) :: vis) (snd e)) acc) (false, false) es
      end
    | _ => (true, false)
    end.
Proof. reflexivity. Qed.

(** some answer is always possible *)
Lemma detect_inhabited h : forall rem vis v, fst (detect h rem vis v) || snd (detect h rem vis v) = true.
Proof.
  induction rem as [|rem IH]; intros vis v; [reflexivity|]. rewrite detect_S.
  destruct v as [p|a|a|a|]; try reflexivity.
  - destruct (get_list h a); [reflexivity|]. destruct (mem_addr _ vis); [reflexivity|apply IH].
  - destruct (get_list h a); [reflexivity|]. destruct (mem_addr _ vis); [reflexivity|apply IH].
  - destruct (mem_addr _ vis); [reflexivity|]. destruct (get_map h a) as [|e es]; [reflexivity|].
    cbn [fold_right]. pose proof (IH ((true, a) :: vis) (snd e)) as H.
    unfold dunion. cbn [fst snd]. destruct (detect h rem ((true, a) :: vis) (snd e)) as [x y]. cbn [fst snd] in *.
    destruct x, y; cbn in *; try reflexivity; try discriminate; destruct (fst _); reflexivity.
Qed.

(** [endless h n v]: every first-element path from [v] (element 0 of arrays and structs; ANY entry
    of a map, since any entry can be the first in Go's iteration order) goes on for [n] steps. *)
Fixpoint endless (h : heap) (n : nat) (v : hval) : Prop :=
  match n with
  | O => True
  | S n' =>
    match v with
    | HArr a | HStruct a => match get_list h a with [] => False | x :: _ => endless h n' x end
    | HMap a => get_map h a <> [] /\ forall e, In e (get_map h a) -> endless h n' (snd e)
    | _ => False
    end
  end.

Lemma fold_dunion_all_true {A} (g : A -> dset) l : l <> [] -> (forall e, In e l -> g e = (false, true)) ->
  fold_right (fun e acc => dunion (g e) acc) (false, false) l = (false, true).
Proof.
  induction l as [|e l IH]; intros Hne H; [congruence|]. cbn [fold_right].
  rewrite (H e (or_introl eq_refl)). destruct l as [|e' l']; [reflexivity|].
  rewrite IH; [reflexivity|discriminate|]. intros x Hx. apply H. right. exact Hx.
Qed.

(** a value all of whose first-element paths are longer than the depth limit (in particular: lead
    into a cycle) is answered "true" by the detector, whatever the map order *)
Lemma detect_endless h : forall rem vis v, endless h rem v -> detect h rem vis v = (false, true).
Proof.
  induction rem as [|rem IH]; intros vis v He; [reflexivity|]. rewrite detect_S. cbn [endless] in He.
  destruct v as [p|a|a|a|]; try tauto.
  - destruct (get_list h a); [tauto|]. destruct (mem_addr _ vis); [reflexivity|apply IH; exact He].
  - destruct (get_list h a); [tauto|]. destruct (mem_addr _ vis); [reflexivity|apply IH; exact He].
  - destruct He as [Hne Hall]. destruct (mem_addr _ vis); [reflexivity|].
    destruct (get_map h a) as [|e es] eqn:Em; [congruence|].
    apply (fold_dunion_all_true (fun e => detect h rem ((true, a) :: vis) (snd e))); [discriminate|].
    intros x Hx. apply IH. apply Hall. exact Hx.
Qed.

Definition only_circular (r : rs) : Prop := r = mkRs None [ECircular] false.

Theorem first_element_cycle_rejected h v : endless h (S max_struct_depth) v ->
  forall base f s, only_circular (h_serialize h base (S f) v s) /\ only_circular (h_build h (S f) v s).
Proof.
  intros He base f s. unfold only_circular. cbn [h_serialize h_build]. unfold guarded, detect_top.
  rewrite (detect_endless _ _ _ _ He). split; reflexivity.
Qed.

(** a cycle closed through first elements is endless *)
Inductive fnext (h : heap) : hval -> hval -> Prop :=
| fnext_arr a x r : get_list h a = x :: r -> fnext h (HArr a) x
| fnext_struct a x r : get_list h a = x :: r -> fnext h (HStruct a) x
| fnext_map a e : get_map h a <> [] -> In e (get_map h a) -> fnext h (HMap a) (snd e).

(** all first-element paths from [v] stay inside [S], and every member of [S] has a successor *)
Definition first_closed (h : heap) (S : hval -> Prop) : Prop :=
  forall v, S v -> (exists w, fnext h v w) /\ forall w, fnext h v w -> S w.

Lemma first_closed_endless h S : first_closed h S -> forall n v, S v -> endless h n v.
Proof.
  intros Hc. induction n as [|n IH]; intros v Hv; [exact I|].
  destruct (Hc v Hv) as [[w Hw] Hall]. cbn [endless].
  destruct Hw as [a x r E|a x r E|a e Hne He].
  - rewrite E. apply IH. apply Hall. econstructor. exact E.
  - rewrite E. apply IH. apply Hall. econstructor. exact E.
  - split; [exact Hne|]. intros e' He'. apply IH. apply Hall. constructor; assumption.
Qed.

(** * The witness w = [1, w] *)
Definition W_heap : heap := [OList [HPrim (PInt 1); HArr 0]].
Definition W : hval := HArr 0.

Lemma W_cyclic : cyclic W_heap W.
Proof.
  exists W. split; [constructor|]. apply (reach1_step _ W W W); [|constructor].
  cbn. right. left. reflexivity.
Qed.

Lemma W_not_detected : detect_top W_heap W = (true, false).
Proof. vm_compute. reflexivity. Qed.

Definition only_oof (r : rs) : Prop := r_ok r = None /\ r_errs r = [] /\ r_oof r = true.

Lemma guarded_undetected h v body : detect_top h v = (true, false) ->
  guarded h v body = mkRs (r_ok body) (r_errs body) (r_oof body).
Proof. intro E. unfold guarded. rewrite E. reflexivity. Qed.

Lemma prim_not_detected h p : detect_top h (HPrim p) = (true, false).
Proof. reflexivity. Qed.

Lemma only_oof_guarded h v body : detect_top h v = (true, false) -> only_oof body -> only_oof (guarded h v body).
Proof. intros E H. rewrite (guarded_undetected _ _ _ E). exact H. Qed.

Lemma only_oof_bind_l a k : only_oof a -> only_oof (rs_bind a k).
Proof. intros [H1 [H2 H3]]. unfold rs_bind. rewrite H1. repeat split; assumption. Qed.

Lemma only_oof_bind_ret s k : only_oof (k s) -> only_oof (rs_bind (rs_ret s) k).
Proof. intros [H1 [H2 H3]]. unfold rs_bind, only_oof. cbn [r_ok r_errs r_oof rs_ret app orb]. repeat split; assumption. Qed.

(** BuildParamToNative on the witness: no amount of stack suffices *)
Theorem build_witness_diverges : forall f s, only_oof (h_build W_heap f W s).
Proof.
  induction f as [|f IH]; intro s; [repeat split|].
  cbn [h_build]. apply (only_oof_guarded _ _ _ W_not_detected).
  unfold W. cbn [build_body]. change (get_list W_heap 0) with [HPrim (PInt 1); HArr 0%nat].
  cbn [ser_list]. fold W.
  destruct f as [|f']; [repeat split|].
  set (s1 := s ++ _).
  assert (E1 : h_build W_heap (S f') (HPrim (PInt 1)) s1 = rs_ret (s1 ++ nv_write_varbytes (neo_of_Z 1))).
  { cbn [h_build]. rewrite (guarded_undetected _ _ _ (prim_not_detected _ _)). reflexivity. }
  rewrite E1. apply only_oof_bind_ret. apply only_oof_bind_l. apply IH.
Qed.

(** Serialize on the witness: every level appends 5 bytes, and nothing stops the recursion before
    the sink exceeds MAX_BYTEARRAY_SIZE *)
Theorem serialize_witness_deep base : forall f s,
  base + N.of_nat (length s) + 5 * N.of_nat f <= max_ser_size -> only_oof (h_serialize W_heap base f W s).
Proof.
  induction f as [|f IH]; intros s Hsz; [repeat split|].
  cbn [h_serialize]. apply (only_oof_guarded _ _ _ W_not_detected).
  unfold W. cbn [ser_body]. change (get_list W_heap 0) with [HPrim (PInt 1); HArr 0%nat].
  cbn [ser_list length]. fold W. apply only_oof_bind_l.
  destruct f as [|f']; [repeat split|].
  set (s1 := s ++ _).
  assert (L1 : length s1 = (length s + 2)%nat) by (unfold s1; rewrite app_length; reflexivity).
  assert (E1 : h_serialize W_heap base (S f') (HPrim (PInt 1)) s1 = rs_ret (s1 ++ enc_prim (PInt 1))).
  { cbn [h_serialize]. rewrite (guarded_undetected _ _ _ (prim_not_detected _ _)). cbn [ser_body r_ok r_errs r_oof].
    unfold check_size. rewrite app_length. change (length (enc_prim (PInt 1))) with 3%nat.
    destruct (N.ltb_spec max_ser_size (base + N.of_nat (length s1 + 3))); [lia|]. reflexivity. }
  rewrite E1. apply only_oof_bind_ret. apply only_oof_bind_l. apply IH.
  rewrite app_length. change (length (enc_prim (PInt 1))) with 3%nat. lia.
Qed.

(** * What bounds the recursion of Serialize on an arbitrary heap value *)
(** the first-element chain of arrays/structs from [v] (the only way Serialize nests calls without
    completing one in between) ends within [n] steps *)
Fixpoint schain (h : heap) (n : nat) (v : hval) {struct n} : bool :=
  match v with
  | HArr a | HStruct a =>
    match get_list h a with
    | [] => true
    | x :: _ => match n with O => false | S n' => schain h n' x end
    end
  | _ => true
  end.

Lemma schain_0 h v : schain h 0 v = match v with
  | HArr a | HStruct a => match get_list h a with [] => true | _ => false end | _ => true end.
Proof. destruct v; reflexivity. Qed.
Lemma schain_S h n v : schain h (S n) v = match v with
  | HArr a | HStruct a => match get_list h a with [] => true | x :: _ => schain h n x end | _ => true end.
Proof. destruct v; reflexivity. Qed.

(** when the detector can answer false, that chain is shorter than the depth limit *)
Lemma detect_schain h : forall rem vis v, fst (detect h rem vis v) = true -> exists n, rem = S n /\ schain h n v = true.
Proof.
  induction rem as [|rem IH]; intros vis v H; [discriminate|]. exists rem. split; [reflexivity|].
  rewrite detect_S in H. destruct v as [p|a|a|a|]; try (destruct rem; reflexivity).
  - destruct (get_list h a) as [|x r] eqn:E; [destruct rem; cbn; rewrite E; reflexivity|].
    destruct (mem_addr _ vis); [discriminate|]. destruct (IH _ _ H) as [n [-> Hn]].
    rewrite schain_S, E. exact Hn.
  - destruct (get_list h a) as [|x r] eqn:E; [destruct rem; cbn; rewrite E; reflexivity|].
    destruct (mem_addr _ vis); [discriminate|]. destruct (IH _ _ H) as [n [-> Hn]].
    rewrite schain_S, E. exact Hn.
Qed.

Lemma r_oof_guarded h v body : r_oof (guarded h v body) = if fst (detect_top h v) then r_oof body else false.
Proof. unfold guarded. destruct (snd (detect_top h v)), (fst (detect_top h v)); reflexivity. Qed.

Lemma r_oof_check_size base s : r_oof (check_size base s) = false.
Proof. unfold check_size. destruct (_ <? _); reflexivity. Qed.

Section Termination.
  Variables (h : heap) (base : N).
  Let sz (s : bytes) : N := base + N.of_nat (length s).
  Let D : N := N.of_nat max_struct_depth.

  (** [good f v s]: fuel [f] is enough for a call on [v] with sink [s]: either the sink is within
      the limit and the fuel covers two bytes per level up to the limit plus a detector depth, or the
      sink is already over the limit and the fuel covers the remaining first-element chain *)
  Definition good (f : nat) (v : hval) (s : bytes) : Prop :=
    (sz s <= max_ser_size /\ max_ser_size + 2 * D + 4 <= 2 * N.of_nat f + sz s) \/
    (max_ser_size < sz s /\ exists n, (fst (detect_top h v) = true -> schain h n v = true) /\ (n + 1 < f)%nat).

  Lemma ok_size f v s s' : r_ok (h_serialize h base f v s) = Some s' -> sz s' <= max_ser_size /\ sz s <= sz s'.
  Proof.
    intro E. destruct (serialize_enc _ _ _ _ _ _ E) as [t [_ [-> Hs]]]. unfold sz. rewrite app_length in *. lia.
  Qed.

  Lemma over_limit_not_ok f v s : max_ser_size < sz s -> r_ok (h_serialize h base f v s) = None.
  Proof.
    intro H. destruct (r_ok (h_serialize h base f v s)) as [s'|] eqn:E; [|reflexivity].
    apply ok_size in E. lia.
  Qed.

  (** the loops: every element after the first is entered right after a completed call, i.e. with
      the sink within the limit *)
  Lemma ser_list_no_oof f :
    (forall v s, good f v s -> r_oof (h_serialize h base f v s) = false) ->
    forall l s, (forall x r, l = x :: r -> good f x s) ->
      (forall x s', In x l -> sz s <= sz s' -> sz s' <= max_ser_size -> good f x s') ->
      r_oof (ser_list (h_serialize h base f) l s) = false.
  Proof.
    intros IH. induction l as [|x l IHl]; intros s Hfirst Hrest; [reflexivity|].
    cbn [ser_list]. rewrite r_oof_bind. rewrite (IH _ _ (Hfirst _ _ eq_refl)). cbn [orb].
    destruct (r_ok (h_serialize h base f x s)) as [s1|] eqn:E; [|reflexivity].
    destruct (ok_size _ _ _ _ E) as [H1 H2].
    apply IHl.
    - intros y r ->. apply Hrest; [right; left; reflexivity|exact H2|exact H1].
    - intros y s' Hy Hle Hmax. apply Hrest; [right; exact Hy|lia|exact Hmax].
  Qed.

  Lemma good_prim_any f p s : (1 <= f)%nat -> r_oof (h_serialize h base f (HPrim p) s) = false.
  Proof.
    destruct f as [|f]; [lia|]. intros _. cbn [h_serialize]. rewrite r_oof_guarded.
    destruct (fst _); [|reflexivity]. cbn [ser_body]. apply r_oof_check_size.
  Qed.

  Lemma ser_entries_no_oof f :
    (forall v s, good f v s -> r_oof (h_serialize h base f v s) = false) -> (1 <= f)%nat ->
    forall l s, (forall x s', In x l -> sz s <= sz s' -> sz s' <= max_ser_size -> good f (snd x) s') ->
      r_oof (ser_entries (h_serialize h base f) l s) = false.
  Proof.
    intros IH Hf. induction l as [|e l IHl]; intros s Hrest; [reflexivity|].
    cbn [ser_entries]. rewrite r_oof_bind. rewrite good_prim_any by exact Hf. cbn [orb].
    destruct (r_ok (h_serialize h base f (HPrim (fst e)) s)) as [s1|] eqn:E; [|reflexivity].
    destruct (ok_size _ _ _ _ E) as [H1 H2].
    rewrite r_oof_bind. rewrite (IH _ _ (Hrest e s1 (or_introl eq_refl) H2 H1)). cbn [orb].
    destruct (r_ok (h_serialize h base f (snd e) s1)) as [s2|] eqn:E2; [|reflexivity].
    destruct (ok_size _ _ _ _ E2) as [H3 H4].
    apply IHl. intros y s' Hy Hle Hmax. apply Hrest; [right; exact Hy|lia|exact Hmax].
  Qed.

  Lemma good_within f x s s' : sz s <= max_ser_size -> max_ser_size + 2 * D + 4 <= 2 * N.of_nat (S f) + sz s ->
    sz s + 2 <= sz s' -> sz s' <= max_ser_size -> good f x s'.
  Proof. intros. left. split; [assumption|lia]. Qed.

  Lemma serialize_no_oof : forall f v s, good f v s -> r_oof (h_serialize h base f v s) = false.
  Proof.
    induction f as [|f IH]; intros v s Hg.
    - exfalso. destruct Hg as [[H1 H2]|[_ [n [_ Hn]]]]; [|lia]. unfold D in H2. lia.
    - cbn [h_serialize]. rewrite r_oof_guarded. destruct (fst (detect_top h v)) eqn:Ed; [|reflexivity].
      destruct (detect_schain _ _ _ _ Ed) as [n0 [En0 Hn0]]. injection En0 as <-.
      (* the chain bound available for [v], and how much fuel is left relative to it *)
      assert (Hchain : exists n, schain h n v = true /\ (n + 1 <= f)%nat /\
                (max_ser_size < sz s \/ (sz s <= max_ser_size /\ max_ser_size + 2 * D + 4 <= 2 * N.of_nat (S f) + sz s))).
      { destruct Hg as [[H1 H2]|[H1 [n [Hn Hlt]]]].
        - exists max_struct_depth. split; [exact Hn0|]. split; [unfold D in H2; lia|]. right. split; assumption.
        - exists n. split; [apply Hn; exact Ed|]. split; [lia|]. left. exact H1. }
      destruct Hchain as [n [Hn [Hnf Hreg]]].
      assert (Hf1 : (1 <= f)%nat) by lia.
      (* a first element entered with sink [s1] that extends [s] by at least two bytes *)
      assert (Hfirst : forall a x r s1, (v = HArr a \/ v = HStruct a) -> get_list h a = x :: r -> sz s + 2 <= sz s1 -> good f x s1).
      { intros a x r s1 Hv El Hs1.
        assert (Hx : exists n', n = S n' /\ schain h n' x = true).
        { destruct n as [|n']; [rewrite schain_0 in Hn; destruct Hv as [->| ->]; rewrite El in Hn; discriminate|].
          exists n'. split; [reflexivity|]. rewrite schain_S in Hn. destruct Hv as [->| ->]; rewrite El in Hn; exact Hn. }
        destruct Hx as [n' [-> Hn']].
        destruct (N.leb_spec (sz s1) max_ser_size) as [Hin|Hout].
        - destruct Hreg as [Hover|[Hs Hfuel]]; [lia|]. apply (good_within f x s s1); assumption.
        - right. split; [exact Hout|]. exists n'. split; [intros _; exact Hn'|lia]. }
      assert (Hlater : forall x s1 s', sz s + 2 <= sz s1 -> sz s1 <= sz s' -> sz s' <= max_ser_size -> good f x s').
      { intros x s1 s' H1 H2 H3. destruct Hreg as [Hover|[Hs Hfuel]]; [lia|]. apply (good_within f x s s'); try assumption; lia. }
      destruct v as [p|a|a|a|]; cbn [ser_body].
      + apply r_oof_check_size.
      + rewrite r_oof_bind. set (s1 := s ++ _).
        assert (Hs1 : sz s + 2 <= sz s1).
        { unfold s1, sz. rewrite app_length. cbn [length]. pose proof (nv_write_varuint_length (N.of_nat (length (get_list h a)))). lia. }
        rewrite ser_list_no_oof; [|exact IH| |].
        * cbn [orb]. destruct (r_ok _); [apply r_oof_check_size|reflexivity].
        * intros x r El. apply (Hfirst a x r s1); [left; reflexivity|exact El|exact Hs1].
        * intros x s' _ Hle Hmax. apply (Hlater x s1 s'); assumption.
      + rewrite r_oof_bind. set (s1 := s ++ _).
        assert (Hs1 : sz s + 2 <= sz s1).
        { unfold s1, sz. rewrite app_length. cbn [length]. pose proof (nv_write_varuint_length (N.of_nat (length (get_list h a)))). lia. }
        rewrite ser_list_no_oof; [|exact IH| |].
        * cbn [orb]. destruct (r_ok _); [apply r_oof_check_size|reflexivity].
        * intros x r El. apply (Hfirst a x r s1); [right; reflexivity|exact El|exact Hs1].
        * intros x s' _ Hle Hmax. apply (Hlater x s1 s'); assumption.
      + rewrite r_oof_bind. set (s1 := s ++ _).
        assert (Hs1 : sz s + 2 <= sz s1).
        { unfold s1, sz. rewrite app_length. cbn [length]. pose proof (nv_write_varuint_length (N.of_nat (length (get_map h a)))). lia. }
        rewrite ser_entries_no_oof; [|exact IH|exact Hf1|].
        * cbn [orb]. destruct (r_ok _); [apply r_oof_check_size|reflexivity].
        * intros x s' _ Hle Hmax. apply (Hlater (snd x) s1 s'); assumption.
      + reflexivity.
  Qed.

  (** Fuel that suffices for ANY heap value from an empty sink (after [base] bytes): half the
      size limit, plus the detector depth, plus three. *)
  Definition ser_fuel : nat := N.to_nat (max_ser_size / 2) + max_struct_depth + 3.

  Theorem serialize_terminates v : r_oof (h_serialize h base ser_fuel v []) = false.
  Proof.
    apply serialize_no_oof. unfold good, ser_fuel.
    destruct (N.leb_spec (sz []) max_ser_size) as [Hin|Hout].
    - left. split; [exact Hin|]. unfold D. lia.
    - right. split; [exact Hout|]. exists max_struct_depth. split; [|lia].
      intro Ed. destruct (detect_schain _ _ _ _ Ed) as [n0 [En0 Hn0]]. injection En0 as <-. exact Hn0.
  Qed.
End Termination.

(** * Every call has some outcome; hence on a cyclic value every possible run of Serialize ends with
      an error (given the stack for [ser_fuel] nested calls) *)
Lemma inhabited_ret s : rs_inhabited (rs_ret s).
Proof. left. discriminate. Qed.
Lemma inhabited_fail e : rs_inhabited (rs_fail e).
Proof. right. left. discriminate. Qed.
Lemma inhabited_oof : rs_inhabited rs_oof.
Proof. right. right. reflexivity. Qed.

Lemma inhabited_bind a k : rs_inhabited a -> (forall s, rs_inhabited (k s)) -> rs_inhabited (rs_bind a k).
Proof.
  intros Ha Hk. unfold rs_bind. destruct (r_ok a) as [s|] eqn:E; [|exact Ha].
  destruct (Hk s) as [H|[H|H]]; [left; exact H| |].
  - right. left. cbn. intro C. apply app_eq_nil in C. tauto.
  - right. right. cbn. rewrite H. apply orb_true_r.
Qed.

Lemma inhabited_check_size base s : rs_inhabited (check_size base s).
Proof. unfold check_size. destruct (_ <? _); [apply inhabited_fail|apply inhabited_ret]. Qed.

Lemma inhabited_guarded h v body : rs_inhabited body -> rs_inhabited (guarded h v body).
Proof.
  intro Hb. unfold guarded. pose proof (detect_inhabited h (S max_struct_depth) [] v) as Hd. fold (detect_top h v) in Hd.
  destruct (snd (detect_top h v)).
  - right. left. cbn. discriminate.
  - destruct (fst (detect_top h v)); [|discriminate].
    destruct Hb as [H|[H|H]]; [left; exact H|right; left; exact H|right; right; exact H].
Qed.

Lemma inhabited_ser_list rec l : (forall x s, rs_inhabited (rec x s)) -> forall s, rs_inhabited (ser_list rec l s).
Proof.
  intro Hr. induction l as [|x l IH]; intro s; cbn [ser_list]; [apply inhabited_ret|].
  apply inhabited_bind; [apply Hr|exact IH].
Qed.

Lemma inhabited_ser_entries rec l : (forall x s, rs_inhabited (rec x s)) -> forall s, rs_inhabited (ser_entries rec l s).
Proof.
  intro Hr. induction l as [|x l IH]; intro s; cbn [ser_entries]; [apply inhabited_ret|].
  apply inhabited_bind; [apply Hr|]. intro s1. apply inhabited_bind; [apply Hr|exact IH].
Qed.

Lemma serialize_inhabited h base : forall f v s, rs_inhabited (h_serialize h base f v s).
Proof.
  induction f as [|f IH]; intros v s; [apply inhabited_oof|]. cbn [h_serialize]. apply inhabited_guarded.
  destruct v as [p|a|a|a|]; cbn [ser_body].
  - apply inhabited_check_size.
  - apply inhabited_bind; [apply inhabited_ser_list; exact IH|apply inhabited_check_size].
  - apply inhabited_bind; [apply inhabited_ser_list; exact IH|apply inhabited_check_size].
  - apply inhabited_bind; [apply inhabited_ser_entries; exact IH|apply inhabited_check_size].
  - apply inhabited_fail.
Qed.

Lemma build_inhabited h : forall f v s, rs_inhabited (h_build h f v s).
Proof.
  induction f as [|f IH]; intros v s; [apply inhabited_oof|]. cbn [h_build]. apply inhabited_guarded.
  destruct v as [[b|b|z|z]|a|a|a|]; cbn [build_body]; try apply inhabited_ret; try apply inhabited_fail;
    apply inhabited_ser_list; exact IH.
Qed.

Theorem serialize_cyclic_rejected h base v : cyclic h v ->
  let r := h_serialize h base (ser_fuel) v [] in
  r_ok r = None /\ r_oof r = false /\ r_errs r <> [].
Proof.
  intros Hc r. assert (H1 : r_ok r = None) by (apply serialize_cyclic_never_ok; exact Hc).
  assert (H2 : r_oof r = false) by apply serialize_terminates.
  split; [exact H1|]. split; [exact H2|].
  destruct (serialize_inhabited h base ser_fuel v []) as [H|[H|H]]; fold r in H; [congruence|exact H|congruence].
Qed.

(** * BuildParamToNative terminates on every value that has a finite unfolding *)
Lemma r_oof_ser_list rec l : (forall x, In x l -> forall s, r_oof (rec x s) = false) -> forall s, r_oof (ser_list rec l s) = false.
Proof.
  induction l as [|x l IH]; intros H s; [reflexivity|]. cbn [ser_list]. rewrite r_oof_bind.
  rewrite (H x (or_introl eq_refl)). cbn [orb]. destruct (r_ok _); [|reflexivity]. apply IH. intros y Hy. apply H. right. exact Hy.
Qed.

Theorem build_acyclic_terminates h : forall f v t, unfold h f v = Some t -> forall s, r_oof (h_build h f v s) = false.
Proof.
  induction f as [|f IH]; intros v t E s; [discriminate|].
  cbn [h_build]. rewrite r_oof_guarded. destruct (fst _); [|reflexivity].
  rewrite unfold_S in E.
  destruct v as [[b|b|z|z]|a|a|a|]; cbn [build_body]; try reflexivity.
  - destruct (map_opt (unfold h f) (get_list h a)) as [ts|] eqn:Em; [|discriminate].
    apply r_oof_ser_list. intros x Hx s0. destruct (map_opt_in _ _ _ _ Em Hx) as [y Hy]. apply (IH _ _ Hy).
  - destruct (map_opt (unfold h f) (get_list h a)) as [ts|] eqn:Em; [|discriminate].
    apply r_oof_ser_list. intros x Hx s0. destruct (map_opt_in _ _ _ _ Em Hx) as [y Hy]. apply (IH _ _ Hy).
Qed.
