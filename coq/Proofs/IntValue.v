(** Proofs about Model/IntValue.v (NeoVM integers) against Model/IntSpec.v. Used by Props/C13.v. *)
From Coq Require Import List Bool ZArith Lia ZifyBool.
Import ListNotations.
From Ont Require Import Gen.IntConsts Model.IntValue Model.IntSpec.
Local Open Scope Z_scope.
Ltac Zify.zify_post_hook ::= Z.to_euclidean_division_equations.

(** * The regenerated constants are the ones the proofs were made for *)
Lemma limits :
  MAX_INT_SIZE = 32 /\ frombig_limit = 32 /\ rsh_limit = 256 /\ lsh_limit = 256 /\
  STACK_LIMIT = 2048 /\ MinInt64 = - 2^63 /\ MaxInt64 = 2^63 - 1 /\
  inc_step = 1 /\ dec_step = 1 /\ sign_base = 0 /\ negate_base = 0 /\ nz_base = 0.
Proof. repeat split; reflexivity. Qed.

Lemma gen_identities : forall n, frombig_len n = n /\ rsh_count n = n /\ lsh_count n = n /\ sign_result n = n.
Proof. intro; repeat split; reflexivity. Qed.

(** * int64 *)
Definition int64 (z : Z) : Prop := - 2^63 <= z < 2^63.

Lemma is_int64_iff z : is_int64 z = true <-> int64 z.
Proof. unfold int64, is_int64, MinInt64, MaxInt64. lia. Qed.
Lemma is_int64_false z : is_int64 z = false <-> ~ int64 z.
Proof. unfold int64, is_int64, MinInt64, MaxInt64. lia. Qed.
Lemma wrap64_id z : int64 z -> wrap64 z = z.
Proof. unfold int64, wrap64. intros. lia. Qed.
Lemma wrap64_range z : int64 (wrap64 z).
Proof. unfold int64, wrap64. lia. Qed.
Lemma wrap64_eq z : exists k, wrap64 z = z + k * 2^64.
Proof. unfold wrap64. exists (- ((z + 2^63) / 2^64)). lia. Qed.

(** * The overflow package: a reported success means the int64 result is the exact one *)
Lemma ov_add64_sound a b c : int64 a -> int64 b -> ov_add64 a b = (c, true) -> c = a + b /\ int64 c.
Proof.
  unfold ov_add64, add64, int64. intros Ha Hb.
  destruct (wrap64_eq (a+b)) as [k Hk]. pose proof (wrap64_range (a+b)) as Hr. unfold int64 in Hr.
  destruct (Bool.eqb _ _) eqn:E; intro H0; inversion H0; subst.
  apply eqb_prop in E. lia.
Qed.

Lemma ov_sub64_sound a b c : int64 a -> int64 b -> ov_sub64 a b = (c, true) -> c = a - b /\ int64 c.
Proof.
  unfold ov_sub64, sub64, int64. intros Ha Hb.
  destruct (wrap64_eq (a-b)) as [k Hk]. pose proof (wrap64_range (a-b)) as Hr. unfold int64 in Hr.
  destruct (Bool.eqb _ _) eqn:E; intro H0; inversion H0; subst.
  apply eqb_prop in E. lia.
Qed.

Lemma quot_abs_le c b : b <> 0 -> Z.abs (Z.quot c b) <= Z.abs c.
Proof.
  intros. rewrite <- Z.quot_abs by assumption.
  rewrite Z.quot_div_nonneg by lia.
  apply Z.div_le_upper_bound; nia.
Qed.

Lemma ov_mul64_sound a b c : int64 a -> int64 b -> ov_mul64 a b = (c, true) -> c = a * b /\ int64 c.
Proof.
  unfold ov_mul64, mul64, quo64, int64. intros Ha Hb.
  destruct ((a =? 0) || (b =? 0)) eqn:Z0.
  { intro H0; inversion H0; subst. lia. }
  destruct (wrap64_eq (a*b)) as [k Hk]. pose proof (wrap64_range (a*b)) as Hr. unfold int64 in Hr.
  set (p := a * b) in *. set (c0 := wrap64 p) in *.
  destruct (Bool.eqb _ _) eqn:E; [|intro H0; inversion H0].
  destruct (wrap64 (Z.quot c0 b) =? a) eqn:Q; intro H0; inversion H0; subst c.
  split; [|assumption].
  apply eqb_prop in E. apply Z.eqb_eq in Q.
  assert (b <> 0) as H by lia.
  pose proof (Z.quot_rem' c0 b) as QR. pose proof (Z.rem_bound_abs c0 b H) as RB.
  pose proof (quot_abs_le c0 b H) as QA.
  destruct (Z.eq_dec (Z.quot c0 b) (2^63)) as [E63|N63].
  - exfalso. assert (c0 = -2^63 /\ b = -1) as [? ?] by lia. subst b.
    rewrite E63 in Q. unfold wrap64 in Q. change ((2^63 + 2^63) mod 2^64 - 2^63) with (-2^63) in Q.
    subst a. lia.
  - assert (int64 (Z.quot c0 b)) as Hq by (unfold int64; lia).
    rewrite (wrap64_id _ Hq) in Q.
    rewrite Q in QR. replace (b * a) with p in QR by (unfold p; ring).
    lia.
Qed.

Lemma ov_div64_sound a b c : int64 a -> int64 b -> b <> 0 ->
  ov_div64 a b = (c, true) -> c = Z.quot a b /\ int64 c.
Proof.
  unfold ov_div64, ov_quotient64, quo64, int64. intros Ha Hb Hnz.
  destruct (b =? 0) eqn:E; [lia|].
  intro H0; inversion H0 as [[Hc Hs]]; clear H0. apply eqb_prop in Hs.
  split; [|apply wrap64_range].
  destruct (Z.eq_dec (Z.quot a b) (2^63)) as [E63|N63].
  - exfalso. assert (a = -2^63 /\ b = -1) as [? ?] by lia. subst a b.
    rewrite E63 in Hs. vm_compute in Hs. discriminate.
  - apply wrap64_id. unfold int64. lia.
Qed.

(** The fast path of Div64 is refused exactly on the old F5 witness among the overflowing cases:
    MinInt64 / -1 reports failure (and so takes the big path). *)
Lemma ov_div64_minint_minus1 : ov_div64 (- 2^63) (-1) = (- 2^63, false).
Proof. reflexivity. Qed.

(** Completeness of the checks (not needed for exactness; shows the fast path is taken whenever
    the exact result is an int64, for + and -). *)
Lemma ov_add64_complete a b : int64 a -> int64 b -> int64 (a + b) -> ov_add64 a b = (a + b, true).
Proof.
  unfold ov_add64, add64. intros Ha Hb Hc. rewrite (wrap64_id _ Hc).
  unfold int64 in *. destruct (Bool.eqb _ _) eqn:E; [reflexivity|].
  apply eqb_false_iff in E. lia.
Qed.
Lemma ov_sub64_complete a b : int64 a -> int64 b -> int64 (a - b) -> ov_sub64 a b = (a - b, true).
Proof.
  unfold ov_sub64, sub64. intros Ha Hb Hc. rewrite (wrap64_id _ Hc).
  unfold int64 in *. destruct (Bool.eqb _ _) eqn:E; [reflexivity|].
  apply eqb_false_iff in E. lia.
Qed.

(** * Bitwise operations keep int64 operands inside int64 *)
Lemma int64_shiftr z : int64 z <-> (Z.shiftr z 63 = 0 \/ Z.shiftr z 63 = -1).
Proof. unfold int64. rewrite Z.shiftr_div_pow2 by lia. lia. Qed.

Lemma land_int64 a b : int64 a -> int64 b -> int64 (Z.land a b).
Proof. rewrite !int64_shiftr, Z.shiftr_land. intros [-> | ->] [-> | ->]; simpl; auto. Qed.
Lemma lor_int64 a b : int64 a -> int64 b -> int64 (Z.lor a b).
Proof. rewrite !int64_shiftr, Z.shiftr_lor. intros [-> | ->] [-> | ->]; simpl; auto. Qed.
Lemma lxor_int64 a b : int64 a -> int64 b -> int64 (Z.lxor a b).
Proof. rewrite !int64_shiftr, Z.shiftr_lxor. intros [-> | ->] [-> | ->]; simpl; auto. Qed.
Lemma lnot_eq z : Z.lnot z = - z - 1.
Proof. unfold Z.lnot. lia. Qed.

(** * The size rule *)
Lemma int_bound_val : int_bound = 2^256.
Proof. reflexivity. Qed.

Lemma in_bound_iff z : in_bound z = true <-> Z.abs z < 2^256.
Proof. unfold in_bound. rewrite int_bound_val. lia. Qed.

Lemma int64_in_bound z : int64 z -> in_bound z = true.
Proof. rewrite in_bound_iff. unfold int64. lia. Qed.

Lemma mag_len_le z : mag_len z <= 32 <-> Z.abs z < 2^256.
Proof.
  unfold mag_len. destruct (z =? 0) eqn:E.
  - apply Z.eqb_eq in E. subst. simpl. lia.
  - apply Z.eqb_neq in E. assert (0 < Z.abs z) by lia.
    rewrite (Z.log2_lt_pow2 (Z.abs z) 256) by assumption.
    pose proof (Z.log2_nonneg (Z.abs z)). lia.
Qed.

(** IntValFromBigInt = "fault unless |z| < 2^256, else store int64 values small". *)
Lemma from_big_spec z : from_big z = spec_from_big z.
Proof.
  unfold from_big, spec_from_big, in_bound, frombig_len, frombig_limit.
  change int_bound with (2^256). change MAX_INT_SIZE with 32.
  pose proof (mag_len_le z).
  destruct (mag_len z >? 32) eqn:E1; destruct (Z.abs z <? 2^256) eqn:E2; try reflexivity; lia.
Qed.

Lemma spec_from_big_int64 z : int64 z -> spec_from_big z = Ok (Small z).
Proof.
  intro H. unfold spec_from_big, norm. rewrite (int64_in_bound _ H).
  apply is_int64_iff in H. rewrite H. reflexivity.
Qed.

Lemma val_norm z : val (norm z) = z.
Proof. unfold norm. destruct (is_int64 z); reflexivity. Qed.
Lemma wf_norm z : iv_wf (norm z) = true.
Proof. unfold norm. destruct (is_int64 z) eqn:E; simpl; auto. Qed.
Lemma norm_int64 z : int64 z -> norm z = Small z.
Proof. intro H. apply is_int64_iff in H. unfold norm. rewrite H. reflexivity. Qed.

Lemma wf_val_int64 v : iv_wf v = true -> match v with Small i => int64 i | Big _ => True end.
Proof. destruct v; simpl; [apply is_int64_iff|auto]. Qed.

(** * intOp: the fast path never changes the answer *)
Lemma int_op_exact little f :
  (forall a b c, int64 a -> int64 b -> little a b = (c, true) -> c = f a b /\ int64 c) ->
  forall x y, iv_wf x = true -> iv_wf y = true ->
  int_op little (fun a b => from_big (f a b)) x y = spec_from_big (f (val x) (val y)).
Proof.
  intros Hl x y Hx Hy. apply wf_val_int64 in Hx. apply wf_val_int64 in Hy.
  destruct x as [a|a], y as [b|b]; cbn [int_op val]; try apply from_big_spec.
  destruct (little a b) as [v ok] eqn:E. destruct ok; [|apply from_big_spec].
  destruct (Hl _ _ _ Hx Hy E) as [-> Hc]. unfold from_int.
  symmetry. apply spec_from_big_int64. assumption.
Qed.

(** int_op with a side condition on the operands (division: divisor non-zero). *)
Lemma int_op_exact_cond (P : Z -> Z -> Prop) little f :
  (forall a b c, int64 a -> int64 b -> P a b -> little a b = (c, true) -> c = f a b /\ int64 c) ->
  forall x y, iv_wf x = true -> iv_wf y = true -> P (val x) (val y) ->
  int_op little (fun a b => from_big (f a b)) x y = spec_from_big (f (val x) (val y)).
Proof.
  intros Hl x y Hx Hy HP. apply wf_val_int64 in Hx. apply wf_val_int64 in Hy.
  destruct x as [a|a], y as [b|b]; cbn [int_op val] in *; try apply from_big_spec.
  destruct (little a b) as [v ok] eqn:E. destruct ok; [|apply from_big_spec].
  destruct (Hl _ _ _ Hx Hy HP E) as [-> Hc]. unfold from_int.
  symmetry. apply spec_from_big_int64. assumption.
Qed.

Lemma int_op_ext little f g x y : (forall a b, f a b = g a b) ->
  int_op little f x y = int_op little g x y.
Proof.
  intro H. destruct x, y; cbn [int_op]; rewrite ?H; reflexivity.
Qed.

Lemma iv_is_zero_val v : iv_is_zero v = (val v =? 0).
Proof. destruct v; simpl; [reflexivity|]. destruct z; reflexivity. Qed.

Lemma iv_add_exact x y : iv_wf x = true -> iv_wf y = true ->
  iv_add x y = spec_from_big (val x + val y).
Proof.
  intros Hx Hy. unfold iv_add. apply (int_op_exact ov_add64 Z.add); auto using ov_add64_sound. Qed.
Lemma iv_sub_exact x y : iv_wf x = true -> iv_wf y = true ->
  iv_sub x y = spec_from_big (val x - val y).
Proof.
  intros Hx Hy. unfold iv_sub. apply (int_op_exact ov_sub64 Z.sub); auto using ov_sub64_sound. Qed.
Lemma iv_mul_exact x y : iv_wf x = true -> iv_wf y = true ->
  iv_mul x y = spec_from_big (val x * val y).
Proof.
  intros Hx Hy. unfold iv_mul. apply (int_op_exact ov_mul64 Z.mul); auto using ov_mul64_sound. Qed.

Lemma iv_div_exact x y : iv_wf x = true -> iv_wf y = true ->
  iv_div x y = if val y =? 0 then Fault ErrDivModByZero else spec_from_big (Z.quot (val x) (val y)).
Proof.
  intros Hx Hy.
  unfold iv_div. rewrite iv_is_zero_val. destruct (val y =? 0) eqn:E; [reflexivity|].
  apply Z.eqb_neq in E.
  apply (int_op_exact_cond (fun _ b => b <> 0) ov_div64 Z.quot); auto.
  intros; eapply ov_div64_sound; eauto.
Qed.

Lemma iv_mod_exact x y : iv_wf x = true -> iv_wf y = true ->
  iv_mod x y = if val y =? 0 then Fault ErrDivModByZero else spec_from_big (Z.rem (val x) (val y)).
Proof.
  intros Hx Hy.
  unfold iv_mod. rewrite iv_is_zero_val. destruct (val y =? 0) eqn:E; [reflexivity|].
  apply Z.eqb_neq in E.
  apply (int_op_exact_cond (fun _ b => b <> 0) (fun a b => (rem64 a b, true)) Z.rem); auto.
  intros a b c Ha Hb Hnz H0. inversion H0; subst. unfold rem64.
  assert (int64 (Z.rem a b)) as Hr.
  { pose proof (Z.rem_bound_abs a b Hnz). unfold int64 in *. lia. }
  rewrite (wrap64_id _ Hr). auto.
Qed.

Lemma iv_max_exact x y : iv_wf x = true -> iv_wf y = true ->
  iv_max x y = spec_from_big (Z.max (val x) (val y)).
Proof.
  intros Hx Hy.
  unfold iv_max.
  rewrite (int_op_ext _ _ (fun a b => from_big (Z.max a b))).
  - apply (int_op_exact _ Z.max); auto.
    intros a b c Ha Hb H0. unfold int64 in *.
    destruct (a <? b) eqn:E; inversion H0; subst; lia.
  - intros a b; f_equal; try (destruct (Z.compare_spec a b); lia).
Qed.

Lemma iv_min_exact x y : iv_wf x = true -> iv_wf y = true ->
  iv_min x y = spec_from_big (Z.min (val x) (val y)).
Proof.
  intros Hx Hy.
  unfold iv_min.
  rewrite (int_op_ext _ _ (fun a b => from_big (Z.min a b))).
  - apply (int_op_exact _ Z.min); auto.
    intros a b c Ha Hb H0. unfold int64 in *.
    destruct (a <? b) eqn:E; inversion H0; subst; lia.
  - intros a b; f_equal; try (destruct (Z.compare_spec a b); lia).
Qed.

Lemma iv_and_exact x y : iv_wf x = true -> iv_wf y = true ->
  iv_and x y = spec_from_big (Z.land (val x) (val y)).
Proof.
  intros Hx Hy.
  unfold iv_and. apply (int_op_exact _ Z.land); auto.
  intros a b c Ha Hb H0. inversion H0; subst. unfold and64.
  pose proof (land_int64 a b Ha Hb) as Hr. rewrite (wrap64_id _ Hr). auto.
Qed.
Lemma iv_or_exact x y : iv_wf x = true -> iv_wf y = true ->
  iv_or x y = spec_from_big (Z.lor (val x) (val y)).
Proof.
  intros Hx Hy.
  unfold iv_or. apply (int_op_exact _ Z.lor); auto.
  intros a b c Ha Hb H0. inversion H0; subst. unfold or64.
  pose proof (lor_int64 a b Ha Hb) as Hr. rewrite (wrap64_id _ Hr). auto.
Qed.
Lemma iv_xor_exact x y : iv_wf x = true -> iv_wf y = true ->
  iv_xor x y = spec_from_big (Z.lxor (val x) (val y)).
Proof.
  intros Hx Hy.
  unfold iv_xor. apply (int_op_exact _ Z.lxor); auto.
  intros a b c Ha Hb H0. inversion H0; subst. unfold xor64.
  pose proof (lxor_int64 a b Ha Hb) as Hr. rewrite (wrap64_id _ Hr). auto.
Qed.

Lemma iv_cmp_exact x y : iv_wf x = true -> iv_wf y = true ->
  iv_cmp x y = big_cmp (val x) (val y).
Proof.
  intros Hx Hy.
  destruct x as [a|a], y as [b|b]; cbn [iv_cmp val]; try reflexivity.
  unfold cmpZ, big_cmp. destruct (Z.compare_spec a b); destruct (a <? b) eqn:E1; destruct (a =? b) eqn:E2; lia.
Qed.

Lemma iv_sign_neg x y : iv_wf x = true -> iv_wf y = true ->
  (iv_sign x <? 0) = (val x <? 0).
Proof.
  intros Hx Hy. destruct x as [a|a]; cbn [iv_sign val]; [|destruct a; reflexivity].
  destruct (a <? 0) eqn:E1; [reflexivity|]. destruct (a =? 0); reflexivity. Qed.

Lemma shift_count_spec x y : iv_wf x = true -> iv_wf y = true ->
  shift_count y = if shift_count_ok (val y) then Ok (val y) else Fault ErrShiftByNeg.
Proof.
  intros Hx Hy.
  apply wf_val_int64 in Hy. unfold shift_count_ok.
  destruct y as [b|b]; cbn [shift_count val] in *.
  - unfold int64 in Hy. destruct (b <? 0) eqn:E1; destruct ((0 <=? b) && (b <? 2^64)) eqn:E2; try reflexivity; lia.
  - reflexivity.
Qed.


Lemma big_cmp_lt a b : (big_cmp a b <? 0) = (a <? b).
Proof. unfold big_cmp. destruct (Z.compare_spec a b); lia. Qed.
Lemma big_cmp_gt a b : (big_cmp a b >? 0) = (b <? a).
Proof. unfold big_cmp. destruct (Z.compare_spec a b); lia. Qed.
Lemma big_cmp_le a b : (big_cmp a b <=? 0) = (a <=? b).
Proof. unfold big_cmp. destruct (Z.compare_spec a b); lia. Qed.
Lemma big_cmp_ge a b : (big_cmp a b >=? 0) = (b <=? a).
Proof. unfold big_cmp. destruct (Z.compare_spec a b); lia. Qed.
Lemma big_cmp_eq a b : (big_cmp a b =? 0) = (a =? b).
Proof. unfold big_cmp. destruct (Z.compare_spec a b); lia. Qed.
Lemma big_cmp_sgn a : big_cmp a 0 = Z.sgn a.
Proof. unfold big_cmp. destruct a; reflexivity. Qed.

(** * Shifts *)
Lemma div_pow2_big x n : Z.abs x < 2^256 -> 256 < n -> x / 2^n = if x <? 0 then -1 else 0.
Proof.
  intros Hx Hn.
  assert (2^256 < 2^n) as Hp by (apply Z.pow_lt_mono_r; lia).
  set (P := 2^n) in *.
  destruct (x <? 0) eqn:E.
  - symmetry. apply (Z.div_unique_pos x P (-1) (x + P)); lia.
  - apply Z.div_small. lia.
Qed.

Lemma shiftr_abs_le x n : 0 <= n -> Z.abs (x / 2^n) <= Z.abs x.
Proof.
  intro Hn. assert (0 < 2^n) as Hp by (apply Z.pow_pos_nonneg; lia).
  set (P := 2^n) in *.
  assert (1 <= P) by lia.
  destruct (Z_lt_le_dec x 0).
  - assert (x <= x / P) by (apply Z.div_le_lower_bound; nia).
    assert (x / P < 0) by (apply Z.div_lt_upper_bound; lia).
    lia.
  - assert (0 <= x / P) by (apply Z.div_pos; lia).
    assert (x / P <= x) by (apply Z.div_le_upper_bound; nia).
    lia.
Qed.

Lemma iv_rsh_exact x y : iv_wf x = true -> iv_wf y = true -> in_bound (val x) = true ->
  iv_rsh x y = if shift_count_ok (val y) then spec_from_big (val x / 2 ^ val y) else Fault ErrShiftByNeg.
Proof.
  intros Hx Hy Hb. unfold iv_rsh. rewrite (shift_count_spec x y Hx Hy).
  destruct (shift_count_ok (val y)) eqn:E; cbn [bind]; [|reflexivity].
  unfold shift_count_ok in E. apply in_bound_iff in Hb.
  unfold rsh_count, rsh_limit. change (MAX_INT_SIZE * 8) with 256.
  destruct (val y >? 256) eqn:E1.
  - rewrite (iv_sign_neg x y Hx Hy). rewrite div_pow2_big by lia.
    destruct (val x <? 0); reflexivity.
  - rewrite from_big_spec. rewrite Z.shiftr_div_pow2 by lia. reflexivity.
Qed.

Lemma iv_lsh_exact x y : iv_wf x = true -> iv_wf y = true ->
  iv_lsh x y = if shift_count_ok (val y) then
                 if val y >? 8 * MAX_INT_SIZE then Fault ErrOverMaxBigIntegerSize
                 else spec_from_big (val x * 2 ^ val y)
               else Fault ErrShiftByNeg.
Proof.
  intros Hx Hy. unfold iv_lsh. rewrite (shift_count_spec x y Hx Hy).
  destruct (shift_count_ok (val y)) eqn:E; cbn [bind]; [|reflexivity].
  unfold shift_count_ok in E.
  unfold lsh_count, lsh_limit. change (MAX_INT_SIZE * 8) with 256. change (8 * MAX_INT_SIZE) with 256.
  destruct (val y >? 256) eqn:E1; [reflexivity|].
  rewrite from_big_spec. rewrite Z.shiftl_mul_pow2 by lia. reflexivity.
Qed.

(** * Not and Abs *)
Lemma iv_not_val v : iv_wf v = true -> val (iv_not v) = - val v - 1.
Proof.
  intro H. apply wf_val_int64 in H. destruct v as [a|a]; cbn [iv_not val]; [|apply lnot_eq].
  unfold not64. rewrite lnot_eq. apply wrap64_id. unfold int64 in *. lia.
Qed.

Lemma iv_not_norm z : iv_not (norm z) = norm (- z - 1).
Proof.
  unfold norm. destruct (is_int64 z) eqn:E.
  - apply is_int64_iff in E. cbn [iv_not]. unfold not64. rewrite lnot_eq.
    assert (int64 (- z - 1)) as H by (unfold int64 in *; lia).
    rewrite (wrap64_id _ H). apply is_int64_iff in H. rewrite H. reflexivity.
  - apply is_int64_false in E. cbn [iv_not]. rewrite lnot_eq.
    assert (~ int64 (- z - 1)) as H by (unfold int64 in *; lia).
    apply is_int64_false in H. rewrite H. reflexivity.
Qed.

Lemma iv_abs_val v : iv_wf v = true -> val (iv_abs v) = Z.abs (val v).
Proof.
  intro H. apply wf_val_int64 in H. destruct v as [a|a]; cbn [iv_abs val]; [|reflexivity].
  destruct (a =? MinInt64) eqn:E; [reflexivity|].
  unfold MinInt64 in E. unfold int64 in H.
  destruct (a <? 0) eqn:E1; cbn [val]; [|lia].
  unfold neg64. rewrite wrap64_id by (unfold int64; lia). lia.
Qed.

Lemma iv_abs_norm z : iv_abs (norm z) = norm (Z.abs z).
Proof.
  unfold norm. destruct (is_int64 z) eqn:E.
  - apply is_int64_iff in E. cbn [iv_abs]. unfold int64 in E.
    destruct (z =? MinInt64) eqn:E0; unfold MinInt64 in E0.
    + assert (z = - 2^63) by lia. subst z. reflexivity.
    + destruct (z <? 0) eqn:E1.
      * unfold neg64. rewrite wrap64_id by (unfold int64; lia).
        assert (int64 (Z.abs z)) as H by (unfold int64; lia). apply is_int64_iff in H. rewrite H.
        f_equal. lia.
      * assert (int64 (Z.abs z)) as H by (unfold int64; lia). apply is_int64_iff in H. rewrite H.
        f_equal. lia.
  - apply is_int64_false in E. cbn [iv_abs].
    assert (~ int64 (Z.abs z)) as H by (unfold int64 in *; lia).
    apply is_int64_false in H. rewrite H. reflexivity.
Qed.

(** * Representation irrelevance at the method level *)
Inductive binmeth := MAdd | MSub | MMul | MDiv | MMod | MMax | MMin | MAnd | MOr | MXor | MLsh | MRsh.

Definition iv_bin (m : binmeth) : IntValue -> IntValue -> result IntValue :=
  match m with
  | MAdd => iv_add | MSub => iv_sub | MMul => iv_mul | MDiv => iv_div | MMod => iv_mod
  | MMax => iv_max | MMin => iv_min | MAnd => iv_and | MOr => iv_or | MXor => iv_xor
  | MLsh => iv_lsh | MRsh => iv_rsh
  end.

(** The exact result of a method on mathematical integers, then the size rule. *)
Definition spec_bin (m : binmeth) (a b : Z) : result IntValue :=
  match m with
  | MAdd => spec_from_big (a + b)
  | MSub => spec_from_big (a - b)
  | MMul => spec_from_big (a * b)
  | MDiv => if b =? 0 then Fault ErrDivModByZero else spec_from_big (Z.quot a b)
  | MMod => if b =? 0 then Fault ErrDivModByZero else spec_from_big (Z.rem a b)
  | MMax => spec_from_big (Z.max a b)
  | MMin => spec_from_big (Z.min a b)
  | MAnd => spec_from_big (Z.land a b)
  | MOr => spec_from_big (Z.lor a b)
  | MXor => spec_from_big (Z.lxor a b)
  | MLsh => if shift_count_ok b then
              if b >? 8 * MAX_INT_SIZE then Fault ErrOverMaxBigIntegerSize else spec_from_big (a * 2 ^ b)
            else Fault ErrShiftByNeg
  | MRsh => if shift_count_ok b then spec_from_big (a / 2 ^ b) else Fault ErrShiftByNeg
  end.

Lemma iv_bin_exact m x y : iv_wf x = true -> iv_wf y = true ->
  (m = MRsh -> in_bound (val x) = true) ->
  iv_bin m x y = spec_bin m (val x) (val y).
Proof.
  intros Hx Hy Hb. destruct m; cbn [iv_bin spec_bin];
    auto using iv_add_exact, iv_sub_exact, iv_mul_exact, iv_div_exact, iv_mod_exact, iv_max_exact,
      iv_min_exact, iv_and_exact, iv_or_exact, iv_xor_exact, iv_lsh_exact, iv_rsh_exact.
Qed.

Lemma repr_irrelevant_bin m x x' y y' :
  iv_wf x = true -> iv_wf x' = true -> iv_wf y = true -> iv_wf y' = true ->
  val x = val x' -> val y = val y' ->
  (m = MRsh -> in_bound (val x) = true) ->
  iv_bin m x y = iv_bin m x' y'.
Proof.
  intros Hx Hx' Hy Hy' Ex Ey Hb.
  rewrite !iv_bin_exact by (auto; rewrite <- ?Ex; auto). rewrite Ex, Ey. reflexivity.
Qed.

(** * The executor *)
Lemma operand_in_bound it z : item_wf it = true -> operand it = Ok z -> in_bound z = true.
Proof.
  destruct it; cbn [operand item_wf]; intros H E; try discriminate.
  - inversion E; subst. apply int64_in_bound, is_int64_iff, H.
  - destruct (in_bound z0) eqn:B; inversion E; subst; assumption.
  - inversion E; subst. destruct b; reflexivity.
  - destruct (in_bound z0) eqn:B; inversion E; subst; assumption.
Qed.

Lemma as_int_value_spec it : item_wf it = true ->
  as_int_value it = (z <- operand it ;; Ok (norm z)).
Proof.
  destruct it; cbn [as_int_value operand item_wf bind]; intro H; try reflexivity.
  - unfold from_int. rewrite norm_int64; [reflexivity|]. apply is_int64_iff, H.
  - rewrite from_big_spec. unfold spec_from_big. destruct (in_bound z); reflexivity.
  - destruct b; reflexivity.
  - rewrite from_big_spec. unfold spec_from_big. destruct (in_bound z); reflexivity.
Qed.

Lemma push_ok st v : Z.of_nat (length st) < STACK_LIMIT -> push st v = Ok (v :: st).
Proof. unfold push. intro H. destruct (Z.of_nat (length st) >=? STACK_LIMIT) eqn:E; [lia|reflexivity]. Qed.

Lemma item_of_norm z : item_of_int (norm z) = norm_item z.
Proof. unfold norm, norm_item. destruct (is_int64 z); reflexivity. Qed.

Lemma finish_int r rest : Z.of_nat (length rest) < STACK_LIMIT ->
  (v <- spec_from_big r ;; push rest (item_of_int v)) = ret_int r rest.
Proof.
  intro H. unfold spec_from_big, ret_int. destruct (in_bound r); cbn [bind]; [|reflexivity].
  rewrite push_ok by assumption. rewrite item_of_norm. reflexivity.
Qed.

Lemma finish_bool b rest : Z.of_nat (length rest) < STACK_LIMIT -> push rest (IBool b) = ret_bool b rest.
Proof. intro H. rewrite push_ok by assumption. reflexivity. Qed.

Lemma stack_wf_cons a st : stack_wf (a :: st) = true <-> item_wf a = true /\ stack_wf st = true.
Proof. unfold stack_wf. cbn [forallb]. rewrite andb_true_iff. reflexivity. Qed.

Lemma pop_int_spec st : stack_wf st = true ->
  pop_int st = ('(a, rest) <- pop st ;; z <- operand a ;; Ok (norm z, rest)).
Proof.
  destruct st as [|a rest]; [reflexivity|]. intro H. apply stack_wf_cons in H as [Ha _].
  unfold pop_int. cbn [pop bind]. rewrite (as_int_value_spec a Ha).
  destruct (operand a); reflexivity.
Qed.

Ltac stack_len :=
  unfold stack_within_limit in *; cbn [length] in *; rewrite ?Nat2Z.inj_succ in *; lia.

(** One-operand opcodes. *)
Lemma exec_unary op st :
  match op with INVERT | INC | DEC | SIGN | NEGATE | ABS | NZ => True | _ => False end ->
  stack_wf st = true -> stack_within_limit st = true -> in_finding_class op st = false ->
  exec_op op st = spec_exec op st.
Proof.
  intros Hop Hwf Hlim Hfc.
  destruct st as [|a rest].
  { destruct op; try contradiction; reflexivity. }
  pose proof Hwf as Hwf0. apply stack_wf_cons in Hwf as [Ha Hrest].
  assert (Z.of_nat (length rest) < STACK_LIMIT) as Hlen by stack_len.
  assert (exec_op op (a :: rest) =
          (z <- operand a ;;
           match op with
           | INVERT => push rest (item_of_int (iv_not (norm z)))
           | NZ => push rest (IBool (negb (iv_cmp (norm z) (from_int nz_base) =? 0)))
           | _ => v <- (match op with
                        | INC => iv_add (norm z) (from_int inc_step)
                        | DEC => iv_sub (norm z) (from_int dec_step)
                        | SIGN => Ok (from_int (sign_result (iv_cmp (norm z) (from_int sign_base))))
                        | NEGATE => iv_sub (from_int negate_base) (norm z)
                        | _ => Ok (iv_abs (norm z))
                        end) ;; push rest (item_of_int v)
           end)) as ->.
  { destruct op; try contradiction; cbn [exec_op]; rewrite (pop_int_spec _ Hwf0); cbn [pop bind];
      destruct (operand a); reflexivity. }
  assert (spec_exec op (a :: rest) =
          (z <- operand a ;;
           match op with NZ => ret_bool (negb (z =? 0)) rest | _ => ret_int (exact_un op z) rest end)) as ->.
  { destruct op; try contradiction; reflexivity. }
  destruct (operand a) as [z|e] eqn:Ez; cbn [bind]; [|reflexivity].
  pose proof (operand_in_bound a z Ha Ez) as Hz.
  assert (iv_wf (from_int 1) = true) as W1 by reflexivity.
  assert (iv_wf (from_int 0) = true) as W0 by reflexivity.
  destruct op; try contradiction; cbn [exact_un].
  - (* INVERT *)
    rewrite iv_not_norm. rewrite push_ok by assumption. rewrite item_of_norm.
    unfold ret_int.
    assert (in_bound (- z - 1) = true) as ->; [|reflexivity].
    apply in_bound_iff in Hz. apply in_bound_iff.
    assert (z <> 2^256 - 1); [|lia].
    intro Hc. destruct a; cbn [operand in_finding_class] in *; try discriminate.
    + inversion Ez; subst. apply is_int64_iff in Ha. unfold int64 in Ha. lia.
    + destruct (in_bound z0); inversion Ez; subst. rewrite int_bound_val in Hfc. lia.
    + inversion Ez. destruct b; cbn in *; lia.
    + destruct (in_bound z0); inversion Ez; subst. rewrite int_bound_val in Hfc. lia.
  - (* INC *)
    change inc_step with 1. rewrite iv_add_exact by (auto using wf_norm). rewrite val_norm.
    apply finish_int; assumption.
  - (* DEC *)
    change dec_step with 1. rewrite iv_sub_exact by (auto using wf_norm). rewrite val_norm.
    apply finish_int; assumption.
  - (* SIGN *)
    change sign_base with 0. unfold sign_result. rewrite iv_cmp_exact by (auto using wf_norm). rewrite val_norm. cbn [val from_int bind].
    rewrite big_cmp_sgn. rewrite push_ok by assumption. unfold ret_int.
    assert (int64 (Z.sgn z)) as Hs by (unfold int64; lia).
    rewrite (int64_in_bound _ Hs). cbn [item_of_int]. unfold norm_item.
    apply is_int64_iff in Hs. rewrite Hs. reflexivity.
  - (* NEGATE *)
    change negate_base with 0. rewrite iv_sub_exact by (auto using wf_norm). rewrite val_norm.
    cbn [val from_int]. replace (0 - z) with (- z) by lia. apply finish_int; assumption.
  - (* ABS *)
    cbn [bind]. rewrite iv_abs_norm. rewrite push_ok by assumption. rewrite item_of_norm.
    unfold ret_int. assert (in_bound (Z.abs z) = true) as ->; [|reflexivity].
    apply in_bound_iff in Hz. apply in_bound_iff. lia.
  - (* NZ *)
    change nz_base with 0. rewrite iv_cmp_exact by (auto using wf_norm). rewrite val_norm. cbn [val from_int].
    rewrite big_cmp_eq. apply finish_bool; assumption.
Qed.

(** Two-operand arithmetic, bitwise and shift opcodes. *)
Definition binop_meth (op : opcode) : option binmeth :=
  match op with
  | ADD => Some MAdd | SUB => Some MSub | MUL => Some MMul | DIV => Some MDiv | MOD => Some MMod
  | MAX => Some MMax | MIN => Some MMin | AND => Some MAnd | OR => Some MOr | XOR => Some MXor
  | SHL => Some MLsh | SHR => Some MRsh
  | _ => None
  end.

Lemma spec_bin_exact_bin op m x y rest : binop_meth op = Some m ->
  Z.of_nat (length rest) < STACK_LIMIT ->
  (v <- spec_bin m x y ;; push rest (item_of_int v)) = (r <- exact_bin op x y ;; ret_int r rest).
Proof.
  intros Hm Hlen.
  destruct op; inversion Hm; subst; cbn [spec_bin exact_bin];
    repeat match goal with
           | |- context [if ?c then _ else _] => destruct c; cbn [bind negb]
           end; try reflexivity; apply finish_int; assumption.
Qed.

Lemma exec_binary op m st : binop_meth op = Some m ->
  stack_wf st = true -> stack_within_limit st = true ->
  exec_op op st = spec_exec op st.
Proof.
  intros Hm Hwf Hlim.
  assert (exec_op op st =
          ('(b, st1) <- pop st ;; y <- operand b ;;
           '(a, rest) <- pop st1 ;; x <- operand a ;;
           v <- iv_bin m (norm x) (norm y) ;; push rest (item_of_int v))) as ->.
  { destruct st as [|b [|a rest]].
    - destruct op; inversion Hm; reflexivity.
    - destruct op; inversion Hm; subst; cbn [exec_op]; try unfold pop_pair_int; rewrite (pop_int_spec _ Hwf);
        cbn [pop bind]; destruct (operand b); reflexivity.
    - pose proof Hwf as Hwf0. apply stack_wf_cons in Hwf as [Hb Hwf1].
      destruct op; inversion Hm; subst; cbn [exec_op]; try unfold pop_pair_int; rewrite (pop_int_spec _ Hwf0);
        cbn [pop bind]; (destruct (operand b); cbn [bind]; [|reflexivity]);
        rewrite (pop_int_spec _ Hwf1); cbn [pop bind]; (destruct (operand a); cbn [bind]; reflexivity). }
  assert (spec_exec op st =
          ('(b, st1) <- pop st ;; y <- operand b ;;
           '(a, rest) <- pop st1 ;; x <- operand a ;;
           r <- exact_bin op x y ;; ret_int r rest)) as ->.
  { destruct op; inversion Hm; reflexivity. }
  destruct st as [|b [|a rest]];
    [reflexivity | cbn [pop bind]; destruct (operand b); reflexivity |].
  cbn [pop bind].
  apply stack_wf_cons in Hwf as [Hb Hwf1]. apply stack_wf_cons in Hwf1 as [Ha Hrest].
  destruct (operand b) as [y|e] eqn:Ey; cbn [bind]; [|reflexivity].
  destruct (operand a) as [x|e] eqn:Ex; cbn [bind]; [|reflexivity].
  rewrite iv_bin_exact; auto using wf_norm.
  - rewrite !val_norm. apply spec_bin_exact_bin; [assumption|stack_len].
  - intros _. rewrite val_norm. eapply operand_in_bound; eauto.
Qed.

(** Comparison opcodes (no size bound on the operands). *)
Lemma as_big_int_cmp it : as_big_int it = cmp_operand it.
Proof. destruct it; reflexivity. Qed.
Lemma as_bytes_num_cmp it : as_bytes_num it = cmp_operand it.
Proof. destruct it; reflexivity. Qed.

Lemma exec_compare op st :
  match op with NUMEQUAL | NUMNOTEQUAL | LT | GT | LTE | GTE => True | _ => False end ->
  stack_within_limit st = true ->
  exec_op op st = spec_exec op st.
Proof.
  intros Hop Hlim.
  destruct st as [|b [|a rest]].
  - destruct op; try contradiction; reflexivity.
  - destruct op; try contradiction; cbn [exec_op spec_exec]; unfold pop_pair_bytes_num, pop_pair;
      cbn [pop bind]; rewrite ?as_bytes_num_cmp; try reflexivity; destruct (cmp_operand b); reflexivity.
  - assert (Z.of_nat (length rest) < STACK_LIMIT) as Hlen by stack_len.
    destruct op; try contradiction;
      cbn [exec_op spec_exec exact_cmp]; unfold pop_pair_bytes_num, pop_pair; cbn [pop bind];
      change as_big_int with cmp_operand; change as_bytes_num with cmp_operand;
      destruct (cmp_operand b) as [y|e]; cbn [pop bind];
      destruct (cmp_operand a) as [x|e']; cbn [pop bind]; try reflexivity;
      rewrite ?big_cmp_eq, ?big_cmp_lt, ?big_cmp_gt, ?big_cmp_le, ?big_cmp_ge;
      apply finish_bool; assumption.
Qed.

Lemma exec_within st : stack_wf st = true -> stack_within_limit st = true ->
  exec_op WITHIN st = spec_exec WITHIN st.
Proof.
  intros Hwf Hlim. cbn [exec_op spec_exec]. unfold pop_triple_int.
  destruct st as [|c st1]; [reflexivity|].
  rewrite (pop_int_spec _ Hwf). apply stack_wf_cons in Hwf as [Hc Hwf1]. cbn [pop bind].
  destruct (operand c) as [hi|e]; cbn [bind]; [|reflexivity].
  destruct st1 as [|b st2]; [reflexivity|].
  rewrite (pop_int_spec _ Hwf1). apply stack_wf_cons in Hwf1 as [Hb Hwf2]. cbn [pop bind].
  destruct (operand b) as [lo|e]; cbn [bind]; [|reflexivity].
  destruct st2 as [|a rest]; [reflexivity|].
  rewrite (pop_int_spec _ Hwf2). cbn [pop bind].
  destruct (operand a) as [x|e]; cbn [bind]; [|reflexivity].
  rewrite !iv_cmp_exact by (auto using wf_norm). rewrite !val_norm.
  rewrite big_cmp_ge, big_cmp_lt. apply finish_bool. stack_len.
Qed.

(** * Main statement: on every well-formed stack, every integer opcode does what the
    specification says, outside the INVERT finding class. *)
Theorem exec_op_exact op st :
  stack_wf st = true -> stack_within_limit st = true -> in_finding_class op st = false ->
  exec_op op st = spec_exec op st.
Proof.
  intros Hwf Hlim Hfc.
  destruct op;
    first [ apply exec_unary; solve [auto | exact I]
          | eapply exec_binary; solve [eauto | reflexivity]
          | apply exec_compare; solve [auto | exact I]
          | apply exec_within; assumption ].
Qed.

(** The finding: INVERT of 2^256 - 1 pushes -2^256, which is outside the bound, instead of faulting. *)
Lemma invert_witness :
  exec_op INVERT [IBytes (int_bound - 1)] = Ok [IBigInt (- int_bound)] /\
  spec_exec INVERT [IBytes (int_bound - 1)] = Fault ErrOverMaxBigIntegerSize /\
  in_bound (- int_bound) = false.
Proof. vm_compute. auto. Qed.

(** Results keep the stack well-formed (an integerType item always holds an int64). *)
Lemma spec_exec_wf op st st' : stack_wf st = true -> spec_exec op st = Ok st' -> stack_wf st' = true.
Proof.
  intros Hwf H.
  assert (forall z rest r, stack_wf rest = true -> ret_int z rest = Ok r -> stack_wf r = true) as Hri.
  { intros z rest r Hr E. unfold ret_int in E. destruct (in_bound z); inversion E; subst.
    apply stack_wf_cons. split; [|assumption]. unfold norm_item. destruct (is_int64 z) eqn:E1; auto. }
  assert (forall b rest r, stack_wf rest = true -> ret_bool b rest = Ok r -> stack_wf r = true) as Hrb.
  { intros b rest r Hr E. inversion E; subst. apply stack_wf_cons. auto. }
  destruct st as [|c [|b [|a rest]]];
    repeat match goal with
           | H : stack_wf (_ :: _) = true |- _ => apply stack_wf_cons in H as [? ?]
           end;
    destruct op; cbn [spec_exec pop bind] in H; try discriminate;
    repeat match type of H with
           | context [operand ?i] => destruct (operand i); cbn [bind] in H; try discriminate
           | context [cmp_operand ?i] => destruct (cmp_operand i); cbn [bind] in H; try discriminate
           | context [exact_bin ?o ?x ?y] => destruct (exact_bin o x y); cbn [bind] in H; try discriminate
           end;
    first [ eapply Hri; [|eassumption] | eapply Hrb; [|eassumption] ];
    repeat (apply stack_wf_cons; split); auto.
Qed.

(** Division and remainder conventions, stated explicitly. *)
Lemma quot_rem_convention x y : y <> 0 ->
  x = y * Z.quot x y + Z.rem x y /\
  Z.abs (Z.rem x y) < Z.abs y /\
  0 <= Z.sgn (Z.rem x y) * Z.sgn x /\
  Z.abs (Z.quot x y) = Z.abs x / Z.abs y.
Proof.
  intro H. repeat split.
  - apply Z.quot_rem'.
  - apply Z.rem_bound_abs; assumption.
  - pose proof (Z.rem_sign_mul x y H). lia.
  - rewrite <- Z.quot_abs by assumption. apply Z.quot_div_nonneg; lia.
Qed.
