(** Proofs for Model/VmMapOrder.v (property C15), part 2: the detector's map branch, Serialize and
    Stringify under a schedule against the outcome sets of C14's model. *)
From Coq Require Import List Bool Arith NArith ZArith Lia Permutation.
Import ListNotations.
From Ont Require Import Lib.Bytes Model.NeoInt Gen.VmValueConsts Model.VmValue Model.VmMapOrder.
From Ont Require Import Proofs.VmValueLib Proofs.VmValueCycle Proofs.VmMapOrder.
Local Open Scope N_scope.

(** * The detector: the answers reachable by schedules are exactly C14's answer set *)
Definition in_dset (b : bool) (d : dset) : Prop := (if b then snd d else fst d) = true.

Lemma fold_dunion_in {A} (g : A -> dset) l e b : In e l -> in_dset b (g e) ->
  in_dset b (fold_right (fun e acc => dunion (g e) acc) (false, false) l).
Proof.
  unfold in_dset. induction l as [|x r IH]; intros Hin Hb; [destruct Hin|].
  cbn [fold_right]. destruct Hin as [->|Hin].
  - destruct b; cbn; rewrite Hb; reflexivity.
  - specialize (IH Hin Hb). destruct b; cbn; rewrite IH; apply orb_true_r.
Qed.

Lemma fold_dunion_inv {A} (g : A -> dset) l b :
  in_dset b (fold_right (fun e acc => dunion (g e) acc) (false, false) l) -> exists e, In e l /\ in_dset b (g e).
Proof.
  unfold in_dset. induction l as [|x r IH]; cbn [fold_right]; intro H.
  - destruct b; discriminate.
  - assert (Hc : in_dset b (g x) \/ in_dset b (fold_right (fun e acc => dunion (g e) acc) (false, false) r)).
    { unfold in_dset. destruct b; cbn in H; apply orb_true_iff in H; exact H. }
    destruct Hc as [Hc|Hc]; [exists x; split; [left; reflexivity|exact Hc]|].
    destruct (IH Hc) as [e [Hin He]]. exists e. split; [right; exact Hin|exact He].
Qed.

(** soundness: whatever the schedule, the answer of this run is in the set *)
Theorem detect_s_sound h : forall rem vis v sch, in_dset (fst (detect_s h rem vis v sch)) (detect h rem vis v).
Proof.
  induction rem as [|rem IH]; intros vis v sch; [reflexivity|].
  rewrite detect_S. cbn [detect_s].
  destruct v as [p|a|a|a|]; try reflexivity.
  - destruct (get_list h a) as [|x r]; [reflexivity|].
    destruct (mem_addr (false, a) vis); [reflexivity|apply IH].
  - destruct (get_list h a) as [|x r]; [reflexivity|].
    destruct (mem_addr (false, a) vis); [reflexivity|apply IH].
  - destruct (mem_addr (true, a) vis); [reflexivity|].
    destruct (next_ord sch) as [p sch'].
    destruct (reorder p (get_map h a)) as [|e r] eqn:E.
    + apply reorder_is_nil in E. rewrite E. reflexivity.
    + pose proof (reorder_head_in _ _ _ _ E) as Hin.
      destruct (get_map h a) as [|e0 es] eqn:Em; [destruct Hin|].
      apply (fold_dunion_in (fun e => detect h rem ((true, a) :: vis) (snd e)) (e0 :: es) e); [exact Hin|apply IH].
Qed.

(** completeness: every member of the set is the answer of some run *)
Theorem detect_s_complete h : forall rem vis v b, in_dset b (detect h rem vis v) ->
  exists sch, fst (detect_s h rem vis v sch) = b.
Proof.
  induction rem as [|rem IH]; intros vis v b Hb.
  - exists []. cbn in *. destruct b; [reflexivity|discriminate].
  - rewrite detect_S in Hb. cbn [detect_s].
    destruct v as [p|a|a|a|].
    + exists []. destruct b; [discriminate|reflexivity].
    + destruct (get_list h a) as [|x r]; [exists []; destruct b; [discriminate|reflexivity]|].
      destruct (mem_addr (false, a) vis); [exists []; destruct b; [reflexivity|discriminate]|].
      apply IH. exact Hb.
    + destruct (get_list h a) as [|x r]; [exists []; destruct b; [discriminate|reflexivity]|].
      destruct (mem_addr (false, a) vis); [exists []; destruct b; [reflexivity|discriminate]|].
      apply IH. exact Hb.
    + destruct (mem_addr (true, a) vis); [exists []; destruct b; [reflexivity|discriminate]|].
      destruct (get_map h a) as [|e0 es] eqn:Em.
      * exists []. cbn. destruct b; [discriminate|reflexivity].
      * apply fold_dunion_inv in Hb. destruct Hb as [e [Hin He]].
        destruct (IH _ _ _ He) as [sch' Hs].
        destruct (in_nth_lt e0 (e0 :: es) e Hin) as [i [Hi Ei]].
        exists ([i] :: sch'). cbn [next_ord reorder]. rewrite (Nat.mod_small _ _ Hi), Ei. exact Hs.
    + exists []. destruct b; [discriminate|reflexivity].
Qed.

(** so: the detector's answer is independent of iteration order exactly when the set is a singleton *)
Corollary detect_s_deterministic h rem vis v :
  detect h rem vis v <> (true, true) -> forall sch sch', fst (detect_s h rem vis v sch) = fst (detect_s h rem vis v sch').
Proof.
  intros Hne sch sch'.
  pose proof (detect_s_sound h rem vis v sch) as H1. pose proof (detect_s_sound h rem vis v sch') as H2.
  unfold in_dset in *. destruct (detect h rem vis v) as [[|] [|]]; cbn in *;
    destruct (fst (detect_s h rem vis v sch)), (fst (detect_s h rem vis v sch')); congruence.
Qed.

Corollary detect_s_order_dependent h rem vis v :
  detect h rem vis v = (true, true) -> exists sch sch', fst (detect_s h rem vis v sch) <> fst (detect_s h rem vis v sch').
Proof.
  intro E.
  destruct (detect_s_complete h rem vis v false) as [s1 H1]; [unfold in_dset; rewrite E; reflexivity|].
  destruct (detect_s_complete h rem vis v true) as [s2 H2]; [unfold in_dset; rewrite E; reflexivity|].
  exists s1, s2. congruence.
Qed.

(** * Outcome sets *)
Lemma in_rs_ret s : in_rs (SOk s) (rs_ret s).
Proof. reflexivity. Qed.

Lemma in_rs_bind_ok a k s x : in_rs (SOk s) a -> in_rs x (k s) -> in_rs x (rs_bind a k).
Proof.
  unfold in_rs. intros Ha Hx. destruct x as [t|e|].
  - rewrite r_ok_bind, Ha. exact Hx.
  - rewrite r_errs_bind, Ha. apply in_or_app. right. exact Hx.
  - rewrite r_oof_bind, Ha, Hx. apply orb_true_r.
Qed.

Lemma in_rs_bind_stop a k x : (forall s, x <> SOk s) -> in_rs x a -> in_rs x (rs_bind a k).
Proof.
  unfold in_rs. intros Hn Ha. destruct x as [t|e|].
  - exfalso. apply (Hn t). reflexivity.
  - rewrite r_errs_bind. apply in_or_app. left. exact Ha.
  - rewrite r_oof_bind, Ha. reflexivity.
Qed.

(** soundness is preserved by sequencing *)
Lemma sbind_sound (a_s : sres * sched) (k_s : bytes -> sched -> sres * sched) (a : rs) (k : bytes -> rs) :
  in_rs (fst a_s) a -> (forall s sch, in_rs (fst (k_s s sch)) (k s)) -> in_rs (fst (sbind a_s k_s)) (rs_bind a k).
Proof.
  intros Ha Hk. destruct a_s as [[s|e|] sch]; cbn [sbind fst] in *.
  - apply (in_rs_bind_ok a k s); [exact Ha|apply Hk].
  - apply in_rs_bind_stop; [intros s; discriminate|exact Ha].
  - apply in_rs_bind_stop; [intros s; discriminate|exact Ha].
Qed.

Lemma check_size_sound base s sch : in_rs (fst (check_size_s base s sch)) (check_size base s).
Proof. unfold check_size_s, check_size. cbn [fst]. destruct (max_ser_size <? _); cbn; [left|]; reflexivity. Qed.

Section Loops.
  Variables (rec_s : hval -> bytes -> sched -> sres * sched) (rec : hval -> bytes -> rs).
  Hypothesis Hrec : forall x s sch, in_rs (fst (rec_s x s sch)) (rec x s).

  Lemma ser_list_sound : forall l s sch, in_rs (fst (ser_list_s rec_s l s sch)) (ser_list rec l s).
  Proof.
    induction l as [|x r IH]; intros s sch; cbn [ser_list_s ser_list]; [reflexivity|].
    apply sbind_sound; [apply Hrec|exact IH].
  Qed.

  Lemma ser_entries_sound : forall l s sch, in_rs (fst (ser_entries_s rec_s l s sch)) (ser_entries rec l s).
  Proof.
    induction l as [|e r IH]; intros s sch; cbn [ser_entries_s ser_entries]; [reflexivity|].
    apply sbind_sound; [apply Hrec|]. intros s1 sch1. apply sbind_sound; [apply Hrec|exact IH].
  Qed.
End Loops.

Lemma get_map_wf h a : maps_wf h -> NoDup (map key_image (get_map h a)).
Proof.
  intro Hw. unfold get_map. destruct (nth_error h a) as [[l|m]|] eqn:E; try constructor.
  unfold maps_wf in Hw. rewrite Forall_forall in Hw. apply (Hw (OMap m)). eapply nth_error_In. exact E.
Qed.

Lemma in_rs_guarded_true h v body : snd (detect_top h v) = true -> in_rs (SErr ECircular) (guarded h v body).
Proof.
  intro Hd. unfold guarded, in_rs. rewrite Hd. cbn. left. reflexivity.
Qed.

Lemma in_rs_guarded_false h v body x : fst (detect_top h v) = true -> in_rs x body -> in_rs x (guarded h v body).
Proof.
  intros Hd Hx. unfold guarded. rewrite Hd. unfold rs_alt.
  destruct (snd (detect_top h v)); destruct x as [t|e|]; cbn in *; try exact Hx.
  right. exact Hx.
Qed.

(** SOUNDNESS of C14's outcome sets for Serialize: whatever orders Go chooses, the result of the run
    is in the set. Needs the heap invariant (key images of one map pairwise distinct). *)
Theorem serialize_s_sound h base : maps_wf h ->
  forall fuel v s sch, in_rs (fst (h_serialize_s h base fuel v s sch)) (h_serialize h base fuel v s).
Proof.
  intro Hw. induction fuel as [|f IH]; intros v s sch; [reflexivity|].
  cbn [h_serialize_s h_serialize].
  pose proof (detect_s_sound h (S max_struct_depth) [] v sch) as Hd. fold (detect_top h v) in Hd.
  unfold detect_top_s. destruct (detect_s h (S max_struct_depth) [] v sch) as [b sch1]. cbn [fst] in Hd.
  unfold in_dset in Hd. destruct b; [apply in_rs_guarded_true; exact Hd|].
  apply in_rs_guarded_false; [exact Hd|].
  destruct v as [p|a|a|a|]; cbn [ser_body_s ser_body].
  - apply check_size_sound.
  - apply sbind_sound; [apply ser_list_sound; exact IH|apply check_size_sound].
  - apply sbind_sound; [apply ser_list_sound; exact IH|apply check_size_sound].
  - destruct (next_ord sch1) as [p sch2].
    rewrite (map_sorted_entries_spec p _ (get_map_wf h a Hw)).
    apply sbind_sound; [apply ser_entries_sound; exact IH|apply check_size_sound].
  - cbn. left. reflexivity.
Qed.

(** * Singletons *)
Lemma serr_eqb_eq a b : serr_eqb a b = true -> a = b.
Proof. destruct a, b; cbn; congruence. Qed.

Theorem rs_single_unique r x y : in_rs x r -> rs_single r = Some y -> x = y.
Proof.
  unfold rs_single, in_rs. intros Hx Hy.
  destruct (r_ok r) as [s|] eqn:Eo.
  - destruct (r_errs r) as [|e es] eqn:Ee; [|discriminate]. destruct (r_oof r) eqn:Ef; [discriminate|].
    injection Hy as <-. destruct x as [t|e|]; [congruence|destruct Hx|discriminate].
  - destruct (r_errs r) as [|e es] eqn:Ee.
    + destruct (r_oof r) eqn:Ef; [|discriminate].
      injection Hy as <-. destruct x as [t|e|]; [discriminate|destruct Hx|reflexivity].
    + destruct (r_oof r) eqn:Ef; [discriminate|].
      destruct (forallb (serr_eqb e) es) eqn:Ea; [|discriminate]. injection Hy as <-.
      destruct x as [t|e'|]; [discriminate| |discriminate].
      destruct Hx as [->|Hx]; [reflexivity|]. rewrite forallb_forall in Ea. f_equal. symmetry.
      apply serr_eqb_eq. apply Ea. exact Hx.
Qed.

(** Serialize: when C14's outcome set is a singleton, every schedule produces its element *)
Theorem serialize_perm_irrelevant h base fuel v s o : maps_wf h ->
  rs_single (h_serialize h base fuel v s) = Some o ->
  forall sch, fst (h_serialize_s h base fuel v s sch) = o.
Proof.
  intros Hw Hs sch. eapply rs_single_unique; [apply serialize_s_sound; exact Hw|exact Hs].
Qed.

(** * stringify(): no schedule dependence at all; Stringify(): only through the detector *)
Section StrLoops.
  Variables (rec : hval -> sched -> option bytes * sched).
  Hypothesis Hrec : forall x sch sch', fst (rec x sch) = fst (rec x sch').

  Lemma str_list_indep : forall l acc sch sch', fst (str_list rec l acc sch) = fst (str_list rec l acc sch').
  Proof.
    induction l as [|x r IH]; intros acc sch sch'; cbn [str_list]; [reflexivity|].
    pose proof (Hrec x sch sch') as E.
    destruct (rec x sch) as [[t|] s1], (rec x sch') as [[t'|] s2]; cbn [fst] in E; try discriminate; [|reflexivity].
    injection E as <-. apply IH.
  Qed.

  Lemma str_entries_indep : forall l acc sch sch', fst (str_entries rec l acc sch) = fst (str_entries rec l acc sch').
  Proof.
    induction l as [|e r IH]; intros acc sch sch'; cbn [str_entries]; [reflexivity|].
    pose proof (Hrec (snd e) sch sch') as E.
    destruct (rec (snd e) sch) as [[t|] s1], (rec (snd e) sch') as [[t'|] s2]; cbn [fst] in E; try discriminate; [|reflexivity].
    injection E as <-. apply IH.
  Qed.
End StrLoops.

Lemma fst_wrap pre n r r' : fst r = fst r' -> fst (wrap pre n r) = fst (wrap pre n r').
Proof. destruct r as [[d|] s], r' as [[d'|] s']; cbn; congruence. Qed.

Theorem stringify_s_indep h : forall fuel v sch sch', fst (stringify_s h fuel v sch) = fst (stringify_s h fuel v sch').
Proof.
  induction fuel as [|f IH]; intros v sch sch'; [reflexivity|].
  cbn [stringify_s]. destruct v as [p|a|a|a|]; try reflexivity.
  - apply fst_wrap. apply str_list_indep. exact IH.
  - apply fst_wrap. apply str_list_indep. exact IH.
  - destruct (next_ord sch) as [p s1], (next_ord sch') as [p' s1'].
    rewrite (map_sorted_entries_perm_irrelevant p p').
    apply fst_wrap. apply str_entries_indep. exact IH.
Qed.

Theorem stringify_perm_irrelevant h fuel v : detect_top h v <> (true, true) ->
  forall sch sch', fst (h_stringify_s h fuel v sch) = fst (h_stringify_s h fuel v sch').
Proof.
  intros Hd sch sch'. unfold h_stringify_s.
  pose proof (detect_s_deterministic h (S max_struct_depth) [] v Hd sch sch') as E.
  unfold detect_top_s. destruct (detect_s h (S max_struct_depth) [] v sch) as [b s1],
    (detect_s h (S max_struct_depth) [] v sch') as [b' s1']. cbn [fst] in E. subst b'.
  destruct b; [reflexivity|].
  pose proof (stringify_s_indep h fuel v s1 s1') as E.
  destruct (stringify_s h fuel v s1) as [[t|] s2], (stringify_s h fuel v s1') as [[t'|] s2']; cbn [fst] in *; congruence.
Qed.
