(** The source-shape obligations of C16 that are about names and counts (kept apart from
    Proofs/Sig.v because they need string literals). *)
From Coq Require Import List String.
From Ont Require Import Gen.SigGuards.

(** The decision structure of checkTransactionSignatures the model mirrors: the only accept
    before the loop over tx.Sigs is the EIP-155 early return ([v_eip]), none inside the loop, and
    the final unconditional `return nil`; one rejection before the loop (too many sets), five
    inside (GetSig, parameter length, single verification, multi verification, address), one after
    (payer).  The inventory is read from the source on every run. *)
Lemma cts_return_shape :
  cts_accept_guards_before_loop = ("tx.IsEipTx()"%string :: nil)%list /\
  cts_accepts_in_loop = 0%nat /\ cts_accepts_after_loop = 1%nat /\
  cts_final_return_is_unconditional_nil = true /\
  cts_rejects_before_loop = 1%nat /\ cts_rejects_in_loop = 5%nat /\ cts_rejects_after_loop = 1%nat.
Proof. repeat split; reflexivity. Qed.

