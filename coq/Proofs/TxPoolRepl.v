(** C35 — the (payer, nonce) slots of the pool: a slot changes occupant only by AddTxList's
    replacement rule; the rule's integer arithmetic. *)
From Coq Require Import List Bool NArith ZArith Lia ZifyN ZifyBool.
Import ListNotations.
From Ont Require Import Model.TxPool Proofs.TxPoolAL Proofs.TxPoolInv.
Local Open Scope N_scope.
Ltac Zify.zify_post_hook ::= Z.to_euclidean_division_equations.

Definition slot (p : pool) (P n : N) : option tx :=
  match aget P (p_eips p) with Some m => aget n m | None => None end.

Definition eslot (e : list (N * smap)) (P n : N) : option tx :=
  match aget P e with Some m => aget n m | None => None end.

Definition emono (e' e : list (N * smap)) : Prop := forall P n t, eslot e' P n = Some t -> eslot e P n = Some t.
Definition slot_mono (p' p : pool) : Prop := emono (p_eips p') (p_eips p).

Lemma emono_refl e : emono e e. Proof. intros P n t H; exact H. Qed.
Lemma emono_trans a b c : emono a b -> emono b c -> emono a c.
Proof. intros H1 H2 P n t H. auto. Qed.

Lemma emono_adel k e : emono (adel k e) e.
Proof.
  intros P n t. unfold eslot. rewrite aget_adel. destruct (P =? k); [discriminate|auto].
Qed.

Lemma emono_aput k m m' e : aget k e = Some m -> (forall n t, aget n m' = Some t -> aget n m = Some t) ->
  emono (aput k m' e) e.
Proof.
  intros Hg Hs P n t. unfold eslot. unfold smap in *. rewrite aget_aput. destruct (N.eqb_spec P k) as [->|]; [rewrite Hg; auto|auto].
Qed.

Lemma aget_filter_key (g : N -> bool) (m : smap) n :
  aget n (filter (fun kv => g (fst kv)) m) = if g n then aget n m else None.
Proof.
  induction m as [|[k v] r IH]; simpl; [destruct (g n); reflexivity|].
  destruct (g k) eqn:Eg; simpl.
  - destruct (N.eqb_spec n k); [subst; rewrite Eg; reflexivity|exact IH].
  - rewrite IH. destruct (N.eqb_spec n k); [subst; rewrite Eg; reflexivity|reflexivity].
Qed.

Lemma eips_remove_emono payer nonce e : emono (fst (eips_remove payer nonce e)) e.
Proof.
  unfold eips_remove. destruct (aget payer e) as [m|] eqn:E; simpl; [|apply emono_refl].
  eapply emono_aput; eauto. intros n t. rewrite aget_adel. destruct (n =? nonce); [discriminate|auto].
Qed.

Lemma clean_completed_eip_mono txs height : forall p, slot_mono (snd (clean_completed_eip txs height p)) p.
Proof.
  unfold slot_mono. induction txs as [|t r IH]; intro p; [apply emono_refl|]. simpl.
  set (s1 := if tx_eip t then _ else _).
  assert (H1 : emono (p_eips (snd s1)) (p_eips p)).
  { unfold s1. destruct (tx_eip t); [|apply emono_refl].
    destruct (aget (tx_payer t) (p_eips p)) as [m|] eqn:E; [|apply emono_refl].
    unfold sm_forward. cbv beta iota.
    destruct (filter (fun kv : N * tx => negb (fst kv <? forward_threshold (tx_nonce t))) m) as [|x m'] eqn:Ef.
    - simpl. apply emono_adel.
    - simpl. eapply emono_aput; eauto. intros n t0. rewrite <- Ef.
      rewrite (aget_filter_key (fun k => negb (k <? forward_threshold (tx_nonce t)))).
      destruct (negb _); [auto|discriminate]. }
  destruct s1 as [c1 p1]. simpl in H1.
  specialize (IH p1). destruct (clean_completed_eip r height p1) as [c2 p2]. simpl in *.
  eapply emono_trans; eauto.
Qed.

Lemma clean_completed_mono txs height p : slot_mono (clean_completed txs height p) p.
Proof.
  unfold clean_completed. pose proof (clean_completed_eip_mono txs height p) as H.
  destruct (clean_completed_eip txs height p) as [cleaned p1]. exact H.
Qed.

Lemma fold_mono {A} (f : pool -> A -> pool) (l : list A) :
  (forall p x, slot_mono (f p x) p) -> forall p, slot_mono (fold_left f l p) p.
Proof.
  intros Hf. induction l as [|x r IH]; intro p; simpl; [apply emono_refl|].
  eapply emono_trans; [apply IH|apply Hf].
Qed.

Lemma clean_staled_mono height p : slot_mono (clean_staled height p) p.
Proof.
  unfold clean_staled. destruct (MAX_LIMITATION <? _); [|apply emono_refl].
  apply fold_mono. intros p0 [addr [h n]]. unfold slot_mono.
  destruct (_ <=? height); [|apply emono_refl].
  destruct (aget addr (p_eips p0)) as [m|]; simpl; [apply emono_adel|apply emono_refl].
Qed.

Lemma fold_mono_ok {A} (f : pool * bool -> A -> pool * bool) (l : list A) :
  (forall p b x, slot_mono (fst (f (p, b) x)) p) -> forall p b, slot_mono (fst (fold_left f l (p, b))) p.
Proof.
  intros Hf. induction l as [|x r IH]; intros p b; simpl; [apply emono_refl|].
  destruct (f (p, b) x) as [p1 b1] eqn:E. eapply emono_trans; [apply IH|].
  specialize (Hf p b x). rewrite E in Hf. exact Hf.
Qed.

Lemma drop_tx_mono p b t : slot_mono (fst (drop_tx (p, b) t)) p.
Proof.
  unfold drop_tx, slot_mono. destruct (tx_eip t).
  - pose proof (eips_remove_emono (tx_payer t) (tx_nonce t) (p_eips p)) as H.
    destruct (eips_remove _ _ _) as [e' ok']. exact H.
  - apply emono_refl.
Qed.

Lemma remove_below_price_mono g p : slot_mono (fst (remove_below_price g p)) p.
Proof.
  unfold remove_below_price. apply fold_mono_ok. intros p0 b kv.
  destruct (tx_price _ <? g); [|apply emono_refl].
  apply (drop_tx_mono p0 b (v_tx (snd kv))).
Qed.

Lemma remain_mono p : slot_mono (snd (remain p)) p.
Proof. intros P n t H. discriminate. Qed.

Lemma get_tx_pool_mono o bc h mx p : slot_mono (g_pool (get_tx_pool o bc h mx p)) p.
Proof.
  unfold get_tx_pool. cbv zeta.
  destruct (gtp_loop _ h _ [] []) as [valid old].
  pose proof (fold_mono_ok drop_tx old drop_tx_mono p true) as H.
  unfold drop_tx in H.
  match goal with |- context [fold_left ?f old (p, true)] => destruct (fold_left f old (p, true)) as [p' ok] end.
  exact H.
Qed.

(** AddTxList: a slot keeps its occupant, or receives the submitted transaction under the rule *)
Definition repl_case (p : pool) (t : tx) (P n : N) (t' : tx) : Prop :=
  t' = t /\ P = tx_payer t /\ n = tx_nonce t /\
  forall t0, slot p P n = Some t0 -> repl_rhs (tx_price t0) < tx_price t.

Lemma add_eip_slot p t p1 rep code :
  add_eip_tx_pool p t = (p1, rep, code) ->
  forall P n t', slot p1 P n = Some t' -> slot p P n = Some t' \/ repl_case p t P n t'.
Proof.
  unfold add_eip_tx_pool. intros H P n t'.
  set (items := match aget (tx_payer t) (p_eips p) with Some m => m | None => [] end) in *.
  assert (Hitems : forall k, aget k items = slot p (tx_payer t) k).
  { intro k. unfold slot, items. destruct (aget (tx_payer t) (p_eips p)); reflexivity. }
  assert (Hput : forall ok : (forall t0, aget (tx_nonce t) items = Some t0 -> repl_rhs (tx_price t0) < tx_price t),
    slot (mkPool (p_valid p) (aput (tx_payer t) (aput (tx_nonce t) t items) (p_eips p)) (p_latest p)) P n = Some t' ->
    slot p P n = Some t' \/ repl_case p t P n t').
  { intros ok. unfold slot at 1. simpl. rewrite aget_aput.
    destruct (N.eqb_spec P (tx_payer t)) as [->|]; [|unfold slot; auto].
    rewrite aget_aput. destruct (N.eqb_spec n (tx_nonce t)) as [->|]; [|rewrite Hitems; auto].
    intro E. inversion E; subst t'. right. repeat split; auto. intros t0. rewrite <- Hitems. apply ok. }
  destruct (aget (tx_nonce t) items) as [old|] eqn:Eo.
  - destruct (N.ltb_spec (repl_rhs (tx_price old)) (tx_price t)); inversion H; subst; auto.
    apply Hput. intros t0 E0. inversion E0; subst. auto.
  - inversion H; subst. apply Hput. discriminate.
Qed.

Lemma add_tx_list_slot p e P n t' :
  slot (fst (add_tx_list p e)) P n = Some t' -> slot p P n = Some t' \/ repl_case p (v_tx e) P n t'.
Proof.
  unfold add_tx_list.
  assert (Hfin : forall p0, slot (fst (if ahas (tx_hash (v_tx e)) (p_valid p0) then (p0, EDuplicated)
      else (mkPool (aput (tx_hash (v_tx e)) e (p_valid p0)) (p_eips p0) (p_latest p0), ENoError))) P n = slot p0 P n).
  { intro p0. destruct (ahas _ _); reflexivity. }
  destruct (tx_eip (v_tx e)); [|rewrite Hfin; auto].
  destruct (gap_rhs (v_nonce e) <=? tx_nonce (v_tx e)); [simpl; auto|].
  destruct (add_eip_tx_pool p (v_tx e)) as [[p1 rep] code] eqn:E.
  pose proof (add_eip_slot _ _ _ _ _ E P n t') as H1.
  set (p2 := match rep with Some o => mkPool (adel (tx_hash o) (p_valid p1)) (p_eips p1) (p_latest p1) | None => p1 end).
  assert (E2 : forall q, slot p2 q n = slot p1 q n) by (intro q; unfold p2; destruct rep; reflexivity).
  destruct code; simpl; try (rewrite E2; exact H1).
  rewrite Hfin. destruct (ahas (tx_payer (v_tx e)) (p_latest p2)); [rewrite E2; exact H1|].
  unfold slot at 1. simpl. fold (slot p2 P n). rewrite E2. exact H1.
Qed.

(** world level: in any step of any history, a slot changes occupant only by a submission of
    the new occupant whose price exceeds the code's threshold of the old one *)
Theorem step_slot o w x P n t0 t' :
  slot (w_pool w) P n = Some t0 -> slot (w_pool (step o w x)) P n = Some t' -> t' <> t0 ->
  exists vh vn, x = OSubmit t' vh vn /\ tx_payer t' = P /\ tx_nonce t' = n /\
                repl_rhs (tx_price t0) < tx_price t'.
Proof.
  intros H0 H1 Hne.
  assert (Hm : forall p', slot_mono p' (w_pool w) -> slot p' P n = Some t' -> False).
  { intros p' Hm H. apply Hm in H. unfold slot in H0. unfold eslot in H. congruence. }
  destruct x; simpl in H1.
  - destruct (_ && _); simpl in H1; [|congruence].
    apply add_tx_list_slot in H1. destruct H1 as [H1|[E1 [E2 [E3 Hr]]]]; [congruence|].
    simpl in *. subst. exists vh, vn. repeat split; auto.
  - exfalso. eapply Hm; [|exact H1]. apply get_tx_pool_mono.
  - destruct (ledger_exec b (w_nonce w)); simpl in H1; congruence.
  - destruct (nth_error _ _); simpl in H1; congruence.
  - congruence.
  - destruct (nth_error _ _); simpl in H1; [|congruence].
    exfalso. eapply Hm; [|exact H1]. eapply emono_trans; [apply clean_staled_mono|apply clean_completed_mono].
  - exfalso. eapply Hm; [|exact H1]. apply remove_below_price_mono.
  - exfalso. eapply Hm; [|exact H1]. apply remain_mono.
  - unfold propose in H1. destruct (valid_height _ _) as [vh v']. simpl in H1.
    exfalso. eapply Hm; [|exact H1]. apply get_tx_pool_mono.
Qed.

(** * the rule's arithmetic *)
Definition MAX_EIP_PRICE : N := (U64 - 1) / GWEI.

Lemma repl_rhs_exact g : repl_rhs g = ((g * 101) mod U64) / 100.
Proof. reflexivity. Qed.

Lemma max_eip_price_no_wrap : MAX_EIP_PRICE * 101 < U64.
Proof. vm_compute. reflexivity. Qed.

(** every price TransactionFromEIP155 can produce (wei price is a uint64) *)
Lemma eip_price_bound wei : wei < U64 -> eip_gwei_price wei <= MAX_EIP_PRICE.
Proof.
  intro H. unfold eip_gwei_price, MAX_EIP_PRICE, GWEI. apply N.div_le_mono; [discriminate|lia].
Qed.

Lemma repl_strict g new : g <= MAX_EIP_PRICE -> repl_rhs g < new -> g < new.
Proof.
  intros Hg H. pose proof max_eip_price_no_wrap as Hw.
  rewrite repl_rhs_exact in H. rewrite N.mod_small in H by nia.
  assert (g <= g * 101 / 100); [|lia].
  apply N.div_le_lower_bound; lia.
Qed.

(** without the bound the product wraps and a cheaper transaction replaces a dearer one *)
Lemma repl_wrap_witness : exists g new, g < U64 /\ new < g /\ repl_rhs g < new.
Proof. exists 182641030432767838, 1. vm_compute. repeat split; reflexivity. Qed.
