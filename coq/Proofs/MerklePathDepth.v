(** The float [depth] of merkle/merkle_hasher.go against the integer ceil-log2.

    [depth(n) = int(math.Ceil(math.Log2(float64(n))))] is modelled on IEEE binary64 with Coq's
    primitive floats ([depth_f64], Model/MerklePath.v, following Go's math.log2/math.log).  It
    equals [ceil(log2 n)] for every [1 <= n <= 2^16]: a complete sweep evaluated by [vm_compute]
    and lifted to a universally quantified statement.  The size check of MerkleLeafPath
    ([n*33 + len(data) + 8 <= MAX_SIZE = 2^20]) allows only [n <= 31775 < 2^16], so inside
    MerkleLeafPath the two depth functions agree on every input ([leaf_path_f64_eq]). *)
From Coq Require Import List Bool Arith NArith ZArith Lia ZifyN ZifyNat ZifyBool.
Import ListNotations.
From Ont Require Import Lib.Bytes Gen.CodecConsts Gen.MerklePathConsts Gen.MerklePathFormulas
  Model.Codec Model.MerklePath.
Ltac Zify.zify_post_hook ::= Z.to_euclidean_division_equations.

Definition depth_agrees (n : N) : bool :=
  match depth_f64_N n with
  | Some d => Nat.eqb d (N.to_nat (N.log2_up n))
  | None => false
  end.

(** [check_range k lo]: [depth_agrees] on every [n] in [[lo, lo + 2^k)], by binary splitting. *)
Fixpoint check_range (k : nat) (lo : N) : bool :=
  match k with
  | O => depth_agrees lo
  | S k' => check_range k' lo && check_range k' (lo + 2 ^ N.of_nat k')
  end.

Lemma check_range_spec k : forall lo, check_range k lo = true ->
  forall n, (lo <= n < lo + 2 ^ N.of_nat k)%N -> depth_agrees n = true.
Proof.
  induction k; intros lo C n Hn.
  - simpl in *. assert (n = lo) by lia. subst. exact C.
  - cbn [check_range] in C. apply andb_prop in C. destruct C as [C1 C2].
    rewrite Nat2N.inj_succ, N.pow_succ_r' in Hn.
    destruct (N.lt_ge_cases n (lo + 2 ^ N.of_nat k)) as [L|G].
    + apply (IHk lo C1). lia.
    + apply (IHk _ C2). lia.
Qed.

Definition DEPTH_SWEEP_LOG : nat := 16.

Lemma depth_sweep : check_range DEPTH_SWEEP_LOG 1 = true.
Proof. vm_cast_no_check (eq_refl true). Qed. (* evaluated once, by the kernel's VM, at Qed *)

(** The float depth is the integer ceil-log2 for all [1 <= n <= 2^16]. *)
Theorem depth_f64_eq_int n : (1 <= N.of_nat n <= 65536)%N -> depth_f64 n = Some (depth_int n).
Proof.
  intro Hn. unfold depth_f64, depth_int.
  pose proof (check_range_spec DEPTH_SWEEP_LOG 1 depth_sweep (N.of_nat n)) as A.
  assert (B : depth_agrees (N.of_nat n) = true).
  { apply A. change (2 ^ N.of_nat DEPTH_SWEEP_LOG)%N with 65536%N. lia. }
  unfold depth_agrees in B. destruct (depth_f64_N (N.of_nat n)) as [d|]; [|discriminate].
  apply Nat.eqb_eq in B. rewrite B. reflexivity.
Qed.

(** For [n = 0] the code would compute [int(-Inf)]; MerkleLeafPath never gets there because
    [getIndex] fails first. *)
Lemma depth_f64_zero : depth_f64 0 = None.
Proof. vm_compute. reflexivity. Qed.

(** MerkleLeafPath with the float depth is MerkleLeafPath with the integer depth, on all inputs. *)
Theorem leaf_path_f64_eq H data hs : merkle_leaf_path_f64 H data hs = merkle_leaf_path H data hs.
Proof.
  unfold merkle_leaf_path_f64, merkle_leaf_path, merkle_leaf_path_gen.
  destruct (MP_MAX_SIZE <? _)%Z eqn:Sz; [reflexivity|]. apply Z.ltb_ge in Sz.
  destruct (get_index (hash_leaf H data) hs) as [index|] eqn:G; [|reflexivity].
  assert (Hn : (1 <= N.of_nat (length hs) <= 65536)%N).
  { split.
    - destruct hs; [discriminate|simpl; lia].
    - unfold leaf_path_size, MP_MAX_SIZE in Sz. replace UINT256_SIZE with 32%nat in Sz by reflexivity. lia. }
  rewrite (depth_f64_eq_int _ Hn). reflexivity.
Qed.
