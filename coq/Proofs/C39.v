(** C39: the property-level statements, assembled from Proofs/AddBlock.v. *)
From Coq Require Import String List Bool NArith ZArith Lia ZifyN ZifyNat ZifyBool.
Import ListNotations.
From Ont Require Import Lib.Bytes Gen.AddBlockGen Model.AddBlock Proofs.AddBlock.
Local Open Scope N_scope.
Open Scope bool_scope.

Lemma in_firstn_in {A} (x : A) n : forall l, In x (firstn n l) -> In x l.
Proof.
  induction n as [|n IH]; intros l; simpl; [intros []|].
  destruct l as [|y l]; simpl; [intros []|].
  intros [H|H]; [left; exact H|right; apply IH; exact H].
Qed.

Section C39.
  Variable mroot : list hash -> hash.
  Variable txroot : list hash -> hash.
  Variable bk_addr : list key -> addr.
  Variable io : io_stage -> bool.

  (** The defects of an offered block, relative to the ledger it is offered to.  The first six
      are the ones the property names; the others are checked by the same path. *)
  Inductive header_defect (st : ledger) (hd : header) : Prop :=
  | D_wrong_height : hd_height hd <> cur_height st + 1 -> header_defect st hd
  | D_wrong_prev_hash : hd_prev hd <> cur_hash st -> header_defect st hd
  | D_timestamp_not_increasing tip :
      get_header_by_hash st (cur_hash st) = Some tip -> hd_time hd <= hd_time tip -> header_defect st hd
  | D_wrong_block_root : hd_blockroot hd <> mroot (blk_tree st ++ [hd_txroot hd]) -> header_defect st hd
  | D_insufficient_signatures :
      ~ quorum_signed (hd_hash hd) (hd_keys hd) (hd_sigs hd) (Z.to_nat (c39_solo_m (Z.of_nat (length (hd_keys hd))))) ->
      header_defect st hd
  | D_wrong_bookkeepers tip :
      get_header_by_hash st (cur_hash st) = Some tip ->
      address_from_bookkeepers bk_addr (hd_keys hd) <> Some (hd_nextbk tip) -> header_defect st hd.

  Inductive content_defect (b : block) : Prop :=
  | D_bad_tx_root : hd_txroot (b_hdr b) <> txroot (b_txs b) -> content_defect b
  | D_duplicated_tx : ~ NoDup (b_txs b) -> content_defect b.

  (** wrong state root (only checked for blocks that carry transactions), or execution failed *)
  Definition state_defect (b : block) (sroot : hash) (ex : option exec_res) : Prop :=
    ex = None \/ (b_txs b <> [] /\ forall r, ex = Some r -> r_merkle r <> sroot).

  Lemma passed_add_no_header_defect st b sroot ex :
    wf st -> passed_add mroot bk_addr st b sroot ex -> ~ header_defect st (b_hdr b).
  Proof.
    intros Hwf Hp Hd.
    pose proof (passed_add_prev_is_tip _ _ _ _ _ _ Hwf Hp) as Hprev.
    destruct Hp as (Hh & Hb & (prev & Hg & Hn & Ht & Ha & Hq) & Hsr & Hbr).
    rewrite Hprev in Hg.
    destruct Hd as [H|H|tip Hg' H|H|H|tip Hg' H]; try contradiction.
    - rewrite Hg in Hg'; inversion Hg'; subst. lia.
    - rewrite Hg in Hg'; inversion Hg'; subst. contradiction.
  Qed.

  Lemma passed_no_state_defect b sroot ex :
    passed_state_root b sroot ex -> ~ state_defect b sroot ex.
  Proof.
    intros [r [He Hr]] [Hn|[Ht Hall]]; [congruence|]. apply (Hall r He). apply Hr; exact Ht.
  Qed.

  (** *** Network path: Block.Deserialization then AddBlock *)
  Lemma invalid_received_block_rejected st b sroot ex :
    wf st ->
    header_defect st (b_hdr b) \/ content_defect b \/ state_defect b sroot ex ->
    exists o, receive_block mroot txroot bk_addr io st b sroot ex = (st, o) /\
      o <> Added /\ ~ io_error o /\
      (cur_height st < hd_height (b_hdr b) -> exists e, o = Rejected e).
  Proof.
    intros Hwf Hd.
    destruct (receive_block mroot txroot bk_addr io st b sroot ex) as [st' o] eqn:E.
    assert (Hnc : ~ committed o).
    { intro Hc. destruct (receive_block_committed _ _ _ _ _ _ _ _ _ _ E Hc) as [[Hnd Htr] Hp].
      destruct Hd as [Hd|[Hd|Hd]].
      - exact (passed_add_no_header_defect _ _ _ _ Hwf Hp Hd).
      - destruct Hd as [H|H]; contradiction.
      - destruct Hp as (_ & _ & _ & Hsr & _). exact (passed_no_state_defect _ _ _ Hsr Hd). }
    assert (Hna : o <> Added) by (intro; apply Hnc; left; assumption).
    assert (Hnio : ~ io_error o) by (intro; apply Hnc; right; assumption).
    rewrite (receive_block_unchanged _ _ _ _ _ _ _ _ _ _ E Hna Hnio) in *.
    exists o; repeat split; auto.
    intro Hlt. destruct o as [| |e]; [contradiction| |exists e; reflexivity].
    exfalso. unfold receive_block in E. destruct (decode_checks txroot b); [discriminate|].
    apply add_block_ignored in E. lia.
  Qed.

  (** *** AddBlock on an in-memory block (no content checks there) *)
  Lemma invalid_block_rejected st b sroot ex :
    wf st ->
    header_defect st (b_hdr b) \/ state_defect b sroot ex ->
    exists o, add_block mroot bk_addr io st b sroot ex = (st, o) /\
      o <> Added /\ ~ io_error o /\
      (cur_height st < hd_height (b_hdr b) -> exists e, o = Rejected e).
  Proof.
    intros Hwf Hd.
    destruct (add_block mroot bk_addr io st b sroot ex) as [st' o] eqn:E.
    assert (Hnc : ~ committed o).
    { intro Hc. pose proof (add_block_committed _ _ _ _ _ _ _ _ _ E Hc) as Hp.
      destruct Hd as [Hd|Hd].
      - exact (passed_add_no_header_defect _ _ _ _ Hwf Hp Hd).
      - destruct Hp as (_ & _ & _ & Hsr & _). exact (passed_no_state_defect _ _ _ Hsr Hd). }
    assert (Hna : o <> Added) by (intro; apply Hnc; left; assumption).
    assert (Hnio : ~ io_error o) by (intro; apply Hnc; right; assumption).
    rewrite (add_block_unchanged _ _ _ _ _ _ _ _ _ E Hna Hnio) in *.
    exists o; repeat split; auto.
    intro Hlt. destruct o as [| |e]; [contradiction| |exists e; reflexivity].
    exfalso. apply add_block_ignored in E. lia.
  Qed.

  (** *** SubmitBlock (consensus path: the node's own execution result) *)
  Lemma passed_header_no_defect st hd :
    wf st ->
    hd_height hd = cur_height st + 1 -> cur_height st + 1 < u32 -> header_ok bk_addr st hd ->
    hd_blockroot hd = mroot (blk_tree st ++ [hd_txroot hd]) ->
    ~ header_defect st hd.
  Proof.
    intros Hwf Hh Hb Hok Hbr Hd.
    set (b := mkBlock hd []).
    apply (passed_add_no_header_defect st b 0 (Some (mkExec 0 0 [] [])) Hwf); [|exact Hd].
    unfold passed_add; simpl; repeat split; auto.
    exists (mkExec 0 0 [] []); split; [reflexivity|intro X; contradiction].
  Qed.

  Lemma invalid_submitted_block_rejected st b r :
    wf st -> header_defect st (b_hdr b) ->
    exists o, submit_block_entry mroot bk_addr io st b r = (st, o) /\ o <> Added /\ ~ io_error o.
  Proof.
    intros Hwf Hd.
    destruct (submit_block_entry mroot bk_addr io st b r) as [st' o] eqn:E.
    assert (Hnc : ~ committed o).
    { intro Hc. destruct (submit_block_entry_committed _ _ _ _ _ _ _ _ E Hc) as (Hh & Hb & Hok & Hbr).
      exact (passed_header_no_defect _ _ Hwf Hh Hb Hok Hbr Hd). }
    assert (Hna : o <> Added) by (intro; apply Hnc; left; assumption).
    assert (Hnio : ~ io_error o) by (intro; apply Hnc; right; assumption).
    rewrite (submit_block_entry_unchanged _ _ _ _ _ _ _ _ E Hna Hnio) in *.
    exists o; repeat split; auto.
  Qed.

  (** *** A block that was added had none of the defects *)
  Lemma added_only_if_valid st b sroot ex st' :
    wf st -> receive_block mroot txroot bk_addr io st b sroot ex = (st', Added) ->
    ~ header_defect st (b_hdr b) /\ ~ content_defect b /\ ~ state_defect b sroot ex /\
    hd_prev (b_hdr b) = cur_hash st /\ (cache_clear_of st b -> wf st').
  Proof.
    intros Hwf E.
    destruct (receive_block_committed _ _ _ _ _ _ _ _ _ _ E (or_introl eq_refl)) as [[Hnd Htr] Hp].
    split; [|split; [|split; [|split]]].
    - exact (passed_add_no_header_defect _ _ _ _ Hwf Hp).
    - intros [H|H]; contradiction.
    - destruct Hp as (_ & _ & _ & Hsr & _). exact (passed_no_state_defect _ _ _ Hsr).
    - exact (passed_add_prev_is_tip _ _ _ _ _ _ Hwf Hp).
    - unfold receive_block in E. destruct (decode_checks txroot b); [discriminate|].
      intro Hcc. apply (add_block_wf _ _ _ _ _ _ _ _ _ Hwf E); [intros [s X]; discriminate|intros _; exact Hcc].
  Qed.

  (** *** Header-first sync *)
  Lemma invalid_header_rejected st hd :
    hd_height hd <> 0 -> ~ header_ok bk_addr st hd ->
    exists e, add_header bk_addr st hd = (st, Some e).
  Proof.
    intros Hh Hno. destruct (add_header bk_addr st hd) as [st' [e|]] eqn:E.
    - exists e. rewrite (add_header_unchanged _ _ _ _ _ E). reflexivity.
    - destruct (add_header_accepted _ _ _ _ E) as (_ & Hv & _).
      exfalso; apply Hno. apply verify_header_sound; assumption.
  Qed.

  (** after the valid next header went through AddHeader, a defective block is still rejected
      and the ledger (now containing that header in cache and index) is left exactly as it was *)
  Lemma header_first_block_rejected st hv st1 b sroot ex :
    wf st -> add_header bk_addr st hv = (st1, None) -> cur_height st < hd_height hv ->
    header_defect st1 (b_hdr b) \/ state_defect b sroot ex ->
    exists o, add_block mroot bk_addr io st1 b sroot ex = (st1, o) /\ o <> Added /\ ~ io_error o.
  Proof.
    intros Hwf Ha Hlt Hd.
    pose proof (add_header_wf _ _ _ _ Hwf Ha Hlt) as Hwf1.
    destruct (invalid_block_rejected st1 b sroot ex Hwf1 Hd) as [o (E & Hna & Hnio & _)].
    exists o; auto.
  Qed.

  (** *** A header mutated after signing (signatures still those made for another hash) *)
  Lemma unsigned_mutation_rejected st b sroot ex m0 :
    (forall s, In s (hd_sigs (b_hdr b)) -> exists k, s = SigOk k m0) ->
    m0 <> hd_hash (b_hdr b) ->
    exists o, add_block mroot bk_addr io st b sroot ex = (st, o) /\ o <> Added /\ ~ io_error o.
  Proof.
    intros Hs Hne.
    destruct (add_block mroot bk_addr io st b sroot ex) as [st' o] eqn:E.
    assert (Hnc : ~ committed o).
    { intro Hc. pose proof (add_block_committed _ _ _ _ _ _ _ _ _ E Hc) as Hp.
      destruct Hp as (_ & _ & (prev & _ & _ & _ & Ha & Hq) & _ & _).
      pose proof (address_some_m_pos _ _ _ Ha) as Hm.
      destruct Hq as [js [Hl [_ Hall]]].
      destruct js as [|j js]; [simpl in Hl; lia|].
      inversion Hall as [|j' s' js' ss' [k [_ Hsk]] Hrest Heq1 Heq2]; subst.
      assert (Hin : In (SigOk k (hd_hash (b_hdr b))) (hd_sigs (b_hdr b))).
      { eapply (in_firstn_in _ (Z.to_nat (c39_solo_m (Z.of_nat (length (hd_keys (b_hdr b))))))).
        rewrite <- Heq2. left; reflexivity. }
      destruct (Hs _ Hin) as [k' X]. inversion X; subst. contradiction. }
    assert (Hna : o <> Added) by (intro; apply Hnc; left; assumption).
    assert (Hnio : ~ io_error o) by (intro; apply Hnc; right; assumption).
    rewrite (add_block_unchanged _ _ _ _ _ _ _ _ _ E Hna Hnio) in *.
    exists o; repeat split; auto.
  Qed.
End C39.
