(** C30, table part: the hash-driven shuffle only swaps entries (a permutation of the table), and
    the unshuffled table holds each selected index exactly rank-many times. *)
From Coq Require Import List Bool NArith ZArith Lia ZifyN ZifyNat ZifyBool Permutation Sorted.
From Ont Require Import Lib.Bytes Model.ChainConfig.
Import ListNotations.

(** * swap and shuffle are permutations of the table *)

Lemma skipn_nth_cons {A} (d : A) : forall (l : list A) i, (i < length l)%nat ->
  skipn i l = nth i l d :: skipn (S i) l.
Proof.
  induction l as [|x l IH]; intros i Hi; simpl in Hi; [lia|].
  destruct i as [|i]; [reflexivity|]. simpl. apply IH. lia.
Qed.

Lemma skipn_skipn' {A} : forall (l : list A) a b, skipn a (skipn b l) = skipn (a + b) l.
Proof.
  induction l as [|x l IH]; intros a b.
  - now rewrite !skipn_nil.
  - destruct b as [|b]; simpl.
    + now rewrite Nat.add_0_r.
    + rewrite IH. replace (a + S b)%nat with (S (a + b)) by lia. reflexivity.
Qed.

Lemma split_two (t : list N) j i : (j < i)%nat -> (i < length t)%nat ->
  t = firstn j t ++ nth j t 0%N :: firstn (i - S j) (skipn (S j) t) ++ nth i t 0%N :: skipn (S i) t.
Proof.
  intros Hji Hi.
  rewrite <- (firstn_skipn j t) at 1. f_equal.
  rewrite (skipn_nth_cons 0%N t j) by lia. f_equal.
  rewrite <- (firstn_skipn (i - S j) (skipn (S j) t)) at 1. f_equal.
  rewrite skipn_skipn'. replace (i - S j + S j)%nat with i by lia.
  apply skipn_nth_cons. exact Hi.
Qed.

Lemma swap_perm t j i : (j < i)%nat -> (i < length t)%nat -> Permutation (swap t j i) t.
Proof.
  intros Hji Hi. pose proof (split_two t j i Hji Hi) as E.
  apply Permutation_trans with
    (firstn j t ++ nth j t 0%N :: firstn (i - S j) (skipn (S j) t) ++ nth i t 0%N :: skipn (S i) t);
    [|rewrite <- E; reflexivity].
  clear E. unfold swap.
  apply Permutation_app_head.
  set (a := nth i t 0%N). set (b := nth j t 0%N).
  set (m := firstn (i - S j) (skipn (S j) t)). set (r := skipn (S i) t).
  change (Permutation ((a :: m) ++ b :: r) ((b :: m) ++ a :: r)).
  rewrite <- !Permutation_middle. simpl.
  rewrite perm_swap. do 2 apply perm_skip.
  reflexivity.
Qed.

Lemma swap_length t j i : (j < i)%nat -> (i < length t)%nat -> length (swap t j i) = length t.
Proof. intros. apply Permutation_length. now apply swap_perm. Qed.

Section Shuffle.
  Variable H : bytes -> N -> N.

  Lemma shuffle_from_perm top i : forall t, (i < length t)%nat ->
    Permutation (shuffle_from H top i t) t.
  Proof.
    induction i as [|i IH]; intros t Hi; simpl; [reflexivity|].
    set (j := N.to_nat (_ mod _)).
    assert (Hj : (j < S i)%nat).
    { unfold j. assert (N.of_nat (S i) <> 0%N) by lia.
      pose proof (N.mod_lt (H (cp_id top (nth (S i) t 0%N)) (N.of_nat (S i))) (N.of_nat (S i)) H0). lia. }
    rewrite IH.
    - now apply swap_perm.
    - rewrite swap_length by assumption. lia.
  Qed.

  Lemma shuffle_perm top t : Permutation (shuffle H top t) t.
  Proof.
    unfold shuffle. destruct t as [|x t]; [reflexivity|].
    apply shuffle_from_perm. simpl. lia.
  Qed.
End Shuffle.

(** * slot counts of the unshuffled table *)

Lemma count_repeat (x y : N) n :
  count_occ N.eq_dec (repeat x n) y = if N.eq_dec x y then n else O.
Proof.
  induction n as [|n IH]; simpl; [now destruct (N.eq_dec x y)|].
  destruct (N.eq_dec x y); simpl; rewrite IH; destruct (N.eq_dec x y); congruence.
Qed.

Lemma count_pos_table_notin top : forall ranks y,
  ~ In y (map p_index top) -> count_occ N.eq_dec (pos_table top ranks) y = O.
Proof.
  induction top as [|p top IH]; intros ranks y Hni; [reflexivity|].
  destruct ranks as [|r ranks]; [reflexivity|].
  unfold pos_table. simpl. rewrite count_occ_app, count_repeat.
  destruct (N.eq_dec (p_index p) y) as [E|E].
  - exfalso. apply Hni. now left.
  - apply IH. intro F. apply Hni. now right.
Qed.

Lemma count_pos_table top : forall ranks i p r,
  NoDup (map p_index top) -> length ranks = length top ->
  nth_error top i = Some p -> nth_error ranks i = Some r ->
  count_occ N.eq_dec (pos_table top ranks) (p_index p) = N.to_nat r.
Proof.
  induction top as [|q top IH]; intros ranks i p r Hnd Hlen Hp Hr.
  - destruct i; discriminate.
  - destruct ranks as [|r0 ranks]; [discriminate|].
    simpl in Hnd. inversion Hnd as [|? ? Hni Hnd']; subst.
    unfold pos_table. simpl. rewrite count_occ_app, count_repeat.
    destruct i as [|i]; simpl in Hp, Hr.
    + injection Hp as ->. injection Hr as ->.
      destruct (N.eq_dec (p_index p) (p_index p)); [|congruence].
      fold (pos_table top ranks). rewrite count_pos_table_notin by exact Hni. lia.
    + destruct (N.eq_dec (p_index q) (p_index p)) as [E|E].
      * exfalso. apply Hni. rewrite E. apply in_map. eapply nth_error_In; eassumption.
      * simpl. eapply IH; eauto.
  Qed.
