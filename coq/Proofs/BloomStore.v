(** C43 — helper lemmas for the block-store part of Model/Bloom.v: the generated integer
    expressions in closed form, key injectivity, the key-value list, the cache folds. *)
From Coq Require Import List Bool Arith NArith ZArith Lia ZifyN ZifyNat ZifyBool FMapPositive.
Import ListNotations.
From Ont Require Import Lib.Bytes Gen.BloomConsts Gen.BloomFormulas Model.Bloom Proofs.BloomIndex.
Local Open Scope N_scope.
Ltac Zify.zify_post_hook ::= Z.to_euclidean_division_equations.

Definition U32 : N := 4294967296.
Definition S := BloomBitsBlocks.

(** ** the generated expressions, on heights below 2^32 *)

Lemma trigger_spec h :
  Z.eqb (bloom_trigger (Z.of_N h) SZ) (bloom_trigger_rhs (Z.of_N h) SZ) = ((h + 1) mod S =? 0).
Proof.
  unfold bloom_trigger, bloom_trigger_rhs, SZ, S, BloomBitsBlocks.
  destruct (Z.eqb_spec (Z.rem (Z.of_N h + 1) (Z.of_N 4096)) 0); destruct (N.eqb_spec ((h + 1) mod 4096) 0); try reflexivity; exfalso; lia.
Qed.

Lemma member_spec h i : h < U32 -> (h + 1) mod S = 0 -> i < S ->
  zN (bloom_member (Z.of_N h) (Z.of_N i) SZ) = h + 1 - S + i.
Proof. unfold zN, bloom_member, SZ, S, U32, BloomBitsBlocks. intros. lia. Qed.

Lemma section_spec h : zN (bloom_section (Z.of_N h) SZ) = h / S.
Proof. unfold zN, bloom_section, SZ, S, BloomBitsBlocks. lia. Qed.

Lemma loop_bound_spec : zN (bloom_loop_bound SZ) = S.
Proof. reflexivity. Qed.

Lemma clean_bound_spec : zN (clean_bound SZ) = 2 * S.
Proof. reflexivity. Qed.

Lemma clean_target_spec h : 2 * S < h -> zN (clean_target (Z.of_N h) SZ) = h - 2 * S.
Proof. unfold zN, clean_target, SZ, S, BloomBitsBlocks. lia. Qed.

Lemma min_filter_start_spec adh : zN (min_filter_start (Z.of_N adh)) = adh / S * S.
Proof. unfold zN, min_filter_start, S, BloomBitsBlocks. lia. Qed.

Lemma load_init_start_spec cur : zN (load_init_start (Z.of_N cur)) = (cur + 4095) / 4096.
Proof. unfold zN, load_init_start. lia. Qed.

Lemma load_start_spec cur : zN (load_start (Z.of_N cur) SZ) = cur - cur mod S.
Proof. unfold zN, load_start, SZ, S, BloomBitsBlocks. lia. Qed.

(** ** keys *)

Lemma le_encode_inj w a b : a < 256 ^ N.of_nat w -> b < 256 ^ N.of_nat w -> le_encode w a = le_encode w b -> a = b.
Proof.
  intros Ha Hb H. rewrite <- (le_decode_encode_small w a Ha), <- (le_decode_encode_small w b Hb), H. reflexivity.
Qed.

Lemma bloom_key_inj h h' : h < U32 -> h' < U32 -> bloom_key h = bloom_key h' -> h = h'.
Proof.
  unfold bloom_key, U32; intros Hh Hh' H.
  assert (H' : le_encode 4 h = le_encode 4 h') by congruence.
  apply (le_encode_inj 4); [exact Hh|exact Hh'|exact H'].
Qed.

Lemma app_inv_length {A : Type} (a a' b b' : list A) : length a = length a' -> a ++ b = a' ++ b' -> a = a' /\ b = b'.
Proof.
  revert a'; induction a as [|x r IH]; intros [|x' r'] Hl H; simpl in *; try discriminate.
  - split; [reflexivity|exact H].
  - injection H as -> H. injection Hl as Hl. destruct (IH r' Hl H) as [-> ->]. split; reflexivity.
Qed.

Lemma rev_inj {A : Type} (a b : list A) : rev a = rev b -> a = b.
Proof. intro H. rewrite <- (rev_involutive a), <- (rev_involutive b), H. reflexivity. Qed.

Lemma bits_key_inj i s i' s' : i < 65536 -> i' < 65536 -> s < U32 -> s' < U32 ->
  bloom_bits_key i s = bloom_bits_key i' s' -> i = i' /\ s = s'.
Proof.
  unfold bloom_bits_key, be_encode, U32; intros Hi Hi' Hs Hs' H0.
  assert (H : rev (le_encode 2 i) ++ rev (le_encode 4 s) = rev (le_encode 2 i') ++ rev (le_encode 4 s')) by congruence.
  apply app_inv_length in H; [|rewrite !rev_length, !le_encode_length; reflexivity].
  destruct H as [H1 H2]. apply rev_inj in H1. apply rev_inj in H2.
  split; [apply (le_encode_inj 2)|apply (le_encode_inj 4)]; assumption.
Qed.

Lemma bloom_key_length h : length (bloom_key h) = 5%nat.
Proof. unfold bloom_key. cbn [length]. rewrite le_encode_length. reflexivity. Qed.

Lemma bits_key_length i s : length (bloom_bits_key i s) = 7%nat.
Proof. unfold bloom_bits_key, be_encode. cbn [length]. rewrite app_length, !rev_length, !le_encode_length. reflexivity. Qed.

Lemma bloom_key_ne_bits_key h i s : bloom_key h <> bloom_bits_key i s.
Proof. intro H. apply (f_equal (@length N)) in H. rewrite bloom_key_length, bits_key_length in H. discriminate. Qed.

(** ** the key-value map *)

Lemma le_decode_app a b : le_decode (a ++ b) = le_decode a + 256 ^ N.of_nat (length a) * le_decode b.
Proof.
  induction a as [|x r IH]; [cbn [app le_decode length]; change (N.of_nat 0) with 0; rewrite N.pow_0_r; lia|].
  cbn [app le_decode length]. rewrite IH, pow256_succ. ring.
Qed.

Lemma key_num_bounds k : wf_bytes k = true ->
  256 ^ N.of_nat (length k) <= le_decode (k ++ [1]) < 2 * 256 ^ N.of_nat (length k).
Proof.
  intro W. rewrite le_decode_app. cbn [le_decode]. assert (H := le_decode_bound k W). lia.
Qed.

Lemma key_pos_inj k k' : wf_bytes k = true -> wf_bytes k' = true -> key_pos k = key_pos k' -> k = k'.
Proof.
  intros W W' H. unfold key_pos in H.
  assert (E : le_decode (k ++ [1]) = le_decode (k' ++ [1])).
  { apply (f_equal N.pos) in H. rewrite !N.succ_pos_spec in H. lia. }
  assert (B := key_num_bounds k W). assert (B' := key_num_bounds k' W').
  assert (L : length k = length k').
  { destruct (Nat.lt_trichotomy (length k) (length k')) as [Hlt|[He|Hgt]]; [exfalso|exact He|exfalso].
    - assert (256 * 256 ^ N.of_nat (length k) <= 256 ^ N.of_nat (length k')).
      { rewrite <- pow256_succ. apply N.pow_le_mono_r; lia. }
      lia.
    - assert (256 * 256 ^ N.of_nat (length k') <= 256 ^ N.of_nat (length k)).
      { rewrite <- pow256_succ. apply N.pow_le_mono_r; lia. }
      lia. }
  rewrite !le_decode_app in E. cbn [le_decode] in E. rewrite L in E.
  assert (E' : le_decode k = le_decode k') by lia.
  rewrite <- (le_encode_decode k W), <- (le_encode_decode k' W'), L, E'. reflexivity.
Qed.

Lemma kv_get_empty k : kv_get (PositiveMap.empty bytes) k = None.
Proof. apply PositiveMap.gempty. Qed.

Lemma kv_get_put_same s k v : kv_get (kv_put s k v) k = Some v.
Proof. apply PositiveMap.gss. Qed.

Lemma kv_get_put_other s k v k' : wf_bytes k = true -> wf_bytes k' = true -> k' <> k ->
  kv_get (kv_put s k v) k' = kv_get s k'.
Proof.
  intros W W' H. apply PositiveMap.gso. intro E. apply H. apply key_pos_inj; assumption.
Qed.

Lemma wf_bytes_rev b : wf_bytes (rev b) = wf_bytes b.
Proof.
  induction b as [|x r IH]; [reflexivity|]. cbn [rev]. rewrite wf_bytes_app, IH. cbn [wf_bytes forallb]. 
  rewrite andb_true_r. apply andb_comm.
Qed.

Lemma bloom_key_wf h : wf_bytes (bloom_key h) = true.
Proof. unfold bloom_key. rewrite wf_bytes_cons, le_encode_wf. reflexivity. Qed.

Lemma bits_key_wf i s : wf_bytes (bloom_bits_key i s) = true.
Proof.
  unfold bloom_bits_key, be_encode. rewrite wf_bytes_cons, wf_bytes_app, !wf_bytes_rev, !le_encode_wf. reflexivity.
Qed.

(** the loop of [PutBloomIndex] *)
Definition put_all (section : N) (ivs : list (N * bytes)) (s : kvstore) : kvstore :=
  fold_left (fun acc iv => kv_put acc (bloom_bits_key (fst iv) section) (compress_bytes (snd iv))) ivs s.

Lemma put_all_other section ivs : forall s k, wf_bytes k = true ->
  (forall iv, In iv ivs -> k <> bloom_bits_key (fst iv) section) ->
  kv_get (put_all section ivs s) k = kv_get s k.
Proof.
  induction ivs as [|iv r IH]; intros s k W H; [reflexivity|].
  simpl. rewrite IH by (try exact W; intros iv' H'; apply H; right; exact H').
  apply kv_get_put_other; [apply bits_key_wf|exact W|apply H; left; reflexivity].
Qed.

Lemma put_all_hit section (vs : list bytes) : forall n0 s i, (n0 + N.of_nat (length vs) <= 65536) -> section < U32 ->
  n0 <= i < n0 + N.of_nat (length vs) ->
  kv_get (put_all section (combine (nseq n0 (N.of_nat (length vs))) vs) s) (bloom_bits_key i section)
  = Some (compress_bytes (nth (N.to_nat (i - n0)) vs [])).
Proof.
  induction vs as [|v r IH]; intros n0 s i Hb Hs Hi; [simpl in Hi; lia|].
  assert (En : nseq n0 (N.of_nat (length (v :: r))) = n0 :: nseq (n0 + 1) (N.of_nat (length r))).
  { unfold nseq. cbn [length]. rewrite Nat2N.id. rewrite Nat2N.id. cbn [seq map]. f_equal; [lia|].
    rewrite <- seq_shift, map_map. apply map_ext; intro j. lia. }
  rewrite En. cbn [combine]. unfold put_all; cbn [fold_left fst snd]. fold (put_all section).
  cbn [length] in Hb, Hi.
  destruct (N.eqb_spec i n0) as [->|Hne].
  - fold (put_all section (combine (nseq (n0 + 1) (N.of_nat (length r))) r) (kv_put s (bloom_bits_key n0 section) (compress_bytes v))).
    rewrite put_all_other; [|apply bits_key_wf|].
    + rewrite kv_get_put_same. replace (N.to_nat (n0 - n0)) with 0%nat by lia. reflexivity.
    + intros [iv1 iv2] Hin E. cbn [fst] in E. apply in_combine_l in Hin. apply In_nseq in Hin.
      apply bits_key_inj in E; unfold U32 in *; lia.
  - fold (put_all section (combine (nseq (n0 + 1) (N.of_nat (length r))) r) (kv_put s (bloom_bits_key n0 section) (compress_bytes v))).
    rewrite IH by lia. replace (N.to_nat (i - n0)) with (Datatypes.S (N.to_nat (i - (n0 + 1)))) by lia. reflexivity.
Qed.

(** ** collect *)

Lemma collect_map {A B : Type} (f : A -> option B) (g : A -> B) l :
  (forall x, In x l -> f x = Some (g x)) -> collect (map f l) = Some (map g l).
Proof.
  induction l as [|x r IH]; intro H; [reflexivity|].
  simpl. rewrite (H x) by (left; reflexivity). rewrite IH by (intros y Hy; apply H; right; exact Hy). reflexivity.
Qed.

(** ** the cache *)

Lemma ckey_inj a b : ckey a = ckey b -> a = b.
Proof. unfold ckey; intro H. apply (f_equal N.pos) in H. rewrite !N.succ_pos_spec in H. lia. Qed.

Definition load_all (ibs : list (N * bloom)) (c : PositiveMap.t bloom) : PositiveMap.t bloom :=
  fold_left (fun c ib => PositiveMap.add (ckey (fst ib)) (snd ib) c) ibs c.

Lemma load_all_find (g : N -> bloom) l : forall c k,
  PositiveMap.find (ckey k) (load_all (combine l (map g l)) c)
  = if existsb (N.eqb k) l then Some (g k) else PositiveMap.find (ckey k) c.
Proof.
  induction l as [|a r IH]; intros c k; [reflexivity|].
  cbn [map combine existsb]. unfold load_all; cbn [fold_left fst snd]. fold (load_all (combine r (map g r)) (PositiveMap.add (ckey a) (g a) c)).
  rewrite IH. destruct (existsb (N.eqb k) r); [rewrite orb_true_r; reflexivity|]. rewrite orb_false_r.
  destruct (N.eqb_spec k a) as [->|Hne].
  - apply PositiveMap.gss.
  - apply PositiveMap.gso. intro E; apply ckey_inj in E; contradiction.
Qed.

Lemma existsb_nseq k s n : existsb (N.eqb k) (nseq s n) = (s <=? k) && (k <? s + n).
Proof.
  destruct (existsb (N.eqb k) (nseq s n)) eqn:E.
  - apply existsb_exists in E. destruct E as [x [Hin Hx]]. apply N.eqb_eq in Hx; subst x. apply In_nseq in Hin.
    symmetry; apply andb_true_iff; split; [apply N.leb_le|apply N.ltb_lt]; lia.
  - destruct ((s <=? k) && (k <? s + n)) eqn:E2; [|reflexivity].
    apply andb_true_iff in E2. destruct E2 as [H1 H2]. apply N.leb_le in H1. apply N.ltb_lt in H2.
    assert (Hex : existsb (N.eqb k) (nseq s n) = true).
    { apply existsb_exists. exists k. split; [apply In_nseq; lia|apply N.eqb_refl]. }
    congruence.
Qed.
