(** C14: acceptance — an acyclic heap value (sharing allowed) nested no deeper than the detector's
    limit, without interop values and whose encoding fits the size limit, is serialized: the ONLY
    possible outcome of Serialize is the encoding of its unfolding. *)
From Coq Require Import List Bool Arith NArith ZArith Lia ZifyN ZifyNat ZifyBool.
Import ListNotations.
From Ont Require Import Lib.Bytes Model.NeoInt Gen.VmValueConsts Model.VmValue Proofs.NeoInt Proofs.VmValueLib
  Proofs.VmValueCodec Proofs.VmValueCycle.
Local Open Scope N_scope.

Lemma map_opt_Forall2 {A B} (g : A -> option B) l ts :
  map_opt g l = Some ts <-> Forall2 (fun x t => g x = Some t) l ts.
Proof.
  revert ts. induction l as [|x l IH]; intro ts; cbn [map_opt].
  - split; [intro E; injection E as <-; constructor|intro H; inversion H; reflexivity].
  - split.
    + destruct (g x) eqn:Ex; [|discriminate]. destruct (map_opt g l) eqn:El; [|discriminate].
      intro E. injection E as <-. constructor; [exact Ex|]. apply IH. reflexivity.
    + intro H. inversion H as [|? t ? ts' Hx Hl]; subst. rewrite Hx. apply IH in Hl. rewrite Hl. reflexivity.
Qed.


Lemma Forall2_in_r {A B} (R : A -> B -> Prop) l ts t : Forall2 R l ts -> In t ts -> exists x, In x l /\ R x t.
Proof. induction 1 as [|x y l ts Hxy _ IH]; cbn; [tauto|]. intros [->|H]; [eauto|]. destruct (IH H) as [x' [H1 H2]]. eauto. Qed.

Lemma Forall2_in_l {A B} (R : A -> B -> Prop) l ts x : Forall2 R l ts -> In x l -> exists t, In t ts /\ R x t.
Proof. induction 1 as [|x' y l ts Hxy _ IH]; cbn; [tauto|]. intros [->|H]; [eauto|]. destruct (IH H) as [t [H1 H2]]. eauto. Qed.

(** the fuel an unfolding needs is exactly the height of the tree *)
Lemma unfold_height h : forall g v t, unfold h g v = Some t -> (theight t <= g)%nat.
Proof.
  induction g as [|g IH]; intros v t E; [discriminate|]. rewrite unfold_S in E.
  destruct v as [p|a|a|a|].
  - injection E as <-. cbn. lia.
  - destruct (map_opt _ _) as [ts|] eqn:Em; [|discriminate]. injection E as <-. cbn [theight].
    apply map_opt_Forall2 in Em. apply le_n_S. apply lmax_le. intros t Ht.
    destruct (Forall2_in_r _ _ _ _ Em Ht) as [x [_ Hx]]. apply (IH _ _ Hx).
  - destruct (map_opt _ _) as [ts|] eqn:Em; [|discriminate]. injection E as <-. cbn [theight].
    apply map_opt_Forall2 in Em. apply le_n_S. apply lmax_le. intros t Ht.
    destruct (Forall2_in_r _ _ _ _ Em Ht) as [x [_ Hx]]. apply (IH _ _ Hx).
  - destruct (map_opt _ _) as [ts|] eqn:Em; [|discriminate]. injection E as <-. cbn [theight].
    apply map_opt_Forall2 in Em. apply le_n_S. apply lmax_le. intros t Ht.
    destruct (Forall2_in_r _ _ _ _ Em Ht) as [x [_ Hx]]. cbn beta in Hx.
    destruct (unfold h g (snd x)) eqn:Eu; [|discriminate]. injection Hx as <-. cbn [snd]. apply (IH _ _ Eu).
  - injection E as <-. cbn. lia.
Qed.

Lemma Forall2_impl_in {A B} (R R' : A -> B -> Prop) l ts :
  (forall x t, In x l -> In t ts -> R x t -> R' x t) -> Forall2 R l ts -> Forall2 R' l ts.
Proof.
  intros H F. induction F as [|x t l ts Hxt F IH]; constructor.
  - apply H; [left; reflexivity|left; reflexivity|exact Hxt].
  - apply IH. intros x' t' Hx Ht. apply H; right; assumption.
Qed.

Lemma unfold_min h : forall g v t, unfold h g v = Some t -> unfold h (theight t) v = Some t.
Proof.
  induction g as [|g IH]; intros v t E; [discriminate|]. rewrite unfold_S in E.
  destruct v as [p|a|a|a|].
  - injection E as <-. reflexivity.
  - destruct (map_opt _ _) as [ts|] eqn:Em; [|discriminate]. injection E as <-. cbn [theight]. rewrite unfold_S.
    apply map_opt_Forall2 in Em.
    assert (Em' : map_opt (unfold h (list_max (map theight ts))) (get_list h a) = Some ts).
    { apply map_opt_Forall2. revert Em. apply Forall2_impl_in. intros x t _ Ht Hx.
      apply (unfold_mono_le h (theight t) _ x t); [apply (list_max_in theight ts t Ht)|apply (IH _ _ Hx)]. }
    rewrite Em'. reflexivity.
  - destruct (map_opt _ _) as [ts|] eqn:Em; [|discriminate]. injection E as <-. cbn [theight]. rewrite unfold_S.
    apply map_opt_Forall2 in Em.
    assert (Em' : map_opt (unfold h (list_max (map theight ts))) (get_list h a) = Some ts).
    { apply map_opt_Forall2. revert Em. apply Forall2_impl_in. intros x t _ Ht Hx.
      apply (unfold_mono_le h (theight t) _ x t); [apply (list_max_in theight ts t Ht)|apply (IH _ _ Hx)]. }
    rewrite Em'. reflexivity.
  - destruct (map_opt _ _) as [ts|] eqn:Em; [|discriminate]. injection E as <-. cbn [theight]. rewrite unfold_S.
    apply map_opt_Forall2 in Em.
    set (n := list_max (map (fun e : prim * tval => theight (snd e)) ts)).
    assert (Em' : map_opt (fun e : prim * hval => option_map (fun t => (fst e, t)) (unfold h n (snd e))) (get_map h a) = Some ts).
    { apply map_opt_Forall2. revert Em. apply Forall2_impl_in. intros x t _ Ht Hx. cbn beta in *.
      destruct (unfold h g (snd x)) eqn:Eu; [|discriminate]. injection Hx as <-. cbn [snd] in *.
      rewrite (unfold_mono_le h (theight t0) n (snd x) t0); [reflexivity| |apply (IH _ _ Eu)].
      apply (list_max_in (fun e : prim * tval => theight (snd e)) ts (fst x, t0) Ht). }
    rewrite Em'. reflexivity.
  - injection E as <-. reflexivity.
Qed.

Lemma unfold_det h g g' v t t' : unfold h g v = Some t -> unfold h g' v = Some t' -> t = t'.
Proof.
  intros E E'. apply (unfold_mono_le h g (Nat.max g g')) in E; [|lia].
  apply (unfold_mono_le h g' (Nat.max g g')) in E'; [|lia]. congruence.
Qed.

Lemma unfold_none_le h g g' v : (g' <= g)%nat -> unfold h g v = None -> unfold h g' v = None.
Proof.
  intros Hle E. destruct (unfold h g' v) as [t|] eqn:E'; [|reflexivity].
  rewrite (unfold_mono_le _ _ _ _ _ Hle E') in E. discriminate.
Qed.

(** arrays and structs over the same backing list unfold alike *)
Lemma unfold_arr_struct h g a : (unfold h g (HArr a) = None <-> unfold h g (HStruct a) = None) /\
  forall t, unfold h g (HArr a) = Some t -> exists ts, t = TArr ts /\ unfold h g (HStruct a) = Some (TStruct ts).
Proof.
  destruct g as [|g]; [split; [tauto|discriminate]|]. rewrite !unfold_S.
  destruct (map_opt _ _) as [ts|]; cbn; split; try tauto; try discriminate.
  - split; discriminate.
  - intros t E. injection E as <-. eauto.
Qed.

(** * The detector answers false (only) on shallow acyclic values *)
Definition vis_inv (h : heap) (vis : list vkey) (g : nat) : Prop :=
  forall k, In k vis ->
    if fst k then unfold h g (HMap (snd k)) = None
    else unfold h g (HArr (snd k)) = None /\ unfold h g (HStruct (snd k)) = None.

Lemma mem_addr_false k vis : (forall k', In k' vis -> k' <> k) -> mem_addr k vis = false.
Proof.
  intro H. unfold mem_addr.
  destruct (existsb (fun x => Bool.eqb (fst k) (fst x) && Nat.eqb (snd k) (snd x)) vis) eqn:E; [|reflexivity].
  apply existsb_exists in E. destruct E as [x [Hx Hk]]. apply andb_prop in Hk. destruct Hk as [H1 H2].
  apply Bool.eqb_prop in H1. apply Nat.eqb_eq in H2. exfalso. apply (H x Hx). destruct x, k; cbn in *; congruence.
Qed.

Lemma vis_inv_weaken h vis g g' : (g' <= g)%nat -> vis_inv h vis g -> vis_inv h vis g'.
Proof.
  intros Hle H k Hk. specialize (H k Hk). destruct (fst k).
  - apply (unfold_none_le _ _ _ _ Hle H).
  - destruct H as [H1 H2]. split; apply (unfold_none_le _ g); assumption.
Qed.

Lemma fold_dunion_all_false {A} (g : A -> dset) l : (forall e, In e l -> g e = (true, false)) -> l <> [] ->
  fold_right (fun e acc => dunion (g e) acc) (false, false) l = (true, false).
Proof.
  induction l as [|e l IH]; intros H Hne; [congruence|]. cbn [fold_right].
  rewrite (H e (or_introl eq_refl)). destruct l as [|e' l']; [reflexivity|].
  rewrite IH; [reflexivity| |discriminate]. intros x Hx. apply H. right. exact Hx.
Qed.

Lemma detect_shallow h : forall rem vis v t,
  unfold h (theight t) v = Some t -> (theight t <= rem)%nat -> vis_inv h vis (theight t) ->
  detect h rem vis v = (true, false).
Proof.
  induction rem as [|rem IH]; intros vis v t E Hh Hinv.
  - destruct t; cbn in Hh; lia.
  - rewrite detect_S. destruct v as [p|a|a|a|]; try reflexivity.
    + (* array *)
      destruct (get_list h a) as [|x r] eqn:El; [reflexivity|].
      assert (Hmem : mem_addr (false, a) vis = false).
      { apply mem_addr_false. intros k' Hk' ->. specialize (Hinv _ Hk'). cbn [fst snd] in Hinv. destruct Hinv as [H1 _]. congruence. }
      rewrite Hmem.
      destruct (theight t) as [|g] eqn:Eg; [discriminate|]. rewrite unfold_S, El in E.
      destruct (map_opt (unfold h g) (x :: r)) as [ts|] eqn:Em; [|discriminate]. injection E as <-.
      cbn [map_opt] in Em. destruct (unfold h g x) as [tx|] eqn:Ex; [|discriminate].
      destruct (map_opt (unfold h g) r) as [tr|] eqn:Er; [|discriminate]. injection Em as <-.
      cbn [theight map list_max fold_right] in Eg. injection Eg as Eg.
      assert (Hx : (theight tx <= g)%nat) by (apply (unfold_height _ _ _ _ Ex)).
      apply (IH _ _ tx); [apply (unfold_min _ _ _ _ Ex)|lia|].
      intros k Hk. destruct Hk as [<-|Hk].
      * cbn [fst snd].
        assert (Ha : unfold h (theight tx) (HArr a) = None).
        { destruct (unfold h (theight tx) (HArr a)) as [t'|] eqn:E'; [|reflexivity]. exfalso.
          pose proof (unfold_height _ _ _ _ E') as Hh'.
          assert (Efull : unfold h (S g) (HArr a) = Some (TArr (tx :: tr))).
          { rewrite unfold_S, El. cbn [map_opt]. rewrite Ex, Er. reflexivity. }
          rewrite (unfold_det _ _ _ _ _ _ E' Efull) in Hh'. cbn [theight map list_max fold_right] in Hh'. lia. }
        split; [exact Ha|]. apply (proj1 (unfold_arr_struct _ _ _)). exact Ha.
      * apply (vis_inv_weaken h vis (S g)); [lia|exact Hinv|exact Hk].
    + (* struct *)
      destruct (get_list h a) as [|x r] eqn:El; [reflexivity|].
      assert (Hmem : mem_addr (false, a) vis = false).
      { apply mem_addr_false. intros k' Hk' ->. specialize (Hinv _ Hk'). cbn [fst snd] in Hinv. destruct Hinv as [_ H2]. congruence. }
      rewrite Hmem.
      destruct (theight t) as [|g] eqn:Eg; [discriminate|]. rewrite unfold_S, El in E.
      destruct (map_opt (unfold h g) (x :: r)) as [ts|] eqn:Em; [|discriminate]. injection E as <-.
      cbn [map_opt] in Em. destruct (unfold h g x) as [tx|] eqn:Ex; [|discriminate].
      destruct (map_opt (unfold h g) r) as [tr|] eqn:Er; [|discriminate]. injection Em as <-.
      cbn [theight map list_max fold_right] in Eg. injection Eg as Eg.
      assert (Hx : (theight tx <= g)%nat) by (apply (unfold_height _ _ _ _ Ex)).
      apply (IH _ _ tx); [apply (unfold_min _ _ _ _ Ex)|lia|].
      intros k Hk. destruct Hk as [<-|Hk].
      * cbn [fst snd].
        assert (Ha : unfold h (theight tx) (HStruct a) = None).
        { destruct (unfold h (theight tx) (HStruct a)) as [t'|] eqn:E'; [|reflexivity]. exfalso.
          pose proof (unfold_height _ _ _ _ E') as Hh'.
          assert (Efull : unfold h (S g) (HStruct a) = Some (TStruct (tx :: tr))).
          { rewrite unfold_S, El. cbn [map_opt]. rewrite Ex, Er. reflexivity. }
          rewrite (unfold_det _ _ _ _ _ _ E' Efull) in Hh'. cbn [theight map list_max fold_right] in Hh'. lia. }
        split; [|exact Ha]. apply (proj2 (proj1 (unfold_arr_struct _ _ _))). exact Ha.
      * apply (vis_inv_weaken h vis (S g)); [lia|exact Hinv|exact Hk].
    + (* map *)
      assert (Hmem : mem_addr (true, a) vis = false).
      { apply mem_addr_false. intros k' Hk' ->. specialize (Hinv _ Hk'). cbn [fst snd] in Hinv. congruence. }
      rewrite Hmem.
      destruct (get_map h a) as [|e0 es0] eqn:El; [reflexivity|]. rewrite <- El.
      destruct (theight t) as [|g] eqn:Eg; [discriminate|]. rewrite unfold_S in E.
      destruct (map_opt _ (get_map h a)) as [ts|] eqn:Em; [|discriminate]. injection E as <-.
      cbn [theight] in Eg. injection Eg as Eg. apply map_opt_Forall2 in Em.
      apply (fold_dunion_all_false (fun e => detect h rem ((true, a) :: vis) (snd e))); [|rewrite El; discriminate].
      intros e He. destruct (Forall2_in_l _ _ _ _ Em He) as [te [Hte Hue]]. cbn beta in Hue.
      destruct (unfold h g (snd e)) as [tx|] eqn:Ex; [|discriminate]. injection Hue as <-.
      assert (Hx : (theight tx <= g)%nat) by (apply (unfold_height _ _ _ _ Ex)).
      assert (Hlt : (theight tx <= list_max (map (fun e : prim * tval => theight (snd e)) ts))%nat)
        by (apply (list_max_in (fun e : prim * tval => theight (snd e)) ts (fst e, tx) Hte)).
      apply (IH _ _ tx); [apply (unfold_min _ _ _ _ Ex)|lia|].
      intros k Hk. destruct Hk as [<-|Hk].
      * cbn [fst snd].
        destruct (unfold h (theight tx) (HMap a)) as [t'|] eqn:E'; [|reflexivity]. exfalso.
        pose proof (unfold_height _ _ _ _ E') as Hh'.
        assert (Efull : unfold h (S g) (HMap a) = Some (TMap ts)).
        { rewrite unfold_S. apply map_opt_Forall2 in Em. rewrite Em. reflexivity. }
        rewrite (unfold_det _ _ _ _ _ _ E' Efull) in Hh'. cbn [theight] in Hh'. lia.
      * apply (vis_inv_weaken h vis (S g)); [lia|exact Hinv|exact Hk].
Qed.

Lemma detect_top_shallow h g v t : unfold h g v = Some t -> (theight t <= S max_struct_depth)%nat ->
  detect_top h v = (true, false).
Proof.
  intros E Hh. apply (detect_shallow h _ _ _ t); [apply (unfold_min _ _ _ _ E)|exact Hh|]. intros k [].
Qed.

(** * Acceptance *)
Lemma rs_eta r : mkRs (r_ok r) (r_errs r) (r_oof r) = r.
Proof. destruct r; reflexivity. Qed.

Lemma rs_bind_ret s k : rs_bind (rs_ret s) k = k s.
Proof. unfold rs_bind. cbn [r_ok r_errs r_oof rs_ret app orb]. apply rs_eta. Qed.

Lemma guarded_shallow h v body : detect_top h v = (true, false) -> guarded h v body = body.
Proof. intro E. rewrite (guarded_undetected _ _ _ E). apply rs_eta. Qed.

Lemma check_size_fits base s : base + N.of_nat (length s) <= max_ser_size -> check_size base s = rs_ret s.
Proof. intro H. unfold check_size. destruct (N.ltb_spec max_ser_size (base + N.of_nat (length s))); [lia|reflexivity]. Qed.

Lemma ser_list_accepts base rec l ts :
  Forall2 (fun x t => forall s, base + N.of_nat (length (s ++ enc t)) <= max_ser_size -> rec x s = rs_ret (s ++ enc t)) l ts ->
  forall s, base + N.of_nat (length (s ++ flat_map enc ts)) <= max_ser_size ->
  ser_list rec l s = rs_ret (s ++ flat_map enc ts).
Proof.
  induction 1 as [|x t l ts Hx _ IH]; intros s Hsz; cbn [ser_list flat_map].
  - rewrite app_nil_r. reflexivity.
  - cbn [flat_map] in Hsz. rewrite !app_length in Hsz.
    rewrite Hx by (rewrite app_length; lia). rewrite rs_bind_ret.
    rewrite IH by (rewrite !app_length; lia). rewrite <- app_assoc. reflexivity.
Qed.

Lemma ser_entries_accepts base rec (l : list (prim * hval)) (ts : list (prim * tval)) :
  (forall k s, base + N.of_nat (length (s ++ enc_prim k)) <= max_ser_size -> rec (HPrim k) s = rs_ret (s ++ enc_prim k)) ->
  Forall2 (fun e te => fst te = fst e /\
     forall s, base + N.of_nat (length (s ++ enc (snd te))) <= max_ser_size -> rec (snd e) s = rs_ret (s ++ enc (snd te))) l ts ->
  forall s, base + N.of_nat (length (s ++ flat_map enc_entry ts)) <= max_ser_size ->
  ser_entries rec l s = rs_ret (s ++ flat_map enc_entry ts).
Proof.
  intros Hk. induction 1 as [|e te l ts [Hfst Hv] _ IH]; intros s Hsz; cbn [ser_entries flat_map].
  - rewrite app_nil_r. reflexivity.
  - cbn [flat_map] in Hsz. unfold enc_entry at 1 in Hsz. rewrite !app_length in Hsz. rewrite Hfst in Hsz.
    rewrite Hk by (rewrite app_length; lia). rewrite rs_bind_ret.
    rewrite Hv by (rewrite !app_length; lia). rewrite rs_bind_ret.
    rewrite IH by (rewrite !app_length; lia).
    unfold enc_entry at 2. rewrite Hfst. rewrite <- !app_assoc. reflexivity.
Qed.

Lemma Forall2_ins {V W} (R : prim * V -> prim * W -> Prop) e e' l l' :
  (forall x y, R x y -> fst y = fst x) -> R e e' -> Forall2 R l l' -> Forall2 R (ins_entry e l) (ins_entry e' l').
Proof.
  intros Hk He F. induction F as [|x y l l' Hxy F IH]; cbn [ins_entry]; [constructor; [exact He|constructor]|].
  rewrite (Hk _ _ He), (Hk _ _ Hxy). destruct (bytes_ltb _ _).
  - constructor; [exact Hxy|exact IH].
  - constructor; [exact He|]. constructor; [exact Hxy|exact F].
Qed.

Lemma Forall2_sort {V W} (R : prim * V -> prim * W -> Prop) l l' :
  (forall x y, R x y -> fst y = fst x) -> Forall2 R l l' -> Forall2 R (sort_entries l) (sort_entries l').
Proof.
  intros Hk F. induction F as [|x y l l' Hxy F IH]; [constructor|].
  rewrite !sort_entries_cons. apply Forall2_ins; assumption.
Qed.

Lemma theight_pos t : (1 <= theight t)%nat.
Proof. destruct t; cbn; lia. Qed.

Theorem serialize_accepts h base : forall f v t s,
  unfold h f v = Some t -> (theight t <= S max_struct_depth)%nat -> interop_free t = true ->
  base + N.of_nat (length (s ++ enc t)) <= max_ser_size ->
  h_serialize h base f v s = rs_ret (s ++ enc t).
Proof.
  induction f as [|f IH]; intros v t s E Hh Hi Hsz; [discriminate|].
  cbn [h_serialize]. rewrite (guarded_shallow _ _ _ (detect_top_shallow _ _ _ _ E Hh)).
  rewrite unfold_S in E.
  assert (Hprim : forall k s0, (1 <= f)%nat -> base + N.of_nat (length (s0 ++ enc_prim k)) <= max_ser_size ->
            h_serialize h base f (HPrim k) s0 = rs_ret (s0 ++ enc_prim k)).
  { intros k s0 Hf Hs0. destruct f as [|f']; [lia|]. apply (IH (HPrim k) (TPrim k) s0); [reflexivity|cbn; lia|reflexivity|exact Hs0]. }
  destruct v as [p|a|a|a|]; cbn [ser_body].
  - injection E as <-. cbn [enc] in *. apply check_size_fits. exact Hsz.
  - destruct (map_opt _ _) as [ts|] eqn:Em; [|discriminate]. injection E as <-.
    cbn [enc theight interop_free] in *. pose proof (map_opt_length _ _ _ Em) as Hlen.
    apply map_opt_Forall2 in Em. rewrite Hlen in Hsz |- *.
    rewrite (ser_list_accepts base _ _ ts).
    + rewrite rs_bind_ret. rewrite <- app_assoc. cbn [app]. apply check_size_fits. exact Hsz.
    + revert Em. apply Forall2_impl_in. intros x t _ Ht Hx s0 Hs0.
      apply IH; [exact Hx| |apply (forallb_In _ _ _ Hi Ht)|exact Hs0].
      pose proof (list_max_in theight ts t Ht). lia.
    + rewrite <- app_assoc. cbn [app]. exact Hsz.
  - destruct (map_opt _ _) as [ts|] eqn:Em; [|discriminate]. injection E as <-.
    cbn [enc theight interop_free] in *. pose proof (map_opt_length _ _ _ Em) as Hlen.
    apply map_opt_Forall2 in Em. rewrite Hlen in Hsz |- *.
    rewrite (ser_list_accepts base _ _ ts).
    + rewrite rs_bind_ret. rewrite <- app_assoc. cbn [app]. apply check_size_fits. exact Hsz.
    + revert Em. apply Forall2_impl_in. intros x t _ Ht Hx s0 Hs0.
      apply IH; [exact Hx| |apply (forallb_In _ _ _ Hi Ht)|exact Hs0].
      pose proof (list_max_in theight ts t Ht). lia.
    + rewrite <- app_assoc. cbn [app]. exact Hsz.
  - destruct (map_opt _ _) as [ts|] eqn:Em; [|discriminate]. injection E as <-.
    rewrite enc_map in *. cbn [theight interop_free] in *. pose proof (map_opt_length _ _ _ Em) as Hlen.
    apply map_opt_Forall2 in Em. rewrite Hlen in Hsz |- *.
    set (R := fun (e : prim * hval) (te : prim * tval) => fst te = fst e /\
       forall s0, base + N.of_nat (length (s0 ++ enc (snd te))) <= max_ser_size ->
         h_serialize h base f (snd e) s0 = rs_ret (s0 ++ enc (snd te))).
    assert (HR : Forall2 R (get_map h a) ts).
    { revert Em. apply Forall2_impl_in. intros e te _ Hte He. cbn beta in He.
      destruct (unfold h f (snd e)) as [tx|] eqn:Ex; [|discriminate]. injection He as <-. split; [reflexivity|].
      cbn [snd]. intros s0 Hs0. apply IH; [exact Ex| | |exact Hs0].
      - pose proof (list_max_in (fun e : prim * tval => theight (snd e)) ts (fst e, tx) Hte). cbn beta in H. cbn [snd] in H. lia.
      - apply (forallb_In _ _ _ Hi Hte). }
    assert (HRs : Forall2 R (sort_entries (get_map h a)) (sort_entries ts)).
    { apply Forall2_sort; [|exact HR]. intros x y [Hxy _]. exact Hxy. }
    destruct (get_map h a) as [|e0 es0] eqn:Eg.
    + inversion HR; subst. cbn [sort_entries fold_right ser_entries flat_map length] in *.
      rewrite rs_bind_ret. rewrite app_nil_r in *. apply check_size_fits. exact Hsz.
    + assert (Hf : (1 <= f)%nat).
      { inversion Em as [|? te ? ? He]; subst. cbn beta in He. destruct f; [discriminate|lia]. }
      rewrite (ser_entries_accepts base _ _ (sort_entries ts)).
      * rewrite rs_bind_ret. rewrite <- app_assoc. cbn [app]. apply check_size_fits. exact Hsz.
      * intros k s0 Hs0. apply Hprim; assumption.
      * exact HRs.
      * rewrite <- app_assoc. cbn [app]. exact Hsz.
  - injection E as <-. discriminate.
Qed.
