(** C43 — [DecompressBytes (CompressBytes d) (len d) = d] for the model of go-ethereum's
    bitutil compression (Model/Bloom.v §3), for every byte string. *)
From Coq Require Import List Bool Arith NArith ZArith Lia ZifyN ZifyNat ZifyBool.
Import ListNotations.
From Ont Require Import Lib.Bytes Model.Bloom.
Local Open Scope N_scope.
Ltac Zify.zify_post_hook ::= Z.to_euclidean_division_equations.

Lemma filter_nil_zeros d : filter nonzero d = [] -> d = repeat 0 (length d).
Proof.
  induction d as [|x r IH]; [reflexivity|]. simpl. unfold nonzero at 1.
  destruct (N.eqb_spec x 0) as [->|]; simpl; [|discriminate]. intro H; rewrite <- IH by exact H; reflexivity.
Qed.

Lemma filter_nil_existsb d : filter nonzero d = [] -> existsb nonzero d = false.
Proof.
  induction d as [|x r IH]; [reflexivity|]. simpl. destruct (nonzero x); [discriminate|]. exact IH.
Qed.

Lemma fill_pad n : forall i target rest p, (target <= i)%nat -> fill (repeat false n) i target rest p = Some ([], p).
Proof.
  induction n as [|n IH]; intros i target rest p H; [reflexivity|].
  simpl. rewrite IH by lia. replace (Nat.ltb i target) with false by (symmetry; apply Nat.ltb_ge; lia). reflexivity.
Qed.

Lemma fill_data d : forall i pad rest p,
  fill (map nonzero d ++ repeat false pad) i (i + length d) (filter nonzero d ++ rest) p
  = Some (d, (p + length (filter nonzero d))%nat).
Proof.
  induction d as [|x r IH]; intros i pad rest p.
  - simpl. rewrite fill_pad by lia. f_equal; f_equal; lia.
  - cbn [map app filter length]. destruct (nonzero x) eqn:Enz; unfold nonzero in Enz;
      [apply negb_true_iff in Enz; rename Enz into Hx|apply negb_false_iff, N.eqb_eq in Enz; subst x].
    2: {
      cbn [fill]. replace (i + S (length r))%nat with (S i + length r)%nat by lia.
      rewrite IH. replace (Nat.ltb i (S i + length r)) with true by (symmetry; apply Nat.ltb_lt; lia). reflexivity. }
    { cbn [fill app]. replace (Nat.leb (i + S (length r)) i) with false by (symmetry; apply Nat.leb_gt; lia).
      rewrite Hx.
      replace (i + S (length r))%nat with (S i + length r)%nat by lia.
      rewrite IH. cbn [length]. f_equal; f_equal; lia. }
Qed.

(** the bits of one group byte *)
Lemma group_bits g : (length g <= 8)%nat ->
  byte_bits (group_byte g 128) = map nonzero g ++ repeat false (8 - length g).
Proof.
  intro H. unfold nonzero.
  do 9 (destruct g as [|? g]; [cbn [group_byte map length];
       repeat match goal with |- context [N.eqb ?x 0] => destruct (N.eqb x 0) end; reflexivity|]).
  simpl in H; lia.
Qed.

Lemma nz_bitset_length n d : length (nz_bitset n d) = n.
Proof. revert d; induction n as [|n IH]; intro d; simpl; [reflexivity|rewrite IH; reflexivity]. Qed.

Lemma groups_step n : (8 <= n)%nat -> groups n = S (groups (n - 8)).
Proof. unfold groups; intro H. lia. Qed.

Lemma groups_small n : (0 < n < 8)%nat -> groups n = 1%nat.
Proof. unfold groups; intro H. lia. Qed.

Lemma nz_bitset_bits n : forall d, n = groups (length d) ->
  flat_map byte_bits (nz_bitset n d) = map nonzero d ++ repeat false (8 * n - length d).
Proof.
  induction n as [|n IH]; intros d Hn.
  - assert (length d = 0%nat) by (unfold groups in Hn; lia). destruct d; [reflexivity|discriminate].
  - cbn [nz_bitset flat_map].
    destruct (Nat.ltb (length d) 8) eqn:E.
    + apply Nat.ltb_lt in E.
      assert (Hd : (0 < length d)%nat) by (unfold groups in Hn; lia).
      assert (n = 0%nat) by (rewrite groups_small in Hn by lia; lia). subst n.
      rewrite firstn_all2 by lia. rewrite group_bits by lia. cbn [nz_bitset flat_map].
      rewrite app_nil_r. f_equal.
    + apply Nat.ltb_ge in E. rewrite groups_step in Hn by exact E.
      rewrite group_bits by (rewrite firstn_length; lia).
      rewrite firstn_length, Nat.min_l by exact E. cbn [repeat Nat.sub]. rewrite app_nil_r.
      rewrite IH by (rewrite skipn_length; lia).
      rewrite skipn_length, app_assoc, <- map_app, firstn_skipn. f_equal. f_equal. lia.
Qed.

Lemma byte_bits_zero : byte_bits 0 = repeat false 8.
Proof. reflexivity. Qed.

Lemma zero_bitset_bits b : existsb nonzero b = false -> forall x, In x (flat_map byte_bits b) -> x = false.
Proof.
  induction b as [|y r IH]; intros H x Hin; [destruct Hin|].
  simpl in H. apply orb_false_iff in H. destruct H as [Hy Hr].
  unfold nonzero in Hy. apply negb_false_iff, N.eqb_eq in Hy. subst y.
  cbn [flat_map] in Hin. apply in_app_or in Hin. destruct Hin as [Hin|Hin]; [|apply IH; assumption].
  rewrite byte_bits_zero in Hin. apply repeat_spec in Hin. exact Hin.
Qed.

Lemma nz_bitset_nonzero d : existsb nonzero d = true ->
  existsb nonzero (nz_bitset (groups (length d)) d) = true.
Proof.
  intro H. destruct (existsb nonzero (nz_bitset _ d)) eqn:E; [reflexivity|exfalso].
  apply existsb_exists in H. destruct H as [x [Hin Hx]].
  assert (Ht : In true (flat_map byte_bits (nz_bitset (groups (length d)) d))).
  { rewrite nz_bitset_bits by reflexivity. apply in_or_app; left. rewrite <- Hx. apply in_map, Hin. }
  apply (zero_bitset_bits _ E) in Ht. discriminate.
Qed.

Lemma skipn_app_exact {A : Type} (a b : list A) : skipn (length a) (a ++ b) = b.
Proof. induction a; simpl; auto. Qed.

Lemma dec_enc fuel : forall d e rest,
  bitset_encode fuel d = Some e -> (existsb nonzero d = true \/ rest = []) ->
  decode_partial fuel (e ++ rest) (length d) = DOk d (length e).
Proof.
  induction fuel as [|f IH]; intros d e rest He Hc; [discriminate|].
  destruct d as [|x [|y d']].
  - injection He as <-. reflexivity.
  - cbn [bitset_encode] in He. injection He as <-.
    cbn [decode_partial length Nat.eqb]. destruct (N.eqb_spec x 0) as [->|Hx].
    + destruct Hc as [Hc| ->]; [discriminate|]. reflexivity.
    + cbn [app]. apply N.eqb_neq in Hx; rewrite Hx. reflexivity.
  - set (d := x :: y :: d') in *.
    assert (Hlen : length d = S (S (length d'))) by reflexivity.
    change (bitset_encode (S f) d) with
      (match filter nonzero d with
       | [] => Some []
       | nz => match bitset_encode f (nz_bitset (groups (length d)) d) with
               | Some e => Some (e ++ nz) | None => None end
       end) in He.
    destruct (filter nonzero d) as [|n0 nz] eqn:Ef.
    + injection He as <-. destruct Hc as [Hc| ->]; [rewrite (filter_nil_existsb _ Ef) in Hc; discriminate|].
      cbn [app decode_partial]. rewrite Hlen. cbn [Nat.eqb]. rewrite <- Hlen.
      rewrite <- filter_nil_zeros by exact Ef. reflexivity.
    + destruct (bitset_encode f (nz_bitset (groups (length d)) d)) as [e1|] eqn:E1; [|discriminate].
      injection He as <-.
      assert (Hnz : existsb nonzero d = true).
      { apply existsb_exists. exists n0. assert (Hin : In n0 (filter nonzero d)) by (rewrite Ef; left; reflexivity).
        apply filter_In in Hin. exact Hin. }
      specialize (IH _ _ ((n0 :: nz) ++ rest) E1 (or_introl (nz_bitset_nonzero d Hnz))).
      rewrite nz_bitset_length in IH.
      rewrite <- app_assoc.
      cbn [decode_partial]. rewrite Hlen. cbn [Nat.eqb]. rewrite <- Hlen.
      destruct (e1 ++ (n0 :: nz) ++ rest) as [|x0 data'] eqn:Ed.
      { apply app_eq_nil in Ed. destruct Ed as [_ Ed]. discriminate. }
      rewrite IH. rewrite <- Ed.
      rewrite skipn_app_exact. rewrite nz_bitset_bits by reflexivity.
      rewrite <- Ef.
      rewrite (fill_data d 0 _ rest (length e1)). rewrite app_length. reflexivity.
Qed.

(** [length d + 1] levels always suffice *)
Lemma bitset_encode_total fuel : forall d, (length d < fuel)%nat -> bitset_encode fuel d <> None.
Proof.
  induction fuel as [|f IH]; intros d H; [lia|].
  destruct d as [|x [|y d']]; [discriminate|cbn; discriminate|].
  set (d := x :: y :: d') in *.
  change (bitset_encode (S f) d) with
      (match filter nonzero d with
       | [] => Some []
       | nz => match bitset_encode f (nz_bitset (groups (length d)) d) with
               | Some e => Some (e ++ nz) | None => None end
       end).
  destruct (filter nonzero d); [discriminate|].
  assert (Hg : (groups (length d) < f)%nat).
  { assert (length d = S (S (length d'))) by reflexivity. unfold groups. lia. }
  specialize (IH (nz_bitset (groups (length d)) d)). rewrite nz_bitset_length in IH.
  destruct (bitset_encode f _); [discriminate|]. exfalso; apply IH; [exact Hg|reflexivity].
Qed.

Theorem decompress_compress d : decompress_bytes (compress_bytes d) (length d) = Some d.
Proof.
  assert (Hsame : decompress_bytes d (length d) = Some d).
  { unfold decompress_bytes. rewrite Nat.ltb_irrefl, Nat.eqb_refl. reflexivity. }
  unfold compress_bytes. destruct (bitset_encode (S (length d)) d) as [out|] eqn:E; [|exact Hsame].
  destruct (Nat.ltb (length out) (length d)) eqn:L; [|exact Hsame].
  apply Nat.ltb_lt in L. unfold decompress_bytes.
  replace (Nat.ltb (length d) (length out)) with false by (symmetry; apply Nat.ltb_ge; lia).
  replace (Nat.eqb (length out) (length d)) with false by (symmetry; apply Nat.eqb_neq; lia).
  assert (H := dec_enc _ _ _ [] E (or_intror eq_refl)). rewrite app_nil_r in H. rewrite H.
  rewrite Nat.eqb_refl. reflexivity.
Qed.

(** compression loses nothing: two vectors of the same length with the same compressed form are equal *)
Lemma compress_injective d1 d2 :
  length d1 = length d2 -> compress_bytes d1 = compress_bytes d2 -> d1 = d2.
Proof.
  intros L E. pose proof (decompress_compress d1) as R1.
  rewrite E, L, decompress_compress in R1. injection R1 as R1. symmetry. exact R1.
Qed.
