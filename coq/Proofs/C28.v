From Coq Require Import List ZArith Lia Arith.
Import ListNotations.
From Ont Require Import Lib.Quorum Gen.Thresholds.

Ltac Zify.zify_post_hook ::= Z.to_euclidean_division_equations.
Local Open Scope Z_scope.

(** The property, for a threshold q that may depend on N and C: two signer sets that each meet
    the threshold share a peer outside any fault set of at most C peers. *)
Definition intersects_honestly (q : Z -> Z -> Z) : Prop :=
  forall (P A B F : list nat) (c : nat),
    3 * Z.of_nat c + 1 <= Z.of_nat (length P) ->
    NoDup A -> NoDup B -> incl A P -> incl B P ->
    q (Z.of_nat (length P)) (Z.of_nat c) <= Z.of_nat (length A) ->
    q (Z.of_nat (length P)) (Z.of_nat c) <= Z.of_nat (length B) ->
    (length F <= c)%nat ->
    exists x, In x A /\ In x B /\ ~ In x F.

(** Arithmetic core, discharged per generated formula by lia. *)
Definition quorum_arith (q : Z -> Z -> Z) : Prop :=
  forall n c, 0 <= c -> 3 * c + 1 <= n -> c + 1 + n <= 2 * q n c.

Lemma arith_intersects q : quorum_arith q -> intersects_honestly q.
Proof.
  intros Hq P A B F c Hn HA HB HAP HBP HqA HqB HF.
  specialize (Hq (Z.of_nat (length P)) (Z.of_nat c) ltac:(lia) Hn).
  set (qq := Z.to_nat (q (Z.of_nat (length P)) (Z.of_nat c))).
  apply (quorum_intersect_honest nat Nat.eq_dec P A B F qq c); try assumption; unfold qq; lia.
Qed.

Lemma verify_block_arith : quorum_arith (fun n _ => verify_block_m n).
Proof. unfold quorum_arith, verify_block_m; intros; lia. Qed.
Lemma ledger_header_solo_arith : quorum_arith (fun n _ => ledger_header_solo_m n).
Proof. unfold quorum_arith, ledger_header_solo_m; intros; lia. Qed.
Lemma crosschain_msg_arith : quorum_arith (fun n _ => crosschain_msg_m n).
Proof. unfold quorum_arith, crosschain_msg_m; intros; lia. Qed.
Lemma addr_bookkeepers_arith : quorum_arith (fun n _ => addr_bookkeepers_m n).
Proof. unfold quorum_arith, addr_bookkeepers_m; intros; lia. Qed.
Lemma vbft_cfg_arith : quorum_arith (fun n _ => vbft_cfg_m n).
Proof. unfold quorum_arith, vbft_cfg_m; intros; lia. Qed.
(** getCommitConsensus: `have k >= need n` where `have k` counts the k distinct committers and
    endorsers plus the proposer, so the signer set (proposer included) has >= need n members. *)
Lemma commit_consensus_arith : quorum_arith (fun n _ => commit_consensus_need n).
Proof. unfold quorum_arith, commit_consensus_need; intros; lia. Qed.
Lemma commit_consensus_have_counts_proposer : forall k, commit_consensus_have k = k + 1.
Proof. intro k; unfold commit_consensus_have; lia. Qed.
(** commitDone (signature path): declared when endorseCnt > C', C' = commit_done_c n. *)
Lemma commit_done_arith : quorum_arith (fun n _ => commit_done_c n + 1).
Proof. unfold quorum_arith, commit_done_c; intros; lia. Qed.

(** Achievability: every threshold can be met by some set (q n <= n), so the statements are
    not vacuous. *)
Lemma thresholds_achievable n : 1 <= n ->
  verify_block_m n <= n /\ ledger_header_solo_m n <= n /\ crosschain_msg_m n <= n /\
  addr_bookkeepers_m n <= n /\ vbft_cfg_m n <= n /\ commit_consensus_need n <= n /\
  commit_done_c n + 1 <= n.
Proof.
  unfold verify_block_m, ledger_header_solo_m, crosschain_msg_m, addr_bookkeepers_m, vbft_cfg_m,
    commit_consensus_need, commit_done_c; intros; repeat split; lia.
Qed.

(** The VBFT header-sync branch: needs m = n - 6n/7 signatures and c+1 distinct listed keys. *)
Definition header_vbft_q (n c : Z) : Z := Z.max (ledger_header_vbft_m n) (ledger_header_vbft_distinct c).

Lemma header_vbft_refuted : ~ intersects_honestly header_vbft_q.
Proof.
  intro H.
  specialize (H [0;1;2;3;4;5;6]%nat [0;1;2]%nat [3;4;5]%nat [] 2%nat).
  destruct H as [x [HA [HB _]]].
  - simpl; lia.
  - repeat constructor; simpl; intuition discriminate.
  - repeat constructor; simpl; intuition discriminate.
  - intros x Hx; simpl in *; intuition.
  - intros x Hx; simpl in *; intuition.
  - vm_compute; discriminate.
  - vm_compute; discriminate.
  - simpl; lia.
  - simpl in HA, HB; intuition; subst; discriminate.
Qed.
