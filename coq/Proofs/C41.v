(** C41 — proofs about Model/Auth.v (native auth contract). *)
From Coq Require Import List Bool NArith Lia ZifyN ZifyBool.
Import ListNotations.
From Ont Require Import Lib.Bytes Gen.AuthConsts Model.Auth Model.AuthSpec.
Local Open Scope N_scope.
Open Scope bool_scope.

(** * Meaning of the regenerated conditions (these are the proofs a changed operator breaks). *)
Lemma vt_token_expired_spec e n : vt_token_expired e n = true <-> e < n.
Proof. unfold vt_token_expired. apply N.ltb_lt. Qed.
Lemma vt_deleg_expired_spec e n : vt_deleg_expired e n = true <-> e < n.
Proof. unfold vt_deleg_expired. apply N.ltb_lt. Qed.
Lemma gat_deleg_live_spec n e : gat_deleg_live n e = true <-> n < e.
Proof. unfold gat_deleg_live. apply N.ltb_lt. Qed.
Lemma del_allowed_spec l fl e fe : del_allowed l fl e fe = true <-> l < fl /\ 0 < l /\ e < fe.
Proof. unfold del_allowed. rewrite !andb_true_iff, !N.ltb_lt. tauto. Qed.
Lemma del_overflow_spec p n : p < 4294967296 -> n < 4294967296 ->
  (del_overflow p n = false <-> n + p < 4294967296).
Proof.
  intros Hp Hn. unfold del_overflow. rewrite N.ltb_ge. split; intro H.
  - destruct (N.lt_ge_cases (n + p) 4294967296) as [L|G]; [exact L|exfalso].
    assert (E : (p + n) mod 4294967296 = p + n - 4294967296).
    { rewrite <- (N.mod_small (p + n - 4294967296) 4294967296) by lia.
      replace (p + n) with ((p + n - 4294967296) + 1 * 4294967296) at 1 by lia.
      apply N.mod_add. discriminate. }
    lia.
  - rewrite N.mod_small by lia. lia.
Qed.
Lemma del_param_too_large_spec l p : del_param_too_large l p = false <-> l <= 127 /\ p <= 4294967295.
Proof. unfold del_param_too_large. rewrite orb_false_iff, !N.ltb_ge. tauto. Qed.
Lemma del_entry_ok_of_param l p : l <= 127 -> p <= 4294967295 -> del_entry_too_large p l = false.
Proof. intros. unfold del_entry_too_large. rewrite orb_false_iff, !N.ltb_ge. lia. Qed.
Lemma admin_level_can_delegate : ADMIN_TOKEN_LEVEL = DELEGATOR_LEVEL.
Proof. reflexivity. Qed.

(** * Maps, byte strings *)
Lemma bytes_eqb_refl a : bytes_eqb a a = true.
Proof. apply bytes_eqb_eq; reflexivity. Qed.
Lemma bytes_eqb_neq a b : bytes_eqb a b = false <-> a <> b.
Proof.
  split.
  - intros H E. apply bytes_eqb_eq in E. congruence.
  - intro H. destruct (bytes_eqb a b) eqn:E; [apply bytes_eqb_eq in E; contradiction|reflexivity].
Qed.
Lemma bytes_eq_dec (a b : bytes) : {a = b} + {a <> b}.
Proof. destruct (bytes_eqb a b) eqn:E; [left; apply bytes_eqb_eq; exact E|right; apply bytes_eqb_neq; exact E]. Qed.

Lemma key_eqb_eq a b : key_eqb a b = true <-> a = b.
Proof.
  destruct a as [a1 a2], b as [b1 b2]. unfold key_eqb; simpl.
  rewrite andb_true_iff, !bytes_eqb_eq. split; [intros [-> ->]; reflexivity|intro H; inversion H; auto].
Qed.
Lemma key_eqb_refl a : key_eqb a a = true.
Proof. apply key_eqb_eq; reflexivity. Qed.
Lemma key_eqb_neq a b : a <> b -> key_eqb a b = false.
Proof. intro H. destruct (key_eqb a b) eqn:E; [apply key_eqb_eq in E; contradiction|reflexivity]. Qed.
Lemma key_eq_dec (a b : key) : {a = b} + {a <> b}.
Proof. destruct (key_eqb a b) eqn:E; [left; apply key_eqb_eq; exact E|right; intro H; apply key_eqb_eq in H; congruence]. Qed.

Lemma fput_same {V} (m : fmap V) k v : fput m k v k = Some v.
Proof. unfold fput. rewrite key_eqb_refl. reflexivity. Qed.
Lemma fput_other {V} (m : fmap V) k v k' : k' <> k -> fput m k v k' = m k'.
Proof. intro H. unfold fput. rewrite key_eqb_neq by exact H. reflexivity. Qed.

Lemma bytes_cmp_eq a b : bytes_cmp a b = Eq <-> a = b.
Proof.
  revert b; induction a as [|x a IH]; intros [|y b]; simpl; split; intro H; try reflexivity; try discriminate.
  - destruct (N.compare x y) eqn:C; try discriminate. apply N.compare_eq in C. apply IH in H. subst; reflexivity.
  - inversion H; subst. rewrite N.compare_refl. apply IH; reflexivity.
Qed.

Lemma In_ins_uniq x f l : In x (ins_uniq f l) <-> x = f \/ In x l.
Proof.
  induction l as [|g l IH]; simpl.
  - intuition.
  - destruct (bytes_cmp f g) eqn:C; simpl.
    + apply bytes_cmp_eq in C; subst. intuition.
    + intuition.
    + rewrite IH. intuition.
Qed.

Lemma In_dedup_sort x l : In x (dedup_sort l) <-> In x l /\ x <> [].
Proof.
  unfold dedup_sort. induction l as [|f l IH]; simpl.
  - tauto.
  - destruct f as [|b f']; simpl.
    + rewrite IH. split; [intros [H1 H2]; split; auto|intros [[H|H] H2]; [congruence|auto]].
    + rewrite In_ins_uniq, IH. split.
      * intros [->|[H1 H2]]; split; auto; discriminate.
      * intros [[H|H] H2]; [left; auto|right; auto].
Qed.

Lemma contains_func_spec fs fn : contains_func fs fn = true <-> In fn fs.
Proof.
  unfold contains_func. rewrite existsb_exists. split.
  - intros [x [Hx E]]. apply bytes_eqb_eq in E; subst; exact Hx.
  - intro H. exists fn. split; [exact H|apply bytes_eqb_refl].
Qed.

(** First match of a key that is unique in the list. *)
Lemma find_unique {A} (f : A -> bytes) (l : list A) (d : A) :
  NoDup (map f l) -> In d l -> find (fun x => bytes_eqb (f x) (f d)) l = Some d.
Proof.
  induction l as [|x l IH]; simpl; intros ND Hin; [contradiction|].
  inversion ND as [|? ? Hnot ND']; subst.
  destruct Hin as [->|Hin].
  - rewrite bytes_eqb_refl. reflexivity.
  - destruct (bytes_eqb (f x) (f d)) eqn:E.
    + apply bytes_eqb_eq in E. exfalso. apply Hnot. rewrite E. apply in_map. exact Hin.
    + apply IH; assumption.
Qed.

Lemma find_role_some (l : list dstat) r d :
  find (fun x => bytes_eqb (d_role x) r) l = Some d -> In d l /\ d_role d = r.
Proof. intro H. apply find_some in H. destruct H as [H1 H2]. apply bytes_eqb_eq in H2. auto. Qed.

(** * verifyToken on an invariant state (T1) *)
Lemma fn_assigned_spec s c r f :
  fn_assigned s c r f = true <-> exists fs, get_role_func s c r = Some fs /\ In f fs.
Proof.
  unfold fn_assigned. destruct (get_role_func s c r) as [fs|].
  - rewrite contains_func_spec. split; [intro H; exists fs; auto|intros [fs' [E H]]; inversion E; subst; exact H].
  - split; [discriminate|intros [fs [E _]]; discriminate].
Qed.

Lemma holds_direct_spec s c id r :
  holds_direct s c id r = true <-> exists t, In t (opt_list (s_tokens s (c, id))) /\ t_role t = r.
Proof.
  unfold holds_direct. rewrite existsb_exists. unfold tok_has_role.
  split; intros [t [H1 H2]]; exists t; split; auto; apply bytes_eqb_eq; exact H2.
Qed.

Lemma inv_tokens s c id t : Inv s -> In t (opt_list (s_tokens s (c, id))) ->
  t_expire t = AUTH_FUTURE /\ t_level t = ADMIN_TOKEN_LEVEL.
Proof.
  intros [I1 _] H. destruct (s_tokens s (c, id)) as [ts|] eqn:E; simpl in H; [|contradiction].
  specialize (I1 _ _ _ E). unfold tokens_ok in I1. rewrite Forall_forall in I1. apply I1; exact H.
Qed.

Lemma inv_delegs s c id : Inv s -> delegs_ok s c (opt_list (s_deleg s (c, id))).
Proof.
  intros [_ I2]. destruct (s_deleg s (c, id)) as [ds|] eqn:E; simpl.
  - apply (I2 _ _ _ E).
  - split; constructor.
Qed.

Lemma deleg_of_in s c id d : Inv s -> In d (opt_list (s_deleg s (c, id))) -> deleg_of s c id (d_role d) = Some d.
Proof.
  intros I H. unfold deleg_of. apply (find_unique d_role); [apply (inv_delegs s c id I)|exact H].
Qed.

Lemma deleg_of_some s c id r d : deleg_of s c id r = Some d ->
  In d (opt_list (s_deleg s (c, id))) /\ d_role d = r.
Proof. unfold deleg_of. apply find_role_some. Qed.

Lemma verify_token_state s e c caller fn k : Inv s ->
  (verify_token s e c caller fn k = RTrue <->
   e_sig e caller k = SigOk /\
   exists r, fn_assigned s c r fn = true /\
     ((holds_direct s c caller r = true /\ e_now e <= AUTH_FUTURE) \/
      (exists d, deleg_of s c caller r = Some d /\ e_now e <= d_expire d))).
Proof.
  intro I. unfold verify_token.
  destruct (e_sig e caller k); try (split; [discriminate|intros [H _]; discriminate]).
  split.
  - intro H. split; [reflexivity|].
    destruct (existsb (tok_grants s (e_now e) c fn) (opt_list (s_tokens s (c, caller)))) eqn:E1.
    + apply existsb_exists in E1. destruct E1 as [t [Ht G]]. unfold tok_grants in G.
      destruct (get_role_func s c (t_role t)) as [fs|] eqn:EF; [|discriminate].
      apply andb_true_iff in G. destruct G as [G1 G2].
      exists (t_role t). split.
      * apply fn_assigned_spec. exists fs. split; [exact EF|apply contains_func_spec; exact G2].
      * left. split; [apply holds_direct_spec; exists t; auto|].
        destruct (inv_tokens s c caller t I Ht) as [Ex _]. rewrite Ex in G1.
        apply negb_true_iff in G1. destruct (N.le_gt_cases (e_now e) AUTH_FUTURE) as [L|G]; [exact L|].
        apply vt_token_expired_spec in G. congruence.
    + destruct (existsb (del_grants s (e_now e) c fn) (opt_list (s_deleg s (c, caller)))) eqn:E2; [|discriminate].
      apply existsb_exists in E2. destruct E2 as [d [Hd G]]. unfold del_grants in G.
      destruct (get_role_func s c (d_role d)) as [fs|] eqn:EF; [|discriminate].
      apply andb_true_iff in G. destruct G as [G1 G2].
      exists (d_role d). split.
      * apply fn_assigned_spec. exists fs. split; [exact EF|apply contains_func_spec; exact G2].
      * right. exists d. split; [apply deleg_of_in; assumption|].
        apply negb_true_iff in G1. destruct (N.le_gt_cases (e_now e) (d_expire d)) as [L|G]; [exact L|].
        apply vt_deleg_expired_spec in G. congruence.
  - intros [_ [r [HF HR]]]. apply fn_assigned_spec in HF. destruct HF as [fs [EF HF]].
    destruct HR as [[HD HN]|[d [HD HN]]].
    + apply holds_direct_spec in HD. destruct HD as [t [Ht Er]].
      assert (G : existsb (tok_grants s (e_now e) c fn) (opt_list (s_tokens s (c, caller))) = true).
      { apply existsb_exists. exists t. split; [exact Ht|]. unfold tok_grants. rewrite Er, EF.
        apply andb_true_iff. split; [|apply contains_func_spec; exact HF].
        destruct (inv_tokens s c caller t I Ht) as [Ex _]. rewrite Ex.
        apply negb_true_iff. destruct (vt_token_expired AUTH_FUTURE (e_now e)) eqn:V; [|reflexivity].
        apply vt_token_expired_spec in V. lia. }
      rewrite G. reflexivity.
    + apply deleg_of_some in HD. destruct HD as [Hd Er].
      assert (G : existsb (del_grants s (e_now e) c fn) (opt_list (s_deleg s (c, caller))) = true).
      { apply existsb_exists. exists d. split; [exact Hd|]. unfold del_grants. rewrite Er, EF.
        apply andb_true_iff. split; [|apply contains_func_spec; exact HF].
        apply negb_true_iff. destruct (vt_deleg_expired (d_expire d) (e_now e)) eqn:V; [|reflexivity].
        apply vt_deleg_expired_spec in V. lia. }
      rewrite G. destruct (existsb (tok_grants s (e_now e) c fn) (opt_list (s_tokens s (c, caller)))); reflexivity.
Qed.

(** * getAuthToken in terms of the observers *)
Lemma find_none_iff {A} (f : A -> bool) l : find f l = None <-> forall x, In x l -> f x = false.
Proof.
  induction l as [|y l IH]; simpl.
  - split; [intros _ x []|reflexivity].
  - destruct (f y) eqn:E.
    + split; [discriminate|]. intro H. specialize (H y (or_introl eq_refl)). congruence.
    + rewrite IH. split; [intros H x [->|Hx]; auto|intros H x Hx; apply H; right; exact Hx].
Qed.

Lemma holds_direct_false s c id r :
  holds_direct s c id r = false <-> find (tok_has_role r) (opt_list (s_tokens s (c, id))) = None.
Proof.
  unfold holds_direct. rewrite find_none_iff. split.
  - intros H x Hx. destruct (tok_has_role r x) eqn:E; [|reflexivity].
    assert (existsb (tok_has_role r) (opt_list (s_tokens s (c, id))) = true) by (apply existsb_exists; eauto). congruence.
  - intro H. destruct (existsb _ _) eqn:E; [|reflexivity]. apply existsb_exists in E. destruct E as [x [Hx Ex]].
    rewrite (H x Hx) in Ex. discriminate.
Qed.

Lemma find_live_none s now c id r : Inv s ->
  (find (del_live_role now r) (opt_list (s_deleg s (c, id))) = None <-> ~ deleg_running s now c id r).
Proof.
  intro I. rewrite find_none_iff. unfold deleg_running. split.
  - intros H [d [E L]]. apply deleg_of_some in E. destruct E as [Hd Er].
    specialize (H d Hd). unfold del_live_role in H. rewrite Er, bytes_eqb_refl in H. simpl in H.
    apply gat_deleg_live_spec in L. congruence.
  - intros H d Hd. unfold del_live_role. destruct (bytes_eqb (d_role d) r) eqn:E; [|reflexivity]. simpl.
    destruct (gat_deleg_live now (d_expire d)) eqn:L; [|reflexivity]. exfalso. apply H.
    apply bytes_eqb_eq in E. exists d. split; [rewrite <- E; apply deleg_of_in; assumption|apply gat_deleg_live_spec; exact L].
Qed.

Lemma gat_none s now c id r : Inv s ->
  (get_auth_token s now c id r = None <-> holds_direct s c id r = false /\ ~ deleg_running s now c id r).
Proof.
  intro I. unfold get_auth_token. rewrite holds_direct_false, <- (find_live_none s now c id r I).
  destruct (find (tok_has_role r) _) eqn:E1.
  - split; [discriminate|intros [H _]; discriminate].
  - destruct (find (del_live_role now r) _) eqn:E2.
    + split; [discriminate|intros [_ H]; discriminate].
    + tauto.
Qed.

Lemma gat_some_cases s now c id r t : Inv s -> get_auth_token s now c id r = Some t ->
  (holds_direct s c id r = true /\ t_expire t = AUTH_FUTURE /\ t_level t = ADMIN_TOKEN_LEVEL) \/
  (holds_direct s c id r = false /\ t_level t < DELEGATOR_LEVEL).
Proof.
  intros I H. unfold get_auth_token in H.
  destruct (find (tok_has_role r) (opt_list (s_tokens s (c, id)))) as [t0|] eqn:E1.
  - inversion H; subst t0. apply find_some in E1. destruct E1 as [Hin Hr]. left.
    destruct (inv_tokens s c id t I Hin) as [A B]. repeat split; auto.
    apply holds_direct_spec. exists t. split; [exact Hin|apply bytes_eqb_eq; exact Hr].
  - right. split; [apply holds_direct_false; exact E1|].
    destruct (find (del_live_role now r) (opt_list (s_deleg s (c, id)))) as [d|] eqn:E2; [|discriminate].
    inversion H; subst t. apply find_some in E2. destruct E2 as [Hin _].
    destruct (inv_delegs s c id I) as [_ F]. rewrite Forall_forall in F. apply (F d Hin).
Qed.

Lemma gat_direct s now c id r : Inv s -> holds_direct s c id r = true ->
  exists t, get_auth_token s now c id r = Some t /\ t_expire t = AUTH_FUTURE /\ t_level t = ADMIN_TOKEN_LEVEL.
Proof.
  intros I H. destruct (get_auth_token s now c id r) as [t|] eqn:E.
  - exists t. split; [reflexivity|]. destruct (gat_some_cases s now c id r t I E) as [[_ [A B]]|[A _]]; [auto|congruence].
  - apply gat_none in E; [|exact I]. destruct E as [E _]. congruence.
Qed.

(** * Effects of the setters on the observers *)
Lemma holds_direct_ext s s' c id r : s_tokens s' (c, id) = s_tokens s (c, id) -> holds_direct s' c id r = holds_direct s c id r.
Proof. intro H. unfold holds_direct. rewrite H. reflexivity. Qed.
Lemma deleg_of_ext s s' c id r : s_deleg s' (c, id) = s_deleg s (c, id) -> deleg_of s' c id r = deleg_of s c id r.
Proof. intro H. unfold deleg_of. rewrite H. reflexivity. Qed.
Lemma fn_assigned_ext s s' c r f : s_funcs s' (c, r) = s_funcs s (c, r) -> fn_assigned s' c r f = fn_assigned s c r f.
Proof. intro H. unfold fn_assigned, get_role_func. rewrite H. reflexivity. Qed.

Lemma deleg_running_ext s s' now c id r : s_deleg s' (c, id) = s_deleg s (c, id) ->
  (deleg_running s' now c id r <-> deleg_running s now c id r).
Proof. intro H. unfold deleg_running. rewrite (deleg_of_ext s s' c id r H). tauto. Qed.

Lemma blocked_ext s s' now c id r : s_deleg s' (c, id) = s_deleg s (c, id) -> s_tokens s' (c, id) = s_tokens s (c, id) ->
  (blocked s' now c id r <-> blocked s now c id r).
Proof.
  intros H1 H2. unfold blocked. rewrite (holds_direct_ext s s' c id r H2), (deleg_running_ext s s' now c id r H1).
  unfold has_token_record. rewrite H2. tauto.
Qed.

